/-
C34 — forward simulation Event model → `Spec.Event`.

Abstraction `absF`: waiting = the pending entries of `_waiters`, timers = the timers of pending waits.  Invariants at
op boundaries: `Inv` (Lemmas.lean), `WS` (`_waiters` ids strictly increasing and in range: ids are appended in creation
order), `TInv` (every scheduled timer belongs to a pending wait) and `NotDue` (no scheduled timer is due: every step
ends with a drain and the clock only moves in `advance`).  The specification does not expire anything in `set`,
`clear`, `cancel`; the model always drains: `NotDue` makes that drain a no-op (`expire_of_notDue`).

Resolution lists: the model resolves `sortNat ids` one by one, the specification filters its ascending `waiting`
list; both are strictly increasing with the same members, hence equal (`sorted_ext`) — no reasoning about `sortEvs`.
-/
import TornadoModel.C33.Refine
import TornadoModel.C34.Lemmas
namespace TornadoModel.C34.Event
open TornadoModel.C33 (FState Ev Timer isPend minTimer isPend_set isPend_set_ne isPend_set_self
  isPend_lt isPend_append_lt isPend_append_self isPend_append isPend_set_eq isPend_append_dead filter_drop
  filter_dropT)

/-! ### sorted lists -/

theorem sorted_ext {l1 l2 : List Nat} (h1 : l1.Pairwise (· < ·)) (h2 : l2.Pairwise (· < ·))
    (h : ∀ x, x ∈ l1 ↔ x ∈ l2) : l1 = l2 := by
  induction l1 generalizing l2 with
  | nil =>
    cases l2 with
    | nil => rfl
    | cons b l2 =>
      have : b ∈ ([] : List Nat) := (h b).mpr (by simp)
      simp at this
  | cons a l1 ih =>
    cases l2 with
    | nil =>
      have : a ∈ ([] : List Nat) := (h a).mp (by simp)
      simp at this
    | cons b l2 =>
      obtain ⟨ha, h1'⟩ := List.pairwise_cons.mp h1
      obtain ⟨hb, h2'⟩ := List.pairwise_cons.mp h2
      have hab : a = b := by
        by_cases e : a = b
        · exact e
        · have m1 : a ∈ l2 := by
            rcases List.mem_cons.mp ((h a).mp (by simp)) with h' | h'
            · exact absurd h' e
            · exact h'
          have m2 : b ∈ l1 := by
            rcases List.mem_cons.mp ((h b).mpr (by simp)) with h' | h'
            · exact absurd h'.symm e
            · exact h'
          have q1 := ha b m2
          have q2 := hb a m1
          omega
      subst hab
      have ht : l1 = l2 := by
        apply ih h1' h2'
        intro x
        constructor
        · intro hx
          rcases List.mem_cons.mp ((h x).mp (List.mem_cons_of_mem _ hx)) with h' | h'
          · have q := ha x hx; omega
          · exact h'
        · intro hx
          rcases List.mem_cons.mp ((h x).mpr (List.mem_cons_of_mem _ hx)) with h' | h'
          · have q := hb x hx; omega
          · exact h'
      rw [ht]

theorem insNat_sorted {x : Nat} {l : List Nat} (h : l.Pairwise (· ≤ ·)) : (insNat x l).Pairwise (· ≤ ·) := by
  induction l with
  | nil => simp [insNat]
  | cons u us ih =>
    simp only [insNat]
    split
    · rename_i hle
      refine List.Pairwise.cons ?_ h
      intro y hy
      rcases List.mem_cons.mp hy with e | hy
      · omega
      · have := List.rel_of_pairwise_cons h hy; omega
    · rename_i hgt
      refine List.Pairwise.cons ?_ (ih h.of_cons)
      intro y hy
      rcases mem_insNat.mp hy with e | hy
      · omega
      · exact List.rel_of_pairwise_cons h hy

theorem foldl_insNat_sorted (l acc : List Nat) (h : acc.Pairwise (· ≤ ·)) :
    (l.foldl (fun acc x => insNat x acc) acc).Pairwise (· ≤ ·) := by
  induction l generalizing acc with
  | nil => exact h
  | cons a l ih => exact ih _ (insNat_sorted h)

theorem sortNat_sorted (l : List Nat) : (sortNat l).Pairwise (· ≤ ·) :=
  foldl_insNat_sorted l [] (by simp)

/-! ### `resolveAll`: which waits it resolves, in which order, and what is pending afterwards -/

theorem resolveAll_cons_pos {futs : List FState} {v : FState} {a : Nat} {ws : List Nat}
    (h : isPend futs a = true) :
    resolveAll futs v (a :: ws) =
      ((resolveAll (futs.set a v) v ws).1, (a, v) :: (resolveAll (futs.set a v) v ws).2) := by
  rcases hr : resolveAll (futs.set a v) v ws with ⟨f2, e2⟩
  simp [resolveAll, h, hr]

theorem resolveAll_evs_map (futs : List FState) (v : FState) (ws : List Nat) :
    (resolveAll futs v ws).2 = ((resolveAll futs v ws).2.map (·.1)).map (fun w => (w, v)) := by
  induction ws generalizing futs with
  | nil => rfl
  | cons a ws ih =>
    by_cases ha : isPend futs a = true
    · rw [resolveAll_cons_pos ha]
      simp only [List.map_cons]
      rw [← ih]
    · rw [resolveAll_neg (by simpa using ha)]
      exact ih _

theorem resolveAll_ids {futs : List FState} {v : FState} (hv : v ≠ .pending) {ws : List Nat}
    (hs : ws.Pairwise (· ≤ ·)) :
    ((resolveAll futs v ws).2.map (·.1)).Pairwise (· < ·) ∧
      ∀ x, x ∈ (resolveAll futs v ws).2.map (·.1) ↔ (x ∈ ws ∧ isPend futs x = true) := by
  induction ws generalizing futs with
  | nil => simp [resolveAll]
  | cons a ws ih =>
    obtain ⟨ha_le, hs'⟩ := List.pairwise_cons.mp hs
    by_cases ha : isPend futs a = true
    · rw [resolveAll_cons_pos ha]
      simp only [List.map_cons]
      obtain ⟨i1, i2⟩ := ih (futs := futs.set a v) hs'
      constructor
      · refine List.Pairwise.cons ?_ i1
        intro x hx
        obtain ⟨hxw, hxp⟩ := (i2 x).mp hx
        have q1 := (isPend_set hv hxp).2
        have q2 := ha_le x hxw
        omega
      · intro x
        rw [List.mem_cons, i2 x]
        constructor
        · rintro (e | ⟨hxw, hxp⟩)
          · rw [e]; exact ⟨by simp, ha⟩
          · exact ⟨List.mem_cons_of_mem _ hxw, (isPend_set hv hxp).1⟩
        · rintro ⟨hxw, hxp⟩
          by_cases e : x = a
          · exact Or.inl e
          · right
            refine ⟨?_, ?_⟩
            · rcases List.mem_cons.mp hxw with h' | h'
              · exact absurd h' e
              · exact h'
            · rw [isPend_set_ne e]; exact hxp
    · have ha' : isPend futs a = false := by simpa using ha
      rw [resolveAll_neg ha']
      obtain ⟨i1, i2⟩ := ih (futs := futs) hs'
      refine ⟨i1, fun x => ?_⟩
      rw [i2 x]
      constructor
      · rintro ⟨hxw, hxp⟩
        exact ⟨List.mem_cons_of_mem _ hxw, hxp⟩
      · rintro ⟨hxw, hxp⟩
        rcases List.mem_cons.mp hxw with h' | h'
        · rw [h', ha'] at hxp; cases hxp
        · exact ⟨h', hxp⟩

theorem isPend_resolveAll_eq {futs : List FState} {v : FState} (hv : v ≠ .pending) (ws : List Nat) (x : Nat) :
    isPend (resolveAll futs v ws).1 x = (isPend futs x && !ws.contains x) := by
  induction ws generalizing futs with
  | nil => simp [resolveAll]
  | cons a ws ih =>
    by_cases ha : isPend futs a = true
    · rw [resolveAll_pos ha, ih, isPend_set_eq hv]
      by_cases e : x = a
      · subst e; simp
      · simp [e]
    · have ha' : isPend futs a = false := by simpa using ha
      rw [resolveAll_neg ha', ih]
      by_cases e : x = a
      · subst e; simp [ha']
      · simp [e]

theorem resolveAll_dead {futs : List FState} (hd : ∀ x, isPend futs x = false) (v : FState) (ws : List Nat) :
    resolveAll futs v ws = (futs, []) := by
  induction ws with
  | nil => rfl
  | cons a ws ih => rw [resolveAll_neg (hd a)]; exact ih

/-- the events of `resolveAll` over a sorted id list = the given strictly increasing list with the same members -/
theorem resolveAll_evs_eq {futs : List FState} {v : FState} (hv : v ≠ .pending) {ws l : List Nat}
    (hs : ws.Pairwise (· ≤ ·)) (hl : l.Pairwise (· < ·))
    (hm : ∀ x, x ∈ l ↔ (x ∈ ws ∧ isPend futs x = true)) :
    (resolveAll futs v ws).2 = l.map (fun w => (w, v)) := by
  obtain ⟨i1, i2⟩ := resolveAll_ids (futs := futs) hv hs
  rw [resolveAll_evs_map]
  congr 1
  exact sorted_ext i1 hl (fun x => by rw [i2 x, hm x])

/-! ### abstraction and invariants -/

def absF (s : St) : Spec.Event.St :=
  { flag := s.flag, waiting := s.waiters.filter (isPend s.futs), next := s.futs.length,
    timers := s.timers.filter (fun t => isPend s.futs t.2), now := s.now }

/-- `_waiters` ids are in range and strictly increasing (appended in creation order) -/
structure WS (s : St) : Prop where
  lt : ∀ w ∈ s.waiters, w < s.futs.length
  sorted : s.waiters.Pairwise (· < ·)

/-- every scheduled timer belongs to a pending wait (true after every drain) -/
def TInv (s : St) : Prop := ∀ t ∈ s.timers, isPend s.futs t.2 = true

/-- scheduled timer ids are in range (also true between the calls of one loop iteration, where `TInv` is not) -/
def TR (s : St) : Prop := ∀ t ∈ s.timers, t.2 < s.futs.length

theorem TR_of_TInv {s : St} (ht : TInv s) : TR s := fun t h => isPend_lt (ht t h)

/-- no scheduled timer is due (true after every drain) -/
def NotDue (s : St) : Prop := ∀ t ∈ s.timers, s.now < t.1

def SNotDue (sp : Spec.Event.St) : Prop := ∀ t ∈ sp.timers, sp.now < t.1

theorem absF_waiting_sorted {s : St} (hw : WS s) : (absF s).waiting.Pairwise (· < ·) :=
  hw.sorted.sublist List.filter_sublist

theorem absF_timers {s : St} (ht : TInv s) : (absF s).timers = s.timers := by
  simp only [absF]
  exact List.filter_eq_self.mpr (fun t h => ht t h)

theorem contains_waiting {s : St} (h : Inv s) (w : Nat) : (absF s).waiting.contains w = isPend s.futs w := by
  rw [Bool.eq_iff_iff]
  simp only [absF, List.contains_iff_mem, List.mem_filter]
  exact ⟨fun hh => hh.2, fun hh => ⟨h.mem w hh, hh⟩⟩

theorem drop_absF (s : St) (w : Nat) {v : FState} (hv : v ≠ .pending) :
    Spec.Event.drop (absF s) w = absF { s with futs := s.futs.set w v } := by
  simp only [Spec.Event.drop, absF, filter_drop _ _ _ hv, filter_dropT _ _ _ hv, List.length_set]

theorem absF_purge (s : St) : absF (purge s) = absF s := by
  simp [absF, purge, List.filter_filter]

theorem absF_dead {s : St} (hd : ∀ x, isPend s.futs x = false) :
    absF s = { flag := s.flag, waiting := [], next := s.futs.length, timers := [], now := s.now } := by
  have h1 : s.waiters.filter (isPend s.futs) = [] := by
    rw [List.filter_eq_nil_iff]; intro x _; simp [hd x]
  have h2 : s.timers.filter (fun t => isPend s.futs t.2) = [] := by
    rw [List.filter_eq_nil_iff]; intro t _; simp [hd t.2]
  simp only [absF, h1, h2]

theorem snotDue_absF {s : St} (h : NotDue s) : SNotDue (absF s) := by
  intro t ht
  exact h t (List.mem_filter.mp ht).1

theorem TInv_purge (s : St) : TInv (purge s) := by
  intro t ht
  simp only [purge, List.mem_filter] at ht
  exact ht.2

theorem ws_purge {s : St} (h : WS s) : WS (purge s) :=
  ⟨fun w hw => h.lt w (List.mem_filter.mp hw).1, h.sorted.sublist List.filter_sublist⟩

/-! ### the drain -/

def dueIds (s : St) : List Nat := sortNat ((s.timers.filter (fun t => t.1 ≤ s.now)).map (·.2))

def specDue (sp : Spec.Event.St) : List Nat :=
  sp.waiting.filter (fun w => sp.timers.any (fun t => t.2 == w && t.1 ≤ sp.now))

theorem fireDue_eq (s : St) :
    fireDue s = ({ s with futs := (resolveAll s.futs .timeout (dueIds s)).1,
                          timers := s.timers.filter (fun t => ¬ (t.1 ≤ s.now)) },
                 (resolveAll s.futs .timeout (dueIds s)).2) := rfl

theorem expire_eq (sp : Spec.Event.St) :
    Spec.Event.expire sp =
      ({ sp with waiting := sp.waiting.filter (fun w => ¬ (specDue sp).contains w),
                 timers := sp.timers.filter (fun t => ¬ (t.1 ≤ sp.now) && ¬ (specDue sp).contains t.2) },
       (specDue sp).map (fun w => (w, .timeout))) := rfl

theorem mem_dueIds {s : St} {x : Nat} : x ∈ dueIds s ↔ ∃ t ∈ s.timers, t.2 = x ∧ t.1 ≤ s.now := by
  unfold dueIds
  rw [mem_sortNat]
  simp only [List.mem_map, List.mem_filter, decide_eq_true_eq]
  constructor
  · rintro ⟨t, ⟨ht, hle⟩, e⟩; exact ⟨t, ht, e, hle⟩
  · rintro ⟨t, ht, e, hle⟩; exact ⟨t, ⟨ht, hle⟩, e⟩

theorem mem_specDue {sp : Spec.Event.St} {x : Nat} :
    x ∈ specDue sp ↔ x ∈ sp.waiting ∧ ∃ t ∈ sp.timers, t.2 = x ∧ t.1 ≤ sp.now := by
  unfold specDue
  simp only [List.mem_filter, List.any_eq_true, Bool.and_eq_true, beq_iff_eq, decide_eq_true_eq]

/-- a pending wait is due in the specification iff one of its timers is among the model's due ids -/
theorem mem_specDue_absF {s : St} (h : Inv s) {x : Nat} :
    x ∈ specDue (absF s) ↔ (x ∈ dueIds s ∧ isPend s.futs x = true) := by
  rw [mem_specDue, mem_dueIds]
  simp only [absF, List.mem_filter]
  constructor
  · rintro ⟨⟨_, hp⟩, t, ⟨ht, _⟩, e, hle⟩
    exact ⟨⟨t, ht, e, hle⟩, hp⟩
  · rintro ⟨⟨t, ht, e, hle⟩, hp⟩
    exact ⟨⟨h.mem x hp, hp⟩, t, ⟨ht, by rw [e]; exact hp⟩, e, hle⟩

theorem specDue_sorted {s : St} (hw : WS s) : (specDue (absF s)).Pairwise (· < ·) :=
  (absF_waiting_sorted hw).sublist List.filter_sublist

theorem contains_specDue {s : St} (h : Inv s) {x : Nat} (hp : isPend s.futs x = true) :
    (specDue (absF s)).contains x = (dueIds s).contains x := by
  rw [Bool.eq_iff_iff]
  simp only [List.contains_iff_mem, mem_specDue_absF h, hp, and_true]

theorem fireDue_sim {s : St} (h : Inv s) (hw : WS s) :
    Spec.Event.expire (absF s) = (absF (fireDue s).1, (fireDue s).2) := by
  have hev : (resolveAll s.futs .timeout (dueIds s)).2
      = (specDue (absF s)).map (fun w => (w, FState.timeout)) :=
    resolveAll_evs_eq (by simp) (sortNat_sorted _) (specDue_sorted hw) (fun x => mem_specDue_absF h)
  have hwait : (s.waiters.filter (isPend s.futs)).filter (fun w => ¬ (specDue (absF s)).contains w)
      = s.waiters.filter (isPend (resolveAll s.futs .timeout (dueIds s)).1) := by
    rw [List.filter_filter]
    apply List.filter_congr
    intro x _
    rw [isPend_resolveAll_eq (by simp)]
    by_cases hp : isPend s.futs x = true
    · rw [contains_specDue h hp, hp]; simp
    · have hp' : isPend s.futs x = false := by simpa using hp
      simp [hp']
  have htm : (s.timers.filter (fun t => isPend s.futs t.2)).filter
        (fun t => ¬ (t.1 ≤ s.now) && ¬ (specDue (absF s)).contains t.2)
      = (s.timers.filter (fun t => ¬ (t.1 ≤ s.now))).filter
          (fun t => isPend (resolveAll s.futs .timeout (dueIds s)).1 t.2) := by
    rw [List.filter_filter, List.filter_filter]
    apply List.filter_congr
    intro t _
    rw [isPend_resolveAll_eq (by simp)]
    by_cases hp : isPend s.futs t.2 = true
    · rw [contains_specDue h hp, hp]
      by_cases hd : t.1 ≤ s.now
      · simp [hd]
      · simp [hd]
    · have hp' : isPend s.futs t.2 = false := by simpa using hp
      simp [hp']
  rw [expire_eq, fireDue_eq, hev]
  have hwait' : (absF s).waiting.filter (fun w => ¬ (specDue (absF s)).contains w)
      = s.waiters.filter (isPend (resolveAll s.futs .timeout (dueIds s)).1) := hwait
  have htm' : (absF s).timers.filter (fun t => ¬ (t.1 ≤ (absF s).now) && ¬ (specDue (absF s)).contains t.2)
      = (s.timers.filter (fun t => ¬ (t.1 ≤ s.now))).filter
          (fun t => isPend (resolveAll s.futs .timeout (dueIds s)).1 t.2) := htm
  rw [hwait', htm']
  simp only [absF, resolveAll_length]

theorem inv_ws_fireDue {s : St} (hw : WS s) : WS (fireDue s).1 := by
  rw [fireDue_eq]
  exact ⟨fun w hm => by simpa [resolveAll_length] using hw.lt w hm, hw.sorted⟩

theorem ws_settle {s : St} (hw : WS s) : WS (settle s).1 := by
  unfold settle; exact ws_purge (inv_ws_fireDue (ws_purge hw))

theorem settle_sim {s : St} (h : Inv s) (hw : WS s) :
    Spec.Event.expire (absF s) = (absF (settle s).1, (settle s).2) := by
  rw [← absF_purge s, fireDue_sim (inv_purge h) (ws_purge hw)]
  simp only [settle, absF_purge]

theorem expire_of_notDue {sp : Spec.Event.St} (h : SNotDue sp) : Spec.Event.expire sp = (sp, []) := by
  have hd : specDue sp = [] := by
    unfold specDue
    rw [List.filter_eq_nil_iff]
    intro w _
    simp only [List.any_eq_true, Bool.and_eq_true, beq_iff_eq, decide_eq_true_eq, not_exists, not_and]
    intro t ht _ hle
    have := h t ht
    omega
  have hwt : sp.waiting.filter (fun w => ¬ ([] : List Nat).contains w) = sp.waiting := by simp
  have htm : sp.timers.filter (fun t => ¬ (t.1 ≤ sp.now) && ¬ ([] : List Nat).contains t.2) = sp.timers := by
    rw [List.filter_eq_self]
    intro t ht
    have := h t ht
    simp
    omega
  rw [expire_eq, hd, hwt, htm]
  rfl

/-- with nothing due the model's drain changes nothing visible -/
theorem settle_notDue {s : St} (h : Inv s) (hw : WS s) (hn : NotDue s) :
    absF (settle s).1 = absF s ∧ (settle s).2 = [] := by
  have := settle_sim h hw
  rw [expire_of_notDue (snotDue_absF hn)] at this
  simp only [Prod.mk.injEq] at this
  exact ⟨this.1.symm, this.2.symm⟩

theorem notDue_purge_fireDue (s : St) : NotDue (purge (fireDue s).1) := by
  intro t ht
  simp only [purge, fireDue_eq, List.mem_filter, decide_eq_true_eq] at ht
  have := ht.1.2
  show s.now < t.1
  omega

theorem notDue_settle (s : St) : NotDue (settle s).1 := notDue_purge_fireDue (purge s)

theorem TInv_settle (s : St) : TInv (settle s).1 := TInv_purge (fireDue (purge s)).1

/-! ### the calls -/

theorem wait_sim {s : St} (hw : WS s) (ht : TR s) (d : Option Nat) :
    Spec.Event.wait (absF s) d = (absF (wait s d).1, (wait s d).2) := by
  have hq : ∀ x : FState, s.waiters.filter (isPend (s.futs ++ [x])) = s.waiters.filter (isPend s.futs) := by
    intro x
    apply List.filter_congr
    intro w hm
    exact isPend_append_lt (hw.lt w hm)
  have htm : ∀ x : FState, s.timers.filter (fun t => isPend (s.futs ++ [x]) t.2)
      = s.timers.filter (fun t => isPend s.futs t.2) := by
    intro x
    apply List.filter_congr
    intro t ht'
    exact isPend_append_lt (ht t ht')
  have hf : (absF s).flag = s.flag := rfl
  unfold Spec.Event.wait wait
  rw [hf]
  by_cases hflag : s.flag = true
  · rw [if_pos hflag, if_pos hflag]
    simp only [absF, hq, htm, List.length_append, List.length_singleton]
  · rw [if_neg hflag, if_neg hflag]
    cases d with
    | none =>
      simp only [absF, List.filter_append, hq, htm, List.length_append, List.length_singleton,
        Prod.mk.injEq, and_true, Spec.Event.St.mk.injEq, true_and]
      simp [isPend_append_self]
    | some d =>
      simp only [absF, List.filter_append, hq, htm, List.length_append, List.length_singleton,
        Prod.mk.injEq, and_true, Spec.Event.St.mk.injEq, true_and]
      simp [isPend_append_self]

theorem ws_wait {s : St} (hw : WS s) (d : Option Nat) : WS (wait s d).1 := by
  unfold wait
  split
  · exact ⟨fun w hm => by have := hw.lt w hm; simp; omega, hw.sorted⟩
  · constructor
    · intro x hx
      simp at hx ⊢
      rcases hx with hx | rfl
      · have := hw.lt x hx; omega
      · omega
    · simp only
      rw [List.pairwise_append]
      refine ⟨hw.sorted, by simp, ?_⟩
      intro a ha b hb
      simp at hb; subst hb
      exact hw.lt a ha

theorem set_eq (s : St) (raced : List Nat) :
    set s raced = if s.flag then (s, []) else
      ({ s with flag := true,
                futs := (resolveAll (resolveAll s.futs .timeout ((sortNat s.waiters).filter (raced.contains ·))).1
                          (.result 0) (sortNat s.waiters)).1 },
       (resolveAll s.futs .timeout ((sortNat s.waiters).filter (raced.contains ·))).2 ++
         (resolveAll (resolveAll s.futs .timeout ((sortNat s.waiters).filter (raced.contains ·))).1
            (.result 0) (sortNat s.waiters)).2) := rfl

/-- what `Event.set` does when the flag is clear: the raced waiters (the pending ones whose id is in `raced`) get
`TimeoutError`, the other pending waiters get the result, nobody is pending afterwards -/
theorem set_core {s : St} (h : Inv s) (hw : WS s) (raced : List Nat) :
    let W := s.waiters.filter (isPend s.futs)
    let A := resolveAll s.futs .timeout ((sortNat s.waiters).filter (raced.contains ·))
    let B := resolveAll A.1 (.result 0) (sortNat s.waiters)
    (∀ x, isPend B.1 x = false) ∧
      A.2 = (W.filter (raced.contains ·)).map (fun w => (w, FState.timeout)) ∧
      B.2 = (W.filter (fun w => ¬ raced.contains w)).map (fun w => (w, FState.result 0)) := by
  intro W A B
  have hWs : W.Pairwise (· < ·) := hw.sorted.sublist List.filter_sublist
  have hpA : ∀ x, isPend A.1 x =
      (isPend s.futs x && !((sortNat s.waiters).filter (raced.contains ·)).contains x) :=
    fun x => isPend_resolveAll_eq (by simp) _ x
  refine ⟨?_, ?_, ?_⟩
  · intro x
    show isPend (resolveAll A.1 (.result 0) (sortNat s.waiters)).1 x = false
    rw [isPend_resolveAll_eq (by simp), hpA]
    by_cases hp : isPend s.futs x = true
    · have hm : x ∈ sortNat s.waiters := mem_sortNat.mpr (h.mem x hp)
      simp [hp, hm]
    · have hp' : isPend s.futs x = false := by simpa using hp
      simp [hp']
  · apply resolveAll_evs_eq (by simp) ((sortNat_sorted _).sublist List.filter_sublist)
      (hWs.sublist List.filter_sublist)
    intro x
    simp only [W, List.mem_filter, mem_sortNat]
    constructor
    · rintro ⟨⟨hm, hp⟩, hr⟩; exact ⟨⟨hm, hr⟩, hp⟩
    · rintro ⟨⟨hm, hr⟩, hp⟩; exact ⟨⟨hm, hp⟩, hr⟩
  · apply resolveAll_evs_eq (by simp) (sortNat_sorted _) (hWs.sublist List.filter_sublist)
    intro x
    rw [hpA]
    simp only [W, List.mem_filter, mem_sortNat, Bool.and_eq_true, Bool.not_eq_true', decide_eq_true_eq,
      List.contains_eq_mem, decide_eq_false_iff_not]
    constructor
    · rintro ⟨⟨hm, hp⟩, hr⟩
      exact ⟨hm, hp, fun hh => hr hh.2⟩
    · rintro ⟨hm, hp, hr⟩
      exact ⟨⟨hm, hp⟩, fun hh => hr ⟨hm, hh⟩⟩

theorem set_sim {s : St} (h : Inv s) (hw : WS s) :
    Spec.Event.set (absF s) = (absF (set s []).1, (set s []).2) := by
  have hf : (absF s).flag = s.flag := rfl
  rw [set_eq]
  unfold Spec.Event.set
  rw [hf]
  by_cases hflag : s.flag = true
  · rw [if_pos hflag, if_pos hflag]
  · rw [if_neg hflag, if_neg hflag]
    obtain ⟨hd, hA, hB⟩ := set_core h hw []
    simp only at hd hA hB
    rw [hA, hB]
    have hdead := absF_dead (s := { s with flag := true, futs := (resolveAll (resolveAll s.futs .timeout
      ((sortNat s.waiters).filter (([] : List Nat).contains ·))).1 (.result 0) (sortNat s.waiters)).1 }) hd
    rw [hdead]
    simp [absF, resolveAll_length]

theorem set_frame (s : St) (raced : List Nat) :
    (set s raced).1.timers = s.timers ∧ (set s raced).1.now = s.now ∧ (set s raced).1.waiters = s.waiters ∧
      (set s raced).1.futs.length = s.futs.length := by
  rw [set_eq]
  split
  · exact ⟨rfl, rfl, rfl, rfl⟩
  · exact ⟨rfl, rfl, rfl, by simp [resolveAll_length]⟩

theorem ws_set {s : St} (hw : WS s) (raced : List Nat) : WS (set s raced).1 := by
  obtain ⟨_, _, h3, h4⟩ := set_frame s raced
  exact ⟨fun w hm => by rw [h4]; rw [h3] at hm; exact hw.lt w hm, by rw [h3]; exact hw.sorted⟩

theorem notDue_set {s : St} (hn : NotDue s) (raced : List Nat) : NotDue (set s raced).1 := by
  obtain ⟨h1, h2, _, _⟩ := set_frame s raced
  intro t ht
  rw [h1] at ht; rw [h2]; exact hn t ht

theorem cancel_sim {s : St} (h : Inv s) (w : Nat) :
    Spec.Event.cancel (absF s) w = (absF (cancel s w).1, (cancel s w).2.1, (cancel s w).2.2) := by
  unfold Spec.Event.cancel cancel
  rw [contains_waiting h]
  split
  · rw [drop_absF s w (v := .cancelled) (by simp)]
  · rfl

theorem ws_cancel {s : St} (hw : WS s) (w : Nat) : WS (cancel s w).1 := by
  unfold cancel; split
  · exact ⟨fun x hm => by simpa using hw.lt x hm, hw.sorted⟩
  · exact hw

theorem notDue_cancel {s : St} (hn : NotDue s) (w : Nat) : NotDue (cancel s w).1 := by
  unfold cancel; split
  · exact hn
  · exact hn

theorem advance_sim {s : St} (ht : TInv s) :
    Spec.Event.advance (absF s) = (absF (advance s).1, (advance s).2) := by
  have hm : (absF s).timers = s.timers := absF_timers ht
  have hn : (absF s).now = s.now := rfl
  have he : advanceT (absF s).now (absF s).timers = advanceT s.now s.timers := by rw [hm, hn]
  unfold Spec.Event.advance advance
  rw [he]
  rcases advanceT s.now s.timers with ⟨n, d⟩
  rfl

theorem ws_advance {s : St} (hw : WS s) : WS (advance s).1 := by
  unfold advance; exact ⟨hw.lt, hw.sorted⟩

theorem ws_clear {s : St} (hw : WS s) : WS { s with flag := false } := ⟨hw.lt, hw.sorted⟩

/-! ### `set()` in the iteration in which timers expire -/

theorem raceSet_sim {s : St} (h : Inv s) (hw : WS s) :
    (Spec.Event.set (Spec.Event.expire (absF s)).1).1
        = absF (purge (fireDue (set s ((s.timers.filter (fun t => t.1 ≤ s.now)).map (·.2))).1).1) ∧
      (Spec.Event.expire (absF s)).2 ++ (Spec.Event.set (Spec.Event.expire (absF s)).1).2
        = (set s ((s.timers.filter (fun t => t.1 ≤ s.now)).map (·.2))).2 ++
            (fireDue (set s ((s.timers.filter (fun t => t.1 ≤ s.now)).map (·.2))).1).2 := by
  generalize hR : (s.timers.filter (fun t => t.1 ≤ s.now)).map (·.2) = raced
  by_cases hflag : s.flag = true
  · have hs : set s raced = (s, []) := by rw [set_eq, if_pos hflag]
    have hf2 : (absF (fireDue s).1).flag = true := hflag
    rw [hs, fireDue_sim h hw, absF_purge]
    unfold Spec.Event.set
    simp only [hf2, if_true, List.append_nil, List.nil_append, and_self]
  · have hflag' : s.flag = false := by simpa using hflag
    obtain ⟨hd, hA, hB⟩ := set_core h hw raced
    simp only at hd hA hB
    -- the specification: due waits = the pending raced waiters
    have hdue : specDue (absF s) = (s.waiters.filter (isPend s.futs)).filter (raced.contains ·) := by
      unfold specDue
      apply List.filter_congr
      intro x hx
      have hp : isPend s.futs x = true := (List.mem_filter.mp hx).2
      rw [Bool.eq_iff_iff]
      simp only [absF, List.any_eq_true, Bool.and_eq_true, beq_iff_eq, decide_eq_true_eq, List.mem_filter,
        List.contains_iff_mem, ← hR, List.mem_map]
      constructor
      · rintro ⟨t, ⟨ht, _⟩, e, hle⟩; exact ⟨t, ⟨ht, of_decide_eq_true hle⟩, e⟩
      · rintro ⟨t, ⟨ht, hle⟩, e⟩; exact ⟨t, ⟨ht, by rw [e]; exact hp⟩, e, decide_eq_true hle⟩
    have hrest : (s.waiters.filter (isPend s.futs)).filter (fun w => ¬ (specDue (absF s)).contains w)
        = (s.waiters.filter (isPend s.futs)).filter (fun w => ¬ raced.contains w) := by
      apply List.filter_congr
      intro x hx
      rw [hdue]
      have : ((s.waiters.filter (isPend s.futs)).filter (raced.contains ·)).contains x = raced.contains x := by
        rw [Bool.eq_iff_iff]
        simp only [List.contains_iff_mem, List.mem_filter]
        exact ⟨fun hh => hh.2, fun hh => ⟨List.mem_filter.mp hx, hh⟩⟩
      rw [this]
    obtain ⟨_, f2, _, f4⟩ := set_frame s raced
    have hs1 : (set s raced).1.futs =
        (resolveAll (resolveAll s.futs .timeout ((sortNat s.waiters).filter (raced.contains ·))).1
          (.result 0) (sortNat s.waiters)).1 := by rw [set_eq, if_neg hflag]
    have hs2 : (set s raced).2 =
        (resolveAll s.futs .timeout ((sortNat s.waiters).filter (raced.contains ·))).2 ++
          (resolveAll (resolveAll s.futs .timeout ((sortNat s.waiters).filter (raced.contains ·))).1
            (.result 0) (sortNat s.waiters)).2 := by rw [set_eq, if_neg hflag]
    have hsf : (set s raced).1.flag = true := by rw [set_eq, if_neg hflag]
    have hd1 : ∀ x, isPend (set s raced).1.futs x = false := by intro x; rw [hs1]; exact hd x
    have hfd2 : (fireDue (set s raced).1).2 = [] := by rw [fireDue_eq, resolveAll_dead hd1]
    have hfdp : ∀ x, isPend (purge (fireDue (set s raced).1).1).futs x = false := by
      intro x; rw [fireDue_eq, resolveAll_dead hd1]; exact hd1 x
    have hfl : (purge (fireDue (set s raced).1).1).flag = true := hsf
    have hnow : (purge (fireDue (set s raced).1).1).now = s.now := f2
    have hlen : (purge (fireDue (set s raced).1).1).futs.length = s.futs.length := by
      rw [fireDue_eq]
      show (resolveAll _ _ _).1.length = _
      rw [resolveAll_length]; exact f4
    rw [absF_dead hfdp, hfl, hnow, hlen, hs2, hfd2, hA, hB, expire_eq]
    have hf3 : (absF s).flag = false := hflag'
    have hrest' : (absF s).waiting.filter (fun w => ¬ (specDue (absF s)).contains w)
        = (s.waiters.filter (isPend s.futs)).filter (fun w => ¬ raced.contains w) := hrest
    unfold Spec.Event.set
    simp only [hf3, Bool.false_eq_true, if_false]
    rw [hrest', hdue]
    simp [absF]

/-! ### one step, whole histories -/

def outVis (o : Out) : Res × List Ev := (o.res, o.evs)
def specVis (o : Spec.Out) : Res × List Ev := (o.res, o.evs)

theorem TInv_step (s : St) (op : Op) : TInv (step s op).1 := by
  cases op <;> simp only [step, settle] <;> exact TInv_purge _

theorem notDue_step (s : St) (op : Op) : NotDue (step s op).1 := by
  cases op <;> simp only [step, settle] <;> exact notDue_purge_fireDue _

theorem ws_step {s : St} (hw : WS s) (op : Op) : WS (step s op).1 := by
  cases op with
  | wait d => simp only [step]; exact ws_settle (ws_wait hw d)
  | set => simp only [step]; exact ws_settle (ws_set hw [])
  | clear => simp only [step]; exact ws_settle (ws_clear hw)
  | fire => simp only [step]; exact ws_settle (ws_advance hw)
  | cancel w => simp only [step]; exact ws_settle (ws_cancel hw w)
  | raceSet => simp only [step]; exact ws_purge (inv_ws_fireDue (ws_set (ws_advance hw) _))
  | raceCancel w => simp only [step]; exact ws_purge (inv_ws_fireDue (ws_cancel (ws_advance hw) w))

theorem step_wait_eq (s : St) (d : Option Nat) : step s (.wait d) =
    ((settle (wait s d).1).1, mkOut (settle (wait s d).1).1 .unit ((wait s d).2 ++ (settle (wait s d).1).2)) := rfl
theorem step_set_eq (s : St) : step s .set =
    ((settle (set s []).1).1, mkOut (settle (set s []).1).1 .unit ((set s []).2 ++ (settle (set s []).1).2)) := rfl
theorem step_clear_eq (s : St) : step s .clear =
    ((settle { s with flag := false }).1, mkOut (settle { s with flag := false }).1 .unit
      (settle { s with flag := false }).2) := rfl
theorem step_fire_eq (s : St) : step s .fire =
    ((settle (advance s).1).1, mkOut (settle (advance s).1).1 (.fired (advance s).2) (settle (advance s).1).2) := rfl
theorem step_cancel_eq (s : St) (w : Nat) : step s (.cancel w) =
    ((settle (cancel s w).1).1, mkOut (settle (cancel s w).1).1 (.bool (cancel s w).2.2)
      ((cancel s w).2.1 ++ (settle (cancel s w).1).2)) := rfl
theorem step_raceSet_eq (s : St) : step s .raceSet =
    (purge (fireDue (set (advance s).1
        (((advance s).1.timers.filter (fun t => t.1 ≤ (advance s).1.now)).map (·.2))).1).1,
     mkOut (purge (fireDue (set (advance s).1
        (((advance s).1.timers.filter (fun t => t.1 ≤ (advance s).1.now)).map (·.2))).1).1) .unit
       ((set (advance s).1 (((advance s).1.timers.filter (fun t => t.1 ≤ (advance s).1.now)).map (·.2))).2 ++
        (fireDue (set (advance s).1
          (((advance s).1.timers.filter (fun t => t.1 ≤ (advance s).1.now)).map (·.2))).1).2)) := rfl
theorem step_raceCancel_eq (s : St) (w : Nat) : step s (.raceCancel w) =
    (purge (fireDue (cancel (advance s).1 w).1).1,
     mkOut (purge (fireDue (cancel (advance s).1 w).1).1) (.bool (cancel (advance s).1 w).2.2)
       ((cancel (advance s).1 w).2.1 ++ (fireDue (cancel (advance s).1 w).1).2)) := rfl

theorem vis_mkOut (s : St) (r : Res) (e : List Ev) : outVis (mkOut s r e) = (r, sortEvs e) := rfl
theorem vis_mk (r : Res) (e : List Ev) : specVis (Spec.Event.mk r e) = (r, sortEvs e) := rfl

theorem step_sim {s : St} (h : Inv s) (hw : WS s) (ht : TInv s) (hn : NotDue s) (op : Op) :
    (Spec.Event.step (absF s) op).1 = absF (step s op).1 ∧
      specVis (Spec.Event.step (absF s) op).2 = outVis (step s op).2 := by
  cases op with
  | wait d =>
    rw [step_wait_eq]
    simp only [Spec.Event.step, wait_sim hw (TR_of_TInv ht), settle_sim (inv_wait h d) (ws_wait hw d), vis_mkOut, vis_mk,
      and_self]
  | set =>
    obtain ⟨e1, e2⟩ := settle_notDue (inv_set h []) (ws_set hw []) (notDue_set hn [])
    rw [step_set_eq]
    simp only [Spec.Event.step, set_sim h hw, vis_mkOut, vis_mk, e1, e2, List.append_nil, and_self]
  | clear =>
    have hc : absF { s with flag := false } = { absF s with flag := false } := rfl
    obtain ⟨e1, e2⟩ := settle_notDue (inv_clear h) (ws_clear hw) (s := { s with flag := false }) hn
    rw [step_clear_eq]
    simp only [Spec.Event.step, vis_mkOut, vis_mk, e1, e2, hc, and_self]
  | fire =>
    rw [step_fire_eq]
    simp only [Spec.Event.step, advance_sim ht, settle_sim (inv_advance h) (ws_advance hw), vis_mkOut, vis_mk,
      and_self]
  | cancel w =>
    obtain ⟨e1, e2⟩ := settle_notDue (inv_cancel h w) (ws_cancel hw w) (notDue_cancel hn w)
    rw [step_cancel_eq]
    simp only [Spec.Event.step, cancel_sim h, vis_mkOut, vis_mk, e1, e2, List.append_nil, and_self]
  | raceSet =>
    obtain ⟨r1, r2⟩ := raceSet_sim (inv_advance h) (ws_advance hw)
    rw [step_raceSet_eq]
    simp only [Spec.Event.step, advance_sim ht, vis_mkOut, vis_mk]
    exact ⟨r1, by rw [r2]⟩
  | raceCancel w =>
    have h0 := inv_advance h
    have w0 := ws_advance hw
    rw [step_raceCancel_eq]
    simp only [Spec.Event.step, advance_sim ht, cancel_sim h0, fireDue_sim (inv_cancel h0 w) (ws_cancel w0 w),
      absF_purge, vis_mkOut, vis_mk, and_self]

theorem run_sim {s : St} (h : Inv s) (hw : WS s) (ht : TInv s) (hn : NotDue s) (ops : List Op) :
    (Spec.Event.run (absF s) ops).2.map specVis = (run s ops).2.map outVis := by
  induction ops generalizing s with
  | nil => rfl
  | cons op ops ih =>
    obtain ⟨h1, h2⟩ := step_sim h hw ht hn op
    simp only [run, Spec.Event.run, List.map_cons, h2, h1,
      ih (inv_step h op) (ws_step hw op) (TInv_step s op) (notDue_step s op)]

theorem run_sim_state {s : St} (h : Inv s) (hw : WS s) (ht : TInv s) (hn : NotDue s) (ops : List Op) :
    (Spec.Event.run (absF s) ops).1 = absF (run s ops).1 := by
  induction ops generalizing s with
  | nil => rfl
  | cons op ops ih =>
    obtain ⟨h1, _⟩ := step_sim h hw ht hn op
    simp only [run, Spec.Event.run, h1,
      ih (inv_step h op) (ws_step hw op) (TInv_step s op) (notDue_step s op)]

theorem absF_init : absF init = Spec.Event.init := by
  simp [absF, init, Spec.Event.init]

theorem ws_init : WS init := ⟨by simp [init], by simp [init]⟩
theorem TInv_init : TInv init := by intro t ht; simp [init] at ht
theorem notDue_init : NotDue init := by intro t ht; simp [init] at ht

end TornadoModel.C34.Event
