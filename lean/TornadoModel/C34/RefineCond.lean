/-
C34 — forward simulation Condition model → `Spec.Cond` (same method as `C33/Refine.lean`).

Abstraction `absF`: queue = the live entries of the deque, timers = the timers of live futures.  Every primitive
of the model is matched by the primitive of the specification *as an equation*
(`Spec.Cond.f (absF s) = (absF (f s).1, (f s).2)`).  The second invariant `TInv` (every scheduled timer belongs
to a pending future) holds at step boundaries (after the final `purge` of the drain) and is needed exactly where
the model looks at the raw schedule: `advance` (earliest timer) and `wait` (a fresh future id is not yet in use).
-/
import TornadoModel.C33.Refine
import TornadoModel.C34.Lemmas
namespace TornadoModel.C34.Cond
open TornadoModel.C33 (FState Ev Timer isPend dueTimers minTimer isPend_set isPend_set_ne isPend_set_self
  isPend_lt isPend_append_lt isPend_append_self isPend_append isPend_set_eq filter_drop filter_dropT
  dueTimers_filter)

def absF (s : St) : Spec.Cond.St :=
  { queue := s.waiters.filter (isPend s.futs), next := s.futs.length,
    timers := s.timers.filter (fun t => isPend s.futs t.2), now := s.now }

/-- every scheduled timer belongs to a pending future (true after every drain) -/
def TInv (s : St) : Prop := ∀ t ∈ s.timers, isPend s.futs t.2 = true

/-- scheduled timer ids are in range (also true between the calls of one loop iteration, where `TInv` is not) -/
def TR (s : St) : Prop := ∀ t ∈ s.timers, t.2 < s.futs.length

theorem TR_of_TInv {s : St} (ht : TInv s) : TR s := fun t h => isPend_lt (ht t h)

theorem absF_timers {s : St} (ht : TInv s) : (absF s).timers = s.timers := by
  simp only [absF]
  exact List.filter_eq_self.mpr (fun t h => ht t h)

theorem contains_queue {s : St} (h : Inv s) (w : Nat) : (absF s).queue.contains w = isPend s.futs w := by
  rw [Bool.eq_iff_iff]
  simp only [absF, List.contains_iff_mem, List.mem_filter]
  exact ⟨fun hh => hh.2, fun hh => ⟨h.pend_mem w hh, hh⟩⟩

/-- a waiter leaving the specification's queue = its future being settled in the model -/
theorem drop_absF (s : St) (w : Nat) {v : FState} (hv : v ≠ .pending) :
    Spec.Cond.drop (absF s) w = absF { s with futs := s.futs.set w v } := by
  simp only [Spec.Cond.drop, absF, filter_drop _ _ _ hv, filter_dropT _ _ _ hv, List.length_set]

theorem absF_gc (s : St) : absF (gc s) = absF s := by
  unfold gc
  split <;> simp [absF, List.filter_filter]

theorem absF_purge (s : St) : absF (purge s) = absF s := by
  simp [absF, purge, List.filter_filter]

theorem TInv_purge (s : St) : TInv (purge s) := by
  intro t ht
  simp only [purge, List.mem_filter] at ht
  exact ht.2

theorem inv_purge {s : St} (h : Inv s) : Inv (purge s) := inv_timers h _

/-! ### the drain -/

theorem onTimeout_sim {s : St} (h : Inv s) (w : Nat) :
    (if (absF s).queue.contains w then (Spec.Cond.drop (absF s) w, [(w, FState.result 0)]) else (absF s, []))
      = (absF (onTimeout s w).1, (onTimeout s w).2) := by
  rw [contains_queue h]
  unfold onTimeout
  split
  · rw [absF_gc, drop_absF s w (v := .result 0) (by simp)]
  · rw [absF_gc]

theorem fireList_sim {s : St} (h : Inv s) (ts : List Timer) :
    Spec.Cond.expireList (absF s) ts = (absF (fireList s ts).1, (fireList s ts).2) := by
  induction ts generalizing s with
  | nil => rfl
  | cons t ts ih =>
    have h1 := onTimeout_sim h t.2
    have h2 := ih (inv_onTimeout h t.2)
    simp only [Spec.Cond.expireList, fireList]
    split at h1
    · rename_i hc
      simp only [Prod.mk.injEq] at h1
      rw [if_pos hc, h1.1, h2, ← h1.2]
      rfl
    · rename_i hc
      simp only [Prod.mk.injEq] at h1
      rw [if_neg hc, h1.1, h2, ← h1.2]
      rfl

/-- the specification skips the timers of waiters that already left the queue -/
theorem expireList_filter (p : Timer → Bool) (l : List Timer) (sp : Spec.Cond.St)
    (hp : ∀ t, p t = false → sp.queue.contains t.2 = false) :
    Spec.Cond.expireList sp (l.filter p) = Spec.Cond.expireList sp l := by
  induction l generalizing sp with
  | nil => rfl
  | cons t l ih =>
    have hdrop : ∀ w t, p t = false → (Spec.Cond.drop sp w).queue.contains t.2 = false := by
      intro w t ht
      have := hp t ht
      simp only [Spec.Cond.drop, List.contains_eq_mem, List.mem_filter, decide_eq_false_iff_not] at this ⊢
      exact fun hh => this hh.1
    by_cases ht : p t = true
    · rw [List.filter_cons, if_pos ht]
      simp only [Spec.Cond.expireList]
      split
      · rw [ih _ (hdrop t.2)]
      · exact ih _ hp
    · have ht : p t = false := by simpa using ht
      rw [List.filter_cons, if_neg (by simp [ht])]
      simp only [Spec.Cond.expireList, hp t ht]
      exact ih _ hp

theorem fireDue_sim {s : St} (h : Inv s) :
    Spec.Cond.expire (absF s) = (absF (fireDue s).1, (fireDue s).2) := by
  have h1 : dueTimers (absF s).now (absF s).timers
      = (dueTimers s.now s.timers).filter (fun t => isPend s.futs t.2) := by
    simp only [absF]; exact dueTimers_filter _ _ _
  have h2 := fireList_sim h (dueTimers s.now s.timers)
  have h3 : Spec.Cond.expireList (absF s) (dueTimers (absF s).now (absF s).timers)
      = (absF (fireList s (dueTimers s.now s.timers)).1, (fireList s (dueTimers s.now s.timers)).2) := by
    rw [h1, expireList_filter _ _ _ (fun t ht => by rw [contains_queue h]; exact ht), h2]
  simp only [Spec.Cond.expire, fireDue, h3]
  simp only [absF, List.filter_filter, Prod.mk.injEq, and_true, Spec.Cond.St.mk.injEq, true_and]
  apply List.filter_congr
  intro x _
  exact Bool.and_comm _ _

theorem settleRace_sim {s : St} (h : Inv s) :
    Spec.Cond.expire (absF s) = (absF (settleRace s).1, (settleRace s).2) := by
  rw [fireDue_sim h]
  simp only [settleRace, absF_purge]

theorem settle_sim {s : St} (h : Inv s) :
    Spec.Cond.expire (absF s) = (absF (settle s).1, (settle s).2) := by
  rw [← absF_purge s, fireDue_sim (inv_purge h)]
  simp only [settle, absF_purge]

theorem TInv_settle (s : St) : TInv (settle s).1 := by
  simp only [settle]; exact TInv_purge _

theorem TInv_settleRace (s : St) : TInv (settleRace s).1 := by
  simp only [settleRace]; exact TInv_purge _

/-! ### the calls -/

theorem wait_sim {s : St} (h : Inv s) (ht : TR s) (d : Option Nat) :
    Spec.Cond.wait (absF s) d = absF (wait s d) := by
  have hq : s.waiters.filter (isPend (s.futs ++ [FState.pending])) = s.waiters.filter (isPend s.futs) := by
    apply List.filter_congr
    intro w hw
    exact isPend_append_lt (h.lt w hw)
  have htm : s.timers.filter (fun t => isPend (s.futs ++ [FState.pending]) t.2)
      = s.timers.filter (fun t => isPend s.futs t.2) := by
    apply List.filter_congr
    intro t ht'
    exact isPend_append_lt (ht t ht')
  unfold Spec.Cond.wait wait
  cases d with
  | none =>
    simp only [absF, List.filter_append, hq, htm, List.length_append, List.length_singleton,
      Spec.Cond.St.mk.injEq, and_true]
    simp [isPend_append_self]
  | some d =>
    simp only [absF, List.filter_append, hq, htm, List.length_append, List.length_singleton,
      Spec.Cond.St.mk.injEq, and_true]
    simp [isPend_append_self]

theorem isPend_setAll_eq {futs : List FState} {v : FState} (hv : v ≠ .pending) (ws : List Nat) (x : Nat) :
    isPend (setAll futs v ws) x = (isPend futs x && !ws.contains x) := by
  induction ws generalizing futs with
  | nil => simp [setAll]
  | cons w ws ih =>
    simp only [setAll]
    rw [ih, isPend_set_eq hv]
    by_cases hx : x = w
    · subst hx; simp
    · simp [hx]

theorem not_mem_take_of_mem_drop {l : List Nat} (hl : l.Pairwise (· < ·)) {n x : Nat}
    (hx : x ∈ l.drop n) : x ∉ l.take n := by
  intro ht
  have hl' := hl
  rw [← List.take_append_drop n l, List.pairwise_append] at hl'
  exact Nat.lt_irrefl x (hl'.2.2 x ht x hx)

theorem notify_sim {s : St} (h : Inv s) (n : Nat) :
    Spec.Cond.notify (absF s) n = (absF (notify s n).1, (notify s n).2) := by
  obtain ⟨h1, h2⟩ := popN_spec s.futs s.waiters n
  have hL : (s.waiters.filter (isPend s.futs)).Pairwise (· < ·) := h.sorted.sublist List.filter_sublist
  unfold Spec.Cond.notify notify
  rcases hp : popN s.futs s.waiters n with ⟨woken, rest⟩
  rw [hp] at h1 h2
  simp only at h1 h2
  subst h1
  have hq : rest.filter (isPend (setAll s.futs (.result 1) ((s.waiters.filter (isPend s.futs)).take n)))
      = (s.waiters.filter (isPend s.futs)).drop n := by
    rw [← h2]
    apply List.filter_congr
    intro x hx
    rw [isPend_setAll_eq (by simp)]
    by_cases hpx : isPend s.futs x = true
    · have hxd : x ∈ (s.waiters.filter (isPend s.futs)).drop n := by
        rw [← h2]; exact List.mem_filter.mpr ⟨hx, hpx⟩
      have hnt := not_mem_take_of_mem_drop hL hxd
      simp [hpx, hnt]
    · have hpx' : isPend s.futs x = false := by simpa using hpx
      simp [hpx']
  have htm : s.timers.filter
        (fun t => isPend (setAll s.futs (.result 1) ((s.waiters.filter (isPend s.futs)).take n)) t.2)
      = (s.timers.filter (fun t => isPend s.futs t.2)).filter
          (fun t => ¬ ((s.waiters.filter (isPend s.futs)).take n).contains t.2) := by
    rw [List.filter_filter]
    apply List.filter_congr
    intro x _
    rw [isPend_setAll_eq (by simp)]
    simp [Bool.and_comm]
  simp only [absF, hq, htm, setAll_length]
  rfl

/-- `notify n` with `n` at least the number of live waiters wakes them all (`notify_all`) -/
theorem spec_notify_ge (sp : Spec.Cond.St) {n : Nat} (hn : sp.queue.length ≤ n) :
    Spec.Cond.notify sp n = Spec.Cond.notify sp sp.queue.length := by
  simp only [Spec.Cond.notify, List.take_of_length_le hn, List.drop_of_length_le hn,
    List.take_of_length_le (Nat.le_refl _), List.drop_of_length_le (Nat.le_refl _)]

theorem cancel_sim {s : St} (h : Inv s) (w : Nat) :
    Spec.Cond.cancel (absF s) w = (absF (cancel s w).1, (cancel s w).2.1, (cancel s w).2.2) := by
  unfold Spec.Cond.cancel cancel
  rw [contains_queue h]
  split
  · rw [drop_absF s w (v := .cancelled) (by simp)]
  · rfl

theorem advance_sim {s : St} (ht : TInv s) :
    Spec.Cond.advance (absF s) = (absF (advance s).1, (advance s).2) := by
  have hm : (absF s).timers = s.timers := absF_timers ht
  have hn : (absF s).now = s.now := rfl
  have he : advanceT (absF s).now (absF s).timers = advanceT s.now s.timers := by rw [hm, hn]
  unfold Spec.Cond.advance advance
  rw [he]
  rcases advanceT s.now s.timers with ⟨n, d⟩
  rfl

theorem TInv_advance {s : St} (ht : TInv s) : TInv (advance s).1 := by
  unfold advance; exact ht

/-! ### one step, whole histories -/

/-- the part of an output the specification determines -/
def outVis (o : Out) : Res × List Ev := (o.res, o.evs)
def specVis (o : Spec.Out) : Res × List Ev := (o.res, o.evs)

theorem TInv_step (s : St) (op : Op) : TInv (step s op).1 := by
  cases op with
  | wait d => exact TInv_settle _
  | notify n => exact TInv_settle _
  | notifyAll => exact TInv_settle _
  | fire => exact TInv_settle _
  | cancel w => exact TInv_settle _
  | raceNotify n => exact TInv_settleRace _
  | raceCancel w => exact TInv_settleRace _

theorem step_sim {s : St} (h : Inv s) (ht : TInv s) (op : Op) :
    (Spec.Cond.step (absF s) op).1 = absF (step s op).1 ∧
      specVis (Spec.Cond.step (absF s) op).2 = outVis (step s op).2 := by
  cases op with
  | wait d =>
    simp only [step, Spec.Cond.step, wait_sim h (TR_of_TInv ht), settle_sim (inv_wait h d)]
    exact ⟨by first | trivial | rfl, by first | trivial | rfl⟩
  | notify n =>
    simp only [step, Spec.Cond.step, notify_sim h, settle_sim (inv_notify h n)]
    exact ⟨by first | trivial | rfl, by first | trivial | rfl⟩
  | notifyAll =>
    have hn : Spec.Cond.notify (absF s) (absF s).queue.length = Spec.Cond.notify (absF s) s.waiters.length :=
      (spec_notify_ge (absF s) (List.length_filter_le _ _)).symm
    simp only [step, Spec.Cond.step, hn, notify_sim h, settle_sim (inv_notify h s.waiters.length)]
    exact ⟨by first | trivial | rfl, by first | trivial | rfl⟩
  | fire =>
    simp only [step, Spec.Cond.step, advance_sim ht, settle_sim (inv_advance h)]
    exact ⟨by first | trivial | rfl, by first | trivial | rfl⟩
  | cancel w =>
    simp only [step, Spec.Cond.step, cancel_sim h, settle_sim (inv_cancel h w)]
    exact ⟨by first | trivial | rfl, by first | trivial | rfl⟩
  | raceNotify n =>
    have h0 := inv_advance h
    simp only [step, Spec.Cond.step, advance_sim ht, notify_sim h0, settleRace_sim (inv_notify h0 n)]
    exact ⟨by first | trivial | rfl, by first | trivial | rfl⟩
  | raceCancel w =>
    have h0 := inv_advance h
    simp only [step, Spec.Cond.step, advance_sim ht, cancel_sim h0, settleRace_sim (inv_cancel h0 w)]
    exact ⟨by first | trivial | rfl, by first | trivial | rfl⟩

theorem run_sim {s : St} (h : Inv s) (ht : TInv s) (ops : List Op) :
    (Spec.Cond.run (absF s) ops).2.map specVis = (run s ops).2.map outVis := by
  induction ops generalizing s with
  | nil => rfl
  | cons op ops ih =>
    obtain ⟨h1, h2⟩ := step_sim h ht op
    simp only [run, Spec.Cond.run, List.map_cons, h2, h1, ih (inv_step h op) (TInv_step s op)]

theorem run_sim_state {s : St} (h : Inv s) (ht : TInv s) (ops : List Op) :
    (Spec.Cond.run (absF s) ops).1 = absF (run s ops).1 := by
  induction ops generalizing s with
  | nil => rfl
  | cons op ops ih =>
    obtain ⟨h1, _⟩ := step_sim h ht op
    simp only [run, Spec.Cond.run, h1, ih (inv_step h op) (TInv_step s op)]

theorem absF_init (t0 : Nat) : absF (init t0) = Spec.Cond.init := by
  simp [absF, init, Spec.Cond.init]

theorem TInv_init (t0 : Nat) : TInv (init t0) := by
  intro t ht; simp [init] at ht

end TornadoModel.C34.Cond
