/-
C34 — the specification.

Condition: a FIFO of live waiters.  `notify n` takes the first `min n (length queue)` of them and resolves
them `True` in that order; a waiter whose deadline is reached resolves `False` and leaves the queue (so it
can never be counted by a later `notify`); a cancelled waiter leaves the queue.

Event: a flag and the set of pending waits.  `wait` on a set event completes at once; `set` completes every
pending wait; a wait whose deadline is reached while it is still pending fails with `TimeoutError`.  (With
the clock standing *at* a deadline the wait has not been set "before its deadline": `raceSet` expires first.)
-/
import TornadoModel.C34.Model
namespace TornadoModel.C34.Spec
open TornadoModel.C33 (FState Ev Timer dueTimers minTimer)
open TornadoModel.C34

structure Out where
  res : Res
  evs : List Ev
  deriving Repr, DecidableEq

namespace Cond
open TornadoModel.C34.Cond (Op)

structure St where
  queue : List Nat
  next : Nat
  timers : List Timer
  now : Nat
  deriving Repr, DecidableEq

def init : St := { queue := [], next := 0, timers := [], now := 0 }

def drop (s : St) (w : Nat) : St :=
  { s with queue := s.queue.filter (· ≠ w), timers := s.timers.filter (fun t => t.2 ≠ w) }

def expireList (s : St) : List Timer → St × List Ev
  | [] => (s, [])
  | t :: ts =>
    if s.queue.contains t.2 then
      let (s2, e2) := expireList (drop s t.2) ts
      (s2, (t.2, .result 0) :: e2)
    else expireList s ts

def expire (s : St) : St × List Ev :=
  let (s1, e) := expireList s (dueTimers s.now s.timers)
  ({ s1 with timers := s1.timers.filter (fun t => ¬ (t.1 ≤ s1.now)) }, e)

def notify (s : St) (n : Nat) : St × List Ev :=
  let woken := s.queue.take n
  ({ s with queue := s.queue.drop n, timers := s.timers.filter (fun t => ¬ woken.contains t.2) },
   woken.map (fun w => (w, .result 1)))

def wait (s : St) (d : Option Nat) : St :=
  { s with queue := s.queue ++ [s.next], next := s.next + 1,
           timers := match d with | some d => s.timers ++ [(d, s.next)] | none => s.timers }

def cancel (s : St) (w : Nat) : St × List Ev × Bool :=
  if s.queue.contains w then (drop s w, [(w, .cancelled)], true) else (s, [], false)

def advance (s : St) : St × Option Nat :=
  let (n, d) := advanceT s.now s.timers
  ({ s with now := n }, d)

def step (s : St) : Op → St × Out
  | .wait d =>
    let (s2, e2) := expire (wait s d)
    (s2, ⟨.unit, e2⟩)
  | .notify n =>
    let (s1, e1) := notify s n
    let (s2, e2) := expire s1
    (s2, ⟨.unit, e1 ++ e2⟩)
  | .notifyAll =>
    let (s1, e1) := notify s s.queue.length
    let (s2, e2) := expire s1
    (s2, ⟨.unit, e1 ++ e2⟩)
  | .fire =>
    let (s1, d) := advance s
    let (s2, e2) := expire s1
    (s2, ⟨.fired d, e2⟩)
  | .cancel w =>
    let (s1, e1, b) := cancel s w
    let (s2, e2) := expire s1
    (s2, ⟨.bool b, e1 ++ e2⟩)
  | .raceNotify n =>
    let (s0, _) := advance s
    let (s1, e1) := notify s0 n
    let (s2, e2) := expire s1
    (s2, ⟨.unit, e1 ++ e2⟩)
  | .raceCancel w =>
    let (s0, _) := advance s
    let (s1, e1, b) := cancel s0 w
    let (s2, e2) := expire s1
    (s2, ⟨.bool b, e1 ++ e2⟩)

def run (s : St) : List Op → St × List Out
  | [] => (s, [])
  | op :: ops =>
    let (s1, o) := step s op
    let (s2, os) := run s1 ops
    (s2, o :: os)

end Cond

namespace Event
open TornadoModel.C34.Event (Op sortNat)

structure St where
  flag : Bool
  waiting : List Nat        -- pending waits, ascending ids
  next : Nat
  timers : List Timer
  now : Nat
  deriving Repr, DecidableEq

def init : St := { flag := false, waiting := [], next := 0, timers := [], now := 0 }

def drop (s : St) (w : Nat) : St :=
  { s with waiting := s.waiting.filter (· ≠ w), timers := s.timers.filter (fun t => t.2 ≠ w) }

/-- pending waits whose deadline is reached fail with TimeoutError (reported in id order) -/
def expire (s : St) : St × List Ev :=
  let due := s.waiting.filter (fun w => s.timers.any (fun t => t.2 == w && t.1 ≤ s.now))
  ({ s with waiting := s.waiting.filter (fun w => ¬ due.contains w),
            timers := s.timers.filter (fun t => ¬ (t.1 ≤ s.now) && ¬ due.contains t.2) },
   due.map (fun w => (w, .timeout)))

def set (s : St) : St × List Ev :=
  if s.flag then (s, [])
  else ({ s with flag := true, waiting := [], timers := [] }, s.waiting.map (fun w => (w, .result 0)))

def wait (s : St) (d : Option Nat) : St × List Ev :=
  if s.flag then ({ s with next := s.next + 1 }, [(s.next, .result 0)])
  else ({ s with waiting := s.waiting ++ [s.next], next := s.next + 1,
                 timers := match d with | some d => s.timers ++ [(d, s.next)] | none => s.timers }, [])

def cancel (s : St) (w : Nat) : St × List Ev × Bool :=
  if s.waiting.contains w then (drop s w, [(w, .cancelled)], true) else (s, [], false)

def advance (s : St) : St × Option Nat :=
  let (n, d) := advanceT s.now s.timers
  ({ s with now := n }, d)

def mk (r : Res) (e : List Ev) : Out := ⟨r, TornadoModel.C34.Event.sortEvs e⟩

def step (s : St) : Op → St × Out
  | .wait d =>
    let (s1, e1) := wait s d
    let (s2, e2) := expire s1
    (s2, mk .unit (e1 ++ e2))
  | .set =>
    let (s1, e1) := set s
    (s1, mk .unit e1)
  | .clear => ({ s with flag := false }, mk .unit [])
  | .fire =>
    let (s1, d) := advance s
    let (s2, e2) := expire s1
    (s2, mk (.fired d) e2)
  | .cancel w =>
    let (s1, e1, b) := cancel s w
    (s1, mk (.bool b) e1)
  | .raceSet =>
    let (s0, _) := advance s
    let (s1, e1) := expire s0
    let (s2, e2) := set s1
    (s2, mk .unit (e1 ++ e2))
  | .raceCancel w =>
    let (s0, _) := advance s
    let (s1, e1, b) := cancel s0 w
    let (s2, e2) := expire s1
    (s2, mk (.bool b) (e1 ++ e2))

def run (s : St) : List Op → St × List Out
  | [] => (s, [])
  | op :: ops =>
    let (s1, o) := step s op
    let (s2, os) := run s1 ops
    (s2, o :: os)

end Event
end TornadoModel.C34.Spec
