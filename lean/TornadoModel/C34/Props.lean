/-
C34 — property theorems for Condition and Event; all quantified over ALL op sequences from the initial state
(wait with/without deadline, notify n / notify_all / set / clear, fire-next-timer, cancel, and the
same-iteration races).  The section after that proves trace refinement Model → Spec for both classes (simulation
lemmas in RefineCond.lean / RefineEvent.lean).  Last section (`multi_…`): histories with compound ops — several
calls made back-to-back inside ONE loop iteration, where finished waits are still registered (`Multi.lean`,
`MultiLemmas.lean`): the invariants and the clauses hold after every call inside an iteration, and the refinement
extends to `run2`.
-/
import TornadoModel.C34.Lemmas
import TornadoModel.C34.RefineCond
import TornadoModel.C34.RefineEvent
import TornadoModel.C34.MultiLemmas
namespace TornadoModel.C34
open TornadoModel.C33 (FState Ev Timer isPend minTimer isPend_lt)

/-! ## Condition -/
namespace Cond

abbrev after (t0 : Nat) (ops : List Op) : St := (run (init t0) ops).1

theorem inv_after (t0 : Nat) (ops : List Op) : Inv (after t0 ops) := inv_run (inv_init t0) ops

/-- the live waiters in deque order -/
def liveQueue (s : St) : List Nat := s.waiters.filter (isPend s.futs)

/-- along every history the live queue is exactly the set of pending futures, oldest first -/
theorem liveQueue_is_arrival_order (t0 : Nat) (ops : List Op) :
    (liveQueue (after t0 ops)).Pairwise (· < ·) ∧
    ∀ w, w ∈ liveQueue (after t0 ops) ↔ isPend (after t0 ops).futs w = true := by
  have h := inv_after t0 ops
  refine ⟨h.sorted.sublist List.filter_sublist, fun w => ?_⟩
  simp only [liveQueue, List.mem_filter]
  exact ⟨fun hw => hw.2, fun hw => ⟨h.pend_mem w hw, hw⟩⟩

/-- `notify n` resolves exactly the first `min n live` live waiters, in arrival order, with `True`
(then the drain runs, which can only add `False` results of timers that are due) -/
theorem notify_wakes_min (s : St) (n : Nat) :
    (step s (.notify n)).2.evs =
      ((liveQueue s).take n).map (fun w => (w, FState.result 1)) ++ (settle (notify s n).1).2 ∧
    ((liveQueue s).take n).length = min n (liveQueue s).length := by
  refine ⟨?_, List.length_take⟩
  simp only [step, mkOut, notify, liveQueue, (popN_spec s.futs s.waiters n).1]

theorem notifyAll_wakes_all (s : St) :
    (step s .notifyAll).2.evs =
      (liveQueue s).map (fun w => (w, FState.result 1)) ++ (settle (notify s s.waiters.length).1).2 := by
  simp only [step, mkOut, notify, liveQueue, (popN_spec s.futs s.waiters _).1]
  rw [List.take_of_length_le]
  exact List.length_filter_le _ _

example : (step (after 0 [.wait none, .wait (some 1), .wait none, .wait none, .fire, .cancel 2]) (.notify 2)).2.evs
    = [(0, .result 1), (3, .result 1)] := by decide

/-- the woken futures really hold `True` afterwards -/
theorem notify_sets_true (t0 : Nat) (ops : List Op) (n w : Nat)
    (hw : w ∈ (liveQueue (after t0 ops)).take n) :
    (notify (after t0 ops) n).1.futs[w]? = some (.result 1) := by
  have h := inv_after t0 ops
  generalize after t0 ops = s at *
  unfold notify
  simp only
  apply setAll_get_mem
  · rw [(popN_spec s.futs s.waiters n).1]; exact hw
  · exact h.lt w (List.mem_filter.mp (List.mem_of_mem_take hw)).1

/-- the drain after any op only ever produces `False` results (expired waits) -/
theorem settle_evs_false (s : St) : ∀ e ∈ (settle s).2, e.2 = .result 0 := by
  have hl : ∀ (t : St) (ts : List Timer), ∀ e ∈ (fireList t ts).2, e.2 = .result 0 := by
    intro t ts
    induction ts generalizing t with
    | nil => simp [fireList]
    | cons a ts ih =>
      simp only [fireList]
      intro e he
      rcases List.mem_append.mp he with he | he
      · unfold onTimeout at he; split at he <;> simp at he; simp [he]
      · exact ih _ e he
  unfold settle fireDue
  exact hl _ _

/-- a timed-out wait resolves `False`, stays `False` forever, and is never counted by a later notify -/
theorem timeout_false_not_counted (t0 : Nat) (ops ops' : List Op) (w : Nat)
    (hw : (after t0 ops).futs[w]? = some (.result 0)) :
    (after t0 (ops ++ ops')).futs[w]? = some (.result 0) ∧
    ∀ n, w ∉ (liveQueue (after t0 (ops ++ ops'))).take n := by
  have hst : (after t0 (ops ++ ops')).futs[w]? = some (.result 0) := by
    unfold after at *
    rw [run_append]
    exact (stable_run _ ops').2 w _ hw (by simp)
  refine ⟨hst, fun n hm => ?_⟩
  have := (List.mem_filter.mp (List.mem_of_mem_take hm)).2
  unfold isPend at this
  rw [hst] at this
  simp at this

example : (after 0 [.wait (some 1), .fire]).futs[0]? = some (.result 0) := by decide

/-- more generally no settled future ever changes again (a notified waiter is not notified twice, a
cancelled one is never notified) -/
theorem settled_final (t0 : Nat) (ops ops' : List Op) (w : Nat) (f : FState)
    (hw : (after t0 ops).futs[w]? = some f) (hf : f ≠ .pending) :
    (after t0 (ops ++ ops')).futs[w]? = some f := by
  unfold after at *
  rw [run_append]
  exact (stable_run _ ops').2 w f hw hf

/-- the collector removes every dead waiter when it runs -/
theorem cond_gc_purges (s : St) (h : s.timeouts ≥ 100) :
    ∀ w ∈ (gc s).waiters, isPend (gc s).futs w = true := by
  unfold gc
  have : s.timeouts + 1 > 100 := by omega
  simp only [this, if_true]
  intro w hw
  exact (List.mem_filter.mp hw).2

end Cond

/-! ## Event -/
namespace Event

abbrev after (ops : List Op) : St := (run init ops).1

theorem inv_after (ops : List Op) : Inv (after ops) := inv_run inv_init ops

/-- finished waits leave no residue: after every op `_waiters` holds pending futures only … -/
theorem no_residue (ops : List Op) : ∀ w ∈ (after ops).waiters, isPend (after ops).futs w = true := by
  unfold after
  have key : ∀ (s : St), (∀ w ∈ s.waiters, isPend s.futs w = true) →
      ∀ w ∈ (run s ops).1.waiters, isPend (run s ops).1.futs w = true := by
    induction ops with
    | nil => intro s hs; exact hs
    | cons op ops ih => intro s _; simp only [run]; exact ih _ (step_no_residue s op)
  exact key init (by simp [init])

/-- … and, conversely, every pending wait is in it (nobody is forgotten) -/
theorem pending_registered (ops : List Op) (w : Nat) (h : isPend (after ops).futs w = true) :
    w ∈ (after ops).waiters := (inv_after ops).mem w h

/-- while the event is set nobody is waiting: every wait issued before the `set` has completed -/
theorem set_means_nobody_waits (ops : List Op) (h : (after ops).flag = true) (w : Nat) :
    isPend (after ops).futs w = false := (inv_after ops).setNone h w

theorem settle_stable (s : St) (w : Nat) (f : FState) (hw : s.futs[w]? = some f) (hf : f ≠ .pending) :
    (settle s).1.futs[w]? = some f := by
  unfold settle fireDue purge
  exact resolveAll_stable hw hf

/-- `wait` on a set event completes at once -/
theorem wait_when_set (s : St) (d : Option Nat) (h : s.flag = true) :
    (step s (.wait d)).1.futs[s.futs.length]? = some (.result 0) := by
  simp only [step]
  apply settle_stable _ _ _ _ (by simp)
  simp [wait, h]

/-- `set` completes every pending wait -/
theorem set_completes (ops : List Op) (w : Nat) (hp : isPend (after ops).futs w = true) :
    (step (after ops) .set).1.futs[w]? = some (.result 0) := by
  have h := inv_after ops
  generalize after ops = s at *
  have hflag : s.flag = false := by
    by_cases hf : s.flag = true
    · have := h.setNone hf w; rw [this] at hp; simp at hp
    · simpa using hf
  simp only [step]
  apply settle_stable _ _ _ _ (by simp)
  simp only [set, hflag]
  have hnil : List.filter (fun x => ([] : List Nat).contains x) (sortNat s.waiters) = [] := by simp
  simp only [Bool.false_eq_true, if_false, hnil, resolveAll]
  exact resolveAll_sets (by simp) (mem_sortNat.mpr (h.mem w hp)) hp

theorem minTimer_mem {ts : List Timer} {t : Timer} (h : minTimer ts = some t) : t ∈ ts := by
  induction ts generalizing t with
  | nil => simp [minTimer] at h
  | cons a ts ih =>
    simp only [minTimer] at h
    split at h
    · simp at h; simp [h]
    · rename_i u hu
      split at h
      · simp at h; subst h; exact List.mem_cons_of_mem _ (ih hu)
      · simp at h; simp [h]

/-- `fire`: the wait owning the earliest deadline, if still pending, fails with `TimeoutError` -/
theorem deadline_times_out (s : St) (t : Timer) (hm : minTimer s.timers = some t)
    (hp : isPend s.futs t.2 = true) : (step s .fire).1.futs[t.2]? = some .timeout := by
  have hmem := minTimer_mem hm
  simp only [step, advance, advanceT, hm, settle]
  show (purge (fireDue (purge _)).1).futs[t.2]? = _
  unfold purge fireDue
  simp only
  apply resolveAll_sets (by simp) _ hp
  rw [mem_sortNat]
  simp only [List.mem_map, List.mem_filter]
  refine ⟨t, ⟨⟨hmem, by simpa using hp⟩, ?_⟩, rfl⟩
  simp
  omega

example : (step (after [.wait (some 4), .wait (some 2)]) .fire).1.futs[1]? = some .timeout := by decide

/-- a settled wait never changes again (no double wake-up, no wake-up after a timeout) -/
theorem settled_final (s : St) (op : Op) (w : Nat) (f : FState) (hw : s.futs[w]? = some f)
    (hf : f ≠ .pending) : (step s op).1.futs[w]? = some f := by
  have happ : ∀ (x : FState), (s.futs ++ [x])[w]? = some f := by
    intro x
    have : w < s.futs.length := by
      by_cases hlt : w < s.futs.length
      · exact hlt
      · simp [List.getElem?_eq_none (Nat.le_of_not_lt hlt)] at hw
    rw [List.getElem?_append_left this]; exact hw
  have hcancel : ∀ (t : St) (x : Nat), t.futs[w]? = some f → (cancel t x).1.futs[w]? = some f := by
    intro t x ht
    unfold cancel
    split
    · rename_i hp
      simp only
      rw [List.getElem?_set]
      split
      · rename_i e; subst e
        unfold isPend at hp; rw [ht] at hp; simp at hp; exact absurd hp hf
      · exact ht
    · exact ht
  have hset : ∀ (t : St) (r : List Nat), t.futs[w]? = some f → (set t r).1.futs[w]? = some f := by
    intro t r ht
    unfold set
    split
    · exact ht
    · exact resolveAll_stable (resolveAll_stable ht hf) hf
  have hfd : ∀ (t : St), t.futs[w]? = some f → (purge (fireDue t).1).futs[w]? = some f := by
    intro t ht; unfold purge fireDue; exact resolveAll_stable ht hf
  cases op with
  | wait d =>
    simp only [step]; apply settle_stable _ _ _ _ hf
    unfold wait; split <;> exact happ _
  | set => simp only [step]; exact settle_stable _ _ _ (hset s [] hw) hf
  | clear => simp only [step]; exact settle_stable _ _ _ hw hf
  | fire => simp only [step]; exact settle_stable _ _ _ (by simpa [advance] using hw) hf
  | cancel x => simp only [step]; exact settle_stable _ _ _ (hcancel s x hw) hf
  | raceSet => simp only [step]; exact hfd _ (hset _ _ (by simpa [advance] using hw))
  | raceCancel x => simp only [step]; exact hfd _ (hcancel _ x (by simpa [advance] using hw))

/-! #### TimeoutError only comes from the wait's own deadline -/

theorem resolveAll_cases (futs : List FState) (v : FState) (ws : List Nat) (w : Nat) :
    (resolveAll futs v ws).1[w]? = futs[w]? ∨ ((resolveAll futs v ws).1[w]? = some v ∧ w ∈ ws) := by
  induction ws generalizing futs with
  | nil => exact Or.inl rfl
  | cons a ws ih =>
    by_cases ha : isPend futs a = true
    · rw [resolveAll_pos ha]
      rcases ih (futs.set a v) with h | h
      · rw [h, List.getElem?_set]
        split
        · rename_i e; subst e
          right
          refine ⟨?_, by simp⟩
          simp [isPend_lt ha]
        · exact Or.inl rfl
      · exact Or.inr ⟨h.1, List.mem_cons_of_mem _ h.2⟩
    · rw [resolveAll_neg (by simpa using ha)]
      rcases ih futs with h | h
      · exact Or.inl h
      · exact Or.inr ⟨h.1, List.mem_cons_of_mem _ h.2⟩

/-- `s'` got its `TimeoutError`s from `s`'s timers only, and scheduled no new ones -/
def TS (s s' : St) : Prop :=
  (∀ w, s'.futs[w]? = some .timeout → s.futs[w]? = some .timeout ∨ ∃ t ∈ s.timers, t.2 = w) ∧
  (∀ t ∈ s'.timers, t ∈ s.timers)

theorem TS.refl (s : St) : TS s s := ⟨fun _ h => Or.inl h, fun _ h => h⟩
theorem TS.trans {a b c : St} (h1 : TS a b) (h2 : TS b c) : TS a c := by
  refine ⟨fun w hw => ?_, fun t ht => h1.2 t (h2.2 t ht)⟩
  rcases h2.1 w hw with h | ⟨t, ht, e⟩
  · exact h1.1 w h
  · exact Or.inr ⟨t, h1.2 t ht, e⟩

theorem ts_purge (s : St) : TS s (purge s) :=
  ⟨fun _ h => Or.inl h, fun _ ht => (List.mem_filter.mp ht).1⟩

theorem ts_fireDue (s : St) : TS s (fireDue s).1 := by
  unfold fireDue
  refine ⟨fun w hw => ?_, fun t ht => (List.mem_filter.mp ht).1⟩
  simp only at hw
  rcases resolveAll_cases s.futs .timeout
      (sortNat ((s.timers.filter (fun t => t.1 ≤ s.now)).map (·.2))) w with h | h
  · rw [h] at hw; exact Or.inl hw
  · right
    have := mem_sortNat.mp h.2
    simp only [List.mem_map, List.mem_filter] at this
    obtain ⟨t, ⟨ht, _⟩, e⟩ := this
    exact ⟨t, ht, e⟩

theorem ts_settle (s : St) : TS s (settle s).1 := by
  unfold settle
  exact TS.trans (TS.trans (ts_purge s) (ts_fireDue _)) (ts_purge _)

theorem ts_cancel (s : St) (x : Nat) : TS s (cancel s x).1 := by
  unfold cancel; split
  · refine ⟨fun w hw => ?_, fun _ h => h⟩
    simp only at hw
    rw [List.getElem?_set] at hw
    split at hw
    · split at hw <;> simp at hw
    · exact Or.inl hw
  · exact TS.refl s

theorem ts_set (s : St) (raced : List Nat) (hr : ∀ w ∈ raced, ∃ t ∈ s.timers, t.2 = w) :
    TS s (set s raced).1 := by
  unfold set; split
  · exact TS.refl s
  · refine ⟨fun w hw => ?_, fun _ h => h⟩
    simp only at hw
    generalize hf1 : (resolveAll s.futs FState.timeout
      (List.filter (fun x => raced.contains x) (sortNat s.waiters))) = r1 at hw
    rcases resolveAll_cases r1.1 (.result 0) (sortNat s.waiters) w with h | h
    · rw [h, ← hf1] at hw
      rcases resolveAll_cases s.futs .timeout
          (List.filter (fun x => raced.contains x) (sortNat s.waiters)) w with h' | h'
      · rw [h'] at hw; exact Or.inl hw
      · right
        have := (List.mem_filter.mp h'.2).2
        exact hr w (by simpa using this)
    · rw [h.1] at hw; simp at hw

theorem ts_advance (s : St) : TS s (advance s).1 := by unfold advance; exact ⟨fun _ h => Or.inl h, fun _ h => h⟩

/-- an existing wait fails with `TimeoutError` during an op only if one of its own timers was scheduled
(and, by `fireDue`, due); `set`, `clear`, `cancel` and other waits' deadlines never time a wait out -/
theorem timeout_only_by_own_deadline (s : St) (op : Op) (w : Nat) (hw : w < s.futs.length)
    (ht : (step s op).1.futs[w]? = some .timeout) :
    s.futs[w]? = some .timeout ∨ ∃ t ∈ s.timers, t.2 = w := by
  have hfd : ∀ (t : St), TS t (purge (fireDue t).1) := fun t => TS.trans (ts_fireDue t) (ts_purge _)
  cases op with
  | wait d =>
    simp only [step] at ht
    rcases (ts_settle _).1 w ht with h | ⟨t, htm, e⟩
    · left
      unfold wait at h; split at h <;> simp only at h <;> rwa [List.getElem?_append_left hw] at h
    · unfold wait at htm
      split at htm
      · exact Or.inr ⟨t, htm, e⟩
      · simp only at htm
        cases d with
        | none => exact Or.inr ⟨t, htm, e⟩
        | some d =>
          simp only [List.mem_append, List.mem_singleton] at htm
          rcases htm with htm | rfl
          · exact Or.inr ⟨t, htm, e⟩
          · simp at e; omega
  | set => simp only [step] at ht; exact (TS.trans (ts_set s [] (by simp)) (ts_settle _)).1 w ht
  | clear => simp only [step] at ht; exact (ts_settle { s with flag := false }).1 w ht
  | fire => simp only [step] at ht; exact (TS.trans (ts_advance s) (ts_settle _)).1 w ht
  | cancel x => simp only [step] at ht; exact (TS.trans (ts_cancel s x) (ts_settle _)).1 w ht
  | raceSet =>
    simp only [step] at ht
    refine (TS.trans (TS.trans (ts_advance s) (ts_set _ _ ?_)) (hfd _)).1 w ht
    intro x hx
    simp only [List.mem_map, List.mem_filter] at hx
    obtain ⟨t, ⟨htm, _⟩, e⟩ := hx
    exact ⟨t, htm, e⟩
  | raceCancel x =>
    simp only [step] at ht
    exact (TS.trans (TS.trans (ts_advance s) (ts_cancel _ x)) (hfd _)).1 w ht

/-- the clauses of "a wait completes iff the event is set at or after the call and before its deadline,
otherwise TimeoutError", together, for every history -/
theorem event_wait_iff (ops : List Op) :
    -- wait on a set event completes at once
    (∀ d, (after ops).flag = true →
        (step (after ops) (.wait d)).1.futs[(after ops).futs.length]? = some (.result 0)) ∧
    -- a later set completes every pending wait; while set, nobody is pending
    (∀ w, isPend (after ops).futs w = true → (step (after ops) .set).1.futs[w]? = some (.result 0)) ∧
    ((after ops).flag = true → ∀ w, isPend (after ops).futs w = false) ∧
    -- reaching the earliest deadline fails the wait that owns it, if still pending
    (∀ t, minTimer (after ops).timers = some t → isPend (after ops).futs t.2 = true →
        (step (after ops) .fire).1.futs[t.2]? = some .timeout) ∧
    -- and TimeoutError has no other source
    (∀ op w, isPend (after ops).futs w = true → (step (after ops) op).1.futs[w]? = some .timeout →
        ∃ t ∈ (after ops).timers, t.2 = w) := by
  refine ⟨fun d h => wait_when_set _ d h, fun w h => set_completes ops w h,
    fun h w => set_means_nobody_waits ops h w, fun t h1 h2 => deadline_times_out _ t h1 h2, ?_⟩
  intro op w hp ht
  rcases timeout_only_by_own_deadline _ op w (isPend_lt hp) ht with h | h
  · unfold isPend at hp; rw [h] at hp; simp at hp
  · exact h

end Event

/-! ### refinement to the sequential specifications (`RefineCond.lean`: forward simulation through `absF`) -/

/-- for every preset of the collector and every op sequence the Condition model produces the same results and the
same resolutions, in the same order, as the sequential specification (FIFO of live waiters) -/
theorem Cond.refines_spec :
    ∀ (t0 : Nat) (ops : List Cond.Op),
      (Cond.run (Cond.init t0) ops).2.map (fun o => (o.res, o.evs)) =
        (Spec.Cond.run Spec.Cond.init ops).2.map (fun o => (o.res, o.evs)) := by
  intro t0 ops
  rw [← Cond.absF_init t0]
  exact (Cond.run_sim (Cond.inv_init t0) (Cond.TInv_init t0) ops).symm

/-- … and after every history the `Spec` state is the abstraction of the model state -/
theorem Cond.refines_spec_state (t0 : Nat) (ops : List Cond.Op) :
    (Spec.Cond.run Spec.Cond.init ops).1 = Cond.absF (Cond.run (Cond.init t0) ops).1 := by
  rw [← Cond.absF_init t0]
  exact Cond.run_sim_state (Cond.inv_init t0) (Cond.TInv_init t0) ops

example : (Cond.run (Cond.init 0) [.wait (some 5), .wait none, .wait (some 5), .cancel 1, .raceNotify 1,
      .wait (some 7), .notifyAll]).2.map (fun o => (o.res, o.evs))
    = [(.unit, []), (.unit, []), (.unit, []), (.bool true, [(1, .cancelled)]),
       (.unit, [(0, .result 1), (2, .result 0)]), (.unit, []), (.unit, [(3, .result 1)])] := by decide

/-- for every op sequence the Event model produces the same results and the same resolutions (per op, sorted by id
on both sides) as the sequential specification (flag + set of pending waits; a wait whose deadline is reached while
pending fails, `raceSet` expires first) -/
theorem Event.refines_spec :
    ∀ (ops : List Event.Op),
      (Event.run Event.init ops).2.map (fun o => (o.res, o.evs)) =
        (Spec.Event.run Spec.Event.init ops).2.map (fun o => (o.res, o.evs)) := by
  intro ops
  rw [← Event.absF_init]
  exact (Event.run_sim Event.inv_init Event.ws_init Event.TInv_init Event.notDue_init ops).symm

/-- … and after every history the `Spec` state is the abstraction of the model state -/
theorem Event.refines_spec_state (ops : List Event.Op) :
    (Spec.Event.run Spec.Event.init ops).1 = Event.absF (Event.run Event.init ops).1 := by
  rw [← Event.absF_init]
  exact Event.run_sim_state Event.inv_init Event.ws_init Event.TInv_init Event.notDue_init ops

example : (Event.run Event.init [.wait (some 5), .wait none, .wait (some 5), .raceSet, .wait none, .clear,
      .wait (some 9), .fire]).2.map (fun o => (o.res, o.evs))
    = [(.unit, []), (.unit, []), (.unit, []), (.unit, [(0, .timeout), (1, .result 0), (2, .timeout)]),
       (.unit, [(3, .result 0)]), (.unit, []), (.unit, []), (.fired (some 9), [(4, .timeout)])] := by decide

/-! ### compound ops: several calls inside one loop iteration (`Multi.lean`)

`run2` extends `run` by `multi [c₁,…,cₙ]` = `call c₁ ; … ; call cₙ ; settle` (Event: also `fireMulti`, the calls made
from the done-callback of the wait that just timed out).  Between the calls no done-callback has run: finished waits
are still in `Event._waiters`, their timer handles are still scheduled. -/

namespace Cond

abbrev after2 (t0 : Nat) (ops : List Op2) : St := (run2 (init t0) ops).1
/-- the state after the calls `cs` of a loop iteration that starts after the history `ops` (before the drain) -/
abbrev inside (t0 : Nat) (ops : List Op2) (cs : List Call) : St := (calls (after2 t0 ops) cs).1

/-- histories of primitive ops are exactly the compound-free histories of `run2` -/
theorem multi_extends (t0 : Nat) (ops : List Op) :
    run2 (init t0) (ops.map .prim) = ((run (init t0) ops).1, (run (init t0) ops).2.map .prim) :=
  run2_prim _ ops

theorem multi_inv_after (t0 : Nat) (ops : List Op2) : Inv (after2 t0 ops) :=
  (run2_inv (inv_init t0) (TInv_init t0) ops).1

/-- the deque invariant also holds between the calls of one loop iteration -/
theorem multi_inv_inside (t0 : Nat) (ops : List Op2) (cs : List Call) : Inv (inside t0 ops cs) :=
  (calls_inv (multi_inv_after t0 ops) (TR_of_TInv (run2_inv (inv_init t0) (TInv_init t0) ops).2) cs).1

/-- at any point of a loop iteration `notify n` resolves exactly the first `min n live` live waiters, in arrival
order, with `True`; the live queue is the set of pending futures, oldest first -/
theorem multi_notify_wakes_min (t0 : Nat) (ops : List Op2) (cs : List Call) (n : Nat) :
    (call (inside t0 ops cs) (.notify n)).2.2 =
        ((liveQueue (inside t0 ops cs)).take n).map (fun w => (w, FState.result 1)) ∧
      ((liveQueue (inside t0 ops cs)).take n).length = min n (liveQueue (inside t0 ops cs)).length ∧
      (liveQueue (inside t0 ops cs)).Pairwise (· < ·) ∧
      ∀ w, w ∈ liveQueue (inside t0 ops cs) ↔ isPend (inside t0 ops cs).futs w = true := by
  have h := multi_inv_inside t0 ops cs
  refine ⟨?_, List.length_take, h.sorted.sublist List.filter_sublist, fun w => ?_⟩
  · rw [call_notify_eq]
    simp only [notify, liveQueue, (popN_spec _ _ n).1]
  · simp only [liveQueue, List.mem_filter]
    exact ⟨fun hw => hw.2, fun hw => ⟨h.pend_mem w hw, hw⟩⟩

example : (call (inside 0 [.prim (.wait none), .prim (.wait none), .prim (.wait none)] [.cancel 0, .notify 1])
    (.notify 5)).2.2 = [(2, .result 1)] := by decide

/-- histories with compound ops produce the same results (per call) and the same resolutions, in the same order,
as the sequential specification making the same calls -/
theorem multi_refines_spec (t0 : Nat) (ops : List Op2) :
    (run2 (init t0) ops).2.map Out2.view = (Spec.Cond.run2 Spec.Cond.init ops).2 := by
  rw [← absF_init t0, run2_sim (inv_init t0) (TInv_init t0) ops]

theorem multi_refines_spec_state (t0 : Nat) (ops : List Op2) :
    (Spec.Cond.run2 Spec.Cond.init ops).1 = absF (after2 t0 ops) := by
  rw [← absF_init t0, run2_sim (inv_init t0) (TInv_init t0) ops]

example : (run2 (init 0) [.prim (.wait none), .prim (.wait (some 4)), .multi [.notify 1, .wait none, .cancel 1,
      .notifyAll], .prim (.notify 1)]).2.map Out2.view
    = [(.unit, [], []), (.unit, [], []),
       (.unit, [.unit, .unit, .bool true, .unit], [(0, .result 1), (1, .cancelled), (2, .result 1)]),
       (.unit, [], [])] := by decide

end Cond

namespace Event

abbrev after2 (ops : List Op2) : St := (run2 init ops).1
/-- the state after the calls `cs` of a loop iteration that starts after the history `ops` (before the drain);
`fire = true`: the iteration is the one that follows the expiry of the earliest timer (`fireMulti`) -/
abbrev inside (ops : List Op2) (fire : Bool) (cs : List Call) : St :=
  (calls (if fire then fired (after2 ops) else after2 ops) cs).1

theorem multi_extends (ops : List Op) :
    run2 init (ops.map .prim) = ((run init ops).1, (run init ops).2.map .prim) :=
  run2_prim _ ops

theorem multi_inv_after (ops : List Op2) : Inv (after2 ops) := (run2_bd bd_init ops).inv

theorem mid_inside (ops : List Op2) (fire : Bool) (cs : List Call) : Mid (inside ops fire cs) := by
  have hb := run2_bd bd_init ops
  cases fire with
  | false => exact calls_mid hb.mid cs
  | true => exact calls_mid (fired_mid hb) cs

/-- at every point of a loop iteration every pending wait is registered in `_waiters`, and while the flag is set
nobody is pending -/
theorem multi_inv_inside (ops : List Op2) (fire : Bool) (cs : List Call) : Inv (inside ops fire cs) :=
  (mid_inside ops fire cs).inv

/-- finished waits leave no residue: after every op, compound or not, `_waiters` holds pending futures only -/
theorem multi_no_residue (ops : List Op2) : ∀ w ∈ (after2 ops).waiters, isPend (after2 ops).futs w = true := by
  unfold after2
  have key : ∀ (s : St), (∀ w ∈ s.waiters, isPend s.futs w = true) →
      ∀ w ∈ (run2 s ops).1.waiters, isPend (run2 s ops).1.futs w = true := by
    induction ops with
    | nil => intro s hs; exact hs
    | cons op ops ih => intro s _; simp only [run2]; exact ih _ (step2_no_residue s op)
  exact key init (by simp [init])

/-- at any point of a loop iteration — finished waits still registered — `set()` completes every pending wait -/
theorem multi_set_completes (ops : List Op2) (fire : Bool) (cs : List Call) (w : Nat)
    (hp : isPend (inside ops fire cs).futs w = true) :
    (call (inside ops fire cs) .set).1.futs[w]? = some (.result 0) :=
  set_completes_mid (multi_inv_inside ops fire cs) w hp

/-- … and no call ever touches a wait that is already finished (woken, timed out, cancelled) -/
theorem multi_settled_final (s : St) (c : Call) (w : Nat) (f : FState) (hw : s.futs[w]? = some f)
    (hf : f ≠ .pending) : (call s c).1.futs[w]? = some f :=
  call_settled_final s c w f hw hf

/-- `wait()` on a set event completes at once, also in the middle of an iteration -/
theorem multi_wait_when_set (s : St) (d : Option Nat) (h : s.flag = true) :
    (call s (.wait d)).1.futs[s.futs.length]? = some (.result 0) :=
  wait_when_set_mid s d h

-- the pulse `wait; set; clear; wait; set` inside one iteration: the second `set` meets wait 0 finished but still
-- registered, and wakes wait 1
example : (inside [] false [.wait none, .set, .clear, .wait none]).waiters = [0, 1] ∧
    (call (inside [] false [.wait none, .set, .clear, .wait none]) .set).2.2 = [(1, .result 0)] := by decide

/-- histories with compound ops produce the same results (per call) and the same resolutions (per op, sorted by id)
as the sequential specification making the same calls -/
theorem multi_refines_spec (ops : List Op2) :
    (run2 init ops).2.map Out2.view = (Spec.Event.run2 Spec.Event.init ops).2 := by
  rw [← absF_init, run2_sim bd_init ops]

theorem multi_refines_spec_state (ops : List Op2) :
    (Spec.Event.run2 Spec.Event.init ops).1 = absF (after2 ops) := by
  rw [← absF_init, run2_sim bd_init ops]

example : (run2 init [.prim (.wait (some 3)), .prim (.wait none), .multi [.set, .clear, .wait none, .isSet, .set],
      .prim .clear, .prim (.wait none), .prim (.wait (some 9)), .fireMulti [.cancel 4, .wait none, .set]]).2.map Out2.view
    = [(.unit, [], []), (.unit, [], []),
       (.unit, [.unit, .unit, .unit, .bool false, .unit], [(0, .result 0), (1, .result 0), (2, .result 0)]),
       (.unit, [], []), (.unit, [], []), (.unit, [], []),
       (.fired (some 9), [.bool false, .unit, .unit], [(3, .result 0), (4, .timeout), (5, .result 0)])] := by decide

end Event

end TornadoModel.C34
