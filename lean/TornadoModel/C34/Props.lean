import TornadoModel.C34.Spec
namespace TornadoModel.C34

end TornadoModel.C34
