/-
C02 — compact transport of large byte strings over the driver line protocol (core Lean only).

Hex costs the driver about 2 µs per digit, so bodies of 64 KiB … several hundred KiB (the region around the
chunk sizes where `_format_chunk` could treat payloads differently) are sent as *descriptors*:

  B ::= x<hex>                 literal bytes
      | [rep, x<pat>, n]       `pat` repeated and cut to `n` bytes  (= `chunk_bytes([pat, n])` of the harness)
      | [cat, B, B, …]         concatenation

The receiving side always *expands* a descriptor to the full byte string before anything is compared, so the
correspondence stays byte-exact: `compress` is only ever applied by the sender, and
`expand_compress : expand (compress bs) = bs` says that nothing is lost on the way.
-/
import TornadoModel.C02.Model
namespace TornadoModel.C02.Rle
open TornadoModel.C02

/-- `(pat * (n // len(pat) + 1))[:n]` — empty when the pattern is empty -/
def cyc (pat : Bytes) (n : Nat) : Bytes :=
  if pat.isEmpty then [] else ((List.replicate (n / pat.length + 1) pat).flatten).take n

inductive Seg where
  | lit (b : Bytes)
  | rep (pat : Bytes) (n : Nat)
  deriving Repr, BEq, DecidableEq

def Seg.expand : Seg → Bytes
  | .lit b => b
  | .rep p n => cyc p n

def expand (l : List Seg) : Bytes := l.flatMap Seg.expand

/-- runs shorter than this stay literal -/
def minRun : Nat := 32

/-- one segment per maximal run of equal bytes (runs of at least `minRun` bytes become `rep`).
    `fuel ≥ length` always suffices; when it runs out the remainder is kept literally, so the result is
    correct for every fuel. -/
def runs : Nat → Bytes → List Seg
  | 0, l => [.lit l]
  | _ + 1, [] => []
  | fuel + 1, b :: rest =>
    let run := rest.takeWhile (· == b)
    let tl := rest.dropWhile (· == b)
    (if minRun ≤ run.length + 1 then Seg.rep [b] (run.length + 1) else Seg.lit (b :: run)) :: runs fuel tl

/-- join neighbouring literals (from the right, so that the cost stays linear) -/
def merge : List Seg → List Seg
  | [] => []
  | .lit b :: r =>
    match merge r with
    | .lit c :: r' => .lit (b ++ c) :: r'
    | m => .lit b :: m
  | .rep p n :: r => .rep p n :: merge r

def compress (bs : Bytes) : List Seg := merge (runs bs.length bs)

theorem cyc_singleton (b n : Nat) : cyc [b] n = List.replicate n b := by
  simp [cyc, List.take_replicate]

theorem cyc_length (pat : Bytes) (n : Nat) (h : pat ≠ []) : (cyc pat n).length = n := by
  have hp : 0 < pat.length := List.length_pos_iff.mpr h
  have hlt : n < pat.length * (n / pat.length + 1) := Nat.lt_mul_div_succ n hp
  have he : pat.isEmpty = false := by cases pat <;> simp_all
  simp only [cyc, he, Bool.false_eq_true, if_false, List.length_take, List.length_flatten,
    List.map_replicate, List.sum_replicate_nat]
  rw [Nat.mul_comm] at hlt
  omega

theorem takeWhile_beq_eq_replicate (b : Nat) (l : Bytes) :
    l.takeWhile (· == b) = List.replicate (l.takeWhile (· == b)).length b := by
  induction l with
  | nil => rfl
  | cons c cs ih =>
    by_cases h : c = b
    · subst h
      simp only [List.takeWhile_cons, beq_self_eq_true, if_true, List.length_cons, List.replicate_succ]
      rw [← ih]
    · have : (c == b) = false := by simpa using h
      simp [this]

theorem expand_runs (fuel : Nat) (l : Bytes) : expand (runs fuel l) = l := by
  induction fuel generalizing l with
  | zero => simp [runs, expand, Seg.expand]
  | succ k ih =>
    cases l with
    | nil => simp [runs, expand]
    | cons b rest =>
      have hsplit := List.takeWhile_append_dropWhile (p := (· == b)) (l := rest)
      have hrep := takeWhile_beq_eq_replicate b rest
      have ih' := ih (rest.dropWhile (· == b))
      simp only [expand] at ih' ⊢
      simp only [runs, List.flatMap_cons, ih']
      split
      · simp only [Seg.expand, cyc_singleton, List.replicate_succ, List.cons_append]
        rw [← hrep, hsplit]
      · simp only [Seg.expand, List.cons_append, hsplit]

theorem expand_merge (l : List Seg) : expand (merge l) = expand l := by
  induction l with
  | nil => rfl
  | cons s r ih =>
    cases s with
    | lit b =>
      simp only [merge]
      split
      · next c r' h =>
        rw [h] at ih
        simp only [expand, List.flatMap_cons, Seg.expand, List.append_assoc] at ih ⊢
        rw [ih]
      · simp only [expand, List.flatMap_cons] at ih ⊢
        rw [ih]
    | rep p n =>
      simp only [merge, expand, List.flatMap_cons] at ih ⊢
      rw [ih]

/-- the transport loses nothing: what the receiver expands is what the sender had -/
theorem expand_compress (bs : Bytes) : expand (compress bs) = bs := by
  simp [compress, expand_merge, expand_runs]

end TornadoModel.C02.Rle
