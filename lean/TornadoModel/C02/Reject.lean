/- C02 — the rejected flush (fix 28dd4cc): a handler-set Content-Length that `parse_int` cannot read makes
   `flush()` raise before the response is started, and the client then reads the regular 500 error page. -/
import TornadoModel.C02.Writes
namespace TornadoModel.C02
open TornadoModel.C02.Spec
open TornadoModel.C06 (Str normalize dget dset ddel isToken stripWs lowerC dkeys)

/-- what `flush()`'s check means for the header map: no Content-Length at all, or exactly one value that is a
    non-empty run of ASCII digits (so: not "", "a", "-1", "+3", " 3", "3,3", nor two values) -/
theorem clValid_iff (h : HMap) :
    clValid h = true ↔ (dget nCL h = none ∨ ∃ v, dget nCL h = some [v] ∧ v ≠ [] ∧ v.all isDigit = true) := by
  constructor
  · intro hv
    cases hg : dget nCL h with
    | none => exact Or.inl rfl
    | some vs =>
      obtain ⟨v, rfl, h1, h2⟩ := CLOK_of_clValid h hv vs hg
      exact Or.inr ⟨v, rfl, h1, h2⟩
  · rintro (hg | ⟨v, hg, h1, h2⟩)
    · exact clValid_absent h hg
    · obtain ⟨n, hn⟩ := parseDec_digits v h1 h2
      unfold clValid hget
      rw [norm_nCL, hg]
      simp [C06.joinWith, hn]

/-- after an exception raised while the headers are still unwritten (in particular: the rejected flush), the
    client reads exactly one response: status 500 carrying the error page, nothing left over -/
theorem error_page_of_unwritten (rq : Req) (hrq : reqOK rq = true) (hm : (rq.method == Method.head) = false)
    (hinm : rq.inmMatch = false) (s : St) (w : WF rq s) (hw : s.headersWritten = false) :
    ∃ hs, (onException rq s).conn.head = some (500, hs) ∧ (onException rq s).conn.sent.flatten = errorPage 500 ∧
      clientParse (rq.method == .head) (wire (onException rq s).conn) (onException rq s).conn.closed
        = .ok (expectedResp rq (onException rq s).conn 500 hs, []) := by
  have hw2 : (errState rq s).headersWritten = false := hw
  have ci : CI rq (errState rq s) 0 :=
    ⟨⟨(show 100 ≤ 500 by decide), (show 500 ≤ 999 by decide), w.fin,
        fun _ => ⟨(w.pre hw).1, HOK_default rq hrq⟩, fun h => absurd h (bool_ne_of_eq_false hw2)⟩,
      (show noBodyStatus 500 = false by decide),
      fun _ => dget_default rq nCL (by decide) (by decide) (by decide),
      fun h => absurd h (bool_ne_of_eq_false hw2)⟩
  obtain ⟨f1, _, f3, hs, f4, f5⟩ := hFinish_clean rq hrq hm hinm (errState rq s) 0 (some (errorPage 500)) ci
  have e : onException rq s = (hFinish rq (errState rq s) (some (errorPage 500))).1 := by
    rw [onException_unwritten rq s w.fin hw, f1]
    simp
  rw [e]
  rw [hw2] at f4 f5
  simp only [Bool.false_eq_true, if_false] at f4 f5
  have hst : (errState rq s).status = 500 := rfl
  rw [hst] at f4 f5
  refine ⟨hs, f4, ?_, f5⟩
  rw [f3]
  have h0 : (errState rq s).conn.sent = [] := (w.pre hw).1.2.2.2.1
  have hb : (errState rq s).buf = [] := rfl
  rw [h0, hb]
  rfl

/-- `finish()` before the first flush keeps a handler-set Content-Length as it is -/
theorem finishPrep_keeps_cl (rq : Req) (hinm : rq.inmMatch = false) (s : St)
    (hn : noBodyStatus s.status = false) (vs : List Str) (hg : dget nCL s.hdrs = some vs) :
    (finishPrep rq s).2 = false ∧ dget nCL (finishPrep rq s).1.hdrs = some vs := by
  rw [finishPrep_eq]
  have he : (fpEtag rq s).status = s.status ∧ dget nCL (fpEtag rq s).hdrs = some vs := by
    unfold fpEtag
    split
    · simp [hinm, dget_nCL_etag, hg]
    · exact ⟨rfl, hg⟩
  have hh : hhas (fpEtag rq s).hdrs nCL = true := by rw [hhas_nCL, he.2]; rfl
  have hn' : noBodyStatus (fpEtag rq s).status = false := by rw [he.1]; exact hn
  have ht : fpTail (fpEtag rq s) = (fpEtag rq s, false) := by
    simp [fpTail, hn', hh]
  rw [ht]
  exact ⟨rfl, he.2⟩

/-- **the repaired defect, end to end**: a handler that does nothing but `set_header("Content-Length", v)` with a
    value `parse_int` rejects (for every such `v`: "a", "-1", "", " 3", "3,3", …) gets — for every non-HEAD request
    shape without an If-None-Match hit — exactly one complete response: the 500 error page, nothing left over.
    (Before the fix: nothing on the wire and the connection left open.) -/
theorem run_invalid_cl_error_page (rq : Req) (hrq : reqOK rq = true) (hm : rq.method ≠ Method.head)
    (hinm : rq.inmMatch = false) (v : Str) (hv : validValue v = true) (hbad : parseDec v = none) :
    ∃ hs d, clientParse (rq.method == .head) (wire (run rq [.setHeader nCL v]).conn)
        (run rq [.setHeader nCL v]).conn.closed
      = .ok (⟨500, reason 500, hs, errorPage 500, d⟩, []) := by
  have hm' : (rq.method == Method.head) = false := by
    cases h : rq.method with
    | head => exact absurd h hm
    | get => rfl
    | post => rfl
  -- state after the set_header
  let s1 : St := { init rq with hdrs := hset (defaultHdrs rq) nCL v }
  have w1 : WF rq s1 := WF_hdrs rq (init rq) (WF_init rq hrq) _
    (fun _ => HOK_hset _ nCL v (HOK_default rq hrq) (by decide) hv (by decide))
  have hg1 : dget nCL s1.hdrs = some [v] := by
    show dget nCL (hset (defaultHdrs rq) nCL v) = _
    unfold hset; rw [norm_nCL, dget_dset_same]
  -- `finish()`: the preparation keeps the value, the flush is rejected
  obtain ⟨q1, q2⟩ := finishPrep_keeps_cl rq hinm s1 (show noBodyStatus 200 = false by decide) [v] hg1
  obtain ⟨pp, _⟩ := finishPrep_spec rq hrq s1 (Pre_of_WF rq s1 w1 rfl)
  have hbadv : clValid (finishPrep rq s1).1.hdrs = false := by
    unfold clValid hget
    rw [hhas_nCL, norm_nCL, q2]
    simp [C06.joinWith, hbad]
  have hfin : hFinish rq s1 none = ((finishPrep rq s1).1, true) := by
    rw [hFinish_stages rq s1 none rfl (finishPrep rq s1) (by simp [addBuf, s1, init])]
    rw [if_neg (bool_ne_of_eq_false q1), hFlush_reject rq _ pp.2.2.2.1 hbadv]
    simp
  have e : run rq [.setHeader nCL v] = onException rq (finishPrep rq s1).1 := by
    show runOps rq (init rq) [.setHeader nCL v] = _
    have hst : step rq (init rq) (.setHeader nCL v) = (s1, false) := by
      simp [step, hv, s1, init]
    rw [runOps, if_neg (by simp [init]), hst]
    simp only [Bool.false_eq_true, if_false]
    rw [runOps, if_neg (by simp [s1, init]), hfin]
    simp
  rw [e]
  obtain ⟨hs, _, h2, h3⟩ := error_page_of_unwritten rq hrq hm' hinm _ (WF_of_Pre rq _ pp) pp.2.2.2.1
  refine ⟨stripHs hs, delimOf rq (onException rq (finishPrep rq s1).1).conn 500 hs, ?_⟩
  rw [h3]
  have hnb : nbOf rq 500 = false := nbOf_false rq 500 hm' (by decide)
  simp only [expectedResp, hnb, Bool.false_eq_true, if_false, h2]

end TornadoModel.C02
