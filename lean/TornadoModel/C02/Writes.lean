/- C02 — for exception-free ("clean") programs the ghost `sent` is the concatenation of the program's writes
   and the head carries the status in force at the first flush/finish. -/
import TornadoModel.C02.Final
namespace TornadoModel.C02
open TornadoModel.C02.Spec
open TornadoModel.C06 (Str normalize dget dset ddel isToken stripWs lowerC dkeys)

/-- ops that cannot raise and leave delimitation to the framework: body-carrying 3-digit statuses, valid header
    values, token names other than `Transfer-Encoding` / `Content-Length` -/
def opClean : Op → Bool
  | .setStatus c => decide (100 ≤ c) && decide (c ≤ 999) && !noBodyStatus c
  | .setHeader n v => isToken (normalize n) && (normalize n != nTE) && (normalize n != nCL) && validValue v
  | .addHeader n v =>
    isToken (normalize n) && (normalize n != nTE) && (normalize n != nCL) && validValue v
      && isToken n && C06.isFieldValue v
  | _ => true

/-- what the program text asks for: the writes up to (and including) the first `finish` -/
def bodyOf : List Op → Bytes
  | [] => []
  | .write b :: ops => b ++ bodyOf ops
  | .finish (some b) :: _ => b
  | .finish none :: _ => []
  | _ :: ops => bodyOf ops

/-- the status in force when the head is serialised (first flush / finish) -/
def headStatus : Nat → List Op → Nat
  | cur, [] => cur
  | _, .setStatus c :: ops => headStatus c ops
  | cur, .flush :: _ => cur
  | cur, .finish _ :: _ => cur
  | cur, _ :: ops => headStatus cur ops

theorem opOK_of_clean (op : Op) (h : opClean op = true) : opOK op = true := by
  cases op with
  | setStatus c => simp only [opClean, Bool.and_eq_true] at h; simp only [opOK, Bool.and_eq_true]; exact h.1
  | setHeader n v =>
    simp only [opClean, Bool.and_eq_true] at h
    simp only [opOK, Bool.and_eq_true]
    exact ⟨h.1.1.1, h.1.1.2⟩
  | addHeader n v =>
    simp only [opClean, Bool.and_eq_true] at h
    simp only [opOK, Bool.and_eq_true]
    exact ⟨h.1.1.1.1.1, h.1.1.1.1.2⟩
  | clearHeader n => rfl
  | write b => rfl
  | flush => rfl
  | finish b => rfl

/-! ### connection level -/

theorem ShortBody_unchanged (c c' : CSt) (hs : List (Str × Str)) (h : c'.sent = c.sent) :
    ShortBody c' hs ↔ ShortBody c hs := by
  unfold ShortBody; rw [h]

/-- a live connection whose remaining count is absent or zero finishes cleanly and the client reads the
    expected response -/
theorem parse_after_cFinish (rq : Req) (c : CSt) (w : Written rq c false) (hcl : c.closed = false)
    (hex : c.expected = none ∨ c.expected = some 0) :
    (cFinish c).2 = false ∧ (cFinish c).1.sent = c.sent ∧ (cFinish c).1.head = c.head ∧
    ∃ code hs, c.head = some (code, hs) ∧
      clientParse (rq.method == .head) (wire (cFinish c).1) (cFinish c).1.closed
        = .ok (expectedResp rq (cFinish c).1 code hs, []) := by
  -- `finish` does not raise
  have hr : (cFinish c).2 = false ∧ (cFinish c).1.sent = c.sent ∧ (cFinish c).1.head = c.head := by
    rcases hex with h | h
    · cases hch : c.chunking with
      | true => rw [cFinish_none_chunking c hcl h hch]; exact ⟨rfl, rfl, rfl⟩
      | false => rw [cFinish_none_plain c hcl h hch]; exact ⟨rfl, rfl, rfl⟩
    · cases hch : c.chunking <;> simp [cFinish, h, hcl, hch]
  refine ⟨hr.1, hr.2.1, hr.2.2, ?_⟩
  have w' := (cFinish_Written rq c w).1 hr.1
  obtain ⟨code, hs, hh, _, hp⟩ := parse_Written rq (cFinish c).1 true w' (Or.inl rfl)
  rw [hr.2.2] at hh
  refine ⟨code, hs, hh, ?_⟩
  rcases hp with hp | ⟨_, _, hnb, v', n', lv', pv', hlt⟩
  · exact hp
  · exfalso
    rw [hr.2.1] at hlt
    obtain ⟨code2, hs2, hh2, _, hm⟩ := w
    rw [hh] at hh2; cases hh2
    rcases hm with ⟨nb, _⟩ | ⟨_, _, _, l1, _⟩ | ⟨_, _, _, v, n, l1, hp, _, _, hx, _⟩ | ⟨_, _, _, l1, _⟩
    · rw [hnb] at nb; cases nb
    · rw [l1] at lv'; cases lv'
    · rw [l1] at lv'; cases lv'
      rw [hp] at pv'; cases pv'
      rcases hx with hx | hx
      · rw [hcl] at hx; cases hx
      · rcases hex with h | h
        · rw [h] at hx; cases hx
        · rw [h] at hx
          injection hx with hx'
          omega
    · rw [l1] at lv'; cases lv'

/-- `write_headers` on a fresh connection, no Content-Length in the map, body-carrying status, not HEAD -/
theorem cwh_stream (rq : Req) (c0 : CSt) (code : Nat) (h : HMap) (chunk : Bytes)
    (hf : Fresh rq c0) (hok : HOK h) (hg : dget nCL h = none) (hnb : nbOf rq code = false) :
    (cWriteHeaders rq c0 code h chunk).2 = false ∧ (cWriteHeaders rq c0 code h chunk).1.closed = false ∧
    (cWriteHeaders rq c0 code h chunk).1.expected = none ∧
    (cWriteHeaders rq c0 code h chunk).1.sent.flatten = chunk ∧
    ∃ hs, (cWriteHeaders rq c0 code h chunk).1.head = some (code, hs) := by
  obtain ⟨fout, fcl, fdisc, fsent, fhead⟩ := hf
  obtain ⟨fk, fclh, fte⟩ := finalHeaders_spec rq c0.disconnect (decideChunking rq code h) code h hok
  have hhascl : hhas (finalH rq c0 code h) nCL = false := by
    rw [hhas_nCL]; unfold finalH; rw [fclh, hg]; rfl
  have hnbx : (rq.method == Method.head || noBodyStatus code) = false := hnb
  have he : (if (rq.method == Method.head || noBodyStatus code) = true then some (some (0 : Int))
         else if hhas (finalH rq c0 code h) nCL = true then
           (parseDec (hget (finalH rq c0 code h) nCL)).map (fun n => some (n : Int))
         else some none) = some none := by
    rw [hnbx, hhascl]; rfl
  rw [cWriteHeaders_exp rq c0 code h chunk none fcl he]
  have hfm : fmtChunk (hdrConn rq c0 code h none) chunk
      = ({ hdrConn rq c0 code h none with sent := c0.sent ++ [chunk] },
          some (encChunk (decideChunking rq code h) chunk)) := by
    simp [fmtChunk, hdrConn]
  by_cases hce : chunk = []
  · subst hce
    rw [if_pos List.isEmpty_nil]
    refine ⟨rfl, fcl, rfl, ?_, _, rfl⟩
    show c0.sent.flatten = []
    rw [fsent]; rfl
  · have hne : chunk.isEmpty = false := by cases chunk <;> simp_all
    rw [if_neg (bool_ne_of_eq_false hne), hfm]
    refine ⟨rfl, fcl, rfl, ?_, _, rfl⟩
    show (c0.sent ++ [chunk]).flatten = chunk
    rw [fsent]; simp

/-- `write_headers` on a fresh connection whose map carries the automatic Content-Length of exactly this chunk -/
theorem cwh_cl (rq : Req) (c0 : CSt) (code : Nat) (h : HMap) (chunk : Bytes)
    (hf : Fresh rq c0) (hok : HOK h) (hg : dget nCL h = some [toDec chunk.length]) (hnb : nbOf rq code = false) :
    (cWriteHeaders rq c0 code h chunk).2 = false ∧ (cWriteHeaders rq c0 code h chunk).1.closed = false ∧
    (cWriteHeaders rq c0 code h chunk).1.expected = some 0 ∧
    (cWriteHeaders rq c0 code h chunk).1.sent.flatten = chunk ∧
    ∃ hs, (cWriteHeaders rq c0 code h chunk).1.head = some (code, hs) := by
  obtain ⟨fout, fcl, fdisc, fsent, fhead⟩ := hf
  obtain ⟨fk, fclh, fte⟩ := finalHeaders_spec rq c0.disconnect (decideChunking rq code h) code h hok
  have hhascl : hhas (finalH rq c0 code h) nCL = true := by
    rw [hhas_nCL]; unfold finalH; rw [fclh, hg]; rfl
  have hget1 : hget (finalH rq c0 code h) nCL = toDec chunk.length := by
    unfold hget finalH; rw [norm_nCL, fclh, hg]; rfl
  have hnbx : (rq.method == Method.head || noBodyStatus code) = false := hnb
  have he : (if (rq.method == Method.head || noBodyStatus code) = true then some (some (0 : Int))
         else if hhas (finalH rq c0 code h) nCL = true then
           (parseDec (hget (finalH rq c0 code h) nCL)).map (fun n => some (n : Int))
         else some none) = some (some (chunk.length : Int)) := by
    rw [hnbx, hhascl, hget1, parseDec_toDec]; rfl
  have hchk : decideChunking rq code h = false := by
    have : hhas h nCL = true := by rw [hhas_nCL, hg]; rfl
    simp [decideChunking, this]
  rw [cWriteHeaders_exp rq c0 code h chunk (some (chunk.length : Int)) fcl he]
  by_cases hce : chunk = []
  · subst hce
    rw [if_pos List.isEmpty_nil]
    refine ⟨rfl, fcl, rfl, ?_, _, rfl⟩
    show c0.sent.flatten = []
    rw [fsent]; rfl
  · have hne : chunk.isEmpty = false := by cases chunk <;> simp_all
    have hlen : ¬ ((chunk.length : Int) - (chunk.length : Int) < 0) := by omega
    have hfm : fmtChunk (hdrConn rq c0 code h (some (chunk.length : Int))) chunk
        = ({ hdrConn rq c0 code h (some (chunk.length : Int)) with
              expected := some ((chunk.length : Int) - (chunk.length : Int)), sent := c0.sent ++ [chunk] },
            some chunk) := by
      simp [fmtChunk, hdrConn, hchk, encChunk]
    rw [if_neg (bool_ne_of_eq_false hne), hfm]
    refine ⟨rfl, fcl, ?_, ?_, _, rfl⟩
    · show some ((chunk.length : Int) - (chunk.length : Int)) = some 0
      congr 1; omega
    · show (c0.sent ++ [chunk]).flatten = chunk
      rw [fsent]; simp

/-! ### handler level -/

/-- invariant of an unfinished state in a clean run; `K` = status in the head once it is written -/
structure CI (rq : Req) (s : St) (K : Nat) : Prop where
  wf : WF rq s
  nb : noBodyStatus s.status = false
  ncl : s.headersWritten = false → dget nCL s.hdrs = none
  live : s.headersWritten = true →
    s.conn.closed = false ∧ s.conn.expected = none ∧ ∃ hs, s.conn.head = some (K, hs)

/-- the status the head will carry -/
def tgt (s : St) (K : Nat) (prog : List Op) : Nat := if s.headersWritten then K else headStatus s.status prog

theorem nbOf_false (rq : Req) (code : Nat) (hm : (rq.method == Method.head) = false)
    (hn : noBodyStatus code = false) : nbOf rq code = false := by
  unfold nbOf; rw [hm, hn]; rfl

theorem Written_of_WF_open (rq : Req) (s : St) (w : WF rq s) (hw : s.headersWritten = true)
    (hc : s.conn.closed = false) : Written rq s.conn false := by
  rcases w.post hw with a | wr
  · rw [a.2.1] at hc; cases hc
  · exact wr

/-- flush in a clean run: never raises, moves the buffer into `sent` -/
theorem hFlush_stream (rq : Req) (s : St) (K : Nat) (ci : CI rq s K) (hm : (rq.method == Method.head) = false) :
    (hFlush rq s).2 = false ∧ CI rq (hFlush rq s).1 (if s.headersWritten then K else s.status) ∧
    (hFlush rq s).1.headersWritten = true ∧ (hFlush rq s).1.buf = [] ∧ (hFlush rq s).1.status = s.status ∧
    (hFlush rq s).1.conn.sent.flatten = s.conn.sent.flatten ++ s.buf.flatten := by
  -- no Content-Length in the map: `flush()`'s check passes
  have hcv : s.headersWritten = false → clValid s.hdrs = true := fun h => clValid_absent _ (ci.ncl h)
  have hcore : hFlush rq s = hFlushCore rq s := by
    cases hw : s.headersWritten with
    | true => exact hFlush_core rq s (Or.inl hw)
    | false => exact hFlush_core rq s (Or.inr (hcv hw))
  rw [hcore]
  obtain ⟨wq, hqw, _⟩ := hFlushCore_spec rq s ci.wf hcv
  have hm' : (rq.method != Method.head) = true := by simp [bne, hm]
  by_cases hw : s.headersWritten = true
  · obtain ⟨lc, le, hs, lh⟩ := ci.live hw
    have hcw := cWrite_none s.conn s.buf.flatten lc le
    have e : hFlushCore rq s = ({ s with buf := [], conn := (cWrite s.conn s.buf.flatten).1 },
        (cWrite s.conn s.buf.flatten).2) := by
      simp [hFlushCore, hw, hm']
    rw [e] at wq hqw ⊢
    rw [hcw] at wq hqw ⊢
    refine ⟨rfl, ⟨wq, ci.nb, fun h => absurd hw (bool_ne_of_eq_false h), fun _ => ⟨lc, le, hs, ?_⟩⟩, hw, rfl, rfl, ?_⟩
    · rw [if_pos hw]; exact lh
    · show (s.conn.sent ++ [s.buf.flatten]).flatten = _
      simp
  · have hw' : s.headersWritten = false := by simpa using hw
    obtain ⟨fr, hok⟩ := ci.wf.pre hw'
    have hchunk : (if (rq.method == Method.head) = true then [] else s.buf.flatten) = s.buf.flatten := by
      rw [hm]; rfl
    obtain ⟨c1, c2, c3, c4, hs, c5⟩ := cwh_stream rq s.conn s.status s.hdrs s.buf.flatten fr hok (ci.ncl hw')
      (nbOf_false rq s.status hm ci.nb)
    have e : hFlushCore rq s =
        ({ s with
            buf := [], headersWritten := true, conn := (cWriteHeaders rq s.conn s.status s.hdrs s.buf.flatten).1 },
          (cWriteHeaders rq s.conn s.status s.hdrs s.buf.flatten).2) := by
      simp [hFlushCore, hw', hm]
    rw [e] at wq hqw ⊢
    refine ⟨c1, ⟨wq, ci.nb, fun h => (by cases h), fun _ => ⟨c2, c3, hs, ?_⟩⟩, rfl, rfl, rfl, ?_⟩
    · rw [if_neg hw]; exact c5
    · show (cWriteHeaders rq s.conn s.status s.hdrs s.buf.flatten).1.sent.flatten = _
      rw [c4, fr.2.2.2.1]; rfl

theorem dget_nCL_etag (h : HMap) (v : Str) : dget nCL (hset h nEtag v) = dget nCL h := by
  unfold hset; exact dget_dset_ne _ _ _ _ (by decide)

/-- `finish()` before any flush in a clean run: automatic Content-Length of exactly the buffered body -/
theorem finishPrep_clean (rq : Req) (hrq : reqOK rq = true) (hinm : rq.inmMatch = false) (s : St)
    (p : Pre rq s) (hn : noBodyStatus s.status = false) (hcl : dget nCL s.hdrs = none) :
    (finishPrep rq s).2 = false ∧ Pre rq (finishPrep rq s).1 ∧ (finishPrep rq s).1.status = s.status ∧
    (finishPrep rq s).1.buf = s.buf ∧ (finishPrep rq s).1.conn = s.conn ∧
    dget nCL (finishPrep rq s).1.hdrs = some [toDec s.buf.flatten.length] := by
  obtain ⟨pp, _⟩ := finishPrep_spec rq hrq s p
  rw [finishPrep_eq] at pp ⊢
  -- the ETag step keeps status, buffer and the absence of Content-Length
  have he : (fpEtag rq s).status = s.status ∧ (fpEtag rq s).buf = s.buf ∧ (fpEtag rq s).conn = s.conn
      ∧ dget nCL (fpEtag rq s).hdrs = none := by
    unfold fpEtag
    split
    · simp [hinm, dget_nCL_etag, hcl]
    · exact ⟨rfl, rfl, rfl, hcl⟩
  obtain ⟨e1, e2, e3, e4⟩ := he
  have hhas0 : hhas (fpEtag rq s).hdrs nCL = false := by rw [hhas_nCL, e4]; rfl
  have hn' : noBodyStatus (fpEtag rq s).status = false := by rw [e1]; exact hn
  have ht : fpTail (fpEtag rq s) = ({ fpEtag rq s with
      hdrs := hset (fpEtag rq s).hdrs nCL (toDec ((fpEtag rq s).buf.map List.length).sum) }, false) := by
    simp [fpTail, hn', hhas0]
  rw [ht] at pp ⊢
  refine ⟨rfl, pp, e1, e2, e3, ?_⟩
  show dget nCL (hset (fpEtag rq s).hdrs nCL _) = _
  unfold hset
  rw [norm_nCL, dget_dset_same, sum_lengths, e2]

theorem hFlush_cl (rq : Req) (s : St) (w : WF rq s) (hm : (rq.method == Method.head) = false)
    (hw : s.headersWritten = false) (hn : noBodyStatus s.status = false)
    (hcl : dget nCL s.hdrs = some [toDec s.buf.flatten.length]) :
    (hFlush rq s).2 = false ∧ Written rq (hFlush rq s).1.conn false ∧ (hFlush rq s).1.conn.closed = false ∧
    (hFlush rq s).1.conn.expected = some 0 ∧ (hFlush rq s).1.conn.sent.flatten = s.buf.flatten ∧
    ∃ hs, (hFlush rq s).1.conn.head = some (s.status, hs) := by
  -- the automatic Content-Length passes `flush()`'s check
  have hcv : clValid s.hdrs = true := by
    unfold clValid hget
    rw [norm_nCL, hcl]
    simp only [C06.joinWith, parseDec_toDec]
    simp
  rw [hFlush_core rq s (Or.inr hcv)]
  obtain ⟨wq, hqw, _⟩ := hFlushCore_spec rq s w (fun _ => hcv)
  obtain ⟨fr, hok⟩ := w.pre hw
  obtain ⟨c1, c2, c3, c4, hs, c5⟩ := cwh_cl rq s.conn s.status s.hdrs s.buf.flatten fr hok hcl
    (nbOf_false rq s.status hm hn)
  have e : hFlushCore rq s =
      ({ s with
          buf := [], headersWritten := true, conn := (cWriteHeaders rq s.conn s.status s.hdrs s.buf.flatten).1 },
        (cWriteHeaders rq s.conn s.status s.hdrs s.buf.flatten).2) := by
    simp [hFlushCore, hw, hm]
  rw [e] at wq hqw ⊢
  exact ⟨c1, Written_of_WF_open rq _ wq rfl c2, c2, c3, c4, hs, c5⟩

/-- `finish(b)` in a clean run -/
theorem hFinish_clean (rq : Req) (hrq : reqOK rq = true) (hm : (rq.method == Method.head) = false)
    (hinm : rq.inmMatch = false) (s : St) (K : Nat) (b : Option Bytes) (ci : CI rq s K) :
    (hFinish rq s b).2 = false ∧ (hFinish rq s b).1.finished = true ∧
    (hFinish rq s b).1.conn.sent.flatten = s.conn.sent.flatten ++ s.buf.flatten ++ b.getD [] ∧
    ∃ hs, (hFinish rq s b).1.conn.head = some (if s.headersWritten then K else s.status, hs) ∧
      clientParse (rq.method == .head) (wire (hFinish rq s b).1.conn) (hFinish rq s b).1.conn.closed
        = .ok (expectedResp rq (hFinish rq s b).1.conn (if s.headersWritten then K else s.status) hs, []) := by
  have w0 := WF_addBuf rq s b ci.wf
  have hst : (addBuf s b).status = s.status := by cases b <;> rfl
  have hhw : (addBuf s b).headersWritten = s.headersWritten := by cases b <;> rfl
  have hcn : (addBuf s b).conn = s.conn := by cases b <;> rfl
  have hhd : (addBuf s b).hdrs = s.hdrs := by cases b <;> rfl
  have hbf : (addBuf s b).buf.flatten = s.buf.flatten ++ b.getD [] := by
    cases b <;> simp [addBuf]
  -- the state after the flush inside `finish`, in both cases
  have key : ∀ p : St × Bool, p = (if (!(addBuf s b).headersWritten) = true then finishPrep rq (addBuf s b)
             else (addBuf s b, false)) →
      p.2 = false ∧ (hFlush rq p.1).2 = false ∧ Written rq (hFlush rq p.1).1.conn false ∧
      (hFlush rq p.1).1.conn.closed = false ∧
      ((hFlush rq p.1).1.conn.expected = none ∨ (hFlush rq p.1).1.conn.expected = some 0) ∧
      (hFlush rq p.1).1.conn.sent.flatten = s.conn.sent.flatten ++ s.buf.flatten ++ b.getD [] ∧
      ∃ hs, (hFlush rq p.1).1.conn.head = some (if s.headersWritten then K else s.status, hs) := by
    intro p hp
    by_cases hw : s.headersWritten = true
    · have hw0 : (addBuf s b).headersWritten = true := hhw.trans hw
      have : p = (addBuf s b, false) := by rw [hp]; simp [hw0]
      rw [this]
      have ci0 : CI rq (addBuf s b) K := ⟨w0, by rw [hst]; exact ci.nb,
        fun h => absurd hw0 (bool_ne_of_eq_false h), fun _ => by rw [hcn]; exact ci.live hw⟩
      obtain ⟨f1, f2, f3, _, _, f6⟩ := hFlush_stream rq (addBuf s b) K ci0 hm
      obtain ⟨g1, g2, hs, g3⟩ := f2.live f3
      refine ⟨rfl, f1, Written_of_WF_open rq _ f2.wf f3 g1, g1, Or.inl g2, ?_, hs, ?_⟩
      · rw [f6, hcn, hbf, List.append_assoc]
      · rw [g3, if_pos hw0, if_pos hw]
    · have hw' : s.headersWritten = false := by simpa using hw
      have hw0 : (addBuf s b).headersWritten = false := hhw.trans hw'
      have : p = finishPrep rq (addBuf s b) := by rw [hp]; simp [hw0]
      rw [this]
      obtain ⟨q1, q2, q3, q4, q5, q6⟩ := finishPrep_clean rq hrq hinm (addBuf s b) (Pre_of_WF rq _ w0 hw0)
        (by rw [hst]; exact ci.nb) (by rw [hhd]; exact ci.ncl hw')
      have hcl' : dget nCL (finishPrep rq (addBuf s b)).1.hdrs
          = some [toDec (finishPrep rq (addBuf s b)).1.buf.flatten.length] := by rw [q6, q4]
      obtain ⟨f1, f2, f3, f4, f5, hs, f6⟩ := hFlush_cl rq _ (WF_of_Pre rq _ q2) hm q2.2.2.2.1
        (by rw [q3, hst]; exact ci.nb) hcl'
      refine ⟨q1, f1, f2, f3, Or.inr f4, ?_, hs, ?_⟩
      · have hs0 : s.conn.sent.flatten = [] := by rw [(ci.wf.pre hw').1.2.2.2.1]; rfl
        rw [f5, q4, hbf, hs0]; rfl
      · rw [f6, q3, hst, if_neg hw]
  obtain ⟨p, hp⟩ : ∃ p, p = (if (!(addBuf s b).headersWritten) = true then finishPrep rq (addBuf s b)
             else (addBuf s b, false)) := ⟨_, rfl⟩
  obtain ⟨k1, k2, k3, k4, k5, k6, hs, k7⟩ := key p hp
  obtain ⟨m1, m2, m3, code, hs', m4, m5⟩ := parse_after_cFinish rq _ k3 k4 k5
  rw [k7] at m4; cases m4
  rw [hFinish_stages rq s b ci.wf.fin p hp]
  rw [if_neg (bool_ne_of_eq_false k1), if_neg (bool_ne_of_eq_false k2), if_neg (bool_ne_of_eq_false m1)]
  refine ⟨rfl, rfl, ?_, hs, ?_, ?_⟩
  · show (cFinish (hFlush rq p.1).1.conn).1.sent.flatten = _
    rw [m2, k6]
  · show (cFinish (hFlush rq p.1).1.conn).1.head = _
    rw [m3, k7]
  · exact m5

/-- a non-finishing clean op: never raises; buffer + sent grow by exactly what it writes -/
theorem step_clean (rq : Req) (hm : (rq.method == Method.head) = false) (s : St) (K : Nat) (op : Op)
    (ops : List Op) (ci : CI rq s K) (hop : opClean op = true) (hnf : ∀ b, op ≠ .finish b) :
    ∃ K', (step rq s op).2 = false ∧ CI rq (step rq s op).1 K' ∧
      (step rq s op).1.conn.sent.flatten ++ (step rq s op).1.buf.flatten ++ bodyOf ops
        = s.conn.sent.flatten ++ s.buf.flatten ++ bodyOf (op :: ops) ∧
      tgt (step rq s op).1 K' ops = tgt s K (op :: ops) := by
  cases op with
  | setStatus c =>
    simp only [opClean, Bool.and_eq_true, decide_eq_true_eq, Bool.not_eq_true'] at hop
    refine ⟨K, rfl, ⟨⟨hop.1.1, hop.1.2, ci.wf.fin, ci.wf.pre, ci.wf.post⟩, hop.2, ci.ncl, ci.live⟩, rfl, ?_⟩
    show (if s.headersWritten = true then K else headStatus c ops) = _
    simp [tgt, headStatus]
  | setHeader n v =>
    simp only [opClean, Bool.and_eq_true, bne_iff_ne, ne_eq] at hop
    have hv : (!validValue v) = false := by rw [hop.2]; rfl
    have e : step rq s (.setHeader n v) = ({ s with hdrs := hset s.hdrs n v }, false) := by
      simp [step, hop.2]
    rw [e]
    refine ⟨K, rfl, ⟨WF_hdrs rq s ci.wf _ (fun hw => HOK_hset _ n v (ci.wf.pre hw).2 hop.1.1.1 hop.2 hop.1.1.2), ci.nb, fun hw => ?_, ci.live⟩, rfl, ?_⟩
    · show dget nCL (hset s.hdrs n v) = none
      unfold hset; rw [dget_dset_ne _ _ _ _ hop.1.2]; exact ci.ncl hw
    · simp [tgt, headStatus]
  | addHeader n v =>
    simp only [opClean, Bool.and_eq_true, bne_iff_ne, ne_eq] at hop
    have e : step rq s (.addHeader n v) = ({ s with hdrs := hadd s.hdrs n v }, false) := by
      simp [step, hop.1.1.2, hop.1.2, hop.2]
    rw [e]
    refine ⟨K, rfl, ⟨WF_hdrs rq s ci.wf _ (fun hw => HOK_hadd _ n v (ci.wf.pre hw).2 hop.1.1.1.1.1 hop.1.1.2
      hop.1.1.1.1.2), ci.nb, fun hw => ?_, ci.live⟩, rfl, ?_⟩
    · show dget nCL (hadd s.hdrs n v) = none
      unfold hadd
      split <;> (rw [dget_dset_ne _ _ _ _ hop.1.1.1.2]; exact ci.ncl hw)
    · simp [tgt, headStatus]
  | clearHeader n =>
    refine ⟨K, rfl, ⟨WF_hdrs rq s ci.wf _ (fun hw => ?_), ci.nb, fun hw => ?_, ci.live⟩, rfl, ?_⟩
    · split
      · exact HOK_hdel _ _ (ci.wf.pre hw).2
      · exact (ci.wf.pre hw).2
    · show dget nCL (if hhas s.hdrs n = true then hdel s.hdrs n else s.hdrs) = none
      split
      · unfold hdel; rw [dget_ddel]; split
        · rfl
        · exact ci.ncl hw
      · exact ci.ncl hw
    · first | rfl | (simp [tgt, headStatus, step]; rfl)
  | write b =>
    have e : step rq s (.write b) = ({ s with buf := s.buf ++ [b] }, false) := by
      simp [step, ci.wf.fin]
    rw [e]
    refine ⟨K, rfl, ⟨⟨ci.wf.st1, ci.wf.st2, ci.wf.fin, ci.wf.pre, ci.wf.post⟩, ci.nb, ci.ncl, ci.live⟩, ?_, ?_⟩
    · show s.conn.sent.flatten ++ (s.buf ++ [b]).flatten ++ bodyOf ops = _
      simp [bodyOf]
    · simp [tgt, headStatus]
  | flush =>
    obtain ⟨f1, f2, f3, f4, f5, f6⟩ := hFlush_stream rq s K ci hm
    refine ⟨_, f1, f2, ?_, ?_⟩
    · show (hFlush rq s).1.conn.sent.flatten ++ (hFlush rq s).1.buf.flatten ++ bodyOf ops = _
      rw [f6, f4]; simp [bodyOf]
    · show tgt (hFlush rq s).1 _ ops = _
      unfold tgt; rw [f3]; simp [headStatus]
  | finish b => exact absurd rfl (hnf b)

theorem bodyOf_finish (b : Option Bytes) (ops : List Op) : bodyOf (.finish b :: ops) = b.getD [] := by
  cases b <;> rfl

/-- a clean run from any clean state -/
theorem runOps_clean (rq : Req) (hrq : reqOK rq = true) (hm : (rq.method == Method.head) = false)
    (hinm : rq.inmMatch = false) (prog : List Op) :
    ∀ (s : St) (K : Nat), CI rq s K → (∀ op ∈ prog, opClean op = true) →
      (runOps rq s prog).conn.sent.flatten = s.conn.sent.flatten ++ s.buf.flatten ++ bodyOf prog ∧
      ∃ hs, (runOps rq s prog).conn.head = some (tgt s K prog, hs) ∧
        clientParse (rq.method == .head) (wire (runOps rq s prog).conn) (runOps rq s prog).conn.closed
          = .ok (expectedResp rq (runOps rq s prog).conn (tgt s K prog) hs, []) := by
  induction prog with
  | nil =>
    intro s K ci _
    obtain ⟨f1, f2, f3, hs, f4, f5⟩ := hFinish_clean rq hrq hm hinm s K none ci
    have e : runOps rq s [] = (hFinish rq s none).1 := by
      unfold runOps
      rw [if_neg (bool_ne_of_eq_false ci.wf.fin)]
      simp [f1]
    rw [e]
    refine ⟨by rw [f3]; simp [bodyOf], hs, ?_, ?_⟩
    · rw [f4]; simp [tgt, headStatus]
    · have : tgt s K [] = if s.headersWritten = true then K else s.status := by simp [tgt, headStatus]
      rw [this]; exact f5
  | cons op ops ih =>
    intro s K ci hops
    have hclean := hops op (by simp)
    by_cases hfin : ∃ b, op = .finish b
    · obtain ⟨b, rfl⟩ := hfin
      obtain ⟨f1, f2, f3, hs, f4, f5⟩ := hFinish_clean rq hrq hm hinm s K b ci
      have e : runOps rq s (.finish b :: ops) = (hFinish rq s b).1 := by
        unfold runOps
        rw [if_neg (bool_ne_of_eq_false ci.wf.fin)]
        simp only [step, f1, Bool.false_eq_true, if_false]
        exact runOps_finished rq _ ops f2
      rw [e]
      have ht : tgt s K (.finish b :: ops) = if s.headersWritten = true then K else s.status := by
        simp [tgt, headStatus]
      refine ⟨by rw [f3, bodyOf_finish], hs, ?_, ?_⟩
      · rw [f4, ht]
      · rw [ht]; exact f5
    · have hnf : ∀ b, op ≠ .finish b := fun b e => hfin ⟨b, e⟩
      obtain ⟨K', g1, g2, g3, g4⟩ := step_clean rq hm s K op ops ci hclean hnf
      have e : runOps rq s (op :: ops) = runOps rq (step rq s op).1 ops := by
        rw [runOps, if_neg (bool_ne_of_eq_false ci.wf.fin)]
        rcases hst : step rq s op with ⟨s', r⟩
        rw [hst] at g1
        simp only at g1
        subst g1
        rfl
      rw [e]
      obtain ⟨i1, hs, i2, i3⟩ := ih (step rq s op).1 K' g2 (fun o ho => hops o (by simp [ho]))
      rw [g4] at i2 i3
      exact ⟨by rw [i1, g3], hs, i2, i3⟩

theorem CI_init (rq : Req) (hrq : reqOK rq = true) : CI rq (init rq) 200 :=
  ⟨WF_init rq hrq, (show noBodyStatus 200 = false by decide), fun _ => dget_default rq nCL (by decide) (by decide) (by decide),
    fun h => (by cases h)⟩

theorem run_clean (rq : Req) (hrq : reqOK rq = true) (hm : (rq.method == Method.head) = false)
    (hinm : rq.inmMatch = false) (prog : List Op) (hops : ∀ op ∈ prog, opClean op = true) :
    (run rq prog).conn.sent.flatten = bodyOf prog ∧
    ∃ hs, (run rq prog).conn.head = some (headStatus 200 prog, hs) ∧
      clientParse (rq.method == .head) (wire (run rq prog).conn) (run rq prog).conn.closed
        = .ok (expectedResp rq (run rq prog).conn (headStatus 200 prog) hs, []) := by
  obtain ⟨a, hs, b, c⟩ := runOps_clean rq hrq hm hinm prog (init rq) 200 (CI_init rq hrq) hops
  have ht : tgt (init rq) 200 prog = headStatus 200 prog := by simp [tgt, init]
  rw [ht] at b c
  refine ⟨?_, hs, b, c⟩
  rw [show run rq prog = runOps rq (init rq) prog from rfl, a]
  simp [init]

theorem headStatus_nb (prog : List Op) : ∀ cur, noBodyStatus cur = false →
    (∀ op ∈ prog, opClean op = true) → noBodyStatus (headStatus cur prog) = false := by
  induction prog with
  | nil => intro cur h _; exact h
  | cons op ops ih =>
    intro cur h hops
    have hrest : ∀ o ∈ ops, opClean o = true := fun o ho => hops o (by simp [ho])
    have hop := hops op (by simp)
    cases op with
    | setStatus c =>
      simp only [opClean, Bool.and_eq_true, Bool.not_eq_true'] at hop
      exact ih c hop.2 hrest
    | setHeader n v => exact ih cur h hrest
    | addHeader n v => exact ih cur h hrest
    | clearHeader n => exact ih cur h hrest
    | write b => exact ih cur h hrest
    | flush => exact h
    | finish b => exact h

/-- what the client reads after a clean run, in terms of the program text -/
theorem run_clean_parse (rq : Req) (hrq : reqOK rq = true) (hm : rq.method ≠ Method.head)
    (hinm : rq.inmMatch = false) (prog : List Op) (hops : ∀ op ∈ prog, opClean op = true) :
    ∃ hs d, clientParse (rq.method == .head) (wire (run rq prog).conn) (run rq prog).conn.closed
      = .ok (⟨headStatus 200 prog, reason (headStatus 200 prog), hs, bodyOf prog, d⟩, []) := by
  have hm' : (rq.method == Method.head) = false := by
    cases h : rq.method with
    | head => exact absurd h hm
    | get => rfl
    | post => rfl
  obtain ⟨a, hs, _, c⟩ := run_clean rq hrq hm' hinm prog hops
  have hnb : nbOf rq (headStatus 200 prog) = false :=
    nbOf_false rq _ hm' (headStatus_nb prog 200 (by decide) hops)
  refine ⟨stripHs hs, delimOf rq (run rq prog).conn (headStatus 200 prog) hs, ?_⟩
  rw [c]
  simp only [expectedResp, hnb, Bool.false_eq_true, if_false, a]

end TornadoModel.C02
