/- C02 — handler-level invariant: every program run ends in a state whose connection satisfies the framing
   invariant with the response either finished or the stream closed. -/
import TornadoModel.C02.ConnSteps
namespace TornadoModel.C02
open TornadoModel.C02.Spec
open TornadoModel.C06 (Str normalize dget dset ddel isToken stripWs lowerC dkeys)

/-- invariant of an unfinished handler state -/
structure WF (rq : Req) (s : St) : Prop where
  st1 : 100 ≤ s.status
  st2 : s.status ≤ 999
  fin : s.finished = false
  pre : s.headersWritten = false → Fresh rq s.conn ∧ HOK s.hdrs
  post : s.headersWritten = true → Aborted0 s.conn ∨ Written rq s.conn false

/-- what every run ends in: head written (or the header write aborted), and the response finished or the
    stream closed -/
def Done (rq : Req) (s : St) : Prop :=
  s.headersWritten = true ∧
    (Aborted0 s.conn ∨ Written rq s.conn true ∨ (Written rq s.conn false ∧ s.conn.closed = true))

theorem Done_of_WF_closed (rq : Req) (s : St) (w : WF rq s) (hw : s.headersWritten = true)
    (hc : s.conn.closed = true) : Done rq s := by
  refine ⟨hw, ?_⟩
  rcases w.post hw with a | wr
  · exact Or.inl a
  · exact Or.inr (Or.inr ⟨wr, hc⟩)

theorem bool_ne_of_eq_false {b : Bool} (h : b = false) : ¬ b = true := by simp [h]

/-! ### flush -/

theorem hFlushCore_spec (rq : Req) (s : St) (w : WF rq s)
    (hv : s.headersWritten = false → clValid s.hdrs = true) :
    WF rq (hFlushCore rq s).1 ∧ (hFlushCore rq s).1.headersWritten = true ∧
      ((hFlushCore rq s).2 = true → (hFlushCore rq s).1.conn.closed = true) := by
  by_cases hw : s.headersWritten = true
  · by_cases hm : (rq.method != Method.head) = true
    · rcases hcw : cWrite s.conn s.buf.flatten with ⟨c', r'⟩
      have e : hFlushCore rq s = ({ s with buf := [], conn := c' }, r') := by
        simp [hFlushCore, hw, hm, hcw]
      rw [e]
      have hc' : c' = (cWrite s.conn s.buf.flatten).1 := by rw [hcw]
      have hr' : r' = (cWrite s.conn s.buf.flatten).2 := by rw [hcw]
      rcases w.post hw with a | wr
      · rw [cWrite_Aborted0 _ _ a] at hc' hr'
        subst hc' hr'
        exact ⟨⟨w.st1, w.st2, w.fin, fun h => absurd hw (bool_ne_of_eq_false h), fun _ => Or.inl a⟩, hw,
          fun h => (by cases h)⟩
      · obtain ⟨w1, w2⟩ := cWrite_Written rq s.conn s.buf.flatten wr
        rw [← hc'] at w1 w2; rw [← hr'] at w2
        exact ⟨⟨w.st1, w.st2, w.fin, fun h => absurd hw (bool_ne_of_eq_false h), fun _ => Or.inr w1⟩, hw, w2⟩
    · have e : hFlushCore rq s = ({ s with buf := [] }, false) := by
        simp [hFlushCore, hw, hm]
      rw [e]
      exact ⟨⟨w.st1, w.st2, w.fin, fun h => absurd hw (bool_ne_of_eq_false h), w.post⟩, hw, fun h => (by cases h)⟩
  · have hw' : s.headersWritten = false := by simpa using hw
    obtain ⟨fr, hok⟩ := w.pre hw'
    rcases hch : cWriteHeaders rq s.conn s.status s.hdrs
      (if (rq.method == Method.head) = true then [] else s.buf.flatten) with ⟨c', r'⟩
    have e : hFlushCore rq s = ({ s with buf := [], headersWritten := true, conn := c' }, r') := by
      simp [hFlushCore, hw', hch]
    rw [e]
    have hsp := cWriteHeaders_fresh rq s.conn s.status s.hdrs
      (if (rq.method == Method.head) = true then [] else s.buf.flatten) fr hok (CLOK_of_clValid _ (hv hw')) w.st1 w.st2
      (by intro h; simp [h])
    rw [hch] at hsp
    cases r' with
    | true =>
      have a := hsp.1 rfl
      exact ⟨⟨w.st1, w.st2, w.fin, fun h => (by cases h), fun _ => Or.inl a⟩, rfl, fun _ => a.2.1⟩
    | false =>
      have wr := hsp.2 rfl
      exact ⟨⟨w.st1, w.st2, w.fin, fun h => (by cases h), fun _ => Or.inr wr⟩, rfl, fun h => (by cases h)⟩

theorem hFlush_core (rq : Req) (s : St) (h : s.headersWritten = true ∨ clValid s.hdrs = true) :
    hFlush rq s = hFlushCore rq s := by
  unfold hFlush
  rcases h with h | h <;> simp [h]

/-- the rejected flush: nothing changes, ValueError -/
theorem hFlush_reject (rq : Req) (s : St) (hw : s.headersWritten = false) (hv : clValid s.hdrs = false) :
    hFlush rq s = (s, true) := by
  unfold hFlush
  simp [hw, hv]

/-- `flush()`: either the response is started / continued as before, or (headers unwritten, Content-Length
    uninterpretable) the call is rejected without any effect -/
theorem hFlush_spec (rq : Req) (s : St) (w : WF rq s) :
    WF rq (hFlush rq s).1 ∧
    ((hFlush rq s = (s, true) ∧ s.headersWritten = false ∧ clValid s.hdrs = false) ∨
     ((hFlush rq s).1.headersWritten = true ∧ ((hFlush rq s).2 = true → (hFlush rq s).1.conn.closed = true))) := by
  by_cases hr : s.headersWritten = false ∧ clValid s.hdrs = false
  · rw [hFlush_reject rq s hr.1 hr.2]
    exact ⟨w, Or.inl ⟨rfl, hr.1, hr.2⟩⟩
  · have hc : s.headersWritten = true ∨ clValid s.hdrs = true := by
      cases h1 : s.headersWritten with
      | true => exact Or.inl rfl
      | false =>
        cases h2 : clValid s.hdrs with
        | true => exact Or.inr rfl
        | false => exact absurd ⟨h1, h2⟩ hr
    rw [hFlush_core rq s hc]
    obtain ⟨a, b, c⟩ := hFlushCore_spec rq s w (fun h => by
      rcases hc with h' | h'
      · rw [h] at h'; cases h'
      · exact h')
    exact ⟨a, Or.inr ⟨b, c⟩⟩

/-! ### the part of `finish()` before the first flush -/

/-- automatic ETag and 304 substitution -/
def fpEtag (rq : Req) (s : St) : St :=
  if s.status = 200 && (rq.method == .get || rq.method == .head) && !hhas s.hdrs nEtag then
    let s := { s with hdrs := hset s.hdrs nEtag rq.etagV }
    if rq.inmMatch then { s with buf := [], status := 304 } else s
  else s

/-- body-less statuses / automatic Content-Length -/
def fpTail (s : St) : St × Bool :=
  if noBodyStatus s.status then
    if !s.buf.isEmpty then (s, true) else ({ s with hdrs := clearRepr s.hdrs }, false)
  else if !hhas s.hdrs nCL then
    ({ s with hdrs := hset s.hdrs nCL (toDec (s.buf.map List.length).sum) }, false)
  else (s, false)

theorem finishPrep_eq (rq : Req) (s : St) : finishPrep rq s = fpTail (fpEtag rq s) := rfl

/-- invariant of a state whose headers are not yet written -/
def Pre (rq : Req) (s : St) : Prop :=
  100 ≤ s.status ∧ s.status ≤ 999 ∧ s.finished = false ∧ s.headersWritten = false ∧ Fresh rq s.conn ∧ HOK s.hdrs

theorem Pre_of_WF (rq : Req) (s : St) (w : WF rq s) (hw : s.headersWritten = false) : Pre rq s :=
  ⟨w.st1, w.st2, w.fin, hw, (w.pre hw).1, (w.pre hw).2⟩

theorem WF_of_Pre (rq : Req) (s : St) (p : Pre rq s) : WF rq s :=
  ⟨p.1, p.2.1, p.2.2.1, fun _ => ⟨p.2.2.2.2.1, p.2.2.2.2.2⟩, fun h => absurd h (bool_ne_of_eq_false p.2.2.2.1)⟩

theorem HOK_etag (rq : Req) (hrq : reqOK rq = true) (h : HMap) (hok : HOK h) : HOK (hset h nEtag rq.etagV) := by
  unfold reqOK at hrq
  simp only [Bool.and_eq_true] at hrq
  exact HOK_hset h nEtag rq.etagV hok (by decide) hrq.2 (by decide)

theorem HOK_autoCL (h : HMap) (hok : HOK h) (n : Nat) : HOK (hset h nCL (toDec n)) := by
  have hd : (toDec n).all isDigit = true := List.all_eq_true.mpr (toDec_digits n)
  exact HOK_hset h nCL (toDec n) hok (by decide) (digits_validValue _ hd) (by decide)

theorem clValid_autoCL (h : HMap) (n : Nat) : clValid (hset h nCL (toDec n)) = true := by
  unfold clValid hget hset
  rw [norm_nCL, dget_dset_same]
  simp only [C06.joinWith, parseDec_toDec]
  simp

theorem fpEtag_spec (rq : Req) (hrq : reqOK rq = true) (s : St) (p : Pre rq s) :
    Pre rq (fpEtag rq s) ∧ (s.status = 500 → (fpEtag rq s).status = 500) := by
  obtain ⟨p1, p2, p3, p4, p5, p6⟩ := p
  unfold fpEtag
  by_cases hc : (decide (s.status = 200) && (rq.method == Method.get || rq.method == Method.head)
      && !hhas s.hdrs nEtag) = true
  · have h200 : s.status = 200 := by
      simp only [Bool.and_eq_true, decide_eq_true_eq] at hc; exact hc.1.1
    simp only [hc, if_true]
    by_cases hi : rq.inmMatch = true
    · simp only [hi, if_true]
      exact ⟨⟨(show 100 ≤ 304 by decide), (show 304 ≤ 999 by decide), p3, p4, p5, HOK_etag rq hrq _ p6⟩, fun h => by omega⟩
    · simp only [hi, if_false]
      exact ⟨⟨p1, p2, p3, p4, p5, HOK_etag rq hrq _ p6⟩, fun h => h⟩
  · simp only [hc, if_false]
    exact ⟨⟨p1, p2, p3, p4, p5, p6⟩, fun h => h⟩

theorem fpTail_spec (rq : Req) (s : St) (p : Pre rq s) :
    Pre rq (fpTail s).1 ∧ (s.status = 500 → (fpTail s).2 = false) := by
  obtain ⟨p1, p2, p3, p4, p5, p6⟩ := p
  unfold fpTail
  by_cases hn : noBodyStatus s.status = true
  · have h5 : s.status ≠ 500 := by
      intro e; rw [e] at hn; revert hn; decide
    simp only [hn, if_true]
    by_cases hb : (!s.buf.isEmpty) = true
    · simp only [hb, if_true]
      exact ⟨⟨p1, p2, p3, p4, p5, p6⟩, fun h => absurd h h5⟩
    · simp only [hb, if_false]
      exact ⟨⟨p1, p2, p3, p4, p5, HOK_clearRepr _ p6⟩, fun _ => rfl⟩
  · simp only [hn, if_false]
    by_cases hcl : (!hhas s.hdrs nCL) = true
    · simp only [hcl, if_true]
      exact ⟨⟨p1, p2, p3, p4, p5, HOK_autoCL _ p6 _⟩, fun _ => rfl⟩
    · simp only [hcl, if_false]
      exact ⟨⟨p1, p2, p3, p4, p5, p6⟩, fun _ => rfl⟩

theorem finishPrep_spec (rq : Req) (hrq : reqOK rq = true) (s : St) (p : Pre rq s) :
    Pre rq (finishPrep rq s).1 ∧ (s.status = 500 → (finishPrep rq s).2 = false) := by
  rw [finishPrep_eq]
  obtain ⟨a1, a2⟩ := fpEtag_spec rq hrq s p
  obtain ⟨b1, b2⟩ := fpTail_spec rq (fpEtag rq s) a1
  exact ⟨b1, fun h => b2 (a2 h)⟩

/-- the error page's `finish()`: status 500, no Content-Length set ⇒ the automatic one is supplied, which
    `flush()` accepts -/
theorem finishPrep_500_valid (rq : Req) (s : St) (h5 : s.status = 500) (hcl : dget nCL s.hdrs = none) :
    clValid (finishPrep rq s).1.hdrs = true := by
  rw [finishPrep_eq]
  have e : fpEtag rq s = s := by
    unfold fpEtag
    have : decide (s.status = 200) = false := by rw [h5]; rfl
    simp [this]
  rw [e]
  have hn : noBodyStatus s.status = false := by rw [h5]; decide
  have hh : hhas s.hdrs nCL = false := by rw [hhas_nCL, hcl]; rfl
  unfold fpTail
  simp only [hn, hh, Bool.false_eq_true, if_false, Bool.not_false, if_true]
  exact clValid_autoCL _ _

/-! ### finish -/

def addBuf (s : St) (chunk : Option Bytes) : St :=
  match chunk with
  | some b => { s with buf := s.buf ++ [b] }
  | none => s

theorem WF_addBuf (rq : Req) (s : St) (chunk : Option Bytes) (w : WF rq s) : WF rq (addBuf s chunk) := by
  cases chunk with
  | none => exact w
  | some b => exact ⟨w.st1, w.st2, w.fin, w.pre, w.post⟩

theorem hFinish_eq (rq : Req) (s : St) (chunk : Option Bytes) (hf : s.finished = false) :
    hFinish rq s chunk =
      (if (if (!(addBuf s chunk).headersWritten) = true then finishPrep rq (addBuf s chunk)
             else (addBuf s chunk, false)).2 = true
       then ((if (!(addBuf s chunk).headersWritten) = true then finishPrep rq (addBuf s chunk)
             else (addBuf s chunk, false)).1, true)
       else
        if (hFlush rq (if (!(addBuf s chunk).headersWritten) = true then finishPrep rq (addBuf s chunk)
             else (addBuf s chunk, false)).1).2 = true
        then ((hFlush rq (if (!(addBuf s chunk).headersWritten) = true then finishPrep rq (addBuf s chunk)
             else (addBuf s chunk, false)).1).1, true)
        else
          if (cFinish (hFlush rq (if (!(addBuf s chunk).headersWritten) = true then finishPrep rq (addBuf s chunk)
             else (addBuf s chunk, false)).1).1.conn).2 = true
          then ({ (hFlush rq (if (!(addBuf s chunk).headersWritten) = true then finishPrep rq (addBuf s chunk)
             else (addBuf s chunk, false)).1).1 with
                  conn := (cFinish (hFlush rq (if (!(addBuf s chunk).headersWritten) = true
                    then finishPrep rq (addBuf s chunk) else (addBuf s chunk, false)).1).1.conn).1 }, true)
          else ({ (hFlush rq (if (!(addBuf s chunk).headersWritten) = true then finishPrep rq (addBuf s chunk)
             else (addBuf s chunk, false)).1).1 with
                  conn := (cFinish (hFlush rq (if (!(addBuf s chunk).headersWritten) = true
                    then finishPrep rq (addBuf s chunk) else (addBuf s chunk, false)).1).1.conn).1,
                  finished := true }, false)) := by
  unfold hFinish
  rw [if_neg (bool_ne_of_eq_false hf)]
  rfl

/-- staged form of `hFinish_eq` -/
theorem hFinish_stages (rq : Req) (s : St) (chunk : Option Bytes) (hf : s.finished = false)
    (p : St × Bool) (hp : p = (if (!(addBuf s chunk).headersWritten) = true then finishPrep rq (addBuf s chunk)
             else (addBuf s chunk, false))) :
    hFinish rq s chunk =
      (if p.2 = true then (p.1, true)
       else if (hFlush rq p.1).2 = true then ((hFlush rq p.1).1, true)
       else if (cFinish (hFlush rq p.1).1.conn).2 = true
         then ({ (hFlush rq p.1).1 with conn := (cFinish (hFlush rq p.1).1.conn).1 }, true)
         else ({ (hFlush rq p.1).1 with conn := (cFinish (hFlush rq p.1).1.conn).1, finished := true }, false)) := by
  subst hp
  exact hFinish_eq rq s chunk hf

theorem hFinish_spec (rq : Req) (hrq : reqOK rq = true) (s : St) (chunk : Option Bytes) (w : WF rq s) :
    ((hFinish rq s chunk).2 = false → Done rq (hFinish rq s chunk).1 ∧ (hFinish rq s chunk).1.finished = true) ∧
    ((hFinish rq s chunk).2 = true →
      WF rq (hFinish rq s chunk).1 ∧
      ((hFinish rq s chunk).1.headersWritten = true → (hFinish rq s chunk).1.conn.closed = true) ∧
      ((s.headersWritten = true ∨ (s.status = 500 ∧ dget nCL s.hdrs = none)) →
        (hFinish rq s chunk).1.headersWritten = true)) := by
  have w0 := WF_addBuf rq s chunk w
  have hhd : (addBuf s chunk).hdrs = s.hdrs := by cases chunk <;> rfl
  have hst : (addBuf s chunk).status = s.status := by cases chunk <;> rfl
  have hhw : (addBuf s chunk).headersWritten = s.headersWritten := by cases chunk <;> rfl
  -- stage p
  obtain ⟨p, hp⟩ : ∃ p, p = (if (!(addBuf s chunk).headersWritten) = true then finishPrep rq (addBuf s chunk)
             else (addBuf s chunk, false)) := ⟨_, rfl⟩
  have hpw : WF rq p.1 ∧ (p.2 = true → p.1.headersWritten = false ∧
        ¬ (s.headersWritten = true ∨ (s.status = 500 ∧ dget nCL s.hdrs = none))) ∧
      (s.status = 500 ∧ dget nCL s.hdrs = none → p.1.headersWritten = false → clValid p.1.hdrs = true) := by
    by_cases hw : (addBuf s chunk).headersWritten = true
    · have : p = (addBuf s chunk, false) := by rw [hp]; simp [hw]
      rw [this]
      exact ⟨w0, fun h => (by cases h), fun _ h => by rw [hw] at h; cases h⟩
    · have hw' : (addBuf s chunk).headersWritten = false := by simpa using hw
      have : p = finishPrep rq (addBuf s chunk) := by rw [hp]; simp [hw']
      rw [this]
      obtain ⟨a, b⟩ := finishPrep_spec rq hrq _ (Pre_of_WF rq _ w0 hw')
      refine ⟨WF_of_Pre rq _ a, fun h => ⟨a.2.2.2.1, ?_⟩, fun h5 _ =>
        finishPrep_500_valid rq _ (hst.trans h5.1) (by rw [hhd]; exact h5.2)⟩
      rintro (h1 | h1)
      · rw [← hhw, hw'] at h1; cases h1
      · have := b (hst.trans h1.1); rw [this] at h; cases h
  rw [hFinish_stages rq s chunk w.fin p hp]
  obtain ⟨wp, hp2, hp3⟩ := hpw
  by_cases h1 : p.2 = true
  · simp only [h1, if_true]
    refine ⟨fun h => (by cases h), fun _ => ⟨wp, fun h => ?_, fun h => absurd h (hp2 h1).2⟩⟩
    rw [(hp2 h1).1] at h; cases h
  simp only [h1, if_false]
  have hpk : s.headersWritten = true → p.1.headersWritten = true := by
    intro h
    by_cases hw : (addBuf s chunk).headersWritten = true
    · have : p = (addBuf s chunk, false) := by rw [hp]; simp [hw]
      rw [this]; exact hw
    · rw [hhw] at hw; exact absurd h hw
  -- stage q
  obtain ⟨wq, hq⟩ := hFlush_spec rq p.1 wp
  rcases hq with ⟨hrej, hrw, hrv⟩ | ⟨hqw, hqc⟩
  · -- the flush inside `finish()` was rejected: nothing has changed since stage p
    rw [hrej]
    simp only [if_true, Bool.false_eq_true, if_false]
    refine ⟨fun h => (by cases h), fun _ => ⟨wp, fun h => ?_, fun h => ?_⟩⟩
    · rw [hrw] at h; cases h
    · exfalso
      rcases h with h | h
      · have := hpk h; rw [hrw] at this; cases this
      · have := hp3 h hrw; rw [hrv] at this; cases this
  by_cases h2 : (hFlush rq p.1).2 = true
  · simp only [h2, if_true]
    exact ⟨fun h => (by cases h), fun _ => ⟨wq, fun _ => hqc h2, fun _ => hqw⟩⟩
  simp only [h2, if_false]
  -- stage f
  rcases wq.post hqw with a | wr
  · rw [cFinish_Aborted0 _ a]
    simp only [Bool.false_eq_true, if_false]
    exact ⟨fun _ => ⟨⟨hqw, Or.inl a⟩, by first | rfl | trivial⟩, fun h => (by cases h)⟩
  · obtain ⟨f1, f2⟩ := cFinish_Written rq _ wr
    by_cases h3 : (cFinish (hFlush rq p.1).1.conn).2 = true
    · simp only [h3, if_true]
      obtain ⟨g1, g2⟩ := f2 h3
      exact ⟨fun h => (by cases h), fun _ => ⟨⟨wq.st1, wq.st2, wq.fin, fun h => absurd hqw (bool_ne_of_eq_false h),
        fun _ => Or.inr g1⟩, fun _ => g2, fun _ => hqw⟩⟩
    · simp only [h3, if_false]
      have h3' : (cFinish (hFlush rq p.1).1.conn).2 = false := by simpa using h3
      exact ⟨fun _ => ⟨⟨hqw, Or.inr (Or.inl (f1 h3'))⟩, by first | rfl | trivial⟩, fun h => (by cases h)⟩

/-! ### exceptions, steps, runs -/

theorem Done_hFinish_written (rq : Req) (hrq : reqOK rq = true) (s : St) (w : WF rq s)
    (hw : s.headersWritten = true) : Done rq (hFinish rq s none).1 := by
  obtain ⟨a, b⟩ := hFinish_spec rq hrq s none w
  cases hr : (hFinish rq s none).2 with
  | false => exact (a hr).1
  | true =>
    obtain ⟨b1, b2, b3⟩ := b hr
    exact Done_of_WF_closed rq _ b1 (b3 (Or.inl hw)) (b2 (b3 (Or.inl hw)))

/-- the state `send_error(500)` starts from -/
def errState (rq : Req) (s : St) : St := { s with hdrs := defaultHdrs rq, buf := [], status := 500 }

theorem onException_unwritten (rq : Req) (s : St) (hf : s.finished = false) (hw : s.headersWritten = false) :
    onException rq s =
      if ((hFinish rq (errState rq s) (some (errorPage 500))).2
            && !(hFinish rq (errState rq s) (some (errorPage 500))).1.finished) = true
      then (hFinish rq (hFinish rq (errState rq s) (some (errorPage 500))).1 none).1
      else (hFinish rq (errState rq s) (some (errorPage 500))).1 := by
  unfold onException
  rw [if_neg (bool_ne_of_eq_false hf), if_neg (bool_ne_of_eq_false hw)]
  rfl

theorem onException_spec (rq : Req) (hrq : reqOK rq = true) (s : St) (w : WF rq s) :
    Done rq (onException rq s) := by
  by_cases hw : s.headersWritten = true
  · unfold onException
    rw [if_neg (bool_ne_of_eq_false w.fin), if_pos hw]
    exact Done_hFinish_written rq hrq s w hw
  · have hw' : s.headersWritten = false := by simpa using hw
    rw [onException_unwritten rq s w.fin hw']
    have w2 : WF rq (errState rq s) :=
      ⟨(show 100 ≤ 500 by decide), (show 500 ≤ 999 by decide), w.fin,
        fun _ => ⟨(w.pre hw').1, HOK_default rq hrq⟩, fun h => absurd h (bool_ne_of_eq_false hw')⟩
    have hst : (errState rq s).status = 500 := rfl
    obtain ⟨a, b⟩ := hFinish_spec rq hrq _ (some (errorPage 500)) w2
    generalize hFinish rq (errState rq s) (some (errorPage 500)) = res at a b ⊢
    obtain ⟨s3, r⟩ := res
    cases r with
    | false =>
      simp only [Bool.false_and, Bool.false_eq_true, if_false]
      exact (a rfl).1
    | true =>
      obtain ⟨b1, b2, b3⟩ := b rfl
      have hf3 : s3.finished = false := b1.fin
      simp only [hf3, Bool.not_false, Bool.and_self, if_true]
      exact Done_hFinish_written rq hrq s3 b1
        (b3 (Or.inr ⟨hst, dget_default rq nCL (by decide) (by decide) (by decide)⟩))

theorem WF_hdrs (rq : Req) (s : St) (w : WF rq s) (h' : HMap) (hok : s.headersWritten = false → HOK h') :
    WF rq { s with hdrs := h' } :=
  ⟨w.st1, w.st2, w.fin, fun h => ⟨(w.pre h).1, hok h⟩, w.post⟩

theorem step_spec (rq : Req) (hrq : reqOK rq = true) (s : St) (op : Op) (w : WF rq s) (hop : opOK op = true) :
    ((step rq s op).2 = true → WF rq (step rq s op).1) ∧
    ((step rq s op).2 = false →
      WF rq (step rq s op).1 ∨ (Done rq (step rq s op).1 ∧ (step rq s op).1.finished = true)) := by
  cases op with
  | setStatus c =>
    simp only [opOK, Bool.and_eq_true, decide_eq_true_eq] at hop
    exact ⟨fun h => (by cases h), fun _ => Or.inl ⟨hop.1, hop.2, w.fin, w.pre, w.post⟩⟩
  | setHeader n v =>
    simp only [opOK, Bool.and_eq_true, bne_iff_ne, ne_eq] at hop
    unfold step
    by_cases hv : validValue v = true
    · simp only [hv, Bool.not_true, Bool.false_eq_true, if_false]
      refine ⟨fun h => (by cases h), fun _ => Or.inl (WF_hdrs rq s w _ (fun hw => ?_))⟩
      exact HOK_hset _ n v (w.pre hw).2 hop.1 hv hop.2
    · simp only [hv, Bool.not_false, if_true]
      exact ⟨fun _ => w, fun h => (by cases h)⟩
  | addHeader n v =>
    simp only [opOK, Bool.and_eq_true, bne_iff_ne, ne_eq] at hop
    unfold step
    by_cases hv : validValue v = true
    · simp only [hv, Bool.not_true, Bool.false_eq_true, if_false]
      by_cases hx : (!isToken n || !C06.isFieldValue v) = true
      · simp only [hx, if_true]
        exact ⟨fun _ => w, fun h => (by cases h)⟩
      · simp only [hx, if_false]
        exact ⟨fun h => (by cases h), fun _ => Or.inl (WF_hdrs rq s w _ (fun hw =>
          HOK_hadd _ n v (w.pre hw).2 hop.1 hv hop.2))⟩
    · simp only [hv, Bool.not_false, if_true]
      exact ⟨fun _ => w, fun h => (by cases h)⟩
  | clearHeader n =>
    refine ⟨fun h => (by cases h), fun _ => Or.inl (WF_hdrs rq s w _ (fun hw => ?_))⟩
    split
    · exact HOK_hdel _ _ (w.pre hw).2
    · exact (w.pre hw).2
  | write b =>
    simp only [step]
    rw [if_neg (bool_ne_of_eq_false w.fin)]
    exact ⟨fun h => (by cases h), fun _ => Or.inl ⟨w.st1, w.st2, w.fin, w.pre, w.post⟩⟩
  | flush =>
    obtain ⟨a, _⟩ := hFlush_spec rq s w
    exact ⟨fun _ => a, fun _ => Or.inl a⟩
  | finish b =>
    obtain ⟨a, c⟩ := hFinish_spec rq hrq s b w
    exact ⟨fun h => (c h).1, fun h => Or.inr (a h)⟩

theorem runOps_finished (rq : Req) (s : St) (ops : List Op) (h : s.finished = true) : runOps rq s ops = s := by
  cases ops <;> simp [runOps, h]

theorem runOps_spec (rq : Req) (hrq : reqOK rq = true) (prog : List Op) :
    ∀ s, WF rq s → (∀ op ∈ prog, opOK op = true) → Done rq (runOps rq s prog) := by
  induction prog with
  | nil =>
    intro s w _
    unfold runOps
    rw [if_neg (bool_ne_of_eq_false w.fin)]
    obtain ⟨a, b⟩ := hFinish_spec rq hrq s none w
    generalize hFinish rq s none = res at a b
    obtain ⟨s', r⟩ := res
    cases r with
    | false => simp only [Bool.false_eq_true, if_false]; exact (a rfl).1
    | true => simp only [if_true]; exact onException_spec rq hrq s' (b rfl).1
  | cons op ops ih =>
    intro s w hops
    unfold runOps
    rw [if_neg (bool_ne_of_eq_false w.fin)]
    obtain ⟨a, b⟩ := step_spec rq hrq s op w (hops op (by simp))
    generalize step rq s op = res at a b
    obtain ⟨s', r⟩ := res
    cases r with
    | true => simp only [if_true]; exact onException_spec rq hrq s' (a rfl)
    | false =>
      simp only [Bool.false_eq_true, if_false]
      rcases b rfl with w' | ⟨d, hf⟩
      · exact ih s' w' (fun o ho => hops o (by simp [ho]))
      · rw [runOps_finished rq s' ops hf]; exact d

theorem WF_init (rq : Req) (hrq : reqOK rq = true) : WF rq (init rq) :=
  ⟨(show 100 ≤ 200 by decide), (show 200 ≤ 999 by decide), rfl, fun _ => ⟨fresh_init rq, HOK_default rq hrq⟩, fun h => (by cases h)⟩

theorem run_Done (rq : Req) (hrq : reqOK rq = true) (prog : List Op) (hops : ∀ op ∈ prog, opOK op = true) :
    Done rq (run rq prog) :=
  runOps_spec rq hrq prog (init rq) (WF_init rq hrq) hops

end TornadoModel.C02
