/-
C02 — model of the response path: `tornado.web.RequestHandler` (set_status / set_header / add_header /
clear_header / write / flush / finish / send_error, automatic ETag + 304, automatic Content-Length,
`_clear_representation_headers`) on top of `tornado.http1connection.HTTP1Connection`
(`write_headers`, `_format_chunk`, `write`, `finish`, `_can_keep_alive`, `_finish_request`).  Core Lean only.

Bytes and header text are `List Nat` (latin-1: the code point *is* the byte).  The response header map is a
local insertion-ordered multimap keyed by `C06.normalize` (the `HTTPHeaders` cache is invisible here).
Python exceptions are a `Bool` ("raised") beside the mutated state, because mutations made before a raise
persist.  Abstracted inputs: the `Date` and `Server` values and the automatic ETag value are parameters
(`Req.dateV`, `Req.serverV`, `Req.etagV`); the outcome of `check_etag_header` is the boolean `Req.inmMatch`.

Ghost fields (`CSt.sent`, `CSt.head`) record what the handler layer handed to the connection; they never
influence behaviour (no function reads them) and exist only so that theorems can speak about them.
-/
import TornadoModel.C06.Model
namespace TornadoModel.C02
open TornadoModel.C06 (Str normalize dget dset ddel isToken isFieldValue joinWith)

abbrev Bytes := List Nat

/-! ### constants (byte values of the ASCII text in the comment) -/
def crlf : Bytes := [13, 10]
def nCL : List Nat := [67, 111, 110, 116, 101, 110, 116, 45, 76, 101, 110, 103, 116, 104]  -- 'Content-Length'
def nTE : List Nat := [84, 114, 97, 110, 115, 102, 101, 114, 45, 69, 110, 99, 111, 100, 105, 110, 103]  -- 'Transfer-Encoding'
def nConn : List Nat := [67, 111, 110, 110, 101, 99, 116, 105, 111, 110]  -- 'Connection'
def nEtag : List Nat := [69, 116, 97, 103]  -- 'Etag'
def nCT : List Nat := [67, 111, 110, 116, 101, 110, 116, 45, 84, 121, 112, 101]  -- 'Content-Type'
def nCE : List Nat := [67, 111, 110, 116, 101, 110, 116, 45, 69, 110, 99, 111, 100, 105, 110, 103]  -- 'Content-Encoding'
def nCLang : List Nat := [67, 111, 110, 116, 101, 110, 116, 45, 76, 97, 110, 103, 117, 97, 103, 101]  -- 'Content-Language'
def nServer : List Nat := [83, 101, 114, 118, 101, 114]  -- 'Server'
def nDate : List Nat := [68, 97, 116, 101]  -- 'Date'
def vClose : List Nat := [99, 108, 111, 115, 101]  -- 'close'
def vKeepAlive : List Nat := [75, 101, 101, 112, 45, 65, 108, 105, 118, 101]  -- 'Keep-Alive'
def vChunked : List Nat := [99, 104, 117, 110, 107, 101, 100]  -- 'chunked'
def vDefaultCT : List Nat := [116, 101, 120, 116, 47, 104, 116, 109, 108, 59, 32, 99, 104, 97, 114, 115, 101, 116, 61, 85, 84, 70, 45, 56]  -- 'text/html; charset=UTF-8'
def httpVer : List Nat := [72, 84, 84, 80, 47, 49, 46, 49, 32]  -- 'HTTP/1.1 '
def colonSp : List Nat := [58, 32]  -- ': '
def lastChunk : List Nat := [48, 13, 10, 13, 10]  -- '0\r\n\r\n'
def pgA : List Nat := [60, 104, 116, 109, 108, 62, 60, 116, 105, 116, 108, 101, 62]  -- '<html><title>'
def pgB : List Nat := [60, 47, 116, 105, 116, 108, 101, 62, 60, 98, 111, 100, 121, 62]  -- '</title><body>'
def pgC : List Nat := [60, 47, 98, 111, 100, 121, 62, 60, 47, 104, 116, 109, 108, 62]  -- '</body></html>'

/-- `httputil.responses.get(code, "Unknown")` on the status codes the check exercises -/
def reason (c : Nat) : Bytes :=
    if c = 100 then [67, 111, 110, 116, 105, 110, 117, 101] else  -- Continue
    if c = 101 then [83, 119, 105, 116, 99, 104, 105, 110, 103, 32, 80, 114, 111, 116, 111, 99, 111, 108, 115] else  -- Switching Protocols
    if c = 200 then [79, 75] else  -- OK
    if c = 201 then [67, 114, 101, 97, 116, 101, 100] else  -- Created
    if c = 202 then [65, 99, 99, 101, 112, 116, 101, 100] else  -- Accepted
    if c = 204 then [78, 111, 32, 67, 111, 110, 116, 101, 110, 116] else  -- No Content
    if c = 206 then [80, 97, 114, 116, 105, 97, 108, 32, 67, 111, 110, 116, 101, 110, 116] else  -- Partial Content
    if c = 301 then [77, 111, 118, 101, 100, 32, 80, 101, 114, 109, 97, 110, 101, 110, 116, 108, 121] else  -- Moved Permanently
    if c = 302 then [70, 111, 117, 110, 100] else  -- Found
    if c = 304 then [78, 111, 116, 32, 77, 111, 100, 105, 102, 105, 101, 100] else  -- Not Modified
    if c = 400 then [66, 97, 100, 32, 82, 101, 113, 117, 101, 115, 116] else  -- Bad Request
    if c = 403 then [70, 111, 114, 98, 105, 100, 100, 101, 110] else  -- Forbidden
    if c = 404 then [78, 111, 116, 32, 70, 111, 117, 110, 100] else  -- Not Found
    if c = 405 then [77, 101, 116, 104, 111, 100, 32, 78, 111, 116, 32, 65, 108, 108, 111, 119, 101, 100] else  -- Method Not Allowed
    if c = 500 then [73, 110, 116, 101, 114, 110, 97, 108, 32, 83, 101, 114, 118, 101, 114, 32, 69, 114, 114, 111, 114] else  -- Internal Server Error
    if c = 503 then [83, 101, 114, 118, 105, 99, 101, 32, 85, 110, 97, 118, 97, 105, 108, 97, 98, 108, 101] else  -- Service Unavailable
    [85, 110, 107, 110, 111, 119, 110]  -- Unknown

/-! ### numbers as text -/

def hexDigit (d : Nat) : Nat := if d < 10 then 48 + d else 87 + d

/-- digits of `n` in `base` (most significant first); `fuel > n` always suffices -/
def digitsAux (base : Nat) (enc : Nat → Nat) : Nat → Nat → List Nat
  | 0, _ => []
  | fuel + 1, n => if n < base then [enc n] else digitsAux base enc fuel (n / base) ++ [enc (n % base)]

/-- `"%d" % n` / `str(n)` -/
def toDec (n : Nat) : Bytes := digitsAux 10 (48 + ·) (n + 1) n
/-- `"%x" % n` -/
def toHex (n : Nat) : Bytes := digitsAux 16 hexDigit (n + 1) n

def isDigit (c : Nat) : Bool := 48 ≤ c && c ≤ 57

/-- `parse_int`: `[0-9]+` then `int(s)`; `none` = ValueError -/
def parseDec (s : Bytes) : Option Nat :=
  if s.isEmpty || !s.all isDigit then none else some (s.foldl (fun a d => a * 10 + (d - 48)) 0)

/-! ### response header map -/

abbrev HMap := List (Str × List Str)

def hhas (h : HMap) (n : Str) : Bool := (dget (normalize n) h).isSome
/-- `headers[n] = v` -/
def hset (h : HMap) (n v : Str) : HMap := dset (normalize n) [v] h
/-- `headers.add(n, v)` (validation is done by the caller) -/
def hadd (h : HMap) (n v : Str) : HMap :=
  match dget (normalize n) h with
  | some vs => dset (normalize n) (vs ++ [v]) h
  | none => dset (normalize n) [v] h
/-- `del headers[n]` -/
def hdel (h : HMap) (n : Str) : HMap := ddel (normalize n) h
/-- `headers[n]` / `headers.get(n, "")`: the values joined by "," -/
def hget (h : HMap) (n : Str) : Str :=
  match dget (normalize n) h with
  | some vs => joinWith [44] vs
  | none => []
/-- `headers.get_all()` -/
def getAll (h : HMap) : List (Str × Str) := h.flatMap (fun (k, vs) => vs.map (fun v => (k, v)))

/-- `RequestHandler._VALID_HEADER_CHARS.fullmatch` -/
def validValueChar (c : Nat) : Bool := c = 9 || (0x20 ≤ c && c ≤ 0x7e) || (0x80 ≤ c && c ≤ 0xff)
def validValue (v : Str) : Bool := v.all validValueChar

/-! ### the request (only what the response path looks at) -/

inductive Method where | get | head | post
  deriving Repr, BEq, DecidableEq

/-- the request's `Connection` header, lower-cased -/
inductive ConnHdr where | absent | keepAlive | close | other
  deriving Repr, BEq, DecidableEq

structure Req where
  method : Method
  v11 : Bool                -- HTTP/1.1 (else HTTP/1.0)
  conn : ConnHdr
  inmMatch : Bool := false  -- `check_etag_header()` would return True for the automatic ETag
  serverV : Str := [83]     -- value of the default `Server` header
  dateV : Str := [68]       -- value of the default `Date` header
  etagV : Str := [34, 69, 34]  -- value of the automatic ETag (`compute_etag`)
  deriving Repr, BEq, DecidableEq

/-- `_can_keep_alive` (requests here always have a Content-Length or are GET/HEAD; `no_keep_alive` is off) -/
def canKeepAlive (rq : Req) : Bool :=
  if rq.v11 then rq.conn != .close else rq.conn == .keepAlive

/-- `_disconnect_on_finish` as set when the request headers were read -/
def disconnect (rq : Req) : Bool := !canKeepAlive rq

/-! ### connection layer -/

structure CSt where
  chunking : Bool := false           -- `_chunking_output`
  expected : Option Int := none      -- `_expected_content_remaining`
  out : List Bytes := []             -- every `stream.write(data)`, in order
  closed : Bool := false             -- `stream.closed()`
  disconnect : Bool := false         -- `_disconnect_on_finish`
  sent : List Bytes := []                                -- ghost: chunks accepted by `_format_chunk`
  head : Option (Nat × List (Str × Str)) := none         -- ghost: status + header lines as serialised
  deriving Repr, BEq, DecidableEq

def wire (c : CSt) : Bytes := c.out.flatten

/-- the chunk as it goes on the wire -/
def encChunk (chunking : Bool) (chunk : Bytes) : Bytes :=
  if chunking && !chunk.isEmpty then toHex chunk.length ++ crlf ++ chunk ++ crlf else chunk

/-- `_format_chunk`: `none` = HTTPOutputError (the stream has been closed) -/
def fmtChunk (c : CSt) (chunk : Bytes) : CSt × Option Bytes :=
  match c.expected with
  | some r =>
    let r' := r - (chunk.length : Int)
    if r' < 0 then ({ c with expected := some r', closed := true }, none)
    else ({ c with expected := some r', sent := c.sent ++ [chunk] }, some (encChunk c.chunking chunk))
  | none => ({ c with sent := c.sent ++ [chunk] }, some (encChunk c.chunking chunk))

def headerLine (p : Str × Str) : Bytes := p.1 ++ colonSp ++ p.2 ++ crlf
def statusLine (code : Nat) : Bytes := httpVer ++ toDec code ++ [32] ++ reason code
/-- `b"\r\n".join(lines) + b"\r\n\r\n"` -/
def headBytes (code : Nat) (hs : List (Str × Str)) : Bytes :=
  statusLine code ++ crlf ++ hs.flatMap headerLine ++ crlf

def noBodyStatus (code : Nat) : Bool := code = 204 || code = 304 || (100 ≤ code && code < 200)

/-- an HTTP/1.0 keep-alive response can be kept alive only if its end is visible without closing
    (after the `fix:` commit for D12) -/
def http10Delimited (rq : Req) (code : Nat) (h : HMap) : Bool :=
  hhas h nCL || rq.method == .head || noBodyStatus code

/-- the header map after the adjustments `write_headers` makes (`chunking` already decided;
    `disc` = `_disconnect_on_finish` on entry) -/
def finalHeaders (rq : Req) (disc : Bool) (chunking : Bool) (code : Nat) (h : HMap) : HMap :=
  let h := if rq.v11 && disc then hset h nConn vClose else h
  let h := if !rq.v11 && rq.conn == .keepAlive && http10Delimited rq code h then hset h nConn vKeepAlive else h
  if chunking then hset h nTE vChunked else h

/-- `_disconnect_on_finish` after `write_headers` -/
def discAfterHeaders (rq : Req) (disc : Bool) (code : Nat) (h : HMap) : Bool :=
  disc || (!rq.v11 && rq.conn == .keepAlive && !http10Delimited rq code h)

def decideChunking (rq : Req) (code : Nat) (h : HMap) : Bool :=
  rq.v11 && rq.method != .head && !(code = 204 || code = 304) && (code < 100 || code ≥ 200) && !hhas h nCL

/-- `write_headers(start_line, headers, chunk)`; the Bool is "raised" -/
def cWriteHeaders (rq : Req) (c0 : CSt) (code : Nat) (h : HMap) (chunk : Bytes) : CSt × Bool :=
  let c := c0
  let chunking := decideChunking rq code h
  let c := { c with chunking := chunking, disconnect := discAfterHeaders rq c.disconnect code h }
  let h := finalHeaders rq c0.disconnect chunking code h
  let exp : Option (Option Int) :=
    if rq.method == .head || noBodyStatus code then some (some 0)  -- (1xx/204: after the `fix:` commit for D25)
    else if hhas h nCL then (parseDec (hget h nCL)).map (fun n => some (n : Int))
    else some none
  match exp with
  | none => (c, true)            -- ValueError from parse_int: nothing written, `expected` keeps its old value
                                 -- (unreachable through `hFlush`, which has checked `clValid` first)
  | some e =>
    let c := { c with expected := e }
    let hb := headBytes code (getAll h)
    if c.closed then (c, false)
    else if chunk.isEmpty then ({ c with out := c.out ++ [hb], head := some (code, getAll h) }, false)
    else
      match fmtChunk c chunk with
      | (c, none) => (c, true)
      | (c, some data) => ({ c with out := c.out ++ [hb ++ data], head := some (code, getAll h) }, false)

/-- `HTTP1Connection.write(chunk)` -/
def cWrite (c : CSt) (chunk : Bytes) : CSt × Bool :=
  if c.closed then (c, false)
  else match fmtChunk c chunk with
    | (c, none) => (c, true)
    | (c, some data) => ({ c with out := c.out ++ [data] }, false)

/-- `HTTP1Connection.finish()` followed by `_finish_request` (writes complete immediately) -/
def cFinish (c : CSt) : CSt × Bool :=
  match c.expected with
  | some r =>
    if r ≠ 0 && !c.closed then ({ c with closed := true }, true)
    else
      let c := if c.chunking && !c.closed then { c with out := c.out ++ [lastChunk] } else c
      ({ c with closed := c.closed || c.disconnect }, false)
  | none =>
    let c := if c.chunking && !c.closed then { c with out := c.out ++ [lastChunk] } else c
    ({ c with closed := c.closed || c.disconnect }, false)

/-! ### handler layer -/

structure St where
  hdrs : HMap
  status : Nat := 200
  buf : List Bytes := []         -- `_write_buffer`
  headersWritten : Bool := false
  finished : Bool := false
  conn : CSt := {}
  deriving Repr, BEq, DecidableEq

def defaultHdrs (rq : Req) : HMap :=
  [(nServer, [rq.serverV]), (nCT, [vDefaultCT]), (nDate, [rq.dateV])]

def init (rq : Req) : St := { hdrs := defaultHdrs rq, conn := { disconnect := disconnect rq } }

inductive Op where
  | setStatus (code : Nat)
  | setHeader (n v : Str)
  | addHeader (n v : Str)
  | clearHeader (n : Str)
  | write (b : Bytes)
  | flush
  | finish (b : Option Bytes)
  deriving Repr, BEq, DecidableEq

/-- what `flush()` checks before it starts the response (after the `fix:` commit 28dd4cc): a `Content-Length`
    in the handler's header map must be something `parse_int` accepts — `headers["Content-Length"]` (all values
    joined by ",") is one non-empty run of ASCII digits -/
def clValid (h : HMap) : Bool := !hhas h nCL || (parseDec (hget h nCL)).isSome

/-- `RequestHandler.flush(include_footers)` without output transforms, after the Content-Length check -/
def hFlushCore (rq : Req) (s : St) : St × Bool :=
  let chunk := s.buf.flatten
  let s := { s with buf := [] }
  if !s.headersWritten then
    let s := { s with headersWritten := true }
    let chunk := if rq.method == .head then [] else chunk
    let (c, r) := cWriteHeaders rq s.conn s.status s.hdrs chunk
    ({ s with conn := c }, r)
  else if rq.method != .head then
    let (c, r) := cWrite s.conn chunk
    ({ s with conn := c }, r)
  else (s, false)

/-- `RequestHandler.flush(include_footers)`: while the headers are unwritten, a Content-Length that `parse_int`
    rejects makes `flush` raise ValueError before any state is touched (buffer, `_headers_written`, connection) -/
def hFlush (rq : Req) (s : St) : St × Bool :=
  if !s.headersWritten && !clValid s.hdrs then (s, true) else hFlushCore rq s

/-- `_clear_representation_headers` (`clear_header` = delete when present) -/
def clearRepr (h : HMap) : HMap := hdel (hdel (hdel h nCE) nCLang) nCT

/-- the part of `finish()` that runs when the headers have not been written yet; Bool = AssertionError -/
def finishPrep (rq : Req) (s : St) : St × Bool :=
  let s :=
    if s.status = 200 && (rq.method == .get || rq.method == .head) && !hhas s.hdrs nEtag then
      let s := { s with hdrs := hset s.hdrs nEtag rq.etagV }
      if rq.inmMatch then { s with buf := [], status := 304 } else s
    else s
  if noBodyStatus s.status then
    if !s.buf.isEmpty then (s, true) else ({ s with hdrs := clearRepr s.hdrs }, false)
  else if !hhas s.hdrs nCL then
    ({ s with hdrs := hset s.hdrs nCL (toDec (s.buf.map List.length).sum) }, false)
  else (s, false)

/-- `RequestHandler.finish(chunk)` -/
def hFinish (rq : Req) (s : St) (chunk : Option Bytes) : St × Bool :=
  if s.finished then (s, true)
  else
    let s := match chunk with
      | some b => { s with buf := s.buf ++ [b] }
      | none => s
    let (s, r) := if !s.headersWritten then finishPrep rq s else (s, false)
    if r then (s, true) else
    let (s, r) := hFlush rq s
    if r then (s, true) else
    let (c, r) := cFinish s.conn
    let s := { s with conn := c }
    if r then (s, true) else ({ s with finished := true }, false)

/-- `write_error(500)`'s page -/
def errorPage (code : Nat) : Bytes :=
  pgA ++ toDec code ++ colonSp ++ reason code ++ pgB ++ toDec code ++ colonSp ++ reason code ++ pgC

/-- `_handle_request_exception` → `send_error(500)` for a non-HTTPError exception -/
def onException (rq : Req) (s : St) : St :=
  if s.finished then s
  else if s.headersWritten then (hFinish rq s none).1
  else
    let s := { s with hdrs := defaultHdrs rq, buf := [], status := 500 }
    let (s, r) := hFinish rq s (some (errorPage 500))
    if r && !s.finished then (hFinish rq s none).1 else s

def step (rq : Req) (s : St) : Op → St × Bool
  | .setStatus c => ({ s with status := c }, false)
  | .setHeader n v => if !validValue v then (s, true) else ({ s with hdrs := hset s.hdrs n v }, false)
  | .addHeader n v =>
    if !validValue v then (s, true)
    else if !isToken n || !isFieldValue v then (s, true)
    else ({ s with hdrs := hadd s.hdrs n v }, false)
  | .clearHeader n => ({ s with hdrs := if hhas s.hdrs n then hdel s.hdrs n else s.hdrs }, false)
  | .write b => if s.finished then (s, true) else ({ s with buf := s.buf ++ [b] }, false)
  | .flush => hFlush rq s
  | .finish b => hFinish rq s b

/-- the handler method body = the program, then `_execute`'s automatic `finish()`; an exception ends the
    program and goes to `onException`.  Once `finished`, nothing can reach the wire any more. -/
def runOps (rq : Req) (s : St) : List Op → St
  | [] =>
    if s.finished then s
    else let (s', r) := hFinish rq s none; if r then onException rq s' else s'
  | op :: ops =>
    if s.finished then s
    else let (s', r) := step rq s op; if r then onException rq s' else runOps rq s' ops

def run (rq : Req) (prog : List Op) : St := runOps rq (init rq) prog

end TornadoModel.C02
