/- C02 — connection / handler level facts about delimitation (no wire parsing). -/
import TornadoModel.C02.Lemmas
namespace TornadoModel.C02
open TornadoModel.C06 (Str dget dset ddel normalize)

theorem dget_dset_same {β} (k : Str) (v : β) (h : List (Str × β)) : dget k (dset k v h) = some v := by
  induction h with
  | nil => simp [dset, dget]
  | cons p r ih =>
    obtain ⟨k', v'⟩ := p
    by_cases hk : k' = k
    · simp [dset, dget, hk]
    · simp [dset, dget, hk, ih]

theorem dget_dset_ne {β} (k k' : Str) (v : β) (h : List (Str × β)) (hne : k' ≠ k) :
    dget k (dset k' v h) = dget k h := by
  induction h with
  | nil => simp [dset, dget, hne]
  | cons p r ih =>
    obtain ⟨k2, v2⟩ := p
    by_cases hk : k2 = k'
    · subst hk; simp [dset, dget, hne]
    · by_cases hk2 : k2 = k
      · subst hk2; simp [dset, dget, hk]
      · simp [dset, dget, hk, hk2, ih]

theorem hget_hset_same (h : HMap) (n v : Str) : hget (hset h n v) n = v := by
  simp [hget, hset, dget_dset_same, C06.joinWith]

theorem hhas_hset_ne (h : HMap) (n m v : Str) (hne : normalize m ≠ normalize n) :
    hhas (hset h m v) n = hhas h n := by
  simp [hhas, hset, dget_dset_ne _ _ _ _ hne]

theorem sum_lengths (buf : List Bytes) : (buf.map List.length).sum = buf.flatten.length := by
  induction buf with
  | nil => rfl
  | cons b bs ih => simp only [List.map_cons, List.sum_cons, List.flatten_cons, List.length_append, ih]

/-! ### delimitation decided by `write_headers` -/

theorem fmtChunk_keeps (c : CSt) (chunk : Bytes) :
    (fmtChunk c chunk).1.disconnect = c.disconnect ∧ (fmtChunk c chunk).1.chunking = c.chunking := by
  unfold fmtChunk
  cases hexp : c.expected with
  | none => exact ⟨rfl, rfl⟩
  | some r =>
    simp only []
    by_cases hneg : r - (chunk.length : Int) < 0
    · simp [hneg]
    · simp [hneg]

/-- `cWrite` never changes the delimitation decisions -/
theorem cWrite_keeps (c : CSt) (chunk : Bytes) :
    (cWrite c chunk).1.disconnect = c.disconnect ∧ (cWrite c chunk).1.chunking = c.chunking := by
  have hk := fmtChunk_keeps c chunk
  unfold cWrite
  split
  · exact ⟨rfl, rfl⟩
  · split
    · rename_i heq; rw [heq] at hk; exact hk
    · rename_i heq; rw [heq] at hk; exact hk

/-- `cFinish` closes the stream whenever the connection was marked for closing (or raises) -/
theorem cFinish_closes (c : CSt) (hd : c.disconnect = true) :
    (cFinish c).2 = true ∨ (cFinish c).1.closed = true := by
  unfold cFinish
  split
  · split
    · left; rfl
    · right; split <;> simp [hd]
  · right; split <;> simp [hd]

/-- **undelimited_closes** (decision logic of `write_headers`, outright): for every request shape, status
    and header map — if the response may carry a body (not HEAD, not 1xx/204/304) and has no Content-Length,
    then either chunked coding is chosen or the connection is marked to be closed after the response. -/
theorem undelimited_closes (rq : Req) (code : Nat) (h : HMap)
    (hm : rq.method ≠ .head) (hnb : noBodyStatus code = false) (hcl : hhas h nCL = false) :
    decideChunking rq code h = true ∨ discAfterHeaders rq (disconnect rq) code h = true := by
  have hm' : (rq.method == Method.head) = false := by
    cases hmm : rq.method with
    | head => exact absurd hmm hm
    | get => rfl
    | post => rfl
  have hm'' : (rq.method != Method.head) = true := by simp [bne, hm']
  have h204 : code ≠ 204 := by intro e; subst e; simp [noBodyStatus] at hnb
  have h304 : code ≠ 304 := by intro e; subst e; simp [noBodyStatus] at hnb
  have h1xx : code < 100 ∨ code ≥ 200 := by
    by_cases h1 : 100 ≤ code
    · by_cases h2 : code < 200
      · simp [noBodyStatus, h1, h2] at hnb
      · right; omega
    · left; omega
  have hnb' : noBodyStatus code = false := hnb
  by_cases hv : rq.v11 = true
  · left
    simp [decideChunking, hv, hm'', h204, h304, hcl, h1xx]
  · right
    have hv' : rq.v11 = false := by simpa using hv
    simp only [discAfterHeaders, disconnect, canKeepAlive, hv', http10Delimited, hcl, hm', hnb']
    cases rq.conn <;> decide

/-- **cl_equals_get_body**: when `finish()` supplies the Content-Length itself (the handler set none, the
    response is not 1xx/204/304), its value is the decimal length of the buffered body — the body that is then
    flushed for a GET and suppressed for a HEAD — and the buffer is untouched. -/
theorem cl_equals_get_body (rq : Req) (s : St) (hcl : hhas s.hdrs nCL = false) :
    (finishPrep rq s).2 = false → noBodyStatus (finishPrep rq s).1.status = false →
      hget (finishPrep rq s).1.hdrs nCL = toDec (finishPrep rq s).1.buf.flatten.length
        ∧ (finishPrep rq s).1.buf = s.buf := by
  have hne : normalize nEtag ≠ normalize nCL := by decide
  unfold finishPrep
  simp only []
  by_cases he : (decide (s.status = 200) && (rq.method == Method.get || rq.method == Method.head) && !hhas s.hdrs nEtag) = true
  · simp only [he, if_true]
    by_cases hi : rq.inmMatch = true
    · simp [hi, noBodyStatus]
    · have hi' : rq.inmMatch = false := by simpa using hi
      simp only [hi', Bool.false_eq_true, if_false]
      intro h1 h2
      by_cases hnb : noBodyStatus s.status = true
      · simp [hnb] at h1 h2
        split at h2 <;> simp_all
      · have hnb' : noBodyStatus s.status = false := by simpa using hnb
        simp only [hnb', Bool.false_eq_true, if_false, hhas_hset_ne _ _ _ _ hne, hcl, Bool.not_false, if_true]
        exact ⟨by rw [hget_hset_same, sum_lengths], trivial⟩
  · have he' : (decide (s.status = 200) && (rq.method == Method.get || rq.method == Method.head) && !hhas s.hdrs nEtag) = false := by
      simpa using he
    simp only [he', Bool.false_eq_true, if_false]
    intro h1 h2
    by_cases hnb : noBodyStatus s.status = true
    · simp [hnb] at h1 h2
      split at h2 <;> simp_all
    · have hnb' : noBodyStatus s.status = false := by simpa using hnb
      simp only [hnb', Bool.false_eq_true, if_false, hcl, Bool.not_false, if_true]
      exact ⟨by rw [hget_hset_same, sum_lengths], trivial⟩

end TornadoModel.C02
