/- C02 — the framing invariant through `finish` and its establishment by `write_headers`. -/
import TornadoModel.C02.ConnInv
namespace TornadoModel.C02
open TornadoModel.C02.Spec
open TornadoModel.C06 (Str normalize dget dset ddel isToken stripWs lowerC dkeys)

/-! ### `finish` -/

theorem cFinish_closed (c : CSt) (h : c.closed = true) : cFinish c = (c, false) := by
  obtain ⟨ch, ex, out, cl, d, s, hd⟩ := c
  simp only at h; subst h
  cases ex <;> simp [cFinish]

theorem cFinish_none_chunking (c : CSt) (h : c.closed = false) (he : c.expected = none) (hc : c.chunking = true) :
    cFinish c = ({ c with out := c.out ++ [lastChunk], closed := c.disconnect }, false) := by
  simp [cFinish, h, he, hc]

theorem cFinish_none_plain (c : CSt) (h : c.closed = false) (he : c.expected = none) (hc : c.chunking = false) :
    cFinish c = ({ c with closed := c.disconnect }, false) := by
  simp [cFinish, h, he, hc]

theorem cFinish_short (c : CSt) (r : Int) (h : c.closed = false) (he : c.expected = some r) (hr : r ≠ 0) :
    cFinish c = ({ c with closed := true }, true) := by
  simp [cFinish, h, he, hr]

theorem cFinish_exact (c : CSt) (h : c.closed = false) (he : c.expected = some 0) (hc : c.chunking = false) :
    cFinish c = ({ c with closed := c.disconnect }, false) := by
  simp [cFinish, h, he, hc]

theorem cFinish_Aborted0 (c : CSt) (a : Aborted0 c) : cFinish c = (c, false) := cFinish_closed c a.2.1

theorem Written_closed_fin (rq : Req) (c : CSt) (w : Written rq c false) (hcl : c.closed = true) :
    Written rq c true := by
  obtain ⟨code, hs, hh, hok, hm⟩ := w
  refine ⟨code, hs, hh, hok, ?_⟩
  rcases hm with hA | ⟨nb, hch, hex, l1, l2, hx⟩ | ⟨nb, hch, l2, v, n, l1, hp, hw, hle, hx, _⟩
      | ⟨nb, hch, l2, l1, hex, hd, hw, _⟩
  · exact Or.inl hA
  · rcases hx with ⟨_, h, _⟩ | ⟨h, _⟩
    · rw [hcl] at h; cases h
    · cases h
  · exact Or.inr (Or.inr (Or.inl ⟨nb, hch, l2, v, n, l1, hp, hw, hle, hx, fun _ => Or.inl hcl⟩))
  · exact Or.inr (Or.inr (Or.inr ⟨nb, hch, l2, l1, hex, hd, hw, fun _ => hcl⟩))

theorem cFinish_Written (rq : Req) (c : CSt) (w : Written rq c false) :
    ((cFinish c).2 = false → Written rq (cFinish c).1 true) ∧
    ((cFinish c).2 = true → Written rq (cFinish c).1 false ∧ (cFinish c).1.closed = true) := by
  by_cases hcl : c.closed = true
  · rw [cFinish_closed c hcl]
    exact ⟨fun _ => Written_closed_fin rq c w hcl, fun h => by cases h⟩
  have hcl' : c.closed = false := by simpa using hcl
  obtain ⟨code, hs, hh, hok, hm⟩ := w
  rcases hm with ⟨nb, hw, hch, hx⟩ | ⟨nb, hch, hex, l1, l2, hx⟩ | ⟨nb, hch, l2, v, n, l1, hp, hw, hle, hx, _⟩
      | ⟨nb, hch, l2, l1, hex, hd, hw, _⟩
  · have hex : c.expected = some 0 := by rcases hx with h | h; exact absurd h hcl; exact h
    rw [cFinish_exact c hcl' hex hch]
    exact ⟨fun _ => ⟨code, hs, hh, hok, Or.inl ⟨nb, hw, hch, Or.inr hex⟩⟩, fun h => by cases h⟩
  · rw [cFinish_none_chunking c hcl' hex hch]
    refine ⟨fun _ => ⟨code, hs, hh, hok, Or.inr (Or.inl ⟨nb, hch, hex, l1, l2, Or.inr ⟨rfl, ?_⟩⟩)⟩, fun h => by cases h⟩
    rcases hx with ⟨_, _, hw⟩ | ⟨h, _⟩
    · show (c.out ++ [lastChunk]).flatten = _
      simp only [List.flatten_append, List.flatten_cons, List.flatten_nil, List.append_nil]
      rw [← hw]; rfl
    · cases h
  · have hex : c.expected = some ((n : Int) - (c.sent.flatten.length : Int)) := by
      rcases hx with h | h; exact absurd h hcl; exact h
    by_cases hz : ((n : Int) - (c.sent.flatten.length : Int)) = 0
    · rw [hz] at hex
      rw [cFinish_exact c hcl' hex hch]
      refine ⟨fun _ => ⟨code, hs, hh, hok, Or.inr (Or.inr (Or.inl ⟨nb, hch, l2, v, n, l1, hp, hw, hle,
        Or.inr (by show c.expected = _; rw [hex, hz]), fun _ => Or.inr (show c.sent.flatten.length = n by omega)⟩))⟩, fun h => by cases h⟩
    · rw [cFinish_short c _ hcl' hex hz]
      exact ⟨fun h => (by cases h), fun _ => ⟨⟨code, hs, hh, hok, Or.inr (Or.inr (Or.inl ⟨nb, hch, l2, v, n, l1, hp, hw,
        hle, Or.inl rfl, fun h => by cases h⟩))⟩, rfl⟩⟩
  · rw [cFinish_none_plain c hcl' hex hch]
    exact ⟨fun _ => ⟨code, hs, hh, hok, Or.inr (Or.inr (Or.inr ⟨nb, hch, l2, l1, hex, hd, hw, fun _ => hd⟩))⟩,
      fun h => by cases h⟩

/-! ### `write_headers` on a fresh connection -/

theorem decideChunking_nb (rq : Req) (code : Nat) (h : HMap) (hnb : nbOf rq code = true) :
    decideChunking rq code h = false := by
  unfold nbOf at hnb
  unfold decideChunking
  by_cases hm : (rq.method == Method.head) = true
  · simp [bne, hm]
  · have hm' : (rq.method == Method.head) = false := by simpa using hm
    rw [hm', Bool.false_or] at hnb
    unfold noBodyStatus at hnb
    simp only [Bool.or_eq_true, Bool.and_eq_true, decide_eq_true_eq] at hnb
    rcases hnb with (h1 | h1) | ⟨h1, h2⟩
    · simp [h1]
    · simp [h1]
    · have : ¬ (code < 100 ∨ code ≥ 200) := by omega
      simp [this]

theorem stripWs_vChunked : stripWs vChunked = vChunked := by decide

/-- a connection on which nothing has happened yet -/
def Fresh (rq : Req) (c : CSt) : Prop :=
  c.out = [] ∧ c.closed = false ∧ c.disconnect = disconnect rq ∧ c.sent = [] ∧ c.head = none

theorem fresh_init (rq : Req) : Fresh rq (init rq).conn := ⟨rfl, rfl, rfl, rfl, rfl⟩

/-- the state `write_headers` builds before the first `stream.write` -/
def hdrConn (rq : Req) (c0 : CSt) (code : Nat) (h : HMap) (e : Option Int) : CSt :=
  { c0 with chunking := decideChunking rq code h,
            disconnect := discAfterHeaders rq c0.disconnect code h,
            expected := e }

def finalH (rq : Req) (c0 : CSt) (code : Nat) (h : HMap) : HMap :=
  finalHeaders rq c0.disconnect (decideChunking rq code h) code h

theorem cWriteHeaders_exp (rq : Req) (c0 : CSt) (code : Nat) (h : HMap) (chunk : Bytes) (e : Option Int)
    (hcl : c0.closed = false)
    (he : (if (rq.method == Method.head || noBodyStatus code) = true then some (some (0 : Int))
           else if hhas (finalH rq c0 code h) nCL = true then
             (parseDec (hget (finalH rq c0 code h) nCL)).map (fun n => some (n : Int))
           else some none) = some e) :
    cWriteHeaders rq c0 code h chunk =
      if chunk.isEmpty = true then
        ({ hdrConn rq c0 code h e with out := c0.out ++ [headBytes code (getAll (finalH rq c0 code h))],
                                         head := some (code, getAll (finalH rq c0 code h)) }, false)
      else match fmtChunk (hdrConn rq c0 code h e) chunk with
        | (c, none) => (c, true)
        | (c, some data) =>
          ({ c with out := c.out ++ [headBytes code (getAll (finalH rq c0 code h)) ++ data],
                    head := some (code, getAll (finalH rq c0 code h)) }, false) := by
  unfold cWriteHeaders
  unfold finalH at he
  simp only [he]
  cases chunk with
  | nil => simp [hcl, hdrConn, finalH]
  | cons x xs =>
    simp [hcl, hdrConn, finalH]
    split <;> (rename_i heq; rw [heq])

theorem cWriteHeaders_fresh (rq : Req) (c0 : CSt) (code : Nat) (h : HMap) (chunk : Bytes)
    (hf : Fresh rq c0) (hok : HOK h) (hclok : CLOK h) (h1 : 100 ≤ code) (h2 : code ≤ 999)
    (hhead : (rq.method == Method.head) = true → chunk = []) :
    ((cWriteHeaders rq c0 code h chunk).2 = true → Aborted0 (cWriteHeaders rq c0 code h chunk).1) ∧
    ((cWriteHeaders rq c0 code h chunk).2 = false → Written rq (cWriteHeaders rq c0 code h chunk).1 false) := by
  obtain ⟨fout, fcl, fdisc, fsent, fhead⟩ := hf
  obtain ⟨fk, fclh, fte⟩ := finalHeaders_spec rq c0.disconnect (decideChunking rq code h) code h hok
  have hHead : HeadOK code (getAll (finalH rq c0 code h)) := ⟨h1, h2, getAll_ok _ fk⟩
  have lcl := lookup_getAll (finalH rq c0 code h) fk nCL lcCL norm_nCL (by decide)
  have lte := lookup_getAll (finalH rq c0 code h) fk nTE lcTE norm_nTE (by decide)
  have hhascl : hhas (finalH rq c0 code h) nCL = hhas h nCL := by
    rw [hhas_nCL, hhas_nCL]; unfold finalH; rw [fclh]
  unfold finalH at lcl lte
  rw [fclh] at lcl
  rw [fte] at lte
  by_cases hnb : nbOf rq code = true
  · -- HEAD / 1xx / 204 / 304
    have hchk := decideChunking_nb rq code h hnb
    have he : (if (rq.method == Method.head || noBodyStatus code) = true then some (some (0 : Int))
           else if hhas (finalH rq c0 code h) nCL = true then
             (parseDec (hget (finalH rq c0 code h) nCL)).map (fun n => some (n : Int))
           else some none) = some (some 0) := by
      unfold nbOf at hnb; simp [hnb]
    rw [cWriteHeaders_exp rq c0 code h chunk (some 0) fcl he]
    by_cases hce : chunk = []
    · subst hce
      simp only [List.isEmpty_nil, if_true]
      refine ⟨fun h => (by cases h), fun _ => ⟨code, _, rfl, hHead, Or.inl ⟨hnb, ?_, hchk, Or.inr rfl⟩⟩⟩
      show (c0.out ++ [_]).flatten = _
      rw [fout]; simp
    · have hne : chunk.isEmpty = false := by cases chunk <;> simp_all
      have hlen : (0 : Int) - (chunk.length : Int) < 0 := by
        have : chunk.length ≠ 0 := by cases chunk <;> simp_all
        omega
      have hfm : fmtChunk (hdrConn rq c0 code h (some 0)) chunk
          = ({ hdrConn rq c0 code h (some 0) with expected := some ((0 : Int) - (chunk.length : Int)), closed := true }, none) := by
        simp [fmtChunk, hdrConn, hce]
      simp only [hne, Bool.false_eq_true, if_false, hfm]
      refine ⟨fun _ => ⟨?_, rfl, fhead⟩, fun h => by cases h⟩
      show c0.out.flatten = []
      rw [fout]; rfl
  · have hnb' : nbOf rq code = false := by simpa using hnb
    have hnbx : (rq.method == Method.head || noBodyStatus code) = false := hnb'
    have hmh : (rq.method == Method.head) = false := by
      unfold nbOf at hnb'; simp only [Bool.or_eq_false_iff] at hnb'; exact hnb'.1
    have hns : noBodyStatus code = false := by
      unfold nbOf at hnb'; simp only [Bool.or_eq_false_iff] at hnb'; exact hnb'.2
    cases hg : dget nCL h with
    | some vs =>
      -- Content-Length
      obtain ⟨v, rfl, hvne, hvd⟩ := hclok vs hg
      obtain ⟨n, hn⟩ := parseDec_digits v hvne hvd
      have hhas1 : hhas h nCL = true := by rw [hhas_nCL, hg]; rfl
      have hchk : decideChunking rq code h = false := by simp [decideChunking, hhas1]
      have hget1 : hget (finalH rq c0 code h) nCL = v := by
        unfold hget finalH; rw [norm_nCL, fclh, hg]; rfl
      have he : (if (rq.method == Method.head || noBodyStatus code) = true then some (some (0 : Int))
           else if hhas (finalH rq c0 code h) nCL = true then
             (parseDec (hget (finalH rq c0 code h) nCL)).map (fun n => some (n : Int))
           else some none) = some (some (n : Int)) := by
        rw [hnbx, hhascl, hhas1, hget1, hn]; rfl
      rw [hg] at lcl
      simp only [List.map_cons, List.map_nil, stripWs_digits v hvd] at lcl
      replace lte : lookup lcTE (stripHs (getAll (finalH rq c0 code h))) = [] := by
        unfold finalH; rw [lte, hchk]; rfl
      rw [cWriteHeaders_exp rq c0 code h chunk (some n) fcl he]
      by_cases hce : chunk = []
      · subst hce
        simp only [List.isEmpty_nil, if_true]
        refine ⟨fun h => (by cases h), fun _ => ⟨code, _, rfl, hHead, Or.inr (Or.inr (Or.inl
          ⟨hnb', hchk, lte, v, n, lcl, hn, ?_, ?_, Or.inr ?_, fun h => by cases h⟩))⟩⟩
        · show (c0.out ++ [_]).flatten = _ ++ c0.sent.flatten
          rw [fout, fsent]; simp
        · show c0.sent.flatten.length ≤ n
          rw [fsent]; simp
        · show some (n : Int) = some ((n : Int) - (c0.sent.flatten.length : Int))
          rw [fsent]; simp
      · have hne : chunk.isEmpty = false := by cases chunk <;> simp_all
        by_cases hlen : (n : Int) - (chunk.length : Int) < 0
        · have hfm : fmtChunk (hdrConn rq c0 code h (some n)) chunk
              = ({ hdrConn rq c0 code h (some n) with expected := some ((n : Int) - (chunk.length : Int)), closed := true }, none) := by
            simp [fmtChunk, hdrConn, hlen]
          simp only [hne, Bool.false_eq_true, if_false, hfm]
          refine ⟨fun _ => ⟨?_, rfl, fhead⟩, fun h => by cases h⟩
          show c0.out.flatten = []
          rw [fout]; rfl
        · have hfm : fmtChunk (hdrConn rq c0 code h (some n)) chunk
              = ({ hdrConn rq c0 code h (some n) with
                    expected := some ((n : Int) - (chunk.length : Int)), sent := c0.sent ++ [chunk] }, some chunk) := by
            simp [fmtChunk, hdrConn, hlen, hchk, encChunk]
          simp only [hne, Bool.false_eq_true, if_false, hfm]
          refine ⟨fun h => (by cases h), fun _ => ⟨code, _, rfl, hHead, Or.inr (Or.inr (Or.inl
            ⟨hnb', hchk, lte, v, n, lcl, hn, ?_, ?_, Or.inr ?_, fun h => by cases h⟩))⟩⟩
          · show (c0.out ++ [_ ++ chunk]).flatten = _ ++ (c0.sent ++ [chunk]).flatten
            rw [fout, fsent]; simp
          · show (c0.sent ++ [chunk]).flatten.length ≤ n
            rw [fsent]; simp; omega
          · show some ((n : Int) - (chunk.length : Int)) = some ((n : Int) - ((c0.sent ++ [chunk]).flatten.length : Int))
            rw [fsent]; simp
    | none =>
      have hhas0 : hhas h nCL = false := by rw [hhas_nCL, hg]; rfl
      have he : (if (rq.method == Method.head || noBodyStatus code) = true then some (some (0 : Int))
           else if hhas (finalH rq c0 code h) nCL = true then
             (parseDec (hget (finalH rq c0 code h) nCL)).map (fun n => some (n : Int))
           else some none) = some none := by
        rw [hnbx, hhascl, hhas0]; rfl
      rw [hg] at lcl
      simp only [] at lcl
      rw [cWriteHeaders_exp rq c0 code h chunk none fcl he]
      have hfm : fmtChunk (hdrConn rq c0 code h none) chunk
          = ({ hdrConn rq c0 code h none with sent := c0.sent ++ [chunk] },
              some (encChunk (decideChunking rq code h) chunk)) := by
        simp [fmtChunk, hdrConn]
      cases hchk : decideChunking rq code h with
      | true =>
        -- chunked
        replace lte : lookup lcTE (stripHs (getAll (finalH rq c0 code h))) = [vChunked] := by
          unfold finalH; rw [lte, hchk]; simp [stripWs_vChunked]
        by_cases hce : chunk = []
        · subst hce
          simp only [List.isEmpty_nil, if_true]
          refine ⟨fun h => (by cases h), fun _ => ⟨code, _, rfl, hHead, Or.inr (Or.inl
            ⟨hnb', hchk, rfl, lcl, lte, Or.inl ⟨rfl, fcl, ?_⟩⟩)⟩⟩
          show (c0.out ++ [_]).flatten = _ ++ c0.sent.flatMap (encChunk true)
          rw [fout, fsent]; simp
        · have hne : chunk.isEmpty = false := by cases chunk <;> simp_all
          simp only [hne, Bool.false_eq_true, if_false, hfm]
          refine ⟨fun h => (by cases h), fun _ => ⟨code, _, rfl, hHead, Or.inr (Or.inl
            ⟨hnb', hchk, rfl, lcl, lte, Or.inl ⟨rfl, fcl, ?_⟩⟩)⟩⟩
          show (c0.out ++ [_ ++ encChunk (decideChunking rq code h) chunk]).flatten
            = _ ++ (c0.sent ++ [chunk]).flatMap (encChunk true)
          rw [fout, fsent, hchk]; simp
      | false =>
        -- delimited by close
        replace lte : lookup lcTE (stripHs (getAll (finalH rq c0 code h))) = [] := by
          unfold finalH; rw [lte, hchk]; rfl
        have hmne : rq.method ≠ Method.head := by
          intro e; rw [e] at hmh; cases hmh
        have hdisc : discAfterHeaders rq c0.disconnect code h = true := by
          rcases undelimited_closes rq code h hmne hns hhas0 with h | h
          · rw [hchk] at h; cases h
          · rw [fdisc]; exact h
        by_cases hce : chunk = []
        · subst hce
          simp only [List.isEmpty_nil, if_true]
          refine ⟨fun h => (by cases h), fun _ => ⟨code, _, rfl, hHead, Or.inr (Or.inr (Or.inr
            ⟨hnb', hchk, lte, lcl, rfl, hdisc, ?_, fun h => by cases h⟩))⟩⟩
          show (c0.out ++ [_]).flatten = _ ++ c0.sent.flatten
          rw [fout, fsent]; simp
        · have hne : chunk.isEmpty = false := by cases chunk <;> simp_all
          simp only [hne, Bool.false_eq_true, if_false, hfm]
          refine ⟨fun h => (by cases h), fun _ => ⟨code, _, rfl, hHead, Or.inr (Or.inr (Or.inr
            ⟨hnb', hchk, lte, lcl, rfl, hdisc, ?_, fun h => by cases h⟩))⟩⟩
          show (c0.out ++ [_ ++ encChunk (decideChunking rq code h) chunk]).flatten
            = _ ++ (c0.sent ++ [chunk]).flatten
          rw [fout, fsent, hchk]; simp [encChunk]

end TornadoModel.C02
