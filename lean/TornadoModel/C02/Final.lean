/- C02 — from the framing invariant to what the strict client reads. -/
import TornadoModel.C02.RunInv
namespace TornadoModel.C02
open TornadoModel.C02.Spec
open TornadoModel.C06 (Str normalize dget dset ddel isToken stripWs lowerC dkeys)

/-- how the response on connection `c` is delimited -/
def delimOf (rq : Req) (c : CSt) (code : Nat) (hs : List (Str × Str)) : Delim :=
  if nbOf rq code then .noBody
  else if c.chunking then .chunked
  else if (lookup lcCL (stripHs hs)).isEmpty then .untilClose
  else .contentLength

/-- the response a strict client must report: status and header lines as serialised by `write_headers`
    (ghost `head`), body = concatenation of the chunks accepted by the connection (ghost `sent`),
    empty for HEAD / 1xx / 204 / 304 -/
def expectedResp (rq : Req) (c : CSt) (code : Nat) (hs : List (Str × Str)) : Resp :=
  ⟨code, reason code, stripHs hs, if nbOf rq code then [] else c.sent.flatten, delimOf rq c code hs⟩

/-- the handler declared a Content-Length larger than what it wrote; the framework aborted the connection -/
def ShortBody (c : CSt) (hs : List (Str × Str)) : Prop :=
  ∃ v n, lookup lcCL (stripHs hs) = [v] ∧ parseDec v = some n ∧ c.sent.flatten.length < n

theorem ciEq_self (a : Bytes) : ciEq a a = true := by simp [ciEq]

theorem parse_Written (rq : Req) (c : CSt) (fin : Bool) (w : Written rq c fin)
    (hfc : fin = true ∨ c.closed = true) :
    ∃ code hs, c.head = some (code, hs) ∧ HeadOK code hs ∧
      (clientParse (rq.method == .head) (wire c) c.closed = .ok (expectedResp rq c code hs, [])
       ∨ (clientParse (rq.method == .head) (wire c) c.closed = .incomplete ∧ c.closed = true
           ∧ nbOf rq code = false ∧ ShortBody c hs)) := by
  obtain ⟨code, hs, hh, hok, hm⟩ := w
  refine ⟨code, hs, hh, hok, ?_⟩
  obtain ⟨k1, k2, k3⟩ := hok
  rcases hm with ⟨nb, hw, hch, hx⟩ | ⟨nb, hch, hex, l1, l2, hx⟩ | ⟨nb, hch, l2, v, n, l1, hp, hw, hle, hx, hfin⟩
      | ⟨nb, hch, l2, l1, hex, hd, hw, hfin⟩
  · -- no body
    left
    have hcp := clientParse_head (rq.method == .head) code hs [] c.closed k1 k2 k3
    rw [List.append_nil] at hcp
    have nbx : (rq.method == Method.head || noBodyStatus code) = true := nb
    rw [hw, hcp]
    simp [afterHead, nbx, expectedResp, delimOf, nb]
  · -- chunked
    left
    have nbx : (rq.method == Method.head || noBodyStatus code) = false := nb
    rcases hx with ⟨hf, hcl, _⟩ | ⟨_, hw⟩
    · rcases hfc with h | h
      · rw [hf] at h; cases h
      · rw [hcl] at h; cases h
    · have hrc : readChunked ((c.sent.flatMap (encChunk true) ++ lastChunk).length + 1)
          (c.sent.flatMap (encChunk true) ++ lastChunk) = .ok (c.sent.flatten, []) := by
        have := readChunked_encode c.sent [] ((c.sent.flatMap (encChunk true) ++ lastChunk).length + 1) (by
          have := nonEmptyCount_le c.sent
          simp only [List.length_append]; omega)
        simp only [List.append_nil] at this
        exact this
      rw [hw, List.append_assoc, clientParse_head _ code hs _ c.closed k1 k2 k3]
      generalize c.sent.flatMap (encChunk true) ++ lastChunk = body at hrc ⊢
      simp only [afterHead, nbx, l1, l2, hrc, expectedResp, delimOf, nb, hch]
      simp [ciEq_self]
  · -- Content-Length
    have nbx : (rq.method == Method.head || noBodyStatus code) = false := nb
    rw [hw, clientParse_head _ code hs _ c.closed k1 k2 k3]
    unfold ShortBody expectedResp
    generalize c.sent.flatten = body at hle hx hfin ⊢
    by_cases hlen : body.length = n
    · left
      have h1 : ¬ body.length < n := by omega
      have h2 : List.take n body = body := by rw [← hlen]; exact List.take_length
      have h3 : List.drop n body = [] := by rw [← hlen]; exact List.drop_length
      simp [afterHead, nbx, l1, l2, allEq, hp, h1, h2, h3, expectedResp, delimOf, nb, hch]
    · right
      have h1 : body.length < n := by omega
      have hclosed : c.closed = true := by
        rcases hfc with h | h
        · rcases hfin h with h' | h'
          · exact h'
          · exact absurd h' hlen
        · exact h
      refine ⟨?_, hclosed, nb, v, n, l1, hp, h1⟩
      simp [afterHead, nbx, l1, l2, allEq, hp, h1]
  · -- until close
    left
    have nbx : (rq.method == Method.head || noBodyStatus code) = false := nb
    have hclosed : c.closed = true := by
      rcases hfc with h | h
      · exact hfin h
      · exact h
    rw [hw, clientParse_head _ code hs _ c.closed k1 k2 k3]
    simp [afterHead, nbx, l1, l2, hclosed, expectedResp, delimOf, nb, hch]

theorem clientParse_nil (b e : Bool) : clientParse b [] e = .incomplete := by
  simp [clientParse, readLine]

/-- what the strict client reads at the end of any run satisfying `Done` -/
theorem parse_Done (rq : Req) (s : St) (d : Done rq s) :
    (wire s.conn = [] ∧ s.conn.closed = true ∧ s.conn.head = none) ∨
    ∃ code hs, s.conn.head = some (code, hs) ∧ HeadOK code hs ∧
      (clientParse (rq.method == .head) (wire s.conn) s.conn.closed = .ok (expectedResp rq s.conn code hs, [])
       ∨ (clientParse (rq.method == .head) (wire s.conn) s.conn.closed = .incomplete ∧ s.conn.closed = true
           ∧ nbOf rq code = false ∧ ShortBody s.conn hs)) := by
  rcases d.2 with a | w | ⟨w, hc⟩
  · exact Or.inl a
  · exact Or.inr (parse_Written rq s.conn true w (Or.inl rfl))
  · exact Or.inr (parse_Written rq s.conn false w (Or.inr hc))

/-- HEAD / 1xx / 204 / 304: the wire is exactly the head -/
theorem nobody_Done (rq : Req) (s : St) (d : Done rq s) (code : Nat) (hs : List (Str × Str))
    (hh : s.conn.head = some (code, hs)) (hnb : nbOf rq code = true) : wire s.conn = headBytes code hs := by
  have key : ∀ fin, Written rq s.conn fin → wire s.conn = headBytes code hs := by
    intro fin w
    obtain ⟨code', hs', hh', _, hm⟩ := w
    rw [hh] at hh'
    cases hh'
    rcases hm with ⟨_, hw, _, _⟩ | ⟨nb, _⟩ | ⟨nb, _⟩ | ⟨nb, _⟩
    · exact hw
    · rw [hnb] at nb; cases nb
    · rw [hnb] at nb; cases nb
    · rw [hnb] at nb; cases nb
  rcases d.2 with a | w | ⟨w, _⟩
  · rw [a.2.2] at hh; cases hh
  · exact key true w
  · exact key false w

end TornadoModel.C02
