/- C02 — the serialised head (`headBytes`) is read back exactly by the strict client; header-map invariants
   (normalised token keys, unique keys, valid values) and what `Spec.lookup` sees of a header map. -/
import TornadoModel.C02.Framing
import TornadoModel.C06.Copy
namespace TornadoModel.C02
open TornadoModel.C02.Spec
open TornadoModel.C06 (Str normalize dget dset ddel isToken isTchar splitColon stripWs lowerC dkeys)

/-! ### characters and lines -/

instance (l : Bytes) : Decidable (NoCRLF l) := by unfold NoCRLF; infer_instance

theorem NoCRLF_append {a b : Bytes} (ha : NoCRLF a) (hb : NoCRLF b) : NoCRLF (a ++ b) := by
  intro c hc
  rcases List.mem_append.1 hc with h | h
  · exact ha c h
  · exact hb c h

theorem isTchar_ne (c : Nat) (h : isTchar c = true) : c ≠ 58 ∧ c ≠ 13 ∧ c ≠ 10 := by
  refine ⟨?_, ?_, ?_⟩ <;> (rintro rfl; revert h; decide)

theorem token_chars (k : Str) (h : isToken k = true) : k ≠ [] ∧ ∀ c ∈ k, c ≠ 58 ∧ c ≠ 13 ∧ c ≠ 10 := by
  unfold isToken at h
  simp only [Bool.and_eq_true, Bool.not_eq_true', List.all_eq_true] at h
  refine ⟨?_, fun c hc => isTchar_ne c (h.2 c hc)⟩
  intro e; subst e; simp at h

theorem token_noCRLF (k : Str) (h : isToken k = true) : NoCRLF k :=
  fun c hc => ⟨((token_chars k h).2 c hc).2.1, ((token_chars k h).2 c hc).2.2⟩

theorem validValueChar_ne (c : Nat) (h : validValueChar c = true) : c ≠ 13 ∧ c ≠ 10 := by
  refine ⟨?_, ?_⟩ <;> (rintro rfl; revert h; decide)

theorem validValue_noCRLF (v : Str) (h : validValue v = true) : NoCRLF v := by
  unfold validValue at h
  rw [List.all_eq_true] at h
  exact fun c hc => validValueChar_ne c (h c hc)

theorem isDigit_validValueChar (c : Nat) (h : isDigit c = true) : validValueChar c = true := by
  unfold isDigit at h; unfold validValueChar
  simp only [Bool.and_eq_true, decide_eq_true_eq, Bool.or_eq_true] at h ⊢
  omega

theorem digits_validValue (v : Str) (h : v.all isDigit = true) : validValue v = true := by
  unfold validValue
  rw [List.all_eq_true] at h ⊢
  exact fun c hc => isDigit_validValueChar c (h c hc)

theorem splitColon_token (k rest : Str) (h : ∀ c ∈ k, c ≠ 58) :
    splitColon (k ++ 58 :: rest) = some (k, rest) := by
  induction k with
  | nil => simp [splitColon, C06.cColon]
  | cons c cs ih =>
    have hc : c ≠ 58 := h c (by simp)
    have := ih (fun x hx => h x (by simp [hx]))
    simp [splitColon, C06.cColon, hc, this]

theorem stripWs_sp (v : Str) : stripWs (32 :: v) = stripWs v := by
  simp [stripWs, C06.lstripWs, C06.isWs, C06.cSp, List.dropWhile]

theorem parseHeaderLine_line (k v : Str) (hk : isToken k = true) :
    parseHeaderLine (k ++ colonSp ++ v) = some (k, stripWs v) := by
  have h1 : k ++ colonSp ++ v = k ++ 58 :: (32 :: v) := by simp [colonSp]
  unfold parseHeaderLine
  rw [h1, splitColon_token k _ (fun c hc => ((token_chars k hk).2 c hc).1)]
  simp [hk, stripWs_sp]

/-- header values as the client reports them -/
def stripHs (hs : List (Str × Str)) : List (Bytes × Bytes) := hs.map (fun p => (p.1, stripWs p.2))

theorem readHeaders_lines (hs : List (Str × Str)) (body : Bytes)
    (hk : ∀ p ∈ hs, isToken p.1 = true ∧ NoCRLF p.2) :
    ∀ fuel, hs.length < fuel →
      readHeaders fuel (hs.flatMap headerLine ++ crlf ++ body) = .ok (stripHs hs, body) := by
  induction hs with
  | nil =>
    intro fuel hf
    obtain ⟨f, rfl⟩ : ∃ f, fuel = f + 1 := ⟨fuel - 1, by omega⟩
    simp [readHeaders, readLine, crlf, stripHs]
  | cons p ps ih =>
    intro fuel hf
    obtain ⟨f, rfl⟩ : ∃ f, fuel = f + 1 := ⟨fuel - 1, by omega⟩
    have hp := hk p (by simp)
    have hps : ∀ q ∈ ps, isToken q.1 = true ∧ NoCRLF q.2 := fun q hq => hk q (by simp [hq])
    have hne := (token_chars p.1 hp.1).1
    obtain ⟨c, cs, hcs⟩ : ∃ c cs, p.1 = c :: cs := by
      cases h : p.1 with
      | nil => exact absurd h hne
      | cons c cs => exact ⟨c, cs, rfl⟩
    have hline : NoCRLF (p.1 ++ colonSp ++ p.2) :=
      NoCRLF_append (NoCRLF_append (token_noCRLF _ hp.1) (by decide)) hp.2
    have hshape : (p :: ps).flatMap headerLine ++ crlf ++ body
        = (p.1 ++ colonSp ++ p.2) ++ 13 :: 10 :: (ps.flatMap headerLine ++ crlf ++ body) := by
      simp [headerLine, crlf]
    have hrec := ih hps f (by simp at hf; omega)
    have hparse := parseHeaderLine_line p.1 p.2 hp.1
    rw [hshape]
    unfold readHeaders
    rw [readLine_line _ _ hline]
    have hcons : p.1 ++ colonSp ++ p.2 = c :: (cs ++ colonSp ++ p.2) := by simp [hcs]
    rw [hcons] at hparse ⊢
    simp only [hparse, hrec]
    simp [stripHs]

theorem length_le_flatMap_headerLine (hs : List (Str × Str)) :
    hs.length ≤ (hs.flatMap headerLine).length := by
  induction hs with
  | nil => simp
  | cons p ps ih => simp [headerLine, colonSp, crlf] at ih ⊢; omega

/-! ### status line -/

theorem toDec3 (n : Nat) (h1 : 100 ≤ n) (h2 : n ≤ 999) :
    toDec n = [48 + n / 10 / 10, 48 + n / 10 % 10, 48 + n % 10] := by
  have a1 : ¬ n < 10 := by omega
  have a2 : ¬ n / 10 < 10 := by omega
  have a3 : n / 10 / 10 < 10 := by omega
  unfold toDec
  rw [show n + 1 = (n - 2) + 1 + 1 + 1 by omega]
  simp [digitsAux, a1, a2, a3]

theorem NoCRLF_ite (p : Prop) [Decidable p] (a b : Bytes) (ha : NoCRLF a) (hb : NoCRLF b) :
    NoCRLF (if p then a else b) := by
  split <;> assumption

theorem reason_noCRLF (c : Nat) : NoCRLF (reason c) := by
  unfold reason
  repeat (refine NoCRLF_ite _ _ _ (by decide) ?_)
  decide

theorem parseStatusLine_statusLine (code : Nat) (h1 : 100 ≤ code) (h2 : code ≤ 999) :
    parseStatusLine (statusLine code) = some (code, reason code) := by
  unfold statusLine
  rw [toDec3 code h1 h2]
  have d1 : isDigit (48 + code / 10 / 10) = true := by simp [isDigit]; omega
  have d2 : isDigit (48 + code / 10 % 10) = true := by simp [isDigit]; omega
  have d3 : isDigit (48 + code % 10) = true := by simp [isDigit]; omega
  have d0 : isDigit 49 = true := by decide
  simp only [httpVer, List.cons_append, List.nil_append, parseStatusLine, d0, d1, d2, d3, Bool.and_self, if_true]
  congr 2
  omega

theorem statusLine_noCRLF (code : Nat) : NoCRLF (statusLine code) := by
  unfold statusLine
  exact NoCRLF_append (NoCRLF_append (NoCRLF_append (by decide) (toDec_noCRLF _)) (by decide)) (reason_noCRLF _)

/-! ### the client after the head -/

/-- what `clientParse` does once status line and header block are read (same text as in `Spec.clientParse`) -/
def afterHead (isHead : Bool) (status : Nat) (reason : Bytes) (hs : List (Bytes × Bytes)) (body : Bytes)
    (eof : Bool) : R (Resp × Bytes) :=
  let mk (b : Bytes) (d : Delim) : Resp := ⟨status, reason, hs, b, d⟩
  let cls := lookup lcCL hs
  let tes := lookup lcTE hs
  if isHead || noBodyStatus status then .ok (mk [] .noBody, body)
  else if !tes.isEmpty then
    if !cls.isEmpty then .malformed
    else if !(tes.length == 1 && tes.all (ciEq · vChunked)) then .malformed
    else match readChunked (body.length + 1) body with
      | .ok (d, r) => .ok (mk d .chunked, r)
      | .incomplete => .incomplete
      | .malformed => .malformed
  else match cls with
    | [] => if eof then .ok (mk body .untilClose, []) else .incomplete
    | v :: vs =>
      if !allEq (v :: vs) then .malformed
      else match parseDec v with
        | none => .malformed
        | some n =>
          if body.length < n then .incomplete
          else .ok (mk (body.take n) .contentLength, body.drop n)

/-- a head with a 3-digit status, token names and CR/LF-free values is read back exactly -/
theorem clientParse_head (isHead : Bool) (code : Nat) (hs : List (Str × Str)) (body : Bytes) (eof : Bool)
    (h1 : 100 ≤ code) (h2 : code ≤ 999) (hk : ∀ p ∈ hs, isToken p.1 = true ∧ NoCRLF p.2) :
    clientParse isHead (headBytes code hs ++ body) eof
      = afterHead isHead code (reason code) (stripHs hs) body eof := by
  have hshape : headBytes code hs ++ body
      = statusLine code ++ 13 :: 10 :: (hs.flatMap headerLine ++ crlf ++ body) := by
    simp [headBytes, crlf]
  have hl := readLine_line (statusLine code) (hs.flatMap headerLine ++ crlf ++ body) (statusLine_noCRLF code)
  have hh := readHeaders_lines hs body hk ((hs.flatMap headerLine ++ crlf ++ body).length + 1) (by
    have := length_le_flatMap_headerLine hs
    simp only [List.length_append]; omega)
  unfold clientParse
  rw [hshape, hl]
  simp only [parseStatusLine_statusLine code h1 h2, hh]
  rfl

/-! ### header-map invariants -/

/-- unique, normalised token keys; every stored value passes `_VALID_HEADER_CHARS` -/
def KeysOK (h : HMap) : Prop :=
  (dkeys h).Nodup ∧ ∀ e ∈ h, normalize e.1 = e.1 ∧ isToken e.1 = true ∧ ∀ v ∈ e.2, validValue v = true

theorem KeysOK_dset (h : HMap) (hk : KeysOK h) (k : Str) (vs : List Str) (hn : normalize k = k)
    (ht : isToken k = true) (hv : ∀ v ∈ vs, validValue v = true) : KeysOK (dset k vs h) := by
  refine ⟨C06.nodup_dset k vs h hk.1, fun e he => ?_⟩
  rcases C06.mem_dset k vs h e he with rfl | he
  · exact ⟨hn, ht, hv⟩
  · exact hk.2 e he

theorem KeysOK_ddel (h : HMap) (hk : KeysOK h) (k : Str) : KeysOK (ddel k h) :=
  ⟨C06.nodup_ddel k h hk.1, fun e he => hk.2 e (C06.mem_ddel k h e he)⟩

theorem KeysOK_hset (h : HMap) (hk : KeysOK h) (n v : Str) (ht : isToken (normalize n) = true)
    (hv : validValue v = true) : KeysOK (hset h n v) :=
  KeysOK_dset h hk _ _ (C06.Norm.normalize_idem n) ht (by simpa using hv)

theorem KeysOK_hadd (h : HMap) (hk : KeysOK h) (n v : Str) (ht : isToken (normalize n) = true)
    (hv : validValue v = true) : KeysOK (hadd h n v) := by
  unfold hadd
  cases hg : dget (normalize n) h with
  | none => exact KeysOK_dset h hk _ _ (C06.Norm.normalize_idem n) ht (by simpa using hv)
  | some vs =>
    have hm := (hk.2 _ (C06.mem_of_dget _ _ _ hg)).2.2
    refine KeysOK_dset h hk _ _ (C06.Norm.normalize_idem n) ht ?_
    intro x hx
    rcases List.mem_append.1 hx with hx | hx
    · exact hm x hx
    · simp at hx; subst hx; exact hv

theorem KeysOK_hdel (h : HMap) (hk : KeysOK h) (n : Str) : KeysOK (hdel h n) := KeysOK_ddel h hk _

theorem getAll_ok (h : HMap) (hk : KeysOK h) : ∀ p ∈ getAll h, isToken p.1 = true ∧ NoCRLF p.2 := by
  intro p hp
  unfold getAll at hp
  simp only [List.mem_flatMap, List.mem_map] at hp
  obtain ⟨e, he, v, hv, rfl⟩ := hp
  have := hk.2 e he
  exact ⟨this.2.1, validValue_noCRLF v (this.2.2 v hv)⟩

/-! ### what the client's case-insensitive lookup sees -/

theorem ciEq_normed (k nX lcX : Str) (hk : normalize k = k) (hn : normalize nX = nX)
    (hl : nX.map lowerC = lcX.map lowerC) : ciEq k lcX = decide (k = nX) := by
  unfold ciEq
  by_cases h : k = nX
  · subst h; simp [hl]
  · have : ¬ k.map lowerC = lcX.map lowerC := by
      intro e
      rw [← hl] at e
      have := (C06.Norm.normalize_eq_iff_lower_eq k nX).2 e
      rw [hk, hn] at this
      exact h this
    simp [h, this]

theorem lookup_append (n : Bytes) (a b : List (Bytes × Bytes)) : lookup n (a ++ b) = lookup n a ++ lookup n b := by
  simp [lookup]

theorem lookup_same (k n : Bytes) (vs : List Str) (f : Str → Str) (h : ciEq k n = true) :
    lookup n (vs.map (fun v => (k, f v))) = vs.map f := by
  induction vs with
  | nil => rfl
  | cons v vs ih =>
    simp only [lookup, List.map_cons, List.filter_cons, h, if_true] at ih ⊢
    rw [ih]

theorem lookup_other (k n : Bytes) (vs : List Str) (f : Str → Str) (h : ciEq k n = false) :
    lookup n (vs.map (fun v => (k, f v))) = [] := by
  induction vs with
  | nil => rfl
  | cons v vs ih =>
    simp only [lookup, List.map_cons, List.filter_cons, h, Bool.false_eq_true, if_false] at ih ⊢
    rw [ih]

theorem lookup_getAll (h : HMap) (hk : KeysOK h) (nX lcX : Str) (hn : normalize nX = nX)
    (hl : nX.map lowerC = lcX.map lowerC) :
    lookup lcX (stripHs (getAll h)) = match dget nX h with
      | some vs => vs.map stripWs
      | none => [] := by
  induction h with
  | nil => simp [getAll, stripHs, lookup, dget]
  | cons e r ih =>
    obtain ⟨k, vs⟩ := e
    have hkr : KeysOK r := by
      refine ⟨?_, fun e he => hk.2 e (by simp [he])⟩
      have := hk.1; simp [dkeys] at this ⊢; exact this.2
    have hke := hk.2 (k, vs) (by simp)
    have hci := ciEq_normed k nX lcX hke.1 hn hl
    have hsplit : stripHs (getAll ((k, vs) :: r))
        = vs.map (fun v => (k, stripWs v)) ++ stripHs (getAll r) := by
      simp [getAll, stripHs, List.map_map, Function.comp_def]
    rw [hsplit, lookup_append, ih hkr]
    by_cases hkx : k = nX
    · subst hkx
      have hnot : k ∉ dkeys r := by
        have := hk.1; simp [dkeys] at this ⊢; exact fun x => this.1 x
      have hci' : ciEq k lcX = true := by simp [hci]
      have h1 := lookup_same k lcX vs stripWs hci'
      rw [h1, C06.dget_none_of_not_mem k r hnot]
      simp [dget]
    · have hci' : ciEq k lcX = false := by simp [hci, hkx]
      have h1 := lookup_other k lcX vs stripWs hci'
      rw [h1]
      simp [dget, hkx]

theorem stripWs_noWs (v : Str) (h : ∀ c ∈ v, C06.isWs c = false) : stripWs v = v := by
  have h1 : ∀ (l : Str), (∀ c ∈ l, C06.isWs c = false) → l.dropWhile C06.isWs = l := by
    intro l hl
    cases l with
    | nil => rfl
    | cons c cs => simp [List.dropWhile, hl c (by simp)]
  unfold stripWs C06.rstripWs C06.lstripWs
  rw [h1 v h, h1 v.reverse (fun c hc => h c (by simpa using hc))]
  simp

theorem stripWs_digits (v : Str) (h : v.all isDigit = true) : stripWs v = v := by
  apply stripWs_noWs
  rw [List.all_eq_true] at h
  intro c hc
  have := h c hc
  unfold isDigit at this
  simp only [Bool.and_eq_true, decide_eq_true_eq] at this
  cases hw : C06.isWs c with
  | false => rfl
  | true =>
    exfalso
    simp only [C06.isWs, C06.cSp, C06.cTab, Bool.or_eq_true] at hw
    rcases hw with h | h <;> (have := of_decide_eq_true h; omega)

end TornadoModel.C02
