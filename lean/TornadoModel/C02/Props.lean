/- C02 — property theorems (see docs/C02.md for the reading of each clause). -/
import TornadoModel.C02.Lemmas
import TornadoModel.C02.Framing
namespace TornadoModel.C02
open TornadoModel.C02.Spec

/-- **chunk wire round trip**: for every list of chunks handed to a chunking connection (`_format_chunk` on each,
    then `finish`'s terminator), the strict chunked reader returns exactly their concatenation and leaves
    exactly the bytes that follow the terminator.  Empty chunks are skipped by the encoder, so they cannot
    terminate the body early. -/
theorem chunk_wire_roundtrip (chunks : List Bytes) (rest : Bytes) :
    readChunked ((chunks.flatMap (encChunk true) ++ lastChunk ++ rest).length + 1)
      (chunks.flatMap (encChunk true) ++ lastChunk ++ rest) = .ok (chunks.flatten, rest) := by
  apply readChunked_encode
  have := nonEmptyCount_le chunks
  simp only [List.length_append]
  omega

/-- a non-chunking connection writes the chunk bytes unchanged -/
theorem identity_coding (c : Bytes) : encChunk false c = c := by simp [encChunk]

/-- `Content-Length` values written by `finish()` read back as the number they denote -/
theorem content_length_text_roundtrip (n : Nat) : parseDec (toDec n) = some n := parseDec_toDec n

/-- a body-carrying response with no Content-Length on a connection that is neither chunking nor marked for
    closing does not exist: restated over the state `write_headers` leaves behind, the later writes and
    `finish` (closing the stream) -/
theorem undelimited_closes_at_finish (rq : Req) (code : Nat) (h : HMap)
    (hm : rq.method ≠ .head) (hnb : noBodyStatus code = false) (hcl : hhas h nCL = false)
    (hch : decideChunking rq code h = false) (c : CSt)
    (hd : c.disconnect = discAfterHeaders rq (disconnect rq) code h) (chunks : List Bytes) :
    let c' := chunks.foldl (fun c ch => (cWrite c ch).1) c
    (cFinish c').2 = true ∨ (cFinish c').1.closed = true := by
  intro c'
  have hdis : c.disconnect = true := by
    rcases undelimited_closes rq code h hm hnb hcl with h1 | h1
    · rw [hch] at h1; cases h1
    · rw [hd]; exact h1
  have : ∀ (cs : List Bytes) (c0 : CSt), c0.disconnect = true →
      (cs.foldl (fun c ch => (cWrite c ch).1) c0).disconnect = true := by
    intro cs
    induction cs with
    | nil => intro c0 h0; exact h0
    | cons x xs ih => intro c0 h0; exact ih _ (by rw [(cWrite_keeps c0 x).1]; exact h0)
  exact cFinish_closes c' (this chunks c hdis)

/-- **response_wellframed** (stretch, tie-only): the full wire-level statement.  `Spec.clientParse` applied to
    the bytes of any program run either returns exactly one response with nothing left over, or the run was
    aborted by the framework (stream closed) and the client sees a truncated message.  Checked on every case
    by the oracle; not proved (it needs the header-name canonicity lemmas for `lookup` vs `hhas`). -/
def response_wellframed_goal : Prop :=
  ∀ (rq : Req) (prog : List Op),
    (∀ op ∈ prog, match op with
      | .setHeader n _ | .addHeader n _ | .clearHeader n => C06.isToken (C06.normalize n) = true
      | .setStatus c => 100 ≤ c ∧ c ≤ 999
      | _ => True) →
    let s := run rq prog
    match clientParse (rq.method == .head) (wire s.conn) s.conn.closed with
    | .ok (_, rest) => rest = []
    | .incomplete => s.conn.closed = true
    | .malformed => False

/-! non-vacuity / sanity on concrete programs (tests, not theorems) -/
example : (run { method := .get, v11 := false, conn := .keepAlive } [.write [97], .flush, .write [98]]).conn.closed = true := by decide
example : wire (run { method := .get, v11 := true, conn := .absent } [.write [97, 98], .flush, .write [99]]).conn
    = headBytes 200 [(nServer, [83]), (nCT, vDefaultCT), (nDate, [68]), (nTE, vChunked)]
        ++ [50, 13, 10, 97, 98, 13, 10] ++ [49, 13, 10, 99, 13, 10] ++ lastChunk := by decide
example : decideChunking { method := .get, v11 := true, conn := .absent } 200 [] = true
    ∧ discAfterHeaders { method := .get, v11 := false, conn := .keepAlive } false 200 [] = true := by decide

end TornadoModel.C02
