/- C02 — property theorems (see docs/C02.md for the reading of each clause). -/
import TornadoModel.C02.Lemmas
import TornadoModel.C02.Framing
import TornadoModel.C02.Final
import TornadoModel.C02.Writes
import TornadoModel.C02.Rle
namespace TornadoModel.C02
open TornadoModel.C02.Spec

/-- **chunk wire round trip**: for every list of chunks handed to a chunking connection (`_format_chunk` on each,
    then `finish`'s terminator), the strict chunked reader returns exactly their concatenation and leaves
    exactly the bytes that follow the terminator.  Empty chunks are skipped by the encoder, so they cannot
    terminate the body early. -/
theorem chunk_wire_roundtrip (chunks : List Bytes) (rest : Bytes) :
    readChunked ((chunks.flatMap (encChunk true) ++ lastChunk ++ rest).length + 1)
      (chunks.flatMap (encChunk true) ++ lastChunk ++ rest) = .ok (chunks.flatten, rest) := by
  apply readChunked_encode
  have := nonEmptyCount_le chunks
  simp only [List.length_append]
  omega

/-- a non-chunking connection writes the chunk bytes unchanged -/
theorem identity_coding (c : Bytes) : encChunk false c = c := by simp [encChunk]

/-- `Content-Length` values written by `finish()` read back as the number they denote -/
theorem content_length_text_roundtrip (n : Nat) : parseDec (toDec n) = some n := parseDec_toDec n

/-- a body-carrying response with no Content-Length on a connection that is neither chunking nor marked for
    closing does not exist: restated over the state `write_headers` leaves behind, the later writes and
    `finish` (closing the stream) -/
theorem undelimited_closes_at_finish (rq : Req) (code : Nat) (h : HMap)
    (hm : rq.method ≠ .head) (hnb : noBodyStatus code = false) (hcl : hhas h nCL = false)
    (hch : decideChunking rq code h = false) (c : CSt)
    (hd : c.disconnect = discAfterHeaders rq (disconnect rq) code h) (chunks : List Bytes) :
    let c' := chunks.foldl (fun c ch => (cWrite c ch).1) c
    (cFinish c').2 = true ∨ (cFinish c').1.closed = true := by
  intro c'
  have hdis : c.disconnect = true := by
    rcases undelimited_closes rq code h hm hnb hcl with h1 | h1
    · rw [hch] at h1; cases h1
    · rw [hd]; exact h1
  have : ∀ (cs : List Bytes) (c0 : CSt), c0.disconnect = true →
      (cs.foldl (fun c ch => (cWrite c ch).1) c0).disconnect = true := by
    intro cs
    induction cs with
    | nil => intro c0 h0; exact h0
    | cons x xs ih => intro c0 h0; exact ih _ (by rw [(cWrite_keeps c0 x).1]; exact h0)
  exact cFinish_closes c' (this chunks c hdis)

/-- **response_wellframed** as first stated (no side condition on header *values* or on the abstract request
    parameters).  False for the model — see `response_wellframed_refuted`; the true statement is
    `response_wellframed_partial` / `response_wellframed_exact`. -/
def response_wellframed_goal : Prop :=
  ∀ (rq : Req) (prog : List Op),
    (∀ op ∈ prog, match op with
      | .setHeader n _ | .addHeader n _ | .clearHeader n => C06.isToken (C06.normalize n) = true
      | .setStatus c => 100 ≤ c ∧ c ≤ 999
      | _ => True) →
    let s := run rq prog
    match clientParse (rq.method == .head) (wire s.conn) s.conn.closed with
    | .ok (_, rest) => rest = []
    | .incomplete => s.conn.closed = true
    | .malformed => False

/-- witness: `set_header("Content-Length", "a")` on a keep-alive GET.  `parse_int` raises inside
    `write_headers` after `_headers_written` was set, the error path's `finish()` then writes nothing, and the
    connection stays open: the client reads nothing and is not told the response is over. -/
theorem response_wellframed_refuted : ¬ response_wellframed_goal := by
  intro h
  have h1 := h { method := .get, v11 := true, conn := .absent } [.setHeader nCL [97]]
    (by intro op hop; simp only [List.mem_singleton] at hop; subst hop; decide)
  have e1 : clientParse ((({ method := .get, v11 := true, conn := .absent } : Req).method) == Method.head)
      (wire (run { method := .get, v11 := true, conn := .absent } [.setHeader nCL [97]]).conn)
      (run { method := .get, v11 := true, conn := .absent } [.setHeader nCL [97]]).conn.closed = .incomplete := by
    decide
  have e2 : (run { method := .get, v11 := true, conn := .absent } [.setHeader nCL [97]]).conn.closed = false := by
    decide
  simp only [e1] at h1
  rw [e2] at h1
  cases h1

/-- **response_wellframed_exact** (principal theorem): for every request shape and every handler program whose
    ops satisfy the decidable side condition `opOK` (three-digit statuses, token names, no handler-set
    `Transfer-Encoding`, a handler-set `Content-Length` is one decimal number) and whose abstract
    `Server`/`Date`/`Etag` values are valid header values (`reqOK`), the strict client applied to the bytes the
    model emits (with `eof` = the stream's closed flag)

    * returns **exactly one response with nothing left over**, whose status, reason and header lines are the
      ones `write_headers` serialised (ghost `head`), whose body is the concatenation of the chunks the
      connection accepted (ghost `sent`) — **empty for HEAD / 1xx / 204 / 304** — delimited by
      no-body / chunked / Content-Length / close (`delimOf`); or
    * reports a truncated message *and the stream is closed*, which happens only when the handler declared a
      Content-Length larger than what it wrote (`ShortBody`); or
    * sees no bytes at all on a closed stream (`write_headers` itself aborted on an over-long first chunk).

    Never `malformed`, never trailing bytes, never an open connection with an unfinished message. -/
theorem response_wellframed_exact (rq : Req) (prog : List Op) (hrq : reqOK rq = true)
    (hops : ∀ op ∈ prog, opOK op = true) :
    let s := run rq prog
    (wire s.conn = [] ∧ s.conn.closed = true ∧ s.conn.head = none) ∨
    ∃ code hs, s.conn.head = some (code, hs) ∧
      (clientParse (rq.method == .head) (wire s.conn) s.conn.closed = .ok (expectedResp rq s.conn code hs, [])
       ∨ (clientParse (rq.method == .head) (wire s.conn) s.conn.closed = .incomplete ∧ s.conn.closed = true
           ∧ nbOf rq code = false ∧ ShortBody s.conn hs)) := by
  intro s
  rcases parse_Done rq s (run_Done rq hrq prog hops) with a | ⟨code, hs, h1, _, h2⟩
  · exact Or.inl a
  · exact Or.inr ⟨code, hs, h1, h2⟩

/-- **response_wellframed_partial**: the statement of `response_wellframed_goal` under the side conditions
    `reqOK` / `opOK`. -/
theorem response_wellframed_partial (rq : Req) (prog : List Op) (hrq : reqOK rq = true)
    (hops : ∀ op ∈ prog, opOK op = true) :
    let s := run rq prog
    match clientParse (rq.method == .head) (wire s.conn) s.conn.closed with
    | .ok (_, rest) => rest = []
    | .incomplete => s.conn.closed = true
    | .malformed => False := by
  intro s
  rcases response_wellframed_exact rq prog hrq hops with ⟨a1, a2, _⟩ | ⟨code, hs, _, h | ⟨h, hc, _⟩⟩
  · show match clientParse (rq.method == .head) (wire s.conn) s.conn.closed with
      | .ok (_, rest) => rest = [] | .incomplete => s.conn.closed = true | .malformed => False
    rw [a1, clientParse_nil]; exact a2
  · show match clientParse (rq.method == .head) (wire s.conn) s.conn.closed with
      | .ok (_, rest) => rest = [] | .incomplete => s.conn.closed = true | .malformed => False
    rw [h]
  · show match clientParse (rq.method == .head) (wire s.conn) s.conn.closed with
      | .ok (_, rest) => rest = [] | .incomplete => s.conn.closed = true | .malformed => False
    rw [h]; exact hc

/-- **HEAD / 1xx / 204 / 304 responses carry no body** (wire level): whatever the program writes, flushes or
    finishes with, the bytes on the wire are exactly the serialised head. -/
theorem nobody_wire_is_head (rq : Req) (prog : List Op) (hrq : reqOK rq = true)
    (hops : ∀ op ∈ prog, opOK op = true) (code : Nat) (hs : List (C06.Str × C06.Str))
    (hh : (run rq prog).conn.head = some (code, hs))
    (hnb : (rq.method == .head || noBodyStatus code) = true) :
    wire (run rq prog).conn = headBytes code hs :=
  nobody_Done rq _ (run_Done rq hrq prog hops) code hs hh hnb

/-- **body_is_writes**: the link from the wire back to the *program text*.  For every exception-free ("clean")
    program — `opClean`: body-carrying 3-digit statuses, header values passing `_VALID_HEADER_CHARS` (and
    `HTTPHeaders.add`'s checks), token names other than `Transfer-Encoding` / `Content-Length` — on a non-HEAD
    request without an `If-None-Match` hit, whatever the interleaving of writes and flushes and whichever
    delimitation the framework picks (automatic Content-Length, chunked, close), the strict client reads
    **exactly one response, nothing left over**, whose status is the one in force at the first flush/finish
    (`headStatus`) and whose body is the concatenation of the program's writes up to and including the first
    `finish` (`bodyOf`). -/
theorem body_is_writes (rq : Req) (prog : List Op) (hrq : reqOK rq = true) (hm : rq.method ≠ .head)
    (hinm : rq.inmMatch = false) (hops : ∀ op ∈ prog, opClean op = true) :
    ∃ hs d, clientParse (rq.method == .head) (wire (run rq prog).conn) (run rq prog).conn.closed
      = .ok (⟨headStatus 200 prog, reason (headStatus 200 prog), hs, bodyOf prog, d⟩, []) :=
  run_clean_parse rq hrq hm hinm prog hops

/-! non-vacuity of `body_is_writes`: a program mixing every clean op kind, and what the two functions say of it -/
example : ∀ op ∈ [Op.write [97], .setStatus 404, .setHeader nCT [120], .addHeader nEtag [34, 34], .clearHeader nCT,
      .flush, .write [98], .finish (some [99]), .write [100]], opClean op = true := by decide
example : bodyOf [Op.write [97], .setStatus 404, .flush, .write [98], .finish (some [99]), .write [100]] = [97, 98, 99]
    ∧ headStatus 200 [Op.write [97], .setStatus 404, .flush, .setStatus 500, .finish none] = 404 := by decide

/-! non-vacuity of the side conditions and of each outcome of `response_wellframed_exact` -/
example : reqOK { method := .get, v11 := true, conn := .absent } = true
    ∧ ∀ op ∈ [Op.setStatus 404, .setHeader nCL [51], .addHeader nCT [97], .write [97, 98, 99], .flush, .finish none],
        opOK op = true := by decide
-- chunked, Content-Length, close-delimited and body-less responses all occur
example : delimOf { method := .get, v11 := true, conn := .absent }
    (run { method := .get, v11 := true, conn := .absent } [.write [97], .flush, .write [98]]).conn 200 [] = .chunked := by decide
example : (run { method := .get, v11 := true, conn := .absent } [.write [97], .flush, .write [98]]).conn.sent = [[97], [98]] := by decide
example : (run { method := .get, v11 := false, conn := .keepAlive } [.write [97], .flush]).conn.closed = true := by decide
-- the `ShortBody` outcome occurs (declared 3, wrote 1): truncated and closed
example : clientParse false (wire (run { method := .get, v11 := true, conn := .absent }
      [.setHeader nCL [51], .write [97]]).conn) true = .incomplete
    ∧ (run { method := .get, v11 := true, conn := .absent } [.setHeader nCL [51], .write [97]]).conn.closed = true := by
  decide
-- the "nothing on the wire" outcome occurs (declared 0, first flush carries 1 byte)
example : wire (run { method := .get, v11 := true, conn := .absent } [.setHeader nCL [48], .write [97]]).conn = []
    ∧ (run { method := .get, v11 := true, conn := .absent } [.setHeader nCL [48], .write [97]]).conn.closed = true := by
  decide
-- a 204 with a flushed body: hypotheses of `nobody_wire_is_head` hold
example : (run { method := .get, v11 := true, conn := .absent } [.setStatus 204, .flush, .write [97]]).conn.head.map (·.1)
    = some 204 := by decide

/-- `_format_chunk` never writes to the stream itself and formats every accepted chunk with `encChunk`,
    whatever its size -/
theorem fmtChunk_out (c : CSt) (chunk : Bytes) :
    (fmtChunk c chunk).1.out = c.out ∧ (fmtChunk c chunk).1.chunking = c.chunking ∧
    ∀ d, (fmtChunk c chunk).2 = some d → d = encChunk c.chunking chunk := by
  unfold fmtChunk
  cases hexp : c.expected with
  | none => exact ⟨rfl, rfl, fun d hd => by simpa using hd.symm⟩
  | some r =>
    simp only []
    by_cases hneg : r - (chunk.length : Int) < 0
    · simp [hneg]
    · simp only [hneg, if_false]
      refine ⟨trivial, trivial, fun d hd => ?_⟩
      simpa using hd.symm

theorem fmtChunk_out_eq (c : CSt) (chunk : Bytes) (c1 : CSt) (x : Option Bytes) (h : fmtChunk c chunk = (c1, x)) :
    c1.out = c.out ∧ c1.chunking = c.chunking ∧ ∀ d, x = some d → d = encChunk c.chunking chunk := by
  have hk := fmtChunk_out c chunk
  rw [h] at hk
  exact hk

/-- **the header block precedes the first chunk, whatever its size**: everything `write_headers` puts on a fresh
    stream is ONE write that starts with the serialised head and continues with the chunk-coded (or raw) first
    chunk — there is no chunk size at which chunk bytes could reach the stream before the status line.
    (The seeded change C02-2 wrote chunks of ≥ 64 KiB straight to the stream from `_format_chunk`, i.e. ahead of
    the head; the correspondence check compares exactly this write order.) -/
theorem headers_precede_first_chunk (rq : Req) (c0 : CSt) (code : Nat) (h : HMap) (chunk : Bytes)
    (h0 : c0.out = []) :
    (cWriteHeaders rq c0 code h chunk).1.out = [] ∨
    ∃ hs, (cWriteHeaders rq c0 code h chunk).1.out
      = [headBytes code hs ++ encChunk (cWriteHeaders rq c0 code h chunk).1.chunking chunk] := by
  unfold cWriteHeaders
  simp only
  split
  · left; exact h0
  · split
    · left; exact h0
    · split
      · next hce =>
        right
        have : chunk = [] := by cases chunk <;> simp_all
        subst this
        exact ⟨getAll (finalHeaders rq c0.disconnect (decideChunking rq code h) code h), by simp [h0, encChunk]⟩
      · split
        · next c1 heq =>
          left
          have hk := fmtChunk_out_eq _ _ _ _ heq
          rw [hk.1]; exact h0
        · next c1 data heq =>
          right
          have hk := fmtChunk_out_eq _ _ _ _ heq
          exact ⟨getAll (finalHeaders rq c0.disconnect (decideChunking rq code h) code h),
            by simp only [hk.1, h0, List.nil_append, hk.2.1, hk.2.2 data rfl]⟩

/-- transport of large payloads between harness and driver (`runz` / `parsez`) loses nothing -/
theorem rle_roundtrip (bs : Bytes) : Rle.expand (Rle.compress bs) = bs := Rle.expand_compress bs

/-- a `[rep, pat, n]` descriptor denotes exactly `n` bytes -/
theorem rep_length (pat : Bytes) (n : Nat) (h : pat ≠ []) : (Rle.cyc pat n).length = n := Rle.cyc_length pat n h

example : Rle.cyc [120, 121, 122] 7 = [120, 121, 122, 120, 121, 122, 120] := by decide
example : Rle.compress (List.replicate 40 97 ++ [13, 10] ++ List.replicate 33 98)
    = [.rep [97] 40, .lit [13, 10], .rep [98] 33] := by decide

/-! non-vacuity / sanity on concrete programs (tests, not theorems) -/
example : (run { method := .get, v11 := false, conn := .keepAlive } [.write [97], .flush, .write [98]]).conn.closed = true := by decide
example : wire (run { method := .get, v11 := true, conn := .absent } [.write [97, 98], .flush, .write [99]]).conn
    = headBytes 200 [(nServer, [83]), (nCT, vDefaultCT), (nDate, [68]), (nTE, vChunked)]
        ++ [50, 13, 10, 97, 98, 13, 10] ++ [49, 13, 10, 99, 13, 10] ++ lastChunk := by decide
example : decideChunking { method := .get, v11 := true, conn := .absent } 200 [] = true
    ∧ discAfterHeaders { method := .get, v11 := false, conn := .keepAlive } false 200 [] = true := by decide

end TornadoModel.C02
