import TornadoModel.C02.Spec
namespace TornadoModel.C02

theorem stub : crlf = [13, 10] := rfl

end TornadoModel.C02
