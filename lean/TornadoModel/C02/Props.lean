/- C02 — property theorems (see docs/C02.md for the reading of each clause). -/
import TornadoModel.C02.Lemmas
import TornadoModel.C02.Framing
import TornadoModel.C02.Final
import TornadoModel.C02.Writes
import TornadoModel.C02.Reject
import TornadoModel.C02.Rle
namespace TornadoModel.C02
open TornadoModel.C02.Spec

/-- **chunk wire round trip**: for every list of chunks handed to a chunking connection (`_format_chunk` on each,
    then `finish`'s terminator), the strict chunked reader returns exactly their concatenation and leaves
    exactly the bytes that follow the terminator.  Empty chunks are skipped by the encoder, so they cannot
    terminate the body early. -/
theorem chunk_wire_roundtrip (chunks : List Bytes) (rest : Bytes) :
    readChunked ((chunks.flatMap (encChunk true) ++ lastChunk ++ rest).length + 1)
      (chunks.flatMap (encChunk true) ++ lastChunk ++ rest) = .ok (chunks.flatten, rest) := by
  apply readChunked_encode
  have := nonEmptyCount_le chunks
  simp only [List.length_append]
  omega

/-- a non-chunking connection writes the chunk bytes unchanged -/
theorem identity_coding (c : Bytes) : encChunk false c = c := by simp [encChunk]

/-- `Content-Length` values written by `finish()` read back as the number they denote -/
theorem content_length_text_roundtrip (n : Nat) : parseDec (toDec n) = some n := parseDec_toDec n

/-- a body-carrying response with no Content-Length on a connection that is neither chunking nor marked for
    closing does not exist: restated over the state `write_headers` leaves behind, the later writes and
    `finish` (closing the stream) -/
theorem undelimited_closes_at_finish (rq : Req) (code : Nat) (h : HMap)
    (hm : rq.method ≠ .head) (hnb : noBodyStatus code = false) (hcl : hhas h nCL = false)
    (hch : decideChunking rq code h = false) (c : CSt)
    (hd : c.disconnect = discAfterHeaders rq (disconnect rq) code h) (chunks : List Bytes) :
    let c' := chunks.foldl (fun c ch => (cWrite c ch).1) c
    (cFinish c').2 = true ∨ (cFinish c').1.closed = true := by
  intro c'
  have hdis : c.disconnect = true := by
    rcases undelimited_closes rq code h hm hnb hcl with h1 | h1
    · rw [hch] at h1; cases h1
    · rw [hd]; exact h1
  have : ∀ (cs : List Bytes) (c0 : CSt), c0.disconnect = true →
      (cs.foldl (fun c ch => (cWrite c ch).1) c0).disconnect = true := by
    intro cs
    induction cs with
    | nil => intro c0 h0; exact h0
    | cons x xs ih => intro c0 h0; exact ih _ (by rw [(cWrite_keeps c0 x).1]; exact h0)
  exact cFinish_closes c' (this chunks c hdis)

/-- **the repaired defect** (fix 28dd4cc; formerly `response_wellframed_refuted`): while the headers are unwritten,
    `flush()` — called by the handler or from inside `finish()` — with a Content-Length in the header map that
    `parse_int` rejects raises before anything is changed: `_headers_written` stays false (so the error path can
    still send a complete error response), the write buffer and the connection are untouched.  Before the fix
    the ValueError came out of `write_headers` *after* `_headers_written` was set: the error path's `finish()`
    wrote nothing and the keep-alive connection stayed open with an empty wire. -/
theorem flush_rejects_invalid_content_length (rq : Req) (s : St) (hw : s.headersWritten = false)
    (hv : clValid s.hdrs = false) : hFlush rq s = (s, true) := hFlush_reject rq s hw hv

/-- what the check accepts: no Content-Length at all, or exactly one value that is a non-empty run of ASCII
    digits — i.e. it rejects "", "a", "-1", "+3", " 3", "3,3" and any Content-Length given twice -/
theorem content_length_check_iff (h : HMap) :
    clValid h = true ↔ (C06.dget nCL h = none ∨ ∃ v, C06.dget nCL h = some [v] ∧ v ≠ [] ∧ v.all isDigit = true) :=
  clValid_iff h

/-- … and a flush that passes the check never hits `parse_int`'s ValueError inside `write_headers`: that branch
    of the connection model is dead code behind `hFlush` (every raise of `write_headers` on a fresh connection is
    the over-long first chunk, which closes the stream) -/
theorem accepted_flush_raises_only_closed (rq : Req) (s : St) (w : WF rq s)
    (hv : s.headersWritten = false → clValid s.hdrs = true) :
    (hFlush rq s).1.headersWritten = true ∧ ((hFlush rq s).2 = true → (hFlush rq s).1.conn.closed = true) := by
  have hc : s.headersWritten = true ∨ clValid s.hdrs = true := by
    cases h1 : s.headersWritten with
    | true => exact Or.inl rfl
    | false => exact Or.inr (hv h1)
  rw [hFlush_core rq s hc]
  exact (hFlushCore_spec rq s w hv).2

/-- **the old witness, for every invalid value and request shape**: a handler that only calls
    `set_header("Content-Length", v)` with `v` not a decimal number gets exactly one complete response — the 500
    error page — and nothing else on the wire (non-HEAD requests without an If-None-Match hit; HEAD is covered by
    `response_wellframed_exact`/`nobody_wire_is_head`) -/
theorem invalid_content_length_error_page (rq : Req) (hrq : reqOK rq = true) (hm : rq.method ≠ Method.head)
    (hinm : rq.inmMatch = false) (v : C06.Str) (hv : validValue v = true) (hbad : parseDec v = none) :
    ∃ hs d, clientParse (rq.method == .head) (wire (run rq [.setHeader nCL v]).conn)
        (run rq [.setHeader nCL v]).conn.closed
      = .ok (⟨500, reason 500, hs, errorPage 500, d⟩, []) :=
  run_invalid_cl_error_page rq hrq hm hinm v hv hbad

/-! the former refutation witness `GET HTTP/1.1` keep-alive, `[set_header("Content-Length","a")]` (and its
    negative / multi-valued / HTTP/1.0 keep-alive variants): now a complete 500 response on an open connection -/
set_option maxRecDepth 4096 in
example : (run { method := .get, v11 := true, conn := .absent } [.setHeader nCL [97]]).conn.closed = false
    ∧ ((clientParse false (wire (run { method := .get, v11 := true, conn := .absent } [.setHeader nCL [97]]).conn) false
        matches .ok (⟨500, _, _, _, .contentLength⟩, [])) = true) := by decide
set_option maxRecDepth 4096 in
example : ((clientParse false (wire (run { method := .get, v11 := false, conn := .keepAlive }
      [.setHeader nCL [45, 49], .write [97], .flush, .write [98]]).conn) false
        matches .ok (⟨500, _, _, _, .contentLength⟩, [])) = true) := by decide
set_option maxRecDepth 4096 in
example : ((clientParse false (wire (run { method := .post, v11 := true, conn := .absent }
      [.addHeader nCL [51], .addHeader nCL [51], .finish (some [97, 98, 99])]).conn) false
        matches .ok (⟨500, _, _, _, .contentLength⟩, [])) = true) := by decide
-- a single added value, or a set one with leading zeros, is accepted
set_option maxRecDepth 4096 in
example : ((clientParse false (wire (run { method := .post, v11 := true, conn := .absent }
      [.addHeader nCL [48, 51], .finish (some [97, 98, 99])]).conn) false
        matches .ok (⟨200, _, _, [97, 98, 99], .contentLength⟩, [])) = true) := by decide

/-- **response_wellframed_exact** (principal theorem): for every request shape and every handler program whose
    ops satisfy the decidable side condition `opOK` (three-digit statuses, token names, no handler-set
    `Transfer-Encoding`; header *values* are unrestricted — a handler-set `Content-Length` may be any text, set
    or added any number of times) and whose abstract
    `Server`/`Date`/`Etag` values are valid header values (`reqOK`), the strict client applied to the bytes the
    model emits (with `eof` = the stream's closed flag)

    * returns **exactly one response with nothing left over**, whose status, reason and header lines are the
      ones `write_headers` serialised (ghost `head`), whose body is the concatenation of the chunks the
      connection accepted (ghost `sent`) — **empty for HEAD / 1xx / 204 / 304** — delimited by
      no-body / chunked / Content-Length / close (`delimOf`); or
    * reports a truncated message *and the stream is closed*, which happens only when the handler declared a
      Content-Length larger than what it wrote (`ShortBody`); or
    * sees no bytes at all on a closed stream (`write_headers` itself aborted on an over-long first chunk).

    Never `malformed`, never trailing bytes, never an open connection with an unfinished message. -/
theorem response_wellframed_exact (rq : Req) (prog : List Op) (hrq : reqOK rq = true)
    (hops : ∀ op ∈ prog, opOK op = true) :
    let s := run rq prog
    (wire s.conn = [] ∧ s.conn.closed = true ∧ s.conn.head = none) ∨
    ∃ code hs, s.conn.head = some (code, hs) ∧
      (clientParse (rq.method == .head) (wire s.conn) s.conn.closed = .ok (expectedResp rq s.conn code hs, [])
       ∨ (clientParse (rq.method == .head) (wire s.conn) s.conn.closed = .incomplete ∧ s.conn.closed = true
           ∧ nbOf rq code = false ∧ ShortBody s.conn hs)) := by
  intro s
  rcases parse_Done rq s (run_Done rq hrq prog hops) with a | ⟨code, hs, h1, _, h2⟩
  · exact Or.inl a
  · exact Or.inr ⟨code, hs, h1, h2⟩

/-- **response_wellframed** (the statement as first set as the goal, now at full strength: `opOK` no longer
    restricts header values): the strict client either reads a response with nothing left over, or sees a
    truncated message on a *closed* stream; it never rejects the bytes and is never left waiting on an open
    connection.  (Until fix 28dd4cc this held only for handlers whose Content-Length was one decimal number —
    `response_wellframed_partial` — and the unrestricted statement was refuted by `set_header("Content-Length","a")`.) -/
theorem response_wellframed (rq : Req) (prog : List Op) (hrq : reqOK rq = true)
    (hops : ∀ op ∈ prog, opOK op = true) :
    let s := run rq prog
    match clientParse (rq.method == .head) (wire s.conn) s.conn.closed with
    | .ok (_, rest) => rest = []
    | .incomplete => s.conn.closed = true
    | .malformed => False := by
  intro s
  rcases response_wellframed_exact rq prog hrq hops with ⟨a1, a2, _⟩ | ⟨code, hs, _, h | ⟨h, hc, _⟩⟩
  · show match clientParse (rq.method == .head) (wire s.conn) s.conn.closed with
      | .ok (_, rest) => rest = [] | .incomplete => s.conn.closed = true | .malformed => False
    rw [a1, clientParse_nil]; exact a2
  · show match clientParse (rq.method == .head) (wire s.conn) s.conn.closed with
      | .ok (_, rest) => rest = [] | .incomplete => s.conn.closed = true | .malformed => False
    rw [h]
  · show match clientParse (rq.method == .head) (wire s.conn) s.conn.closed with
      | .ok (_, rest) => rest = [] | .incomplete => s.conn.closed = true | .malformed => False
    rw [h]; exact hc

/-! ### handler-set `Transfer-Encoding` — known finding TE1 (`known_findings/C02.json`)

The property statement quantifies over *any* set/add header op, `opOK` does not: it excludes the name
`Transfer-Encoding`.  On the code as it is the exclusion is necessary — `write_headers` writes its own
`Transfer-Encoding: chunked` over the handler's when it chunk-codes the body, but passes the handler's through when
it does not (Content-Length present, HTTP/1.0, HEAD, 1xx/204/304): the response then announces a coding the body
does not have.  Hence the split `_full` (statement over all token names) / `_partial` (no handler-set
Transfer-Encoding; = `response_wellframed`) / `_refuted` (witness `set_header("Transfer-Encoding","chunked");
write("a")`: `Transfer-Encoding: chunked` + `Content-Length: 1` + raw body — the handler tornado's own test suite
uses to produce an invalid response, `simple_httpclient_test.ChunkedWithContentLengthTest`, which is why this is
recorded rather than repaired). -/

/-- `opOK` without the `Transfer-Encoding` exclusion: three-digit statuses and token header names — the domain
    the property statement quantifies over (non-token names are C07's subject) -/
def opOKfull : Op → Bool
  | .setStatus c => decide (100 ≤ c) && decide (c ≤ 999)
  | .setHeader n _ => C06.isToken (C06.normalize n)
  | .addHeader n _ => C06.isToken (C06.normalize n)
  | _ => true

/-- the op puts a `Transfer-Encoding` value into the handler's header map -/
def setsTE : Op → Bool
  | .setHeader n _ => C06.normalize n == nTE
  | .addHeader n _ => C06.normalize n == nTE
  | _ => false

theorem opOK_eq (op : Op) : opOK op = (opOKfull op && !setsTE op) := by
  cases op <;> simp [opOK, opOKfull, setsTE, bne]

/-- the goal as the property states it: every program over token header names, `Transfer-Encoding` included -/
def response_wellframed_full : Prop :=
  ∀ (rq : Req) (prog : List Op), reqOK rq = true → (∀ op ∈ prog, opOKfull op = true) →
    match clientParse (rq.method == .head) (wire (run rq prog).conn) (run rq prog).conn.closed with
    | .ok (_, rest) => rest = []
    | .incomplete => (run rq prog).conn.closed = true
    | .malformed => False

/-- … holds for every program that does not set `Transfer-Encoding` itself (decidable side condition `setsTE`) -/
theorem response_wellframed_partial (rq : Req) (prog : List Op) (hrq : reqOK rq = true)
    (hops : ∀ op ∈ prog, opOKfull op = true) (hte : ∀ op ∈ prog, setsTE op = false) :
    match clientParse (rq.method == .head) (wire (run rq prog).conn) (run rq prog).conn.closed with
    | .ok (_, rest) => rest = []
    | .incomplete => (run rq prog).conn.closed = true
    | .malformed => False :=
  response_wellframed rq prog hrq (fun op hop => by rw [opOK_eq, hops op hop, hte op hop]; rfl)

/-- the reviewer's witness: `GET / HTTP/1.1`, `set_header("Transfer-Encoding","chunked"); write("a")` -/
def teWitness : List Op := [.setHeader nTE vChunked, .write [97]]

set_option maxRecDepth 8192 in
theorem teWitness_malformed :
    clientParse false (wire (run { method := .get, v11 := true, conn := .absent } teWitness).conn)
      (run { method := .get, v11 := true, conn := .absent } teWitness).conn.closed = .malformed := by decide

set_option maxRecDepth 8192 in
theorem teWitness_ok : ∀ op ∈ teWitness, opOKfull op = true := by decide

set_option maxRecDepth 8192 in
/-- … and fails without it: `GET / HTTP/1.1`, `set_header("Transfer-Encoding","chunked"); write("a")` — `finish()`
    adds `Content-Length: 1`, `write_headers` therefore does not chunk-code and leaves the handler's
    `Transfer-Encoding: chunked` in place; the strict client rejects the message (RFC 9112 §6.3: such a message
    "ought to be handled as an error") -/
theorem response_wellframed_refuted : ¬ response_wellframed_full := by
  intro h
  have h1 := h { method := .get, v11 := true, conn := .absent } teWitness (by decide) teWitness_ok
  have e : (({ method := .get, v11 := true, conn := .absent } : Req).method == Method.head) = false := rfl
  rw [e, teWitness_malformed] at h1
  exact h1

/-- the mechanism, at `write_headers`: the `Transfer-Encoding` value that is serialised is the connection's own
    `chunked` exactly when it chunk-codes the body; otherwise whatever the handler put there survives -/
theorem write_headers_transfer_encoding (rq : Req) (disc chunking : Bool) (code : Nat) (h : HMap) :
    C06.dget nTE (finalHeaders rq disc chunking code h) = if chunking = true then some [vChunked] else C06.dget nTE h := by
  have e1 : ∀ (b : Bool) (g : HMap) (v : C06.Str),
      C06.dget nTE (if b = true then hset g nConn v else g) = C06.dget nTE g := by
    intro b g v
    cases b
    · rfl
    · simp only [if_true]; unfold hset; exact dget_dset_ne _ _ _ _ (by decide)
  unfold finalHeaders
  simp only []
  cases chunking
  · simp only [Bool.false_eq_true, if_false]
    rw [e1, e1]
  · simp only [if_true]
    unfold hset
    rw [norm_nTE, dget_dset_same]

/-! non-vacuity: the side conditions of `_partial` hold for a program using every op kind, and the other faces of
    the finding — a streamed response to an HTTP/1.0 request announces `chunked` / `gzip` over a raw body; on an
    HTTP/1.1 connection that chunk-codes, the handler's value is overwritten and the response is well-formed -/
example : ∀ op ∈ [Op.setStatus 404, .setHeader nCL [51], .addHeader nConn [97], .write [97], .flush, .finish none],
    opOKfull op = true ∧ setsTE op = false := by decide
set_option maxRecDepth 4096 in
example : (clientParse false (wire (run { method := .get, v11 := false, conn := .absent }
      [.addHeader nTE [103, 122, 105, 112], .write [97], .flush]).conn) true matches .malformed) = true := by decide
set_option maxRecDepth 4096 in
example : (clientParse false (wire (run { method := .get, v11 := true, conn := .absent }
      [.setHeader nTE [103, 122, 105, 112], .write [97], .flush, .write [98]]).conn) false
        matches .ok (⟨200, _, _, [97, 98], .chunked⟩, [])) = true := by decide

/-- **HEAD / 1xx / 204 / 304 responses carry no body** (wire level): whatever the program writes, flushes or
    finishes with, the bytes on the wire are exactly the serialised head. -/
theorem nobody_wire_is_head (rq : Req) (prog : List Op) (hrq : reqOK rq = true)
    (hops : ∀ op ∈ prog, opOK op = true) (code : Nat) (hs : List (C06.Str × C06.Str))
    (hh : (run rq prog).conn.head = some (code, hs))
    (hnb : (rq.method == .head || noBodyStatus code) = true) :
    wire (run rq prog).conn = headBytes code hs :=
  nobody_Done rq _ (run_Done rq hrq prog hops) code hs hh hnb

/-- **body_is_writes**: the link from the wire back to the *program text*.  For every exception-free ("clean")
    program — `opClean`: body-carrying 3-digit statuses, header values passing `_VALID_HEADER_CHARS` (and
    `HTTPHeaders.add`'s checks), token names other than `Transfer-Encoding` / `Content-Length` — on a non-HEAD
    request without an `If-None-Match` hit, whatever the interleaving of writes and flushes and whichever
    delimitation the framework picks (automatic Content-Length, chunked, close), the strict client reads
    **exactly one response, nothing left over**, whose status is the one in force at the first flush/finish
    (`headStatus`) and whose body is the concatenation of the program's writes up to and including the first
    `finish` (`bodyOf`). -/
theorem body_is_writes (rq : Req) (prog : List Op) (hrq : reqOK rq = true) (hm : rq.method ≠ .head)
    (hinm : rq.inmMatch = false) (hops : ∀ op ∈ prog, opClean op = true) :
    ∃ hs d, clientParse (rq.method == .head) (wire (run rq prog).conn) (run rq prog).conn.closed
      = .ok (⟨headStatus 200 prog, reason (headStatus 200 prog), hs, bodyOf prog, d⟩, []) :=
  run_clean_parse rq hrq hm hinm prog hops

/-! non-vacuity of `body_is_writes`: a program mixing every clean op kind, and what the two functions say of it -/
example : ∀ op ∈ [Op.write [97], .setStatus 404, .setHeader nCT [120], .addHeader nEtag [34, 34], .clearHeader nCT,
      .flush, .write [98], .finish (some [99]), .write [100]], opClean op = true := by decide
example : bodyOf [Op.write [97], .setStatus 404, .flush, .write [98], .finish (some [99]), .write [100]] = [97, 98, 99]
    ∧ headStatus 200 [Op.write [97], .setStatus 404, .flush, .setStatus 500, .finish none] = 404 := by decide

/-! non-vacuity of the side conditions and of each outcome of `response_wellframed_exact` -/
example : reqOK { method := .get, v11 := true, conn := .absent } = true
    ∧ ∀ op ∈ [Op.setStatus 404, .setHeader nCL [51], .addHeader nCT [97], .write [97, 98, 99], .flush, .finish none,
        .setHeader nCL [97], .setHeader nCL [], .addHeader nCL [45, 49], .addHeader nCL [51]],
        opOK op = true := by decide
-- chunked, Content-Length, close-delimited and body-less responses all occur
example : delimOf { method := .get, v11 := true, conn := .absent }
    (run { method := .get, v11 := true, conn := .absent } [.write [97], .flush, .write [98]]).conn 200 [] = .chunked := by decide
example : (run { method := .get, v11 := true, conn := .absent } [.write [97], .flush, .write [98]]).conn.sent = [[97], [98]] := by decide
example : (run { method := .get, v11 := false, conn := .keepAlive } [.write [97], .flush]).conn.closed = true := by decide
-- the `ShortBody` outcome occurs (declared 3, wrote 1): truncated and closed
example : clientParse false (wire (run { method := .get, v11 := true, conn := .absent }
      [.setHeader nCL [51], .write [97]]).conn) true = .incomplete
    ∧ (run { method := .get, v11 := true, conn := .absent } [.setHeader nCL [51], .write [97]]).conn.closed = true := by
  decide
-- the "nothing on the wire" outcome occurs (declared 0, first flush carries 1 byte)
example : wire (run { method := .get, v11 := true, conn := .absent } [.setHeader nCL [48], .write [97]]).conn = []
    ∧ (run { method := .get, v11 := true, conn := .absent } [.setHeader nCL [48], .write [97]]).conn.closed = true := by
  decide
-- a 204 with a flushed body: hypotheses of `nobody_wire_is_head` hold
example : (run { method := .get, v11 := true, conn := .absent } [.setStatus 204, .flush, .write [97]]).conn.head.map (·.1)
    = some 204 := by decide

/-- `_format_chunk` never writes to the stream itself and formats every accepted chunk with `encChunk`,
    whatever its size -/
theorem fmtChunk_out (c : CSt) (chunk : Bytes) :
    (fmtChunk c chunk).1.out = c.out ∧ (fmtChunk c chunk).1.chunking = c.chunking ∧
    ∀ d, (fmtChunk c chunk).2 = some d → d = encChunk c.chunking chunk := by
  unfold fmtChunk
  cases hexp : c.expected with
  | none => exact ⟨rfl, rfl, fun d hd => by simpa using hd.symm⟩
  | some r =>
    simp only []
    by_cases hneg : r - (chunk.length : Int) < 0
    · simp [hneg]
    · simp only [hneg, if_false]
      refine ⟨trivial, trivial, fun d hd => ?_⟩
      simpa using hd.symm

theorem fmtChunk_out_eq (c : CSt) (chunk : Bytes) (c1 : CSt) (x : Option Bytes) (h : fmtChunk c chunk = (c1, x)) :
    c1.out = c.out ∧ c1.chunking = c.chunking ∧ ∀ d, x = some d → d = encChunk c.chunking chunk := by
  have hk := fmtChunk_out c chunk
  rw [h] at hk
  exact hk

/-- **the header block precedes the first chunk, whatever its size**: everything `write_headers` puts on a fresh
    stream is ONE write that starts with the serialised head and continues with the chunk-coded (or raw) first
    chunk — there is no chunk size at which chunk bytes could reach the stream before the status line.
    (The seeded change C02-2 wrote chunks of ≥ 64 KiB straight to the stream from `_format_chunk`, i.e. ahead of
    the head; the correspondence check compares exactly this write order.) -/
theorem headers_precede_first_chunk (rq : Req) (c0 : CSt) (code : Nat) (h : HMap) (chunk : Bytes)
    (h0 : c0.out = []) :
    (cWriteHeaders rq c0 code h chunk).1.out = [] ∨
    ∃ hs, (cWriteHeaders rq c0 code h chunk).1.out
      = [headBytes code hs ++ encChunk (cWriteHeaders rq c0 code h chunk).1.chunking chunk] := by
  unfold cWriteHeaders
  simp only
  split
  · left; exact h0
  · split
    · left; exact h0
    · split
      · next hce =>
        right
        have : chunk = [] := by cases chunk <;> simp_all
        subst this
        exact ⟨getAll (finalHeaders rq c0.disconnect (decideChunking rq code h) code h), by simp [h0, encChunk]⟩
      · split
        · next c1 heq =>
          left
          have hk := fmtChunk_out_eq _ _ _ _ heq
          rw [hk.1]; exact h0
        · next c1 data heq =>
          right
          have hk := fmtChunk_out_eq _ _ _ _ heq
          exact ⟨getAll (finalHeaders rq c0.disconnect (decideChunking rq code h) code h),
            by simp only [hk.1, h0, List.nil_append, hk.2.1, hk.2.2 data rfl]⟩

/-- transport of large payloads between harness and driver (`runz` / `parsez`) loses nothing -/
theorem rle_roundtrip (bs : Bytes) : Rle.expand (Rle.compress bs) = bs := Rle.expand_compress bs

/-- a `[rep, pat, n]` descriptor denotes exactly `n` bytes -/
theorem rep_length (pat : Bytes) (n : Nat) (h : pat ≠ []) : (Rle.cyc pat n).length = n := Rle.cyc_length pat n h

example : Rle.cyc [120, 121, 122] 7 = [120, 121, 122, 120, 121, 122, 120] := by decide
example : Rle.compress (List.replicate 40 97 ++ [13, 10] ++ List.replicate 33 98)
    = [.rep [97] 40, .lit [13, 10], .rep [98] 33] := by decide

/-! non-vacuity / sanity on concrete programs (tests, not theorems) -/
example : (run { method := .get, v11 := false, conn := .keepAlive } [.write [97], .flush, .write [98]]).conn.closed = true := by decide
example : wire (run { method := .get, v11 := true, conn := .absent } [.write [97, 98], .flush, .write [99]]).conn
    = headBytes 200 [(nServer, [83]), (nCT, vDefaultCT), (nDate, [68]), (nTE, vChunked)]
        ++ [50, 13, 10, 97, 98, 13, 10] ++ [49, 13, 10, 99, 13, 10] ++ lastChunk := by decide
example : decideChunking { method := .get, v11 := true, conn := .absent } 200 [] = true
    ∧ discAfterHeaders { method := .get, v11 := false, conn := .keepAlive } false 200 [] = true := by decide

end TornadoModel.C02
