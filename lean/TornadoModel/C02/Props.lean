/- C02 — property theorems (see docs/C02.md for the reading of each clause). -/
import TornadoModel.C02.Lemmas
namespace TornadoModel.C02
open TornadoModel.C02.Spec

/-- **chunk wire round trip**: for every list of chunks handed to a chunking connection (`_format_chunk` on each,
    then `finish`'s terminator), the strict chunked reader returns exactly their concatenation and leaves
    exactly the bytes that follow the terminator.  Empty chunks are skipped by the encoder, so they cannot
    terminate the body early. -/
theorem chunk_wire_roundtrip (chunks : List Bytes) (rest : Bytes) :
    readChunked ((chunks.flatMap (encChunk true) ++ lastChunk ++ rest).length + 1)
      (chunks.flatMap (encChunk true) ++ lastChunk ++ rest) = .ok (chunks.flatten, rest) := by
  apply readChunked_encode
  have := nonEmptyCount_le chunks
  simp only [List.length_append]
  omega

/-- a non-chunking connection writes the chunk bytes unchanged -/
theorem identity_coding (c : Bytes) : encChunk false c = c := by simp [encChunk]

/-- `Content-Length` values written by `finish()` read back as the number they denote -/
theorem content_length_text_roundtrip (n : Nat) : parseDec (toDec n) = some n := parseDec_toDec n

end TornadoModel.C02
