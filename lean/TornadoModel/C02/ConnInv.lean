/- C02 — connection-level framing invariant: what is on the wire after `write_headers`, any number of
   `write`s and `finish`, in each of the four delimitation modes (no body / chunked / Content-Length / close). -/
import TornadoModel.C02.HeadParse
namespace TornadoModel.C02
open TornadoModel.C02.Spec
open TornadoModel.C06 (Str normalize dget dset ddel isToken stripWs lowerC dkeys)

/-! ### side conditions (decidable) -/

/-- the abstract request parameters are header values `RequestHandler` itself would accept -/
def reqOK (rq : Req) : Bool := validValue rq.serverV && validValue rq.dateV && validValue rq.etagV

/-- the handler does not set `Transfer-Encoding`, uses token header names and three-digit status codes.
    Nothing is demanded of header *values* (in particular a handler-set `Content-Length` may be any text, set or
    added any number of times): since the `fix:` commit 28dd4cc `flush()` rejects an uninterpretable one. -/
def opOK : Op → Bool
  | .setStatus c => decide (100 ≤ c) && decide (c ≤ 999)
  | .setHeader n _ => isToken (normalize n) && (normalize n != nTE)
  | .addHeader n _ => isToken (normalize n) && (normalize n != nTE)
  | _ => true

/-! ### header map: token keys, valid values, no Transfer-Encoding (`HOK`, holds throughout a run);
    a single decimal Content-Length (`CLOK`, established by `flush()`'s check `clValid`) -/

def CLOK (h : HMap) : Prop :=
  ∀ vs, dget nCL h = some vs → ∃ v, vs = [v] ∧ v ≠ [] ∧ v.all isDigit = true

def HOK (h : HMap) : Prop := KeysOK h ∧ dget nTE h = none

theorem norm_nCL : normalize nCL = nCL := by decide
theorem norm_nTE : normalize nTE = nTE := by decide
theorem norm_nConn : normalize nConn = nConn := by decide
theorem norm_nEtag : normalize nEtag = nEtag := by decide

theorem HOK_hset (h : HMap) (n v : Str) (hok : HOK h) (ht : isToken (normalize n) = true)
    (hv : validValue v = true) (hte : normalize n ≠ nTE) : HOK (hset h n v) := by
  refine ⟨KeysOK_hset h hok.1 n v ht hv, ?_⟩
  unfold hset; rw [dget_dset_ne _ _ _ _ hte]; exact hok.2

theorem HOK_hadd (h : HMap) (n v : Str) (hok : HOK h) (ht : isToken (normalize n) = true)
    (hv : validValue v = true) (hte : normalize n ≠ nTE) : HOK (hadd h n v) := by
  refine ⟨KeysOK_hadd h hok.1 n v ht hv, ?_⟩
  unfold hadd; split <;> (rw [dget_dset_ne _ _ _ _ hte]; exact hok.2)

theorem dget_ddel (k x : Str) (h : HMap) : dget x (ddel k h) = if k = x then none else dget x h := by
  by_cases hk : k = x
  · subst hk; simp [C06.dget_ddel_same]
  · simp [hk, C06.dget_ddel_other k x h (fun e => hk e.symm)]

theorem HOK_hdel (h : HMap) (n : Str) (hok : HOK h) : HOK (hdel h n) := by
  refine ⟨KeysOK_hdel h hok.1 n, ?_⟩
  unfold hdel; rw [dget_ddel]; split
  · rfl
  · exact hok.2

theorem HOK_clearRepr (h : HMap) (hok : HOK h) : HOK (clearRepr h) :=
  HOK_hdel _ _ (HOK_hdel _ _ (HOK_hdel _ _ hok))

theorem dget_default (rq : Req) (k : Str) (h1 : nServer ≠ k) (h2 : nCT ≠ k) (h3 : nDate ≠ k) :
    dget k (defaultHdrs rq) = none := by
  simp [defaultHdrs, dget, h1, h2, h3]

theorem HOK_default (rq : Req) (hrq : reqOK rq = true) : HOK (defaultHdrs rq) := by
  unfold reqOK at hrq
  simp only [Bool.and_eq_true] at hrq
  refine ⟨⟨?_, ?_⟩, dget_default rq nTE (by decide) (by decide) (by decide)⟩
  · show ([nServer, nCT, nDate] : List Str).Nodup
    decide
  · intro e he
    simp only [defaultHdrs, List.mem_cons, List.not_mem_nil, or_false] at he
    rcases he with rfl | rfl | rfl
    · exact ⟨(by decide : normalize nServer = nServer), (by decide : isToken nServer = true), by simpa using hrq.1.1⟩
    · exact ⟨(by decide : normalize nCT = nCT), (by decide : isToken nCT = true),
        fun v hv => by simp at hv; subst hv; decide⟩
    · exact ⟨(by decide : normalize nDate = nDate), (by decide : isToken nDate = true), by simpa using hrq.1.2⟩

theorem hhas_nCL (h : HMap) : hhas h nCL = (dget nCL h).isSome := by unfold hhas; rw [norm_nCL]

theorem parseDec_digits (v : Str) (hne : v ≠ []) (hd : v.all isDigit = true) : ∃ n, parseDec v = some n := by
  unfold parseDec
  have : v.isEmpty = false := by cases v <;> simp_all
  simp [this, hd]

theorem parseDec_some (v : Str) (n : Nat) (h : parseDec v = some n) : v ≠ [] ∧ v.all isDigit = true := by
  unfold parseDec at h
  by_cases hc : (v.isEmpty || !v.all isDigit) = true
  · rw [if_pos hc] at h; cases h
  · simp only [Bool.or_eq_true, Bool.not_eq_true', not_or, Bool.not_eq_true, Bool.not_eq_false] at hc
    exact ⟨by intro e; rw [e] at hc; simp at hc, hc.2⟩

/-- `headers["Content-Length"]` (values joined by ",") passes `parse_int` only when there is exactly one value
    and it is a non-empty run of digits -/
theorem joined_digits (vs : List Str) (n : Nat) (h : parseDec (C06.joinWith [44] vs) = some n) :
    ∃ v, vs = [v] ∧ v ≠ [] ∧ v.all isDigit = true := by
  match vs, h with
  | [], h => simp [C06.joinWith, parseDec] at h
  | [v], h => exact ⟨v, rfl, parseDec_some v n h⟩
  | v :: w :: ws, h =>
    exfalso
    have := (parseDec_some _ n h).2
    simp only [C06.joinWith, List.all_append, List.all_cons, Bool.and_eq_true] at this
    exact absurd this.1.2.1 (by decide)

/-- `flush()`'s check establishes the Content-Length part of the header invariant -/
theorem CLOK_of_clValid (h : HMap) (hv : clValid h = true) : CLOK h := by
  intro vs hvs
  unfold clValid at hv
  have hh : hhas h nCL = true := by rw [hhas_nCL, hvs]; rfl
  rw [hh] at hv
  simp only [Bool.not_true, Bool.false_or, Option.isSome_iff_exists] at hv
  obtain ⟨n, hn⟩ := hv
  unfold hget at hn
  rw [norm_nCL, hvs] at hn
  exact joined_digits vs n hn

theorem clValid_absent (h : HMap) (hg : dget nCL h = none) : clValid h = true := by
  unfold clValid; rw [hhas_nCL, hg]; rfl

/-! ### `finalHeaders` -/

theorem HOK_conn (h : HMap) (v : Str) (hv : validValue v = true) (hok : HOK h) :
    HOK (hset h nConn v) ∧ dget nCL (hset h nConn v) = dget nCL h := by
  refine ⟨HOK_hset h nConn v hok (by decide) hv (by decide), ?_⟩
  unfold hset
  exact dget_dset_ne _ _ _ _ (by decide)

theorem HOK_condConn (b : Bool) (h : HMap) (v : Str) (hv : validValue v = true) (hok : HOK h) :
    HOK (if b = true then hset h nConn v else h) ∧ dget nCL (if b = true then hset h nConn v else h) = dget nCL h := by
  cases b
  · exact ⟨hok, rfl⟩
  · exact HOK_conn h v hv hok

theorem finalHeaders_spec (rq : Req) (disc chunking : Bool) (code : Nat) (h : HMap) (hok : HOK h) :
    KeysOK (finalHeaders rq disc chunking code h)
      ∧ dget nCL (finalHeaders rq disc chunking code h) = dget nCL h
      ∧ dget nTE (finalHeaders rq disc chunking code h) = if chunking = true then some [vChunked] else none := by
  unfold finalHeaders
  simp only []
  obtain ⟨a1, b1⟩ := HOK_condConn (rq.v11 && disc) h vClose (by decide) hok
  generalize (if (rq.v11 && disc) = true then hset h nConn vClose else h) = h1 at a1 b1 ⊢
  obtain ⟨a2, b2⟩ := HOK_condConn (!rq.v11 && rq.conn == ConnHdr.keepAlive && http10Delimited rq code h1)
    h1 vKeepAlive (by decide) a1
  generalize (if (!rq.v11 && rq.conn == ConnHdr.keepAlive && http10Delimited rq code h1) = true
    then hset h1 nConn vKeepAlive else h1) = h2 at a2 b2 ⊢
  cases chunking
  · simp only [Bool.false_eq_true, if_false]
    exact ⟨a2.1, b2.trans b1, a2.2⟩
  · simp only [if_true]
    refine ⟨KeysOK_hset h2 a2.1 nTE vChunked (by decide) (by decide), ?_, ?_⟩
    · unfold hset; rw [dget_dset_ne _ _ _ _ (by decide)]; exact b2.trans b1
    · unfold hset; rw [norm_nTE, dget_dset_same]

/-! ### the invariant -/

/-- `write_headers` failed inside `_format_chunk`: nothing on the wire, stream closed -/
def Aborted0 (c : CSt) : Prop := wire c = [] ∧ c.closed = true ∧ c.head = none

def HeadOK (code : Nat) (hs : List (Str × Str)) : Prop :=
  100 ≤ code ∧ code ≤ 999 ∧ ∀ p ∈ hs, isToken p.1 = true ∧ NoCRLF p.2

/-- the client will not read a body: HEAD request or 1xx/204/304 -/
def nbOf (rq : Req) (code : Nat) : Bool := rq.method == .head || noBodyStatus code

/-- no body: the wire is exactly the head -/
def ModeA (rq : Req) (c : CSt) (code : Nat) (hs : List (Str × Str)) : Prop :=
  nbOf rq code = true ∧ wire c = headBytes code hs ∧ c.chunking = false ∧ (c.closed = true ∨ c.expected = some 0)

/-- chunked -/
def ModeB (rq : Req) (c : CSt) (code : Nat) (hs : List (Str × Str)) (fin : Bool) : Prop :=
  nbOf rq code = false ∧ c.chunking = true ∧ c.expected = none ∧
  lookup lcCL (stripHs hs) = [] ∧ lookup lcTE (stripHs hs) = [vChunked] ∧
  ((fin = false ∧ c.closed = false ∧ wire c = headBytes code hs ++ c.sent.flatMap (encChunk true)) ∨
   (fin = true ∧ wire c = headBytes code hs ++ c.sent.flatMap (encChunk true) ++ lastChunk))

/-- Content-Length -/
def ModeC (rq : Req) (c : CSt) (code : Nat) (hs : List (Str × Str)) (fin : Bool) : Prop :=
  nbOf rq code = false ∧ c.chunking = false ∧ lookup lcTE (stripHs hs) = [] ∧
  ∃ v n, lookup lcCL (stripHs hs) = [v] ∧ parseDec v = some n ∧
    wire c = headBytes code hs ++ c.sent.flatten ∧ c.sent.flatten.length ≤ n ∧
    (c.closed = true ∨ c.expected = some ((n : Int) - (c.sent.flatten.length : Int))) ∧
    (fin = true → c.closed = true ∨ c.sent.flatten.length = n)

/-- delimited by closing the connection -/
def ModeD (rq : Req) (c : CSt) (code : Nat) (hs : List (Str × Str)) (fin : Bool) : Prop :=
  nbOf rq code = false ∧ c.chunking = false ∧ lookup lcTE (stripHs hs) = [] ∧ lookup lcCL (stripHs hs) = [] ∧
  c.expected = none ∧ c.disconnect = true ∧ wire c = headBytes code hs ++ c.sent.flatten ∧
  (fin = true → c.closed = true)

def Written (rq : Req) (c : CSt) (fin : Bool) : Prop :=
  ∃ code hs, c.head = some (code, hs) ∧ HeadOK code hs ∧
    (ModeA rq c code hs ∨ ModeB rq c code hs fin ∨ ModeC rq c code hs fin ∨ ModeD rq c code hs fin)

/-! ### `write` -/

theorem wire_out (c : CSt) (x : Bytes) : ({ c with out := c.out ++ [x] } : CSt).out.flatten = wire c ++ x := by
  simp [wire]

theorem cWrite_closed (c : CSt) (ch : Bytes) (h : c.closed = true) : cWrite c ch = (c, false) := by
  simp [cWrite, h]

theorem cWrite_none (c : CSt) (ch : Bytes) (h : c.closed = false) (he : c.expected = none) :
    cWrite c ch = ({ c with sent := c.sent ++ [ch], out := c.out ++ [encChunk c.chunking ch] }, false) := by
  simp [cWrite, fmtChunk, h, he]

theorem cWrite_over (c : CSt) (ch : Bytes) (r : Int) (h : c.closed = false) (he : c.expected = some r)
    (hr : r - (ch.length : Int) < 0) :
    cWrite c ch = ({ c with expected := some (r - (ch.length : Int)), closed := true }, true) := by
  simp [cWrite, fmtChunk, h, he, hr]

theorem cWrite_fits (c : CSt) (ch : Bytes) (r : Int) (h : c.closed = false) (he : c.expected = some r)
    (hr : ¬ r - (ch.length : Int) < 0) :
    cWrite c ch = ({ c with expected := some (r - (ch.length : Int)), sent := c.sent ++ [ch],
                            out := c.out ++ [encChunk c.chunking ch] }, false) := by
  simp [cWrite, fmtChunk, h, he, hr]

theorem cWrite_Written (rq : Req) (c : CSt) (ch : Bytes) (w : Written rq c false) :
    Written rq (cWrite c ch).1 false ∧ ((cWrite c ch).2 = true → (cWrite c ch).1.closed = true) := by
  by_cases hcl : c.closed = true
  · rw [cWrite_closed c ch hcl]; exact ⟨w, fun h => by cases h⟩
  have hcl' : c.closed = false := by simpa using hcl
  obtain ⟨code, hs, hh, hok, hm⟩ := w
  rcases hm with ⟨nb, hw, hch, hx⟩ | ⟨nb, hch, hex, l1, l2, hx⟩ | ⟨nb, hch, l2, v, n, l1, hp, hw, hle, hx, _⟩
      | ⟨nb, hch, l2, l1, hex, hd, hw, _⟩
  · -- no body: expected = some 0
    have hex : c.expected = some 0 := by rcases hx with h | h; exact absurd h hcl; exact h
    by_cases hlen : (0 : Int) - (ch.length : Int) < 0
    · rw [cWrite_over c ch 0 hcl' hex hlen]
      exact ⟨⟨code, hs, hh, hok, Or.inl ⟨nb, hw, hch, Or.inl rfl⟩⟩, fun _ => rfl⟩
    · rw [cWrite_fits c ch 0 hcl' hex hlen]
      have hnil : ch = [] := by
        have : ch.length = 0 := by omega
        exact List.eq_nil_of_length_eq_zero this
      refine ⟨⟨code, hs, hh, hok, Or.inl ⟨nb, ?_, hch, Or.inr ?_⟩⟩, fun h => by cases h⟩
      · show (c.out ++ [encChunk c.chunking ch]).flatten = _
        rw [hnil, hch]; simp [encChunk]; exact hw
      · show some ((0 : Int) - (ch.length : Int)) = some 0
        rw [hnil]; rfl
  · -- chunked
    rcases hx with ⟨_, _, hw⟩ | ⟨h, _⟩
    · rw [cWrite_none c ch hcl' hex]
      refine ⟨⟨code, hs, hh, hok, Or.inr (Or.inl ⟨nb, hch, hex, l1, l2, Or.inl ⟨rfl, hcl', ?_⟩⟩)⟩, fun h => by cases h⟩
      show (c.out ++ [encChunk c.chunking ch]).flatten = _ ++ (c.sent ++ [ch]).flatMap (encChunk true)
      rw [hch]
      simp only [List.flatten_append, List.flatten_cons, List.flatten_nil, List.append_nil,
        List.flatMap_append, List.flatMap_cons, List.flatMap_nil]
      rw [← List.append_assoc, ← hw]; rfl
    · cases h
  · -- Content-Length
    have hex : c.expected = some ((n : Int) - (c.sent.flatten.length : Int)) := by
      rcases hx with h | h; exact absurd h hcl; exact h
    by_cases hlen : ((n : Int) - (c.sent.flatten.length : Int)) - (ch.length : Int) < 0
    · rw [cWrite_over c ch _ hcl' hex hlen]
      exact ⟨⟨code, hs, hh, hok, Or.inr (Or.inr (Or.inl ⟨nb, hch, l2, v, n, l1, hp, hw, hle, Or.inl rfl,
        fun h => by cases h⟩))⟩, fun _ => rfl⟩
    · rw [cWrite_fits c ch _ hcl' hex hlen]
      refine ⟨⟨code, hs, hh, hok, Or.inr (Or.inr (Or.inl ⟨nb, hch, l2, v, n, l1, hp, ?_, ?_, Or.inr ?_,
        fun h => by cases h⟩))⟩, fun h => by cases h⟩
      · show (c.out ++ [encChunk c.chunking ch]).flatten = _ ++ (c.sent ++ [ch]).flatten
        rw [hch]
        simp only [List.flatten_append, List.flatten_cons, List.flatten_nil, List.append_nil, encChunk,
          Bool.false_and, Bool.false_eq_true, if_false]
        rw [← List.append_assoc, ← hw]; rfl
      · show (c.sent ++ [ch]).flatten.length ≤ n
        simp only [List.flatten_append, List.flatten_cons, List.flatten_nil, List.append_nil, List.length_append]
        omega
      · show some (((n : Int) - (c.sent.flatten.length : Int)) - (ch.length : Int)) = some ((n : Int) - ((c.sent ++ [ch]).flatten.length : Int))
        simp only [List.flatten_append, List.flatten_cons, List.flatten_nil, List.append_nil, List.length_append]
        congr 1; omega
  · -- until close
    rw [cWrite_none c ch hcl' hex]
    refine ⟨⟨code, hs, hh, hok, Or.inr (Or.inr (Or.inr ⟨nb, hch, l2, l1, hex, hd, ?_, fun h => by cases h⟩))⟩,
      fun h => by cases h⟩
    show (c.out ++ [encChunk c.chunking ch]).flatten = _ ++ (c.sent ++ [ch]).flatten
    rw [hch]
    simp only [List.flatten_append, List.flatten_cons, List.flatten_nil, List.append_nil, encChunk,
      Bool.false_and, Bool.false_eq_true, if_false]
    rw [← List.append_assoc, ← hw]; rfl

theorem cWrite_Aborted0 (c : CSt) (ch : Bytes) (a : Aborted0 c) : cWrite c ch = (c, false) :=
  cWrite_closed c ch a.2.1

end TornadoModel.C02
