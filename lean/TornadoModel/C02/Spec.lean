/-
C02 — the specification side: a strict HTTP/1.1 *client* response reader, `clientParse`.

It is given the bytes the server wrote, whether the request was a HEAD, and whether the server closed the
connection after those bytes (`eof`).  It accepts exactly:

  status-line  = "HTTP/1." DIGIT SP 3DIGIT SP reason CRLF          (no bare CR / LF anywhere in a line)
  header-field = token ":" OWS value OWS CRLF                        (no obs-fold), then an empty line
  body         = nothing            when HEAD or status 1xx / 204 / 304
               | chunked            when Transfer-Encoding is exactly "chunked" (and no Content-Length):
                                    1*HEXDIG CRLF data CRLF … "0" CRLF CRLF  (no extensions, no trailers)
               | Content-Length     all Content-Length values equal decimal numbers; exactly that many bytes
               | until close        otherwise; complete only when `eof`

and returns the response plus the bytes left over after it.  `incomplete` = a client would keep waiting
(or, at `eof`, sees a truncated message); `malformed` = a client must reject.
Header values are returned with optional whitespace stripped.
-/
import TornadoModel.C02.Model
namespace TornadoModel.C02.Spec
open TornadoModel.C02
open TornadoModel.C06 (isToken splitColon stripWs lowerC)

inductive R (α : Type) where
  | ok (a : α)
  | incomplete
  | malformed
  deriving Repr, BEq, DecidableEq

inductive Delim where | noBody | contentLength | chunked | untilClose
  deriving Repr, BEq, DecidableEq

structure Resp where
  status : Nat
  reason : Bytes
  headers : List (Bytes × Bytes)
  body : Bytes
  delim : Delim
  deriving Repr, BEq, DecidableEq

/-- one line up to CRLF; a CR not followed by LF, or a bare LF, is malformed -/
def readLine : Bytes → R (Bytes × Bytes)
  | [] => .incomplete
  | c :: rest =>
    if c = 13 then
      match rest with
      | [] => .incomplete
      | d :: r => if d = 10 then .ok ([], r) else .malformed
    else if c = 10 then .malformed
    else match readLine rest with
      | .ok (l, r) => .ok (c :: l, r)
      | .incomplete => .incomplete
      | .malformed => .malformed

def parseStatusLine (l : Bytes) : Option (Nat × Bytes) :=
  match l with
  | 72 :: 84 :: 84 :: 80 :: 47 :: 49 :: 46 :: v :: 32 :: a :: b :: c :: 32 :: reason =>
    if isDigit v && isDigit a && isDigit b && isDigit c then
      some ((a - 48) * 100 + (b - 48) * 10 + (c - 48), reason)
    else none
  | _ => none

def parseHeaderLine (l : Bytes) : Option (Bytes × Bytes) :=
  match splitColon l with
  | none => none
  | some (name, value) => if isToken name then some (name, stripWs value) else none

/-- header lines up to the empty line (fuel ≥ number of bytes suffices: every line consumes ≥ 2 bytes) -/
def readHeaders : Nat → Bytes → R (List (Bytes × Bytes) × Bytes)
  | 0, _ => .incomplete
  | fuel + 1, bs =>
    match readLine bs with
    | .incomplete => .incomplete
    | .malformed => .malformed
    | .ok ([], rest) => .ok ([], rest)
    | .ok (l, rest) =>
      match parseHeaderLine l with
      | none => .malformed
      | some p =>
        match readHeaders fuel rest with
        | .ok (ps, r) => .ok (p :: ps, r)
        | .incomplete => .incomplete
        | .malformed => .malformed

def ciEq (a b : Bytes) : Bool := a.map lowerC == b.map lowerC

/-- all values of the header `name` (case-insensitive) -/
def lookup (name : Bytes) (hs : List (Bytes × Bytes)) : List Bytes :=
  (hs.filter (fun p => ciEq p.1 name)).map (·.2)

def hexVal (c : Nat) : Option Nat :=
  if 48 ≤ c && c ≤ 57 then some (c - 48)
  else if 97 ≤ c && c ≤ 102 then some (c - 87)
  else if 65 ≤ c && c ≤ 70 then some (c - 55)
  else none

/-- `1*HEXDIG` -/
def parseHex (s : Bytes) : Option Nat :=
  if s.isEmpty then none
  else s.foldl (fun acc c => match acc, hexVal c with
    | some a, some d => some (a * 16 + d)
    | _, _ => none) (some 0)

/-- chunked body → (decoded data, rest) (fuel ≥ number of bytes suffices: every chunk consumes ≥ 3 bytes) -/
def readChunked : Nat → Bytes → R (Bytes × Bytes)
  | 0, _ => .incomplete
  | fuel + 1, bs =>
    match readLine bs with
    | .incomplete => .incomplete
    | .malformed => .malformed
    | .ok (l, rest) =>
      match parseHex l with
      | none => .malformed
      | some 0 =>
        -- last-chunk; no trailers accepted: the next line must be empty
        match readLine rest with
        | .ok ([], r) => .ok ([], r)
        | .ok _ => .malformed
        | .incomplete => .incomplete
        | .malformed => .malformed
      | some n =>
        if rest.length < n + 2 then .incomplete
        else if (rest.drop n).take 2 != crlf then .malformed
        else match readChunked fuel (rest.drop (n + 2)) with
          | .ok (d, r) => .ok (rest.take n ++ d, r)
          | .incomplete => .incomplete
          | .malformed => .malformed

def lcCL : List Nat := [99, 111, 110, 116, 101, 110, 116, 45, 108, 101, 110, 103, 116, 104]  -- 'content-length'
def lcTE : List Nat := [116, 114, 97, 110, 115, 102, 101, 114, 45, 101, 110, 99, 111, 100, 105, 110, 103]  -- 'transfer-encoding'

def allEq : List Bytes → Bool
  | [] => true
  | v :: vs => vs.all (· == v)

/-- the strict client -/
def clientParse (isHead : Bool) (bs : Bytes) (eof : Bool) : R (Resp × Bytes) :=
  match readLine bs with
  | .incomplete => .incomplete
  | .malformed => .malformed
  | .ok (sl, rest) =>
    match parseStatusLine sl with
    | none => .malformed
    | some (status, reason) =>
      match readHeaders (rest.length + 1) rest with
      | .incomplete => .incomplete
      | .malformed => .malformed
      | .ok (hs, body) =>
        let mk (b : Bytes) (d : Delim) : Resp := ⟨status, reason, hs, b, d⟩
        let cls := lookup lcCL hs
        let tes := lookup lcTE hs
        if isHead || noBodyStatus status then .ok (mk [] .noBody, body)
        else if !tes.isEmpty then
          if !cls.isEmpty then .malformed
          else if !(tes.length == 1 && tes.all (ciEq · vChunked)) then .malformed
          else match readChunked (body.length + 1) body with
            | .ok (d, r) => .ok (mk d .chunked, r)
            | .incomplete => .incomplete
            | .malformed => .malformed
        else match cls with
          | [] => if eof then .ok (mk body .untilClose, []) else .incomplete
          | v :: vs =>
            if !allEq (v :: vs) then .malformed
            else match parseDec v with
              | none => .malformed
              | some n =>
                if body.length < n then .incomplete
                else .ok (mk (body.take n) .contentLength, body.drop n)

end TornadoModel.C02.Spec
