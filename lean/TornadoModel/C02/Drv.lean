/- C02 driver: `C02 run <req> <prog>` (model), `C02 parse <isHead> <wire> <eof>` (Spec.clientParse),
   `C02 chunks [x…]` (chunk encoding of a chunk list, then Spec.readChunked) -/
import TornadoModel.Base.Wire
import TornadoModel.C02.Spec
namespace TornadoModel.C02.Drv
open TornadoModel TornadoModel.Wire TornadoModel.C02

def decMethod : V → Option Method
  | .atom "get" => some .get | .atom "head" => some .head | .atom "post" => some .post | _ => none

def decConn : V → Option ConnHdr
  | .atom "absent" => some .absent | .atom "keepAlive" => some .keepAlive
  | .atom "close" => some .close | .atom "other" => some .other | _ => none

def decReq (v : V) : Option Req := do
  match ← v.list? with
  | [m, v11, c, inm] => pure { method := ← decMethod m, v11 := ← v11.bool?, conn := ← decConn c, inmMatch := ← inm.bool? }
  | _ => none

def decOp (v : V) : Option Op := do
  match ← v.list? with
  | [.atom "status", c] => pure (.setStatus (← c.nat?))
  | [.atom "set", n, x] => pure (.setHeader (← n.cps?) (← x.cps?))
  | [.atom "add", n, x] => pure (.addHeader (← n.cps?) (← x.cps?))
  | [.atom "clear", n] => pure (.clearHeader (← n.cps?))
  | [.atom "write", b] => pure (.write (← b.byteNats?))
  | [.atom "flush"] => pure .flush
  | [.atom "finish", b] => if b.isNone then pure (.finish none) else pure (.finish (some (← b.byteNats?)))
  | _ => none

def encDelim : Spec.Delim → V
  | .noBody => .atom "noBody" | .contentLength => .atom "contentLength"
  | .chunked => .atom "chunked" | .untilClose => .atom "untilClose"

def encParse : Spec.R (Spec.Resp × Bytes) → List V
  | .incomplete => [.atom "incomplete"]
  | .malformed => [.atom "malformed"]
  | .ok (r, rest) =>
    [.atom "response", .int r.status, V.ofByteNats r.reason,
     .list (r.headers.map (fun (n, v) => .list [V.ofByteNats n, V.ofByteNats v])),
     V.ofByteNats r.body, encDelim r.delim, V.ofByteNats rest]

def handle (toks : List String) : String :=
  match toks.mapM V.parse with
  | none => err "bad-arg"
  | some args =>
    match args with
    | [.atom "run", rq, prog] =>
      match decReq rq, prog.list? >>= (·.mapM decOp) with
      | some rq, some ops =>
        let s := run rq ops
        ok [V.ofByteNats (wire s.conn), V.ofBool s.conn.closed]
      | _, _ => err "bad-op"
    | [.atom "parse", hd, w, eof] =>
      match hd.bool?, w.byteNats?, eof.bool? with
      | some hd, some w, some eof => ok (encParse (Spec.clientParse hd w eof))
      | _, _, _ => err "bad-arg"
    | [.atom "chunks", cs] =>
      match cs.list? >>= (·.mapM V.byteNats?) with
      | some cs =>
        let w := cs.flatMap (encChunk true) ++ lastChunk
        match Spec.readChunked (w.length + 1) w with
        | .ok (d, r) => ok [V.ofByteNats w, V.ofByteNats d, V.ofByteNats r]
        | .incomplete => ok [V.ofByteNats w, .atom "incomplete"]
        | .malformed => ok [V.ofByteNats w, .atom "malformed"]
      | none => err "bad-arg"
    | _ => err "bad-cmd"

end TornadoModel.C02.Drv
