/- C02 driver: `C02 run <req> <prog>` (model), `C02 parse <isHead> <wire> <eof>` (Spec.clientParse),
   `C02 chunks [x…]` (chunk encoding of a chunk list, then Spec.readChunked).
   `runz` / `parsez` are `run` / `parse` for large payloads: every byte-string argument may be a descriptor
   (`Rle`: `x…` | `[rep,x<pat>,n]` | `[cat,B,…]`, expanded here before the model / spec sees it) and every
   byte string in the reply is sent as `Rle.compress` of it (expanded by the harness before comparing). -/
import TornadoModel.Base.Wire
import TornadoModel.C02.Spec
import TornadoModel.C02.Rle
namespace TornadoModel.C02.Drv
open TornadoModel TornadoModel.Wire TornadoModel.C02

def decMethod : V → Option Method
  | .atom "get" => some .get | .atom "head" => some .head | .atom "post" => some .post | _ => none

def decConn : V → Option ConnHdr
  | .atom "absent" => some .absent | .atom "keepAlive" => some .keepAlive
  | .atom "close" => some .close | .atom "other" => some .other | _ => none

def decReq (v : V) : Option Req := do
  match ← v.list? with
  | [m, v11, c, inm] => pure { method := ← decMethod m, v11 := ← v11.bool?, conn := ← decConn c, inmMatch := ← inm.bool? }
  | _ => none

/-- a byte-string argument: literal or `Rle` descriptor -/
partial def decB : V → Option Bytes
  | .bytes b => some (b.map UInt8.toNat)
  | .list [.atom "rep", .bytes p, .int n] => if 0 ≤ n then some (Rle.cyc (p.map UInt8.toNat) n.toNat) else none
  | .list (.atom "cat" :: parts) => (parts.mapM decB).map List.flatten
  | _ => none

def encSeg : Rle.Seg → V
  | .lit b => V.ofByteNats b
  | .rep p n => .list [.atom "rep", V.ofByteNats p, .int n]

/-- a byte string of the reply: short ones literally, long ones as `Rle.compress` -/
def encB (bs : Bytes) : V :=
  if bs.length < 256 then V.ofByteNats bs
  else match Rle.compress bs with
    | [.lit b] => V.ofByteNats b
    | segs => .list (.atom "cat" :: segs.map encSeg)

def decOp (v : V) : Option Op := do
  match ← v.list? with
  | [.atom "status", c] => pure (.setStatus (← c.nat?))
  | [.atom "set", n, x] => pure (.setHeader (← n.cps?) (← x.cps?))
  | [.atom "add", n, x] => pure (.addHeader (← n.cps?) (← x.cps?))
  | [.atom "clear", n] => pure (.clearHeader (← n.cps?))
  | [.atom "write", b] => pure (.write (← decB b))
  | [.atom "flush"] => pure .flush
  | [.atom "finish", b] => if b.isNone then pure (.finish none) else pure (.finish (some (← decB b)))
  | _ => none

def encDelim : Spec.Delim → V
  | .noBody => .atom "noBody" | .contentLength => .atom "contentLength"
  | .chunked => .atom "chunked" | .untilClose => .atom "untilClose"

def encParse : Spec.R (Spec.Resp × Bytes) → List V
  | .incomplete => [.atom "incomplete"]
  | .malformed => [.atom "malformed"]
  | .ok (r, rest) =>
    [.atom "response", .int r.status, V.ofByteNats r.reason,
     .list (r.headers.map (fun (n, v) => .list [V.ofByteNats n, V.ofByteNats v])),
     V.ofByteNats r.body, encDelim r.delim, V.ofByteNats rest]

def encParseZ : Spec.R (Spec.Resp × Bytes) → List V
  | .incomplete => [.atom "incomplete"]
  | .malformed => [.atom "malformed"]
  | .ok (r, rest) =>
    [.atom "response", .int r.status, V.ofByteNats r.reason,
     .list (r.headers.map (fun (n, v) => .list [V.ofByteNats n, V.ofByteNats v])),
     encB r.body, encDelim r.delim, encB rest]

def handle (toks : List String) : String :=
  match toks.mapM V.parse with
  | none => err "bad-arg"
  | some args =>
    match args with
    | [.atom "run", rq, prog] =>
      match decReq rq, prog.list? >>= (·.mapM decOp) with
      | some rq, some ops =>
        let s := run rq ops
        ok [V.ofByteNats (wire s.conn), V.ofBool s.conn.closed]
      | _, _ => err "bad-op"
    | [.atom "runz", rq, prog] =>
      match decReq rq, prog.list? >>= (·.mapM decOp) with
      | some rq, some ops =>
        let s := run rq ops
        ok [encB (wire s.conn), V.ofBool s.conn.closed]
      | _, _ => err "bad-op"
    | [.atom "parsez", hd, w, eof] =>
      match hd.bool?, decB w, eof.bool? with
      | some hd, some w, some eof => ok (encParseZ (Spec.clientParse hd w eof))
      | _, _, _ => err "bad-arg"
    | [.atom "parse", hd, w, eof] =>
      match hd.bool?, w.byteNats?, eof.bool? with
      | some hd, some w, some eof => ok (encParse (Spec.clientParse hd w eof))
      | _, _, _ => err "bad-arg"
    | [.atom "chunks", cs] =>
      match cs.list? >>= (·.mapM V.byteNats?) with
      | some cs =>
        let w := cs.flatMap (encChunk true) ++ lastChunk
        match Spec.readChunked (w.length + 1) w with
        | .ok (d, r) => ok [V.ofByteNats w, V.ofByteNats d, V.ofByteNats r]
        | .incomplete => ok [V.ofByteNats w, .atom "incomplete"]
        | .malformed => ok [V.ofByteNats w, .atom "malformed"]
      | none => err "bad-arg"
    | _ => err "bad-cmd"

end TornadoModel.C02.Drv
