/- C02 — helper lemmas: numbers as text, line reader, chunked round trip. -/
import TornadoModel.C02.Spec
namespace TornadoModel.C02
open TornadoModel.C02.Spec

/-! ### digits -/

theorem digitsAux_ne_nil (base : Nat) (enc : Nat → Nat) (fuel n : Nat) :
    digitsAux base enc (fuel + 1) n ≠ [] := by
  unfold digitsAux
  split <;> simp

theorem digitsAux_all (base : Nat) (enc : Nat → Nat) (P : Nat → Prop) (hb : 0 < base)
    (hP : ∀ d, d < base → P (enc d)) : ∀ fuel n, ∀ c ∈ digitsAux base enc fuel n, P c := by
  intro fuel
  induction fuel with
  | zero => intro n c hc; simp [digitsAux] at hc
  | succ f ih =>
    intro n c hc
    unfold digitsAux at hc
    split at hc
    · simp at hc; subst hc; exact hP _ (by assumption)
    · simp at hc
      rcases hc with hc | hc
      · exact ih _ _ hc
      · subst hc; exact hP _ (Nat.mod_lt _ hb)

theorem digitsAux_foldl (base : Nat) (enc val : Nat → Nat) (hb : 1 < base)
    (hv : ∀ d, d < base → val (enc d) = d) :
    ∀ fuel n, n < fuel → (digitsAux base enc fuel n).foldl (fun a d => a * base + val d) 0 = n := by
  intro fuel
  induction fuel with
  | zero => intro n h; omega
  | succ f ih =>
    intro n h
    unfold digitsAux
    split
    · simp [hv _ (by assumption)]
    · rename_i hnb
      have hlt : n / base < f := by
        have : n / base < n := Nat.div_lt_self (by omega) hb
        omega
      simp [List.foldl_append, ih _ hlt, hv _ (Nat.mod_lt _ (by omega))]
      exact Nat.div_add_mod' n base

theorem toDec_ne_nil (n : Nat) : toDec n ≠ [] := digitsAux_ne_nil _ _ _ _

theorem toDec_digits (n : Nat) : ∀ c ∈ toDec n, isDigit c = true := by
  apply digitsAux_all 10 (48 + ·) (fun c => isDigit c = true) (by omega)
  intro d hd
  simp [isDigit]; omega

theorem parseDec_toDec (n : Nat) : parseDec (toDec n) = some n := by
  unfold parseDec
  have h1 : (toDec n).isEmpty = false := by
    cases h : toDec n with
    | nil => exact absurd h (toDec_ne_nil n)
    | cons _ _ => rfl
  have h2 : (toDec n).all isDigit = true := List.all_eq_true.mpr (toDec_digits n)
  simp only [h1, h2, Bool.not_true, Bool.or_self, Bool.false_eq_true, if_false]
  congr 1
  exact digitsAux_foldl 10 (48 + ·) (· - 48) (by omega) (by intro d _; simp) (n + 1) n (by omega)

theorem hexVal_hexDigit (d : Nat) (h : d < 16) : hexVal (hexDigit d) = some d := by
  unfold hexDigit hexVal
  by_cases hd : d < 10
  · have h1 : 48 ≤ 48 + d ∧ 48 + d ≤ 57 := by omega
    simp [hd, h1]
  · have h1 : ¬ (48 ≤ 87 + d ∧ 87 + d ≤ 57) := by omega
    have h2 : 97 ≤ 87 + d ∧ 87 + d ≤ 102 := by omega
    simp [hd, h1, h2]

def hexStep (acc : Option Nat) (c : Nat) : Option Nat :=
  match acc, hexVal c with
  | some a, some d => some (a * 16 + d)
  | _, _ => none

theorem hexfold_digits : ∀ fuel n, n < fuel →
    (digitsAux 16 hexDigit fuel n).foldl hexStep (some 0) = some n := by
  intro fuel
  induction fuel with
  | zero => intro n h; omega
  | succ f ih =>
    intro n h
    unfold digitsAux
    split
    · simp [hexStep, hexVal_hexDigit _ (by assumption)]
    · have hlt : n / 16 < f := by
        have : n / 16 < n := Nat.div_lt_self (by omega) (by omega)
        omega
      simp [List.foldl_append, ih _ hlt, hexStep, hexVal_hexDigit _ (Nat.mod_lt n (by omega : 0 < 16))]
      exact Nat.div_add_mod' n 16

theorem parseHex_toHex (n : Nat) : parseHex (toHex n) = some n := by
  unfold parseHex
  have h1 : (toHex n).isEmpty = false := by
    cases h : toHex n with
    | nil => exact absurd h (digitsAux_ne_nil _ _ _ _)
    | cons _ _ => rfl
  simp only [h1, Bool.false_eq_true, if_false]
  exact hexfold_digits (n + 1) n (by omega)

/-! ### lines -/

def NoCRLF (l : Bytes) : Prop := ∀ c ∈ l, c ≠ 13 ∧ c ≠ 10

theorem readLine_line (l rest : Bytes) (h : NoCRLF l) :
    readLine (l ++ 13 :: 10 :: rest) = .ok (l, rest) := by
  induction l with
  | nil => simp [readLine]
  | cons c cs ih =>
    have hc := h c (by simp)
    have hcs : NoCRLF cs := fun x hx => h x (by simp [hx])
    simp [readLine, hc.1, hc.2, ih hcs]

theorem toHex_noCRLF (n : Nat) : NoCRLF (toHex n) := by
  apply digitsAux_all 16 hexDigit (fun c => c ≠ 13 ∧ c ≠ 10) (by omega)
  intro d hd
  unfold hexDigit
  split <;> omega

theorem toDec_noCRLF (n : Nat) : NoCRLF (toDec n) := by
  apply digitsAux_all 10 (48 + ·) (fun c => c ≠ 13 ∧ c ≠ 10) (by omega)
  intro d hd
  constructor <;> omega

/-! ### chunked coding -/

theorem readChunked_last (fuel : Nat) (rest : Bytes) :
    readChunked (fuel + 1) (lastChunk ++ rest) = .ok ([], rest) := by
  have h1 : readLine (lastChunk ++ rest) = .ok ([48], 13 :: 10 :: rest) := by
    simp [lastChunk, readLine]
  have h2 : readLine (13 :: 10 :: rest) = .ok ([], rest) := by simp [readLine]
  have h3 : parseHex [48] = some 0 := by decide
  simp [readChunked, h1, h2, h3]

theorem readChunked_cons (fuel : Nat) (c tail : Bytes) (hc : c ≠ []) :
    readChunked (fuel + 1) (encChunk true c ++ tail) =
      match readChunked fuel tail with
      | .ok (d, r) => .ok (c ++ d, r)
      | .incomplete => .incomplete
      | .malformed => .malformed := by
  have hne : c.isEmpty = false := by cases c <;> simp_all
  have henc : encChunk true c ++ tail = toHex c.length ++ 13 :: 10 :: (c ++ 13 :: 10 :: tail) := by
    simp [encChunk, hne, crlf]
  have hlen : c.length ≠ 0 := by cases c <;> simp_all
  rw [henc]
  conv => lhs; unfold readChunked
  rw [readLine_line _ _ (toHex_noCRLF _)]
  simp only [parseHex_toHex]
  obtain ⟨k, hk⟩ : ∃ k, c.length = k + 1 := ⟨c.length - 1, by omega⟩
  rw [hk]
  have h1 : ¬ (c ++ 13 :: 10 :: tail).length < k + 1 + 2 := by simp; omega
  have h2 : ((c ++ 13 :: 10 :: tail).drop (k + 1)).take 2 = crlf := by
    rw [← hk]; simp [crlf]
  have h3 : (c ++ 13 :: 10 :: tail).drop (k + 1 + 2) = tail := by
    rw [← hk]
    have : c.length + 2 = (c ++ [13, 10]).length := by simp
    rw [this]
    have : c ++ 13 :: 10 :: tail = (c ++ [13, 10]) ++ tail := by simp
    rw [this, List.drop_left]
  have h4 : (c ++ 13 :: 10 :: tail).take (k + 1) = c := by
    rw [← hk]; simp
  simp only [h1, h2, h3, h4, if_false, bne_self_eq_false, Bool.false_eq_true]
  rcases readChunked fuel tail with ⟨d, r⟩ | _ | _ <;> rfl

/-- number of chunks that produce wire bytes -/
def nonEmptyCount (chunks : List Bytes) : Nat := (chunks.filter (fun c => !c.isEmpty)).length

/-- the chunked wire form of any chunk list decodes to the concatenation of the chunks, leaving exactly
    what follows the terminator -/
theorem readChunked_encode (chunks : List Bytes) (rest : Bytes) :
    ∀ fuel, nonEmptyCount chunks < fuel →
      readChunked fuel (chunks.flatMap (encChunk true) ++ lastChunk ++ rest) = .ok (chunks.flatten, rest) := by
  induction chunks with
  | nil =>
    intro fuel h
    obtain ⟨f, rfl⟩ : ∃ f, fuel = f + 1 := ⟨fuel - 1, by omega⟩
    simpa using readChunked_last f rest
  | cons c cs ih =>
    intro fuel h
    by_cases hc : c = []
    · subst hc
      have : encChunk true [] = [] := by simp [encChunk]
      simp only [List.flatMap_cons, this, List.nil_append, List.flatten_cons]
      exact ih fuel (by simpa [nonEmptyCount] using h)
    · obtain ⟨f, rfl⟩ : ∃ f, fuel = f + 1 := ⟨fuel - 1, by omega⟩
      have hne : c.isEmpty = false := by cases c <;> simp_all
      simp only [List.flatMap_cons, List.append_assoc, List.flatten_cons]
      rw [readChunked_cons f c _ hc]
      have := ih f (by simp [nonEmptyCount, hne] at h ⊢; omega)
      simp only [List.append_assoc] at this
      rw [this]

theorem nonEmptyCount_le (chunks : List Bytes) :
    nonEmptyCount chunks ≤ (chunks.flatMap (encChunk true)).length := by
  induction chunks with
  | nil => simp [nonEmptyCount]
  | cons c cs ih =>
    cases c with
    | nil => simpa [nonEmptyCount, encChunk] using ih
    | cons x xs =>
      simp [nonEmptyCount, encChunk] at ih ⊢
      omega

end TornadoModel.C02
