/- C42 driver:
   `C42 run <nchildren> [op,…]` → `ok [call,…] [fut,…] [returncode|~ per child] [waiting pid,…] queued`
        op = [exit,c,st] | [reg,c,cb|wait_raise|wait_noraise] | [sigchld] | [drain]
   `C42 spec <nchildren> [op,…]` → `ok [[code,…] per child] [[mode-outcome…]] [delivered per child]`
   `C42 decode <st>` → `ok code|~ speccode|~` -/
import TornadoModel.Base.Wire
import TornadoModel.C42.Spec
namespace TornadoModel.C42.Drv
open TornadoModel TornadoModel.Wire TornadoModel.C42

def decMode : V → Option Mode
  | .atom "cb" => some .cb
  | .atom "wait_raise" => some (.wait true)
  | .atom "wait_noraise" => some (.wait false)
  | _ => none

def decOp (v : V) : Option Op := do
  match ← v.list? with
  | [.atom "exit", c, st] => pure (.exit (← c.nat?) (← st.nat?))
  | [.atom "reg", c, m] => pure (.reg (← c.nat?) (← decMode m))
  | [.atom "sigchld"] => pure .sigchld
  | [.atom "drain"] => pure .drain
  | _ => none

def encFut : Fut → V
  | .result v => .list [.atom "result", .int v]
  | .calledProcessError v => .list [.atom "CalledProcessError", .int v]

def encCall (k : Call) : V := .list [.int k.child, .int k.reg, .int k.code, V.ofBool k.cleared]

def handle (toks : List String) : String :=
  match toks.mapM V.parse with
  | none => err "bad-arg"
  | some args =>
    match args with
    | [.atom "run", n, ops] =>
      match n.nat?, ops.list? >>= (·.mapM decOp) with
      | some n, some ops =>
        let s := run ops
        ok [.list (s.calls.map encCall),
            .list (s.futs.map fun (c, r, f) => .list [.int c, .int r, encFut f]),
            .list ((List.range n).map fun c => V.ofOpt (fun (i : Int) => V.int i) (s.subs c).returncode),
            .list (s.waiting.map fun (c : Nat) => V.int (Int.ofNat c)),
            .int s.queue.length]
      | _, _ => err "bad-arg"
    | [.atom "spec", n, ops] =>
      match n.nat?, ops.list? >>= (·.mapM decOp) with
      | some n, some ops =>
        ok [.list ((List.range n).map fun c => .list ((Spec.expect c ops).map fun i => V.int i)),
            .list ((List.range n).map fun c => .list ((Spec.regsOf c ops).map fun m =>
              .list ((Spec.expect c ops).map fun code => V.ofOpt encFut (Spec.futOutcome m code)))),
            .list ((List.range n).map fun c =>
              V.ofBool ((Spec.firstExit c ops).isNone || Spec.sigAfter c ops))]
      | _, _ => err "bad-arg"
    | [.atom "decode", st] =>
      match st.nat? with
      | some st => ok [V.ofOpt (fun (i : Int) => V.int i) (decodeStatus st),
                       V.ofOpt (fun (i : Int) => V.int i) (Spec.returncode st)]
      | none => err "bad-arg"
    | _ => err "bad-cmd"

end TornadoModel.C42.Drv
