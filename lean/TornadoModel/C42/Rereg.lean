/- C42 — any number of registrations per child (replacement before the report, re-registration after it).

`GoodN` is the phase invariant of one child for *arbitrary* histories (the `Good` of Props.lean covers exactly one
registration): not exited / zombie / status queued on the loop / reported.  Once reported (`reaped`, nothing queued)
nothing about the child's invocation log ever changes again (`reported_absorbing`). -/
import TornadoModel.C42.Lemmas
set_option linter.unusedSimpArgs false
namespace TornadoModel.C42

/-- a registration of child `c` happens at some point after its (first) exit -/
def regAfter (c : Nat) : List Op → Bool
  | [] => false
  | .exit d _ :: ops => if d = c then !(Spec.regsOf c ops).isEmpty else regAfter c ops
  | _ :: ops => regAfter c ops

structure HistN where
  regs : List Mode
  fe : Option Nat
  sig : Bool          -- the SIGCHLD handler has run since the first exit
  ra : Bool           -- the child has been registered since the first exit

def hstepN (c : Nat) (h : HistN) : Op → HistN
  | .exit d st => if d = c then { h with fe := h.fe.or (some st) } else h
  | .reg d m => if d = c then { h with regs := h.regs ++ [m], ra := h.ra || h.fe.isSome } else h
  | .sigchld => if h.fe.isSome then { h with sig := true } else h
  | .drain => h

theorem histN_fold (c : Nat) (ops : List Op) (h : HistN) :
    ops.foldl (hstepN c) h =
      { regs := h.regs ++ Spec.regsOf c ops, fe := h.fe.or (Spec.firstExit c ops),
        sig := h.sig || (if h.fe.isSome then ops.any Spec.isSigchld else Spec.sigAfter c ops),
        ra := h.ra || (if h.fe.isSome then !(Spec.regsOf c ops).isEmpty else regAfter c ops) } := by
  induction ops generalizing h with
  | nil => obtain ⟨r, fe, sg, ra⟩ := h; cases fe <;> simp [Spec.regsOf, Spec.firstExit, Spec.sigAfter, regAfter]
  | cons op ops ih =>
    simp only [List.foldl_cons, ih]
    cases op with
    | exit d st =>
      by_cases hd : d = c <;> cases hf : h.fe <;>
        simp [hstepN, hd, Spec.regsOf, Spec.firstExit, Spec.sigAfter, Spec.isSigchld, regAfter, hf]
    | reg d m =>
      by_cases hd : d = c <;> cases hf : h.fe <;>
        simp [hstepN, hd, Spec.regsOf, Spec.firstExit, Spec.sigAfter, Spec.isSigchld, regAfter, hf]
    | sigchld =>
      cases hf : h.fe <;> simp [hstepN, Spec.regsOf, Spec.firstExit, Spec.sigAfter, Spec.isSigchld, regAfter, hf]
    | drain =>
      cases hf : h.fe <;> simp [hstepN, Spec.regsOf, Spec.firstExit, Spec.sigAfter, Spec.isSigchld, regAfter, hf]

/-- what the model may look like for child `c` after a history with registrations `h.regs` (any number) -/
def GoodN (c : Nat) (h : HistN) (v : View) : Prop :=
  match h.fe with
  | none =>
      h.sig = false ∧ h.ra = false ∧ v.sub.proc = .running ∧ v.q = [] ∧ v.calls = [] ∧ v.futs = [] ∧
      v.sub.exitCb.map (·.2) = h.regs.getLast? ∧ v.inW = !h.regs.isEmpty ∧ (h.regs ≠ [] → v.init = true)
  | some st =>
      -- zombie: exited, not yet reaped by tornado (never registered, or registered before and no SIGCHLD run yet)
      (h.ra = false ∧ v.sub.proc = .zombie st ∧ v.q = [] ∧ v.calls = [] ∧ v.futs = [] ∧
        v.sub.exitCb.map (·.2) = h.regs.getLast? ∧ v.inW = !h.regs.isEmpty ∧
        (h.regs ≠ [] → v.init = true ∧ h.sig = false)) ∨
      -- queued: reaped, `_set_returncode(status)` waits on the loop; the installed callback is the latest registration
      (v.sub.proc = .reaped ∧ v.q = [st] ∧ v.calls = [] ∧ v.futs = [] ∧ h.regs ≠ [] ∧
        v.sub.exitCb.map (·.2) = h.regs.getLast?) ∨
      -- reported
      (v.sub.proc = .reaped ∧ v.q = [] ∧ ∃ r m, m ∈ h.regs ∧ v.calls = doneCalls c r st ∧ v.futs = doneFuts c r m st)

theorem getLast?_concat' {α} (l : List α) (a : α) : (l ++ [a]).getLast? = some a := by simp

local macro "triv" : tactic => `(tactic| first | rfl | trivial)

/-- a SIGCHLD handler run does nothing to a child that is not a zombie -/
theorem vstep_sigchld_idle (c : Nat) (v : View) (h : ∀ st, v.sub.proc ≠ .zombie st) : vstep c v .sigchld = v := by
  cases hp : v.sub.proc with
  | zombie st => exact absurd hp (h st)
  | running => simp [vstep, vTry, hp]
  | reaped => simp [vstep, vTry, hp]

theorem goodN_step (c : Nat) (h : HistN) (v : View) (op : Op) (hg : GoodN c h v) :
    GoodN c (hstepN c h op) (vstep c v op) := by
  obtain ⟨regs, fe, sig, ra⟩ := h
  obtain ⟨⟨proc, exitCb, rc⟩, inW, init, q, nregs, calls, futs⟩ := v
  rcases fe with _ | st
  · -- not exited yet
    simp only [GoodN] at hg
    obtain ⟨h1, h2, h3, h4, h5, h6, h7, h8, h9⟩ := hg
    subst h1 h2 h3 h4 h5 h6
    cases op with
    | exit d st' => by_cases hd : d = c <;> simp_all [GoodN, hstepN, vstep]
    | reg d m' => by_cases hd : d = c <;> simp_all [GoodN, hstepN, vstep, vTry]
    | sigchld => rw [vstep_sigchld_idle c _ (by simp)]; simp_all [GoodN, hstepN]
    | drain => simp_all [GoodN, hstepN, vstep]
  · simp only [GoodN] at hg
    rcases hg with hg | hg | hg
    · -- zombie
      obtain ⟨h2, h3, h4, h5, h6, h7, h8, h9⟩ := hg
      subst h2 h3 h4 h5 h6
      cases op with
      | exit d st' => by_cases hd : d = c <;> simp_all [GoodN, hstepN, vstep]
      | reg d m' => by_cases hd : d = c <;> simp_all [GoodN, hstepN, vstep, vTry]
      | sigchld =>
        by_cases hr : regs = []
        · subst hr
          simp_all [GoodN, hstepN, vstep]
        · have hi := (h9 hr).1
          have hw : inW = true := by
            rw [h8]; cases regs with
            | nil => exact absurd rfl hr
            | cons a l => rfl
          subst hi hw
          simp_all [GoodN, hstepN, vstep, vTry]
      | drain => simp_all [GoodN, hstepN, vstep]
    · -- queued
      obtain ⟨h3, h4, h5, h6, h7, h8⟩ := hg
      subst h3 h4 h5 h6
      cases op with
      | exit d st' => by_cases hd : d = c <;> simp_all [GoodN, hstepN, vstep]
      | reg d m' => by_cases hd : d = c <;> simp_all [GoodN, hstepN, vstep, vTry]
      | sigchld => rw [vstep_sigchld_idle c _ (by simp)]; simp_all [GoodN, hstepN]
      | drain =>
        simp only [hstepN, vstep, GoodN, List.foldl_cons, List.foldl_nil]
        refine Or.inr (Or.inr ?_)
        obtain ⟨m, hm⟩ : ∃ m, regs.getLast? = some m := by
          cases hl : regs.getLast? with
          | none => exact absurd (List.getLast?_eq_none_iff.mp hl) h7
          | some m => exact ⟨m, rfl⟩
        have hmem : m ∈ regs := List.mem_of_getLast? hm
        rw [hm] at h8
        cases exitCb with
        | none => simp at h8
        | some rm =>
          obtain ⟨r, m1⟩ := rm
          simp only [Option.map_some, Option.some.injEq] at h8
          subst h8
          cases hd : decodeStatus st with
          | none =>
            simp only [vSet, hd]
            exact ⟨by triv, by triv, r, m1, hmem, by simp [doneCalls, hd], by simp [doneFuts, hd]⟩
          | some code =>
            simp only [vSet, hd]
            exact ⟨by triv, by triv, r, m1, hmem, by simp [doneCalls, hd], by simp [doneFuts, hd]⟩
    · -- reported
      obtain ⟨h3, h4, r, m, hm, h5, h6⟩ := hg
      subst h3 h4
      cases op with
      | exit d st' =>
        by_cases hd : d = c <;> simp only [hstepN, vstep, hd, ↓reduceIte, GoodN, Option.some_or] <;>
          exact Or.inr (Or.inr ⟨by triv, by triv, r, m, hm, h5, h6⟩)
      | reg d m' =>
        by_cases hd : d = c
        · simp only [hstepN, vstep, vTry, hd, ↓reduceIte, GoodN]
          exact Or.inr (Or.inr ⟨by triv, by triv, r, m, List.mem_append_left _ hm, h5, h6⟩)
        · simp only [hstepN, vstep, hd, ↓reduceIte, GoodN]
          exact Or.inr (Or.inr ⟨by triv, by triv, r, m, hm, h5, h6⟩)
      | sigchld =>
        rw [vstep_sigchld_idle c _ (by simp)]
        simp only [hstepN, GoodN, Option.isSome_some, ↓reduceIte]
        exact Or.inr (Or.inr ⟨by triv, by triv, r, m, hm, h5, h6⟩)
      | drain =>
        simp only [hstepN, vstep, GoodN, List.foldl_nil]
        exact Or.inr (Or.inr ⟨by triv, by triv, r, m, hm, h5, h6⟩)

theorem goodN_run (c : Nat) (ops : List Op) (h : HistN) (v : View) (hg : GoodN c h v) :
    GoodN c (ops.foldl (hstepN c) h) (ops.foldl (vstep c) v) := by
  induction ops generalizing h v with
  | nil => exact hg
  | cons op ops ih => exact ih _ _ (goodN_step c h v op hg)

theorem goodN_init (c : Nat) : GoodN c { regs := [], fe := none, sig := false, ra := false } (view init c) := by
  simp [GoodN, view, init]

/-- the phase invariant holds after every history, whatever the number of registrations -/
theorem goodN_after (c : Nat) (ops : List Op) :
    GoodN c { regs := Spec.regsOf c ops, fe := Spec.firstExit c ops, sig := Spec.sigAfter c ops, ra := regAfter c ops }
      (view (run ops) c) := by
  have := goodN_run c ops _ _ (goodN_init c)
  rw [histN_fold] at this
  simpa [run, view_run_gen] using this

/-! ### consequences -/

theorem doneCalls_length (c r st : Nat) : (doneCalls c r st).length ≤ 1 := by
  unfold doneCalls; cases decodeStatus st <;> simp

theorem doneFuts_length (c r : Nat) (m : Mode) (st : Nat) : (doneFuts c r m st).length ≤ 1 := by
  unfold doneFuts
  cases decodeStatus st with
  | none => simp
  | some code => cases hf : futOf m code <;> simp [hf]

/-- in every phase at most one invocation / one settled future is on record for the child -/
theorem goodN_le_one (c : Nat) (h : HistN) (v : View) (hg : GoodN c h v) :
    v.calls.length ≤ 1 ∧ v.futs.length ≤ 1 := by
  unfold GoodN at hg
  split at hg
  · obtain ⟨-, -, -, -, h5, h6, -⟩ := hg
    simp [h5, h6]
  · rcases hg with hg | hg | hg
    · obtain ⟨-, -, -, h5, h6, -⟩ := hg
      simp [h5, h6]
    · obtain ⟨-, -, h5, h6, -⟩ := hg
      simp [h5, h6]
    · obtain ⟨-, -, r, m, -, h5, h6⟩ := hg
      rw [h5, h6]
      exact ⟨doneCalls_length .., doneFuts_length ..⟩

theorem vSet_q (c : Nat) (v : View) (st : Nat) : (vSet c v st).q = v.q := by
  unfold vSet
  split
  · rfl
  · split <;> rfl

theorem fold_vSet_q (c : Nat) (l : List Nat) (v : View) : (l.foldl (vSet c) v).q = v.q := by
  induction l generalizing v with
  | nil => rfl
  | cons a l ih => simp only [List.foldl_cons, ih, vSet_q]

/-- after a drain nothing of the child is left on the loop -/
theorem drain_q_nil (c : Nat) (v : View) : (vstep c v .drain).q = [] := by
  simp only [vstep, fold_vSet_q]

/-- **reported is absorbing**: once the child has been reaped by tornado and its `_set_returncode` has run
(nothing queued), no operation whatsoever changes its invocation log or its settled futures again -/
theorem reported_absorbing (c : Nat) (v : View) (op : Op) (hp : v.sub.proc = .reaped) (hq : v.q = []) :
    (vstep c v op).sub.proc = .reaped ∧ (vstep c v op).q = [] ∧ (vstep c v op).calls = v.calls ∧
    (vstep c v op).futs = v.futs := by
  cases op with
  | exit d st => by_cases hd : d = c <;> simp [vstep, hd, hp, hq]
  | reg d m => by_cases hd : d = c <;> simp [vstep, vTry, hd, hp, hq]
  | sigchld => rw [vstep_sigchld_idle c v (by simp [hp])]; exact ⟨hp, hq, rfl, rfl⟩
  | drain => simp [vstep, hp, hq]

/-- … and unless the child is registered again, `_exit_callback` and the `_waiting` entry stay as they are -/
theorem reported_absorbing_noreg (c : Nat) (v : View) (op : Op) (hp : v.sub.proc = .reaped) (hq : v.q = [])
    (hop : ∀ m, op ≠ .reg c m) : (vstep c v op).sub = v.sub ∧ (vstep c v op).inW = v.inW := by
  cases op with
  | exit d st => by_cases hd : d = c <;> simp [vstep, hd, hp]
  | reg d m =>
    by_cases hd : d = c
    · exact absurd (hd ▸ rfl) (hop m)
    · simp [vstep, hd]
  | sigchld => rw [vstep_sigchld_idle c v (by simp [hp])]; exact ⟨rfl, rfl⟩
  | drain => simp [vstep, hq]

theorem reported_absorbing_run (c : Nat) (ops : List Op) (v : View) (hp : v.sub.proc = .reaped) (hq : v.q = []) :
    (ops.foldl (vstep c) v).sub.proc = .reaped ∧ (ops.foldl (vstep c) v).q = [] ∧
    (ops.foldl (vstep c) v).calls = v.calls ∧ (ops.foldl (vstep c) v).futs = v.futs := by
  induction ops generalizing v with
  | nil => exact ⟨hp, hq, rfl, rfl⟩
  | cons op ops ih =>
    obtain ⟨h1, h2, h3, h4⟩ := reported_absorbing c v op hp hq
    obtain ⟨k1, k2, k3, k4⟩ := ih _ h1 h2
    exact ⟨k1, k2, k3.trans h3, k4.trans h4⟩

theorem reported_absorbing_noreg_run (c : Nat) (ops : List Op) (v : View) (hp : v.sub.proc = .reaped) (hq : v.q = [])
    (hops : Spec.regsOf c ops = []) :
    (ops.foldl (vstep c) v).sub = v.sub ∧ (ops.foldl (vstep c) v).inW = v.inW := by
  induction ops generalizing v with
  | nil => exact ⟨rfl, rfl⟩
  | cons op ops ih =>
    have hop : ∀ m, op ≠ .reg c m := by
      intro m hm
      subst hm
      simp [Spec.regsOf] at hops
    have hops' : Spec.regsOf c ops = [] := by
      cases op with
      | reg d m =>
        by_cases hd : d = c
        · exact absurd (hd ▸ rfl) (hop m)
        · simpa [Spec.regsOf, hd] using hops
      | exit d st => simpa [Spec.regsOf] using hops
      | sigchld => simpa [Spec.regsOf] using hops
      | drain => simpa [Spec.regsOf] using hops
    obtain ⟨h1, h2, -, -⟩ := reported_absorbing c v op hp hq
    obtain ⟨g1, g2⟩ := reported_absorbing_noreg c v op hp hq hop
    obtain ⟨k1, k2⟩ := ih _ h1 h2 hops'
    exact ⟨k1.trans g1, k2.trans g2⟩

/-- a callback on record means the child is in the "reported" phase -/
theorem fired_reported (c : Nat) (h : HistN) (v : View) (hg : GoodN c h v) (hc : v.calls ≠ []) :
    v.sub.proc = .reaped ∧ v.q = [] := by
  unfold GoodN at hg
  split at hg
  · exact absurd hg.2.2.2.2.1 hc
  · rcases hg with hg | hg | hg
    · exact absurd hg.2.2.2.1 hc
    · exact absurd hg.2.2.1 hc
    · exact ⟨hg.1, hg.2.1⟩

/-- what is on record for a child with at least one registration once nothing is queued any more and the exit (if any)
has been noticed: a SIGCHLD handler run after it, or a registration after it -/
theorem settledN (c : Nat) (h : HistN) (v : View) (hg : GoodN c h v) (hq : v.q = []) (hr : h.regs ≠ [])
    (hrep : h.fe = none ∨ h.sig = true ∨ h.ra = true) :
    v.calls.map (·.code) = (h.fe.bind decodeStatus).toList ∧ (∀ k ∈ v.calls, k.cleared = true) ∧
    ∃ m ∈ h.regs, v.futs.map (·.2.2) = ((h.fe.bind decodeStatus).toList).filterMap (futOf m) := by
  obtain ⟨regs, fe, sig, ra⟩ := h
  cases fe with
  | none =>
    simp only [GoodN] at hg
    obtain ⟨-, -, -, -, h5, h6, -⟩ := hg
    obtain ⟨m, hm⟩ := List.exists_mem_of_ne_nil regs hr
    simp only [h5, h6, List.map_nil, Option.bind_none, Option.toList_none, List.not_mem_nil, false_imp_iff,
      implies_true, List.filterMap_nil, true_and]
    exact ⟨m, hm, trivial⟩
  | some st =>
    simp only [GoodN] at hg
    rcases hg with hg | hg | hg
    · obtain ⟨h2, -, -, -, -, -, -, h9⟩ := hg
      have := (h9 hr).2
      subst h2 this
      simp at hrep
    · rw [hq] at hg
      simp at hg
    · obtain ⟨-, -, r, m, hm, h5, h6⟩ := hg
      refine ⟨?_, ?_, m, hm, ?_⟩
      · rw [h5]; simp only [doneCalls, Option.bind_some]
        cases decodeStatus st <;> simp
      · rw [h5]; simp only [doneCalls]
        cases decodeStatus st <;> simp
      · rw [h6]; simp only [doneFuts, Option.bind_some]
        cases decodeStatus st with
        | none => simp
        | some code => cases hf : futOf m code <;> simp [hf]

/-- **which callback fires**: a drain adds to the child's invocation log exactly the callback that is installed in
`_exit_callback` at that moment (the latest registration), called with the decoded queued status; nothing if nothing
is queued for the child -/
theorem drain_fires_installed (c : Nat) (h : HistN) (v : View) (hg : GoodN c h v) :
    (vstep c v .drain).calls = v.calls ++
      (match v.q, v.sub.exitCb with
       | [st], some (r, _) => doneCalls c r st
       | _, _ => []) := by
  obtain ⟨regs, fe, sig, ra⟩ := h
  obtain ⟨⟨proc, exitCb, rc⟩, inW, init, q, nregs, calls, futs⟩ := v
  cases fe with
  | none =>
    simp only [GoodN] at hg
    obtain ⟨-, -, -, h4, -⟩ := hg
    subst h4
    simp [vstep]
  | some st =>
    simp only [GoodN] at hg
    rcases hg with hg | hg | hg
    · obtain ⟨-, -, h4, -⟩ := hg
      subst h4
      simp [vstep]
    · obtain ⟨-, h4, h5, -, h7, h8⟩ := hg
      subst h4 h5
      cases exitCb with
      | none =>
        exfalso
        simp only [Option.map_none] at h8
        exact h7 (List.getLast?_eq_none_iff.mp h8.symm)
      | some rm =>
        obtain ⟨r, m⟩ := rm
        cases hd : decodeStatus st <;> simp [vstep, vSet, doneCalls, hd]
    · obtain ⟨-, h4, -⟩ := hg
      subst h4
      simp [vstep]

/-- a registration made after the exit, followed by one drain: the new callback fires (once, decoded code) iff the
exit had not already been reported to an earlier registration; otherwise the log does not change -/
theorem reg_after_exit_view (c : Nat) (h : HistN) (v : View) (m : Mode) (st : Nat) (code : Int)
    (hg : GoodN c h v) (hfe : h.fe = some st) (hcode : decodeStatus st = some code) :
    (vstep c (vstep c v (.reg c m)) .drain).calls =
      if v.calls = [] then [{ child := c, reg := v.nregs, code := code, cleared := true }] else v.calls := by
  obtain ⟨regs, fe, sig, ra⟩ := h
  obtain ⟨⟨proc, exitCb, rc⟩, inW, init, q, nregs, calls, futs⟩ := v
  simp only at hfe
  subst hfe
  simp only [GoodN] at hg
  rcases hg with hg | hg | hg
  · obtain ⟨-, h3, h4, h5, -⟩ := hg
    subst h3 h4 h5
    simp [vstep, vTry, vSet, hcode]
  · obtain ⟨h3, h4, h5, -⟩ := hg
    subst h3 h4 h5
    simp [vstep, vTry, vSet, hcode]
  · obtain ⟨h3, h4, r, m1, -, h5, -⟩ := hg
    subst h3 h4
    have hne : calls ≠ [] := by rw [h5]; simp [doneCalls, hcode]
    simp [vstep, vTry, hne]

end TornadoModel.C42
