/- C42 — any number of registrations per child (replacement before the report, re-registration after it).

`GoodN` is the phase invariant of one child for *arbitrary* histories (the `Good` of Props.lean covers exactly one
registration): not exited / zombie / status queued on the loop / reported.  Once reported (`reaped`, nothing queued)
nothing about the child's invocation log ever changes again (`reported_absorbing`). -/
import TornadoModel.C42.Lemmas
set_option linter.unusedSimpArgs false
namespace TornadoModel.C42

/-- a registration of child `c` happens at some point after its (first) exit -/
def regAfter (c : Nat) : List Op → Bool
  | [] => false
  | .exit d _ :: ops => if d = c then !(Spec.regsOf c ops).isEmpty else regAfter c ops
  | _ :: ops => regAfter c ops

structure HistN where
  regs : List Mode
  fe : Option Nat
  sig : Bool          -- the SIGCHLD handler has run since the first exit
  ra : Bool           -- the child has been registered since the first exit

def hstepN (c : Nat) (h : HistN) : Op → HistN
  | .exit d st => if d = c then { h with fe := h.fe.or (some st) } else h
  | .reg d m => if d = c then { h with regs := h.regs ++ [m], ra := h.ra || h.fe.isSome } else h
  | .sigchld => if h.fe.isSome then { h with sig := true } else h
  | .drain => h

theorem histN_fold (c : Nat) (ops : List Op) (h : HistN) :
    ops.foldl (hstepN c) h =
      { regs := h.regs ++ Spec.regsOf c ops, fe := h.fe.or (Spec.firstExit c ops),
        sig := h.sig || (if h.fe.isSome then ops.any Spec.isSigchld else Spec.sigAfter c ops),
        ra := h.ra || (if h.fe.isSome then !(Spec.regsOf c ops).isEmpty else regAfter c ops) } := by
  induction ops generalizing h with
  | nil => obtain ⟨r, fe, sg, ra⟩ := h; cases fe <;> simp [Spec.regsOf, Spec.firstExit, Spec.sigAfter, regAfter]
  | cons op ops ih =>
    simp only [List.foldl_cons, ih]
    cases op with
    | exit d st =>
      by_cases hd : d = c <;> cases hf : h.fe <;>
        simp [hstepN, hd, Spec.regsOf, Spec.firstExit, Spec.sigAfter, Spec.isSigchld, regAfter, hf]
    | reg d m =>
      by_cases hd : d = c <;> cases hf : h.fe <;>
        simp [hstepN, hd, Spec.regsOf, Spec.firstExit, Spec.sigAfter, Spec.isSigchld, regAfter, hf]
    | sigchld =>
      cases hf : h.fe <;> simp [hstepN, Spec.regsOf, Spec.firstExit, Spec.sigAfter, Spec.isSigchld, regAfter, hf]
    | drain =>
      cases hf : h.fe <;> simp [hstepN, Spec.regsOf, Spec.firstExit, Spec.sigAfter, Spec.isSigchld, regAfter, hf]

/-! ### what registrations made after the report leave on the loop and in the log -/
def isLate : QI → Bool
  | .late .. => true
  | .status _ => false

def lateCall (c : Nat) (clr : Bool) : QI → List Call
  | .late r _ code => [{ child := c, reg := r, code := code, cleared := clr }]
  | .status _ => []

def lateFut (c : Nat) : QI → List (Nat × Nat × Fut)
  | .late r m code => (match futOf m code with | some f => [(c, r, f)] | none => [])
  | .status _ => []

/-- a loop iteration over scheduled late callbacks only: each is called, nothing else changes -/
theorem fold_late (c : Nat) (q : List QI) (v : View) (hq : ∀ qi ∈ q, isLate qi = true) :
    q.foldl (vItem c) v =
      { v with calls := v.calls ++ q.flatMap (lateCall c v.sub.exitCb.isNone), futs := v.futs ++ q.flatMap (lateFut c) } := by
  induction q generalizing v with
  | nil => simp
  | cons qi q ih =>
    have h1 := hq qi (by simp)
    have h2 : ∀ x ∈ q, isLate x = true := fun x hx => hq x (by simp [hx])
    cases qi with
    | status st => simp [isLate] at h1
    | late r m code =>
      simp only [List.foldl_cons, vItem, ih _ h2, vLate, List.flatMap_cons, lateCall, lateFut, List.append_assoc]
      rfl

/-- every scheduled item is a late callback carrying `code`, of a mode that was registered -/
def LateQ (regs : List Mode) (code : Option Int) (q : List QI) : Prop :=
  ∀ qi ∈ q, ∃ r m k, qi = .late r m k ∧ code = some k ∧ m ∈ regs

def LateCalls (c : Nat) (code : Option Int) (lc : List Call) : Prop :=
  ∀ k ∈ lc, k.child = c ∧ some k.code = code ∧ k.cleared = true

theorem lateQ_isLate {regs code q} (h : LateQ regs code q) : ∀ qi ∈ q, isLate qi = true := by
  intro qi hqi
  obtain ⟨r, m, k, rfl, -, -⟩ := h qi hqi
  rfl

theorem lateQ_mono {regs regs' code q} (h : LateQ regs code q) (hs : ∀ m ∈ regs, m ∈ regs') : LateQ regs' code q := by
  intro qi hqi
  obtain ⟨r, m, k, h1, h2, h3⟩ := h qi hqi
  exact ⟨r, m, k, h1, h2, hs m h3⟩

theorem lateCalls_of_lateQ (c : Nat) {regs code q} (h : LateQ regs code q) :
    LateCalls c code (q.flatMap (lateCall c true)) := by
  intro k hk
  simp only [List.mem_flatMap] at hk
  obtain ⟨qi, hqi, hk⟩ := hk
  obtain ⟨r, m, k', rfl, h2, -⟩ := h qi hqi
  simp only [lateCall, List.mem_singleton] at hk
  subst hk
  exact ⟨rfl, h2.symm, rfl⟩

/-- what the model may look like for child `c` after a history with registrations `h.regs` (any number) -/
def GoodN (c : Nat) (h : HistN) (v : View) : Prop :=
  match h.fe with
  | none =>
      h.sig = false ∧ h.ra = false ∧ v.sub.proc = .running ∧ v.q = [] ∧ v.calls = [] ∧ v.futs = [] ∧
      v.sub.exitCb.map (·.2) = h.regs.getLast? ∧ v.inW = !h.regs.isEmpty ∧ (h.regs ≠ [] → v.init = true) ∧
      v.sub.returncode = none
  | some st =>
      -- zombie: exited, not yet reaped by tornado (never registered, or registered before and no SIGCHLD run yet)
      (h.ra = false ∧ v.sub.proc = .zombie st ∧ v.q = [] ∧ v.calls = [] ∧ v.futs = [] ∧
        v.sub.exitCb.map (·.2) = h.regs.getLast? ∧ v.inW = !h.regs.isEmpty ∧
        (h.regs ≠ [] → v.init = true ∧ h.sig = false) ∧ v.sub.returncode = none) ∨
      -- queued: reaped, `_set_returncode(status)` waits on the loop; the installed callback is the latest registration
      (v.sub.proc = .reaped ∧ v.q = [.status st] ∧ v.calls = [] ∧ v.futs = [] ∧ h.regs ≠ [] ∧
        v.sub.exitCb.map (·.2) = h.regs.getLast? ∧ v.sub.returncode = none) ∧ True ∨
      -- reported: `returncode` is set (decodable status), `_exit_callback` cleared; what is on the loop are callbacks of
      -- registrations made since (`.late`), what is in the log is the report + the late callbacks already run
      (v.sub.proc = .reaped ∧ v.sub.returncode = decodeStatus st ∧ (decodeStatus st ≠ none → v.sub.exitCb = none) ∧
        LateQ h.regs (decodeStatus st) v.q ∧
        ∃ r m lc lf, m ∈ h.regs ∧ v.calls = doneCalls c r st ++ lc ∧ v.futs = doneFuts c r m st ++ lf ∧
          LateCalls c (decodeStatus st) lc)

theorem getLast?_concat' {α} (l : List α) (a : α) : (l ++ [a]).getLast? = some a := by simp

local macro "triv" : tactic => `(tactic| first | rfl | trivial)

/-- a SIGCHLD handler run does nothing to a child that is not a zombie -/
theorem vstep_sigchld_idle (c : Nat) (v : View) (h : ∀ st, v.sub.proc ≠ .zombie st) : vstep c v .sigchld = v := by
  cases hp : v.sub.proc with
  | zombie st => exact absurd hp (h st)
  | running => simp [vstep, vTry, hp]
  | reaped => simp [vstep, vTry, hp]

theorem goodN_step (c : Nat) (h : HistN) (v : View) (op : Op) (hg : GoodN c h v) :
    GoodN c (hstepN c h op) (vstep c v op) := by
  obtain ⟨regs, fe, sig, ra⟩ := h
  obtain ⟨⟨proc, exitCb, rc⟩, inW, init, q, nregs, calls, futs⟩ := v
  rcases fe with _ | st
  · -- not exited yet
    simp only [GoodN] at hg
    obtain ⟨h1, h2, h3, h4, h5, h6, h7, h8, h9, h10⟩ := hg
    subst h1 h2 h3 h4 h5 h6 h10
    cases op with
    | exit d st' => by_cases hd : d = c <;> simp_all [GoodN, hstepN, vstep]
    | reg d m' => by_cases hd : d = c <;> simp_all [GoodN, hstepN, vstep, vTry]
    | sigchld => rw [vstep_sigchld_idle c _ (by simp)]; simp_all [GoodN, hstepN]
    | drain => simp_all [GoodN, hstepN, vstep]
  · simp only [GoodN] at hg
    rcases hg with hg | hg | hg
    · -- zombie
      obtain ⟨h2, h3, h4, h5, h6, h7, h8, h9, h10⟩ := hg
      subst h2 h3 h4 h5 h6 h10
      cases op with
      | exit d st' => by_cases hd : d = c <;> simp_all [GoodN, hstepN, vstep]
      | reg d m' => by_cases hd : d = c <;> simp_all [GoodN, hstepN, vstep, vTry]
      | sigchld =>
        by_cases hr : regs = []
        · subst hr
          simp_all [GoodN, hstepN, vstep]
        · have hi := (h9 hr).1
          have hw : inW = true := by
            rw [h8]; cases regs with
            | nil => exact absurd rfl hr
            | cons a l => rfl
          subst hi hw
          simp_all [GoodN, hstepN, vstep, vTry]
      | drain => simp_all [GoodN, hstepN, vstep]
    · -- queued
      obtain ⟨⟨h3, h4, h5, h6, h7, h8, h10⟩, -⟩ := hg
      subst h3 h4 h5 h6 h10
      cases op with
      | exit d st' => by_cases hd : d = c <;> simp_all [GoodN, hstepN, vstep]
      | reg d m' => by_cases hd : d = c <;> simp_all [GoodN, hstepN, vstep, vTry]
      | sigchld => rw [vstep_sigchld_idle c _ (by simp)]; simp_all [GoodN, hstepN]
      | drain =>
        simp only [hstepN, vstep, GoodN, List.foldl_cons, List.foldl_nil, vItem]
        refine Or.inr (Or.inr ?_)
        obtain ⟨m, hm⟩ : ∃ m, regs.getLast? = some m := by
          cases hl : regs.getLast? with
          | none => exact absurd (List.getLast?_eq_none_iff.mp hl) h7
          | some m => exact ⟨m, rfl⟩
        have hmem : m ∈ regs := List.mem_of_getLast? hm
        rw [hm] at h8
        cases exitCb with
        | none => simp at h8
        | some rm =>
          obtain ⟨r, m1⟩ := rm
          simp only [Option.map_some, Option.some.injEq] at h8
          subst h8
          cases hd : decodeStatus st with
          | none =>
            simp only [vSet, hd]
            exact ⟨by triv, by triv, by simp, by simp [LateQ], r, m1, [], [], hmem, by simp [doneCalls, hd],
              by simp [doneFuts, hd], by simp [LateCalls]⟩
          | some code =>
            simp only [vSet, hd]
            exact ⟨by triv, by triv, by simp, by simp [LateQ], r, m1, [], [], hmem, by simp [doneCalls, hd],
              by simp [doneFuts, hd], by simp [LateCalls]⟩
    · -- reported
      obtain ⟨h3, h4, h4c, hq, r, m, lc, lf, hm, h5, h6, hlc⟩ := hg
      subst h3
      cases op with
      | exit d st' =>
        by_cases hd : d = c <;> simp only [hstepN, vstep, hd, ↓reduceIte, GoodN, Option.some_or] <;>
          exact Or.inr (Or.inr ⟨by triv, h4, h4c, hq, r, m, lc, lf, hm, h5, h6, hlc⟩)
      | reg d m' =>
        by_cases hd : d = c
        · have hsub : ∀ x ∈ regs, x ∈ regs ++ [m'] := fun x hx => List.mem_append_left _ hx
          cases hdc : decodeStatus st with
          | some code =>
            rw [hdc] at h4
            subst h4
            simp only [hstepN, vstep, hd, ↓reduceIte, GoodN]
            refine Or.inr (Or.inr ⟨by triv, hdc.symm, by simpa [hdc] using h4c, ?_, r, m, lc, lf, hsub m hm, h5, h6, hlc⟩)
            intro qi hqi
            simp only [List.mem_append, List.mem_singleton] at hqi
            rcases hqi with hqi | hqi
            · exact lateQ_mono hq hsub qi hqi
            · exact ⟨nregs, m', code, hqi, hdc, by simp⟩
          | none =>
            rw [hdc] at h4
            subst h4
            simp only [hstepN, vstep, vTry, hd, ↓reduceIte, GoodN]
            exact Or.inr (Or.inr ⟨by triv, hdc.symm, by simp [hdc], lateQ_mono hq hsub, r, m, lc, lf, hsub m hm, h5, h6, hlc⟩)
        · simp only [hstepN, vstep, hd, ↓reduceIte, GoodN]
          exact Or.inr (Or.inr ⟨by triv, h4, h4c, hq, r, m, lc, lf, hm, h5, h6, hlc⟩)
      | sigchld =>
        rw [vstep_sigchld_idle c _ (by simp)]
        simp only [hstepN, GoodN, Option.isSome_some, ↓reduceIte]
        exact Or.inr (Or.inr ⟨by triv, h4, h4c, hq, r, m, lc, lf, hm, h5, h6, hlc⟩)
      | drain =>
        simp only [hstepN, vstep, GoodN]
        rw [fold_late c q _ (lateQ_isLate hq)]
        refine Or.inr (Or.inr ⟨by triv, h4, h4c, by simp [LateQ], r, m, lc ++ q.flatMap (lateCall c true), lf ++ q.flatMap (lateFut c),
          hm, ?_, by simp [h6], ?_⟩)
        · cases q with
          | nil => simp [h5]
          | cons qi q' =>
            obtain ⟨_, _, k, -, hk, -⟩ := hq qi (by simp)
            have hn : exitCb = none := h4c (by simp [hk])
            subst hn
            simp [h5]
        · intro k hk
          simp only [List.mem_append] at hk
          rcases hk with hk | hk
          · exact hlc k hk
          · exact lateCalls_of_lateQ c hq k hk

theorem goodN_run (c : Nat) (ops : List Op) (h : HistN) (v : View) (hg : GoodN c h v) :
    GoodN c (ops.foldl (hstepN c) h) (ops.foldl (vstep c) v) := by
  induction ops generalizing h v with
  | nil => exact hg
  | cons op ops ih => exact ih _ _ (goodN_step c h v op hg)

theorem goodN_init (c : Nat) : GoodN c { regs := [], fe := none, sig := false, ra := false } (view init c) := by
  simp [GoodN, view, init]

/-- the phase invariant holds after every history, whatever the number of registrations -/
theorem goodN_after (c : Nat) (ops : List Op) :
    GoodN c { regs := Spec.regsOf c ops, fe := Spec.firstExit c ops, sig := Spec.sigAfter c ops, ra := regAfter c ops }
      (view (run ops) c) := by
  have := goodN_run c ops _ _ (goodN_init c)
  rw [histN_fold] at this
  simpa [run, view_run_gen] using this

/-! ### consequences -/

theorem doneCalls_length (c r st : Nat) : (doneCalls c r st).length ≤ 1 := by
  unfold doneCalls; cases decodeStatus st <;> simp

theorem doneFuts_length (c r : Nat) (m : Mode) (st : Nat) : (doneFuts c r m st).length ≤ 1 := by
  unfold doneFuts
  cases decodeStatus st with
  | none => simp
  | some code => cases hf : futOf m code <;> simp [hf]

theorem mem_doneCalls {c r st : Nat} {k : Call} (hk : k ∈ doneCalls c r st) :
    k.child = c ∧ some k.code = decodeStatus st ∧ k.cleared = true := by
  unfold doneCalls at hk
  cases hd : decodeStatus st with
  | none => simp [hd] at hk
  | some code =>
    simp only [hd, List.mem_singleton] at hk
    subst hk
    exact ⟨rfl, rfl, rfl⟩

/-- in every phase, everything in the child's invocation log carries the decoded status of its (first) exit and was
called with `_exit_callback` cleared -/
theorem goodN_calls_code (c : Nat) (h : HistN) (v : View) (hg : GoodN c h v) :
    ∀ k ∈ v.calls, k.child = c ∧ some k.code = h.fe.bind decodeStatus ∧ k.cleared = true := by
  unfold GoodN at hg
  split at hg
  · obtain ⟨-, -, -, -, h5, -⟩ := hg
    simp [h5]
  · rcases hg with hg | hg | hg
    · obtain ⟨-, -, -, h5, -⟩ := hg
      simp [h5]
    · obtain ⟨⟨-, -, h5, -⟩, -⟩ := hg
      simp [h5]
    · obtain ⟨-, -, -, -, r, m, lc, lf, -, h5, -, hlc⟩ := hg
      intro k hk
      rw [h5, List.mem_append] at hk
      rename_i st heq
      rw [heq]
      rcases hk with hk | hk
      · exact mem_doneCalls hk
      · exact hlc k hk

theorem vItem_q (c : Nat) (v : View) (qi : QI) : (vItem c v qi).q = v.q := by
  cases qi with
  | late r m code => rfl
  | status st =>
    simp only [vItem]
    unfold vSet
    split
    · rfl
    · split <;> rfl

theorem fold_vItem_q (c : Nat) (l : List QI) (v : View) : (l.foldl (vItem c) v).q = v.q := by
  induction l generalizing v with
  | nil => rfl
  | cons a l ih => simp only [List.foldl_cons, ih, vItem_q]

/-- after a drain nothing of the child is left on the loop -/
theorem drain_q_nil (c : Nat) (v : View) : (vstep c v .drain).q = [] := by
  simp only [vstep, fold_vItem_q]

/-- a callback on record means the child is in the "reported" phase: the status was decodable, `returncode` is set to
the decoded code and `_exit_callback` is cleared -/
theorem fired_reported (c : Nat) (h : HistN) (v : View) (hg : GoodN c h v) (hc : v.calls ≠ []) :
    ∃ st code, h.fe = some st ∧ decodeStatus st = some code ∧ v.sub.returncode = some code ∧ v.sub.exitCb = none := by
  unfold GoodN at hg
  split at hg
  · exact absurd hg.2.2.2.2.1 hc
  · rename_i st heq
    rcases hg with hg | hg | hg
    · exact absurd hg.2.2.2.1 hc
    · exact absurd hg.1.2.2.1 hc
    · obtain ⟨-, h4, h4c, -, r, m, lc, lf, -, h5, -, hlc⟩ := hg
      cases hd : decodeStatus st with
      | some code => exact ⟨st, code, heq, hd, by rw [h4, hd], h4c (by simp [hd])⟩
      | none =>
        exfalso
        apply hc
        rw [h5]
        have : lc = [] := by
          cases lc with
          | nil => rfl
          | cons k lc =>
            have := (hlc k (by simp)).2.1
            simp [hd] at this
        simp [this, doneCalls, hd]

/-- what is on record for a child with at least one registration once nothing is queued any more and the exit (if any)
has been noticed (a SIGCHLD handler run after it, or a registration after it): at least one invocation iff it exited
with a decodable status; every invocation carries the decoded code; the first settled future is the reporting
registration's -/
theorem settledN (c : Nat) (h : HistN) (v : View) (hg : GoodN c h v) (hq : v.q = []) (hr : h.regs ≠ [])
    (hrep : h.fe = none ∨ h.sig = true ∨ h.ra = true) :
    (∀ k ∈ v.calls, some k.code = h.fe.bind decodeStatus ∧ k.cleared = true) ∧
    (h.fe.bind decodeStatus ≠ none → v.calls ≠ []) ∧
    ∃ m ∈ h.regs, ∃ lf, v.futs.map (·.2.2) = ((h.fe.bind decodeStatus).toList).filterMap (futOf m) ++ lf := by
  refine ⟨fun k hk => (goodN_calls_code c h v hg k hk).2, ?_⟩
  obtain ⟨regs, fe, sig, ra⟩ := h
  cases fe with
  | none =>
    simp only [GoodN] at hg
    obtain ⟨-, -, -, -, h5, h6, -⟩ := hg
    obtain ⟨m, hm⟩ := List.exists_mem_of_ne_nil regs hr
    refine ⟨by simp, m, hm, [], ?_⟩
    simp [h6]
  | some st =>
    simp only [GoodN] at hg
    rcases hg with hg | hg | hg
    · obtain ⟨h2, -, -, -, -, -, -, h9, -⟩ := hg
      have := (h9 hr).2
      subst h2 this
      simp at hrep
    · rw [hq] at hg
      simp at hg
    · obtain ⟨-, -, -, -, r, m, lc, lf, hm, h5, h6, -⟩ := hg
      refine ⟨?_, m, hm, lf.map (·.2.2), ?_⟩
      · intro hne
        rw [h5]
        simp only [Option.bind_some] at hne
        cases hd : decodeStatus st with
        | none => exact absurd hd hne
        | some code => simp [doneCalls, hd]
      · rw [h6]; simp only [doneFuts, Option.bind_some, List.map_append]
        cases decodeStatus st with
        | none => simp
        | some code => cases hf : futOf m code <;> simp [hf]

/-- what one queued item makes the loop call, given the installed `_exit_callback` -/
def firedBy (c : Nat) (cb : Option (Nat × Mode)) : QI → List Call
  | .status st => (match cb with | some (r, _) => doneCalls c r st | none => [])
  | .late r _ code => [{ child := c, reg := r, code := code, cleared := true }]

theorem flatMap_firedBy_late (c : Nat) (cb : Option (Nat × Mode)) (q : List QI) (hq : ∀ qi ∈ q, isLate qi = true) :
    q.flatMap (firedBy c cb) = q.flatMap (lateCall c true) := by
  induction q with
  | nil => rfl
  | cons qi q ih =>
    have h1 := hq qi (by simp)
    have h2 : ∀ x ∈ q, isLate x = true := fun x hx => hq x (by simp [hx])
    cases qi with
    | status st => simp [isLate] at h1
    | late r m code => simp [List.flatMap_cons, firedBy, lateCall, ih h2]

/-- **which callbacks fire**: a drain adds to the child's invocation log exactly: for a queued status, the callback that
is installed in `_exit_callback` at that moment (the latest registration) with the decoded status; for every
registration made after the report, that registration's callback with the stored code — in queue order -/
theorem drain_fires_installed (c : Nat) (h : HistN) (v : View) (hg : GoodN c h v) :
    (vstep c v .drain).calls = v.calls ++ v.q.flatMap (firedBy c v.sub.exitCb) := by
  obtain ⟨regs, fe, sig, ra⟩ := h
  obtain ⟨⟨proc, exitCb, rc⟩, inW, init, q, nregs, calls, futs⟩ := v
  cases fe with
  | none =>
    simp only [GoodN] at hg
    obtain ⟨-, -, -, h4, -⟩ := hg
    subst h4
    simp [vstep]
  | some st =>
    simp only [GoodN] at hg
    rcases hg with hg | hg | hg
    · obtain ⟨-, -, h4, -⟩ := hg
      subst h4
      simp [vstep]
    · obtain ⟨⟨-, h4, h5, -, h7, h8, -⟩, -⟩ := hg
      subst h4 h5
      cases exitCb with
      | none =>
        exfalso
        simp only [Option.map_none] at h8
        exact h7 (List.getLast?_eq_none_iff.mp h8.symm)
      | some rm =>
        obtain ⟨r, m⟩ := rm
        cases hd : decodeStatus st <;> simp [vstep, vItem, vSet, doneCalls, firedBy, hd]
    · obtain ⟨-, -, h4c, hq, -⟩ := hg
      simp only [vstep]
      rw [fold_late c q _ (lateQ_isLate hq), flatMap_firedBy_late c _ q (lateQ_isLate hq)]
      cases q with
      | nil => simp
      | cons qi q' =>
        obtain ⟨_, _, k, -, hk, -⟩ := hq qi (by simp)
        have hn : exitCb = none := h4c (by simp [hk])
        subst hn
        rfl

/-- a registration made after the exit, followed by one drain: the callbacks of earlier late registrations still on
the loop run, then the new callback — exactly once, with the decoded code, `_exit_callback` cleared — whether or not the
exit had already been reported to an earlier registration -/
theorem reg_after_exit_view (c : Nat) (h : HistN) (v : View) (m : Mode) (st : Nat) (code : Int)
    (hg : GoodN c h v) (hfe : h.fe = some st) (hcode : decodeStatus st = some code) :
    (vstep c (vstep c v (.reg c m)) .drain).calls =
      v.calls ++ v.q.flatMap (lateCall c true) ++ [{ child := c, reg := v.nregs, code := code, cleared := true }] := by
  obtain ⟨regs, fe, sig, ra⟩ := h
  obtain ⟨⟨proc, exitCb, rc⟩, inW, init, q, nregs, calls, futs⟩ := v
  simp only at hfe
  subst hfe
  simp only [GoodN] at hg
  rcases hg with hg | hg | hg
  · obtain ⟨-, h3, h4, h5, -, -, -, -, h10⟩ := hg
    subst h3 h4 h5 h10
    simp [vstep, vTry, vItem, vSet, hcode]
  · obtain ⟨⟨h3, h4, h5, -, -, -, h10⟩, -⟩ := hg
    subst h3 h4 h5 h10
    simp [vstep, vTry, vItem, vSet, hcode, lateCall]
  · obtain ⟨h3, h4, h4c, hq, -⟩ := hg
    rw [hcode] at h4
    have hn : exitCb = none := h4c (by simp [hcode])
    subst h3 h4 hn
    have hl : ∀ qi ∈ q ++ [QI.late nregs m code], isLate qi = true := by
      intro qi hqi
      simp only [List.mem_append, List.mem_singleton] at hqi
      rcases hqi with hqi | hqi
      · exact lateQ_isLate hq qi hqi
      · subst hqi; rfl
    simp only [vstep, ↓reduceIte]
    rw [fold_late c _ _ hl]
    simp [List.flatMap_append, lateCall]

/-! ### a registration made after the report is called -/

/-- registration `n` (mode `m`) made when `returncode = code` was already set: its callback is on the loop, or it has
been called (and its `wait_for_exit` future settled) -/
def Live (c n : Nat) (m : Mode) (code : Int) (v : View) : Prop :=
  (QI.late n m code ∈ v.q ∧ v.sub.exitCb = none ∧ v.sub.returncode.isSome = true) ∨
  (({ child := c, reg := n, code := code, cleared := true } : Call) ∈ v.calls ∧
    ∀ f, futOf m code = some f → (c, n, f) ∈ v.futs)

theorem vItem_mono (c : Nat) (v : View) (qi : QI) :
    (∀ k ∈ v.calls, k ∈ (vItem c v qi).calls) ∧ (∀ f ∈ v.futs, f ∈ (vItem c v qi).futs) := by
  cases qi with
  | late r m code => simp [vItem, vLate]; exact ⟨fun k hk => Or.inl hk, fun a b f hf => Or.inl hf⟩
  | status st =>
    simp only [vItem]
    unfold vSet
    split
    · exact ⟨fun k hk => hk, fun f hf => hf⟩
    · split
      · exact ⟨fun k hk => hk, fun f hf => hf⟩
      · exact ⟨fun k hk => List.mem_append_left _ hk, fun f hf => List.mem_append_left _ hf⟩

theorem fold_mono (c : Nat) (q : List QI) (v : View) :
    (∀ k ∈ v.calls, k ∈ (q.foldl (vItem c) v).calls) ∧ (∀ f ∈ v.futs, f ∈ (q.foldl (vItem c) v).futs) := by
  induction q generalizing v with
  | nil => exact ⟨fun k hk => hk, fun f hf => hf⟩
  | cons qi q ih =>
    simp only [List.foldl_cons]
    exact ⟨fun k hk => (ih _).1 k ((vItem_mono c v qi).1 k hk), fun f hf => (ih _).2 f ((vItem_mono c v qi).2 f hf)⟩

theorem vItem_keeps_cleared (c : Nat) (v : View) (qi : QI) (h1 : v.sub.exitCb = none)
    (h2 : v.sub.returncode.isSome = true) :
    (vItem c v qi).sub.exitCb = none ∧ (vItem c v qi).sub.returncode.isSome = true := by
  cases qi with
  | late r m code => exact ⟨h1, h2⟩
  | status st =>
    simp only [vItem]
    unfold vSet
    split
    · exact ⟨h1, h2⟩
    · simp [h1]

theorem fold_fires (c n : Nat) (m : Mode) (code : Int) (q : List QI) (v : View) (hmem : QI.late n m code ∈ q)
    (h1 : v.sub.exitCb = none) (h2 : v.sub.returncode.isSome = true) :
    ({ child := c, reg := n, code := code, cleared := true } : Call) ∈ (q.foldl (vItem c) v).calls ∧
    ∀ f, futOf m code = some f → (c, n, f) ∈ (q.foldl (vItem c) v).futs := by
  induction q generalizing v with
  | nil => simp at hmem
  | cons qi q ih =>
    simp only [List.foldl_cons]
    simp only [List.mem_cons] at hmem
    rcases hmem with hmem | hmem
    · subst hmem
      have hc : ({ child := c, reg := n, code := code, cleared := true } : Call) ∈ (vItem c v (.late n m code)).calls := by
        simp [vItem, vLate, h1]
      have hf : ∀ f, futOf m code = some f → (c, n, f) ∈ (vItem c v (.late n m code)).futs := by
        intro f hf
        simp [vItem, vLate, hf]
      exact ⟨(fold_mono c q _).1 _ hc, fun f h => (fold_mono c q _).2 _ (hf f h)⟩
    · obtain ⟨g1, g2⟩ := vItem_keeps_cleared c v qi h1 h2
      exact ih _ hmem g1 g2

theorem live_step (c n : Nat) (m : Mode) (code : Int) (v : View) (op : Op) (h : Live c n m code v) :
    Live c n m code (vstep c v op) := by
  rcases h with ⟨h0, h1, h2⟩ | ⟨h0, h1⟩
  · cases op with
    | exit d st =>
      by_cases hd : d = c
      · simp only [vstep, hd, ↓reduceIte]
        split
        · exact Or.inl ⟨h0, h1, h2⟩
        · exact Or.inl ⟨h0, h1, h2⟩
      · simp only [vstep, hd, ↓reduceIte]
        exact Or.inl ⟨h0, h1, h2⟩
    | reg d m' =>
      by_cases hd : d = c
      · obtain ⟨code', hc'⟩ := Option.isSome_iff_exists.mp h2
        simp only [vstep, hd, ↓reduceIte, hc']
        exact Or.inl ⟨List.mem_append_left _ h0, h1, by simp [hc']⟩
      · simp only [vstep, hd, ↓reduceIte]
        exact Or.inl ⟨h0, h1, h2⟩
    | sigchld =>
      simp only [vstep]
      split
      · unfold vTry
        split
        · exact Or.inl ⟨List.mem_append_left _ h0, h1, h2⟩
        · exact Or.inl ⟨h0, h1, h2⟩
      · exact Or.inl ⟨h0, h1, h2⟩
    | drain =>
      simp only [vstep]
      exact Or.inr (fold_fires c n m code v.q _ h0 h1 h2)
  · have key : ∀ w : View, (∀ k ∈ v.calls, k ∈ w.calls) → (∀ f ∈ v.futs, f ∈ w.futs) → Live c n m code w :=
      fun w hc hf => Or.inr ⟨hc _ h0, fun f hfo => hf _ (h1 f hfo)⟩
    cases op with
    | exit d st =>
      by_cases hd : d = c
      · simp only [vstep, hd, ↓reduceIte]
        split <;> exact key _ (fun k hk => hk) (fun f hf => hf)
      · simp only [vstep, hd, ↓reduceIte]
        exact key _ (fun k hk => hk) (fun f hf => hf)
    | reg d m' =>
      by_cases hd : d = c
      · simp only [vstep, hd, ↓reduceIte]
        split
        · exact key _ (fun k hk => hk) (fun f hf => hf)
        · unfold vTry
          split <;> exact key _ (fun k hk => hk) (fun f hf => hf)
      · simp only [vstep, hd, ↓reduceIte]
        exact key _ (fun k hk => hk) (fun f hf => hf)
    | sigchld =>
      simp only [vstep]
      split
      · unfold vTry
        split <;> exact key _ (fun k hk => hk) (fun f hf => hf)
      · exact key _ (fun k hk => hk) (fun f hf => hf)
    | drain =>
      simp only [vstep]
      exact key _ (fold_mono c v.q { v with q := [] }).1 (fold_mono c v.q { v with q := [] }).2

theorem live_run (c n : Nat) (m : Mode) (code : Int) (ops : List Op) (v : View) (h : Live c n m code v) :
    Live c n m code (ops.foldl (vstep c) v) := by
  induction ops generalizing v with
  | nil => exact h
  | cons op ops ih => exact ih _ (live_step c n m code v op h)

end TornadoModel.C42
