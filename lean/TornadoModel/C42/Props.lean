/-
C42 — property theorems for the model of `Subprocess` exit reporting (C42/Model.lean).
Quantification: every history of {child exits, registrations, SIGCHLD handler runs, loop drains} over any number of
children, in any order.
-/
import TornadoModel.C42.Lemmas
import TornadoModel.C42.Rereg
namespace TornadoModel.C42

/-! ### status decoding -/

/-- **status_decoding**: `_set_returncode` agrees with the POSIX reading of the wait status on every status
(in particular all 16-bit ones): minus the signal number for a signalled child, the exit code otherwise. -/
theorem status_decoding (st : Nat) : decodeStatus st = Spec.returncode st := by
  unfold decodeStatus Spec.returncode ifSignaled ifExited termSig exitStatus
  by_cases h0 : st % 128 = 0
  · simp [h0]
  · by_cases h1 : st % 128 = 127 <;> simp [h0, h1]

theorem status_decoding_signal (sig : Nat) (core : Bool) (h0 : 0 < sig) (h1 : sig < 127) :
    decodeStatus (sig + (if core then 128 else 0)) = some (-(Int.ofNat sig)) := by
  unfold decodeStatus ifSignaled termSig
  have : (sig + (if core then 128 else 0)) % 128 = sig := by cases core <;> simp <;> omega
  simp [this]
  omega

theorem status_decoding_exit (code : Nat) (h : code < 256) : decodeStatus (code * 256) = some (Int.ofNat code) := by
  unfold decodeStatus ifSignaled ifExited termSig exitStatus
  have h1 : code * 256 % 128 = 0 := by omega
  have h2 : code * 256 / 256 % 256 = code := by omega
  simp [h1, h2]
  omega

/-! ### the history of one child, and the phase invariant -/
structure Hist where
  regs : List Mode
  fe : Option Nat
  sig : Bool          -- the SIGCHLD handler has run since the first exit

def hstep (c : Nat) (h : Hist) : Op → Hist
  | .exit d st => if d = c then { h with fe := h.fe.or (some st) } else h
  | .reg d m => if d = c then { h with regs := h.regs ++ [m] } else h
  | .sigchld => if h.fe.isSome then { h with sig := true } else h
  | .drain => h

theorem hist_fold (c : Nat) (ops : List Op) (h : Hist) :
    ops.foldl (hstep c) h = { regs := h.regs ++ Spec.regsOf c ops, fe := h.fe.or (Spec.firstExit c ops),
                              sig := h.sig || (if h.fe.isSome then ops.any Spec.isSigchld else Spec.sigAfter c ops) } := by
  induction ops generalizing h with
  | nil => obtain ⟨r, fe, sg⟩ := h; cases fe <;> simp [Spec.regsOf, Spec.firstExit, Spec.sigAfter]
  | cons op ops ih =>
    simp only [List.foldl_cons, ih]
    cases op with
    | exit d st =>
      by_cases hd : d = c
      · cases hf : h.fe <;> simp [hstep, hd, Spec.regsOf, Spec.firstExit, Spec.sigAfter, Spec.isSigchld, hf]
      · cases hf : h.fe <;> simp [hstep, hd, Spec.regsOf, Spec.firstExit, Spec.sigAfter, Spec.isSigchld, hf]
    | reg d m =>
      by_cases hd : d = c <;> cases hf : h.fe <;>
        simp [hstep, hd, Spec.regsOf, Spec.firstExit, Spec.sigAfter, Spec.isSigchld, hf]
    | sigchld => cases hf : h.fe <;> simp [hstep, Spec.regsOf, Spec.firstExit, Spec.sigAfter, Spec.isSigchld, hf]
    | drain => cases hf : h.fe <;> simp [hstep, Spec.regsOf, Spec.firstExit, Spec.sigAfter, Spec.isSigchld, hf]

/-- what the model may look like for child `c` after a history with registrations `h.regs` and first exit `h.fe` -/
def Good (c : Nat) (h : Hist) (v : View) : Prop :=
  match h.regs, h.fe with
  | [], none => h.sig = false ∧ v.sub.proc = .running ∧ v.sub.exitCb = none ∧ v.inW = false ∧ v.q = [] ∧ v.calls = [] ∧ v.futs = [] ∧
      v.sub.returncode = none
  | [], some st => v.sub.proc = .zombie st ∧ v.sub.exitCb = none ∧ v.inW = false ∧ v.q = [] ∧ v.calls = [] ∧ v.futs = [] ∧
      v.sub.returncode = none
  | [m], none => ∃ r, h.sig = false ∧ v.sub.proc = .running ∧ v.sub.exitCb = some (r, m) ∧ v.inW = true ∧ v.init = true ∧
      v.q = [] ∧ v.calls = [] ∧ v.futs = []
  | [m], some st => ∃ r,
      (h.sig = false ∧ v.sub.proc = .zombie st ∧ v.sub.exitCb = some (r, m) ∧ v.inW = true ∧ v.init = true ∧
        v.q = [] ∧ v.calls = [] ∧ v.futs = []) ∨
      (v.sub.proc = .reaped ∧ v.sub.exitCb = some (r, m) ∧ v.inW = false ∧ v.q = [.status st] ∧ v.calls = [] ∧ v.futs = []) ∨
      (v.sub.proc = .reaped ∧ v.inW = false ∧ v.q = [] ∧ v.calls = doneCalls c r st ∧ v.futs = doneFuts c r m st)
  | _, _ => True

theorem good_step (c : Nat) (h : Hist) (v : View) (op : Op) (hg : Good c h v) :
    Good c (hstep c h op) (vstep c v op) := by
  obtain ⟨regs, fe, sig⟩ := h
  obtain ⟨⟨proc, exitCb, rc⟩, inW, init, q, nregs, calls, futs⟩ := v
  rcases regs with _ | ⟨m, _ | ⟨m2, tl⟩⟩
  · -- not registered yet
    rcases fe with _ | st
    · cases op with
      | exit d st' => by_cases hd : d = c <;> simp_all [Good, hstep, vstep]
      | reg d m' => by_cases hd : d = c <;> simp_all [Good, hstep, vstep, vTry]
      | sigchld => simp_all [Good, hstep, vstep]
      | drain => simp_all [Good, hstep, vstep]
    · cases op with
      | exit d st' => by_cases hd : d = c <;> simp_all [Good, hstep, vstep]
      | reg d m' => by_cases hd : d = c <;> simp_all [Good, hstep, vstep, vTry]
      | sigchld => simp_all [Good, hstep, vstep]
      | drain => simp_all [Good, hstep, vstep]
  · -- exactly one registration
    rcases fe with _ | st
    · cases op with
      | exit d st' => by_cases hd : d = c <;> simp_all [Good, hstep, vstep]
      | reg d m' => by_cases hd : d = c <;> simp_all [Good, hstep, vstep, vTry]
      | sigchld => simp_all [Good, hstep, vstep, vTry]
      | drain => simp_all [Good, hstep, vstep]
    · simp only [Good] at hg
      obtain ⟨r, hg⟩ := hg
      cases op with
      | exit d st' =>
        by_cases hd : d = c
        · rcases hg with hg | hg | hg <;> simp_all [Good, hstep, vstep] <;> exact ⟨r, rfl, rfl⟩
        · rcases hg with hg | hg | hg <;> simp_all [Good, hstep, vstep] <;> exact ⟨r, rfl, rfl⟩
      | reg d m' =>
        by_cases hd : d = c
        · simp_all [Good, hstep, vstep, vTry]
        · rcases hg with hg | hg | hg <;> simp_all [Good, hstep, vstep] <;> exact ⟨r, rfl, rfl⟩
      | sigchld =>
        rcases hg with hg | hg | hg <;> simp_all [Good, hstep, vstep, vTry] <;> exact ⟨r, rfl, rfl⟩
      | drain =>
        rcases hg with hg | hg | hg
        · simp_all [Good, hstep, vstep]
        · refine ⟨r, Or.inr (Or.inr ?_)⟩
          cases hd : decodeStatus st with
          | none => simp_all [hstep, vstep, vItem, vSet, doneCalls, doneFuts]
          | some code =>
            simp_all [hstep, vstep, vItem, vSet, doneCalls, doneFuts]
            try (cases futOf m code <;> rfl)
        · simp_all [Good, hstep, vstep]
          exact ⟨r, rfl, rfl⟩
  · -- registered more than once: nothing is claimed
    cases op with
    | exit d st' => by_cases hd : d = c <;> simp [Good, hstep, hd]
    | reg d m' => by_cases hd : d = c <;> simp [Good, hstep, hd]
    | sigchld => cases fe <;> simp [Good, hstep]
    | drain => simp [Good, hstep]

theorem good_run (c : Nat) (ops : List Op) (h : Hist) (v : View) (hg : Good c h v) :
    Good c (ops.foldl (hstep c) h) (ops.foldl (vstep c) v) := by
  induction ops generalizing h v with
  | nil => exact hg
  | cons op ops ih => exact ih _ _ (good_step c h v op hg)

theorem good_init (c : Nat) : Good c { regs := [], fe := none, sig := false } (view init c) := by
  simp [Good, view, init]

/-- the phase invariant holds after every history -/
theorem good_after (c : Nat) (ops : List Op) :
    Good c { regs := Spec.regsOf c ops, fe := Spec.firstExit c ops, sig := Spec.sigAfter c ops } (view (run ops) c) := by
  have := good_run c ops _ _ (good_init c)
  rw [hist_fold] at this
  simpa [run, view_run_gen] using this

def callsOf (s : St) (c : Nat) : List Call := s.calls.filter (fun k => k.child == c)
def futsOf (s : St) (c : Nat) : List (Nat × Nat × Fut) := s.futs.filter (fun f => f.1 == c)

/-- from any phase of a once-registered, exited child: one SIGCHLD handler run and one drain settle everything -/
theorem settle (c : Nat) (m : Mode) (st : Nat) (sig : Bool) (v : View)
    (hg : Good c { regs := [m], fe := some st, sig := sig } v) :
    ∃ r, (vstep c (vstep c v .sigchld) .drain).calls = doneCalls c r st ∧
         (vstep c (vstep c v .sigchld) .drain).futs = doneFuts c r m st := by
  obtain ⟨⟨proc, exitCb, rc⟩, inW, init, q, nregs, calls, futs⟩ := v
  simp only [Good] at hg
  obtain ⟨r, hg⟩ := hg
  refine ⟨r, ?_⟩
  rcases hg with hg | hg | hg
  · cases hd : decodeStatus st with
    | none => simp_all [vstep, vTry, vItem, vSet, doneCalls, doneFuts]
    | some code =>
      simp_all [vstep, vTry, vItem, vSet, doneCalls, doneFuts]
      try (cases futOf m code <;> rfl)
  · cases hd : decodeStatus st with
    | none => simp_all [vstep, vTry, vItem, vSet, doneCalls, doneFuts]
    | some code =>
      simp_all [vstep, vTry, vItem, vSet, doneCalls, doneFuts]
      try (cases futOf m code <;> rfl)
  · simp_all [vstep, vTry, vItem, vSet]

/-- … and if the SIGCHLD handler has already run since the exit, one drain is enough -/
theorem settle_drain (c : Nat) (m : Mode) (st : Nat) (v : View)
    (hg : Good c { regs := [m], fe := some st, sig := true } v) :
    ∃ r, (vstep c v .drain).calls = doneCalls c r st ∧ (vstep c v .drain).futs = doneFuts c r m st := by
  obtain ⟨⟨proc, exitCb, rc⟩, inW, init, q, nregs, calls, futs⟩ := v
  simp only [Good] at hg
  obtain ⟨r, hg⟩ := hg
  refine ⟨r, ?_⟩
  rcases hg with hg | hg | hg
  · simp at hg
  · cases hd : decodeStatus st with
    | none => simp_all [vstep, vItem, vSet, doneCalls, doneFuts]
    | some code =>
      simp_all [vstep, vItem, vSet, doneCalls, doneFuts]
      try (cases futOf m code <;> rfl)
  · simp_all [vstep, vItem, vSet]

theorem view_settled (ops : List Op) (c : Nat) :
    view (run (ops ++ [.sigchld, .drain])) c = vstep c (vstep c (view (run ops) c) .sigchld) .drain := by
  simp [run, List.foldl_append, view_step]

theorem view_drained (ops : List Op) (c : Nat) :
    view (run (ops ++ [.drain])) c = vstep c (view (run ops) c) .drain := by
  simp [run, List.foldl_append, view_step]

/-- the kernel's guarantee for child `c` in history `ops`: if `c` exits, the SIGCHLD handler runs afterwards -/
def Delivered (c : Nat) (ops : List Op) : Prop := Spec.firstExit c ops = none ∨ Spec.sigAfter c ops = true

/-- **callback_exactly_once**: take any history `ops` (any number of children, any order of exits, registrations,
SIGCHLD handler runs — coalesced, spurious, repeated — and loop drains) in which child `c` is registered exactly
once (mode `m`) and in which the SIGCHLD handler runs at some point after `c`'s exit (before *or* after the
registration).  After one more loop drain the exit callback of `c` has been called exactly as the specification
says: once with the decoded status of its (first) exit if it has exited, not at all otherwise — and
`_exit_callback` was already cleared when it ran. -/
theorem callback_exactly_once (c : Nat) (m : Mode) (ops : List Op) (hreg : Spec.regsOf c ops = [m])
    (hdel : Delivered c ops) :
    (callsOf (run (ops ++ [.drain])) c).map (·.code) = Spec.expect c ops ∧
    ∀ k ∈ callsOf (run (ops ++ [.drain])) c, k.cleared = true := by
  have hg := good_after c ops
  rw [hreg] at hg
  have hc : callsOf (run (ops ++ [.drain])) c = (view (run (ops ++ [.drain])) c).calls := rfl
  rw [hc, view_drained]
  cases hfe : Spec.firstExit c ops with
  | none =>
    rw [hfe] at hg
    have h3 := good_step c _ _ .drain hg
    simp only [hstep, Good] at h3
    obtain ⟨r, h3⟩ := h3
    simp [h3, Spec.expect, hfe]
  | some st =>
    have hs : Spec.sigAfter c ops = true := by
      rcases hdel with h | h
      · simp [hfe] at h
      · exact h
    rw [hfe, hs] at hg
    obtain ⟨r, h1, -⟩ := settle_drain c m st _ hg
    rw [h1]
    simp only [Spec.expect, hfe, ← status_decoding, doneCalls]
    cases decodeStatus st <;> simp

/-- the same after a final SIGCHLD handler run + drain, with no assumption on earlier deliveries -/
theorem callback_exactly_once_after_sigchld (c : Nat) (m : Mode) (ops : List Op) (hreg : Spec.regsOf c ops = [m]) :
    (callsOf (run (ops ++ [.sigchld, .drain])) c).map (·.code) = Spec.expect c ops ∧
    ∀ k ∈ callsOf (run (ops ++ [.sigchld, .drain])) c, k.cleared = true := by
  have hg := good_after c ops
  rw [hreg] at hg
  have hc : callsOf (run (ops ++ [.sigchld, .drain])) c = (view (run (ops ++ [.sigchld, .drain])) c).calls := rfl
  rw [hc, view_settled]
  cases hfe : Spec.firstExit c ops with
  | none =>
    rw [hfe] at hg
    have h3 := good_step c _ _ .drain (good_step c _ _ .sigchld hg)
    simp only [hstep, Good] at h3
    obtain ⟨r, h3⟩ := h3
    simp [h3, Spec.expect, hfe]
  | some st =>
    rw [hfe] at hg
    obtain ⟨r, h1, -⟩ := settle c m st _ _ hg
    rw [h1]
    simp only [Spec.expect, hfe, ← status_decoding, doneCalls]
    cases decodeStatus st <;> simp

/-- the future of `wait_for_exit(raise_error)` as the model settles it = as the property states it -/
theorem futOf_eq_spec (m : Mode) (code : Int) : futOf m code = Spec.futOutcome m code := by
  cases m with
  | cb => rfl
  | wait re => cases re <;> by_cases h : code = 0 <;> simp [futOf, Spec.futOutcome, h]

/-- **wait_for_exit_outcome**: under the same conditions, a `wait_for_exit` future of child `c` is settled exactly
when the child has exited, with the exit code — or with CalledProcessError(code) when `raise_error` and code ≠ 0;
a plain `set_exit_callback` registration settles no future. -/
theorem wait_for_exit_outcome (c : Nat) (m : Mode) (ops : List Op) (hreg : Spec.regsOf c ops = [m])
    (hdel : Delivered c ops) :
    (futsOf (run (ops ++ [.drain])) c).map (·.2.2) = (Spec.expect c ops).filterMap (Spec.futOutcome m) := by
  have hg := good_after c ops
  rw [hreg] at hg
  have hc : futsOf (run (ops ++ [.drain])) c = (view (run (ops ++ [.drain])) c).futs := rfl
  rw [hc, view_drained]
  cases hfe : Spec.firstExit c ops with
  | none =>
    rw [hfe] at hg
    have h3 := good_step c _ _ .drain hg
    simp only [hstep, Good] at h3
    obtain ⟨r, h3⟩ := h3
    simp [h3, Spec.expect, hfe]
  | some st =>
    have hs : Spec.sigAfter c ops = true := by
      rcases hdel with h | h
      · simp [hfe] at h
      · exact h
    rw [hfe, hs] at hg
    obtain ⟨r, -, h2⟩ := settle_drain c m st _ hg
    rw [h2]
    simp only [Spec.expect, hfe, ← status_decoding, doneFuts]
    cases decodeStatus st with
    | none => simp
    | some code =>
      have hf := futOf_eq_spec m code
      cases hfo : futOf m code <;> simp [← hf, hfo]

/-- exit *before* registration, SIGCHLD already consumed before the registration: still reported -/
example : Delivered 1 [.reg 0 .cb, .exit 1 9, .sigchld, .reg 1 (.wait true), .exit 0 256, .sigchld] := by
  simp [Delivered, Spec.sigAfter, Spec.isSigchld]
example : Spec.regsOf 1 [.reg 0 .cb, .exit 1 9, .sigchld, .reg 1 (.wait true), .exit 0 256] = [.wait true] := by decide
example : (callsOf (run ([.reg 0 .cb, .exit 1 9, .sigchld, .reg 1 (.wait true), .exit 0 256] ++ [.drain])) 1).map (·.code)
    = [-9] := by decide
example : (futsOf (run ([.reg 0 .cb, .exit 1 9, .sigchld, .reg 1 (.wait true), .exit 0 256] ++ [.drain])) 1).map (·.2.2)
    = [.calledProcessError (-9)] := by decide

/-- **no leak**: under the same conditions a child that has exited is no longer in `Subprocess._waiting`, nothing
about it is left in the loop's queue, and it has been reaped by tornado -/
theorem reported_child_released (c : Nat) (m : Mode) (ops : List Op) (st : Nat) (hreg : Spec.regsOf c ops = [m])
    (hfe : Spec.firstExit c ops = some st) (hsig : Spec.sigAfter c ops = true) :
    (run (ops ++ [.drain])).waiting.contains c = false ∧
    ((run (ops ++ [.drain])).queue.filter (fun e => e.1 == c)) = [] ∧
    ((run (ops ++ [.drain])).subs c).proc = .reaped := by
  have key : ∀ v : View, Good c { regs := [m], fe := some st, sig := true } v →
      (vstep c v .drain).inW = false ∧ (vstep c v .drain).q = [] ∧ (vstep c v .drain).sub.proc = .reaped := by
    intro v hg
    obtain ⟨⟨proc, exitCb, rc⟩, inW, ini, q, nregs, calls, futs⟩ := v
    simp only [Good] at hg
    obtain ⟨r, hg⟩ := hg
    rcases hg with hg | hg | hg
    · simp at hg
    · cases hd : decodeStatus st <;> simp_all [vstep, vItem, vSet]
    · simp_all [vstep, vItem, vSet]
  have hg := good_after c ops
  rw [hreg, hfe, hsig] at hg
  have k := key _ hg
  rw [← view_drained] at k
  simp only [view] at k
  refine ⟨k.1, ?_, k.2.2⟩
  have := k.2.1
  simpa using this

/-! ### at most once, for every history (re-registrations included) -/
def lateRegs (q : List QI) : List Nat :=
  q.flatMap fun qi => match qi with | .late r _ _ => [r] | .status _ => []

/-- registration numbers that have been invoked or whose invocation is scheduled (`pend`) -/
def used (pend : List QI) (v : View) : List Nat := v.calls.map (·.reg) ++ lateRegs pend

def Inv2 (pend : List QI) (v : View) : Prop :=
  (used pend v).Nodup ∧ (∀ r ∈ used pend v, r < v.nregs) ∧
  (∀ r m, v.sub.exitCb = some (r, m) → r < v.nregs ∧ r ∉ used pend v)

theorem lateRegs_status (q : List QI) (st : Nat) : lateRegs (q ++ [.status st]) = lateRegs q := by
  simp [lateRegs, List.flatMap_append]

theorem lateRegs_late (q : List QI) (r : Nat) (m : Mode) (k : Int) : lateRegs (q ++ [.late r m k]) = lateRegs q ++ [r] := by
  simp [lateRegs, List.flatMap_append]

theorem inv2_vTry (v : View) (h : Inv2 v.q v) : Inv2 (vTry v).q (vTry v) := by
  unfold vTry
  split
  · simpa [Inv2, used, lateRegs_status] using h
  · exact h

theorem inv2_vItem (c : Nat) (v : View) (qi : QI) (rest : List QI) (h : Inv2 (qi :: rest) v) :
    Inv2 rest (vItem c v qi) := by
  cases qi with
  | late r m code =>
    have hu : used rest (vItem c v (.late r m code)) = used (.late r m code :: rest) v := by
      simp [used, vItem, vLate, lateRegs, List.flatMap_cons]
    obtain ⟨h1, h2, h3⟩ := h
    exact ⟨by rw [hu]; exact h1, by rw [hu]; exact h2, by rw [hu]; exact h3⟩
  | status st =>
    have hu0 : used (.status st :: rest) v = used rest v := by simp [used, lateRegs, List.flatMap_cons]
    rw [Inv2, hu0] at h
    simp only [vItem]
    unfold vSet
    cases hd : decodeStatus st with
    | none => exact h
    | some code =>
      simp only
      cases he : v.sub.exitCb with
      | none =>
        obtain ⟨h1, h2, -⟩ := h
        exact ⟨h1, h2, by simp⟩
      | some rm =>
        obtain ⟨r, m⟩ := rm
        obtain ⟨h1, h2, h3⟩ := h
        obtain ⟨h4, h5⟩ := h3 r m he
        have h1' : (v.calls.map (·.reg) ++ lateRegs rest).Nodup := h1
        have h2' : ∀ x ∈ v.calls.map (·.reg) ++ lateRegs rest, x < v.nregs := h2
        have h5' : r ∉ v.calls.map (·.reg) ++ lateRegs rest := h5
        refine ⟨?_, ?_, by simp⟩
        · simp only [used, List.map_append, List.map_cons, List.map_nil, List.append_assoc, List.singleton_append]
          obtain ⟨nA, nB, hAB⟩ := List.nodup_append.mp h1'
          simp only [List.mem_append, not_or] at h5'
          rw [List.nodup_append]
          refine ⟨nA, List.nodup_cons.mpr ⟨h5'.2, nB⟩, ?_⟩
          intro a ha b hb
          simp only [List.mem_cons] at hb
          rcases hb with hb | hb
          · subst hb
            exact fun hab => h5'.1 (hab ▸ ha)
          · exact hAB a ha b hb
        · simp only [used, List.map_append, List.map_cons, List.map_nil, List.append_assoc, List.singleton_append]
          intro x hx
          simp only [List.mem_append, List.mem_cons] at hx
          rcases hx with hx | hx | hx
          · exact h2' x (List.mem_append_left _ hx)
          · rw [hx]; exact h4
          · exact h2' x (List.mem_append_right _ hx)

theorem inv2_fold (c : Nat) (q : List QI) (v : View) (h : Inv2 q v) : Inv2 [] (q.foldl (vItem c) v) := by
  induction q generalizing v with
  | nil => exact h
  | cons qi q ih => exact ih _ (inv2_vItem c v qi q h)

theorem inv2_step (c : Nat) (v : View) (op : Op) (h : Inv2 v.q v) : Inv2 (vstep c v op).q (vstep c v op) := by
  cases op with
  | exit d st =>
    simp only [vstep]
    split
    · split
      · exact h
      · exact h
    · exact h
  | reg d m =>
    simp only [vstep]
    obtain ⟨h1, h2, h3⟩ := h
    split
    · split
      · -- registration after the report: its number is fresh
        rename_i code hrc
        have hu : used (v.q ++ [QI.late v.nregs m code])
            { v with nregs := v.nregs + 1, init := true, q := v.q ++ [QI.late v.nregs m code] } = used v.q v ++ [v.nregs] := by
          simp [used, lateRegs_late]
        have hfresh : v.nregs ∉ used v.q v := fun hx => Nat.lt_irrefl _ (h2 _ hx)
        refine ⟨?_, ?_, ?_⟩
        · rw [hu, List.nodup_append]
          refine ⟨h1, by simp, ?_⟩
          intro a ha b hb
          simp only [List.mem_singleton] at hb
          subst hb
          exact fun hab => hfresh (hab ▸ ha)
        · rw [hu]
          intro x hx
          simp only [List.mem_append, List.mem_singleton] at hx
          rcases hx with hx | hx
          · exact Nat.lt_succ_of_lt (h2 x hx)
          · rw [hx]; exact Nat.lt_succ_self _
        · intro r m' he
          rw [hu]
          obtain ⟨g1, g2⟩ := h3 r m' he
          refine ⟨Nat.lt_succ_of_lt g1, ?_⟩
          simp only [List.mem_append, List.mem_singleton, not_or]
          exact ⟨g2, Nat.ne_of_lt g1⟩
      · apply inv2_vTry
        refine ⟨h1, fun r hr => Nat.lt_succ_of_lt (h2 r hr), ?_⟩
        intro r m' he
        simp only [Option.some.injEq, Prod.mk.injEq] at he
        obtain ⟨he1, -⟩ := he
        subst he1
        exact ⟨Nat.lt_succ_self _, fun hx => Nat.lt_irrefl _ (h2 _ hx)⟩
    · refine ⟨h1, fun r hr => Nat.lt_succ_of_lt (h2 r hr), ?_⟩
      intro r m' he
      exact ⟨Nat.lt_succ_of_lt (h3 r m' he).1, (h3 r m' he).2⟩
  | sigchld =>
    simp only [vstep]
    split
    · exact inv2_vTry v h
    · exact h
  | drain =>
    simp only [vstep, fold_vItem_q]
    exact inv2_fold c v.q _ h

/-- **callback_at_most_once**: in every history whatsoever, no registration's callback is invoked twice. -/
theorem callback_at_most_once (c : Nat) (ops : List Op) : ((callsOf (run ops) c).map (·.reg)).Nodup := by
  have h0 : Inv2 (view init c).q (view init c) := by simp [Inv2, used, lateRegs, view, init]
  have : ∀ (ops : List Op) (v : View), Inv2 v.q v → Inv2 (ops.foldl (vstep c) v).q (ops.foldl (vstep c) v) := by
    intro ops
    induction ops with
    | nil => exact fun v h => h
    | cons op ops ih => exact fun v h => ih _ (inv2_step c v op h)
  have h := this ops _ h0
  rw [← view_run_gen] at h
  exact (List.nodup_append.mp h.1).1

/-! ### signal deaths through `wait_for_exit` -/

/-- **wait_for_exit_signal_death**: a child killed by a signal (`st % 128` = the signal number, 1..126; core-dump flag
and upper byte arbitrary) whose exit is awaited with `wait_for_exit(raise_error)`: once delivered and drained, the
future has failed with `CalledProcessError(-signal)` when `raise_error` is set, and resolved with the *negative*
signal number when it is not — exactly once. -/
theorem wait_for_exit_signal_death (c : Nat) (re : Bool) (ops : List Op) (st : Nat)
    (hreg : Spec.regsOf c ops = [.wait re]) (hfe : Spec.firstExit c ops = some st)
    (h0 : st % 128 ≠ 0) (h1 : st % 128 ≠ 127) (hdel : Delivered c ops) :
    (futsOf (run (ops ++ [.drain])) c).map (·.2.2) =
      [if re then .calledProcessError (-(Int.ofNat (st % 128))) else .result (-(Int.ofNat (st % 128)))] ∧
    (callsOf (run (ops ++ [.drain])) c).map (·.code) = [-(Int.ofNat (st % 128))] := by
  have hrc : Spec.returncode st = some (-(Int.ofNat (st % 128))) := by
    simp [Spec.returncode, h0, h1]
  have hne : -(Int.ofNat (st % 128)) ≠ 0 := by
    simp only [Int.ofNat_eq_natCast, ne_eq, Int.neg_eq_zero]
    omega
  refine ⟨?_, ?_⟩
  · rw [wait_for_exit_outcome c (.wait re) ops hreg hdel]
    simp only [Spec.expect, hfe, hrc, Option.toList_some, List.filterMap_cons, List.filterMap_nil]
    have hne' : ¬ ((st : Int) % 128 = 0) := by omega
    cases re <;> simp [Spec.futOutcome, hne, hne']
  · rw [(callback_exactly_once c (.wait re) ops hreg hdel).1]
    simp [Spec.expect, hfe, hrc]

example : Spec.regsOf 0 [.reg 0 (.wait true), .exit 0 (128 + 11), .sigchld] = [.wait true] ∧
    Spec.firstExit 0 [.reg 0 (.wait true), .exit 0 (128 + 11), .sigchld] = some 139 ∧
    Delivered 0 [.reg 0 (.wait true), .exit 0 (128 + 11), .sigchld] := by
  simp [Delivered, Spec.sigAfter, Spec.isSigchld, Spec.regsOf, Spec.firstExit]
example : (futsOf (run ([.reg 0 (.wait true), .exit 0 (128 + 11), .sigchld] ++ [.drain])) 0).map (·.2.2)
    = [.calledProcessError (-11)] := by decide

/-! ### any number of registrations: replacement before the report, registration after it -/

/-- the exit of `c` (if any) has been noticed by tornado: the SIGCHLD handler ran at some point after it, or the child
was registered at some point after it (`set_exit_callback` reaps immediately) -/
def Noticed (c : Nat) (ops : List Op) : Prop :=
  Spec.firstExit c ops = none ∨ Spec.sigAfter c ops = true ∨ regAfter c ops = true

theorem expect_eq (c : Nat) (ops : List Op) :
    Spec.expect c ops = ((Spec.firstExit c ops).bind decodeStatus).toList := by
  unfold Spec.expect
  cases Spec.firstExit c ops with
  | none => rfl
  | some st => simp [status_decoding]

/-- **every_invocation_carries_the_code**: in every history whatsoever — any number of registrations, replacements,
registrations after the report, duplicate exit events, handler runs — every exit-callback invocation of a child was made
with the decoded status of its (first) exit, and with `_exit_callback` already cleared. -/
theorem every_invocation_carries_the_code (c : Nat) (ops : List Op) :
    ∀ k ∈ callsOf (run ops) c, [k.code] = Spec.expect c ops ∧ k.cleared = true := by
  intro k hk
  obtain ⟨-, h2, h3⟩ := goodN_calls_code c _ _ (goodN_after c ops) k hk
  refine ⟨?_, h3⟩
  rw [expect_eq]
  simp only at h2
  rw [← h2]
  rfl

/-- **callback_exactly_once_any_regs** (extends `callback_exactly_once` from one registration to any number ≥ 1, and
from "SIGCHLD after the exit" to "SIGCHLD *or a registration* after the exit"): after one more drain the child's exit
has been reported — at least one invocation iff it has exited (none otherwise), every invocation with the decoded
status and `_exit_callback` cleared, no registration invoked twice; the first settled `wait_for_exit` future is the
reporting registration's, settled as the property demands for its `raise_error` (further entries: registrations made
after the report, see `late_registration_fires`). -/
theorem callback_exactly_once_any_regs (c : Nat) (ops : List Op) (hreg : Spec.regsOf c ops ≠ [])
    (hn : Noticed c ops) :
    (∀ k ∈ callsOf (run (ops ++ [.drain])) c, [k.code] = Spec.expect c ops ∧ k.cleared = true) ∧
    (Spec.expect c ops ≠ [] → callsOf (run (ops ++ [.drain])) c ≠ []) ∧
    ((callsOf (run (ops ++ [.drain])) c).map (·.reg)).Nodup ∧
    ∃ m ∈ Spec.regsOf c ops, ∃ lf,
      (futsOf (run (ops ++ [.drain])) c).map (·.2.2) = (Spec.expect c ops).filterMap (Spec.futOutcome m) ++ lf := by
  have hg := goodN_step c _ _ .drain (goodN_after c ops)
  have hc : callsOf (run (ops ++ [.drain])) c = (view (run (ops ++ [.drain])) c).calls := rfl
  have hf : futsOf (run (ops ++ [.drain])) c = (view (run (ops ++ [.drain])) c).futs := rfl
  have hnd := callback_at_most_once c (ops ++ [.drain])
  rw [hc] at hnd
  rw [hc, hf, view_drained] at *
  have hfo : ∀ m, Spec.futOutcome m = futOf m := fun m => funext fun code => (futOf_eq_spec m code).symm
  have := settledN c _ _ hg (drain_q_nil c _) hreg (by
    rcases hn with h | h | h
    · exact Or.inl h
    · exact Or.inr (Or.inl h)
    · exact Or.inr (Or.inr h))
  simp only [hstepN] at this
  obtain ⟨h1, h2, m, hm, lf, h3⟩ := this
  rw [expect_eq]
  refine ⟨?_, ?_, hnd, m, hm, lf, by rw [hfo m]; exact h3⟩
  · intro k hk
    obtain ⟨g1, g2⟩ := h1 k hk
    exact ⟨by rw [← g1]; rfl, g2⟩
  · intro hne
    apply h2
    intro h0
    rw [h0] at hne
    exact hne rfl

-- replacement before the report: two registrations, then exit, handler, drain → one call (of the later one)
example : Spec.regsOf 0 [.reg 0 .cb, .reg 0 (.wait false), .exit 0 256, .sigchld] ≠ [] ∧
    Noticed 0 [.reg 0 .cb, .reg 0 (.wait false), .exit 0 256, .sigchld] := by
  simp [Noticed, Spec.regsOf, Spec.firstExit, Spec.sigAfter, Spec.isSigchld]
example : (callsOf (run ([.reg 0 .cb, .reg 0 (.wait false), .exit 0 256, .sigchld] ++ [.drain])) 0).map (fun k => (k.reg, k.code))
    = [(1, 1)] := by decide
-- exit before registration and no SIGCHLD handler run at all: `Noticed` through the registration
example : Noticed 0 [.exit 0 9, .reg 0 .cb] ∧ ¬ Delivered 0 [.exit 0 9, .reg 0 .cb] := by
  simp [Noticed, Delivered, regAfter, Spec.regsOf, Spec.firstExit, Spec.sigAfter, Spec.isSigchld]

/-- **drain_fires_installed_callback**: which callbacks a loop iteration fires for child `c`, in queue order — for a
queued wait status exactly the callback installed in `_exit_callback` at that moment (i.e. the child's latest
registration) with the decoded status; for each registration made after the report, that registration's callback with
the stored code. -/
theorem drain_fires_installed_callback (c : Nat) (ops : List Op) :
    callsOf (run (ops ++ [.drain])) c = callsOf (run ops) c ++
      (view (run ops) c).q.flatMap (firedBy c ((run ops).subs c).exitCb) := by
  have hc : callsOf (run (ops ++ [.drain])) c = (view (run (ops ++ [.drain])) c).calls := rfl
  rw [hc, view_drained]
  exact drain_fires_installed c _ _ (goodN_after c ops)

/-- **registration_after_exit**: a registration made after the child's exit (first *or* later registration; decodable
status): at the next loop iteration the new callback fires — exactly once, with the decoded code, no SIGCHLD needed —
whether or not the exit had already been reported to an earlier registration (before it, the callbacks of earlier
such registrations still waiting on the loop run). -/
theorem registration_after_exit (c : Nat) (m : Mode) (ops : List Op) (st : Nat) (code : Int)
    (hfe : Spec.firstExit c ops = some st) (hcode : Spec.returncode st = some code) :
    callsOf (run (ops ++ [.reg c m, .drain])) c =
      callsOf (run ops) c ++ (view (run ops) c).q.flatMap (lateCall c true) ++
        [{ child := c, reg := (run ops).nregs, code := code, cleared := true }] := by
  have hv : view (run (ops ++ [.reg c m, .drain])) c = vstep c (vstep c (view (run ops) c) (.reg c m)) .drain := by
    simp [run, List.foldl_append, view_step]
  have hc : callsOf (run (ops ++ [.reg c m, .drain])) c = (view (run (ops ++ [.reg c m, .drain])) c).calls := rfl
  rw [hc, hv]
  exact reg_after_exit_view c _ _ m st code (goodN_after c ops) hfe (by rw [status_decoding]; exact hcode)

/-- **late_registration_fires** (the repaired behaviour; before fix 069f67f the late callback was never called): once a
callback of child `c` has fired, a new registration — `set_exit_callback` or `wait_for_exit`, registration number
`(run ops).nregs` — is called too, whatever happens in between (`more`: further exit events, SIGCHLD handler runs,
drains, registrations): after the next loop iteration it has been invoked with the decoded status of the exit, with
`_exit_callback` cleared, and not twice (no registration number occurs twice in the log); its `wait_for_exit` future is
settled as the property demands.  The registration itself stores nothing: `_waiting` and `_exit_callback` are untouched
(no leak). -/
theorem late_registration_fires (c : Nat) (m : Mode) (ops more : List Op) (hfired : callsOf (run ops) c ≠ []) :
    ∃ st code, Spec.firstExit c ops = some st ∧ Spec.returncode st = some code ∧
      ({ child := c, reg := (run ops).nregs, code := code, cleared := true } : Call)
        ∈ callsOf (run (ops ++ .reg c m :: more ++ [.drain])) c ∧
      ((callsOf (run (ops ++ .reg c m :: more ++ [.drain])) c).map (·.reg)).Nodup ∧
      (∀ f, Spec.futOutcome m code = some f →
        (c, (run ops).nregs, f) ∈ futsOf (run (ops ++ .reg c m :: more ++ [.drain])) c) ∧
      (run (ops ++ [.reg c m])).waiting = (run ops).waiting ∧
      ((run (ops ++ [.reg c m])).subs c).exitCb = none := by
  obtain ⟨st, code, hfe, hdec, hrc, hcb⟩ := fired_reported c _ _ (goodN_after c ops) hfired
  have hrc' : ((run ops).subs c).returncode = some code := hrc
  have hcb' : ((run ops).subs c).exitCb = none := hcb
  refine ⟨st, code, hfe, by rw [← status_decoding]; exact hdec, ?_, callback_at_most_once c _, ?_, ?_, ?_⟩
  all_goals try
    (have hv : view (run (ops ++ .reg c m :: more ++ [.drain])) c =
        vstep c (more.foldl (vstep c) (vstep c (view (run ops) c) (.reg c m))) .drain := by
      simp [run, List.foldl_append, view_step, view_run_gen])
  · have hl0 : Live c (run ops).nregs m code (vstep c (view (run ops) c) (.reg c m)) := by
      refine Or.inl ?_
      have h1 : (view (run ops) c).sub.returncode = some code := hrc
      simp only [vstep, ↓reduceIte, h1]
      exact ⟨by simp [view], hcb, by simp [h1]⟩
    have hl := live_step c _ m code _ .drain (live_run c _ m code more _ hl0)
    have hc : callsOf (run (ops ++ .reg c m :: more ++ [.drain])) c =
        (view (run (ops ++ .reg c m :: more ++ [.drain])) c).calls := rfl
    rw [hc, hv]
    rcases hl with ⟨h0, -⟩ | ⟨h0, -⟩
    · rw [drain_q_nil] at h0; simp at h0
    · exact h0
  · have hl0 : Live c (run ops).nregs m code (vstep c (view (run ops) c) (.reg c m)) := by
      refine Or.inl ?_
      have h1 : (view (run ops) c).sub.returncode = some code := hrc
      simp only [vstep, ↓reduceIte, h1]
      exact ⟨by simp [view], hcb, by simp [h1]⟩
    have hl := live_step c _ m code _ .drain (live_run c _ m code more _ hl0)
    have hf : futsOf (run (ops ++ .reg c m :: more ++ [.drain])) c =
        (view (run (ops ++ .reg c m :: more ++ [.drain])) c).futs := rfl
    rw [hf, hv]
    intro f hfo
    rw [← futOf_eq_spec] at hfo
    rcases hl with ⟨h0, -⟩ | ⟨-, h0⟩
    · rw [drain_q_nil] at h0; simp at h0
    · exact h0 f hfo
  · have hs : run (ops ++ [.reg c m]) = step (run ops) (.reg c m) := by simp [run, List.foldl_append]
    rw [hs]
    simp only [step, hrc']
  · have hs : run (ops ++ [.reg c m]) = step (run ops) (.reg c m) := by simp [run, List.foldl_append]
    rw [hs]
    simp only [step, hrc']
    exact hcb'

-- the history the reviewer gave: callback, exit, report, then a late `wait_for_exit(raise_error=True)` of exit code 1
example : callsOf (run [.reg 0 .cb, .exit 0 256, .sigchld, .drain]) 0 ≠ [] := by decide
example : (futsOf (run ([.reg 0 .cb, .exit 0 256, .sigchld, .drain] ++ .reg 0 (.wait true) :: [.sigchld] ++ [.drain])) 0)
    = [(0, 1, .calledProcessError 1)] := by decide
example : (run ([.reg 0 .cb, .exit 0 256, .sigchld, .drain] ++ .reg 0 (.wait true) :: [.sigchld] ++ [.drain])).waiting = [] := by
  decide

/-! ### a `wait_for_exit` future replaced before the report (known finding) -/
def isWait : Mode → Bool
  | .wait _ => true
  | .cb => false

/-- the property's reading "every `wait_for_exit` resolves": once the (decodable) exit of `c` has been delivered and the
loop has run, as many futures of `c` are settled as `wait_for_exit` calls were made -/
def every_wait_future_settles_full : Prop :=
  ∀ (c : Nat) (ops : List Op) (st : Nat), Spec.firstExit c ops = some st → st % 128 ≠ 127 → Delivered c ops →
    (futsOf (run (ops ++ [.drain])) c).length = ((Spec.regsOf c ops).filter isWait).length

/-- … holds when the child is registered once -/
theorem every_wait_future_settles_partial (c : Nat) (m : Mode) (ops : List Op) (st : Nat)
    (hreg : Spec.regsOf c ops = [m]) (hfe : Spec.firstExit c ops = some st) (hst : st % 128 ≠ 127)
    (hdel : Delivered c ops) :
    (futsOf (run (ops ++ [.drain])) c).length = ((Spec.regsOf c ops).filter isWait).length := by
  have h := congrArg List.length (wait_for_exit_outcome c m ops hreg hdel)
  simp only [List.length_map] at h
  rw [h, hreg]
  obtain ⟨code, hc⟩ : ∃ code, Spec.returncode st = some code := by
    unfold Spec.returncode
    by_cases h0 : st % 128 = 0 <;> simp [h0, hst]
  simp only [Spec.expect, hfe, hc, Option.toList_some]
  cases m with
  | cb => simp [Spec.futOutcome, isWait]
  | wait re => cases re <;> simp [Spec.futOutcome] <;> rfl

/-- … and is false for `Subprocess` as it is: `wait_for_exit` stores its callback in the single `_exit_callback` slot, so a
later `set_exit_callback`/`wait_for_exit` made before the report replaces it and the earlier future is never settled -/
theorem every_wait_future_settles_refuted : ¬ every_wait_future_settles_full := by
  intro h
  have := h 0 [.reg 0 (.wait false), .reg 0 .cb, .exit 0 256, .sigchld] 256 (by decide) (by decide)
    (by simp [Delivered, Spec.sigAfter, Spec.isSigchld])
  revert this
  decide

/-! ### the `initialized` flag on the late path (see the comment in `Model.step`) -/
def InitOk (s : St) : Prop := s.initialized = true ∨ (s.queue = [] ∧ ∀ c, (s.subs c).returncode = none)

theorem tryCleanup_initialized (s : St) (c : Nat) : (tryCleanup s c).initialized = s.initialized := by
  unfold tryCleanup
  split <;> rfl

theorem cleanup_fold_initialized (l : List Nat) (s : St) : (l.foldl tryCleanup s).initialized = s.initialized := by
  induction l generalizing s with
  | nil => rfl
  | cons a l ih => simp only [List.foldl_cons, ih, tryCleanup_initialized]

theorem runItem_initialized (s : St) (c : Nat) (qi : QI) : (runItem s c qi).initialized = s.initialized := by
  cases qi with
  | late r m code => rfl
  | status st =>
    simp only [runItem]
    unfold setReturncode
    cases decodeStatus st with
    | none => rfl
    | some code =>
      simp only
      cases (s.subs c).exitCb with
      | none => rfl
      | some rm => rfl

theorem drain_fold_initialized (l : List (Nat × QI)) (s : St) :
    (l.foldl (fun s e => runItem s e.1 e.2) s).initialized = s.initialized := by
  induction l generalizing s with
  | nil => rfl
  | cons a l ih => simp only [List.foldl_cons, ih, runItem_initialized]

theorem initOk_step (s : St) (op : Op) (h : InitOk s) : InitOk (step s op) := by
  cases op with
  | exit d st =>
    simp only [step]
    split
    · rcases h with h | ⟨h1, h2⟩
      · exact Or.inl h
      · refine Or.inr ⟨h1, fun c' => ?_⟩
        simp only [setSub]
        split
        · rename_i hc; subst hc; exact h2 _
        · exact h2 c'
    · exact h
  | reg d m =>
    simp only [step]
    split
    · exact Or.inl rfl
    · exact Or.inl (by rw [tryCleanup_initialized])
  | sigchld =>
    simp only [step]
    split
    · rename_i hi
      exact Or.inl (by rw [cleanup, cleanup_fold_initialized]; exact hi)
    · exact h
  | drain =>
    simp only [step, drainQ]
    rcases h with h | ⟨h1, h2⟩
    · exact Or.inl (by rw [drain_fold_initialized]; exact h)
    · rw [h1]
      exact Or.inr ⟨rfl, h2⟩

/-- **returncode_initialized**: in every reachable state a `Subprocess` whose `returncode` is set lives in a process
whose SIGCHLD handler is installed — so the model's `initialized := true` on the late-registration path (where the code
does not call `initialize()`) never changes the flag. -/
theorem returncode_initialized (ops : List Op) (c : Nat) (code : Int)
    (h : ((run ops).subs c).returncode = some code) : (run ops).initialized = true := by
  have : ∀ (ops : List Op) (s : St), InitOk s → InitOk (ops.foldl step s) := by
    intro ops
    induction ops with
    | nil => exact fun s h => h
    | cons op ops ih => exact fun s h => ih _ (initOk_step s op h)
  rcases this ops init (Or.inr ⟨rfl, fun _ => rfl⟩) with h1 | ⟨-, h2⟩
  · exact h1
  · have := h2 c
    rw [show ops.foldl step init = run ops from rfl] at this
    rw [this] at h
    cases h

end TornadoModel.C42
