import TornadoModel.C42.Spec
namespace TornadoModel.C42
end TornadoModel.C42
