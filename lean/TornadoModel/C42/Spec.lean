/-
C42 — specification side: what the property statement demands of one child.

A child that has exactly one exit callback registered and that exits with status `st` gets that callback run
exactly once with `returncode st` (negative signal number for signals) once the SIGCHLD handler and the loop have
run; a `wait_for_exit` future resolves with that code, or fails with CalledProcessError for non-zero codes when
`raise_error` is set.
-/
import TornadoModel.C42.Model
namespace TornadoModel.C42.Spec
open TornadoModel.C42

/-- POSIX reading of a wait status: exit code, or minus the terminating signal -/
def returncode (st : Nat) : Option Int :=
  let low := st % 128
  if low = 0 then some (Int.ofNat ((st / 256) % 256))
  else if low = 127 then none            -- stopped/continued: never reported by waitpid(pid, WNOHANG)
  else some (-(Int.ofNat low))

def firstExit (c : Nat) : List Op → Option Nat
  | [] => none
  | .exit d st :: ops => if d = c then some st else firstExit c ops
  | _ :: ops => firstExit c ops

def isSigchld : Op → Bool
  | .sigchld => true
  | _ => false

/-- the SIGCHLD handler runs at some point after the (first) exit of child `c` — the kernel's delivery guarantee -/
def sigAfter (c : Nat) : List Op → Bool
  | [] => false
  | .exit d _ :: ops => if d = c then ops.any isSigchld else sigAfter c ops
  | _ :: ops => sigAfter c ops

def regsOf (c : Nat) (ops : List Op) : List Mode :=
  ops.filterMap fun o => match o with | .reg d m => if d = c then some m else none | _ => none

/-- codes the (single) exit callback of child `c` must have been called with once everything has settled -/
def expect (c : Nat) (ops : List Op) : List Int :=
  match firstExit c ops with
  | some st => (returncode st).toList
  | none => []

def futOutcome (m : Mode) (code : Int) : Option Fut :=
  match m with
  | .cb => none
  | .wait true => some (if code = 0 then .result code else .calledProcessError code)
  | .wait false => some (.result code)

end TornadoModel.C42.Spec
