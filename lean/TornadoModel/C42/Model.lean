/-
C42 — model of `tornado.process.Subprocess` exit reporting.

Children are numbered `0,1,2,…` (the number stands for the pid).  The kernel's view of a child is
`running | zombie st | reaped`; `os.waitpid(pid, WNOHANG)` answers `(0, 0)` for a running child, `(pid, st)`
for a zombie (which becomes reaped) and raises `ChildProcessError` for a reaped one.

  set_exit_callback(cb):  if self.returncode is not None: io_loop.add_callback(cb, self.returncode); return
                          (fix 069f67f: the exit was already reported and the child reaped — report the stored code)
                          self._exit_callback = cb; initialize(); _waiting[pid] = self; _try_cleanup_process(pid)
  _cleanup()  (SIGCHLD):  for pid in list(_waiting.keys()): _try_cleanup_process(pid)
  _try_cleanup_process:   waitpid …; subproc = _waiting.pop(pid); io_loop.add_callback(subproc._set_returncode, status)
  _set_returncode:        decode status; proc.returncode = returncode;
                          if _exit_callback: cb = _exit_callback; _exit_callback = None; cb(returncode)
  wait_for_exit(raise_error): future + callback (CalledProcessError when ret != 0 and raise_error)
-/
namespace TornadoModel.C42

/-! ### wait-status decoding as done by `_set_returncode` -/
def termSig (st : Nat) : Nat := st % 128
def ifSignaled (st : Nat) : Bool := termSig st != 0 && termSig st != 127
def ifExited (st : Nat) : Bool := termSig st == 0
def exitStatus (st : Nat) : Nat := (st / 256) % 256

/-- `none` = `assert os.WIFEXITED(status)` fails (neither signalled nor exited) -/
def decodeStatus (st : Nat) : Option Int :=
  if ifSignaled st then some (-(Int.ofNat (termSig st)))
  else if ifExited st then some (Int.ofNat (exitStatus st))
  else none

inductive Proc | running | zombie (st : Nat) | reaped
  deriving DecidableEq, Repr

inductive Mode | cb | wait (raiseError : Bool)
  deriving DecidableEq, Repr

inductive Fut | result (v : Int) | calledProcessError (v : Int)
  deriving DecidableEq, Repr

/-- what waits on the loop (`io_loop.add_callback`) for a child -/
inductive QI
  | status (st : Nat)                        -- `subproc._set_returncode(status)`
  | late (r : Nat) (m : Mode) (code : Int)   -- `callback(self.returncode)`: registration `r` made after the report
  deriving DecidableEq, Repr

/-- one `Subprocess` object -/
structure Sub where
  proc : Proc := .running
  exitCb : Option (Nat × Mode) := none       -- `_exit_callback`: registration number + what kind of callback
  returncode : Option Int := none
  deriving DecidableEq, Repr

/-- one invocation of an exit callback; `cleared` = `_exit_callback is None` at the time of the call -/
structure Call where
  child : Nat
  reg : Nat
  code : Int
  cleared : Bool
  deriving DecidableEq, Repr

structure St where
  subs : Nat → Sub
  waiting : List Nat                  -- keys of `Subprocess._waiting` in dict order
  initialized : Bool
  queue : List (Nat × QI)             -- `io_loop.add_callback(…)` not yet run: (child, what)
  nregs : Nat
  calls : List Call
  futs : List (Nat × Nat × Fut)       -- settled `wait_for_exit` futures: (child, registration, outcome)

def init : St :=
  { subs := fun _ => {}, waiting := [], initialized := false, queue := [], nregs := 0, calls := [], futs := [] }

inductive Op
  | exit (c st : Nat)        -- the child terminates with wait status `st`
  | reg (c : Nat) (m : Mode) -- `set_exit_callback` / `wait_for_exit` on the child's Subprocess object
  | sigchld                  -- the loop runs the SIGCHLD handler
  | drain                    -- the loop runs its pending callbacks
  deriving DecidableEq, Repr

def setSub (s : St) (c : Nat) (x : Sub) : St :=
  { s with subs := fun i => if i = c then x else s.subs i }

def tryCleanup (s : St) (c : Nat) : St :=
  match (s.subs c).proc with
  | .running => s                -- waitpid → (0, 0)
  | .reaped => s                 -- ChildProcessError
  | .zombie st =>
    { setSub s c { s.subs c with proc := .reaped } with
      waiting := s.waiting.filter (· != c), queue := s.queue ++ [(c, .status st)] }

def cleanup (s : St) : St := s.waiting.foldl tryCleanup s

def futOf (m : Mode) (code : Int) : Option Fut :=
  match m with
  | .cb => none
  | .wait raiseError => some (if code != 0 && raiseError then .calledProcessError code else .result code)

def setReturncode (s : St) (c st : Nat) : St :=
  match decodeStatus st with
  | none => s                    -- AssertionError inside the loop callback: logged, nothing assigned
  | some code =>
    let sub := s.subs c
    match sub.exitCb with
    | none => setSub s c { sub with returncode := some code }
    | some (r, m) =>
      let s1 := setSub s c { sub with returncode := some code, exitCb := none }
      { s1 with calls := s.calls ++ [{ child := c, reg := r, code := code, cleared := true }],
                futs := s.futs ++ (match futOf m code with | some f => [(c, r, f)] | none => []) }

/-- the loop runs `callback(returncode)` scheduled by a registration made after the report; `cleared` is what the
harness observes: `_exit_callback is None` at that moment -/
def runLate (s : St) (c r : Nat) (m : Mode) (code : Int) : St :=
  { s with calls := s.calls ++ [{ child := c, reg := r, code := code, cleared := (s.subs c).exitCb.isNone }],
           futs := s.futs ++ (match futOf m code with | some f => [(c, r, f)] | none => []) }

def runItem (s : St) (c : Nat) : QI → St
  | .status st => setReturncode s c st
  | .late r m code => runLate s c r m code

def drainQ (s : St) : St := s.queue.foldl (fun s e => runItem s e.1 e.2) { s with queue := [] }

def step (s : St) : Op → St
  | .exit c st =>
    match (s.subs c).proc with
    | .running => setSub s c { s.subs c with proc := .zombie st }
    | _ => s
  | .reg c m =>
    match (s.subs c).returncode with
    | some code =>
      -- already reported: nothing is stored, `_waiting` is not touched; the callback goes straight onto the loop.
      -- (`initialize()` is not called on this path; `initialized` is already true in every reachable state with a
      --  returncode — theorem `returncode_initialized` — so writing it here changes nothing and keeps the per-child
      --  projection `view_step` free of side conditions.)
      { s with nregs := s.nregs + 1, initialized := true, queue := s.queue ++ [(c, .late s.nregs m code)] }
    | none =>
    let s1 := setSub s c { s.subs c with exitCb := some (s.nregs, m) }
    let s2 := { s1 with nregs := s.nregs + 1, initialized := true,
                        waiting := if s.waiting.contains c then s.waiting else s.waiting ++ [c] }
    tryCleanup s2 c
  | .sigchld => if s.initialized then cleanup s else s
  | .drain => drainQ s

def run (ops : List Op) : St := ops.foldl step init

end TornadoModel.C42
