/- C42 helper lemmas: the per-child projection of the global model.

`view s c` is everything the model knows about child `c`; `vstep c` is a small machine over views.
`view_step` proves that the global `step` acts on each child's view exactly as `vstep` does: events of other
children do not interfere (except for bumping the registration counter and the `initialized` flag). -/
import TornadoModel.C42.Spec
namespace TornadoModel.C42

structure View where
  sub : Sub
  inW : Bool
  init : Bool
  q : List QI
  nregs : Nat
  calls : List Call
  futs : List (Nat × Nat × Fut)

def view (s : St) (c : Nat) : View :=
  { sub := s.subs c, inW := s.waiting.contains c, init := s.initialized,
    q := (s.queue.filter (fun e => e.1 == c)).map (·.2), nregs := s.nregs,
    calls := s.calls.filter (fun k => k.child == c), futs := s.futs.filter (fun f => f.1 == c) }

def vTry (v : View) : View :=
  match v.sub.proc with
  | .zombie st => { v with sub := { v.sub with proc := .reaped }, inW := false, q := v.q ++ [.status st] }
  | _ => v

def vSet (c : Nat) (v : View) (st : Nat) : View :=
  match decodeStatus st with
  | none => v
  | some code =>
    match v.sub.exitCb with
    | none => { v with sub := { v.sub with returncode := some code } }
    | some (r, m) =>
      { v with sub := { v.sub with returncode := some code, exitCb := none },
               calls := v.calls ++ [{ child := c, reg := r, code := code, cleared := true }],
               futs := v.futs ++ (match futOf m code with | some f => [(c, r, f)] | none => []) }

def vLate (c : Nat) (v : View) (r : Nat) (m : Mode) (code : Int) : View :=
  { v with calls := v.calls ++ [{ child := c, reg := r, code := code, cleared := v.sub.exitCb.isNone }],
           futs := v.futs ++ (match futOf m code with | some f => [(c, r, f)] | none => []) }

def vItem (c : Nat) (v : View) : QI → View
  | .status st => vSet c v st
  | .late r m code => vLate c v r m code

def vstep (c : Nat) (v : View) : Op → View
  | .exit d st =>
    if d = c then
      match v.sub.proc with
      | .running => { v with sub := { v.sub with proc := .zombie st } }
      | _ => v
    else v
  | .reg d m =>
    if d = c then
      match v.sub.returncode with
      | some code => { v with nregs := v.nregs + 1, init := true, q := v.q ++ [.late v.nregs m code] }
      | none =>
      vTry { v with sub := { v.sub with exitCb := some (v.nregs, m) }, nregs := v.nregs + 1, init := true, inW := true }
    else { v with nregs := v.nregs + 1, init := true }
  | .sigchld => if v.init && v.inW then vTry v else v
  | .drain => v.q.foldl (vItem c) { v with q := [] }

theorem contains_filter_ne (l : List Nat) (c d : Nat) (h : d ≠ c) :
    (l.filter (· != d)).contains c = l.contains c := by
  have hc : ¬ c = d := fun x => h x.symm
  simp [List.mem_filter, hc]

theorem contains_filter_self (l : List Nat) (c : Nat) : (l.filter (· != c)).contains c = false := by
  simp [List.mem_filter]

theorem view_tryCleanup_ne (s : St) (c d : Nat) (h : d ≠ c) : view (tryCleanup s d) c = view s c := by
  unfold tryCleanup
  split
  · rfl
  · rfl
  · have h1 : (d == c) = false := by simp [h]
    have h2 : ¬ c = d := fun x => h x.symm
    simp [view, setSub, h2, contains_filter_ne _ _ _ h, List.filter_append, h1]

theorem view_tryCleanup_self (s : St) (c : Nat) : view (tryCleanup s c) c = vTry (view s c) := by
  unfold tryCleanup vTry
  cases hp : (s.subs c).proc with
  | running => simp [view, hp]
  | reaped => simp [view, hp]
  | zombie st => simp [view, hp, setSub, contains_filter_self, List.filter_append]

theorem vTry_idem (v : View) : vTry (vTry v) = vTry v := by
  unfold vTry
  cases hp : v.sub.proc <;> simp [hp]

theorem view_cleanup_fold (l : List Nat) (s : St) (c : Nat) :
    view (l.foldl tryCleanup s) c = if l.contains c then vTry (view s c) else view s c := by
  induction l generalizing s with
  | nil => simp
  | cons d l ih =>
    simp only [List.foldl_cons, ih]
    by_cases hd : d = c
    · subst hd
      simp [view_tryCleanup_self, vTry_idem]
    · have h2 : ¬ c = d := fun x => hd x.symm
      simp [List.contains_cons, view_tryCleanup_ne _ _ _ hd, h2]

theorem view_setReturncode_ne (s : St) (c d st : Nat) (h : d ≠ c) : view (setReturncode s d st) c = view s c := by
  unfold setReturncode
  have h2 : ¬ c = d := fun x => h x.symm
  have h1 : (d == c) = false := by simp [h]
  cases hd : decodeStatus st with
  | none => rfl
  | some code =>
    simp only
    cases he : (s.subs d).exitCb with
    | none => simp [view, setSub, h2]
    | some rm =>
      obtain ⟨r, m⟩ := rm
      simp only [view, setSub, h2, ↓reduceIte, List.filter_append]
      congr 1
      · simp [List.filter_cons, h1]
      · cases futOf m code <;> simp [List.filter_cons, h1]

theorem view_setReturncode_self (s : St) (c st : Nat) : view (setReturncode s c st) c = vSet c (view s c) st := by
  unfold setReturncode vSet
  cases hd : decodeStatus st with
  | none => rfl
  | some code =>
    simp only
    cases he : (s.subs c).exitCb with
    | none => simp [view, setSub, he]
    | some rm =>
      obtain ⟨r, m⟩ := rm
      simp only [view, setSub, he, ↓reduceIte, List.filter_append]
      congr 1
      · simp [List.filter_cons]
      · cases futOf m code <;> simp [List.filter_cons]

theorem view_runLate_ne (s : St) (c d r : Nat) (m : Mode) (code : Int) (h : d ≠ c) :
    view (runLate s d r m code) c = view s c := by
  have h1 : (d == c) = false := by simp [h]
  simp only [view, runLate, List.filter_append]
  congr 1
  · simp [List.filter_cons, h1]
  · cases futOf m code <;> simp [List.filter_cons, h1]

theorem view_runLate_self (s : St) (c r : Nat) (m : Mode) (code : Int) :
    view (runLate s c r m code) c = vLate c (view s c) r m code := by
  simp only [view, runLate, vLate, List.filter_append]
  congr 1
  · simp [List.filter_cons]
  · cases futOf m code <;> simp [List.filter_cons]

theorem view_runItem_ne (s : St) (c d : Nat) (qi : QI) (h : d ≠ c) : view (runItem s d qi) c = view s c := by
  cases qi with
  | status st => exact view_setReturncode_ne s c d st h
  | late r m code => exact view_runLate_ne s c d r m code h

theorem view_runItem_self (s : St) (c : Nat) (qi : QI) : view (runItem s c qi) c = vItem c (view s c) qi := by
  cases qi with
  | status st => exact view_setReturncode_self s c st
  | late r m code => exact view_runLate_self s c r m code

theorem view_drain_fold (l : List (Nat × QI)) (s : St) (c : Nat) :
    view (l.foldl (fun s e => runItem s e.1 e.2) s) c
      = ((l.filter (fun e => e.1 == c)).map (·.2)).foldl (vItem c) (view s c) := by
  induction l generalizing s with
  | nil => rfl
  | cons e l ih =>
    simp only [List.foldl_cons, ih]
    by_cases he : e.1 = c
    · have : (e.1 == c) = true := by simp [he]
      simp only [List.filter_cons, this, ↓reduceIte, List.map_cons, List.foldl_cons]
      rw [← he, view_runItem_self]
    · have : (e.1 == c) = false := by simp [he]
      simp only [List.filter_cons, this, Bool.false_eq_true, ↓reduceIte]
      rw [view_runItem_ne _ _ _ _ he]

/-- **non-interference / projection**: the global step acts on child `c` exactly as the per-child machine -/
theorem view_step (s : St) (op : Op) (c : Nat) : view (step s op) c = vstep c (view s c) op := by
  cases op with
  | exit d st =>
    by_cases hd : d = c
    · subst hd
      simp only [step, vstep, ↓reduceIte]
      cases hp : (s.subs d).proc <;> simp [view, hp, setSub]
    · have h2 : ¬ c = d := fun x => hd x.symm
      simp only [step, vstep, hd, ↓reduceIte]
      cases hp : (s.subs d).proc <;> simp [view, setSub, h2]
  | reg d m =>
    by_cases hd : d = c
    · subst hd
      simp only [step, vstep, ↓reduceIte]
      cases hrc : (s.subs d).returncode with
      | some code =>
        simp [view, List.filter_append, hrc]
      | none =>
        have hv : (view s d).sub.returncode = none := hrc
        simp only [hv, view_tryCleanup_self]
        congr 1
        by_cases hw : d ∈ s.waiting <;> simp [view, setSub, hw]
    · have h2 : ¬ c = d := fun x => hd x.symm
      have h1 : (d == c) = false := by simp [hd]
      have h3 : (c == d) = false := by simp [h2]
      simp only [step, vstep, hd, ↓reduceIte]
      cases hrc : (s.subs d).returncode with
      | some code => simp [view, List.filter_append, h1]
      | none =>
        simp only [view_tryCleanup_ne _ _ _ hd]
        by_cases hw : d ∈ s.waiting <;> simp [view, setSub, hw, h2, h3]
  | sigchld =>
    simp only [step, vstep, cleanup]
    by_cases hi : s.initialized
    · simp only [hi, ↓reduceIte, view_cleanup_fold]
      by_cases hw : c ∈ s.waiting <;> simp [view, hw, hi]
    · simp [hi, view]
  | drain =>
    simp only [step, vstep, drainQ, view_drain_fold]
    rfl

theorem view_run_gen (ops : List Op) (s : St) (c : Nat) :
    view (ops.foldl step s) c = ops.foldl (vstep c) (view s c) := by
  induction ops generalizing s with
  | nil => rfl
  | cons op ops ih => simp only [List.foldl_cons, ih, view_step]

/-! ### what a reported exit leaves in the invocation log / the settled futures -/
def doneCalls (c r st : Nat) : List Call :=
  match decodeStatus st with
  | some code => [{ child := c, reg := r, code := code, cleared := true }]
  | none => []

def doneFuts (c r : Nat) (m : Mode) (st : Nat) : List (Nat × Nat × Fut) :=
  match decodeStatus st with
  | some code => (match futOf m code with | some f => [(c, r, f)] | none => [])
  | none => []

end TornadoModel.C42
