/- C08 helper lemmas: the machine run on a whole stream computes what the strict batch reader computes. -/
import TornadoModel.C08.Seg
import TornadoModel.C06.Lemmas
namespace TornadoModel.C08
open TornadoModel.C06

def Res.toSpec : Res → Option Res
  | .err _ => none
  | r => some r

/-- the fetch fails when the server stops sending with the machine in phase `p` and `b` still to drain -/
def Fails (cfg : Cfg) (eof : Bool) (p : Phase) (b : Bytes) : Prop :=
  ∃ k, atEnd cfg eof (drainFull cfg p b).1 = .fail k

theorem fails_of_step {cfg : Cfg} {eof : Bool} {p p' : Phase} {b b' : Bytes} (h : step cfg p b = some (p', b'))
    (hf : Fails cfg eof p' b') : Fails cfg eof p b := by
  unfold Fails at *
  rw [drainFull_some h]; exact hf

theorem fails_done (cfg : Cfg) (eof : Bool) (k : ErrKind) (b : Bytes) : Fails cfg eof (.done (.fail k)) b := by
  unfold Fails
  rw [drainFull_done]; exact ⟨k, rfl⟩

/-- a read that is still pending when the server stops: the fetch fails -/
def Pending : Phase → Prop
  | .done _ => False
  | .untilClose _ _ => False
  | _ => True

theorem fails_pending {cfg : Cfg} {eof : Bool} {p : Phase} {b : Bytes} (hp : Pending p) (h : step cfg p b = none) :
    Fails cfg eof p b := by
  unfold Fails
  rw [drainFull_none h]
  cases p <;> simp only [Pending] at hp <;> cases eof <;> simp [atEnd]

theorem step_crlf_short_chunk (cfg : Cfg) (m : Msg) (total : Nat) (acc b : Bytes) (h : b.length < 2) :
    step cfg (.chunkCrlf m total acc) b = none := by
  match b, h with
  | [], _ => simp [step]
  | [_], _ => simp [step]
  | _ :: _ :: _, h => simp at h; omega

theorem step_crlf_short_last (cfg : Cfg) (m : Msg) (acc b : Bytes) (h : b.length < 2) :
    step cfg (.lastCrlf m acc) b = none := by
  match b, h with
  | [], _ => simp [step]
  | [_], _ => simp [step]
  | _ :: _ :: _, h => simp at h; omega

/-- `drop n r` when at least two bytes follow -/
theorem drop_two (r : Bytes) (n : Nat) (h : n + 2 ≤ r.length) :
    ∃ x y, r.drop n = x :: y :: r.drop (n + 2) := by
  have h1 : n < r.length := by omega
  have h2 : n + 1 < r.length := by omega
  refine ⟨r[n], r[n + 1], ?_⟩
  rw [List.drop_eq_getElem_cons h1, List.drop_eq_getElem_cons h2]

/-! ### the chunked body -/

/-- the terminator after the last-chunk line -/
def lastOk : Bytes → Option Bytes
  | 13 :: 10 :: _ => some []
  | _ => none

theorem lastOk_one (x : Nat) : lastOk [x] = none := by
  unfold lastOk; split <;> simp_all

theorem lastOk_bad (x y : Nat) (r : Bytes) (h : ¬ (x = 13 ∧ y = 10)) : lastOk (x :: y :: r) = none := by
  unfold lastOk
  split
  · rename_i heq; cases heq; exact absurd ⟨rfl, rfl⟩ h
  · rfl

theorem chunks_agree (cfg : Cfg) (eof : Bool) (m : Msg) : ∀ (f total : Nat) (acc b : Bytes), b.length + 1 ≤ f →
    match Spec.chunks cfg.maxBody f total b with
    | some body => (drainFull cfg (.chunkSize m total acc) b).1 = .done (.msg m (acc ++ body))
    | none => Fails cfg eof (.chunkSize m total acc) b := by
  intro f
  induction f with
  | zero => intro total acc b h; omega
  | succ f ih =>
    intro total acc b hfuel
    cases hf : findCrlf b with
    | none =>
      have hc : Spec.chunks cfg.maxBody (f + 1) total b = none := by simp only [Spec.chunks, hf]
      rw [hc]
      by_cases hl : b.length > 64
      · have hs : step cfg (.chunkSize m total acc) b = some (.done (.fail .quiet), []) := by
          simp only [step, hf, if_pos hl]
        exact fails_of_step hs (fails_done _ _ _ _)
      · have hs : step cfg (.chunkSize m total acc) b = none := by
          simp only [step, hf, if_neg hl]
        exact fails_pending trivial hs
    | some loc =>
      have hle := findCrlf_le b loc hf
      by_cases hq : loc + 2 > 64
      · have hc : Spec.chunks cfg.maxBody (f + 1) total b = none := by simp only [Spec.chunks, hf, if_pos hq]
        rw [hc]
        have hs : step cfg (.chunkSize m total acc) b = some (.done (.fail .quiet), []) := by
          simp only [step, hf, if_pos hq]
        exact fails_of_step hs (fails_done _ _ _ _)
      · cases hp : parseHex (b.take loc) with
        | none =>
          have hc : Spec.chunks cfg.maxBody (f + 1) total b = none := by
            simp only [Spec.chunks, hf, if_neg hq, hp]
          rw [hc]
          have hs : step cfg (.chunkSize m total acc) b = some (.done (.fail .closed), b.drop (loc + 2)) := by
            simp only [step, hf, if_neg hq, hp]
          exact fails_of_step hs (fails_done _ _ _ _)
        | some n =>
          cases n with
          | zero =>
            have hs : step cfg (.chunkSize m total acc) b = some (.lastCrlf m acc, b.drop (loc + 2)) := by
              simp only [step, hf, if_neg hq, hp]
            have hc : Spec.chunks cfg.maxBody (f + 1) total b = lastOk (b.drop (loc + 2)) := by
              simp only [Spec.chunks, hf, if_neg hq, hp]
              rfl
            rw [hc]
            generalize b.drop (loc + 2) = r at hs ⊢
            match r, hs with
            | [], hs =>
              exact fails_of_step hs (fails_pending trivial (step_crlf_short_last _ _ _ _ (by simp)))
            | [x], hs =>
              rw [lastOk_one]
              exact fails_of_step hs (fails_pending trivial (step_crlf_short_last _ _ _ _ (by simp)))
            | x :: y :: r', hs =>
              by_cases hxy : x = 13 ∧ y = 10
              · obtain ⟨rfl, rfl⟩ := hxy
                have hs2 : step cfg (.lastCrlf m acc) (13 :: 10 :: r') = some (.done (.msg m acc), r') := by
                  simp [step]
                show (drainFull cfg (.chunkSize m total acc) (b)).1 = _
                rw [drainFull_some hs, drainFull_some hs2, drainFull_done, List.append_nil]
              · rw [lastOk_bad x y r' hxy]
                have hs2 : step cfg (.lastCrlf m acc) (x :: y :: r') = some (.done (.fail .closed), r') := by
                  have : (x = 13 && y = 10) = false := by
                    simp only [Bool.and_eq_false_iff, decide_eq_false_iff_not]
                    by_cases hx : x = 13
                    · right; intro hy; exact hxy ⟨hx, hy⟩
                    · left; exact hx
                  simp [step, this]
                exact fails_of_step hs (fails_of_step hs2 (fails_done _ _ _ _))
          | succ n' =>
            by_cases hm : total + (n' + 1) > cfg.maxBody
            · have hc : Spec.chunks cfg.maxBody (f + 1) total b = none := by
                simp only [Spec.chunks, hf, if_neg hq, hp, if_pos hm]
              rw [hc]
              have hs : step cfg (.chunkSize m total acc) b = some (.done (.fail .closed), b.drop (loc + 2)) := by
                simp only [step, hf, if_neg hq, hp, if_pos hm]
              exact fails_of_step hs (fails_done _ _ _ _)
            · have hs : step cfg (.chunkSize m total acc) b =
                  some (.chunkData m (total + (n' + 1)) (n' + 1) acc, b.drop (loc + 2)) := by
                simp only [step, hf, if_neg hq, hp, if_neg hm]
              have hc : Spec.chunks cfg.maxBody (f + 1) total b =
                  (let r := b.drop (loc + 2)
                   if r.length < n' + 1 + 2 then none
                   else if (r.drop (n' + 1)).take 2 != [13, 10] then none
                   else (Spec.chunks cfg.maxBody f (total + (n' + 1)) (r.drop (n' + 1 + 2))).map
                     (r.take (n' + 1) ++ ·)) := by
                simp only [Spec.chunks, hf, if_neg hq, hp, if_neg hm]
              rw [hc]
              have hrl : (b.drop (loc + 2)).length + 2 ≤ b.length := by simp; omega
              generalize b.drop (loc + 2) = r at hs hrl
              simp only
              by_cases hshort : r.length < n' + 1 + 2
              · rw [if_pos hshort]
                refine fails_of_step hs ?_
                by_cases hre : r = []
                · subst hre
                  exact fails_pending trivial (by simp [step])
                · by_cases hlt : r.length < n' + 1
                  · refine fails_of_step (step_chunkData_lt cfg m _ (n' + 1) acc r hre hlt) ?_
                    exact fails_pending trivial (by simp [step])
                  · refine fails_of_step (step_chunkData_ge cfg m _ (n' + 1) acc r hre (by omega) (by omega)) ?_
                    exact fails_pending trivial (step_crlf_short_chunk _ _ _ _ _ (by simp; omega))
              · rw [if_neg hshort]
                have hre : r ≠ [] := by intro h0; subst h0; simp at hshort
                have hs1 := step_chunkData_ge cfg m (total + (n' + 1)) (n' + 1) acc r hre (by omega) (by omega)
                obtain ⟨x, y, hxy⟩ := drop_two r (n' + 1) (by omega)
                rw [hxy] at hs1
                rw [hxy]
                by_cases hcr : x = 13 ∧ y = 10
                · obtain ⟨rfl, rfl⟩ := hcr
                  have ht : ((13 :: 10 :: r.drop (n' + 1 + 2)).take 2 != [13, 10]) = false := by simp
                  rw [ht]
                  simp only [Bool.false_eq_true, if_false]
                  have hs2 : step cfg (.chunkCrlf m (total + (n' + 1)) (acc ++ r.take (n' + 1)))
                      (13 :: 10 :: r.drop (n' + 1 + 2)) =
                      some (.chunkSize m (total + (n' + 1)) (acc ++ r.take (n' + 1)), r.drop (n' + 1 + 2)) := by
                    simp [step]
                  have := ih (total + (n' + 1)) (acc ++ r.take (n' + 1)) (r.drop (n' + 1 + 2)) (by simp; omega)
                  cases hrec : Spec.chunks cfg.maxBody f (total + (n' + 1)) (r.drop (n' + 1 + 2)) with
                  | some body =>
                    rw [hrec] at this
                    simp only at this
                    simp only [Option.map_some]
                    rw [drainFull_some hs, drainFull_some hs1, drainFull_some hs2, this, List.append_assoc]
                  | none =>
                    rw [hrec] at this
                    simp only at this
                    simp only [Option.map_none]
                    exact fails_of_step hs (fails_of_step hs1 (fails_of_step hs2 this))
                · have ht : ((x :: y :: r.drop (n' + 1 + 2)).take 2 != [13, 10]) = true := by
                    simp only [List.take_succ_cons, List.take_zero, bne_iff_ne, ne_eq, List.cons.injEq, and_true]
                    exact hcr
                  rw [ht]
                  simp only [if_true]
                  have hs2 : step cfg (.chunkCrlf m (total + (n' + 1)) (acc ++ r.take (n' + 1)))
                      (x :: y :: r.drop (n' + 1 + 2)) = some (.done (.fail .closed), r.drop (n' + 1 + 2)) := by
                    have : (x = 13 && y = 10) = false := by
                      simp only [Bool.and_eq_false_iff, decide_eq_false_iff_not]
                      by_cases hx : x = 13
                      · right; intro hy; exact hcr ⟨hx, hy⟩
                      · left; exact hx
                    simp [step, this]
                  exact fails_of_step hs (fails_of_step hs1 (fails_of_step hs2 (fails_done _ _ _ _)))

/-! ### the body, by framing -/

/-- the phase `onHead` enters once `_read_body` has decided -/
def startPhase (m : Msg) : Framing → Phase
  | .fixed 0 => .done (.msg m [])
  | .fixed n => .fixed m n []
  | .chunked => .chunkSize m 0 []
  | .close => .untilClose m []

theorem body_agree (cfg : Cfg) (eof : Bool) (m : Msg) (fr : Framing) (rest : Bytes) :
    match Spec.body cfg.maxBody eof fr rest with
    | some raw => atEnd cfg eof (drainFull cfg (startPhase m fr) rest).1 = .msg m raw
    | none => Fails cfg eof (startPhase m fr) rest := by
  cases fr with
  | fixed n =>
    cases n with
    | zero => simp [Spec.body, startPhase, drainFull_done, atEnd]
    | succ n =>
      by_cases hk : n + 1 ≤ rest.length
      · have hre : rest ≠ [] := by intro h0; subst h0; simp at hk
        simp only [Spec.body, if_pos hk, startPhase]
        rw [drainFull_some (step_fixed_ge cfg m (n + 1) [] rest hre (by omega) hk), drainFull_done]
        simp [atEnd]
      · simp only [Spec.body, if_neg hk, startPhase]
        by_cases hre : rest = []
        · subst hre
          exact fails_pending trivial (by simp [step])
        · refine fails_of_step (step_fixed_lt cfg m (n + 1) [] rest hre (by omega)) ?_
          exact fails_pending trivial (by simp [step])
  | chunked =>
    have := chunks_agree cfg eof m (rest.length + 1) 0 [] rest (Nat.le_refl _)
    simp only [Spec.body, startPhase]
    cases hc : Spec.chunks cfg.maxBody (rest.length + 1) 0 rest with
    | some body =>
      rw [hc] at this
      simp only at this ⊢
      rw [this]; simp [atEnd]
    | none =>
      rw [hc] at this
      exact this
  | close =>
    simp only [Spec.body, startPhase]
    by_cases hre : rest = []
    · subst hre
      rw [show Fails cfg eof (.untilClose m []) [] = ∃ k, atEnd cfg eof (drainFull cfg (.untilClose m []) []).1 = .fail k
        from rfl]
      rw [drainFull_none (by simp [step] : step cfg (.untilClose m []) [] = none)]
      cases eof <;> simp [atEnd]
    · rw [show Fails cfg eof (.untilClose m []) rest =
        ∃ k, atEnd cfg eof (drainFull cfg (.untilClose m []) rest).1 = .fail k from rfl]
      rw [drainFull_some (step_untilClose cfg m [] rest hre),
        drainFull_none (by simp [step] : step cfg (.untilClose m ([] ++ rest)) [] = none)]
      cases eof
      · simp [atEnd]
      · by_cases hl : rest.length ≤ cfg.maxBody
        · have : ¬ rest.length > cfg.maxBody := by omega
          simp [atEnd, hl, this]
        · have : rest.length > cfg.maxBody := by omega
          simp [atEnd, hl, this]

/-! ### presentation -/

theorem assemble_present (cfg : Cfg) (Z : Bytes → GzRes) (m : Msg) (raw : Bytes)
    (h : m.gz = false ∨ raw = [] ∨ (Z raw).st ≠ .trail) :
    (assemble cfg Z (.msg m raw)).toSpec = Spec.present cfg Z m.code m.reason m.hdrs m.gz raw := by
  by_cases hg : (m.gz && !raw.isEmpty) = true
  · have hz : (Z raw).st ≠ .trail := by
      rcases h with h | h | h
      · simp [h] at hg
      · simp [h] at hg
      · exact h
    simp only [assemble, Spec.present, hg, ↓reduceIte]
    cases hst : (Z raw).st with
    | complete =>
      by_cases hl : (Z raw).out.length > cfg.maxBody
      · have : ¬ (Z raw).out.length ≤ cfg.maxBody := by omega
        simp [hl, this, Res.toSpec]
      · have : (Z raw).out.length ≤ cfg.maxBody := by omega
        simp [hl, this, Res.toSpec]
    | trunc => simp [Res.toSpec]
    | trail => exact absurd hst hz
    | bad => simp [Res.toSpec]
    | missing => simp [Res.toSpec]
  · simp only [assemble, Spec.present, hg]
    rfl

/-! ### the header block -/

theorem onHead_bad (cfg : Cfg) (gz : Bool) (data : Bytes) (hp : parseHead data = none) :
    onHead cfg gz data = .done (.fail .timeout) := by
  simp only [onHead, hp]

theorem onHead_some (cfg : Cfg) (gz : Bool) (data : Bytes) (v : Str) (code : Nat) (reason : Str) (h0 h : Headers)
    (gzNew : Bool) (hp : parseHead data = some ((v, code, reason), h0))
    (hg : (if cfg.decompress then gzipRewrite h0 else (h0, false)) = (h, gzNew)) :
    onHead cfg gz data =
      if 100 ≤ code && code < 200 then
        (if contains h sContentLength || contains h sTransferEncoding then .done (.fail .closed)
         else .head gzNew)
      else if cfg.isHead || code = 304 then .done (.msg ⟨code, reason, h, gzNew⟩ [])
      else match readBody code h cfg.maxBody with
        | none => .done (.fail .closed)
        | some (h', fr) => startPhase ⟨code, reason, h', gzNew⟩ fr := by
  simp only [onHead, hp, hg]
  split
  · rfl
  · split
    · rfl
    · cases hr : readBody code h cfg.maxBody with
      | none => rfl
      | some hf =>
        obtain ⟨h', fr⟩ := hf
        cases fr with
        | fixed n => cases n <;> rfl
        | chunked => rfl
        | close => rfl

/-! ### `gzipRewrite` does not touch the framing headers -/

theorem getItem_asList (h h' : Headers) (n v : Str) (e : getItem h n = .ok (v, h')) : h'.asList = h.asList := by
  unfold getItem at e
  simp only at e
  split at e
  · cases e; rfl
  · split at e
    · cases e; rfl
    · cases e

theorem add_dget (h h' : Headers) (n v k : Str) (e : add h n v = .ok h') (h1 : k ≠ normalize n)
    (h2 : k ≠ normalize (normalize n)) : dget k h'.asList = dget k h.asList := by
  unfold add at e
  split at e
  · cases e
  · split at e
    · cases e
    · split at e
      · cases e
      · simp only at e
        split at e
        · cases e; exact dget_dset_other _ _ _ _ h1
        · cases e; simp only [setItem]; exact dget_dset_other _ _ _ _ h2

theorem delItem_dget (h h' : Headers) (n k : Str) (e : delItem h n = .ok h') (h1 : k ≠ normalize n) :
    dget k h'.asList = dget k h.asList := by
  unfold delItem at e
  simp only at e
  split at e
  · cases e; exact dget_ddel_other _ _ _ h1
  · cases e

theorem contains_gzipRewrite (h0 : Headers) (name : Str) (h1 : normalize name ≠ normalize sContentEncoding)
    (h2 : normalize name ≠ normalize sXConsumed) (h3 : normalize name ≠ normalize (normalize sXConsumed)) :
    contains (gzipRewrite h0).1 name = contains h0 name := by
  unfold contains dhas
  congr 1
  unfold gzipRewrite
  cases hgi : getItem h0 sContentEncoding with
  | error _ => rfl
  | ok vh =>
    obtain ⟨v, ha⟩ := vh
    have e1 := getItem_asList h0 ha _ v hgi
    simp only
    split
    · cases had : add ha sXConsumed v with
      | error _ => simp only; rw [e1]
      | ok hb =>
        have e2 := add_dget ha hb sXConsumed v _ had h2 h3
        simp only
        cases hde : delItem hb sContentEncoding with
        | error _ => simp only; rw [e2, e1]
        | ok hc =>
          have e3 := delItem_dget hb hc sContentEncoding _ hde h1
          simp only; rw [e3, e2, e1]
    · simp only; rw [e1]

theorem contains_gzipRewrite_cl (h0 : Headers) :
    contains (gzipRewrite h0).1 sContentLength = contains h0 sContentLength :=
  contains_gzipRewrite h0 _ (by decide) (by decide) (by decide)

theorem contains_gzipRewrite_te (h0 : Headers) :
    contains (gzipRewrite h0).1 sTransferEncoding = contains h0 sTransferEncoding :=
  contains_gzipRewrite h0 _ (by decide) (by decide) (by decide)

/-! ### the whole response -/

/-- the decompressor did not leave data behind the first member (the one lenient outcome left: known finding
    `gz-trail`); a member that stops short (`trunc`) and a corrupt one (`bad`) are rejected by both sides -/
def ZOk (g : GzRes) : Prop := g.st ≠ .trail

instance (g : GzRes) : Decidable (ZOk g) := by unfold ZOk; infer_instance

/-- from any "awaiting a header block" state: the flag left behind by an interim response is not consulted -/
theorem read_agree (cfg : Cfg) (Z : Bytes → GzRes) (eof : Bool) : ∀ (f : Nat) (s : Bytes) (g : Bool), s.length + 1 ≤ f →
    (cfg.decompress = false ∨
      (∀ m raw, atEnd cfg eof (drainFull cfg (.head g) s).1 = .msg m raw → m.gz = true → raw ≠ [] → ZOk (Z raw))) →
    (assemble cfg Z (atEnd cfg eof (drainFull cfg (.head g) s).1)).toSpec = Spec.read cfg Z eof f s := by
  intro f
  induction f with
  | zero => intro s g h; omega
  | succ f ih =>
    intro s g hfuel hc
    cases he : findHeadEnd s with
    | none =>
      have hs : step cfg (.head g) s = none := by simp only [step, he]
      rw [drainFull_none hs]
      simp only [Spec.read, he]
      cases eof <;> rfl
    | some e =>
      have hb := findHeadEnd_pos_le s e he
      have hs : step cfg (.head g) s = some (onHead cfg g (s.take e), s.drop e) := by simp only [step, he]
      cases hp : parseHead (s.take e) with
      | none =>
        rw [drainFull_some hs, onHead_bad cfg g _ hp, drainFull_done]
        simp only [Spec.read, he, hp]
        rfl
      | some x =>
        obtain ⟨⟨v, code, reason⟩, h0⟩ := x
        cases hg : (if cfg.decompress then gzipRewrite h0 else (h0, false)) with
        | mk h gzNew =>
          have hoh := onHead_some cfg g _ v code reason h0 h gzNew hp hg
          -- with decompression off nothing is rewritten
          have hoff : cfg.decompress = false → h = h0 ∧ gzNew = false := by
            intro hd
            rw [hd] at hg
            simp only [Bool.false_eq_true, if_false, Prod.mk.injEq] at hg
            exact ⟨hg.1.symm, hg.2.symm⟩
          have hon : cfg.decompress = true → h = (gzipRewrite h0).1 ∧ gzNew = (gzipRewrite h0).2 := by
            intro hd
            rw [hd] at hg
            simp only [if_true] at hg
            rw [hg]; exact ⟨rfl, rfl⟩
          by_cases h1xx : (100 ≤ code && code < 200) = true
          · rw [if_pos h1xx] at hoh
            have hcl : contains h sContentLength = contains h0 sContentLength := by
              cases hd : cfg.decompress with
              | false => rw [(hoff hd).1]
              | true => rw [(hon hd).1]; exact contains_gzipRewrite_cl h0
            have hte : contains h sTransferEncoding = contains h0 sTransferEncoding := by
              cases hd : cfg.decompress with
              | false => rw [(hoff hd).1]
              | true => rw [(hon hd).1]; exact contains_gzipRewrite_te h0
            rw [hcl, hte] at hoh
            simp only [Spec.read, he, hp, h1xx, if_true]
            by_cases hct : (contains h0 sContentLength || contains h0 sTransferEncoding) = true
            · rw [if_pos hct] at hoh
              rw [if_pos hct, drainFull_some hs, hoh, drainFull_done]
              rfl
            · rw [if_neg hct] at hoh
              rw [if_neg hct]
              -- the interim response leaves `.head gzNew` behind: whatever `gzNew` is, the next header block decides
              have hdr : drainFull cfg (.head g) s = drainFull cfg (.head gzNew) (s.drop e) := by
                rw [drainFull_some hs, hoh]
              rw [hdr]
              apply ih (s.drop e) gzNew (by simp; omega)
              rcases hc with hd | hz
              · exact Or.inl hd
              · right
                rw [← hdr]; exact hz
          · rw [if_neg h1xx] at hoh
            have hsp : Spec.read cfg Z eof (f + 1) s =
                if cfg.isHead || code = 304 then Spec.present cfg Z code reason h gzNew []
                else match readBody code h cfg.maxBody with
                  | none => none
                  | some (h', fr) =>
                    match Spec.body cfg.maxBody eof fr (s.drop e) with
                    | none => none
                    | some raw => Spec.present cfg Z code reason h' gzNew raw := by
              simp only [Spec.read, he, hp, h1xx, hg]
              rfl
            rw [hsp]
            -- the decompressor is only consulted when it is known to be strict here
            have hzok : ∀ (m : Msg) (raw : Bytes), m.gz = gzNew →
                atEnd cfg eof (drainFull cfg (.head g) s).1 = .msg m raw →
                m.gz = false ∨ raw = [] ∨ (Z raw).st ≠ .trail := by
              intro m raw hmg hat
              rcases hc with hd | hz
              · left; rw [hmg]; exact (hoff hd).2
              · cases hgm : m.gz with
                | false => exact Or.inl rfl
                | true =>
                  by_cases hr : raw = []
                  · exact Or.inr (Or.inl hr)
                  · exact Or.inr (Or.inr (hz m raw hat hgm hr))
            by_cases hh : (cfg.isHead || code = 304) = true
            · rw [if_pos hh] at hoh
              rw [if_pos hh, drainFull_some hs, hoh, drainFull_done]
              exact assemble_present cfg Z ⟨code, reason, h, gzNew⟩ [] (Or.inr (Or.inl rfl))
            · rw [if_neg hh] at hoh
              rw [if_neg hh]
              cases hr : readBody code h cfg.maxBody with
              | none =>
                simp only [hr] at hoh
                rw [drainFull_some hs, hoh, drainFull_done]
                rfl
              | some hf =>
                obtain ⟨h', fr⟩ := hf
                simp only [hr] at hoh
                have hdr : drainFull cfg (.head g) s =
                    drainFull cfg (startPhase ⟨code, reason, h', gzNew⟩ fr) (s.drop e) := by
                  rw [drainFull_some hs, hoh]
                have hba := body_agree cfg eof ⟨code, reason, h', gzNew⟩ fr (s.drop e)
                simp only
                cases hbody : Spec.body cfg.maxBody eof fr (s.drop e) with
                | none =>
                  rw [hbody] at hba
                  obtain ⟨k, hk⟩ := hba
                  rw [hdr, hk]
                  rfl
                | some raw =>
                  rw [hbody] at hba
                  simp only at hba
                  have := hzok ⟨code, reason, h', gzNew⟩ raw rfl (by rw [hdr]; exact hba)
                  rw [hdr, hba]
                  exact assemble_present cfg Z ⟨code, reason, h', gzNew⟩ raw this

end TornadoModel.C08
