/- C08 helper lemmas: the machine run on a whole stream computes what the strict batch reader computes. -/
import TornadoModel.C08.Seg
namespace TornadoModel.C08
open TornadoModel.C06

def Res.toSpec : Res → Option Res
  | .err _ => none
  | r => some r

/-- the fetch fails when the server stops sending with the machine in phase `p` and `b` still to drain -/
def Fails (cfg : Cfg) (eof : Bool) (p : Phase) (b : Bytes) : Prop :=
  ∃ k, atEnd cfg eof (drainFull cfg p b).1 = .fail k

theorem fails_of_step {cfg : Cfg} {eof : Bool} {p p' : Phase} {b b' : Bytes} (h : step cfg p b = some (p', b'))
    (hf : Fails cfg eof p' b') : Fails cfg eof p b := by
  unfold Fails at *
  rw [drainFull_some h]; exact hf

theorem fails_done (cfg : Cfg) (eof : Bool) (k : ErrKind) (b : Bytes) : Fails cfg eof (.done (.fail k)) b := by
  unfold Fails
  rw [drainFull_done]; exact ⟨k, rfl⟩

/-- a read that is still pending when the server stops: the fetch fails -/
def Pending : Phase → Prop
  | .done _ => False
  | .untilClose _ _ => False
  | _ => True

theorem fails_pending {cfg : Cfg} {eof : Bool} {p : Phase} {b : Bytes} (hp : Pending p) (h : step cfg p b = none) :
    Fails cfg eof p b := by
  unfold Fails
  rw [drainFull_none h]
  cases p <;> simp only [Pending] at hp <;> cases eof <;> simp [atEnd]

theorem step_crlf_short_chunk (cfg : Cfg) (m : Msg) (total : Nat) (acc b : Bytes) (h : b.length < 2) :
    step cfg (.chunkCrlf m total acc) b = none := by
  match b, h with
  | [], _ => simp [step]
  | [_], _ => simp [step]
  | _ :: _ :: _, h => simp at h; omega

theorem step_crlf_short_last (cfg : Cfg) (m : Msg) (acc b : Bytes) (h : b.length < 2) :
    step cfg (.lastCrlf m acc) b = none := by
  match b, h with
  | [], _ => simp [step]
  | [_], _ => simp [step]
  | _ :: _ :: _, h => simp at h; omega

/-- `drop n r` when at least two bytes follow -/
theorem drop_two (r : Bytes) (n : Nat) (h : n + 2 ≤ r.length) :
    ∃ x y, r.drop n = x :: y :: r.drop (n + 2) := by
  have h1 : n < r.length := by omega
  have h2 : n + 1 < r.length := by omega
  refine ⟨r[n], r[n + 1], ?_⟩
  rw [List.drop_eq_getElem_cons h1, List.drop_eq_getElem_cons h2]

/-! ### the chunked body -/

/-- the terminator after the last-chunk line -/
def lastOk : Bytes → Option Bytes
  | 13 :: 10 :: _ => some []
  | _ => none

theorem lastOk_one (x : Nat) : lastOk [x] = none := by
  unfold lastOk; split <;> simp_all

theorem lastOk_bad (x y : Nat) (r : Bytes) (h : ¬ (x = 13 ∧ y = 10)) : lastOk (x :: y :: r) = none := by
  unfold lastOk
  split
  · rename_i heq; cases heq; exact absurd ⟨rfl, rfl⟩ h
  · rfl

theorem chunks_agree (cfg : Cfg) (eof : Bool) (m : Msg) : ∀ (f total : Nat) (acc b : Bytes), b.length + 1 ≤ f →
    match Spec.chunks cfg.maxBody f total b with
    | some body => (drainFull cfg (.chunkSize m total acc) b).1 = .done (.msg m (acc ++ body))
    | none => Fails cfg eof (.chunkSize m total acc) b := by
  intro f
  induction f with
  | zero => intro total acc b h; omega
  | succ f ih =>
    intro total acc b hfuel
    cases hf : findCrlf b with
    | none =>
      have hc : Spec.chunks cfg.maxBody (f + 1) total b = none := by simp only [Spec.chunks, hf]
      rw [hc]
      by_cases hl : b.length > 64
      · have hs : step cfg (.chunkSize m total acc) b = some (.done (.fail .quiet), []) := by
          simp only [step, hf, if_pos hl]
        exact fails_of_step hs (fails_done _ _ _ _)
      · have hs : step cfg (.chunkSize m total acc) b = none := by
          simp only [step, hf, if_neg hl]
        exact fails_pending trivial hs
    | some loc =>
      have hle := findCrlf_le b loc hf
      by_cases hq : loc + 2 > 64
      · have hc : Spec.chunks cfg.maxBody (f + 1) total b = none := by simp only [Spec.chunks, hf, if_pos hq]
        rw [hc]
        have hs : step cfg (.chunkSize m total acc) b = some (.done (.fail .quiet), []) := by
          simp only [step, hf, if_pos hq]
        exact fails_of_step hs (fails_done _ _ _ _)
      · cases hp : parseHex (b.take loc) with
        | none =>
          have hc : Spec.chunks cfg.maxBody (f + 1) total b = none := by
            simp only [Spec.chunks, hf, if_neg hq, hp]
          rw [hc]
          have hs : step cfg (.chunkSize m total acc) b = some (.done (.fail .closed), b.drop (loc + 2)) := by
            simp only [step, hf, if_neg hq, hp]
          exact fails_of_step hs (fails_done _ _ _ _)
        | some n =>
          cases n with
          | zero =>
            have hs : step cfg (.chunkSize m total acc) b = some (.lastCrlf m acc, b.drop (loc + 2)) := by
              simp only [step, hf, if_neg hq, hp]
            have hc : Spec.chunks cfg.maxBody (f + 1) total b = lastOk (b.drop (loc + 2)) := by
              simp only [Spec.chunks, hf, if_neg hq, hp]
              rfl
            rw [hc]
            generalize b.drop (loc + 2) = r at hs ⊢
            match r, hs with
            | [], hs =>
              exact fails_of_step hs (fails_pending trivial (step_crlf_short_last _ _ _ _ (by simp)))
            | [x], hs =>
              rw [lastOk_one]
              exact fails_of_step hs (fails_pending trivial (step_crlf_short_last _ _ _ _ (by simp)))
            | x :: y :: r', hs =>
              by_cases hxy : x = 13 ∧ y = 10
              · obtain ⟨rfl, rfl⟩ := hxy
                have hs2 : step cfg (.lastCrlf m acc) (13 :: 10 :: r') = some (.done (.msg m acc), r') := by
                  simp [step]
                show (drainFull cfg (.chunkSize m total acc) (b)).1 = _
                rw [drainFull_some hs, drainFull_some hs2, drainFull_done, List.append_nil]
              · rw [lastOk_bad x y r' hxy]
                have hs2 : step cfg (.lastCrlf m acc) (x :: y :: r') = some (.done (.fail .closed), r') := by
                  have : (x = 13 && y = 10) = false := by
                    simp only [Bool.and_eq_false_iff, decide_eq_false_iff_not]
                    by_cases hx : x = 13
                    · right; intro hy; exact hxy ⟨hx, hy⟩
                    · left; exact hx
                  simp [step, this]
                exact fails_of_step hs (fails_of_step hs2 (fails_done _ _ _ _))
          | succ n' =>
            by_cases hm : total + (n' + 1) > cfg.maxBody
            · have hc : Spec.chunks cfg.maxBody (f + 1) total b = none := by
                simp only [Spec.chunks, hf, if_neg hq, hp, if_pos hm]
              rw [hc]
              have hs : step cfg (.chunkSize m total acc) b = some (.done (.fail .closed), b.drop (loc + 2)) := by
                simp only [step, hf, if_neg hq, hp, if_pos hm]
              exact fails_of_step hs (fails_done _ _ _ _)
            · have hs : step cfg (.chunkSize m total acc) b =
                  some (.chunkData m (total + (n' + 1)) (n' + 1) acc, b.drop (loc + 2)) := by
                simp only [step, hf, if_neg hq, hp, if_neg hm]
              have hc : Spec.chunks cfg.maxBody (f + 1) total b =
                  (let r := b.drop (loc + 2)
                   if r.length < n' + 1 + 2 then none
                   else if (r.drop (n' + 1)).take 2 != [13, 10] then none
                   else (Spec.chunks cfg.maxBody f (total + (n' + 1)) (r.drop (n' + 1 + 2))).map
                     (r.take (n' + 1) ++ ·)) := by
                simp only [Spec.chunks, hf, if_neg hq, hp, if_neg hm]
              rw [hc]
              have hrl : (b.drop (loc + 2)).length + 2 ≤ b.length := by simp; omega
              generalize b.drop (loc + 2) = r at hs hrl
              simp only
              by_cases hshort : r.length < n' + 1 + 2
              · rw [if_pos hshort]
                refine fails_of_step hs ?_
                by_cases hre : r = []
                · subst hre
                  exact fails_pending trivial (by simp [step])
                · by_cases hlt : r.length < n' + 1
                  · refine fails_of_step (step_chunkData_lt cfg m _ (n' + 1) acc r hre hlt) ?_
                    exact fails_pending trivial (by simp [step])
                  · refine fails_of_step (step_chunkData_ge cfg m _ (n' + 1) acc r hre (by omega) (by omega)) ?_
                    exact fails_pending trivial (step_crlf_short_chunk _ _ _ _ _ (by simp; omega))
              · rw [if_neg hshort]
                have hre : r ≠ [] := by intro h0; subst h0; simp at hshort
                have hs1 := step_chunkData_ge cfg m (total + (n' + 1)) (n' + 1) acc r hre (by omega) (by omega)
                obtain ⟨x, y, hxy⟩ := drop_two r (n' + 1) (by omega)
                rw [hxy] at hs1
                rw [hxy]
                by_cases hcr : x = 13 ∧ y = 10
                · obtain ⟨rfl, rfl⟩ := hcr
                  have ht : ((13 :: 10 :: r.drop (n' + 1 + 2)).take 2 != [13, 10]) = false := by simp
                  rw [ht]
                  simp only [Bool.false_eq_true, if_false]
                  have hs2 : step cfg (.chunkCrlf m (total + (n' + 1)) (acc ++ r.take (n' + 1)))
                      (13 :: 10 :: r.drop (n' + 1 + 2)) =
                      some (.chunkSize m (total + (n' + 1)) (acc ++ r.take (n' + 1)), r.drop (n' + 1 + 2)) := by
                    simp [step]
                  have := ih (total + (n' + 1)) (acc ++ r.take (n' + 1)) (r.drop (n' + 1 + 2)) (by simp; omega)
                  cases hrec : Spec.chunks cfg.maxBody f (total + (n' + 1)) (r.drop (n' + 1 + 2)) with
                  | some body =>
                    rw [hrec] at this
                    simp only at this
                    simp only [Option.map_some]
                    rw [drainFull_some hs, drainFull_some hs1, drainFull_some hs2, this, List.append_assoc]
                  | none =>
                    rw [hrec] at this
                    simp only at this
                    simp only [Option.map_none]
                    exact fails_of_step hs (fails_of_step hs1 (fails_of_step hs2 this))
                · have ht : ((x :: y :: r.drop (n' + 1 + 2)).take 2 != [13, 10]) = true := by
                    simp only [List.take_succ_cons, List.take_zero, bne_iff_ne, ne_eq, List.cons.injEq, and_true]
                    exact hcr
                  rw [ht]
                  simp only [if_true]
                  have hs2 : step cfg (.chunkCrlf m (total + (n' + 1)) (acc ++ r.take (n' + 1)))
                      (x :: y :: r.drop (n' + 1 + 2)) = some (.done (.fail .closed), r.drop (n' + 1 + 2)) := by
                    have : (x = 13 && y = 10) = false := by
                      simp only [Bool.and_eq_false_iff, decide_eq_false_iff_not]
                      by_cases hx : x = 13
                      · right; intro hy; exact hcr ⟨hx, hy⟩
                      · left; exact hx
                    simp [step, this]
                  exact fails_of_step hs (fails_of_step hs1 (fails_of_step hs2 (fails_done _ _ _ _)))

end TornadoModel.C08
