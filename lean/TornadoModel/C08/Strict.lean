/- C08: the model's framing decision against the independently stated one (`Spec.framing`), and the reader built on it. -/
import TornadoModel.C08.Agree
namespace TornadoModel.C08
open TornadoModel.C06

theorem isListWs_ne_comma (c : Nat) (h : isListWs c = true) : c ≠ 44 := by
  intro e; subst e; simp [isListWs] at h

/-- `re.split(r",[ \t]*", v)` = split at the commas, then strip leading SP / HTAB from every piece but the first -/
theorem splitCommaWs_split : ∀ (v : Str) (skip : Bool),
    splitCommaWs skip v =
      match splitOnC 44 v with
      | [] => []
      | p :: ps => (if skip then p.dropWhile isListWs else p) :: ps.map (·.dropWhile isListWs)
  | [], skip => by cases skip <;> simp [splitCommaWs, splitOnC]
  | c :: cs, skip => by
    have ih1 := splitCommaWs_split cs true
    have ih0 := splitCommaWs_split cs false
    have hne := splitOnC_ne_nil 44 cs
    cases hs : splitOnC 44 cs with
    | nil => exact absurd hs hne
    | cons p ps =>
      rw [hs] at ih1 ih0
      simp only at ih1 ih0
      unfold splitCommaWs
      by_cases h1 : (skip && isListWs c) = true
      · rw [if_pos h1, ih1]
        simp only [Bool.and_eq_true] at h1
        have hc : c ≠ 44 := isListWs_ne_comma c h1.2
        simp only [splitOnC, hc, if_false, hs, h1.1, if_true, List.dropWhile_cons, h1.2]
      · rw [if_neg h1]
        by_cases hc : c = 44
        · rw [if_pos hc, ih1]
          subst hc
          simp only [splitOnC, if_true, hs, List.map_cons, List.dropWhile_nil]
          cases skip <;> rfl
        · rw [if_neg hc, ih0]
          simp only [splitOnC, hc, if_false, hs]
          cases skip with
          | false => rfl
          | true =>
            have : isListWs c = false := by simpa using h1
            simp [this]

/-! ### header-object facts: reading or setting one field leaves the other fields alone -/

theorem getAll_congr {h h' : Headers} (e : h'.asList = h.asList) : getAll h' = getAll h := by
  unfold getAll; rw [e]

theorem contains_congr {h h' : Headers} (e : h'.asList = h.asList) (n : Str) : contains h' n = contains h n := by
  unfold contains; rw [e]

theorem field_none {h : Headers} {a : Str} (hc : contains h a = false) : Spec.field h a = none := by
  simp [Spec.field, hc]

theorem field_some {h : Headers} {a : Str} (hc : contains h a = true) :
    ∃ v h1, getItem h a = .ok (v, h1) ∧ Spec.field h a = some v := by
  unfold Spec.field
  rw [if_pos hc]
  unfold contains dhas at hc
  unfold getItem
  simp only
  cases hd : dget (normalize a) h.cache with
  | some v => exact ⟨v, h, rfl, rfl⟩
  | none =>
    cases hl : dget (normalize a) h.asList with
    | none => simp [hl] at hc
    | some vs => exact ⟨_, _, rfl, rfl⟩

theorem field_getItem_other {h h1 : Headers} {a b v : Str} (e : getItem h a = .ok (v, h1))
    (hne : normalize b ≠ normalize a) : Spec.field h1 b = Spec.field h b := by
  have hal := getItem_asList h h1 a v e
  have hcache : dget (normalize b) h1.cache = dget (normalize b) h.cache := by
    unfold getItem at e
    simp only at e
    split at e
    · cases e; rfl
    · split at e
      · cases e; exact dget_dset_other _ _ _ _ hne
      · cases e
  unfold Spec.field
  rw [contains_congr hal]
  unfold getItem
  simp only [hcache, hal]
  split
  · cases dget (normalize b) h.cache with
    | some w => rfl
    | none => cases dget (normalize b) h.asList <;> rfl
  · rfl

theorem field_setItem_other (h : Headers) (a b p : Str) (hne : normalize b ≠ normalize a) :
    Spec.field (setItem h a p) b = Spec.field h b ∧ contains (setItem h a p) b = contains h b := by
  have hal : dget (normalize b) (setItem h a p).asList = dget (normalize b) h.asList := by
    simp only [setItem]; exact dget_dset_other _ _ _ _ hne
  have hcache : dget (normalize b) (setItem h a p).cache = dget (normalize b) h.cache := by
    simp only [setItem]; exact dget_dset_other _ _ _ _ hne
  have hcon : contains (setItem h a p) b = contains h b := by
    unfold contains dhas; rw [hal]
  refine ⟨?_, hcon⟩
  unfold Spec.field
  rw [hcon]
  unfold getItem
  simp only [hcache, hal]
  split
  · cases dget (normalize b) h.cache with
    | some w => rfl
    | none => cases dget (normalize b) h.asList <;> rfl
  · rfl

theorem contains_setItem_same (h : Headers) (a p : Str) : contains (setItem h a p) a = true := by
  unfold contains dhas
  simp only [setItem]
  rw [dget_dset_same]; rfl

/-! ### the Content-Length step -/

/-- what `clStep` hands on when it accepts: a header object that shows what the strict reader shows, still has the
    Content-Length field, and whose Transfer-Encoding field is untouched -/
def ClOut (h H : Headers) : Prop :=
  getAll H = Spec.shown h ∧ contains H sContentLength = true ∧
    contains H sTransferEncoding = contains h sTransferEncoding ∧
    Spec.field H sTransferEncoding = Spec.field h sTransferEncoding

theorem nTE_ne_nCL : normalize sTransferEncoding ≠ normalize sContentLength := by decide

theorem isListWs_eq : isListWs = Spec.isOws := rfl

/-- the model's Content-Length list test is the strict one -/
theorem cl_list_test (v p : Str) (ps : List Str) (hs : splitOnC 44 v = p :: ps) :
    (match splitCommaWs false v with
      | [] => (none : Option Str)
      | p' :: ps' => if ps'.all (· == p') then some p' else none) = Spec.clMember v := by
  rw [splitCommaWs_split v false, hs]
  simp only [Bool.false_eq_true, if_false, Spec.clMember, hs]
  have : (ps.map (·.dropWhile isListWs)).all (· == p) = ps.all (fun q => q.dropWhile Spec.isOws == p) := by
    rw [List.all_map, isListWs_eq]; rfl
  rw [this]

theorem clStep_absent (h : Headers) (mb : Nat) (hc : contains h sContentLength = false) :
    clStep h mb = some (h, none) := by
  simp [clStep, hc]

theorem clStep_strict (h : Headers) (mb : Nat) (v : Str) (hf : Spec.field h sContentLength = some v) :
    match (Spec.clMember v).bind parseDec with
    | none => clStep h mb = none
    | some n => if n > mb then clStep h mb = none else ∃ H, clStep h mb = some (H, some n) ∧ ClOut h H := by
  have hc : contains h sContentLength = true := by
    cases hcc : contains h sContentLength with
    | true => rfl
    | false => rw [field_none hcc] at hf; cases hf
  obtain ⟨v', h1, hgi, hf'⟩ := field_some hc
  rw [hf] at hf'; cases hf'
  have hal := getItem_asList h h1 _ v hgi
  have hte1 : Spec.field h1 sTransferEncoding = Spec.field h sTransferEncoding :=
    field_getItem_other hgi nTE_ne_nCL
  have hshown : Spec.shown h =
      if v.contains 44 then (match Spec.clMember v with
        | some p => getAll (setItem h sContentLength p) | none => getAll h) else getAll h := by
    unfold Spec.shown; rw [hf]; rfl
  unfold clStep
  rw [if_pos hc, hgi]
  simp only
  by_cases hcomma : v.contains 44 = true
  · rw [if_pos hcomma]
    cases hs : splitOnC 44 v with
    | nil => exact absurd hs (splitOnC_ne_nil 44 v)
    | cons p ps =>
      have hm := cl_list_test v p ps hs
      have hmem : Spec.clMember v = if ps.all (fun q => q.dropWhile Spec.isOws == p) then some p else none := by
        simp only [Spec.clMember, hs]
      rw [splitCommaWs_split v false, hs] at hm ⊢
      simp only [Bool.false_eq_true, if_false] at hm ⊢
      by_cases hall : (ps.map (·.dropWhile isListWs)).all (· == p) = true
      · rw [if_pos hall] at hm ⊢
        rw [← hm]
        simp only [Option.bind_some]
        cases hd : parseDec p with
        | none => simp
        | some n =>
          simp only
          by_cases hn : n > mb
          · simp [hn]
          · rw [if_neg hn]
            refine ⟨setItem h1 sContentLength p, by simp [hn], ?_, contains_setItem_same _ _ _, ?_, ?_⟩
            · rw [hshown, if_pos hcomma, ← hm]
              apply getAll_congr
              simp only [setItem, hal]
            · rw [(field_setItem_other h1 _ _ p nTE_ne_nCL).2]; exact contains_congr hal _
            · rw [(field_setItem_other h1 _ _ p nTE_ne_nCL).1]; exact hte1
      · rw [if_neg hall] at hm ⊢
        rw [← hm]
        simp
  · rw [if_neg hcomma]
    have hnm : 44 ∉ v := by simpa using hcomma
    have hs := split_nosep 44 v hnm
    have hmem : Spec.clMember v = some v := by simp [Spec.clMember, hs]
    rw [hmem]
    simp only [Option.bind_some]
    cases hd : parseDec v with
    | none => simp
    | some n =>
      simp only
      by_cases hn : n > mb
      · simp [hn]
      · rw [if_neg hn]
        refine ⟨h1, by simp [hn], ?_, ?_, contains_congr hal _, hte1⟩
        · rw [hshown, if_neg hcomma]; exact getAll_congr hal
        · rw [contains_congr hal]; exact hc

/-! ### the whole framing decision -/

theorem shown_absent (h : Headers) (hc : contains h sContentLength = false) : Spec.shown h = getAll h := by
  unfold Spec.shown; rw [field_none hc]

/-- **readBody_eq_strict**: on every header set the framing decision of `_read_body` / `is_transfer_encoding_chunked` and the header fields it leaves behind are
    exactly those of the independently stated `Spec.framing` / `Spec.shown` — for every status code and limit. -/
theorem readBody_eq_strict (code : Nat) (h : Headers) (mb : Nat) :
    (readBody code h mb).map (fun r => (getAll r.1, r.2)) =
      (Spec.framing code (Spec.field h sContentLength) (Spec.field h sTransferEncoding) mb).map
        (fun fr => (Spec.shown h, fr)) := by
  cases hcl : contains h sContentLength with
  | false =>
    rw [field_none hcl, shown_absent h hcl]
    unfold readBody
    rw [clStep_absent h mb hcl]
    simp only
    cases hte : contains h sTransferEncoding with
    | false =>
      rw [field_none hte]
      simp only [chStep, hte, Bool.not_false, if_true, Bool.false_eq_true, if_false, framingOf, Spec.framing]
      by_cases h204 : code = 204 <;> simp [h204]
    | true =>
      obtain ⟨t, h1, hgi, hft⟩ := field_some hte
      have hal := getItem_asList h h1 _ t hgi
      rw [hft]
      simp only [chStep, hte, hcl, hgi, Bool.not_true, Bool.false_eq_true, if_false, Spec.framing]
      by_cases hch : t.map lowerC = sChunked
      · simp only [hch, if_true, framingOf]
        by_cases h204 : code = 204 <;> simp [h204, getAll_congr hal]
      · simp [hch]
  | true =>
    obtain ⟨v, h1, hgi, hf⟩ := field_some hcl
    have hcs := clStep_strict h mb v hf
    rw [hf]
    unfold readBody
    cases hb : (Spec.clMember v).bind parseDec with
    | none =>
      rw [hb] at hcs
      simp only at hcs
      rw [hcs]
      cases Spec.field h sTransferEncoding <;> simp [Spec.framing, hb]
    | some n =>
      rw [hb] at hcs
      simp only at hcs
      by_cases hn : n > mb
      · rw [if_pos hn] at hcs
        rw [hcs]
        cases Spec.field h sTransferEncoding <;> simp [Spec.framing, hb, hn]
      · rw [if_neg hn] at hcs
        obtain ⟨H, hH, hshow, hHcl, hHte, hHf⟩ := hcs
        rw [hH]
        simp only
        cases hte : contains h sTransferEncoding with
        | true =>
          obtain ⟨t, _, _, hft⟩ := field_some hte
          rw [hft]
          rw [hte] at hHte
          simp [chStep, hHte, hHcl, Spec.framing]
        | false =>
          rw [field_none hte]
          rw [hte] at hHte
          simp only [chStep, hHte, Bool.not_false, if_true, framingOf, Spec.framing, hb, hn, if_false,
            Bool.false_or]
          by_cases h204 : code = 204
          · by_cases h0 : n = 0 <;> simp [h204, h0, hshow]
          · simp [h204, hshow]

/-! ### the two batch readers -/

theorem present_eq (cfg : Cfg) (Z : Bytes → GzRes) (c : Nat) (r : Str) (h : Headers) (gz : Bool) (raw : Bytes) :
    Spec.present cfg Z c r h gz raw = Spec.presentL cfg Z c r (getAll h) gz raw := rfl

/-- the batch reader that frames by `Spec.framing` and the one that frames by the model's `readBody` are the same
    function (unconditionally, since the Content-Length-list fix) -/
theorem strictRead_eq (cfg : Cfg) (Z : Bytes → GzRes) (eof : Bool) : ∀ (f : Nat) (s : Bytes),
    Spec.strictRead cfg Z eof f s = Spec.read cfg Z eof f s := by
  intro f
  induction f with
  | zero => intro s; rfl
  | succ f ih =>
    intro s
    unfold Spec.strictRead Spec.read
    cases he : findHeadEnd s with
    | none => rfl
    | some e =>
      simp only
      cases hp : parseHead (s.take e) with
      | none => rfl
      | some q =>
        obtain ⟨⟨ver, code, reason⟩, h0⟩ := q
        simp only
        by_cases h1xx : (100 ≤ code && code < 200) = true
        · rw [if_pos h1xx, if_pos h1xx]
          by_cases hct : (contains h0 sContentLength || contains h0 sTransferEncoding) = true
          · rw [if_pos hct, if_pos hct]
          · rw [if_neg hct, if_neg hct]
            exact ih (s.drop e)
        · rw [if_neg h1xx, if_neg h1xx]
          cases hg : (if cfg.decompress then gzipRewrite h0 else (h0, false)) with
          | mk h gz =>
            simp only
            by_cases hh : (cfg.isHead || code = 304) = true
            · rw [if_pos hh, if_pos hh, present_eq]
            · rw [if_neg hh, if_neg hh]
              have hrb := readBody_eq_strict code h cfg.maxBody
              cases hr : readBody code h cfg.maxBody with
              | none =>
                rw [hr] at hrb
                cases hfr : Spec.framing code (Spec.field h sContentLength) (Spec.field h sTransferEncoding)
                    cfg.maxBody with
                | none => rfl
                | some fr => rw [hfr] at hrb; cases hrb
              | some hf =>
                obtain ⟨h', fr⟩ := hf
                rw [hr] at hrb
                cases hfr : Spec.framing code (Spec.field h sContentLength) (Spec.field h sTransferEncoding)
                    cfg.maxBody with
                | none => rw [hfr] at hrb; cases hrb
                | some fr' =>
                  rw [hfr] at hrb
                  simp only [Option.map_some, Option.some.injEq, Prod.mk.injEq] at hrb
                  obtain ⟨hga, hfe⟩ := hrb
                  subst hfe
                  simp only
                  cases Spec.body cfg.maxBody eof fr (s.drop e) with
                  | none => rfl
                  | some raw => simp only; rw [present_eq, hga]

theorem strictReadAll_eq (cfg : Cfg) (Z : Bytes → GzRes) (s : Bytes) (eof : Bool) :
    Spec.strictReadAll cfg Z s eof = Spec.readAll cfg Z s eof :=
  strictRead_eq cfg Z eof _ s

/-! ### whatever the strict decision accepts, the code accepts with the same result -/

/-- **strict_accepts_sound**: every header set the independently stated framing rule accepts is accepted by
    `_read_body` with the same framing and the same header fields. -/
theorem strict_accepts_sound (code : Nat) (h : Headers) (mb : Nat) (fr : Framing)
    (ha : Spec.framing code (Spec.field h sContentLength) (Spec.field h sTransferEncoding) mb = some fr) :
    ∃ h', readBody code h mb = some (h', fr) ∧ getAll h' = Spec.shown h := by
  have hrb := readBody_eq_strict code h mb
  rw [ha] at hrb
  cases hr : readBody code h mb with
  | none => rw [hr] at hrb; cases hrb
  | some q =>
    obtain ⟨h', fr'⟩ := q
    rw [hr] at hrb
    simp only [Option.map_some, Option.some.injEq, Prod.mk.injEq] at hrb
    exact ⟨h', by rw [hrb.2], hrb.1⟩

end TornadoModel.C08
