/-
C08 — the specification: a strict *batch* reader of one HTTP/1.x response from the complete byte stream.

It shares with the model only the pure, non-incremental pieces (status-line/header grammar `parseHead`, the
framing decision `readBody`, the header presentation `gzipRewrite`); everything about *reading* is
independent: no buffer, no phases, no partial reads — the body is cut out of the whole stream in one go.
`none` = the reader rejects the stream (the fetch must fail).  gzip is strict: exactly one complete member.
-/
import TornadoModel.C08.Model
namespace TornadoModel.C08.Spec
open TornadoModel.C06 TornadoModel.C08

/-- chunked coding, strict: `hex CRLF data CRLF … 0 CRLF CRLF`, size lines of at most 64 bytes incl. CRLF -/
def chunks (maxBody : Nat) : Nat → Nat → Bytes → Option Bytes
  | 0, _, _ => none
  | f + 1, total, b =>
    match findCrlf b with
    | none => none
    | some loc =>
      if loc + 2 > 64 then none
      else match parseHex (b.take loc) with
        | none => none
        | some 0 =>
          match b.drop (loc + 2) with
          | 13 :: 10 :: _ => some []
          | _ => none
        | some n =>
          let r := b.drop (loc + 2)
          if total + n > maxBody then none
          else if r.length < n + 2 then none
          else if (r.drop n).take 2 != [13, 10] then none
          else (chunks maxBody f (total + n) (r.drop (n + 2))).map (r.take n ++ ·)

/-- the encoded body, given the framing and everything after the header block -/
def body (maxBody : Nat) (eof : Bool) : Framing → Bytes → Option Bytes
  | .fixed n, rest => if n ≤ rest.length then some (rest.take n) else none
  | .chunked, rest => chunks maxBody (rest.length + 1) 0 rest
  | .close, rest => if eof && rest.length ≤ maxBody then some rest else none

def present (cfg : Cfg) (Z : Bytes → GzRes) (code : Nat) (reason : Str) (h : Headers) (gz : Bool) (raw : Bytes) :
    Option Res :=
  if gz && !raw.isEmpty then
    let r := Z raw
    if r.st = .complete && r.out.length ≤ cfg.maxBody then some (.ok code reason (getAll h) r.out) else none
  else some (.ok code reason (getAll h) raw)

/-- read one final response (skipping 1xx interim responses) from the whole stream -/
def read (cfg : Cfg) (Z : Bytes → GzRes) (eof : Bool) : Nat → Bytes → Option Res
  | 0, _ => none
  | f + 1, s =>
    match findHeadEnd s with
    | none => none
    | some e =>
      match parseHead (s.take e) with
      | none => none
      | some ((_, code, reason), h0) =>
        let rest := s.drop e
        if 100 ≤ code && code < 200 then
          if contains h0 sContentLength || contains h0 sTransferEncoding then none
          else read cfg Z eof f rest
        else
          let (h, gz) := if cfg.decompress then gzipRewrite h0 else (h0, false)
          if cfg.isHead || code = 304 then present cfg Z code reason h gz []
          else match readBody code h cfg.maxBody with
            | none => none
            | some (h', fr) =>
              match body cfg.maxBody eof fr rest with
              | none => none
              | some raw => present cfg Z code reason h' gz raw

def readAll (cfg : Cfg) (Z : Bytes → GzRes) (s : Bytes) (eof : Bool) : Option Res :=
  read cfg Z eof (s.length + 1) s

/-! ### the strict reader proper: the framing decision stated without the model

`read` above takes the framing decision (`readBody` = `clStep`/`chStep`/`framingOf`) from the model.  `strictRead`
below is the same batch reader with that decision replaced by `framing`, written directly from RFC 9112 §6.3 and
RFC 9110 §8.6 over the two field values `headers["Content-Length"]` / `headers["Transfer-Encoding"]` (C06: all field
lines of a name joined by ","); nothing of `clStep` / `chStep` / `framingOf` / `splitCommaWs` is used.
`strictReadAll` is the oracle of the harness.  `Props.lean` relates the two (`readBody_eq_strict`,
`strict_accepts_sound`, `strictRead_eq`: since the Content-Length-list fix they coincide unconditionally). -/

/-- optional whitespace of RFC 9110 §5.6.3: SP / HTAB -/
def isOws (c : Nat) : Bool := c = 32 || c = 9

/-- `headers[name]` when the field is present -/
def field (h : Headers) (name : Str) : Option Str :=
  if contains h name then
    match getItem h name with
    | .ok (v, _) => some v
    | .error _ => none
  else none

/-- RFC 9110 §8.6: `Content-Length = 1*DIGIT`; a recipient may read a list of identical members `n, n, …` (OWS after
    each comma) as `n`.  Returns that single member (not yet checked to be a number). -/
def clMember (v : Str) : Option Str :=
  match splitOnC 44 v with
  | [] => none
  | p :: ps => if ps.all (fun q => q.dropWhile isOws == p) then some p else none

/-- the framing of a final response that may have a body (not HEAD, not 304), RFC 9112 §6.3:
    both fields ⇒ reject; Transfer-Encoding must be exactly `chunked`; Content-Length a number (or list of the same
    number) within the limit; 204 has no body and must not announce one; neither field ⇒ until close. -/
def framing (code : Nat) (cl te : Option Str) (maxBody : Nat) : Option Framing :=
  match te, cl with
  | some _, some _ => none
  | some t, none => if t.map lowerC = sChunked then (if code = 204 then none else some .chunked) else none
  | none, some v =>
    match (clMember v).bind parseDec with
    | none => none
    | some n =>
      if n > maxBody then none
      else if code = 204 then (if n = 0 then some (.fixed 0) else none)
      else some (.fixed n)
  | none, none => if code = 204 then some (.fixed 0) else some .close

/-- the header fields handed to the application: as received, a Content-Length list collapsed to its member -/
def shown (h : Headers) : List (Str × Str) :=
  match field h sContentLength with
  | none => getAll h
  | some v =>
    if v.contains 44 then
      match clMember v with
      | some p => getAll (setItem h sContentLength p)
      | none => getAll h
    else getAll h

def presentL (cfg : Cfg) (Z : Bytes → GzRes) (code : Nat) (reason : Str) (h : List (Str × Str)) (gz : Bool)
    (raw : Bytes) : Option Res :=
  if gz && !raw.isEmpty then
    let r := Z raw
    if r.st = .complete && r.out.length ≤ cfg.maxBody then some (.ok code reason h r.out) else none
  else some (.ok code reason h raw)

/-- read one final response (skipping 1xx interim responses) from the whole stream, framing by `framing` -/
def strictRead (cfg : Cfg) (Z : Bytes → GzRes) (eof : Bool) : Nat → Bytes → Option Res
  | 0, _ => none
  | f + 1, s =>
    match findHeadEnd s with
    | none => none
    | some e =>
      match parseHead (s.take e) with
      | none => none
      | some ((_, code, reason), h0) =>
        let rest := s.drop e
        if 100 ≤ code && code < 200 then
          if contains h0 sContentLength || contains h0 sTransferEncoding then none
          else strictRead cfg Z eof f rest
        else
          let (h, gz) := if cfg.decompress then gzipRewrite h0 else (h0, false)
          if cfg.isHead || code = 304 then presentL cfg Z code reason (getAll h) gz []
          else match framing code (field h sContentLength) (field h sTransferEncoding) cfg.maxBody with
            | none => none
            | some fr =>
              match body cfg.maxBody eof fr rest with
              | none => none
              | some raw => presentL cfg Z code reason (shown h) gz raw

def strictReadAll (cfg : Cfg) (Z : Bytes → GzRes) (s : Bytes) (eof : Bool) : Option Res :=
  strictRead cfg Z eof (s.length + 1) s

end TornadoModel.C08.Spec
