/- C08 helper lemmas: prefix stability of every read of the machine, hence segmentation independence. -/
import TornadoModel.C08.Lemmas
namespace TornadoModel.C08
open TornadoModel.C06

/-! ### `findHeadEnd` is prefix stable -/

/-- does `\r?\n\r?\n` match right here, and where does the match end -/
def headHere : Bytes → Option Nat
  | 13 :: 10 :: 13 :: 10 :: _ => some 4
  | 13 :: 10 :: 10 :: _ => some 3
  | 10 :: 13 :: 10 :: _ => some 3
  | 10 :: 10 :: _ => some 2
  | _ => none

theorem findHeadEnd_cons (c : Nat) (cs : Bytes) :
    findHeadEnd (c :: cs) = match headHere (c :: cs) with
      | some n => some n
      | none => (findHeadEnd cs).map (· + 1) := by
  rw [findHeadEnd]
  split
  · rename_i heq; cases heq; simp [headHere]
  · rename_i heq; cases heq; simp [headHere]
  · rename_i heq; cases heq; simp [headHere]
  · rename_i heq; cases heq; simp [headHere]
  · rename_i h1 h2 h3 h4
    have : headHere (c :: cs) = none := by
      unfold headHere
      split
      all_goals first
        | rfl
        | (rename_i heq; first | exact (h1 _ heq).elim | exact (h2 _ heq).elim | exact (h3 _ heq).elim | exact (h4 _ heq).elim)
    rw [this]

theorem headHere_app (x b : Bytes) (n : Nat) (h : headHere x = some n) : headHere (x ++ b) = some n := by
  unfold headHere at h
  split at h
  · cases h; simp [headHere]
  · cases h; simp [headHere]
  · cases h; simp [headHere]
  · cases h; simp [headHere]
  · cases h

theorem headHere_long (a b c d : Nat) (r r' : Bytes) : headHere (a :: b :: c :: d :: r) = headHere (a :: b :: c :: d :: r') := by
  unfold headHere
  split <;> (split <;> simp_all)

theorem findHeadEnd_short (cs : Bytes) (e : Nat) (h : findHeadEnd cs = some e) : cs = [10, 10] ∨ 3 ≤ cs.length := by
  match cs, h with
  | [], h => simp [findHeadEnd] at h
  | [a], h =>
    rw [findHeadEnd_cons] at h
    simp [headHere, findHeadEnd] at h
  | [a, b], h =>
    rw [findHeadEnd_cons] at h
    by_cases ha : a = 10 <;> by_cases hb : b = 10
    · left; simp [ha, hb]
    all_goals
      exfalso
      have hn : headHere [a, b] = none := by unfold headHere; split <;> simp_all
      rw [hn] at h
      rw [findHeadEnd_cons] at h
      have hn2 : headHere [b] = none := by unfold headHere; split <;> simp_all
      rw [hn2] at h
      simp [findHeadEnd] at h
  | _ :: _ :: _ :: _, _ => right; simp

theorem findHeadEnd_app (x b : Bytes) (e : Nat) (h : findHeadEnd x = some e) : findHeadEnd (x ++ b) = some e := by
  induction x generalizing e with
  | nil => simp [findHeadEnd] at h
  | cons c cs ih =>
    rw [findHeadEnd_cons] at h
    rw [List.cons_append, findHeadEnd_cons]
    cases hh : headHere (c :: cs) with
    | some n =>
      rw [hh] at h
      have := headHere_app (c :: cs) b n hh
      rw [List.cons_append] at this
      rw [this]; exact h
    | none =>
      rw [hh] at h
      cases hf : findHeadEnd cs with
      | none => simp [hf] at h
      | some e' =>
        have hn : headHere (c :: (cs ++ b)) = none := by
          rcases findHeadEnd_short cs e' hf with h2 | h3
          · subst h2
            have hc : c ≠ 13 ∧ c ≠ 10 := by
              constructor <;> (intro hc; subst hc; simp [headHere] at hh)
            unfold headHere
            split <;> simp_all
          · match cs, h3 with
            | a1 :: a2 :: a3 :: r, _ =>
              have := headHere_long c a1 a2 a3 (r ++ b) r
              simp only [List.cons_append]
              rw [this]; exact hh
        rw [hn, ih e' hf]
        rw [hf] at h; exact h

/-! ### `findCrlf` is prefix stable -/

theorem findCrlf_cons2 (a b : Nat) (r : Bytes) :
    findCrlf (a :: b :: r) = if a = 13 && b = 10 then some 0 else (findCrlf (b :: r)).map (· + 1) := by
  rw [findCrlf]

theorem findCrlf_app (x b : Bytes) (loc : Nat) (h : findCrlf x = some loc) : findCrlf (x ++ b) = some loc := by
  induction x generalizing loc with
  | nil => simp [findCrlf] at h
  | cons a r ih =>
    cases r with
    | nil => simp [findCrlf] at h
    | cons b' r' =>
      rw [findCrlf_cons2] at h
      simp only [List.cons_append]
      rw [findCrlf_cons2]
      split
      · rename_i hc; simpa [hc] using h
      · rename_i hc
        simp only [hc] at h
        cases hf : findCrlf (b' :: r') with
        | none => simp [hf] at h
        | some l' =>
          have := ih l' hf
          simp only [List.cons_append] at this
          rw [this]; rw [hf] at h; exact h

theorem findCrlf_new (x b : Bytes) (loc : Nat) (h0 : findCrlf x = none) (h : findCrlf (x ++ b) = some loc) :
    x.length ≤ loc + 1 := by
  induction x generalizing loc with
  | nil => simp
  | cons a r ih =>
    cases r with
    | nil => simp
    | cons b' r' =>
      rw [findCrlf_cons2] at h0
      simp only [List.cons_append] at h
      rw [findCrlf_cons2] at h
      split at h0
      · cases h0
      · rename_i hc
        simp only [hc] at h
        cases hf : findCrlf (b' :: r') with
        | some l' => simp [hf] at h0
        | none =>
          cases hg : findCrlf (b' :: (r' ++ b)) with
          | none => simp [hg] at h
          | some l' =>
            have := ih l' hf (by simpa using hg)
            simp [hg] at h
            subst h
            simp at this ⊢; omega

/-! ### unfolding `drainFull` -/

theorem drainFull_none {cfg : Cfg} {p : Phase} {b : Bytes} (h : step cfg p b = none) : drainFull cfg p b = (p, b) := by
  simp [drainFull, drain, h]

theorem drainFull_some {cfg : Cfg} {p p' : Phase} {b b' : Bytes} (h : step cfg p b = some (p', b')) :
    drainFull cfg p b = drainFull cfg p' b' := by
  have hl := step_shortens cfg p p' b b' h
  simp only [drainFull, drain, h]
  exact drain_fuel cfg _ p' b' (by omega)

theorem drainFull_done (cfg : Cfg) (o : Outcome) (b : Bytes) : drainFull cfg (.done o) b = (.done o, b) :=
  drainFull_none rfl

/-! ### single reads -/

theorem step_fixed_ge (cfg : Cfg) (m : Msg) (rem : Nat) (acc x : Bytes) (hx : x ≠ []) (hr : rem ≠ 0)
    (hk : rem ≤ x.length) :
    step cfg (.fixed m rem acc) x = some (.done (.msg m (acc ++ x.take rem)), x.drop rem) := by
  have : min rem x.length = rem := by omega
  cases x with
  | nil => exact absurd rfl hx
  | cons a r =>
    simp only [List.length_cons] at this
    simp [step, hr, this]

theorem step_fixed_lt (cfg : Cfg) (m : Msg) (rem : Nat) (acc x : Bytes) (hx : x ≠ []) (hk : x.length < rem) :
    step cfg (.fixed m rem acc) x = some (.fixed m (rem - x.length) (acc ++ x), []) := by
  have h1 : min rem x.length = x.length := by omega
  have h2 : x.length ≠ rem := by omega
  have h3 : rem ≠ 0 := by omega
  cases x with
  | nil => exact absurd rfl hx
  | cons a r =>
    simp only [List.length_cons] at h1 h2
    simp [step, h3, h1, h2]

theorem step_chunkData_ge (cfg : Cfg) (m : Msg) (total rem : Nat) (acc x : Bytes) (hx : x ≠ []) (hr : rem ≠ 0)
    (hk : rem ≤ x.length) :
    step cfg (.chunkData m total rem acc) x = some (.chunkCrlf m total (acc ++ x.take rem), x.drop rem) := by
  have : min rem x.length = rem := by omega
  cases x with
  | nil => exact absurd rfl hx
  | cons a r =>
    simp only [List.length_cons] at this
    simp [step, hr, this]

theorem step_chunkData_lt (cfg : Cfg) (m : Msg) (total rem : Nat) (acc x : Bytes) (hx : x ≠ [])
    (hk : x.length < rem) :
    step cfg (.chunkData m total rem acc) x = some (.chunkData m total (rem - x.length) (acc ++ x), []) := by
  have h1 : min rem x.length = x.length := by omega
  have h2 : x.length ≠ rem := by omega
  have h3 : rem ≠ 0 := by omega
  cases x with
  | nil => exact absurd rfl hx
  | cons a r =>
    simp only [List.length_cons] at h1 h2
    simp [step, h3, h1, h2]

theorem step_untilClose (cfg : Cfg) (m : Msg) (acc x : Bytes) (hx : x ≠ []) :
    step cfg (.untilClose m acc) x = some (.untilClose m (acc ++ x), []) := by
  cases x with
  | nil => exact absurd rfl hx
  | cons a r => simp [step]

theorem take_split (x b : Bytes) (n : Nat) (h : x.length ≤ n) : (x ++ b).take n = x ++ b.take (n - x.length) := by
  rw [List.take_append, List.take_of_length_le h]

theorem drop_split (x b : Bytes) (n : Nat) (h : x.length ≤ n) : (x ++ b).drop n = b.drop (n - x.length) := by
  rw [List.drop_append, List.drop_of_length_le h, List.nil_append]

/-! ### one read on a prefix, then the rest = draining the whole -/

theorem step_append (cfg : Cfg) (p p1 : Phase) (x x1 b : Bytes) (h : step cfg p x = some (p1, x1)) :
    (drainFull cfg p (x ++ b)).1 = (drainFull cfg p1 (x1 ++ b)).1 := by
  cases p with
  | head gz =>
    simp only [step] at h
    split at h
    · cases h
    · rename_i e he
      cases h
      have hb := findHeadEnd_pos_le x e he
      have hs : step cfg (.head gz) (x ++ b) = some (onHead cfg gz (x.take e), x.drop e ++ b) := by
        simp only [step, findHeadEnd_app x b e he, List.take_append_of_le_length hb.2,
          List.drop_append_of_le_length hb.2]
      rw [drainFull_some hs]
  | fixed m rem acc =>
    have hx : x ≠ [] ∧ rem ≠ 0 := by
      simp only [step] at h
      split at h
      · cases h
      · rename_i hne; cases x <;> simp_all
    by_cases hk : rem ≤ x.length
    · rw [step_fixed_ge cfg m rem acc x hx.1 hx.2 hk] at h
      cases h
      have hs := step_fixed_ge cfg m rem acc (x ++ b) (by simp [hx.1]) hx.2 (by simp; omega)
      rw [List.take_append_of_le_length hk, List.drop_append_of_le_length hk] at hs
      rw [drainFull_some hs]
    · have hk' : x.length < rem := by omega
      rw [step_fixed_lt cfg m rem acc x hx.1 hk'] at h
      cases h
      by_cases hb : b = []
      · subst hb
        simp only [List.append_nil]
        exact congrArg Prod.fst (drainFull_some (step_fixed_lt cfg m rem acc x hx.1 hk'))
      · simp only [List.nil_append]
        by_cases hk2 : rem ≤ (x ++ b).length
        · have hs := step_fixed_ge cfg m rem acc (x ++ b) (by simp [hx.1]) hx.2 hk2
          have hs' := step_fixed_ge cfg m (rem - x.length) (acc ++ x) b hb (by omega)
            (by simp at hk2; omega)
          rw [drainFull_some hs, drainFull_some hs', drainFull_done, drainFull_done,
            take_split x b rem (by omega), List.append_assoc]
        · have hk3 : (x ++ b).length < rem := by omega
          have hs := step_fixed_lt cfg m rem acc (x ++ b) (by simp [hx.1]) hk3
          have hs' := step_fixed_lt cfg m (rem - x.length) (acc ++ x) b hb (by simp at hk3; omega)
          have e1 : rem - (x ++ b).length = rem - x.length - b.length := by simp; omega
          rw [drainFull_some hs, drainFull_some hs', e1, List.append_assoc]
  | chunkSize m total acc =>
    simp only [step] at h
    cases hf : findCrlf x with
    | some loc =>
      have hle := findCrlf_le x loc hf
      have hf' := findCrlf_app x b loc hf
      have ht : (x ++ b).take loc = x.take loc := List.take_append_of_le_length (by omega)
      have hd : (x ++ b).drop (loc + 2) = x.drop (loc + 2) ++ b := List.drop_append_of_le_length hle
      simp only [hf] at h
      split at h
      · rename_i hq
        cases h
        have hs : step cfg (.chunkSize m total acc) (x ++ b) = some (.done (.fail .quiet), []) := by
          simp only [step, hf', if_pos hq]
        rw [drainFull_some hs, drainFull_done, drainFull_done]
      · rename_i hq
        have hs : step cfg (.chunkSize m total acc) (x ++ b) = some (p1, x1 ++ b) := by
          simp only [step, hf', if_neg hq, ht, hd]
          cases hp : parseHex (x.take loc) with
          | none => simp only [hp] at h ⊢; cases h; rfl
          | some n =>
            cases n with
            | zero => simp only [hp] at h ⊢; cases h; rfl
            | succ n' =>
              simp only [hp] at h ⊢
              split at h
              · rename_i hc; cases h; simp only [if_pos hc]
              · rename_i hc; cases h; simp only [if_neg hc]
        rw [drainFull_some hs]
    | none =>
      simp only [hf] at h
      split at h
      · rename_i hl
        cases h
        have hs : step cfg (.chunkSize m total acc) (x ++ b) = some (.done (.fail .quiet), []) := by
          simp only [step]
          cases hg : findCrlf (x ++ b) with
          | some loc =>
            have := findCrlf_new x b loc hf hg
            have hq : loc + 2 > 64 := by omega
            simp only [if_pos hq]
          | none =>
            have hq : (x ++ b).length > 64 := by simp; omega
            simp only [if_pos hq]
        rw [drainFull_some hs, drainFull_done, drainFull_done]
      · cases h
  | chunkData m total rem acc =>
    have hx : x ≠ [] ∧ rem ≠ 0 := by
      simp only [step] at h
      split at h
      · cases h
      · rename_i hne; cases x <;> simp_all
    by_cases hk : rem ≤ x.length
    · rw [step_chunkData_ge cfg m total rem acc x hx.1 hx.2 hk] at h
      cases h
      have hs := step_chunkData_ge cfg m total rem acc (x ++ b) (by simp [hx.1]) hx.2 (by simp; omega)
      rw [List.take_append_of_le_length hk, List.drop_append_of_le_length hk] at hs
      rw [drainFull_some hs]
    · have hk' : x.length < rem := by omega
      rw [step_chunkData_lt cfg m total rem acc x hx.1 hk'] at h
      cases h
      by_cases hb : b = []
      · subst hb
        simp only [List.append_nil]
        exact congrArg Prod.fst (drainFull_some (step_chunkData_lt cfg m total rem acc x hx.1 hk'))
      · simp only [List.nil_append]
        by_cases hk2 : rem ≤ (x ++ b).length
        · have hs := step_chunkData_ge cfg m total rem acc (x ++ b) (by simp [hx.1]) hx.2 hk2
          have hs' := step_chunkData_ge cfg m total (rem - x.length) (acc ++ x) b hb (by omega)
            (by simp at hk2; omega)
          rw [drainFull_some hs, drainFull_some hs', take_split x b rem (by omega),
            drop_split x b rem (by omega), List.append_assoc]
        · have hk3 : (x ++ b).length < rem := by omega
          have hs := step_chunkData_lt cfg m total rem acc (x ++ b) (by simp [hx.1]) hk3
          have hs' := step_chunkData_lt cfg m total (rem - x.length) (acc ++ x) b hb (by simp at hk3; omega)
          have e1 : rem - (x ++ b).length = rem - x.length - b.length := by simp; omega
          rw [drainFull_some hs, drainFull_some hs', e1, List.append_assoc]
  | chunkCrlf m total acc =>
    simp only [step] at h
    split at h
    · rename_i a c r
      have hs : step cfg (.chunkCrlf m total acc) (a :: c :: r ++ b) = some (p1, x1 ++ b) := by
        simp only [List.cons_append, step]
        split at h
        · rename_i hc; cases h; simp only [if_pos hc]
        · rename_i hc; cases h; simp only [if_neg hc]
      rw [drainFull_some hs]
    · cases h
  | lastCrlf m acc =>
    simp only [step] at h
    split at h
    · rename_i a c r
      have hs : step cfg (.lastCrlf m acc) (a :: c :: r ++ b) = some (p1, x1 ++ b) := by
        simp only [List.cons_append, step]
        split at h
        · rename_i hc; cases h; simp only [if_pos hc]
        · rename_i hc; cases h; simp only [if_neg hc]
      rw [drainFull_some hs]
    · cases h
  | untilClose m acc =>
    have hx : x ≠ [] := by
      simp only [step] at h
      split at h
      · cases h
      · rename_i hne; cases x <;> simp_all
    rw [step_untilClose cfg m acc x hx] at h
    cases h
    have hs := step_untilClose cfg m acc (x ++ b) (by simp [hx])
    rw [drainFull_some hs, drainFull_none (by simp [step] : step cfg (.untilClose m (acc ++ (x ++ b))) [] = none)]
    simp only [List.nil_append]
    by_cases hb : b = []
    · subst hb
      rw [drainFull_none (by simp [step] : step cfg (.untilClose m (acc ++ x)) [] = none)]
      simp
    · rw [drainFull_some (step_untilClose cfg m (acc ++ x) b hb),
        drainFull_none (by simp [step] : step cfg (.untilClose m (acc ++ x ++ b)) [] = none)]
      simp
  | done o => simp [step] at h

theorem drainFull_append (cfg : Cfg) (b : Bytes) : ∀ (n : Nat) (p : Phase) (x : Bytes), x.length ≤ n →
    (drainFull cfg (drainFull cfg p x).1 ((drainFull cfg p x).2 ++ b)).1 = (drainFull cfg p (x ++ b)).1 := by
  intro n
  induction n with
  | zero =>
    intro p x hn
    cases hs : step cfg p x with
    | none => rw [drainFull_none hs]
    | some pb =>
      obtain ⟨p1, x1⟩ := pb
      have := step_shortens cfg p p1 x x1 hs
      omega
  | succ n ih =>
    intro p x hn
    cases hs : step cfg p x with
    | none => rw [drainFull_none hs]
    | some pb =>
      obtain ⟨p1, x1⟩ := pb
      have := step_shortens cfg p p1 x x1 hs
      rw [drainFull_some hs, step_append cfg p p1 x x1 b hs]
      exact ih p1 x1 (by omega)

theorem feed_append' (cfg : Cfg) (s : Phase × Bytes) (a b : Bytes) :
    (feed cfg (feed cfg s a) b).1 = (feed cfg s (a ++ b)).1 := by
  unfold feed
  rw [← List.append_assoc]
  exact drainFull_append cfg b _ s.1 (s.2 ++ a) (Nat.le_refl _)

theorem foldl_feed (cfg : Cfg) (segs : List Bytes) : ∀ (s : Phase × Bytes) (a : Bytes),
    (segs.foldl (feed cfg) (feed cfg s a)).1 = (feed cfg s (a ++ segs.flatten)).1 := by
  induction segs with
  | nil => intro s a; simp
  | cons g gs ih =>
    intro s a
    rw [List.foldl_cons, ih (feed cfg s a) g, feed_append', List.flatten_cons]

theorem runPhase_flatten (cfg : Cfg) (segs : List Bytes) : runPhase cfg segs = runPhase cfg [segs.flatten] := by
  have h0 : initial = feed cfg initial [] := by
    simp [feed, initial, drainFull, drain, step, findHeadEnd]
  have h1 : runPhase cfg segs = (feed cfg initial segs.flatten).1 := by
    unfold runPhase
    rw [h0, foldl_feed cfg segs initial [], List.nil_append, ← h0]
  have h2 : runPhase cfg [segs.flatten] = (feed cfg initial segs.flatten).1 := by
    simp [runPhase]
  rw [h1, h2]

end TornadoModel.C08
