/- C08 — lemmas about the streamed deliveries (`Stream.lean`): the recording machine is the machine of `Model.lean`,
   and the deliveries to `streaming_callback` stay within `max_body_size` at every point of every fetch. -/
import TornadoModel.C08.Lemmas
import TornadoModel.C08.Stream
namespace TornadoModel.C08

/-! ### the gzip delegate's loop -/

/-- one network chunk: what is handed over keeps the running total within the limit, and without an exception the
    new `_decompressed_body_size` is exactly the old one plus what was handed over -/
theorem gzChunk_le (limit : Nat) : ∀ (calls : List ZCall) (total : Nat), total ≤ limit →
    total + (gzChunk limit total calls).1.sum ≤ limit ∧
    ((gzChunk limit total calls).2.2 = false → (gzChunk limit total calls).2.1 = total + (gzChunk limit total calls).1.sum) := by
  intro calls
  induction calls with
  | nil => intro total h; simp [gzChunk, h]
  | cons c rest ih =>
    intro total h
    cases c with
    | error => simp [gzChunk, h]
    | out n more =>
      simp only [gzChunk]
      split
      · simp [h]
      · split
        · simp [h]
        · rename_i hn hle
          split
          · have := ih (total + n) (by omega)
            simp only [List.sum_cons]
            constructor
            · omega
            · intro hf; have := this.2 hf; omega
          · simp; omega

def lens (ps : List Piece) : Nat := (ps.map (fun x => x.2.length)).sum
def flags (g : Bool) (ps : List Piece) : Prop := ∀ x ∈ ps, x.1 = g

theorem lens_append (a b : List Piece) : lens (a ++ b) = lens a + lens b := by simp [lens]

/-- every chunk goes through a decompressor: the deliveries never exceed the limit, whatever zlib returns -/
theorem deliver_gz_le (limit : Nat) : ∀ (ps : List Piece) (tbl : List (List ZCall)) (total : Nat), flags true ps →
    total ≤ limit → total + (deliver limit total ps tbl).sum ≤ limit := by
  intro ps
  induction ps with
  | nil => intro tbl total _ h; simp [deliver, h]
  | cons x ps ih =>
    intro tbl total hf h
    obtain ⟨g, p⟩ := x
    have hg : g = true := hf (g, p) (by simp)
    subst hg
    have hf' : flags true ps := fun y hy => hf y (by simp [hy])
    simp only [deliver]
    split
    · exact ih tbl total hf' h
    · cases tbl with
      | nil => simp [h]
      | cons calls tbl' =>
        simp only
        have hc := gzChunk_le limit calls total h
        split
        · exact hc.1
        · rename_i hfail
          have hfail' : (gzChunk limit total calls).2.2 = false := by simpa using hfail
          have e := hc.2 hfail'
          have := ih tbl' (gzChunk limit total calls).2.1 hf' (by omega)
          simp only [List.sum_append]
          omega

/-- no decompressor: every chunk is handed on as it is -/
theorem deliver_plain (limit : Nat) : ∀ (ps : List Piece) (tbl : List (List ZCall)) (total : Nat), flags false ps →
    (deliver limit total ps tbl).sum = lens ps := by
  intro ps
  induction ps with
  | nil => intro tbl total _; simp [deliver, lens]
  | cons x ps ih =>
    intro tbl total hf
    obtain ⟨g, p⟩ := x
    have hg : g = false := hf (g, p) (by simp)
    subst hg
    have hf' : flags false ps := fun y hy => hf y (by simp [hy])
    have := ih tbl total hf'
    simp only [deliver, List.sum_cons, this]
    simp [lens]

/-! ### the recording machine -/

/-- the recording machine is the machine: same phase, same buffer -/
theorem drainP_fst (cfg : Cfg) : ∀ (f : Nat) (p : Phase) (b : Bytes) (ps : List Piece),
    ((drainP cfg f p b ps).1, (drainP cfg f p b ps).2.1) = drain cfg f p b := by
  intro f
  induction f with
  | zero => intro p b ps; rfl
  | succ f ih =>
    intro p b ps
    simp only [drainP, drain]
    cases hs : step cfg p b with
    | none => rfl
    | some pb => obtain ⟨p', b'⟩ := pb; exact ih p' b' _

theorem feedP_fst (cfg : Cfg) (s : Phase × Bytes × List Piece) (seg : Bytes) :
    ((feedP cfg s seg).1, (feedP cfg s seg).2.1) = feed cfg (s.1, s.2.1) seg := by
  simp only [feedP, feed, drainFull]
  exact drainP_fst cfg _ _ _ _

theorem foldlP_fst (cfg : Cfg) (segs : List Bytes) : ∀ s : Phase × Bytes × List Piece,
    ((segs.foldl (feedP cfg) s).1, (segs.foldl (feedP cfg) s).2.1) = segs.foldl (feed cfg) (s.1, s.2.1) := by
  induction segs with
  | nil => intro s; rfl
  | cons g gs ih =>
    intro s
    simp only [List.foldl_cons]
    rw [ih (feedP cfg s g), feedP_fst]

/-- what has been handed to `data_received` so far is exactly the body accumulated by the machine, all of it under
    the gzip flag of the message being read -/
def PInv (cfg : Cfg) : Phase → List Piece → Prop
  | .head _, ps => ps = []
  | .fixed m _ acc, ps => flags m.gz ps ∧ lens ps = acc.length
  | .chunkSize m _ acc, ps => flags m.gz ps ∧ lens ps = acc.length
  | .chunkData m _ _ acc, ps => flags m.gz ps ∧ lens ps = acc.length
  | .chunkCrlf m _ acc, ps => flags m.gz ps ∧ lens ps = acc.length
  | .lastCrlf m acc, ps => flags m.gz ps ∧ lens ps = acc.length
  | .untilClose _ _, ps => ps = []
  | .done _, ps => (∃ g, flags g ps) ∧ lens ps ≤ cfg.maxBody

theorem flags_nil (g : Bool) : flags g [] := by intro x hx; cases hx

theorem flags_snoc (g : Bool) (ps : List Piece) (p : Bytes) (h : flags g ps) : flags g (ps ++ [(g, p)]) := by
  intro x hx
  simp only [List.mem_append, List.mem_singleton] at hx
  cases hx with
  | inl h1 => exact h x h1
  | inr h1 => subst h1; rfl

theorem lens_snoc (ps : List Piece) (g : Bool) (p : Bytes) : lens (ps ++ [(g, p)]) = lens ps + p.length := by
  simp [lens]

theorem pinv_onHead (cfg : Cfg) (gz : Bool) (data : Bytes) : PInv cfg (onHead cfg gz data) [] := by
  unfold onHead
  repeat' split
  all_goals first
    | (simp [PInv]; done)
    | exact ⟨⟨true, flags_nil _⟩, by simp [lens]⟩
    | exact ⟨flags_nil _, by simp [lens]⟩

theorem pinv_step (cfg : Cfg) (p p' : Phase) (b b' : Bytes) (ps : List Piece) (hi : Inv cfg p) (hp : PInv cfg p ps)
    (h : step cfg p b = some (p', b')) : PInv cfg p' (addPiece ps (stepPiece p b)) := by
  have hi' := inv_step cfg p p' b b' hi h
  cases p with
  | head gz =>
    simp only [PInv] at hp
    subst hp
    simp only [step] at h
    split at h
    · cases h
    · cases h; simpa [stepPiece, addPiece] using pinv_onHead _ _ _
  | fixed m rem acc =>
    simp only [step] at h
    split at h
    · cases h
    · rename_i hne
      simp only [PInv] at hp
      have hsp : addPiece ps (stepPiece (.fixed m rem acc) b) = ps ++ [(m.gz, b.take (min rem b.length))] := by
        simp [stepPiece, addPiece, hne]
      rw [hsp]
      split at h
      · cases h
        simp only [Inv] at hi'
        refine ⟨⟨m.gz, flags_snoc _ _ _ hp.1⟩, ?_⟩
        rw [lens_snoc, hp.2]
        simpa using hi'
      · cases h
        refine ⟨flags_snoc _ _ _ hp.1, ?_⟩
        rw [lens_snoc, hp.2]
        simp
  | chunkSize m total acc =>
    simp only [Inv] at hi
    simp only [PInv] at hp
    have hd : PInv cfg (.done (.fail .closed)) ps ∧ PInv cfg (.done (.fail .quiet)) ps :=
      ⟨⟨⟨m.gz, hp.1⟩, by rw [hp.2]; omega⟩, ⟨⟨m.gz, hp.1⟩, by rw [hp.2]; omega⟩⟩
    simp only [step] at h
    simp only [stepPiece, addPiece]
    split at h
    · split at h
      · cases h; exact hd.2
      · split at h
        · cases h; exact hd.1
        · cases h; exact hp
        · split at h
          · cases h; exact hd.1
          · cases h; exact hp
    · split at h
      · cases h; exact hd.2
      · cases h
  | chunkData m total rem acc =>
    simp only [step] at h
    split at h
    · cases h
    · rename_i hne
      simp only [PInv] at hp
      have hsp : addPiece ps (stepPiece (.chunkData m total rem acc) b) = ps ++ [(m.gz, b.take (min rem b.length))] := by
        simp [stepPiece, addPiece, hne]
      rw [hsp]
      split at h
      · cases h
        refine ⟨flags_snoc _ _ _ hp.1, ?_⟩
        rw [lens_snoc, hp.2]
        simp
      · cases h
        refine ⟨flags_snoc _ _ _ hp.1, ?_⟩
        rw [lens_snoc, hp.2]
        simp
  | chunkCrlf m total acc =>
    simp only [Inv] at hi
    simp only [PInv] at hp
    simp only [step] at h
    simp only [stepPiece, addPiece]
    split at h
    · split at h
      · cases h; exact hp
      · cases h; exact ⟨⟨m.gz, hp.1⟩, by rw [hp.2]; omega⟩
    · cases h
  | lastCrlf m acc =>
    simp only [Inv] at hi
    simp only [PInv] at hp
    simp only [step] at h
    simp only [stepPiece, addPiece]
    split at h
    · split at h
      · cases h; exact ⟨⟨m.gz, hp.1⟩, by rw [hp.2]; exact hi⟩
      · cases h; exact ⟨⟨m.gz, hp.1⟩, by rw [hp.2]; exact hi⟩
    · cases h
  | untilClose m acc =>
    simp only [PInv] at hp
    subst hp
    simp only [step] at h
    split at h
    · cases h
    · cases h; simp [stepPiece, addPiece, PInv]
  | done o => simp [step] at h

theorem pinv_drainP (cfg : Cfg) : ∀ (f : Nat) (p : Phase) (b : Bytes) (ps : List Piece), Inv cfg p → PInv cfg p ps →
    Inv cfg (drainP cfg f p b ps).1 ∧ PInv cfg (drainP cfg f p b ps).1 (drainP cfg f p b ps).2.2 := by
  intro f
  induction f with
  | zero => intro p b ps hi hp; exact ⟨hi, hp⟩
  | succ f ih =>
    intro p b ps hi hp
    simp only [drainP]
    cases hs : step cfg p b with
    | none => exact ⟨hi, hp⟩
    | some pb =>
      obtain ⟨p', b'⟩ := pb
      exact ih p' b' _ (inv_step cfg p p' b b' hi hs) (pinv_step cfg p p' b b' ps hi hp hs)

theorem pinv_foldl (cfg : Cfg) (segs : List Bytes) : ∀ s : Phase × Bytes × List Piece, Inv cfg s.1 → PInv cfg s.1 s.2.2 →
    Inv cfg (segs.foldl (feedP cfg) s).1 ∧ PInv cfg (segs.foldl (feedP cfg) s).1 (segs.foldl (feedP cfg) s).2.2 := by
  induction segs with
  | nil => intro s hi hp; exact ⟨hi, hp⟩
  | cons g gs ih =>
    intro s hi hp
    simp only [List.foldl_cons]
    have := pinv_drainP cfg ((s.2.1 ++ g).length + 1) s.1 (s.2.1 ++ g) s.2.2 hi hp
    exact ih (feedP cfg s g) this.1 this.2

/-- all `data_received` calls of one fetch carry the same gzip flag and, together, at most `max_body_size` bytes -/
theorem pieces_ok (cfg : Cfg) (segs : List Bytes) (eof : Bool) :
    (∃ g, flags g (pieces cfg segs eof)) ∧ lens (pieces cfg segs eof) ≤ cfg.maxBody := by
  have h := pinv_foldl cfg segs initialP (by simp [initialP, Inv]) (by simp [initialP, PInv])
  unfold pieces
  generalize segs.foldl (feedP cfg) initialP = s at h
  obtain ⟨p, b, ps⟩ := s
  obtain ⟨hi, hp⟩ := h
  simp only at hi hp ⊢
  cases p with
  | head g => simp only [PInv] at hp; subst hp; exact ⟨⟨true, flags_nil _⟩, by simp [endPiece, addPiece, lens]⟩
  | fixed m rem acc =>
    simp only [PInv] at hp; simp only [Inv] at hi
    exact ⟨⟨m.gz, by simpa [endPiece, addPiece] using hp.1⟩, by simp only [endPiece, addPiece]; rw [hp.2]; omega⟩
  | chunkSize m total acc =>
    simp only [PInv] at hp; simp only [Inv] at hi
    exact ⟨⟨m.gz, by simpa [endPiece, addPiece] using hp.1⟩, by simp only [endPiece, addPiece]; rw [hp.2]; omega⟩
  | chunkData m total rem acc =>
    simp only [PInv] at hp; simp only [Inv] at hi
    exact ⟨⟨m.gz, by simpa [endPiece, addPiece] using hp.1⟩, by simp only [endPiece, addPiece]; rw [hp.2]; omega⟩
  | chunkCrlf m total acc =>
    simp only [PInv] at hp; simp only [Inv] at hi
    exact ⟨⟨m.gz, by simpa [endPiece, addPiece] using hp.1⟩, by simp only [endPiece, addPiece]; rw [hp.2]; omega⟩
  | lastCrlf m acc =>
    simp only [PInv] at hp; simp only [Inv] at hi
    exact ⟨⟨m.gz, by simpa [endPiece, addPiece] using hp.1⟩, by simp only [endPiece, addPiece]; rw [hp.2]; omega⟩
  | untilClose m acc =>
    simp only [PInv] at hp; subst hp
    simp only [endPiece]
    split
    · exact ⟨⟨true, flags_nil _⟩, by simp [addPiece, lens]⟩
    · refine ⟨⟨m.gz, by simpa [addPiece] using flags_snoc m.gz [] acc (flags_nil _)⟩, ?_⟩
      simp [addPiece, lens]; omega
  | done o =>
    simp only [PInv] at hp
    simpa [endPiece, addPiece] using hp

end TornadoModel.C08
