/-
C08 — what reaches `streaming_callback` (core Lean only).

The connection machine of `Model.lean` keeps the body in `acc`; here the same machine is run once more, this time
recording every `delegate.data_received(chunk)` call it makes (`stepPiece`: the bytes of one partial
`read_bytes` of a fixed / chunked body; `endPiece`: the single call of `_read_body_until_close`).  Each call goes
through `_GzipMessageDelegate.data_received` (`gzChunk`: the `while compressed_data:` loop with the running
`_decompressed_body_size` test *before* every hand-over) and then to `_HTTPConnection.data_received`, i.e. to
`streaming_callback`.  zlib stays opaque: for every network chunk the harness supplies what the successive
`decompressor.decompress(data, chunk_size)` calls of the loop return (`ZCall`).

`streamed` = the lengths of the successive `streaming_callback` deliveries of one fetch — also of a fetch that
fails later on.
-/
import TornadoModel.C08.Model
namespace TornadoModel.C08

/-- one `self._decompressor.decompress(compressed_data, self._chunk_size)` call of the loop: it returned `n` bytes and
    left `unconsumed_tail` non-empty (`more`), or it raised `zlib.error` -/
inductive ZCall where
  | out (n : Nat) (more : Bool)
  | error
  deriving Repr, BEq, DecidableEq

/-- `_GzipMessageDelegate.data_received` on one network chunk, `total` = `_decompressed_body_size` before it:
    → (lengths handed to the wrapped delegate, new total, an exception was raised) -/
def gzChunk (limit : Nat) : Nat → List ZCall → List Nat × Nat × Bool
  | total, [] => ([], total, false)
  | total, .error :: _ => ([], total, true)
  | total, .out n more :: rest =>
    if n = 0 then ([], total, more)           -- no output: "unconsumed gzip data without making progress" iff a tail is left
    else if total + n > limit then ([], total + n, true)     -- "decompressed body too large", raised BEFORE the hand-over
    else if more then
      let r := gzChunk limit (total + n) rest
      (n :: r.1, r.2.1, r.2.2)
    else ([n], total + n, false)

/-- a `data_received` call of the connection: the message's gzip flag and the (still encoded) bytes -/
abbrev Piece := Bool × Bytes

/-- the successive deliveries to `streaming_callback` for the `data_received` calls `ps`; `tbl` = the zlib oracle,
    one entry per non-empty call that reaches a decompressor.  Nothing is delivered after an exception. -/
def deliver (limit : Nat) : Nat → List Piece → List (List ZCall) → List Nat
  | _, [], _ => []
  | total, (false, p) :: ps, tbl => p.length :: deliver limit total ps tbl
  | total, (true, p) :: ps, tbl =>
    if p.isEmpty then deliver limit total ps tbl      -- `while compressed_data:` does not run
    else match tbl with
      | [] => []                                      -- oracle exhausted (never expected)
      | calls :: tbl' =>
        let r := gzChunk limit total calls
        if r.2.2 then r.1 else r.1 ++ deliver limit r.2.1 ps tbl'

/-- the `data_received` call made by one step of the machine, if any -/
def stepPiece : Phase → Bytes → Option Piece
  | .fixed m rem _, b => if b.isEmpty || rem = 0 then none else some (m.gz, b.take (min rem b.length))
  | .chunkData m _ rem _, b => if b.isEmpty || rem = 0 then none else some (m.gz, b.take (min rem b.length))
  | _, _ => none

def addPiece (ps : List Piece) : Option Piece → List Piece
  | none => ps
  | some x => ps ++ [x]

/-- `drain`, recording the calls -/
def drainP (cfg : Cfg) : Nat → Phase → Bytes → List Piece → Phase × Bytes × List Piece
  | 0, p, b, ps => (p, b, ps)
  | f + 1, p, b, ps =>
    match step cfg p b with
    | none => (p, b, ps)
    | some (p', b') => drainP cfg f p' b' (addPiece ps (stepPiece p b))

def feedP (cfg : Cfg) (s : Phase × Bytes × List Piece) (seg : Bytes) : Phase × Bytes × List Piece :=
  drainP cfg ((s.2.1 ++ seg).length + 1) s.1 (s.2.1 ++ seg) s.2.2

def initialP : Phase × Bytes × List Piece := (.head false, [], [])

/-- `_read_body_until_close` hands the whole body over in one call, after the limit test, once the stream is closed:
    by the server, or else by the client itself when the request timeout fires (the fetch has failed by then, yet the
    pending `read_until_close` resolves with what was buffered and `data_received` is still called) -/
def endPiece (cfg : Cfg) : Phase → Option Piece
  | .untilClose m acc => if acc.length > cfg.maxBody then none else some (m.gz, acc)
  | _ => none

/-- every `data_received` call of one fetch, in order -/
def pieces (cfg : Cfg) (segs : List Bytes) (_eof : Bool) : List Piece :=
  let s := segs.foldl (feedP cfg) initialP
  addPiece s.2.2 (endPiece cfg s.1)

/-- the lengths of the successive `streaming_callback` deliveries of one fetch -/
def streamed (cfg : Cfg) (segs : List Bytes) (eof : Bool) (tbl : List (List ZCall)) : List Nat :=
  deliver cfg.maxBody 0 (pieces cfg segs eof) tbl

end TornadoModel.C08
