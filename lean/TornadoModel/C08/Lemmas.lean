/- C08 helper lemmas: progress of `step`, fuel irrelevance of `drain`, the body-size invariant. -/
import TornadoModel.C08.Spec
namespace TornadoModel.C08
open TornadoModel.C06

/-! ### every step shortens the buffer; fuel beyond `length + 1` is irrelevant -/

theorem findHeadEnd_pos_le (b : Bytes) (e : Nat) (h : findHeadEnd b = some e) : 0 < e ∧ e ≤ b.length := by
  induction b generalizing e with
  | nil => simp [findHeadEnd] at h
  | cons c cs ih =>
    unfold findHeadEnd at h
    split at h
    · rename_i heq; cases h; cases heq; simp
    · rename_i heq; cases h; cases heq; simp
    · rename_i heq; cases h; cases heq; simp
    · rename_i heq; cases h; cases heq; simp
    · cases hf : findHeadEnd cs with
      | none => simp [hf] at h
      | some e' =>
        simp [hf] at h
        have := ih e' hf
        subst h
        simp; omega

theorem findCrlf_le (b : Bytes) (loc : Nat) (h : findCrlf b = some loc) : loc + 2 ≤ b.length := by
  induction b generalizing loc with
  | nil => simp [findCrlf] at h
  | cons a r ih =>
    cases r with
    | nil => simp [findCrlf] at h
    | cons b' r' =>
      unfold findCrlf at h
      split at h
      · cases h; simp
      · cases hf : findCrlf (b' :: r') with
        | none => simp [hf] at h
        | some l' =>
          simp [hf] at h
          have := ih l' hf
          subst h
          simp at this ⊢; omega

theorem step_shortens (cfg : Cfg) (p p' : Phase) (b b' : Bytes) (h : step cfg p b = some (p', b')) :
    b'.length < b.length := by
  cases p with
  | head gz =>
    simp only [step] at h
    split at h
    · cases h
    · rename_i e he
      cases h
      have := findHeadEnd_pos_le b e he
      simp; omega
  | fixed m rem acc =>
    simp only [step] at h
    split at h
    · cases h
    · rename_i hne
      have hb : 0 < b.length ∧ 0 < rem := by
        cases b <;> simp_all <;> omega
      split at h <;> cases h <;> simp <;> omega
  | chunkSize m total acc =>
    simp only [step] at h
    split at h
    · rename_i loc hl
      have := findCrlf_le b loc hl
      split at h
      · cases h; simp; omega
      · split at h
        · cases h; simp; omega
        · cases h; simp; omega
        · split at h <;> cases h <;> simp <;> omega
    · split at h
      · cases h; simp; omega
      · cases h
  | chunkData m total rem acc =>
    simp only [step] at h
    split at h
    · cases h
    · rename_i hne
      have hb : 0 < b.length ∧ 0 < rem := by
        cases b <;> simp_all <;> omega
      split at h <;> cases h <;> simp <;> omega
  | chunkCrlf m total acc =>
    simp only [step] at h
    split at h
    · split at h <;> cases h <;> simp <;> omega
    · cases h
  | lastCrlf m acc =>
    simp only [step] at h
    split at h
    · split at h <;> cases h <;> simp <;> omega
    · cases h
  | untilClose m acc =>
    simp only [step] at h
    split at h
    · cases h
    · rename_i hne
      cases h
      cases b <;> simp_all
  | done o => simp [step] at h

theorem drain_fuel_eq (cfg : Cfg) : ∀ (f g : Nat) (p : Phase) (b : Bytes), b.length + 1 ≤ f → b.length + 1 ≤ g →
    drain cfg f p b = drain cfg g p b := by
  intro f
  induction f with
  | zero => intro g p b hf; omega
  | succ f ih =>
    intro g p b hf hg
    cases g with
    | zero => omega
    | succ g =>
      simp only [drain]
      cases hs : step cfg p b with
      | none => rfl
      | some pb =>
        obtain ⟨p', b'⟩ := pb
        have := step_shortens cfg p p' b b' hs
        exact ih g p' b' (by omega) (by omega)

/-- fuel irrelevance: any fuel ≥ `length + 1` gives the result of `drainFull` -/
theorem drain_fuel (cfg : Cfg) (f : Nat) (p : Phase) (b : Bytes) (h : b.length + 1 ≤ f) :
    drain cfg f p b = drainFull cfg p b :=
  drain_fuel_eq cfg f (b.length + 1) p b h (Nat.le_refl _)

/-! ### the body-size invariant -/

def Inv (cfg : Cfg) : Phase → Prop
  | .head _ => True
  | .fixed _ rem acc => acc.length + rem ≤ cfg.maxBody
  | .chunkSize _ total acc => acc.length = total ∧ total ≤ cfg.maxBody
  | .chunkData _ total rem acc => acc.length + rem = total ∧ total ≤ cfg.maxBody
  | .chunkCrlf _ total acc => acc.length = total ∧ total ≤ cfg.maxBody
  | .lastCrlf _ acc => acc.length ≤ cfg.maxBody
  | .untilClose _ _ => True
  | .done (.msg _ raw) => raw.length ≤ cfg.maxBody
  | .done (.fail _) => True

theorem clStep_le (h h' : Headers) (mx n : Nat) (e : clStep h mx = some (h', some n)) : n ≤ mx := by
  unfold clStep at e
  split at e
  · split at e
    · cases e
    · simp only at e
      split at e
      · cases e
      · split at e
        · cases e
        · split at e
          · cases e
          · rename_i hle
            cases e
            omega
  · cases e

theorem framingOf_fixed (code : Nat) (ch : Bool) (cl : Option Nat) (n : Nat) (e : framingOf code ch cl = some (.fixed n)) :
    n = 0 ∨ cl = some n := by
  unfold framingOf at e
  split at e
  · split at e
    · cases e
    · cases e; exact Or.inl rfl
  · split at e
    · cases e
    · split at e
      · cases e; exact Or.inr rfl
      · cases e

theorem readBody_fixed_le (code : Nat) (h h' : Headers) (mx n : Nat) (e : readBody code h mx = some (h', .fixed n)) :
    n ≤ mx := by
  unfold readBody at e
  split at e
  · cases e
  · rename_i h1 cl hcl
    split at e
    · cases e
    · rename_i h2 ch hch
      cases hf : framingOf code ch cl with
      | none => simp [hf] at e
      | some fr =>
        simp [hf] at e
        obtain ⟨_, rfl⟩ := e
        rcases framingOf_fixed _ _ _ _ hf with h0 | h0
        · omega
        · subst h0; exact clStep_le _ _ _ _ hcl

theorem inv_onHead (cfg : Cfg) (gz : Bool) (data : Bytes) : Inv cfg (onHead cfg gz data) := by
  unfold onHead
  repeat' split
  all_goals first
    | (simp [Inv]; done)
    | (rename_i hr; have := readBody_fixed_le _ _ _ _ _ hr; simpa [Inv] using this)

theorem inv_step (cfg : Cfg) (p p' : Phase) (b b' : Bytes) (hi : Inv cfg p) (h : step cfg p b = some (p', b')) :
    Inv cfg p' := by
  cases p with
  | head gz =>
    simp only [step] at h
    split at h
    · cases h
    · cases h; exact inv_onHead _ _ _
  | fixed m rem acc =>
    simp only [step] at h
    split at h
    · cases h
    · simp only [Inv] at hi
      split at h <;> cases h <;> simp [Inv, List.length_take] <;> omega
  | chunkSize m total acc =>
    simp only [step] at h
    simp only [Inv] at hi
    split at h
    · split at h
      · cases h; trivial
      · split at h
        · cases h; trivial
        · cases h; simp [Inv]; omega
        · split at h
          · cases h; trivial
          · cases h; simp [Inv]; omega
    · split at h
      · cases h; trivial
      · cases h
  | chunkData m total rem acc =>
    simp only [step] at h
    split at h
    · cases h
    · simp only [Inv] at hi
      split at h <;> cases h <;> simp [Inv, List.length_take] <;> omega
  | chunkCrlf m total acc =>
    simp only [step] at h
    simp only [Inv] at hi
    split at h
    · split at h
      · cases h; exact hi
      · cases h; trivial
    · cases h
  | lastCrlf m acc =>
    simp only [step] at h
    simp only [Inv] at hi
    split at h
    · split at h
      · cases h; exact hi
      · cases h; trivial
    · cases h
  | untilClose m acc =>
    simp only [step] at h
    split at h
    · cases h
    · cases h; trivial
  | done o => simp [step] at h

theorem inv_drain (cfg : Cfg) : ∀ (f : Nat) (p : Phase) (b : Bytes), Inv cfg p → Inv cfg (drain cfg f p b).1 := by
  intro f
  induction f with
  | zero => intro p b hi; exact hi
  | succ f ih =>
    intro p b hi
    simp only [drain]
    cases hs : step cfg p b with
    | none => exact hi
    | some pb => exact ih pb.1 pb.2 (inv_step cfg p pb.1 b pb.2 hi hs)

theorem inv_feed (cfg : Cfg) (s : Phase × Bytes) (seg : Bytes) (hi : Inv cfg s.1) : Inv cfg (feed cfg s seg).1 :=
  inv_drain cfg _ _ _ hi

theorem inv_foldl (cfg : Cfg) (segs : List Bytes) : ∀ s : Phase × Bytes, Inv cfg s.1 →
    Inv cfg (segs.foldl (feed cfg) s).1 := by
  induction segs with
  | nil => intro s hi; exact hi
  | cons g gs ih => intro s hi; exact ih _ (inv_feed cfg s g hi)

end TornadoModel.C08
