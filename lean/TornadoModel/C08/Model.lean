/-
C08 — model of the HTTP client's response reader (core Lean only).

Anchors: `httputil.parse_response_start_line`, `HTTP1Connection._read_message` (is_client), `_parse_headers`,
`_read_body`, `is_transfer_encoding_chunked`, `_read_fixed_body`, `_read_chunked_body`,
`_read_body_until_close`, `_GzipMessageDelegate`, `simple_httpclient._HTTPConnection.headers_received /
data_received / finish`, and the three `IOStream` reads they use (`read_until_regex(b"\r?\n\r?\n")`,
`read_until(b"\r\n", max_bytes=64)`, `read_bytes(n, partial=…)`, `read_until_close`).

Bytes and latin-1 text are `List Nat`.  The connection coroutine is a machine
`step : Phase → buffer → Option (Phase × buffer)` (one `await`ed read per step; `none` = the read is pending);
`feed` appends a segment to the stream buffer and drains.  zlib is opaque: `Z raw` is what the streaming
gzip decompressor yields for the whole (still compressed) body `raw`.

The model is of the tree *after* the `fix:` commits listed in known_findings/C08.json (close-delimited bodies
are checked against `max_body_size`; Content-Length lists are split on comma + SP/HTAB; a 1xx interim response hands over to the nested read and returns; a truncated
gzip body fails the fetch; `_GzipMessageDelegate.headers_received` starts every message without a decompressor).
-/
import TornadoModel.C06.Model
namespace TornadoModel.C08
open TornadoModel.C06

abbrev Bytes := List Nat

inductive ErrKind where
  | closed    -- HTTPStreamClosedError ("Connection closed" / "Stream closed")
  | timeout   -- nothing completes the fetch before the request timeout fires (HTTPTimeoutError)
  | quiet     -- UnsatisfiableReadError re-raised in on_connection_close, surfaced as _QuietException
  | oracle    -- the gzip oracle supplied by the harness does not cover the body (never expected)
  deriving Repr, BEq, DecidableEq

inductive GzStatus where
  | complete  -- one whole gzip member, nothing after it
  | trunc     -- input ended inside the member
  | trail     -- bytes after the first member (ignored by the decompressor)
  | bad       -- zlib.error
  | missing   -- harness table does not cover this input
  deriving Repr, BEq, DecidableEq

structure GzRes where
  out : Bytes
  st : GzStatus
  deriving Repr, BEq, DecidableEq

inductive Res where
  | ok (code : Nat) (reason : Str) (hdrs : List (Str × Str)) (body : Bytes)
  | err (k : ErrKind)
  deriving Repr, BEq, DecidableEq

structure Cfg where
  isHead : Bool        -- the request method was HEAD
  decompress : Bool    -- decompress_response
  maxBody : Nat        -- max_body_size (or max_buffer_size when None)
  deriving Repr, BEq, DecidableEq

/-! ### status line: `_ABNF.status_line.fullmatch` + the `HTTP/1` test -/

def isDigit (c : Nat) : Bool := 48 ≤ c && c ≤ 57
/-- `reason_phrase` characters: HTAB, SP, VCHAR, obs-text -/
def isReasonChar (c : Nat) : Bool := c = 9 || c = 32 || (0x21 ≤ c && c ≤ 0x7E) || (0x80 ≤ c && c ≤ 0xFF)

/-- `parse_response_start_line` → (version, code, reason) -/
def parseStatusLine : Str → Option (Str × Nat × Str)
  | 72 :: 84 :: 84 :: 80 :: 47 :: d1 :: 46 :: d2 :: 32 :: c1 :: c2 :: c3 :: 32 :: reason =>
    if d1 = 49 && isDigit d2 && isDigit c1 && isDigit c2 && isDigit c3 && reason.all isReasonChar then
      some ([72, 84, 84, 80, 47, d1, 46, d2], (c1 - 48) * 100 + (c2 - 48) * 10 + (c3 - 48), reason)
    else none
  | _ => none

/-! ### the header block -/

/-- end offset of the leftmost match of `\r?\n\r?\n` -/
def findHeadEnd : Bytes → Option Nat
  | [] => none
  | c :: cs =>
    match c :: cs with
    | 13 :: 10 :: 13 :: 10 :: _ => some 4
    | 13 :: 10 :: 10 :: _ => some 3
    | 10 :: 13 :: 10 :: _ => some 3
    | 10 :: 10 :: _ => some 2
    | _ => (findHeadEnd cs).map (· + 1)

def isCrLf (c : Nat) : Bool := c = 13 || c = 10

/-- split at the first LF: (before, from the LF on) -/
def splitAtLf : Str → Option (Str × Str)
  | [] => none
  | c :: cs => if c = 10 then some ([], c :: cs) else (splitAtLf cs).map (fun (a, b) => (c :: a, b))

def rstripCr (s : Str) : Str := (s.reverse.dropWhile (· = 13)).reverse

/-- `_parse_headers` + `parse_response_start_line` -/
def parseHead (data : Bytes) : Option ((Str × Nat × Str) × Headers) :=
  match splitAtLf (data.dropWhile isCrLf) with
  | none => none
  | some (line, rest) =>
    match parse rest with
    | .error _ => none
    | .ok h =>
      match parseStatusLine (rstripCr line) with
      | none => none
      | some sl => some (sl, h)

def sContentLength : Str := [67, 111, 110, 116, 101, 110, 116, 45, 76, 101, 110, 103, 116, 104]
def sTransferEncoding : Str :=
  [84, 114, 97, 110, 115, 102, 101, 114, 45, 69, 110, 99, 111, 100, 105, 110, 103]
def sContentEncoding : Str := [67, 111, 110, 116, 101, 110, 116, 45, 69, 110, 99, 111, 100, 105, 110, 103]
def sXConsumed : Str :=
  [88, 45, 67, 111, 110, 115, 117, 109, 101, 100, 45, 67, 111, 110, 116, 101, 110, 116, 45, 69, 110, 99, 111,
   100, 105, 110, 103]
def sChunked : Str := [99, 104, 117, 110, 107, 101, 100]
def sGzip : Str := [103, 122, 105, 112]

/-- `_GzipMessageDelegate.headers_received`: → (headers, a decompressor was created) -/
def gzipRewrite (h : Headers) : Headers × Bool :=
  match getItem h sContentEncoding with
  | .error _ => (h, false)
  | .ok (v, h1) =>
    if v.map lowerC = sGzip then
      match add h1 sXConsumed v with
      | .error _ => (h1, true)        -- unreachable: `v` lower-cases to "gzip"
      | .ok h2 =>
        match delItem h2 sContentEncoding with
        | .error _ => (h2, true)      -- unreachable
        | .ok h3 => (h3, true)
    else (h1, false)

/-- `[ \t]`: the optional whitespace after a list comma (since the `fix:` commit; was Python's `\s`) -/
def isListWs (c : Nat) : Bool := c = 32 || c = 9

/-- `re.split(r",[ \t]*", s)` (`skip` = we are just behind a comma) -/
def splitCommaWs (skip : Bool) : Str → List Str
  | [] => [[]]
  | c :: cs =>
    if skip && isListWs c then splitCommaWs true cs
    else if c = 44 then [] :: splitCommaWs true cs
    else match splitCommaWs false cs with
      | [] => [[c]]
      | w :: ws => (c :: w) :: ws

def decVal (s : Str) : Nat := s.foldl (fun a c => a * 10 + (c - 48)) 0
/-- `parse_int`: `[0-9]+` -/
def parseDec (s : Str) : Option Nat := if !s.isEmpty && s.all isDigit then some (decVal s) else none

def hexDigitVal (c : Nat) : Option Nat :=
  if 48 ≤ c && c ≤ 57 then some (c - 48)
  else if 97 ≤ c && c ≤ 102 then some (c - 87)
  else if 65 ≤ c && c ≤ 70 then some (c - 55)
  else none
/-- `parse_hex_int` of the chunk-size line (`[0-9a-fA-F]+`) -/
def parseHex (s : Bytes) : Option Nat :=
  if s.isEmpty then none
  else s.foldl (fun a c => match a, hexDigitVal c with | some a, some d => some (a * 16 + d) | _, _ => none) (some 0)

inductive Framing where
  | fixed (n : Nat)
  | chunked
  | close
  deriving Repr, BEq, DecidableEq

/-- the Content-Length part of `_read_body`: `none` = HTTPInputError; else the (mutated) headers and the length -/
def clStep (h0 : Headers) (maxBody : Nat) : Option (Headers × Option Nat) :=
  if contains h0 sContentLength then
    match getItem h0 sContentLength with
    | .error _ => none
    | .ok (v, h1) =>
      let r : Option (Headers × Str) :=
        if v.contains 44 then
          match splitCommaWs false v with
          | [] => none
          | p :: ps => if ps.all (· == p) then some (setItem h1 sContentLength p, p) else none
        else some (h1, v)
      match r with
      | none => none
      | some (h2, v2) =>
        match parseDec v2 with
        | none => none
        | some n => if n > maxBody then none else some (h2, some n)
  else some (h0, none)

/-- `is_transfer_encoding_chunked` -/
def chStep (h : Headers) : Option (Headers × Bool) :=
  if !contains h sTransferEncoding then some (h, false)
  else if contains h sContentLength then none
  else match getItem h sTransferEncoding with
    | .error _ => none
    | .ok (v, h1) => if v.map lowerC = sChunked then some (h1, true) else none

/-- the final decision of `_read_body` for a client -/
def framingOf (code : Nat) (chunked : Bool) (cl : Option Nat) : Option Framing :=
  if code = 204 then
    if chunked || !(cl = none || cl = some 0) then none else some (.fixed 0)
  else if chunked then some .chunked
  else match cl with
    | some n => some (.fixed n)
    | none => some .close

/-- `_read_body` + `is_transfer_encoding_chunked` for a client: the framing decision (`none` = HTTPInputError)
    and the header object as mutated on the way (`headers["Content-Length"] = pieces[0]`, cache fills). -/
def readBody (code : Nat) (h0 : Headers) (maxBody : Nat) : Option (Headers × Framing) :=
  match clStep h0 maxBody with
  | none => none
  | some (h, cl) =>
    match chStep h with
    | none => none
    | some (h', chunked) => (framingOf code chunked cl).map (fun fr => (h', fr))

/-- index of the first CRLF -/
def findCrlf : Bytes → Option Nat
  | [] => none
  | [_] => none
  | a :: b :: r => if a = 13 && b = 10 then some 0 else (findCrlf (b :: r)).map (· + 1)

/-! ### the connection machine -/

structure Msg where
  code : Nat
  reason : Str
  hdrs : Headers
  gz : Bool
  deriving Repr, BEq, DecidableEq

inductive Outcome where
  | msg (m : Msg) (raw : Bytes)     -- `finish()` was reached with this (still encoded) body
  | fail (k : ErrKind)
  deriving Repr, BEq, DecidableEq

inductive Phase where
  | head (gzSticky : Bool)      -- awaiting a header block; `gzSticky`: an earlier 1xx created the decompressor
  | fixed (m : Msg) (rem : Nat) (acc : Bytes)
  | chunkSize (m : Msg) (total : Nat) (acc : Bytes)
  | chunkData (m : Msg) (total rem : Nat) (acc : Bytes)
  | chunkCrlf (m : Msg) (total : Nat) (acc : Bytes)
  | lastCrlf (m : Msg) (acc : Bytes)
  | untilClose (m : Msg) (acc : Bytes)
  | done (o : Outcome)
  deriving Repr, BEq, DecidableEq

/-- what happens once a complete header block `data` has been read -/
def onHead (cfg : Cfg) (_gzPrev : Bool) (data : Bytes) : Phase :=
  match parseHead data with
  | none => .done (.fail .timeout)   -- HTTPInputError before the delegate is started: nobody reports it
  | some ((_, code, reason), h0) =>
    let (h, gzNew) := if cfg.decompress then gzipRewrite h0 else (h0, false)
    -- `headers_received` drops the decompressor an earlier (1xx) message may have created: `_gzPrev` is not consulted
    let gz := gzNew
    if 100 ≤ code && code < 200 then
      if contains h sContentLength || contains h sTransferEncoding then .done (.fail .closed)
      else .head gz
    else
      let m : Msg := { code := code, reason := reason, hdrs := h, gz := gz }
      if cfg.isHead || code = 304 then .done (.msg m [])
      else match readBody code h cfg.maxBody with
        | none => .done (.fail .closed)
        | some (h', .fixed 0) => .done (.msg { m with hdrs := h' } [])
        | some (h', .fixed n) => .fixed { m with hdrs := h' } n []
        | some (h', .chunked) => .chunkSize { m with hdrs := h' } 0 []
        | some (h', .close) => .untilClose { m with hdrs := h' } []

/-- one `await`ed read against the current stream buffer; `none` = pending (or terminal) -/
def step (cfg : Cfg) : Phase → Bytes → Option (Phase × Bytes)
  | .head gz, b =>
    match findHeadEnd b with
    | none => none
    | some e => some (onHead cfg gz (b.take e), b.drop e)
  | .fixed m rem acc, b =>
    if b.isEmpty || rem = 0 then none     -- (`fixed _ 0 _` is never entered: a zero-length body finishes at once)
    else
      let k := min rem b.length
      if k = rem then some (.done (.msg m (acc ++ b.take k)), b.drop k)
      else some (.fixed m (rem - k) (acc ++ b.take k), b.drop k)
  | .chunkSize m total acc, b =>
    match findCrlf b with
    | some loc =>
      if loc + 2 > 64 then some (.done (.fail .quiet), [])
      else match parseHex (b.take loc) with
        | none => some (.done (.fail .closed), b.drop (loc + 2))
        | some 0 => some (.lastCrlf m acc, b.drop (loc + 2))
        | some n =>
          if total + n > cfg.maxBody then some (.done (.fail .closed), b.drop (loc + 2))
          else some (.chunkData m (total + n) n acc, b.drop (loc + 2))
    | none => if b.length > 64 then some (.done (.fail .quiet), []) else none
  | .chunkData m total rem acc, b =>
    if b.isEmpty || rem = 0 then none     -- (`chunkData _ _ 0 _` is never entered: size 0 is the last chunk)
    else
      let k := min rem b.length
      if k = rem then some (.chunkCrlf m total (acc ++ b.take k), b.drop k)
      else some (.chunkData m total (rem - k) (acc ++ b.take k), b.drop k)
  | .chunkCrlf m total acc, b =>
    match b with
    | x :: y :: r => if x = 13 && y = 10 then some (.chunkSize m total acc, r) else some (.done (.fail .closed), r)
    | _ => none
  | .lastCrlf m acc, b =>
    match b with
    | x :: y :: r => if x = 13 && y = 10 then some (.done (.msg m acc), r) else some (.done (.fail .closed), r)
    | _ => none
  | .untilClose m acc, b =>
    if b.isEmpty then none else some (.untilClose m (acc ++ b), [])
  | .done _, _ => none

def drain (cfg : Cfg) : Nat → Phase → Bytes → Phase × Bytes
  | 0, p, b => (p, b)
  | f + 1, p, b =>
    match step cfg p b with
    | none => (p, b)
    | some (p', b') => drain cfg f p' b'

/-- drain with the fuel that always suffices (every step shortens the buffer) -/
def drainFull (cfg : Cfg) (p : Phase) (b : Bytes) : Phase × Bytes := drain cfg (b.length + 1) p b

/-- a segment arrives -/
def feed (cfg : Cfg) (s : Phase × Bytes) (seg : Bytes) : Phase × Bytes := drainFull cfg s.1 (s.2 ++ seg)

def initial : Phase × Bytes := (.head false, [])

/-- the server is done sending: `eof` = it closed the connection, otherwise it just stays silent -/
def atEnd (cfg : Cfg) (eof : Bool) : Phase → Outcome
  | .done o => o
  | .untilClose m acc =>
    if eof then (if acc.length > cfg.maxBody then .fail .closed else .msg m acc) else .fail .timeout
  | _ => if eof then .fail .closed else .fail .timeout

/-- gzip delegate + `_HTTPConnection.finish` -/
def assemble (cfg : Cfg) (Z : Bytes → GzRes) : Outcome → Res
  | .fail k => .err k
  | .msg m raw =>
    if m.gz && !raw.isEmpty then
      let r := Z raw
      match r.st with
      | .bad => .err .closed
      | .trunc => .err .closed      -- `finish()`: compressed data was fed and `decompressor.eof` is false
      | .missing => .err .oracle
      | _ => if r.out.length > cfg.maxBody then .err .closed else .ok m.code m.reason (getAll m.hdrs) r.out
    else .ok m.code m.reason (getAll m.hdrs) raw

def runPhase (cfg : Cfg) (segs : List Bytes) : Phase := (segs.foldl (feed cfg) initial).1

/-- the whole fetch: segments arrive one by one, then the server closes (or not) -/
def run (cfg : Cfg) (Z : Bytes → GzRes) (segs : List Bytes) (eof : Bool) : Res :=
  assemble cfg Z (atEnd cfg eof (runPhase cfg segs))

/-- the still-compressed body handed to the decompressor, if any (used by the harness to build the oracle) -/
def rawGzBody (cfg : Cfg) (segs : List Bytes) (eof : Bool) : Option Bytes :=
  match atEnd cfg eof (runPhase cfg segs) with
  | .msg m raw => if m.gz && !raw.isEmpty then some raw else none
  | .fail _ => none

end TornadoModel.C08
