/- C08 — property theorems. -/
import TornadoModel.C08.Agree
import TornadoModel.C08.Strict
import TornadoModel.C08.Grammar
import TornadoModel.C08.StreamLemmas
namespace TornadoModel.C08
open TornadoModel.C06

/-- **statusLine_iff**: the accepted status lines are exactly `HTTP/1.` DIGIT SP 3DIGIT SP *( HTAB / SP / VCHAR / obs-text ),
    and the parse returns the version, the decimal value of the code, and the reason phrase. -/
theorem statusLine_iff (l v : Str) (code : Nat) (r : Str) :
    parseStatusLine l = some (v, code, r) ↔
      ∃ d2 c1 c2 c3, isDigit d2 = true ∧ isDigit c1 = true ∧ isDigit c2 = true ∧ isDigit c3 = true ∧
        r.all isReasonChar = true ∧ l = [72, 84, 84, 80, 47, 49, 46, d2, 32, c1, c2, c3, 32] ++ r ∧
        v = [72, 84, 84, 80, 47, 49, 46, d2] ∧ code = (c1 - 48) * 100 + (c2 - 48) * 10 + (c3 - 48) := by
  constructor
  · intro h
    unfold parseStatusLine at h
    split at h
    · rename_i d1 d2 c1 c2 c3 reason
      split at h
      · rename_i hc
        simp only [Bool.and_eq_true, decide_eq_true_eq] at hc
        obtain ⟨⟨⟨⟨⟨h1, h2⟩, h3⟩, h4⟩, h5⟩, h6⟩ := hc
        cases h
        subst h1
        exact ⟨d2, c1, c2, c3, h2, h3, h4, h5, h6, rfl, rfl, rfl⟩
      · cases h
    · cases h
  · rintro ⟨d2, c1, c2, c3, h2, h3, h4, h5, h6, rfl, rfl, rfl⟩
    simp [parseStatusLine, h2, h3, h4, h5, h6]

example : parseStatusLine ("HTTP/1.1 200 OK".toList.map Char.toNat) =
    some ("HTTP/1.1".toList.map Char.toNat, 200, "OK".toList.map Char.toNat) := by decide
example : parseStatusLine ("HTTP/2.0 200 OK".toList.map Char.toNat) = none := by decide
example : parseStatusLine ("HTTP/1.1 200".toList.map Char.toNat) = none := by decide
example : parseStatusLine ("HTTP/1.1 200 ".toList.map Char.toNat) = some ("HTTP/1.1".toList.map Char.toNat, 200, []) := by
  decide

/-- **client_body_le_limit**: whatever the server sends, in whatever segmentation, a successful fetch never carries
    more than `max_body_size` body bytes (after decompression). -/
theorem client_body_le_limit (cfg : Cfg) (Z : Bytes → GzRes) (segs : List Bytes) (eof : Bool)
    (c : Nat) (r : Str) (h : List (Str × Str)) (body : Bytes)
    (e : run cfg Z segs eof = .ok c r h body) : body.length ≤ cfg.maxBody := by
  unfold run runPhase at e
  have hi : Inv cfg (segs.foldl (feed cfg) initial).1 := inv_foldl cfg segs initial (by simp [initial, Inv])
  generalize (segs.foldl (feed cfg) initial).1 = p at e hi
  -- what `atEnd` hands to `assemble` is within the limit
  have ho : ∀ m raw, atEnd cfg eof p = .msg m raw → raw.length ≤ cfg.maxBody := by
    intro m raw ha
    cases p with
    | done o => cases o with
      | msg m' raw' => simp only [atEnd] at ha; cases ha; simpa [Inv] using hi
      | fail k => simp [atEnd] at ha
    | untilClose m' acc =>
      simp only [atEnd] at ha
      split at ha
      · split at ha
        · cases ha
        · cases ha; omega
      · cases ha
    | head g => simp only [atEnd] at ha; split at ha <;> cases ha
    | fixed _ _ _ => simp only [atEnd] at ha; split at ha <;> cases ha
    | chunkSize _ _ _ => simp only [atEnd] at ha; split at ha <;> cases ha
    | chunkData _ _ _ _ => simp only [atEnd] at ha; split at ha <;> cases ha
    | chunkCrlf _ _ _ => simp only [atEnd] at ha; split at ha <;> cases ha
    | lastCrlf _ _ => simp only [atEnd] at ha; split at ha <;> cases ha
  cases ha : atEnd cfg eof p with
  | fail k => simp [ha, assemble] at e
  | msg m raw =>
    have hraw := ho m raw ha
    simp only [ha, assemble] at e
    split at e
    · split at e
      · cases e
      · cases e
      · cases e
      · split at e
        · cases e
        · cases e; omega
    · cases e; exact hraw

/-! ### agreement with the strict batch reader -/

/-- the full statement of the property on one stream -/
def client_agrees_with_spec_full : Prop :=
  ∀ (cfg : Cfg) (Z : Bytes → GzRes) (s : Bytes) (eof : Bool), (run cfg Z [s] eof).toSpec = Spec.readAll cfg Z s eof

/-- the witness: a close-delimited gzip body with data behind the first member -/
def wStream : Bytes :=
  "HTTP/1.1 200 OK\r\nContent-Encoding: gzip\r\n\r\nA".toList.map Char.toNat
def wCfg : Cfg := { isHead := false, decompress := true, maxBody := 100 }
def wZ : Bytes → GzRes := fun _ => ⟨[66], .trail⟩

theorem witness_model : run wCfg wZ [wStream] true =
    .ok 200 [79, 75] [("X-Consumed-Content-Encoding".toList.map Char.toNat, "gzip".toList.map Char.toNat)] [66] := by
  decide

theorem witness_spec : Spec.readAll wCfg wZ wStream true = none := by decide

/-- **gzip_trailing_refuted**: the code as it is drops whatever follows the first gzip member (known finding
    `gz-trail`), so the full statement fails. -/
theorem gzip_trailing_refuted : ¬ client_agrees_with_spec_full := by
  intro h
  have := h wCfg wZ wStream true
  rw [witness_model, witness_spec] at this
  simp [Res.toSpec] at this

/-- **gzip_truncated_rejected**: a gzip body that stops inside the member fails the fetch (fixed: `finish()` looks at
    the decompressor's end-of-stream flag) — for every stream, segmentation and zlib behaviour. -/
theorem gzip_truncated_rejected (cfg : Cfg) (Z : Bytes → GzRes) (segs : List Bytes) (eof : Bool) (raw : Bytes)
    (h : rawGzBody cfg segs eof = some raw) (ht : (Z raw).st = .trunc) : run cfg Z segs eof = .err .closed := by
  unfold rawGzBody at h
  unfold run
  cases ha : atEnd cfg eof (runPhase cfg segs) with
  | fail k => simp [ha] at h
  | msg m r =>
    simp only [ha] at h
    split at h
    · rename_i hg
      cases h
      simp only [assemble, hg, ↓reduceIte, ht]
    · cases h

/-- the same stream, the decompressor stopping inside the member -/
def truncZ : Bytes → GzRes := fun _ => ⟨[66], .trunc⟩

example : rawGzBody wCfg [wStream] true = some [65] ∧ (truncZ [65]).st = .trunc ∧
    run wCfg truncZ [wStream] true = .err .closed ∧ Spec.readAll wCfg truncZ wStream true = none := by decide

/-! ### segmentation independence -/

/-- **feed_append**: feeding two segments one after the other leaves the machine in the same phase as feeding their
    concatenation — from any state `s` (every read of the machine is prefix stable: `step_append`). -/
theorem feed_append (cfg : Cfg) (s : Phase × Bytes) (a b : Bytes) :
    (feed cfg (feed cfg s a) b).1 = (feed cfg s (a ++ b)).1 :=
  feed_append' cfg s a b

/-- **client_segmentation_independent**: the result of a fetch depends only on the concatenation of the segments the
    server sends (and on whether it closes), not on where the stream is cut. -/
theorem client_segmentation_independent (cfg : Cfg) (Z : Bytes → GzRes) (segs : List Bytes) (eof : Bool) :
    run cfg Z segs eof = run cfg Z [segs.flatten] eof := by
  unfold run
  rw [runPhase_flatten]

example : run wCfg wZ [wStream.take 7, wStream.drop 7] true = run wCfg wZ [wStream] true := by decide

/-! ### agreement with the strict batch reader, outside the recorded gzip leniency -/

/-- **client_agrees_with_spec**: with `decompress_response` off, the machine run on the whole stream returns exactly
    what the strict batch reader `Spec.readAll` extracts, and fails exactly when that reader rejects the stream —
    every framing (Content-Length, chunked, close-delimited), 1xx chains, 204/304/HEAD, every limit. -/
theorem client_agrees_with_spec (cfg : Cfg) (Z : Bytes → GzRes) (s : Bytes) (eof : Bool)
    (hd : cfg.decompress = false) : (run cfg Z [s] eof).toSpec = Spec.readAll cfg Z s eof := by
  have h := read_agree cfg Z eof (s.length + 1) s false (Nat.le_refl _) (Or.inl hd)
  simpa [run, runPhase, feed, initial, Spec.readAll] using h

example : (run { wCfg with decompress := false } wZ [wStream] true).toSpec =
    some (.ok 200 [79, 75] [("Content-Encoding".toList.map Char.toNat, "gzip".toList.map Char.toNat)] [65]) := by
  decide

/-- **client_agrees_with_spec_gz**: the same with `decompress_response` on, under the one explicit (decidable) side
    condition that excludes the recorded gzip leniency: on the body actually handed to zlib the decompressor did not
    leave data behind the first member (`ZOk`: not `trail`).  A member that stops short (`trunc`), a corrupt member
    (`bad`), an inflated body over `max_body_size` and `Content-Encoding: gzip` on interim (1xx) responses are
    covered: model and strict reader agree. -/
theorem client_agrees_with_spec_gz (cfg : Cfg) (Z : Bytes → GzRes) (s : Bytes) (eof : Bool)
    (h2 : ∀ raw ∈ rawGzBody cfg [s] eof, ZOk (Z raw)) :
    (run cfg Z [s] eof).toSpec = Spec.readAll cfg Z s eof := by
  have hrun : runPhase cfg [s] = (drainFull cfg (.head false) s).1 := by
    simp [runPhase, feed, initial]
  have h := read_agree cfg Z eof (s.length + 1) s false (Nat.le_refl _) (Or.inr (by
    intro m raw hat hg hr
    apply h2 raw
    have hne : raw.isEmpty = false := by cases raw <;> simp_all
    simp [rawGzBody, hrun, hat, hg, hne]))
  simpa [run, hrun, Spec.readAll] using h

/-- a complete member -/
def okZ : Bytes → GzRes := fun _ => ⟨[66], .complete⟩

example : (∀ raw ∈ rawGzBody wCfg [wStream] true, ZOk (okZ raw)) ∧
    rawGzBody wCfg [wStream] true = some [65] ∧
    Spec.readAll wCfg okZ wStream true = some (.ok 200 [79, 75]
      [("X-Consumed-Content-Encoding".toList.map Char.toNat, "gzip".toList.map Char.toNat)] [66]) := by
  decide

/-- **interim_flag_irrelevant**: the decompressor an interim (1xx) response may have created is never consulted —
    the outcome of reading on from "awaiting a header block" does not depend on the flag it left behind (fixed:
    `headers_received` starts every message without a decompressor). -/
theorem interim_flag_irrelevant (cfg : Cfg) (g eof : Bool) (b : Bytes) :
    atEnd cfg eof (drainFull cfg (.head g) b).1 = atEnd cfg eof (drainFull cfg (.head false) b).1 := by
  unfold drainFull
  simp only [drain, step]
  cases findHeadEnd b <;> rfl

/-- an interim response with `Content-Encoding: gzip`, then an identity-coded final response -/
def wSticky : Bytes :=
  "HTTP/1.1 100 Continue\r\nContent-Encoding: gzip\r\n\r\nHTTP/1.1 200 OK\r\nContent-Length: 1\r\n\r\nA".toList.map
    Char.toNat

/-- the former witness of the `interim-content-encoding-sticky` finding: the final response is delivered as it is -/
example : rawGzBody wCfg [wSticky] true = none ∧
    run wCfg okZ [wSticky] true = .ok 200 [79, 75] [("Content-Length".toList.map Char.toNat, [49])] [65] ∧
    Spec.readAll wCfg okZ wSticky true = some (.ok 200 [79, 75] [("Content-Length".toList.map Char.toNat, [49])] [65]) := by
  decide

/-! ### what reaches `streaming_callback` -/

/-- the recording machine of `Stream.lean` is the machine of the other theorems: same phase after any segments -/
theorem pieces_machine (cfg : Cfg) (segs : List Bytes) :
    (segs.foldl (feedP cfg) initialP).1 = runPhase cfg segs := by
  have := foldlP_fst cfg segs initialP
  simp only [initialP] at this
  unfold runPhase initial initialP
  rw [← this]

theorem sum_take_le : ∀ (l : List Nat) (k : Nat), (l.take k).sum ≤ l.sum
  | [], k => by simp
  | _ :: _, 0 => by simp
  | a :: l, k + 1 => by simp only [List.take_succ_cons, List.sum_cons]; have := sum_take_le l k; omega

/-- **streamed_le_limit**: whatever the server sends, in whatever segmentation, whatever zlib yields for it, and
    whether the fetch succeeds or fails afterwards: at every point of the fetch the bytes handed to
    `streaming_callback` so far (after decompression) number at most `max_body_size`. -/
theorem streamed_le_limit (cfg : Cfg) (segs : List Bytes) (eof : Bool) (tbl : List (List ZCall)) (k : Nat) :
    ((streamed cfg segs eof tbl).take k).sum ≤ cfg.maxBody := by
  refine Nat.le_trans (sum_take_le _ k) ?_
  obtain ⟨⟨g, hg⟩, hl⟩ := pieces_ok cfg segs eof
  unfold streamed
  cases g with
  | false => rw [deliver_plain cfg.maxBody _ tbl 0 hg]; exact hl
  | true => simpa using deliver_gz_le cfg.maxBody _ tbl 0 hg (Nat.zero_le _)

/-- a gzip body of 3 bytes on the wire that inflates to 5 + 4 bytes in two `decompress` calls -/
def bStream : Bytes :=
  "HTTP/1.1 200 OK\r\nContent-Encoding: gzip\r\nContent-Length: 3\r\n\r\nABC".toList.map Char.toNat

example : pieces wCfg [bStream] true = [(true, [65, 66, 67])] := by decide
example : streamed { wCfg with maxBody := 9 } [bStream] true [[.out 5 true, .out 4 false]] = [5, 4] := by decide
example : streamed { wCfg with maxBody := 8 } [bStream] true [[.out 5 true, .out 4 false]] = [5] := by decide
example : streamed { wCfg with maxBody := 4 } [bStream] true [[.out 5 true, .out 4 false]] = [] := by decide
example : streamed { wCfg with maxBody := 3, decompress := false } [bStream.take 63, bStream.drop 63] true [] = [1, 2] := by
  decide

/-! ### the strict reader whose framing decision is stated independently of the model (`Spec.strictReadAll`) -/

/-- **client_agrees_with_strict**: `decompress_response` off: the fetch returns exactly what the independent strict
    reader `Spec.strictReadAll` extracts and fails exactly when it rejects — no side condition (the former
    `client_agrees_with_strict_full`, refuted until the Content-Length-list fix, now holds). -/
theorem client_agrees_with_strict (cfg : Cfg) (Z : Bytes → GzRes) (s : Bytes) (eof : Bool)
    (hd : cfg.decompress = false) :
    (run cfg Z [s] eof).toSpec = Spec.strictReadAll cfg Z s eof := by
  rw [strictReadAll_eq cfg Z s eof]
  exact client_agrees_with_spec cfg Z s eof hd

/-- **client_agrees_with_strict_gz**: the same with `decompress_response` on, under the one explicit side condition
    left (`ZOk`: no data behind the first gzip member — known finding `gz-trail`). -/
theorem client_agrees_with_strict_gz (cfg : Cfg) (Z : Bytes → GzRes) (s : Bytes) (eof : Bool)
    (h2 : ∀ raw ∈ rawGzBody cfg [s] eof, ZOk (Z raw)) :
    (run cfg Z [s] eof).toSpec = Spec.strictReadAll cfg Z s eof := by
  rw [strictReadAll_eq cfg Z s eof]
  exact client_agrees_with_spec_gz cfg Z s eof h2

/-- the former witness of the `cl-list-space` finding: a Content-Length list whose second member is preceded by
    U+00A0 (Python's `\s`, no longer accepted by `re.split(r",[ \t]*")`) -/
def wNbsp : Bytes := "HTTP/1.1 200 OK\r\nContent-Length: 1,\xa01\r\n\r\nA".toList.map Char.toNat
def wCfgPlain : Cfg := { isHead := false, decompress := false, maxBody := 100 }

/-- rejected by the code and by the strict reader -/
example : run wCfgPlain wZ [wNbsp] true = .err .closed ∧ Spec.strictReadAll wCfgPlain wZ wNbsp true = none := by decide

/-- an ordinary list `1, 1` is read as 1 by both -/
def wList : Bytes := "HTTP/1.1 200 OK\r\nContent-Length: 1, 1\r\n\r\nA".toList.map Char.toNat
example : run wCfgPlain wZ [wList] true = .ok 200 [79, 75] [("Content-Length".toList.map Char.toNat, [49])] [65] ∧
    Spec.strictReadAll wCfgPlain wZ wList true =
      some (.ok 200 [79, 75] [("Content-Length".toList.map Char.toNat, [49])] [65]) := by decide

/-! ### the framing corner cases, stated on the independent rule (`Spec.framing` is what `strictReadAll` frames by;
    `readBody_eq_strict` / `strict_accepts_sound` tie `_read_body` to it) -/

/-- Content-Length together with Transfer-Encoding: rejected, whatever the values -/
theorem framing_cl_te_rejected (code : Nat) (cl te : Str) (mb : Nat) :
    Spec.framing code (some cl) (some te) mb = none := rfl

/-- 204: accepted only without Transfer-Encoding and with no Content-Length or one that reads as 0; never a body -/
theorem framing_204 (cl te : Option Str) (mb : Nat) (fr : Framing)
    (h : Spec.framing 204 cl te mb = some fr) :
    fr = .fixed 0 ∧ te = none ∧ (cl = none ∨ ∃ v, cl = some v ∧ (Spec.clMember v).bind parseDec = some 0) := by
  unfold Spec.framing at h
  cases te with
  | some t => cases cl <;> simp at h
  | none =>
    cases cl with
    | none => simp at h; exact ⟨h.symm, rfl, Or.inl rfl⟩
    | some v =>
      simp only at h
      cases hb : (Spec.clMember v).bind parseDec with
      | none => rw [hb] at h; cases h
      | some n =>
        rw [hb] at h
        simp only at h
        split at h
        · cases h
        · simp only [if_true] at h
          split at h
          · rename_i h0; subst h0; cases h; exact ⟨rfl, rfl, Or.inr ⟨v, rfl, hb⟩⟩
          · cases h

/-- neither field: a 204 has an empty body, everything else runs to the close of the connection -/
theorem framing_neither (code : Nat) (mb : Nat) :
    Spec.framing code none none mb = some (if code = 204 then .fixed 0 else .close) := by
  simp only [Spec.framing]; split <;> rfl

/-- the model's decision on the same corner cases, unconditionally: both fields ⇒ `_read_body` raises -/
theorem readBody_cl_te_rejected (code : Nat) (h : Headers) (mb : Nat)
    (hcl : contains h sContentLength = true) (hte : contains h sTransferEncoding = true) :
    readBody code h mb = none := by
  cases hr : readBody code h mb with
  | none => rfl
  | some q =>
    exfalso
    obtain ⟨h', fr⟩ := q
    unfold readBody at hr
    cases hc : clStep h mb with
    | none => rw [hc] at hr; cases hr
    | some r =>
      obtain ⟨H, cl⟩ := r
      rw [hc] at hr
      simp only at hr
      have hH : contains H sContentLength = true ∧ contains H sTransferEncoding = true := by
        unfold clStep at hc
        rw [if_pos hcl] at hc
        cases hgi : getItem h sContentLength with
        | error _ => rw [hgi] at hc; cases hc
        | ok vh =>
          obtain ⟨v, h1⟩ := vh
          have hal := getItem_asList h h1 _ v hgi
          rw [hgi] at hc
          simp only at hc
          split at hc
          · cases hc
          · rename_i h2 v2 hrr
            split at hc
            · cases hc
            · split at hc
              · cases hc
              · cases hc
                split at hrr
                · split at hrr
                  · cases hrr
                  · split at hrr
                    · cases hrr
                      exact ⟨contains_setItem_same _ _ _, by
                        rw [(field_setItem_other h1 _ _ _ nTE_ne_nCL).2, contains_congr hal]; exact hte⟩
                    · cases hrr
                · cases hrr
                  exact ⟨by rw [contains_congr hal]; exact hcl, by rw [contains_congr hal]; exact hte⟩
      simp [chStep, hH.1, hH.2] at hr

example : Spec.framing 204 (some [53]) none 100 = none := by decide
example : Spec.framing 200 (some [53, 44, 32, 53]) none 100 = some (.fixed 5) := by decide
example : Spec.framing 200 (some [53, 44, 160, 53]) none 100 = none := by decide
example : Spec.framing 200 none (some ("Chunked".toList.map Char.toNat)) 100 = some .chunked := by decide

end TornadoModel.C08
