import TornadoModel.C08.Spec
namespace TornadoModel.C08
end TornadoModel.C08
