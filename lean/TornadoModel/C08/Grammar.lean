/- C08: characterisations of the two small scanners the strict reader shares with the model inside `Spec.chunks`:
   `findCrlf` (first CRLF) and `parseHex` (the chunk-size line). -/
import TornadoModel.C08.Seg
namespace TornadoModel.C08

/-- `loc` is the position of the first CR LF pair of `b` -/
def IsFirstCrlf (b : Bytes) (loc : Nat) : Prop :=
  b[loc]? = some 13 ∧ b[loc + 1]? = some 10 ∧ ∀ j, j < loc → ¬ (b[j]? = some 13 ∧ b[j + 1]? = some 10)

/-- **findCrlf_iff**: `findCrlf` returns exactly the position of the first CRLF -/
theorem findCrlf_iff : ∀ (b : Bytes) (loc : Nat), findCrlf b = some loc ↔ IsFirstCrlf b loc
  | [], loc => by simp [findCrlf, IsFirstCrlf]
  | [a], loc => by simp [findCrlf, IsFirstCrlf]
  | a :: c :: r, loc => by
    have ih := findCrlf_iff (c :: r)
    unfold findCrlf
    by_cases h : (a = 13 && c = 10) = true
    · rw [if_pos h]
      simp only [Bool.and_eq_true, decide_eq_true_eq] at h
      constructor
      · intro e; cases e
        exact ⟨by simp [h.1], by simp [h.2], fun j hj => by omega⟩
      · intro ⟨_, _, h3⟩
        cases loc with
        | zero => rfl
        | succ k => exact absurd ⟨by simp [h.1], by simp [h.2]⟩ (h3 0 (by omega))
    · rw [if_neg h]
      simp only [Bool.and_eq_true, decide_eq_true_eq] at h
      constructor
      · intro e
        cases hk : findCrlf (c :: r) with
        | none => rw [hk] at e; cases e
        | some k =>
          rw [hk] at e
          simp only [Option.map_some, Option.some.injEq] at e
          subst e
          obtain ⟨h1, h2, h3⟩ := (ih k).mp hk
          refine ⟨by simpa using h1, by simpa using h2, ?_⟩
          intro j hj
          cases j with
          | zero => simpa using h
          | succ j' => simpa using h3 j' (by omega)
      · intro ⟨h1, h2, h3⟩
        cases loc with
        | zero => exact absurd (by simpa using And.intro h1 h2) h
        | succ k =>
          have : IsFirstCrlf (c :: r) k :=
            ⟨by simpa using h1, by simpa using h2, fun j hj => by simpa using h3 (j + 1) (by omega)⟩
          rw [(ih k).mpr this]
          rfl

/-- no CRLF at all -/
theorem findCrlf_none_iff (b : Bytes) : findCrlf b = none ↔ ∀ j, ¬ (b[j]? = some 13 ∧ b[j + 1]? = some 10) := by
  constructor
  · intro h j hj
    -- take the least such position
    have : ∃ loc, IsFirstCrlf b loc := by
      induction j using Nat.strongRecOn with
      | ind j ihj =>
        by_cases hex : ∃ i, i < j ∧ (b[i]? = some 13 ∧ b[i + 1]? = some 10)
        · obtain ⟨i, hi, hc⟩ := hex; exact ihj i hi hc
        · exact ⟨j, hj.1, hj.2, fun i hi hc => hex ⟨i, hi, hc⟩⟩
    obtain ⟨loc, hl⟩ := this
    rw [(findCrlf_iff b loc).mpr hl] at h
    cases h
  · intro h
    cases hf : findCrlf b with
    | none => rfl
    | some loc =>
      obtain ⟨h1, h2, _⟩ := (findCrlf_iff b loc).mp hf
      exact absurd ⟨h1, h2⟩ (h loc)

/-! ### `parse_hex_int`: `[0-9a-fA-F]+`, value in base 16 -/

def hexVal (ds : List Nat) (a0 : Nat) : Nat := ds.foldl (fun a d => a * 16 + d) a0

theorem hexFold_none (s : Bytes) :
    s.foldl (fun a c => match a, hexDigitVal c with | some a, some d => some (a * 16 + d) | _, _ => none) none
      = none := by
  induction s with
  | nil => rfl
  | cons c cs ih => simpa [List.foldl_cons] using ih

def digitOf (c : Nat) : Nat := (hexDigitVal c).getD 0

theorem hexFold_iff : ∀ (s : Bytes) (a0 n : Nat),
    s.foldl (fun a c => match a, hexDigitVal c with | some a, some d => some (a * 16 + d) | _, _ => none) (some a0)
      = some n ↔
    (∀ c ∈ s, (hexDigitVal c).isSome = true) ∧ n = hexVal (s.map digitOf) a0
  | [], a0, n => by
    simp only [List.foldl_nil, Option.some.injEq, List.map_nil, hexVal]
    constructor
    · intro e; exact ⟨by simp, e.symm⟩
    · rintro ⟨_, hn⟩; exact hn.symm
  | c :: cs, a0, n => by
    simp only [List.foldl_cons]
    cases hd : hexDigitVal c with
    | none =>
      simp only
      rw [hexFold_none]
      constructor
      · intro e; cases e
      · rintro ⟨hf, _⟩
        have := hf c (by simp)
        rw [hd] at this; cases this
    | some d =>
      simp only
      rw [hexFold_iff cs (a0 * 16 + d) n]
      have hdo : digitOf c = d := by simp [digitOf, hd]
      constructor
      · rintro ⟨hf, hn⟩
        refine ⟨?_, by simpa [hexVal, hdo] using hn⟩
        intro x hx
        rcases List.mem_cons.mp hx with e | e
        · subst e; simp [hd]
        · exact hf x e
      · rintro ⟨hf, hn⟩
        exact ⟨fun x hx => hf x (List.mem_cons_of_mem _ hx), by simpa [hexVal, hdo] using hn⟩

/-- **parseHex_iff**: the chunk-size line is accepted exactly when it is a non-empty string of hexadecimal digits
    (either case; no sign, no `0x`, no `_`, no blanks), and the value is the base-16 value of those digits -/
theorem parseHex_iff (s : Bytes) (n : Nat) :
    parseHex s = some n ↔
      s ≠ [] ∧ (∀ c ∈ s, (hexDigitVal c).isSome = true) ∧ n = hexVal (s.map digitOf) 0 := by
  unfold parseHex
  cases s with
  | nil => simp
  | cons c cs =>
    simp only [List.isEmpty_cons, Bool.false_eq_true, if_false, ne_eq, reduceCtorEq, not_false_eq_true, true_and]
    exact hexFold_iff (c :: cs) 0 n

/-- the digit table -/
theorem hexDigitVal_iff (c d : Nat) : hexDigitVal c = some d ↔
    (48 ≤ c ∧ c ≤ 57 ∧ d = c - 48) ∨ (97 ≤ c ∧ c ≤ 102 ∧ d = c - 87) ∨ (65 ≤ c ∧ c ≤ 70 ∧ d = c - 55) := by
  unfold hexDigitVal
  split
  · rename_i h; simp only [Bool.and_eq_true, decide_eq_true_eq] at h; simp only [Option.some.injEq]; omega
  · rename_i h
    simp only [Bool.and_eq_true, decide_eq_true_eq] at h
    split
    · rename_i h2; simp only [Bool.and_eq_true, decide_eq_true_eq] at h2; simp only [Option.some.injEq]; omega
    · rename_i h2
      simp only [Bool.and_eq_true, decide_eq_true_eq] at h2
      split
      · rename_i h3; simp only [Bool.and_eq_true, decide_eq_true_eq] at h3; simp only [Option.some.injEq]; omega
      · rename_i h3; simp only [Bool.and_eq_true, decide_eq_true_eq] at h3
        constructor
        · intro e; cases e
        · omega

example : parseHex ("1aF".toList.map Char.toNat) = some 431 := by decide
example : parseHex ("+5".toList.map Char.toNat) = none ∧ parseHex ("0x5".toList.map Char.toNat) = none ∧
    parseHex ("5_0".toList.map Char.toNat) = none ∧ parseHex (" 5".toList.map Char.toNat) = none ∧ parseHex [] = none := by
  decide
example : findCrlf [65, 13, 13, 10, 13, 10] = some 2 := by decide

/-! ### the end of the header block: leftmost match of `\r?\n\r?\n` -/

/-- the four strings `\r?\n\r?\n` matches -/
def headTerms : List Bytes := [[13, 10, 13, 10], [13, 10, 10], [10, 13, 10], [10, 10]]

/-- `headHere` (the anchored match) succeeds exactly when one of the four terminators is a prefix, and returns its length -/
theorem headHere_iff (b : Bytes) (n : Nat) :
    headHere b = some n ↔ ∃ t ∈ headTerms, t <+: b ∧ n = t.length := by
  constructor
  · intro h
    unfold headHere at h
    split at h
    · cases h; exact ⟨[13, 10, 13, 10], by simp [headTerms], by simp, rfl⟩
    · cases h; exact ⟨[13, 10, 10], by simp [headTerms], by simp, rfl⟩
    · cases h; exact ⟨[10, 13, 10], by simp [headTerms], by simp, rfl⟩
    · cases h; exact ⟨[10, 10], by simp [headTerms], by simp, rfl⟩
    · cases h
  · rintro ⟨t, ht, ⟨r, rfl⟩, rfl⟩
    simp only [headTerms, List.mem_cons, List.not_mem_nil, or_false] at ht
    rcases ht with rfl | rfl | rfl | rfl <;> simp [headHere]

/-- **findHeadEnd_iff**: `findHeadEnd` returns the end offset of the leftmost position at which `\r?\n\r?\n` matches -/
theorem findHeadEnd_iff : ∀ (b : Bytes) (e : Nat), findHeadEnd b = some e ↔
    ∃ i n, headHere (b.drop i) = some n ∧ e = i + n ∧ ∀ j, j < i → headHere (b.drop j) = none
  | [], e => by
    simp [findHeadEnd, headHere]
  | c :: cs, e => by
    have ih := findHeadEnd_iff cs
    rw [findHeadEnd_cons]
    cases hh : headHere (c :: cs) with
    | some n =>
      simp only [Option.some.injEq]
      constructor
      · intro h; subst h; exact ⟨0, n, by simpa using hh, by omega, fun j hj => by omega⟩
      · rintro ⟨i, n', h1, h2, h3⟩
        cases i with
        | zero => simp only [List.drop_zero] at h1; rw [hh] at h1; cases h1; omega
        | succ k => have := h3 0 (by omega); simp only [List.drop_zero] at this; rw [hh] at this; cases this
    | none =>
      simp only
      constructor
      · intro h
        cases hf : findHeadEnd cs with
        | none => rw [hf] at h; cases h
        | some e' =>
          rw [hf] at h
          simp only [Option.map_some, Option.some.injEq] at h
          obtain ⟨i, n, h1, h2, h3⟩ := (ih e').mp hf
          refine ⟨i + 1, n, by simpa using h1, by omega, ?_⟩
          intro j hj
          cases j with
          | zero => simpa using hh
          | succ j' => simpa using h3 j' (by omega)
      · rintro ⟨i, n, h1, h2, h3⟩
        cases i with
        | zero => simp only [List.drop_zero] at h1; rw [hh] at h1; cases h1
        | succ k =>
          have : findHeadEnd cs = some (k + n) :=
            (ih (k + n)).mpr ⟨k, n, by simpa using h1, rfl, fun j hj => by simpa using h3 (j + 1) (by omega)⟩
          rw [this]
          simp only [Option.map_some, Option.some.injEq]
          omega

example : findHeadEnd ("HTTP/1.1 200 OK\r\nA: b\n\r\nxyz\r\n\r\n".toList.map Char.toNat) = some 24 := by decide

end TornadoModel.C08
