/- C08 driver:
   `C08 run  [head,decompress,maxBody] [seg,…] eof gz`   → `ok [code,reason,[[k,v],…],body]` | `ok ERR kind`
   `C08 spec [head,decompress,maxBody] stream eof gz`     → `ok [code,…]` | `ok REJECT`
   `C08 raw  [head,decompress,maxBody] [seg,…] eof`       → `ok xRAW` | `ok ~`   (body handed to the decompressor)
   `C08 status <text>`                                    → `ok [version,code,reason]` | `ok REJECT`
   `C08 pieces [head,decompress,maxBody] [seg,…] eof`     → `ok [[gz,xCHUNK],…]`   (the data_received calls of the fetch)
   `C08 streamed [head,decompress,maxBody] [seg,…] eof tbl` → `ok [n,…]`   (lengths of the streaming_callback deliveries)
   tbl = `[[call,…],…]`, one entry per non-empty chunk reaching the decompressor; call = `[n,more]` | `E`
   gz = `~` | `[xraw,xout,status]` (graph of the zlib oracle at one point) -/
import TornadoModel.Base.Wire
import TornadoModel.C08.Spec
import TornadoModel.C08.Stream
namespace TornadoModel.C08.Drv
open TornadoModel TornadoModel.Wire TornadoModel.C06 TornadoModel.C08

def decCfg (v : V) : Option Cfg := do
  match ← v.list? with
  | [a, b, c] => pure { isHead := ← a.bool?, decompress := ← b.bool?, maxBody := ← c.nat? }
  | _ => none

def decStatus : String → Option GzStatus
  | "complete" => some .complete
  | "trunc" => some .trunc
  | "trail" => some .trail
  | "bad" => some .bad
  | _ => none

def decZ (v : V) : Option (Bytes → GzRes) :=
  if v.isNone then some (fun _ => ⟨[], .missing⟩)
  else do
    match ← v.list? with
    | [r, o, s] =>
      let raw ← r.byteNats?
      let out ← o.byteNats?
      let st ← decStatus (← s.atom?)
      pure (fun x => if x = raw then ⟨out, st⟩ else ⟨[], .missing⟩)
    | _ => none

def decCall (v : V) : Option ZCall :=
  match v with
  | .atom "E" => some .error
  | .list [n, m] => do pure (.out (← n.nat?) (← m.bool?))
  | _ => none

def decTbl (v : V) : Option (List (List ZCall)) := do
  (← v.list?).mapM (fun e => do (← e.list?).mapM decCall)

def encKind : ErrKind → String
  | .closed => "closed"
  | .timeout => "timeout"
  | .quiet => "quiet"
  | .oracle => "oracle"

def encPairs (ps : List (Str × Str)) : V := .list (ps.map (fun (k, v) => .list [V.ofCps k, V.ofCps v]))

def encRes : Res → List V
  | .ok c r h b => [.list [.int c, V.ofCps r, encPairs h, V.ofByteNats b]]
  | .err k => [.atom "ERR", .atom (encKind k)]

def handle (toks : List String) : String :=
  match toks.mapM V.parse with
  | none => err "bad-arg"
  | some args =>
    match args with
    | [.atom "run", c, s, e, g] =>
      match decCfg c, s.list? >>= (·.mapM V.byteNats?), e.bool?, decZ g with
      | some cfg, some segs, some eof, some Z => ok (encRes (run cfg Z segs eof))
      | _, _, _, _ => err "bad-arg"
    | [.atom "spec", c, s, e, g] =>
      match decCfg c, s.byteNats?, e.bool?, decZ g with
      | some cfg, some st, some eof, some Z =>
        match Spec.readAll cfg Z st eof with
        | some r => ok (encRes r)
        | none => ok [.atom "REJECT"]
      | _, _, _, _ => err "bad-arg"
    | [.atom "strict", c, s, e, g] =>
      match decCfg c, s.byteNats?, e.bool?, decZ g with
      | some cfg, some st, some eof, some Z =>
        match Spec.strictReadAll cfg Z st eof with
        | some r => ok (encRes r)
        | none => ok [.atom "REJECT"]
      | _, _, _, _ => err "bad-arg"
    | [.atom "raw", c, s, e] =>
      match decCfg c, s.list? >>= (·.mapM V.byteNats?), e.bool? with
      | some cfg, some segs, some eof => ok [V.ofOpt V.ofByteNats (rawGzBody cfg segs eof)]
      | _, _, _ => err "bad-arg"
    | [.atom "pieces", c, s, e] =>
      match decCfg c, s.list? >>= (·.mapM V.byteNats?), e.bool? with
      | some cfg, some segs, some eof =>
        ok [.list ((pieces cfg segs eof).map (fun (g, p) => .list [V.ofBool g, V.ofByteNats p]))]
      | _, _, _ => err "bad-arg"
    | [.atom "streamed", c, s, e, t] =>
      match decCfg c, s.list? >>= (·.mapM V.byteNats?), e.bool?, decTbl t with
      | some cfg, some segs, some eof, some tbl => ok [.list ((streamed cfg segs eof tbl).map V.ofNat)]
      | _, _, _, _ => err "bad-arg"
    | [.atom "status", t] =>
      match t.cps? with
      | some l =>
        match parseStatusLine l with
        | some (v, c, r) => ok [.list [V.ofCps v, .int c, V.ofCps r]]
        | none => ok [.atom "REJECT"]
      | none => err "bad-arg"
    | _ => err "bad-cmd"

end TornadoModel.C08.Drv
