/- C05 driver: `C05 run <cfg> <events>` → `ok [[[item,…],closed],…] <pc>`;  `C05 spec <trace-items> <cfg>` (oracle)
   cfg   = [nka,bt,wireLen,[req,…]]      req = [ver11,conn|~,method,framing,badTE,hlen,[seg,…],[h,d,f,resp,cc,actFin]]
   seg   = [atom,n] | [data,n] | [err]     event = [feed,n] | [eof] | [reset] | [timer] | [resH] | [resD] | [respond] | [closeall] -/
import TornadoModel.Base.Wire
import TornadoModel.C05.Spec
namespace TornadoModel.C05.Drv
open TornadoModel TornadoModel.Wire TornadoModel.C05 TornadoModel.C03

def decMethod : V → Option Method
  | .atom "GET" => some .get | .atom "HEAD" => some .head | .atom "POST" => some .post | .atom "PUT" => some .put
  | _ => none
def decFraming : V → Option Framing
  | .atom "none" => some .none | .atom "cl" => some .cl | .atom "chunked" => some .chunked | _ => none
def decResp : V → Option Resp
  | .atom "cl" => some .cl | .atom "stream" => some .stream | .atom "s204" => some .s204 | .atom "s304" => some .s304
  | _ => none
def decSeg (v : V) : Option Seg :=
  match v with
  | .list [.atom "atom", n] => n.nat?.map Seg.atom
  | .list [.atom "line", n] => n.nat?.map Seg.line
  | .list [.atom "data", n] => n.nat?.map Seg.data
  | .list [.atom "err"] => some .err
  | _ => none
def decScript (v : V) : Option Script :=
  match v with
  | .list [.atom h, .atom d, .atom f, r, .atom cc, af] => do
    let h ← match h with
      | "sync" => some HMode.sync | "async" => some .async | "detach" => some .detach | "early" => some .early
      | "raise" => some .raise | _ => none
    let d ← match d with | "sync" => some DMode.sync | "async" => some .async | "raise" => some .raise | _ => none
    let f ← match f with | "now" => some FMode.now | "later" => some .later | "raise" => some .raise | _ => none
    let cc ← match cc with | "headers" => some CcAt.headers | "finish" => some .finish | "never" => some .never | _ => none
    pure { h := h, d := d, f := f, resp := (← decResp r), cc := cc, actFin := (← af.bool?) }
  | _ => none
def decConn (v : V) : Option (Option Str) := if v.isNone then some none else v.cps?.map some
def decReq (v : V) : Option Request :=
  match v with
  | .list [v11, conn, m, fr, bte, hlen, .list segs, sc] => do
    pure { req := { ver11 := (← v11.bool?), conn := (← decConn conn), method := (← decMethod m), framing := (← decFraming fr) },
           badTE := (← bte.bool?), hlen := (← hlen.nat?), segs := (← segs.mapM decSeg), sc := (← decScript sc) }
  | _ => none
def decCfg (v : V) : Option Cfg :=
  match v with
  | .list [nka, bt, wl, .list reqs] => do
    pure { nka := (← nka.bool?), bt := (← bt.bool?), wireLen := (← wl.nat?), reqs := (← reqs.mapM decReq) }
  | _ => none
def decEv (v : V) : Option Ev :=
  match v with
  | .list [.atom "feed", n] => n.nat?.map Ev.feed
  | .list [.atom "eof"] => some .eof
  | .list [.atom "reset"] => some .reset
  | .list [.atom "timer"] => some .timer
  | .list [.atom "resH"] => some .resH
  | .list [.atom "resD"] => some .resD
  | .list [.atom "respond"] => some .respond
  | .list [.atom "closeall"] => some .closeall
  | _ => none

def encConnOut : ConnOut → V | .absent => .none | .close => .atom "close" | .keepAlive => .atom "Keep-Alive"
def encOut : Out → V
  | .start i => .list [.atom "start", .int i]
  | .headers i => .list [.atom "headers", .int i]
  | .data i n => .list [.atom "data", .int i, .int n]
  | .finish i => .list [.atom "finish", .int i]
  | .close i => .list [.atom "close", .int i]
  | .cc i => .list [.atom "cc", .int i]
  | .respond i => .list [.atom "respond", .int i]
  | .detach i => .list [.atom "detach", .int i]
  | .onclose => .list [.atom "onclose"]
  | .resp st c ch cl => .list [.atom "resp", .int st, encConnOut c, V.ofBool ch, V.ofBool cl]
  | .fuelOut => .list [.atom "fuelOut"]
def decOut (v : V) : Option Out :=
  match v with
  | .list [.atom "start", i] => i.nat?.map Out.start
  | .list [.atom "headers", i] => i.nat?.map Out.headers
  | .list [.atom "data", i, n] => do pure (.data (← i.nat?) (← n.nat?))
  | .list [.atom "finish", i] => i.nat?.map Out.finish
  | .list [.atom "close", i] => i.nat?.map Out.close
  | .list [.atom "cc", i] => i.nat?.map Out.cc
  | .list [.atom "respond", i] => i.nat?.map Out.respond
  | .list [.atom "detach", i] => i.nat?.map Out.detach
  | .list [.atom "onclose"] => some .onclose
  | _ => none
def encPc : Pc → V
  | .rdHeaders => .atom "rdHeaders" | .awaitH => .atom "awaitH" | .rdBody => .atom "rdBody" | .awaitD => .atom "awaitD"
  | .awaitFinish => .atom "awaitFinish" | .done => .atom "done" | .stuck => .atom "stuck"

def handle (toks : List String) : String :=
  match toks with
  | ["run", c, e] =>
    match V.parse c >>= decCfg, V.parse e >>= (·.list?) >>= (·.mapM decEv) with
    | some cfg, some evs =>
      let (st, per) := run cfg evs
      ok [.list (per.map (fun (o, cl) => .list [.list (o.map encOut), V.ofBool cl])), encPc st.pc]
    | _, _ => err "bad-arg"
  | ["spec", t, bl, d] =>
    -- oracle: trace items, per-request body lengths, done flag
    match V.parse t >>= (·.list?) >>= (·.mapM decOut), V.parse bl >>= (·.list?) >>= (·.mapM V.nat?), V.parse d >>= V.bool? with
    | some tr, some bls, some dn =>
      ok [.list ((Spec.check tr bls dn).map (fun s => V.str s))]
    | _, _, _ => err "bad-arg"
  | _ => err "bad-line"

end TornadoModel.C05.Drv
