/-
C05 — specification side: what the property demands of a trace of delegate notifications.

For every request index `i` whose delegate received headers and was not detached:
  * `finish i` and `on_connection_close i` occur at most once in total — exactly once when serving is over;
  * the sizes of the delivered body chunks add up to at most the body that was sent, and to exactly the
    whole body when `finish i` was delivered.
(That the delivered *bytes* are the corresponding prefix is checked by the harness on the implementation's
data; the model counts.)
-/
import TornadoModel.C05.Model
namespace TornadoModel.C05.Spec
open TornadoModel.C05

def countFinish (i : Nat) (t : List Out) : Nat := (t.filter (· == .finish i)).length
def countClose (i : Nat) (t : List Out) : Nat := (t.filter (· == .close i)).length
def gotHeaders (i : Nat) (t : List Out) : Bool := t.contains (.headers i)
def detached (i : Nat) (t : List Out) : Bool := t.contains (.detach i)

/-- total number of body bytes delivered to delegate `i` -/
def delivered (i : Nat) : List Out → Nat
  | [] => 0
  | .data j n :: t => (if j = i then n else 0) + delivered i t
  | _ :: t => delivered i t

/-- the notification clause for request `i`; `over` = the serving loop has ended -/
def notifyOk (i : Nat) (t : List Out) (over : Bool) : Bool :=
  !gotHeaders i t || detached i t ||
    (countFinish i t + countClose i t ≤ 1 && (!over || countFinish i t + countClose i t == 1))

/-- the data clause for request `i` with a sent body of `len` bytes -/
def dataOk (i : Nat) (t : List Out) (len : Nat) : Bool :=
  delivered i t ≤ len && (countFinish i t == 0 || delivered i t == len)

/-- list of violated clauses (empty = the trace satisfies the property) -/
def check (t : List Out) (bodyLens : List Nat) (over : Bool) : List String :=
  let idx := List.range (bodyLens.length + 2)
  (idx.filter (fun i => !notifyOk i t over)).map (fun i => s!"notify:{i}") ++
  (idx.filter (fun i => !dataOk i t (bodyLens.getD i 0))).map (fun i => s!"data:{i}") ++
  (if over then [] else ["shutdown"])

end TornadoModel.C05.Spec
