/-
C05 — fuel sufficiency and termination after close, from the ranking function of `Rank.lean`.
-/
import TornadoModel.C05.Rank
namespace TornadoModel.C05

/-- the rank of a run from label `l` in state `st` -/
abbrev rk (cfg : Cfg) (l : Lbl) (st : St) : Nat := rank0 cfg l st.cur st.segs.length

theorem go_rank (cfg : Cfg) : ∀ (fuel : Nat) (l : Lbl) (st : St), rk cfg l st + slack st.s ≤ fuel →
    GP cfg (rk cfg l st) (slack st.s) st.s.closed (go cfg fuel l st) := by
  intro fuel
  induction fuel with
  | zero =>
    intro l st hf
    exfalso
    cases l <;> simp only [rk, rank0] at hf <;> omega
  | succ fuel ih =>
    intro l st hf
    cases l with
    | exit =>
      simp only [go, St.emit]
      exact GP.mk_done rfl (by simp [rk, rank0]) (fun h => h)
    | loopTop =>
      simp only [go, St.emit]
      simp only [rk, rank0] at hf ⊢
      split
      · rename_i hrd
        have ht := tryRead_facts hrd
        have h1 : slack _ ≤ slack st.s := ht.1
        refine (ih _ _ ?_).weaken ?_ ?_ ht.2.1 <;> (simp only [rk, rank0]; omega)
      · rename_i hrd
        have ht := tryRead_facts hrd
        have h1 : slack _ ≤ slack st.s := ht.1
        exact GP.mk_rdHeaders rfl (by simp only; omega) (by simp only; omega) (ht.2.2 rfl) ht.2.1
      · rename_i hrd
        have ht := tryRead_facts hrd
        have h1 : slack _ ≤ slack st.s := ht.1
        refine (ih _ _ ?_).weaken ?_ ?_ ht.2.1 <;> (simp only [rk, rank0]; omega)
    | parsed =>
      simp only [go]
      simp only [rk, rank0] at hf ⊢
      split
      · refine (ih _ _ ?_).weaken ?_ ?_ (fun h => h) <;> (simp only [rk, rank0]; omega)
      · rename_i r _
        split
        · refine (ih _ _ ?_).weaken ?_ ?_ (fun h => h) <;> (simp only [rk, rank0]; omega)
        · split
          · refine (ih _ _ ?_).weaken ?_ ?_ (fun h => h) <;> (simp only [rk, rank0]; omega)
          · exact GP.mk_awaitH rfl (by simp only; omega) (by simp only; omega) (fun h => h)
          · simp only [St.emit]
            refine (ih _ _ ?_).weaken ?_ ?_ (fun h => h) <;> (simp only [rk, rank0]; omega)
          · refine (ih _ _ ?_).weaken ?_ ?_ (fun h => appRespond_closed r _ h) <;>
              (simp only [rk, rank0, appRespond_cur, appRespond_slack]; omega)
          · refine (ih _ _ ?_).weaken ?_ ?_ (fun h => h) <;> (simp only [rk, rank0]; omega)
    | afterH =>
      simp only [go]
      simp only [rk, rank0] at hf ⊢
      split
      · refine (ih _ _ ?_).weaken ?_ ?_ (fun h => h) <;> (simp only [rk, rank0]; omega)
      · rename_i r hr
        have := restSum_some hr
        refine (ih _ _ ?_).weaken ?_ ?_ (fun h => h) <;> (simp only [rk, rank0]; omega)
    | body =>
      simp only [go]
      simp only [rk, rank0] at hf ⊢
      split
      · refine (ih _ _ ?_).weaken ?_ ?_ (fun h => h) <;> (simp only [rk, rank0]; omega)
      · refine (ih _ _ ?_).weaken ?_ ?_ (fun h => h) <;> (simp only [rk, rank0]; omega)
      · rename_i n rest hs
        rw [hs] at hf ⊢
        simp only [List.length_cons] at hf ⊢
        split
        · rename_i hrd
          have ht := tryRead_facts hrd
          have h1 : slack _ ≤ slack st.s := ht.1
          refine (ih _ _ ?_).weaken ?_ ?_ ht.2.1 <;> (simp only [rk, rank0]; omega)
        · rename_i hrd
          have ht := tryRead_facts hrd
          have h1 : slack _ ≤ slack st.s := ht.1
          refine GP.mk_rdBody rfl ?_ ?_ (ht.2.2 rfl) ⟨.atom n, by simp [pendingRead]⟩ ht.2.1 <;>
            (simp only [List.length_cons]; omega)
        · rename_i hrd
          have ht := tryRead_facts hrd
          have h1 : slack _ ≤ slack st.s := ht.1
          refine (ih _ _ ?_).weaken ?_ ?_ ht.2.1 <;> (simp only [rk, rank0]; omega)
      · rename_i n rest hs
        rw [hs] at hf ⊢
        simp only [List.length_cons] at hf ⊢
        split
        · rename_i hrd
          have ht := tryRead_facts hrd
          have h1 : slack _ ≤ slack st.s := ht.1
          refine (ih _ _ ?_).weaken ?_ ?_ ht.2.1 <;> (simp only [rk, rank0]; omega)
        · rename_i hrd
          have ht := tryRead_facts hrd
          have h1 : slack _ ≤ slack st.s := ht.1
          refine GP.mk_rdBody rfl ?_ ?_ (ht.2.2 rfl) ⟨.atom n, by simp [pendingRead]⟩ ht.2.1 <;>
            (simp only [List.length_cons]; omega)
        · rename_i hrd
          have ht := tryRead_facts hrd
          have h1 : slack _ ≤ slack st.s := ht.1
          refine (ih _ _ ?_).weaken ?_ ?_ ht.2.1 <;> (simp only [rk, rank0]; omega)
      · rename_i n rest hs
        rw [hs] at hf ⊢
        simp only [List.length_cons] at hf ⊢
        split
        · refine (ih _ _ ?_).weaken ?_ ?_ (fun h => h) <;> (simp only [rk, rank0]; omega)
        · split
          · rename_i s m hrd
            have ht := tryRead_facts hrd
            have hd := data_step hrd rest
            have hl := short_len n m rest
            split
            · refine (ih _ _ ?_).weaken ?_ ?_ ht.2.1 <;> (simp only [rk, rank0]; omega)
            · simp only [St.emit]
              split
              · exact GP.mk_awaitD rfl (by simp only; omega) (by simp only; omega) ht.2.1
              · refine (ih _ _ ?_).weaken ?_ ?_ ht.2.1 <;> (simp only [rk, rank0]; omega)
              · refine (ih _ _ ?_).weaken ?_ ?_ ht.2.1 <;> (simp only [rk, rank0]; omega)
          · rename_i hrd
            have ht := tryRead_facts hrd
            have h1 : slack _ ≤ slack st.s := ht.1
            refine GP.mk_rdBody rfl ?_ ?_ (ht.2.2 rfl) ⟨.data n, by simp [pendingRead]⟩ ht.2.1 <;>
              (simp only [List.length_cons]; omega)
          · rename_i hrd
            have ht := tryRead_facts hrd
            refine (ih _ _ ?_).weaken ?_ ?_ ht.2.1 <;> (simp only [rk, rank0]; omega)
    | bodyDone =>
      simp only [go]
      simp only [rk, rank0] at hf ⊢
      split
      · refine (ih _ _ ?_).weaken ?_ ?_ (fun h => h) <;> (simp only [rk, rank0]; omega)
      · rename_i r _
        split
        · split
          · refine (ih _ _ ?_).weaken ?_ ?_ (fun h => h) <;> (simp only [rk, rank0]; omega)
          · refine (ih _ _ ?_).weaken ?_ ?_ (fun h => h) <;> (simp only [rk, rank0]; omega)
          · refine (ih _ _ ?_).weaken ?_ ?_ (fun h => appRespond_closed r _ h) <;>
              (simp only [rk, rank0, appRespond_cur, appRespond_slack]; omega)
        · refine (ih _ _ ?_).weaken ?_ ?_ (fun h => h) <;> (simp only [rk, rank0]; omega)
    | afterFinish =>
      simp only [go]
      simp only [rk, rank0] at hf ⊢
      split
      · rename_i hc
        have hnc : st.s.closed = false := by
          cases h : st.s.closed
          · rfl
          · simp [h] at hc
        refine GP.mk_awaitFinish rfl (by simp only; omega) ?_ ?_ ?_ ?_
        · simp only [maybeListen_slack]
          show 7 + restSum cfg (st.cur + 1) + slack st.s ≤ _
          omega
        · simp only [maybeListen_closed]; exact hnc
        · simp only [maybeListen_hasCb]
        · intro h; rw [hnc] at h; cases h
      · split
        · refine (ih _ _ ?_).weaken ?_ ?_ (fun h => by simpa using h) <;>
            (simp only [rk, rank0, finallyRM_slack]; omega)
        · refine (ih _ _ ?_).weaken ?_ ?_ (fun h => by simpa using h) <;>
            (simp only [rk, rank0, finallyRM_slack, finallyRM_cur]; omega)
    | err400 =>
      simp only [go]
      simp only [rk, rank0] at hf ⊢
      split
      · refine (ih _ _ ?_).weaken ?_ ?_ (fun h => by simpa using h) <;>
          (simp only [rk, rank0, finallyRM_slack]; omega)
      · simp only [St.emit]
        refine (ih _ _ ?_).weaken ?_ ?_ (fun _ => by simp only [finallyRM_closed]; exact close_closed _) <;>
          (simp only [rk, rank0, finallyRM_slack, close_slack]; first | omega | (show _ + slack st.s ≤ _; omega))
    | excClosed =>
      simp only [go]
      simp only [rk, rank0] at hf ⊢
      refine (ih _ _ ?_).weaken ?_ ?_ (fun h => by simpa using h) <;>
        (simp only [rk, rank0, finallyRM_slack]; omega)
    | excQuiet =>
      simp only [go]
      simp only [rk, rank0] at hf ⊢
      refine (ih _ _ ?_).weaken ?_ ?_ (fun _ => close_closed _) <;>
        (simp only [rk, rank0, finallyRM_slack, close_slack]; omega)

end TornadoModel.C05
