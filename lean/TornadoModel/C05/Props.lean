import TornadoModel.C05.Spec
namespace TornadoModel.C05
theorem stub : Spec.delivered 0 [] = 0 := rfl
end TornadoModel.C05
