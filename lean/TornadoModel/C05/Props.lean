/-
C05 — property theorems about the connection machine `TornadoModel.C05.Model` (all event sequences, all request
pipelines, all delegate scripts, any fuel).
-/
import TornadoModel.C05.Inv
import TornadoModel.C05.Data
import TornadoModel.C05.Close
namespace TornadoModel.C05
open Spec

/-- **Exactly one finish-or-close notification.**  For every configuration and every event sequence: a delegate
that received headers and was not detached has been told `finish` or `on_connection_close` at most once in
total (hence never both), and exactly once as soon as the serving loop has ended. -/
theorem notify_exactly_once (cfg : Cfg) (evs : List Ev) (i : Nat)
    (hh : gotHeaders i (trace cfg evs) = true) (hd : detached i (trace cfg evs) = false) :
    countFinish i (trace cfg evs) + countClose i (trace cfg evs) ≤ 1 ∧
    ((exec cfg evs).pc = .done → countFinish i (trace cfg evs) + countClose i (trace cfg evs) = 1) := by
  have h := exec_inv cfg evs
  unfold trace at *
  generalize exec cfg evs = st at *
  obtain ⟨hm, _, hdone, _⟩ := h
  have settled_case : Settled i st.out →
      countFinish i st.out + countClose i st.out ≤ 1 ∧
      (st.pc = .done → countFinish i st.out + countClose i st.out = 1) := by
    intro hs
    exact ⟨hs.1, fun _ => hs.2 hh hd⟩
  rcases Nat.lt_trichotomy i st.cur with hlt | heq | hgt
  · exact settled_case (hm.past i hlt)
  · subst heq
    cases hn : st.needClose
    · have := hm.now; rw [hn] at this; exact settled_case (by simpa using this)
    · have := hm.now; rw [hn] at this
      simp only [if_true] at this
      have hc : cnt st.cur st.out = 0 := congrArg Summ.n this
      unfold cnt at hc
      refine ⟨by omega, fun hp => ?_⟩
      rw [hdone hp] at hn; cases hn
  · have := hm.future i hgt
    have hq : gotHeaders i st.out = false := congrArg Summ.h this
    rw [hq] at hh; cases hh

/-- never both -/
theorem never_both (cfg : Cfg) (evs : List Ev) (i : Nat)
    (hh : gotHeaders i (trace cfg evs) = true) (hd : detached i (trace cfg evs) = false)
    (hf : 0 < countFinish i (trace cfg evs)) : countClose i (trace cfg evs) = 0 := by
  have := (notify_exactly_once cfg evs i hh hd).1
  omega

/-- the oracle clause the harness applies to the implementation holds of every model run -/
theorem notify_spec (cfg : Cfg) (evs : List Ev) (i : Nat) :
    notifyOk i (trace cfg evs) ((exec cfg evs).pc == .done) = true := by
  unfold notifyOk
  cases hh : gotHeaders i (trace cfg evs)
  · simp
  · cases hd : detached i (trace cfg evs)
    · have := notify_exactly_once cfg evs i hh hd
      simp only [Bool.not_true, Bool.false_or, Bool.and_eq_true, decide_eq_true_eq, Bool.or_eq_true,
        Bool.not_eq_true', beq_iff_eq]
      refine ⟨this.1, ?_⟩
      by_cases hp : (exec cfg evs).pc = .done
      · exact Or.inr (this.2 hp)
      · exact Or.inl (by simpa using hp)
    · simp

/-- no notification ever concerns a request the loop has not reached -/
theorem no_notification_ahead (cfg : Cfg) (evs : List Ev) (i : Nat) (h : (exec cfg evs).cur < i) :
    gotHeaders i (trace cfg evs) = false ∧ countFinish i (trace cfg evs) + countClose i (trace cfg evs) = 0 := by
  have hq := (exec_inv cfg evs).1.future i h
  exact ⟨congrArg Summ.h hq, congrArg Summ.n hq⟩

/-! ### non-vacuity: concrete runs in which a delegate gets headers and the loop ends -/

def exReq : Request :=
  { req := ⟨true, none, .post, .cl⟩, badTE := false, hlen := 10, segs := [.data 5],
    sc := { h := .sync, d := .sync, f := .later, resp := .cl, cc := .headers, actFin := false } }
def exCfg : Cfg := { nka := false, bt := false, wireLen := 15, reqs := [exReq] }

-- peer closes in the middle of the body: one `close`, no `finish`
example : trace exCfg [.feed 12, .eof] =
    [.start 0, .headers 0, .data 0 2, .close 0, .onclose] ∧ (exec exCfg [.feed 12, .eof]).pc = .done := by decide
-- whole body, response, then EOF: one `finish`
example : gotHeaders 0 (trace exCfg [.feed 15, .respond, .eof]) = true ∧
    countFinish 0 (trace exCfg [.feed 15, .respond, .eof]) = 1 ∧
    countClose 0 (trace exCfg [.feed 15, .respond, .eof]) = 0 ∧
    (exec exCfg [.feed 15, .respond, .eof]).pc = .done := by decide

/-! ### the data clause -/

/-- **Delivered data is a prefix of the sent body, and the whole body on `finish`.**  For every configuration and
event sequence: the sizes of the chunks handed to the delegate of request `i` add up to at most the payload of
the body that was sent for it, and to exactly that payload when `finish i` was delivered
(invariant `exec_d`: delivered + payload of the reads still to do = payload sent, as long as the response has
not been written). -/
theorem data_prefix :
  ∀ (cfg : Cfg) (evs : List Ev) (i : Nat) (r : Request), cfg.reqs[i]? = some r →
    dataOk i (trace cfg evs) ((r.segs.map (fun s => match s with | .data n => n | _ => 0)).sum) = true := by
  intro cfg evs i r hr
  have e : (r.segs.map (fun s => match s with | .data n => n | _ => 0)).sum = dsum r.segs := dsum_eq r.segs
  rw [e, dataOk_iff]
  have hD : D cfg i = dsum r.segs := by simp [D, Cfg.req?, hr]
  have h := (exec_d cfg evs).to2
  unfold trace
  generalize exec cfg evs = st at h
  rcases Nat.lt_trichotomy i st.cur with hlt | heq | hgt
  · have := h.1.past i hlt; rwa [hD] at this
  · subst heq; have := h.2; rwa [hD] at this
  · have := h.1.future i hgt
    exact ⟨by omega, Or.inl this.2⟩

/-- in terms of the numbers themselves -/
theorem delivered_le_sent (cfg : Cfg) (evs : List Ev) (i : Nat) (r : Request) (hr : cfg.reqs[i]? = some r) :
    delivered i (trace cfg evs) ≤ dsum r.segs ∧
    (0 < countFinish i (trace cfg evs) → delivered i (trace cfg evs) = dsum r.segs) := by
  have h := data_prefix cfg evs i r hr
  have e : (r.segs.map (fun s => match s with | .data n => n | _ => 0)).sum = dsum r.segs := dsum_eq r.segs
  rw [e, dataOk_iff] at h
  exact ⟨h.1, fun hf => by rcases h.2 with h0 | h0 <;> omega⟩

-- non-vacuity: a request with a body, cut in the middle (2 of 5 bytes delivered), and served completely (5 of 5)
example : exCfg.reqs[0]? = some exReq ∧ dsum exReq.segs = 5 ∧
    delivered 0 (trace exCfg [.feed 12, .eof]) = 2 ∧ countFinish 0 (trace exCfg [.feed 12, .eof]) = 0 ∧
    delivered 0 (trace exCfg [.feed 12, .feed 3]) = 5 ∧ countFinish 0 (trace exCfg [.feed 12, .feed 3]) = 1 := by
  decide

/-! ### termination -/

/-- **The fuel of the model is always enough**: the coroutine never runs out of fuel (`pc = stuck`, `fuelOut`
are unreachable), for every configuration and event sequence (ranking function `rank0 + slack`, `go_rank`). -/
theorem never_stuck (cfg : Cfg) (evs : List Ev) : (exec cfg evs).pc ≠ .stuck := (exec_good cfg evs).ns

/-- **Ranking function.**  In every reachable state whose stream is closed and whose serving loop is not over,
settling the application's awaitables (`resH`, `resD`) strictly decreases the measure `M`
(= rank of the label the coroutine resumes at + `slack` of the read buffer; `M = 0` iff `pc = done`),
which is bounded by `fuelFor cfg`. -/
theorem settle_decreases (cfg : Cfg) (evs : List Ev) (hc : (exec cfg evs).s.closed = true)
    (hd : (exec cfg evs).pc ≠ .done) :
    M cfg (exec cfg (evs ++ [.resH, .resD])) < M cfg (exec cfg evs) ∧ M cfg (exec cfg evs) ≤ fuelFor cfg := by
  have g := exec_good cfg evs
  have hx : exec cfg (evs ++ [.resH, .resD]) = step cfg (step cfg (exec cfg evs) .resH) .resD := by
    simp [exec, List.foldl_append]
  rw [hx]
  generalize exec cfg evs = st at *
  have g1 := step_good cfg st .resH g
  have m1 := resH_M cfg st g hc
  have m2 := resD_M cfg _ g1.1 (g1.2 hc)
  refine ⟨?_, ?_⟩
  · rcases g.cl hc with e | e | e
    · exact absurd e hd
    · have := m1.2 e; omega
    · have h1 : step cfg st .resH = st := by simp [step, e]
      rw [h1] at m2 ⊢
      exact m2.2 e
  · have := g.rk
    have := slack_le st.s
    unfold M; split <;> omega

/-- **Closing completes.**  From every reachable state: once every server connection is closed
(`close_all_connections`) and the awaitables returned by the application settle, the serving loop reaches `done`
— within `fuelFor cfg` rounds (`settle_done`: `M ≤ fuelFor cfg` and each round decreases `M`). -/
theorem close_terminates :
  ∀ (cfg : Cfg) (evs : List Ev),
    (exec cfg (evs ++ .closeall :: (List.replicate (fuelFor cfg) [Ev.resH, Ev.resD]).flatten)).pc = .done := by
  intro cfg evs
  have g := exec_good cfg evs
  unfold exec at *
  rw [List.foldl_append, List.foldl_cons]
  generalize List.foldl (step cfg) (init cfg) evs = st at g
  have g1 := step_good cfg st .closeall g
  refine settle_done cfg _ _ g1.1 (closeall_closed cfg st g) ?_
  have := g1.1.rk
  have := slack_le (step cfg st .closeall).s
  unfold M; split <;> omega

-- non-vacuity: an application whose `data_received` is asynchronous; the stream is closed while the loop waits for
-- it (`awaitD`), the loop is not over until the awaitable settles, and the measure is 10 and drops to 0
def exCfgA : Cfg :=
  { exCfg with reqs := [{ exReq with sc := { exReq.sc with d := .async } }] }
example : (exec exCfgA [.feed 12]).pc = .awaitD ∧
    (exec exCfgA [.feed 12, .closeall]).pc = .awaitD ∧ (exec exCfgA [.feed 12, .closeall]).s.closed = true ∧
    M exCfgA (exec exCfgA [.feed 12, .closeall]) = 10 ∧
    (exec exCfgA ([.feed 12, .closeall] ++ [.resH, .resD])).pc = .done := by decide

end TornadoModel.C05
