/-
C05 — property theorems about the connection machine `TornadoModel.C05.Model` (all event sequences, all request
pipelines, all delegate scripts, any fuel).
-/
import TornadoModel.C05.Inv
namespace TornadoModel.C05
open Spec

/-- **Exactly one finish-or-close notification.**  For every configuration and every event sequence: a delegate
that received headers and was not detached has been told `finish` or `on_connection_close` at most once in
total (hence never both), and exactly once as soon as the serving loop has ended. -/
theorem notify_exactly_once (cfg : Cfg) (evs : List Ev) (i : Nat)
    (hh : gotHeaders i (trace cfg evs) = true) (hd : detached i (trace cfg evs) = false) :
    countFinish i (trace cfg evs) + countClose i (trace cfg evs) ≤ 1 ∧
    ((exec cfg evs).pc = .done → countFinish i (trace cfg evs) + countClose i (trace cfg evs) = 1) := by
  have h := exec_inv cfg evs
  unfold trace at *
  generalize exec cfg evs = st at *
  obtain ⟨hm, _, hdone, _⟩ := h
  have settled_case : Settled i st.out →
      countFinish i st.out + countClose i st.out ≤ 1 ∧
      (st.pc = .done → countFinish i st.out + countClose i st.out = 1) := by
    intro hs
    exact ⟨hs.1, fun _ => hs.2 hh hd⟩
  rcases Nat.lt_trichotomy i st.cur with hlt | heq | hgt
  · exact settled_case (hm.past i hlt)
  · subst heq
    cases hn : st.needClose
    · have := hm.now; rw [hn] at this; exact settled_case (by simpa using this)
    · have := hm.now; rw [hn] at this
      simp only [if_true] at this
      have hc : cnt st.cur st.out = 0 := congrArg Summ.n this
      unfold cnt at hc
      refine ⟨by omega, fun hp => ?_⟩
      rw [hdone hp] at hn; cases hn
  · have := hm.future i hgt
    have hq : gotHeaders i st.out = false := congrArg Summ.h this
    rw [hq] at hh; cases hh

/-- never both -/
theorem never_both (cfg : Cfg) (evs : List Ev) (i : Nat)
    (hh : gotHeaders i (trace cfg evs) = true) (hd : detached i (trace cfg evs) = false)
    (hf : 0 < countFinish i (trace cfg evs)) : countClose i (trace cfg evs) = 0 := by
  have := (notify_exactly_once cfg evs i hh hd).1
  omega

/-- the oracle clause the harness applies to the implementation holds of every model run -/
theorem notify_spec (cfg : Cfg) (evs : List Ev) (i : Nat) :
    notifyOk i (trace cfg evs) ((exec cfg evs).pc == .done) = true := by
  unfold notifyOk
  cases hh : gotHeaders i (trace cfg evs)
  · simp
  · cases hd : detached i (trace cfg evs)
    · have := notify_exactly_once cfg evs i hh hd
      simp only [Bool.not_true, Bool.false_or, Bool.and_eq_true, decide_eq_true_eq, Bool.or_eq_true,
        Bool.not_eq_true', beq_iff_eq]
      refine ⟨this.1, ?_⟩
      by_cases hp : (exec cfg evs).pc = .done
      · exact Or.inr (this.2 hp)
      · exact Or.inl (by simpa using hp)
    · simp

/-- no notification ever concerns a request the loop has not reached -/
theorem no_notification_ahead (cfg : Cfg) (evs : List Ev) (i : Nat) (h : (exec cfg evs).cur < i) :
    gotHeaders i (trace cfg evs) = false ∧ countFinish i (trace cfg evs) + countClose i (trace cfg evs) = 0 := by
  have hq := (exec_inv cfg evs).1.future i h
  exact ⟨congrArg Summ.h hq, congrArg Summ.n hq⟩

/-! ### non-vacuity: concrete runs in which a delegate gets headers and the loop ends -/

def exReq : Request :=
  { req := ⟨true, none, .post, .cl⟩, badTE := false, hlen := 10, segs := [.data 5],
    sc := { h := .sync, d := .sync, f := .later, resp := .cl, cc := .headers, actFin := false } }
def exCfg : Cfg := { nka := false, bt := false, wireLen := 15, reqs := [exReq] }

-- peer closes in the middle of the body: one `close`, no `finish`
example : trace exCfg [.feed 12, .eof] =
    [.start 0, .headers 0, .data 0 2, .close 0, .onclose] ∧ (exec exCfg [.feed 12, .eof]).pc = .done := by decide
-- whole body, response, then EOF: one `finish`
example : gotHeaders 0 (trace exCfg [.feed 15, .respond, .eof]) = true ∧
    countFinish 0 (trace exCfg [.feed 15, .respond, .eof]) = 1 ∧
    countClose 0 (trace exCfg [.feed 15, .respond, .eof]) = 0 ∧
    (exec exCfg [.feed 15, .respond, .eof]).pc = .done := by decide

/-! ### stated, not proved (checked by the correspondence + oracle only) -/

/-- delivered data never exceeds the sent body and equals it when `finish` was delivered -/
def data_prefix_goal : Prop :=
  ∀ (cfg : Cfg) (evs : List Ev) (i : Nat) (r : Request), cfg.reqs[i]? = some r →
    dataOk i (trace cfg evs) ((r.segs.map (fun s => match s with | .data n => n | _ => 0)).sum) = true

/-- after the stream is closed and the application's awaitables settle, the serving loop is over -/
def close_terminates_goal : Prop :=
  ∀ (cfg : Cfg) (evs : List Ev),
    (exec cfg (evs ++ .closeall :: (List.replicate (fuelFor cfg) [Ev.resH, Ev.resD]).flatten)).pc = .done

end TornadoModel.C05
