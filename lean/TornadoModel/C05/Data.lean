/-
C05 — bytes-consumed bookkeeping: the invariant behind `data_prefix`.

For the request the loop is working on, `delivered cur out + (payload bytes of the reads still to do)` never
exceeds the payload of the body that was sent, and equals it as long as the response has not been written
(`_write_finished = false`: every payload read is handed to `data_received`).  `finish cur` is only emitted
with no reads left and `_write_finished = false`, hence with everything delivered.
-/
import TornadoModel.C05.Inv
namespace TornadoModel.C05
open Spec

/-- payload bytes of a list of body reads -/
def dsum : List Seg → Nat
  | [] => 0
  | .data n :: t => n + dsum t
  | _ :: t => dsum t

theorem dsum_eq (l : List Seg) :
    (l.map (fun s => match s with | .data n => n | _ => 0)).sum = dsum l := by
  induction l with
  | nil => rfl
  | cons a t ih => cases a <;> simp [dsum, ih]

/-- payload length of the body of request `i` -/
def D (cfg : Cfg) (i : Nat) : Nat :=
  match cfg.req? i with | some r => dsum r.segs | none => 0

/-- bytes a single notification delivers to delegate `i` -/
def dval (i : Nat) : Out → Nat
  | .data j n => if j = i then n else 0
  | _ => 0

theorem delivered_append (i : Nat) (t : List Out) (o : Out) :
    delivered i (t ++ [o]) = delivered i t + dval i o := by
  induction t with
  | nil => cases o <;> simp [delivered, dval]
  | cons a t ih => cases a <;> simp [delivered, ih] <;> omega

theorem countFinish_append (i : Nat) (t : List Out) (o : Out) :
    countFinish i (t ++ [o]) = countFinish i t + (if o == .finish i then 1 else 0) := by
  simp only [countFinish, List.filter_append, List.length_append, List.filter_cons, List.filter_nil]
  split <;> simp

/-- notifications that neither deliver data nor are a `finish` -/
def dneutral : Out → Bool
  | .data _ _ => false
  | .finish _ => false
  | _ => true

theorem dneutral_append (i : Nat) (t : List Out) (o : Out) (h : dneutral o = true) :
    delivered i (t ++ [o]) = delivered i t ∧ countFinish i (t ++ [o]) = countFinish i t := by
  rw [delivered_append, countFinish_append]
  cases o <;> simp_all [dneutral, dval]

theorem data_append (i j m : Nat) (t : List Out) :
    delivered i (t ++ [.data j m]) = delivered i t + (if j = i then m else 0) ∧
    countFinish i (t ++ [.data j m]) = countFinish i t := by
  rw [delivered_append, countFinish_append]; simp [dval]

theorem finish_append (i j : Nat) (t : List Out) :
    delivered i (t ++ [.finish j]) = delivered i t ∧
    countFinish i (t ++ [.finish j]) = countFinish i t + (if j = i then 1 else 0) := by
  rw [delivered_append, countFinish_append]; simp [dval]

/-- the data clause, as a proposition -/
def DOk (i : Nat) (t : List Out) (len : Nat) : Prop :=
  delivered i t ≤ len ∧ (countFinish i t = 0 ∨ delivered i t = len)

theorem dataOk_iff (i : Nat) (t : List Out) (len : Nat) : dataOk i t len = true ↔ DOk i t len := by
  simp [dataOk, DOk]

/-- requests ahead untouched, requests behind satisfy the data clause -/
structure DBase (cfg : Cfg) (out : List Out) (cur : Nat) : Prop where
  future : ∀ i, cur < i → delivered i out = 0 ∧ countFinish i out = 0
  past : ∀ i, i < cur → DOk i out (D cfg i)

/-- before the body of the current request -/
def DP0 (cfg : Cfg) (out : List Out) (cur : Nat) : Prop :=
  DBase cfg out cur ∧ delivered cur out = 0 ∧ countFinish cur out = 0

/-- in the body of the current request -/
def DP1 (cfg : Cfg) (out : List Out) (cur : Nat) (segs : List Seg) (wf : Bool) : Prop :=
  DBase cfg out cur ∧ countFinish cur out = 0 ∧ delivered cur out + dsum segs ≤ D cfg cur ∧
  (wf = false → delivered cur out + dsum segs = D cfg cur)

/-- after the body of the current request (or after giving up on it) -/
def DP2 (cfg : Cfg) (out : List Out) (cur : Nat) : Prop :=
  DBase cfg out cur ∧ DOk cur out (D cfg cur)

theorem DBase.neutral {cfg out cur} (h : DBase cfg out cur) (o : Out) (hn : dneutral o = true) :
    DBase cfg (out ++ [o]) cur := by
  refine ⟨fun i hi => ?_, fun i hi => ?_⟩
  · have := dneutral_append i out o hn; rw [this.1, this.2]; exact h.future i hi
  · have := dneutral_append i out o hn; unfold DOk; rw [this.1, this.2]; exact h.past i hi

theorem DP0.neutral {cfg out cur} (h : DP0 cfg out cur) (o : Out) (hn : dneutral o = true) :
    DP0 cfg (out ++ [o]) cur := by
  have := dneutral_append cur out o hn
  exact ⟨h.1.neutral o hn, by rw [this.1]; exact h.2.1, by rw [this.2]; exact h.2.2⟩

theorem DP1.neutral {cfg out cur segs wf} (h : DP1 cfg out cur segs wf) (o : Out) (hn : dneutral o = true) :
    DP1 cfg (out ++ [o]) cur segs wf := by
  have := dneutral_append cur out o hn
  unfold DP1; rw [this.1, this.2]
  exact ⟨h.1.neutral o hn, h.2⟩

theorem DP2.neutral {cfg out cur} (h : DP2 cfg out cur) (o : Out) (hn : dneutral o = true) :
    DP2 cfg (out ++ [o]) cur := by
  have := dneutral_append cur out o hn
  unfold DP2 DOk; rw [this.1, this.2]
  exact ⟨h.1.neutral o hn, h.2⟩

theorem DP0.to2 {cfg out cur} (h : DP0 cfg out cur) : DP2 cfg out cur :=
  ⟨h.1, by rw [DOk, h.2.1]; exact ⟨Nat.zero_le _, Or.inl h.2.2⟩⟩

theorem DP1.to2 {cfg out cur segs wf} (h : DP1 cfg out cur segs wf) : DP2 cfg out cur :=
  ⟨h.1, by have := h.2.2.1; exact ⟨by omega, Or.inl h.2.1⟩⟩

theorem DP1.setWf {cfg out cur segs wf} (h : DP1 cfg out cur segs wf) : DP1 cfg out cur segs true :=
  ⟨h.1, h.2.1, h.2.2.1, fun e => by cases e⟩

/-- the body reads of request `cur` are loaded -/
theorem DP0.start {cfg out cur} (h : DP0 cfg out cur) {r : Request} (hr : cfg.req? cur = some r) (wf : Bool) :
    DP1 cfg out cur r.segs wf := by
  have hD : D cfg cur = dsum r.segs := by simp [D, hr]
  exact ⟨h.1, h.2.2, by rw [h.2.1, hD]; omega, fun _ => by rw [h.2.1, hD]; omega⟩

theorem DP1.skipAtom {cfg out cur n rest wf} (h : DP1 cfg out cur (.atom n :: rest) wf) :
    DP1 cfg out cur rest wf := by simpa [DP1, dsum] using h

theorem DP1.skipLine {cfg out cur n rest wf} (h : DP1 cfg out cur (.line n :: rest) wf) :
    DP1 cfg out cur rest wf := by simpa [DP1, dsum] using h

theorem DP1.skipZero {cfg out cur rest wf} (h : DP1 cfg out cur (.data 0 :: rest) wf) :
    DP1 cfg out cur rest wf := by simpa [DP1, dsum] using h

/-- a payload read that is not handed to the application (response already written) -/
theorem DP1.dataSkip {cfg out cur n rest wf} (h : DP1 cfg out cur (.data n :: rest) wf) (hw : wf = true) (m : Nat) :
    DP1 cfg out cur (if n ≤ m then rest else .data (n - m) :: rest) wf := by
  subst hw
  refine ⟨h.1, h.2.1, ?_, fun e => by cases e⟩
  have := h.2.2.1
  split <;> simp only [dsum] at * <;> omega

/-- a payload read handed to `data_received` -/
theorem DP1.data {cfg out cur n rest wf} (h : DP1 cfg out cur (.data n :: rest) wf) (hw : wf = false) {m : Nat}
    (hm : m ≤ n) :
    DP1 cfg (out ++ [.data cur m]) cur (if n ≤ m then rest else .data (n - m) :: rest) wf := by
  have h3 := h.2.2.2 hw
  have hd := data_append cur cur m out
  simp only [if_true] at hd
  refine ⟨⟨fun i hi => ?_, fun i hi => ?_⟩, by rw [hd.2]; exact h.2.1, ?_, fun _ => ?_⟩
  · have := data_append i cur m out
    rw [this.1, this.2, if_neg (by omega)]; exact h.1.future i hi
  · have := data_append i cur m out
    unfold DOk; rw [this.1, this.2, if_neg (by omega)]; exact h.1.past i hi
  · rw [hd.1]; split <;> simp only [dsum] at * <;> omega
  · rw [hd.1]; split <;> simp only [dsum] at * <;> omega

/-- `finish` is delivered with no reads left and nothing skipped -/
theorem DP1.finish {cfg out cur} (h : DP1 cfg out cur [] false) : DP2 cfg (out ++ [.finish cur]) cur := by
  have h3 := h.2.2.2 rfl
  simp only [dsum] at h3
  have hf := finish_append cur cur out
  refine ⟨⟨fun i hi => ?_, fun i hi => ?_⟩, ?_⟩
  · have := finish_append i cur out
    rw [this.1, this.2, if_neg (by omega)]; exact h.1.future i hi
  · have := finish_append i cur out
    unfold DOk; rw [this.1, this.2, if_neg (by omega)]; exact h.1.past i hi
  · unfold DOk; rw [hf.1]; exact ⟨by omega, Or.inr (by omega)⟩

/-- moving on to the next request -/
theorem DP2.next {cfg out cur} (h : DP2 cfg out cur) : DP0 cfg out (cur + 1) := by
  refine ⟨⟨fun i hi => h.1.future i (by omega), fun i hi => ?_⟩, h.1.future _ (by omega)⟩
  by_cases e : i = cur
  · subst e; exact h.2
  · exact h.1.past i (by omega)

/-! ### the invariant, keyed by label (entering a piece of the coroutine) and by `pc` (between events) -/

def DPre (cfg : Cfg) (l : Lbl) (st : St) : Prop :=
  match l with
  | .loopTop | .parsed | .afterH => DP0 cfg st.out st.cur
  | .body => DP1 cfg st.out st.cur st.segs st.c.wf
  | .bodyDone => DP1 cfg st.out st.cur [] st.c.wf
  | .afterFinish | .err400 | .excClosed | .excQuiet | .exit => DP2 cfg st.out st.cur

def DPost (cfg : Cfg) (st : St) : Prop :=
  match st.pc with
  | .rdHeaders | .awaitH => DP0 cfg st.out st.cur
  | .rdBody | .awaitD => DP1 cfg st.out st.cur st.segs st.c.wf
  | .awaitFinish | .done | .stuck => DP2 cfg st.out st.cur

theorem DPre.to2 {cfg l st} (h : DPre cfg l st) : DP2 cfg st.out st.cur := by
  cases l <;> simp only [DPre] at h
  all_goals first | exact h | exact h.to2

theorem DPost.to2 {cfg st} (h : DPost cfg st) : DP2 cfg st.out st.cur := by
  unfold DPost at h
  split at h
  all_goals first | exact h | exact h.to2

/-! ### facts about reads: a payload read never returns more than it asked for -/

theorem sat_data_le {n b m : Nat} (h : sat (.data n) b = some m) : m ≤ n := by
  simp only [sat] at h
  split at h
  · cases h; exact Nat.min_le_left _ _
  · cases h

theorem tryRead_got {s s' : Stream} {nd : Need} {m : Nat} (h : s.tryRead nd = (s', .got m)) :
    ∃ b, sat nd b = some m := by
  unfold Stream.tryRead at h
  split at h
  · rename_i m' hs
    simp only [Prod.mk.injEq, RR.got.injEq] at h
    exact ⟨_, by rw [hs, h.2]⟩
  · split at h
    · simp at h
    · simp only at h
      split at h
      · rename_i m' hs
        simp only [Prod.mk.injEq, RR.got.injEq] at h
        exact ⟨_, by rw [hs, h.2]⟩
      · split at h <;> simp at h

theorem onReadable_got {s s' : Stream} {rd : Option Need} {m : Nat} (h : s.onReadable rd = (s', some (.got m))) :
    ∃ nd b, rd = some nd ∧ sat nd b = some m := by
  unfold Stream.onReadable at h
  split at h
  · simp at h
  · rename_i nd
    simp only at h
    split at h
    · rename_i m' hs
      simp only [Prod.mk.injEq, Option.some.injEq, RR.got.injEq] at h
      exact ⟨nd, _, rfl, by rw [hs, h.2]⟩
    · split at h <;> simp at h

/-! ### the pieces of the coroutine -/

theorem finallyRM_d {cfg} (st : St) (h : DP2 cfg st.out st.cur) :
    DP2 cfg st.finallyRM.out st.finallyRM.cur := by
  unfold St.finallyRM
  cases hn : st.needClose
  · simpa [hn] using h
  · simpa [hn, St.emit] using h.neutral (.close st.cur) rfl

theorem appRespond_out (r : Request) (st : St) :
    ∃ o2 : List Out, (appRespond r st).out = (st.out ++ [.respond st.cur]) ++ o2 ∧
      (o2 = [] ∨ ∃ a b c d, o2 = [.resp a b c d]) := by
  refine ⟨_, rfl, ?_⟩
  by_cases hc : st.s.closed = true
  · left; rw [if_pos hc]
  · right; rw [if_neg hc]; exact ⟨_, _, _, _, rfl⟩

theorem appRespond_d0 {cfg} (r : Request) (st : St) (h : DP0 cfg st.out st.cur) :
    DP0 cfg (appRespond r st).out (appRespond r st).cur := by
  obtain ⟨o2, ho, h2⟩ := appRespond_out r st
  have hc : (appRespond r st).cur = st.cur := rfl
  rw [ho, hc]
  have h1 := h.neutral (.respond st.cur) rfl
  rcases h2 with rfl | ⟨a, b, c, d, rfl⟩
  · simpa using h1
  · exact h1.neutral _ rfl

theorem appRespond_d1 {cfg} (r : Request) (st : St) {segs wf} (h : DP1 cfg st.out st.cur segs wf) :
    DP1 cfg (appRespond r st).out (appRespond r st).cur segs true := by
  obtain ⟨o2, ho, h2⟩ := appRespond_out r st
  have hc : (appRespond r st).cur = st.cur := rfl
  rw [ho, hc]
  have h1 := h.setWf.neutral (.respond st.cur) rfl
  rcases h2 with rfl | ⟨a, b, c, d, rfl⟩
  · simpa using h1
  · exact h1.neutral _ rfl

theorem appRespond_d2 {cfg} (r : Request) (st : St) (h : DP2 cfg st.out st.cur) :
    DP2 cfg (appRespond r st).out (appRespond r st).cur := by
  obtain ⟨o2, ho, h2⟩ := appRespond_out r st
  have hc : (appRespond r st).cur = st.cur := rfl
  rw [ho, hc]
  have h1 := h.neutral (.respond st.cur) rfl
  rcases h2 with rfl | ⟨a, b, c, d, rfl⟩
  · simpa using h1
  · exact h1.neutral _ rfl

theorem appRespond_wf (r : Request) (st : St) :
    (appRespond r st).c.wf = true ∧ (appRespond r st).segs = st.segs ∧ (appRespond r st).pc = st.pc := ⟨rfl, rfl, rfl⟩

theorem go_dinv (cfg : Cfg) : ∀ (fuel : Nat) (l : Lbl) (st : St), DPre cfg l st → DPost cfg (go cfg fuel l st) := by
  intro fuel
  induction fuel with
  | zero =>
    intro l st h
    simp only [go, St.emit]
    exact h.to2.neutral _ rfl
  | succ fuel ih =>
    intro l st h
    cases l with
    | exit =>
      simp only [DPre] at h
      simp only [go, St.emit]
      exact h.neutral _ rfl
    | loopTop =>
      simp only [DPre] at h
      simp only [go, St.emit]
      have hf : DP0 cfg (st.out ++ [Out.start st.cur]) st.cur := h.neutral _ rfl
      split
      · exact ih _ _ hf
      · exact hf
      · exact ih _ _ hf.to2
    | parsed =>
      simp only [DPre] at h
      simp only [go]
      split
      · exact ih _ _ h.to2
      · rename_i r _
        split
        · exact ih _ _ h.to2
        · have hm : DP0 cfg (st.out ++ [Out.headers st.cur]) st.cur := h.neutral _ rfl
          split
          · exact ih _ _ hm
          · exact hm
          · simp only [St.emit]
            exact ih _ _ (hm.neutral (.detach st.cur) rfl).to2
          · exact ih _ _ (appRespond_d0 r _ hm)
          · exact ih _ _ hm.to2
    | afterH =>
      simp only [DPre] at h
      simp only [go]
      split
      · exact ih _ _ h.to2
      · rename_i r hr
        exact ih _ _ (h.start hr _)
    | body =>
      simp only [DPre] at h
      simp only [go]
      have h0 := h
      split
      · rename_i hs; rw [hs] at h; exact ih _ _ h
      · exact ih _ _ h.to2
      · rename_i hs; rw [hs] at h
        split
        · exact ih _ _ h.skipAtom
        · exact h0
        · exact ih _ _ h.to2
      · rename_i hs; rw [hs] at h
        split
        · exact ih _ _ h.skipLine
        · exact h0
        · exact ih _ _ h.to2
      · rename_i hs; rw [hs] at h
        split
        · rename_i hz; subst hz; exact ih _ _ h.skipZero
        · split
          · rename_i hrd
            have hmn := sat_data_le (tryRead_got hrd).choose_spec
            split
            · rename_i hw; exact ih _ _ (h.dataSkip hw _)
            · rename_i hw
              simp only [St.emit]
              have hd := h.data (by simpa using hw) hmn
              split
              · exact hd
              · exact ih _ _ hd.to2
              · exact ih _ _ hd
          · exact h0
          · exact ih _ _ h.to2
    | bodyDone =>
      simp only [DPre] at h
      simp only [go]
      split
      · exact ih _ _ h.to2
      · rename_i r _
        split
        · rename_i hw
          have hw' : st.c.wf = false := by simpa using hw
          rw [hw'] at h
          have hm : DP2 cfg (st.out ++ [Out.finish st.cur]) st.cur := h.finish
          split
          · exact ih _ _ hm
          · exact ih _ _ hm
          · exact ih _ _ (appRespond_d2 r _ hm)
        · exact ih _ _ h.to2
    | afterFinish =>
      simp only [DPre] at h
      simp only [go]
      split
      · exact h
      · have := finallyRM_d st h
        split
        · exact ih _ _ this
        · exact ih _ _ this.next
    | err400 =>
      simp only [DPre] at h
      simp only [go]
      split
      · exact ih _ _ (finallyRM_d st h)
      · simp only [St.emit]
        have hm : DP2 cfg (st.out ++ [Out.resp 400 C03.ConnOut.absent false false]) st.cur := h.neutral _ rfl
        exact ih _ _ (finallyRM_d _ hm)
    | excClosed =>
      simp only [DPre] at h
      simp only [go]
      exact ih _ _ (finallyRM_d st h)
    | excQuiet =>
      simp only [DPre] at h
      simp only [go]
      exact ih _ _ (finallyRM_d st h)

/-! ### events -/

theorem DPost.p0 {cfg st} (h : DPost cfg st) (hpc : st.pc = .rdHeaders ∨ st.pc = .awaitH) :
    DP0 cfg st.out st.cur := by
  unfold DPost at h
  rcases hpc with e | e <;> rw [e] at h <;> exact h

theorem DPost.p1 {cfg st} (h : DPost cfg st) (hpc : st.pc = .rdBody ∨ st.pc = .awaitD) :
    DP1 cfg st.out st.cur st.segs st.c.wf := by
  unfold DPost at h
  rcases hpc with e | e <;> rw [e] at h <;> exact h

/-- appending a neutral notification, control state unchanged -/
theorem DPost.emit {cfg st st'} (h : DPost cfg st) (o : Out) (hn : dneutral o = true)
    (h1 : st'.pc = st.pc) (h2 : st'.cur = st.cur) (h3 : st'.segs = st.segs) (h4 : st'.c.wf = st.c.wf)
    (h5 : st'.out = st.out ++ [o]) : DPost cfg st' := by
  unfold DPost at *
  rw [h1, h2, h3, h4, h5]
  cases hp : st.pc <;> simp only [hp] at h ⊢ <;> exact h.neutral o hn

theorem appRespond_dpost {cfg} (r : Request) (st : St) (h : DPost cfg st) : DPost cfg (appRespond r st) := by
  unfold DPost at *
  have e : (appRespond r st).pc = st.pc := rfl
  have e2 : (appRespond r st).segs = st.segs := rfl
  have e3 : (appRespond r st).c.wf = true := rfl
  rw [e, e2, e3]
  cases hp : st.pc <;> simp only [hp] at h ⊢
  · exact appRespond_d0 r st h
  · exact appRespond_d0 r st h
  · exact appRespond_d1 r st h
  · exact appRespond_d1 r st h
  · exact appRespond_d2 r st h
  · exact appRespond_d2 r st h
  · exact appRespond_d2 r st h

theorem resumeRead_d (cfg : Cfg) (st : St) (m : Nat) (h : DPost cfg st)
    (hm : st.pc = .rdBody → ∀ n rest, st.segs = .data n :: rest → m ≤ n) : DPost cfg (resumeRead cfg st m) := by
  unfold resumeRead
  split
  · rename_i hpc
    exact go_dinv cfg _ .parsed _ (h.p0 (Or.inl hpc))
  · rename_i hpc
    have h1 := h.p1 (Or.inl hpc)
    split
    · rename_i hs; rw [hs] at h1
      exact go_dinv cfg _ .body _ h1.skipAtom
    · rename_i hs; rw [hs] at h1
      exact go_dinv cfg _ .body _ h1.skipLine
    · rename_i n rest hs; rw [hs] at h1
      have hmn := hm hpc n rest hs
      simp only
      split
      · rename_i hw
        exact go_dinv cfg _ .body _ (h1.dataSkip hw _)
      · rename_i hw
        simp only [St.emit]
        have hd := h1.data (by simpa using hw) hmn
        split
        · exact hd
        · exact go_dinv cfg _ .excQuiet _ hd.to2
        · exact go_dinv cfg _ .body _ hd
    · exact h
  · exact h

theorem failRead_d (cfg : Cfg) (st : St) (h : DPost cfg st) : DPost cfg (failRead cfg st) := by
  unfold failRead
  split
  · exact go_dinv cfg _ .exit _ (finallyRM_d st h.to2)
  · exact go_dinv cfg _ .excClosed _ h.to2
  · exact h

theorem runCloseCb_d (cfg : Cfg) (st : St) (h : DPost cfg st) : DPost cfg (runCloseCb cfg st) := by
  unfold runCloseCb
  split
  · simp only
    split
    · refine go_dinv cfg _ .afterFinish _ ?_
      simp only [DPre]
      split
      · exact h.to2.neutral _ rfl
      · exact h.to2
    · exact h
  · exact h

theorem dispatchRead_d (cfg : Cfg) (st : St) (h : DPost cfg st) : DPost cfg (dispatchRead cfg st) := by
  unfold dispatchRead
  split
  · generalize hres : st.s.onReadable (pendingRead cfg st) = res
    obtain ⟨s', r⟩ := res
    rcases r with _ | (m | _ | _)
    · exact runCloseCb_d cfg _ h
    · simp only
      refine resumeRead_d cfg { st with s := s' } m h ?_
      intro hpc n rest hs
      obtain ⟨nd, b, hnd, hsat⟩ := onReadable_got hres
      have : pendingRead cfg st = some (.data n) := by
        have hpc' : st.pc = .rdBody := hpc
        have hs' : st.segs = .data n :: rest := hs
        simp [pendingRead, hpc', hs']
      rw [this] at hnd
      cases hnd
      exact sat_data_le hsat
    · exact runCloseCb_d cfg _ h
    · exact failRead_d cfg _ h
  · exact h

theorem step_d (cfg : Cfg) (st : St) (e : Ev) (h : DPost cfg st) : DPost cfg (step cfg st e) := by
  unfold step
  cases e with
  | feed n =>
    simp only
    split
    · exact h
    · exact dispatchRead_d cfg _ h
  | eof =>
    simp only
    split
    · exact h
    · exact dispatchRead_d cfg _ h
  | reset =>
    simp only
    split
    · exact h
    · exact dispatchRead_d cfg _ h
  | closeall =>
    simp only
    split
    · exact h
    · split
      · exact failRead_d cfg _ h
      · exact failRead_d cfg _ h
      · exact runCloseCb_d cfg _ h
  | timer =>
    simp only
    split
    · exact go_dinv cfg _ .exit _ (finallyRM_d _ h.to2)
    · split
      · exact go_dinv cfg _ .exit _ (finallyRM_d _ h.to2)
      · exact h
    · split
      · exact go_dinv cfg _ .exit _ (finallyRM_d _ h.to2)
      · exact h
    · exact h
  | resH =>
    simp only
    split
    · rename_i hpc
      have hpc' : st.pc = .awaitH := by simpa using hpc
      exact go_dinv cfg _ .afterH _ (h.p0 (Or.inr hpc'))
    · exact h
  | resD =>
    simp only
    split
    · rename_i hpc
      have hpc' : st.pc = .awaitD := by simpa using hpc
      exact go_dinv cfg _ .body _ (h.p1 (Or.inr hpc'))
    · exact h
  | respond =>
    simp only
    split
    · exact h
    · split
      · exact h
      · split
        · split
          · exact h
          · rename_i r _
            have hp := appRespond_dpost r st h
            split
            · exact go_dinv cfg _ .afterFinish _ hp.to2
            · split
              · exact failRead_d cfg _ hp
              · exact hp
        · exact h.emit _ rfl rfl rfl rfl rfl rfl

theorem init_d (cfg : Cfg) : DPost cfg (init cfg) := by
  unfold init
  refine go_dinv cfg _ .loopTop _ ?_
  exact ⟨⟨fun i _ => ⟨rfl, rfl⟩, fun i hi => absurd hi (Nat.not_lt_zero i)⟩, rfl, rfl⟩

theorem exec_d (cfg : Cfg) (evs : List Ev) : DPost cfg (exec cfg evs) := by
  unfold exec
  suffices ∀ st, DPost cfg st → DPost cfg (evs.foldl (step cfg) st) from this _ (init_d cfg)
  induction evs with
  | nil => intro st h; exact h
  | cons e es ih => intro st h; exact ih _ (step_d cfg st e h)

end TornadoModel.C05
