/-
C05 — a ranking function for the serving coroutine.

`rank0 l cur nseg + slack s` bounds the number of `go` calls a run from label `l` can make:
7 per request still ahead, one per body read still to do, and at most two extra iterations for payload reads
that return short (`slack`: the read buffer is emptied at most once and the transport is pulled at most once
inside one run, since no bytes arrive while the coroutine runs).  Consequences:
* `fuelFor cfg` is always enough (`pc = stuck` is unreachable);
* on a closed stream every settled application awaitable strictly decreases the measure `M`, so the loop
  reaches `done`.
-/
import TornadoModel.C05.Model
namespace TornadoModel.C05

/-! ### the measure -/

def restSum (cfg : Cfg) (c : Nat) : Nat := ((cfg.reqs.drop c).map (fun r => 7 + r.segs.length)).sum

theorem restSum_some {cfg : Cfg} {c : Nat} {r : Request} (h : cfg.req? c = some r) :
    restSum cfg c = 7 + r.segs.length + restSum cfg (c + 1) := by
  unfold Cfg.req? at h
  obtain ⟨hlt, hr⟩ := List.getElem?_eq_some_iff.mp h
  unfold restSum
  rw [List.drop_eq_getElem_cons hlt, hr]
  simp

theorem map_sum_aux (l : List Request) :
    (l.map (fun r => 7 + r.segs.length)).sum = 7 * l.length + (l.map (fun r => r.segs.length)).sum := by
  induction l with
  | nil => rfl
  | cons a t ih => simp only [List.map_cons, List.sum_cons, List.length_cons, ih]; omega

theorem restSum_zero (cfg : Cfg) : restSum cfg 0 + 9 ≤ fuelFor cfg := by
  unfold restSum fuelFor
  rw [List.drop_zero, map_sum_aux]
  omega

def sl (b p : Nat) : Nat := (if 0 < b then 1 else 0) + (if 0 < p then 1 else 0)
def slack (s : Stream) : Nat := sl s.buf s.pend

theorem slack_le (s : Stream) : slack s ≤ 2 := by
  unfold slack sl; split <;> split <;> omega

theorem sl_sub {b p m : Nat} : sl (b - m) p ≤ sl b p := by
  unfold sl; split <;> split <;> split <;> omega
theorem sl_pull {b p m : Nat} : sl (b + p - m) 0 ≤ sl b p := by
  unfold sl; simp only [Nat.lt_irrefl, ↓reduceIte]; split <;> split <;> split <;> omega
theorem sl_pull0 {b p : Nat} : sl (b + p) 0 ≤ sl b p := by
  unfold sl; simp only [Nat.lt_irrefl, ↓reduceIte]; split <;> split <;> split <;> omega

def rank0 (cfg : Cfg) : Lbl → Nat → Nat → Nat
  | .exit, _, _ => 1
  | .excClosed, _, _ => 2
  | .excQuiet, _, _ => 2
  | .err400, _, _ => 2
  | .loopTop, c, _ => 5 + restSum cfg c
  | .parsed, c, _ => 4 + restSum cfg c
  | .afterH, c, _ => 3 + restSum cfg c
  | .body, c, k => k + 9 + restSum cfg (c + 1)
  | .bodyDone, c, _ => 8 + restSum cfg (c + 1)
  | .afterFinish, c, _ => 7 + restSum cfg (c + 1)

/-- rank of the label at which the blocked coroutine resumes -/
def prank (cfg : Cfg) (st : St) : Nat :=
  match st.pc with
  | .rdHeaders => 4 + restSum cfg st.cur
  | .awaitH => 3 + restSum cfg st.cur
  | .rdBody => st.segs.length + 9 + restSum cfg (st.cur + 1)
  | .awaitD => st.segs.length + 9 + restSum cfg (st.cur + 1)
  | .awaitFinish => 7 + restSum cfg (st.cur + 1)
  | .done => 0
  | .stuck => 0

/-- the ranking function of the goal: `0` exactly when the loop is over -/
def M (cfg : Cfg) (st : St) : Nat := if st.pc = .done then 0 else prank cfg st + slack st.s

/-! ### stream facts -/

theorem close_slack (s : Stream) : slack s.close = slack s := by
  unfold Stream.close; split <;> rfl

theorem close_closed (s : Stream) : s.close.closed = true := by
  unfold Stream.close; split
  · assumption
  · rfl

theorem maybeListen_slack (s : Stream) : slack s.maybeListen = slack s := by
  unfold Stream.maybeListen; split <;> rfl

theorem maybeListen_closed (s : Stream) : s.maybeListen.closed = s.closed := by
  unfold Stream.maybeListen; split <;> rfl

theorem maybeListen_hasCb (s : Stream) : s.maybeListen.hasCb = s.hasCb := by
  unfold Stream.maybeListen; split <;> rfl

theorem sat_pos_le {nd : Need} {b m : Nat} (h : sat nd b = some m) : m ≤ b := by
  cases nd <;> simp only [sat] at h
  · split at h
    · cases h; assumption
    · cases h
  · split at h
    · cases h; exact Nat.min_le_right _ _
    · cases h
  · cases h

theorem sat_data {n b m : Nat} (h : sat (.data n) b = some m) : 0 < b ∧ m = min n b := by
  simp only [sat] at h
  split at h
  · cases h; exact ⟨by assumption, rfl⟩
  · cases h

theorem sat_data_none {n b : Nat} (h : sat (.data n) b = none) : b = 0 := by
  simp only [sat] at h
  split at h
  · cases h
  · omega

/-- what a coroutine read does to the stream -/
theorem tryRead_facts {s s' : Stream} {nd : Need} {r : RR} (h : s.tryRead nd = (s', r)) :
    slack s' ≤ slack s ∧ (s.closed = true → s'.closed = true) ∧ (r = .block → s'.closed = false) := by
  unfold Stream.tryRead at h
  split at h
  · rename_i m hs
    simp only [Prod.mk.injEq] at h
    obtain ⟨rfl, rfl⟩ := h
    refine ⟨?_, fun hc => by rw [maybeListen_closed]; exact hc, fun e => by cases e⟩
    rw [maybeListen_slack]
    exact sl_sub
  · split at h
    · simp only [Prod.mk.injEq] at h
      obtain ⟨rfl, rfl⟩ := h
      exact ⟨Nat.le_refl _, fun hc => hc, fun e => by cases e⟩
    · rename_i hnc
      simp only at h
      split at h
      · rename_i m hs
        simp only [Prod.mk.injEq] at h
        obtain ⟨rfl, rfl⟩ := h
        refine ⟨?_, fun hc => absurd hc hnc, fun e => by cases e⟩
        rw [maybeListen_slack]
        exact sl_pull
      · split at h
        · simp only [Prod.mk.injEq] at h
          obtain ⟨rfl, rfl⟩ := h
          refine ⟨?_, fun _ => close_closed _, fun e => by cases e⟩
          rw [close_slack]
          exact sl_pull0
        · simp only [Prod.mk.injEq] at h
          obtain ⟨rfl, rfl⟩ := h
          refine ⟨?_, fun hc => absurd hc hnc, fun _ => by simpa [Stream.pull] using hnc⟩
          exact sl_pull0

/-- a payload read that returns short empties the buffer or pulls the transport: `slack` drops -/
theorem tryRead_short {s s' : Stream} {n m : Nat} (h : s.tryRead (.data n) = (s', .got m)) (hlt : ¬ n ≤ m) :
    slack s' < slack s := by
  unfold Stream.tryRead at h
  split at h
  · rename_i m' hs
    simp only [Prod.mk.injEq, RR.got.injEq] at h
    obtain ⟨rfl, rfl⟩ := h
    obtain ⟨hb, hm⟩ := sat_data hs
    rw [maybeListen_slack]
    show sl (s.buf - m') s.pend < sl s.buf s.pend
    have : s.buf - m' = 0 := by omega
    rw [this]; unfold sl; simp [hb]
  · rename_i hs
    have hb0 := sat_data_none hs
    split at h
    · simp at h
    · simp only at h
      split at h
      · rename_i m' hs1
        simp only [Prod.mk.injEq, RR.got.injEq] at h
        obtain ⟨rfl, rfl⟩ := h
        obtain ⟨hb, hm⟩ := sat_data hs1
        rw [maybeListen_slack]
        show sl (s.buf + s.pend - m') 0 < sl s.buf s.pend
        have hb' : 0 < s.buf + s.pend := hb
        have hm' : m' = min n (s.buf + s.pend) := hm
        have : s.buf + s.pend - m' = 0 := by omega
        rw [this, hb0]
        have : 0 < s.pend := by omega
        unfold sl; simp [this]
      · split at h <;> simp at h

theorem short_len (n m : Nat) (rest : List Seg) :
    (if n ≤ m then rest else Seg.data (n - m) :: rest).length ≤ rest.length + 1 := by
  split <;> simp

/-- the measure drops on every completed payload read -/
theorem data_step {s s' : Stream} {n m : Nat} (h : s.tryRead (.data n) = (s', .got m)) (rest : List Seg) :
    (if n ≤ m then rest else Seg.data (n - m) :: rest).length + slack s' < rest.length + 1 + slack s := by
  have h1 := (tryRead_facts h).1
  by_cases hnm : n ≤ m
  · simp only [hnm, if_true]; omega
  · have := tryRead_short h hnm
    simp only [hnm, if_false, List.length_cons]; omega

/-! ### pieces of the connection object that leave the measure alone -/

@[simp] theorem finallyRM_cur (st : St) : st.finallyRM.cur = st.cur := by
  unfold St.finallyRM; split <;> rfl
@[simp] theorem finallyRM_segs (st : St) : st.finallyRM.segs = st.segs := by
  unfold St.finallyRM; split <;> rfl
@[simp] theorem finallyRM_pc (st : St) : st.finallyRM.pc = st.pc := by
  unfold St.finallyRM; split <;> rfl
theorem finallyRM_s (st : St) : st.finallyRM.s = st.s ∨ st.finallyRM.s = { st.s with hasCb := false } := by
  unfold St.finallyRM
  by_cases hn : st.needClose = true <;> by_cases hd : st.c.det = true <;> simp [hn, hd, St.emit]
@[simp] theorem finallyRM_slack (st : St) : slack st.finallyRM.s = slack st.s := by
  rcases finallyRM_s st with h | h <;> rw [h] <;> rfl
@[simp] theorem finallyRM_closed (st : St) : st.finallyRM.s.closed = st.s.closed := by
  rcases finallyRM_s st with h | h <;> rw [h]

@[simp] theorem appRespond_cur (r : Request) (st : St) : (appRespond r st).cur = st.cur := rfl
@[simp] theorem appRespond_segs (r : Request) (st : St) : (appRespond r st).segs = st.segs := rfl
@[simp] theorem appRespond_pc (r : Request) (st : St) : (appRespond r st).pc = st.pc := rfl
@[simp] theorem appRespond_slack (r : Request) (st : St) : slack (appRespond r st).s = slack st.s := by
  unfold appRespond; simp only
  split
  · rw [close_slack]; rfl
  · rfl
theorem appRespond_closed (r : Request) (st : St) (h : st.s.closed = true) : (appRespond r st).s.closed = true := by
  unfold appRespond; simp only
  split
  · exact close_closed _
  · exact h

/-! ### what a run of the coroutine guarantees about the state it stops in -/

structure GP (cfg : Cfg) (r0 sl : Nat) (c0 : Bool) (st : St) : Prop where
  ns : st.pc ≠ .stuck
  rk : prank cfg st ≤ r0
  m : M cfg st ≤ r0 + sl
  ms : (st.pc = .awaitH ∨ st.pc = .awaitD ∨ st.pc = .done) → M cfg st < r0 + sl
  cl : st.s.closed = true → (st.pc = .done ∨ st.pc = .awaitH ∨ st.pc = .awaitD)
  cb : st.pc = .awaitFinish → st.s.hasCb = true
  rd : st.pc = .rdBody → ∃ nd, pendingRead cfg st = some nd
  mono : c0 = true → st.s.closed = true

theorem GP.weaken {cfg r0 sl c0 r0' sl' c0' st} (h : GP cfg r0' sl' c0' st)
    (h1 : r0' ≤ r0) (h2 : r0' + sl' ≤ r0 + sl) (h3 : c0 = true → c0' = true) : GP cfg r0 sl c0 st :=
  ⟨h.ns, Nat.le_trans h.rk h1, Nat.le_trans h.m h2, fun e => Nat.lt_of_lt_of_le (h.ms e) h2, h.cl, h.cb, h.rd,
   fun e => h.mono (h3 e)⟩

theorem GP.mk_done {cfg r0 sl c0} {st : St} (hpc : st.pc = .done) (hr : 1 ≤ r0)
    (hc : c0 = true → st.s.closed = true) : GP cfg r0 sl c0 st := by
  refine ⟨by simp [hpc], by simp [prank, hpc], by simp [M, hpc], fun _ => by simp [M, hpc]; omega,
    fun _ => Or.inl hpc, by simp [hpc], by simp [hpc], hc⟩

theorem GP.mk_rdHeaders {cfg r0 sl c0} {st : St} (hpc : st.pc = .rdHeaders)
    (h0 : 4 + restSum cfg st.cur ≤ r0) (h1 : 4 + restSum cfg st.cur + slack st.s ≤ r0 + sl)
    (hnc : st.s.closed = false) (hc : c0 = true → st.s.closed = true) : GP cfg r0 sl c0 st := by
  refine ⟨by simp [hpc], by simpa [prank, hpc] using h0, by simpa [M, prank, hpc] using h1, by simp [hpc],
    (fun e => by rw [hnc] at e; cases e), by simp [hpc], by simp [hpc], hc⟩

theorem GP.mk_awaitH {cfg r0 sl c0} {st : St} (hpc : st.pc = .awaitH)
    (h1 : 3 + restSum cfg st.cur + slack st.s < r0 + sl) (h0 : 3 + restSum cfg st.cur ≤ r0)
    (hc : c0 = true → st.s.closed = true) : GP cfg r0 sl c0 st := by
  refine ⟨by simp [hpc], by simpa [prank, hpc] using h0, by simp [M, prank, hpc]; omega,
    fun _ => by simpa [M, prank, hpc] using h1,
    fun _ => Or.inr (Or.inl hpc), by simp [hpc], by simp [hpc], hc⟩

theorem GP.mk_awaitD {cfg r0 sl c0} {st : St} (hpc : st.pc = .awaitD)
    (h1 : st.segs.length + 9 + restSum cfg (st.cur + 1) + slack st.s < r0 + sl)
    (h0 : st.segs.length + 9 + restSum cfg (st.cur + 1) ≤ r0)
    (hc : c0 = true → st.s.closed = true) : GP cfg r0 sl c0 st := by
  refine ⟨by simp [hpc], by simpa [prank, hpc] using h0, by simp [M, prank, hpc]; omega,
    fun _ => by simpa [M, prank, hpc] using h1,
    fun _ => Or.inr (Or.inr hpc), by simp [hpc], by simp [hpc], hc⟩

theorem GP.mk_rdBody {cfg r0 sl c0} {st : St} (hpc : st.pc = .rdBody)
    (h0 : st.segs.length + 9 + restSum cfg (st.cur + 1) ≤ r0)
    (h1 : st.segs.length + 9 + restSum cfg (st.cur + 1) + slack st.s ≤ r0 + sl)
    (hnc : st.s.closed = false) (hrd : ∃ nd, pendingRead cfg st = some nd)
    (hc : c0 = true → st.s.closed = true) : GP cfg r0 sl c0 st := by
  refine ⟨by simp [hpc], by simpa [prank, hpc] using h0, by simpa [M, prank, hpc] using h1, by simp [hpc],
    (fun e => by rw [hnc] at e; cases e), by simp [hpc], fun _ => hrd, hc⟩

theorem GP.mk_awaitFinish {cfg r0 sl c0} {st : St} (hpc : st.pc = .awaitFinish)
    (h0 : 7 + restSum cfg (st.cur + 1) ≤ r0) (h1 : 7 + restSum cfg (st.cur + 1) + slack st.s ≤ r0 + sl)
    (hnc : st.s.closed = false) (hcb : st.s.hasCb = true)
    (hc : c0 = true → st.s.closed = true) : GP cfg r0 sl c0 st := by
  refine ⟨by simp [hpc], by simpa [prank, hpc] using h0, by simpa [M, prank, hpc] using h1, by simp [hpc],
    (fun e => by rw [hnc] at e; cases e), fun _ => hcb, by simp [hpc], hc⟩

end TornadoModel.C05
