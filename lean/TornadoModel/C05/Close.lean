/-
C05 — every reachable state is `Good` (never `stuck`; a closed stream is only compatible with `done` or with
waiting for an application awaitable), and from a closed stream settling the application's awaitables
drives the measure `M` to `0`, i.e. the serving loop to `done`.
-/
import TornadoModel.C05.Term
namespace TornadoModel.C05

structure Good (cfg : Cfg) (st : St) : Prop where
  ns : st.pc ≠ .stuck
  rk : prank cfg st + 2 ≤ fuelFor cfg
  cl : st.s.closed = true → (st.pc = .done ∨ st.pc = .awaitH ∨ st.pc = .awaitD)
  cb : st.pc = .awaitFinish → st.s.hasCb = true
  rd : st.pc = .rdBody → ∃ nd, pendingRead cfg st = some nd

/-- good, and the stream is closed if it was closed before (`c0`) -/
def GoodC (cfg : Cfg) (c0 : Bool) (st : St) : Prop := Good cfg st ∧ (c0 = true → st.s.closed = true)

theorem GP.goodC {cfg r0 sl c0 st} (h : GP cfg r0 sl c0 st) (hr : r0 + 2 ≤ fuelFor cfg) : GoodC cfg c0 st :=
  ⟨⟨h.ns, by have := h.rk; omega, h.cl, h.cb, h.rd⟩, h.mono⟩

theorem GoodC.of_closed {cfg c0 c1 st} (h : GoodC cfg c0 st) (hc : c1 = true → c0 = true) : GoodC cfg c1 st :=
  ⟨h.1, fun e => h.2 (hc e)⟩

theorem Good.refl {cfg st} (h : Good cfg st) : GoodC cfg st.s.closed st := ⟨h, fun e => e⟩

theorem go_call (cfg : Cfg) (l : Lbl) (st : St) (h : rk cfg l st + 2 ≤ fuelFor cfg) :
    GP cfg (rk cfg l st) (slack st.s) st.s.closed (go cfg (fuelFor cfg) l st) :=
  go_rank cfg _ _ _ (by have := slack_le st.s; omega)

theorem go_good (cfg : Cfg) (l : Lbl) (st : St) (h : rk cfg l st + 2 ≤ fuelFor cfg) :
    GoodC cfg st.s.closed (go cfg (fuelFor cfg) l st) := (go_call cfg l st h).goodC h

theorem pendingRead_some {cfg : Cfg} {st : St} {nd : Need} (h : pendingRead cfg st = some nd) :
    st.pc = .rdHeaders ∨ st.pc = .rdBody := by
  unfold pendingRead at h
  split at h
  · exact Or.inl (by assumption)
  · exact Or.inr (by assumption)
  · cases h

theorem failRead_good (cfg : Cfg) (st : St) (hpc : st.pc = .rdHeaders ∨ st.pc = .rdBody)
    (hr : prank cfg st + 2 ≤ fuelFor cfg) : GoodC cfg st.s.closed (failRead cfg st) := by
  unfold failRead
  split
  · rename_i h1
    have := go_good cfg .exit st.finallyRM (by simp only [rk, rank0]; simp only [prank, h1] at hr; omega)
    rwa [finallyRM_closed] at this
  · rename_i h1
    exact go_good cfg .excClosed st (by simp only [rk, rank0]; simp only [prank, h1] at hr; omega)
  · exfalso; rcases hpc with h | h <;> simp_all

theorem resumeRead_good (cfg : Cfg) (st : St) (m : Nat) (hrd : ∃ nd, pendingRead cfg st = some nd)
    (hr : prank cfg st + 2 ≤ fuelFor cfg) : GoodC cfg st.s.closed (resumeRead cfg st m) := by
  unfold resumeRead
  split
  · rename_i h1
    exact go_good cfg .parsed st (by simp only [rk, rank0]; simp only [prank, h1] at hr; omega)
  · rename_i h1
    simp only [prank, h1] at hr
    split
    · rename_i n rest hs
      rw [hs] at hr; simp only [List.length_cons] at hr
      exact go_good cfg .body _ (by simp only [rk, rank0]; omega)
    · rename_i n rest hs
      rw [hs] at hr; simp only [List.length_cons] at hr
      exact go_good cfg .body _ (by simp only [rk, rank0]; omega)
    · rename_i n rest hs
      rw [hs] at hr; simp only [List.length_cons] at hr
      have hl := short_len n m rest
      simp only
      split
      · exact go_good cfg .body _ (by simp only [rk, rank0]; omega)
      · simp only [St.emit]
        split
        · refine ⟨⟨by simp, by simp only [prank]; omega, fun _ => Or.inr (Or.inr rfl), by simp, by simp⟩,
            fun e => e⟩
        · exact go_good cfg .excQuiet _ (by simp only [rk, rank0]; omega)
        · exact go_good cfg .body _ (by simp only [rk, rank0]; omega)
    · exfalso
      obtain ⟨nd, hnd⟩ := hrd
      unfold pendingRead at hnd
      rw [h1] at hnd
      simp only at hnd
      first | cases hnd | (split at hnd <;> simp_all)
  · exfalso
    obtain ⟨nd, hnd⟩ := hrd
    rcases pendingRead_some hnd with h | h <;> simp_all

theorem runCloseCb_good (cfg : Cfg) (st : St) (hns : st.pc ≠ .stuck) (hr : prank cfg st + 2 ≤ fuelFor cfg)
    (hcl : st.s.closed = true →
      (st.pc = .done ∨ st.pc = .awaitH ∨ st.pc = .awaitD) ∨ (st.pc = .awaitFinish ∧ st.s.cbQ = true))
    (hcb : st.pc = .awaitFinish → st.s.closed = false → st.s.hasCb = true)
    (hrd : st.pc = .rdBody → ∃ nd, pendingRead cfg st = some nd) :
    GoodC cfg st.s.closed (runCloseCb cfg st) := by
  unfold runCloseCb
  split
  · rename_i hq
    simp only
    split
    · rename_i hpc
      have hpc' : st.pc = .awaitFinish := by simpa using hpc
      simp only [prank, hpc'] at hr
      split
      · exact go_good cfg .afterFinish _ (by simp only [rk, rank0, St.emit]; omega)
      · exact go_good cfg .afterFinish _ (by simp only [rk, rank0]; omega)
    · rename_i hpc
      have hpc' : st.pc ≠ .awaitFinish := by simpa using hpc
      refine ⟨⟨hns, hr, fun hc => ?_, fun e => absurd e hpc', hrd⟩, fun e => e⟩
      rcases hcl hc with h | h
      · exact h
      · exact absurd h.1 hpc'
  · rename_i hq
    refine ⟨⟨hns, hr, fun hc => ?_, fun e => ?_, hrd⟩, fun e => e⟩
    · rcases hcl hc with h | h
      · exact h
      · exact absurd h.2 hq
    · cases hc : st.s.closed
      · exact hcb e hc
      · rcases hcl hc with h | h
        · rcases h with h | h | h <;> simp_all
        · exact absurd h.2 hq

/-- a READ event that neither completes nor fails a pending read: the stream is left open with its close
callback untouched — or nothing was pending, EOF was noticed and the close callback is now queued -/
theorem onReadable_none {s : Stream} (hnc : s.closed = false) :
    (s.onReadable none).2 = none ∧
    (((s.onReadable none).1.closed = false ∧ (s.onReadable none).1.hasCb = s.hasCb) ∨
     ((s.onReadable none).1.closed = true ∧ (s.onReadable none).1.cbQ = (s.cbQ || s.hasCb))) := by
  refine ⟨rfl, ?_⟩
  by_cases hcond : ((s.pend == 0 || decide (s.pull.buf < s.maxb)) && s.pull.eof) = true
  · right
    have : (s.onReadable none).1 = s.pull.close := by
      simp only [Stream.onReadable, hcond, if_true, close_closed]
    rw [this]
    exact ⟨close_closed _, by simp [Stream.close, Stream.pull, hnc]⟩
  · left
    have hp : s.pull.closed = false := hnc
    have : (s.onReadable none).1 = { s.pull with listen := s.pull.buf == 0 } := by
      simp only [Stream.onReadable, hcond]
      simp [hp]
    rw [this]
    exact ⟨hnc, rfl⟩

theorem onReadable_other {s s' : Stream} {rd : Option Need} {r : Option RR} (hnc : s.closed = false)
    (h : s.onReadable rd = (s', r)) (h1 : ∀ m, r ≠ some (.got m)) (h2 : r ≠ some .closed) :
    (s'.closed = false ∧ s'.hasCb = s.hasCb) ∨
    (rd = none ∧ s'.closed = true ∧ s'.cbQ = (s.cbQ || s.hasCb)) := by
  cases rd with
  | none =>
    have := (onReadable_none hnc).2
    rw [h] at this
    rcases this with e | e
    · exact Or.inl e
    · exact Or.inr ⟨rfl, e⟩
  | some nd =>
    unfold Stream.onReadable at h
    simp only at h
    split at h
    · simp only [Prod.mk.injEq] at h
      exact absurd h.2.symm (h1 _)
    · split at h
      · simp only [Prod.mk.injEq] at h
        exact absurd h.2.symm h2
      · simp only [Prod.mk.injEq] at h
        obtain ⟨rfl, rfl⟩ := h
        exact Or.inl ⟨by simpa [Stream.pull] using hnc, rfl⟩

theorem onReadable_some {s s' : Stream} {rd : Option Need} {r : RR} (h : s.onReadable rd = (s', some r)) :
    ∃ nd, rd = some nd := by
  cases rd with
  | none => simp [Stream.onReadable] at h
  | some nd => exact ⟨nd, rfl⟩

theorem dispatchRead_good (cfg : Cfg) (st : St) (h : Good cfg st) :
    GoodC cfg st.s.closed (dispatchRead cfg st) := by
  unfold dispatchRead
  split
  · rename_i hl
    have hnc : st.s.closed = false := by
      cases hc : st.s.closed
      · rfl
      · simp [hc] at hl
    rw [hnc]
    generalize hres : st.s.onReadable (pendingRead cfg st) = res
    obtain ⟨s', r⟩ := res
    rcases r with _ | (m | _ | _)
    · -- nothing completed
      simp only
      have ho := onReadable_other hnc hres (by simp) (by simp)
      refine (runCloseCb_good cfg { st with s := s' } h.ns h.rk ?_ ?_ h.rd).of_closed (by simp)
      · intro hc
        rcases ho with ho | ⟨hrd, _, hq⟩
        · rw [ho.1] at hc; cases hc
        · cases hpc : st.pc
          · simp [pendingRead, hpc] at hrd
          · exact Or.inl (Or.inr (Or.inl rfl))
          · obtain ⟨nd, hnd⟩ := h.rd hpc; rw [hnd] at hrd; cases hrd
          · exact Or.inl (Or.inr (Or.inr rfl))
          · exact Or.inr ⟨rfl, by simp only; rw [hq, h.cb hpc]; simp⟩
          · exact Or.inl (Or.inl rfl)
          · exact absurd hpc h.ns
      · intro hpc hc
        rcases ho with ho | ⟨_, hc', _⟩
        · simp only; rw [ho.2]; exact h.cb hpc
        · simp only at hc; rw [hc'] at hc; cases hc
    · simp only
      obtain ⟨nd, hnd⟩ := onReadable_some hres
      exact (resumeRead_good cfg { st with s := s' } m ⟨nd, hnd⟩ h.rk).of_closed (by simp)
    · -- `block` is never returned by `onReadable`
      simp only
      have ho := onReadable_other hnc hres (by simp) (by simp)
      obtain ⟨nd, hnd⟩ := onReadable_some hres
      refine (runCloseCb_good cfg { st with s := s' } h.ns h.rk ?_ ?_ h.rd).of_closed (by simp)
      · intro hc
        rcases ho with ho | ⟨hrd, _, _⟩
        · rw [ho.1] at hc; cases hc
        · rw [hnd] at hrd; cases hrd
      · intro hpc hc
        rcases ho with ho | ⟨hrd, _, _⟩
        · simp only; rw [ho.2]; exact h.cb hpc
        · rw [hnd] at hrd; cases hrd
    · simp only
      obtain ⟨nd, hnd⟩ := onReadable_some hres
      exact (failRead_good cfg { st with s := s' } (pendingRead_some (st := st) hnd) h.rk).of_closed (by simp)
  · exact h.refl

theorem close_open {s : Stream} (h : s.closed = false) : s.close.cbQ = (s.cbQ || s.hasCb) := by
  simp [Stream.close, h]

theorem closeall_step (cfg : Cfg) (st : St) (h : Good cfg st) (hc : ¬ (st.s.closed || st.pc == .done) = true) :
    GoodC cfg true (step cfg st .closeall) := by
  have hnc : st.s.closed = false := by
    cases hc' : st.s.closed
    · rfl
    · simp [hc'] at hc
  have hnd : st.pc ≠ .done := by
    intro e; simp [e] at hc
  unfold step
  simp only
  rw [if_neg hc]
  split
  · rename_i hpc
    exact (failRead_good cfg { st with s := st.s.close } (Or.inl hpc) h.rk).of_closed
      (fun _ => close_closed _)
  · rename_i hpc
    exact (failRead_good cfg { st with s := st.s.close } (Or.inr hpc) h.rk).of_closed
      (fun _ => close_closed _)
  · rename_i hp1 hp2
    refine (runCloseCb_good cfg { st with s := st.s.close } h.ns h.rk ?_ ?_ h.rd).of_closed
      (fun _ => close_closed _)
    · intro _
      cases hpc : st.pc
      · exact absurd hpc hp1
      · exact Or.inl (Or.inr (Or.inl rfl))
      · exact absurd hpc hp2
      · exact Or.inl (Or.inr (Or.inr rfl))
      · exact Or.inr ⟨rfl, by simp only; rw [close_open hnc, h.cb hpc]; simp⟩
      · exact absurd hpc hnd
      · exact absurd hpc h.ns
    · intro _ hc'
      simp only [close_closed] at hc'
      cases hc'

theorem step_good (cfg : Cfg) (st : St) (e : Ev) (h : Good cfg st) : GoodC cfg st.s.closed (step cfg st e) := by
  unfold step
  cases e with
  | feed n =>
    simp only
    split
    · exact h.refl
    · exact dispatchRead_good cfg _ ⟨h.ns, h.rk, h.cl, h.cb, h.rd⟩
  | eof =>
    simp only
    split
    · exact h.refl
    · exact dispatchRead_good cfg _ ⟨h.ns, h.rk, h.cl, h.cb, h.rd⟩
  | reset =>
    simp only
    split
    · exact h.refl
    · exact dispatchRead_good cfg _ ⟨h.ns, h.rk, h.cl, h.cb, h.rd⟩
  | closeall =>
    by_cases hc : (st.s.closed || st.pc == .done) = true
    · simp only [hc, if_true]; exact h.refl
    · exact (closeall_step cfg st h hc).of_closed (fun _ => rfl)
  | timer =>
    simp only
    split
    · rename_i hpc
      have hr := h.rk; simp only [prank, hpc] at hr
      refine (go_good cfg .exit _ (by simp only [rk, rank0]; omega)).of_closed ?_
      intro _; simp only [finallyRM_closed]; exact close_closed _
    · rename_i hpc
      have hr := h.rk; simp only [prank, hpc] at hr
      split
      · refine (go_good cfg .exit _ (by simp only [rk, rank0]; omega)).of_closed ?_
        intro _; simp only [finallyRM_closed]; exact close_closed _
      · exact h.refl
    · rename_i hpc
      have hr := h.rk; simp only [prank, hpc] at hr
      split
      · refine (go_good cfg .exit _ (by simp only [rk, rank0]; omega)).of_closed ?_
        intro _; simp only [finallyRM_closed]; exact close_closed _
      · exact h.refl
    · exact h.refl
  | resH =>
    simp only
    split
    · rename_i hpc
      have hpc' : st.pc = .awaitH := by simpa using hpc
      have hr := h.rk; simp only [prank, hpc'] at hr
      exact go_good cfg .afterH st (by simp only [rk, rank0]; omega)
    · exact h.refl
  | resD =>
    simp only
    split
    · rename_i hpc
      have hpc' : st.pc = .awaitD := by simpa using hpc
      have hr := h.rk; simp only [prank, hpc'] at hr
      exact go_good cfg .body st (by simp only [rk, rank0]; omega)
    · exact h.refl
  | respond =>
    simp only
    split
    · exact h.refl
    · split
      · exact h.refl
      · split
        · rename_i hj
          simp only [Bool.and_eq_true, bne_iff_ne, ne_eq] at hj
          split
          · exact h.refl
          · rename_i r _
            have hrk : prank cfg (appRespond r st) = prank cfg st := rfl
            split
            · rename_i hw
              have hpc : st.pc = .awaitFinish := by simpa using hw
              have hr := h.rk; simp only [prank, hpc] at hr
              exact (go_good cfg .afterFinish _ (by simp only [rk, rank0, appRespond_cur]; omega)).of_closed
                (appRespond_closed r st)
            · rename_i hw
              have hpc : st.pc ≠ .awaitFinish := by simpa using hw
              split
              · rename_i hb
                simp only [Bool.and_eq_true, beq_iff_eq] at hb
                exact (failRead_good cfg _ (Or.inr hb.1) (by rw [hrk]; exact h.rk)).of_closed
                  (appRespond_closed r st)
              · rename_i hb
                simp only [Bool.and_eq_true, beq_iff_eq, not_and, appRespond_pc] at hb
                refine ⟨⟨h.ns, h.rk, fun hc => ?_, fun e => absurd e hpc, h.rd⟩, appRespond_closed r st⟩
                cases hp : st.pc
                · exact absurd hp hj.1.2
                · exact Or.inr (Or.inl hp)
                · exact absurd hc (by simpa using hb hp)
                · exact Or.inr (Or.inr hp)
                · exact absurd hp hpc
                · exact absurd hp hj.2
                · exact absurd hp h.ns
        · simp only [St.emit]
          exact ⟨⟨h.ns, h.rk, h.cl, h.cb, h.rd⟩, fun e => e⟩

theorem init_good (cfg : Cfg) : Good cfg (init cfg) := by
  unfold init
  have := restSum_zero cfg
  exact (go_good cfg .loopTop {} (by simp only [rk, rank0]; omega)).1

theorem foldl_good (cfg : Cfg) (evs : List Ev) : ∀ st, Good cfg st → Good cfg (evs.foldl (step cfg) st) := by
  induction evs with
  | nil => intro st h; exact h
  | cons e es ih => intro st h; exact ih _ (step_good cfg st e h).1

theorem exec_good (cfg : Cfg) (evs : List Ev) : Good cfg (exec cfg evs) :=
  foldl_good cfg evs _ (init_good cfg)

/-- fuel never runs out -/
theorem never_stuck' (cfg : Cfg) (evs : List Ev) : (exec cfg evs).pc ≠ .stuck := (exec_good cfg evs).ns

/-! ### after the close -/

/-- `closeall` leaves the stream closed (or the loop already over) -/
theorem closeall_closed (cfg : Cfg) (st : St) (h : Good cfg st) :
    (step cfg st .closeall).s.closed = true ∨ (step cfg st .closeall).pc = .done := by
  by_cases hc : (st.s.closed || st.pc == .done) = true
  · have : step cfg st .closeall = st := by simp only [step, hc, if_true]
    rw [this]
    simp only [Bool.or_eq_true, beq_iff_eq] at hc
    exact hc
  · exact Or.inl ((closeall_step cfg st h hc).2 rfl)

theorem M_pos {cfg : Cfg} {st : St} (h : Good cfg st) (hd : st.pc ≠ .done) : 0 < M cfg st := by
  have := h.ns
  cases hp : st.pc <;> simp_all [M, prank] <;> omega

/-- on a closed stream, settling the awaitable the loop waits for strictly decreases the measure -/
theorem resH_M (cfg : Cfg) (st : St) (h : Good cfg st) (hc : st.s.closed = true) :
    M cfg (step cfg st .resH) ≤ M cfg st ∧ (st.pc = .awaitH → M cfg (step cfg st .resH) < M cfg st) := by
  by_cases hpc : st.pc = .awaitH
  · have hs : step cfg st .resH = go cfg (fuelFor cfg) .afterH st := by simp [step, hpc]
    rw [hs]
    have hr := h.rk; simp only [prank, hpc] at hr
    have gp := go_call cfg .afterH st (by simp only [rk, rank0]; omega)
    have hm : M cfg st = rk cfg .afterH st + slack st.s := by simp [M, prank, hpc, rk, rank0]
    have hlt := gp.ms (by
      rcases gp.cl (gp.mono hc) with e | e | e
      · exact Or.inr (Or.inr e)
      · exact Or.inl e
      · exact Or.inr (Or.inl e))
    rw [hm]
    exact ⟨Nat.le_of_lt hlt, fun _ => hlt⟩
  · have hs : step cfg st .resH = st := by simp [step, hpc]
    rw [hs]
    exact ⟨Nat.le_refl _, fun e => absurd e hpc⟩

theorem resD_M (cfg : Cfg) (st : St) (h : Good cfg st) (hc : st.s.closed = true) :
    M cfg (step cfg st .resD) ≤ M cfg st ∧ (st.pc = .awaitD → M cfg (step cfg st .resD) < M cfg st) := by
  by_cases hpc : st.pc = .awaitD
  · have hs : step cfg st .resD = go cfg (fuelFor cfg) .body st := by simp [step, hpc]
    rw [hs]
    have hr := h.rk; simp only [prank, hpc] at hr
    have gp := go_call cfg .body st (by simp only [rk, rank0]; omega)
    have hm : M cfg st = rk cfg .body st + slack st.s := by simp [M, prank, hpc, rk, rank0]
    have hlt := gp.ms (by
      rcases gp.cl (gp.mono hc) with e | e | e
      · exact Or.inr (Or.inr e)
      · exact Or.inl e
      · exact Or.inr (Or.inl e))
    rw [hm]
    exact ⟨Nat.le_of_lt hlt, fun _ => hlt⟩
  · have hs : step cfg st .resD = st := by simp [step, hpc]
    rw [hs]
    exact ⟨Nat.le_refl _, fun e => absurd e hpc⟩

/-- **ranking argument**: `k ≥ M` rounds of settling the application's awaitables end the loop -/
theorem settle_done (cfg : Cfg) : ∀ (k : Nat) (st : St), Good cfg st →
    (st.s.closed = true ∨ st.pc = .done) → M cfg st ≤ k →
    ((List.replicate k [Ev.resH, Ev.resD]).flatten.foldl (step cfg) st).pc = .done := by
  intro k
  induction k with
  | zero =>
    intro st h _ hm
    simp only [List.replicate_zero, List.flatten_nil, List.foldl_nil]
    by_cases hd : st.pc = .done
    · exact hd
    · have := M_pos h hd; omega
  | succ k ih =>
    intro st h hc hm
    simp only [List.replicate_succ, List.flatten_cons, List.cons_append, List.nil_append, List.foldl_cons]
    by_cases hd : st.pc = .done
    · have h1 : step cfg st .resH = st := by simp [step, hd]
      rw [h1]
      have h2 : step cfg st .resD = st := by simp [step, hd]
      rw [h2]
      exact ih st h hc (by simp [M, hd])
    · have hcl : st.s.closed = true := by
        rcases hc with e | e
        · exact e
        · exact absurd e hd
      have g1 := step_good cfg st .resH h
      have m1 := resH_M cfg st h hcl
      have hcl1 := g1.2 hcl
      have g2 := step_good cfg _ .resD g1.1
      have m2 := resD_M cfg _ g1.1 hcl1
      refine ih _ g2.1 (Or.inl (g2.2 hcl1)) ?_
      rcases h.cl hcl with e | e | e
      · exact absurd e hd
      · have := m1.2 e; omega
      · have h1 : step cfg st .resH = st := by simp [step, e]
        rw [h1] at m2 ⊢
        have := m2.2 e; omega

end TornadoModel.C05
