/-
C05 — the invariant is preserved by every piece of the serving coroutine (`go`) and by every event (`step`).
-/
import TornadoModel.C05.Lemmas
namespace TornadoModel.C05
open Spec

def Post (st : St) : Prop :=
  Mid st.out st.cur st.needClose ∧
  (st.pc = .rdHeaders → Fresh st.out st.cur ∧ st.needClose = false) ∧
  (st.pc = .done → st.needClose = false) ∧
  ((st.pc = .awaitH ∨ st.pc = .rdBody ∨ st.pc = .awaitD) → st.needClose = true)

def Pre (l : Lbl) (st : St) : Prop :=
  match l with
  | .loopTop => Fresh st.out st.cur ∧ st.needClose = false
  | .parsed => Fresh st.out st.cur ∧ st.needClose = false
  | .afterH | .body | .bodyDone => Mid st.out st.cur st.needClose ∧ st.needClose = true
  | .afterFinish | .err400 | .excClosed | .excQuiet => Mid st.out st.cur st.needClose
  | .exit => Mid st.out st.cur st.needClose ∧ st.needClose = false

theorem touches_start (j i : Nat) : touches i (.start j) = false := by simp [touches]
theorem touches_data (j n i : Nat) : touches i (.data j n) = false := by simp [touches]
theorem touches_cc (j i : Nat) : touches i (.cc j) = false := by simp [touches]
theorem touches_respond (j i : Nat) : touches i (.respond j) = false := by simp [touches]
theorem touches_onclose (i : Nat) : touches i .onclose = false := by simp [touches]
theorem touches_fuelOut (i : Nat) : touches i .fuelOut = false := by simp [touches]
theorem touches_resp (a : Nat) (b : C03.ConnOut) (c d : Bool) (i : Nat) : touches i (.resp a b c d) = false := by
  simp [touches]

theorem finallyRM_spec (st : St) (h : Mid st.out st.cur st.needClose) :
    Mid st.finallyRM.out st.finallyRM.cur false ∧ st.finallyRM.needClose = false ∧ st.finallyRM.cur = st.cur := by
  unfold St.finallyRM
  cases hn : st.needClose
  · simp only [hn] at h; simp [hn, h]
  · simp only [hn] at h; simp [St.emit, h.close]

theorem appRespond_spec (r : Request) (st : St) (h : Mid st.out st.cur st.needClose) :
    Mid (appRespond r st).out (appRespond r st).cur (appRespond r st).needClose ∧
    (appRespond r st).needClose = st.needClose ∧ (appRespond r st).cur = st.cur ∧ (appRespond r st).pc = st.pc := by
  unfold appRespond
  have h1 := h.neutral _ (touches_respond st.cur)
  refine ⟨?_, rfl, rfl, rfl⟩
  show Mid (st.out ++ [Out.respond st.cur] ++ _) st.cur st.needClose
  by_cases hc : st.s.closed = true
  · rw [if_pos hc, List.append_nil]; exact h1
  · rw [if_neg hc]; exact h1.neutral _ (touches_resp _ _ _ _)

theorem appRespond_pre (r : Request) (st : St) {b : Bool} (h : Mid st.out st.cur st.needClose) (hb : st.needClose = b) :
    Mid (appRespond r st).out (appRespond r st).cur (appRespond r st).needClose ∧ (appRespond r st).needClose = b := by
  have := appRespond_spec r st h
  exact ⟨this.1, by rw [this.2.1]; exact hb⟩

theorem pre_exit_finally (st : St) (h : Mid st.out st.cur st.needClose) : Pre .exit st.finallyRM := by
  have := finallyRM_spec st h
  exact ⟨by rw [this.2.1]; exact this.1, this.2.1⟩

theorem pre_mid {l : Lbl} {st : St} (h : Pre l st) : Mid st.out st.cur st.needClose := by
  cases l <;> simp only [Pre] at h
  · rw [h.2]; exact h.1.mid
  · rw [h.2]; exact h.1.mid
  all_goals first | exact h.1 | exact h

theorem post_of_mid {st : St} (h : Mid st.out st.cur st.needClose)
    (h1 : st.pc ≠ .rdHeaders) (h2 : st.pc = .done → st.needClose = false)
    (h3 : (st.pc = .awaitH ∨ st.pc = .rdBody ∨ st.pc = .awaitD) → st.needClose = true) : Post st :=
  ⟨h, fun e => absurd e h1, h2, h3⟩

theorem go_inv (cfg : Cfg) : ∀ (fuel : Nat) (l : Lbl) (st : St), Pre l st → Post (go cfg fuel l st) := by
  intro fuel
  induction fuel with
  | zero =>
    intro l st h
    have hm := pre_mid h
    simp only [go, St.emit]
    exact post_of_mid (hm.neutral _ touches_fuelOut) (by simp) (by simp) (by simp)
  | succ fuel ih =>
    intro l st h
    cases l with
    | exit =>
      simp only [Pre] at h
      simp only [go, St.emit]
      refine post_of_mid ?_ (by simp) (fun _ => h.2) (by simp)
      exact h.1.neutral _ touches_onclose
    | loopTop =>
      simp only [Pre] at h
      simp only [go, St.emit]
      have hf : Fresh (st.out ++ [Out.start st.cur]) st.cur := h.1.neutral _ (touches_start _)
      split
      · exact ih _ _ ⟨hf, rfl⟩
      · exact ⟨hf.mid, fun _ => ⟨hf, rfl⟩, by simp, by simp⟩
      · exact ih _ _ ⟨hf.mid, rfl⟩
    | parsed =>
      simp only [Pre] at h
      have hm0 : Mid st.out st.cur st.needClose := by rw [h.2]; exact h.1.mid
      simp only [go]
      split
      · exact ih _ _ hm0
      · rename_i r _
        split
        · exact ih _ _ hm0
        · have hm : Mid (st.out ++ [Out.headers st.cur]) st.cur true := h.1.headers
          split
          · exact ih _ _ ⟨hm, rfl⟩
          · exact post_of_mid hm (by simp) (by simp) (by simp)
          · simp only [St.emit]
            exact ih _ _ ⟨hm.detach, rfl⟩
          · exact ih _ _ (appRespond_pre r _ hm rfl)
          · exact ih _ _ hm
    | afterH =>
      simp only [Pre] at h
      simp only [go]
      split
      · exact ih _ _ h.1
      · exact ih _ _ h
    | body =>
      simp only [Pre] at h
      simp only [go]
      split
      · exact ih _ _ h
      · exact ih _ _ h.1
      · split
        · exact ih _ _ h
        · exact post_of_mid h.1 (by simp) (by simp) (fun _ => h.2)
        · exact ih _ _ h.1
      · split
        · exact ih _ _ h
        · exact post_of_mid h.1 (by simp) (by simp) (fun _ => h.2)
        · exact ih _ _ h.1
      · split
        · exact ih _ _ h
        · split
          · split
            · exact ih _ _ h
            · simp only [St.emit]
              have hd : ∀ m, Mid (st.out ++ [Out.data st.cur m]) st.cur st.needClose :=
                fun m => h.1.neutral _ (touches_data _ _)
              split
              · exact post_of_mid (hd _) (by simp) (by simp) (fun _ => h.2)
              · exact ih _ _ (hd _)
              · exact ih _ _ ⟨hd _, h.2⟩
          · exact post_of_mid h.1 (by simp) (by simp) (fun _ => h.2)
          · exact ih _ _ h.1
    | bodyDone =>
      simp only [Pre] at h
      simp only [go]
      split
      · exact ih _ _ h.1
      · rename_i r _
        split
        · have hm : Mid (st.out ++ [Out.finish st.cur]) st.cur false := by
            have := h.1; rw [h.2] at this; exact this.finish
          split
          · exact ih _ _ hm
          · exact ih _ _ hm
          · exact ih _ _ (appRespond_spec r _ hm).1
        · exact ih _ _ h.1
    | afterFinish =>
      simp only [Pre] at h
      simp only [go]
      split
      · exact post_of_mid h (by simp) (by simp) (by simp)
      · have := finallyRM_spec st h
        split
        · exact ih _ _ (pre_exit_finally st h)
        · refine ih _ _ ⟨?_, this.2.1⟩
          exact this.1.next
    | err400 =>
      simp only [Pre] at h
      simp only [go]
      split
      · exact ih _ _ (pre_exit_finally st h)
      · simp only [St.emit]
        have hm : Mid (st.out ++ [Out.resp 400 C03.ConnOut.absent false false]) st.cur st.needClose :=
          h.neutral _ (touches_resp _ _ _ _)
        exact ih _ _ (pre_exit_finally _ hm)
    | excClosed =>
      simp only [Pre] at h
      simp only [go]
      exact ih _ _ (pre_exit_finally st h)
    | excQuiet =>
      simp only [Pre] at h
      simp only [go]
      exact ih _ _ (pre_exit_finally st h)

theorem resumeRead_inv (cfg : Cfg) (st : St) (m : Nat) (h : Post st) : Post (resumeRead cfg st m) := by
  unfold resumeRead
  split
  · rename_i hpc
    exact go_inv cfg _ _ _ (h.2.1 hpc)
  · rename_i hpc
    have hn : st.needClose = true := h.2.2.2 (Or.inr (Or.inl hpc))
    split
    · exact go_inv cfg _ _ _ ⟨h.1, hn⟩
    · exact go_inv cfg _ _ _ ⟨h.1, hn⟩
    · simp only
      split
      · exact go_inv cfg _ _ _ ⟨h.1, hn⟩
      · simp only [St.emit]
        have hd : Mid (st.out ++ [Out.data st.cur m]) st.cur st.needClose := h.1.neutral _ (touches_data _ _)
        split
        · exact post_of_mid hd (by simp) (by simp) (fun _ => hn)
        · exact go_inv cfg _ _ _ hd
        · exact go_inv cfg _ _ _ ⟨hd, hn⟩
    · exact h
  · exact h

theorem failRead_inv (cfg : Cfg) (st : St) (h : Post st) : Post (failRead cfg st) := by
  unfold failRead
  split
  · exact go_inv cfg _ _ _ (pre_exit_finally st h.1)
  · exact go_inv cfg _ _ _ h.1
  · exact h

theorem runCloseCb_inv (cfg : Cfg) (st : St) (h : Post st) : Post (runCloseCb cfg st) := by
  unfold runCloseCb
  split
  · simp only
    split
    · refine go_inv cfg _ _ _ ?_
      simp only [Pre]
      split
      · exact h.1.neutral _ (touches_cc _)
      · exact h.1
    · exact h
  · exact h

theorem dispatchRead_inv (cfg : Cfg) (st : St) (h : Post st) : Post (dispatchRead cfg st) := by
  unfold dispatchRead
  split
  · split
    · exact resumeRead_inv cfg _ _ h
    · exact failRead_inv cfg _ h
    · exact runCloseCb_inv cfg _ h
  · exact h

theorem step_inv (cfg : Cfg) (st : St) (e : Ev) (h : Post st) : Post (step cfg st e) := by
  unfold step
  cases e with
  | feed n =>
    simp only
    split
    · exact h
    · exact dispatchRead_inv cfg _ h
  | eof =>
    simp only
    split
    · exact h
    · exact dispatchRead_inv cfg _ h
  | reset =>
    simp only
    split
    · exact h
    · exact dispatchRead_inv cfg _ h
  | closeall =>
    simp only
    split
    · exact h
    · split
      · exact failRead_inv cfg _ h
      · exact failRead_inv cfg _ h
      · exact runCloseCb_inv cfg _ h
  | timer =>
    simp only
    split
    · exact go_inv cfg _ _ _ (pre_exit_finally _ h.1)
    · split
      · exact go_inv cfg _ _ _ (pre_exit_finally _ h.1)
      · exact h
    · split
      · exact go_inv cfg _ _ _ (pre_exit_finally _ h.1)
      · exact h
    · exact h
  | resH =>
    simp only
    split
    · rename_i hpc
      have hpc' : st.pc = .awaitH := by simpa using hpc
      exact go_inv cfg _ _ _ ⟨h.1, h.2.2.2 (Or.inl hpc')⟩
    · exact h
  | resD =>
    simp only
    split
    · rename_i hpc
      have hpc' : st.pc = .awaitD := by simpa using hpc
      exact go_inv cfg _ _ _ ⟨h.1, h.2.2.2 (Or.inr (Or.inr hpc'))⟩
    · exact h
  | respond =>
    simp only
    split
    · exact h
    · split
      · exact h
      · split
        · split
          · exact h
          · rename_i r _
            have hs := appRespond_spec r st h.1
            have hp : Post (appRespond r st) := by
              refine ⟨hs.1, ?_, ?_, ?_⟩
              · intro hpc
                rw [hs.2.2.2] at hpc
                exfalso
                simp_all
              · rw [hs.2.2.2, hs.2.1]; exact h.2.2.1
              · rw [hs.2.2.2, hs.2.1]; exact h.2.2.2
            split
            · exact go_inv cfg _ _ _ hs.1
            · split
              · exact failRead_inv cfg _ hp
              · exact hp
        · simp only [St.emit]
          refine ⟨h.1.neutral _ (touches_respond _), ?_, h.2.2.1, h.2.2.2⟩
          intro hpc
          exact ⟨(h.2.1 hpc).1.neutral _ (touches_respond _), (h.2.1 hpc).2⟩

theorem init_inv (cfg : Cfg) : Post (init cfg) := by
  unfold init
  refine go_inv cfg _ _ _ ⟨⟨fun i _ => rfl, fun i hi => absurd hi (Nat.not_lt_zero i)⟩, rfl⟩

theorem exec_inv (cfg : Cfg) (evs : List Ev) : Post (exec cfg evs) := by
  unfold exec
  suffices ∀ st, Post st → Post (evs.foldl (step cfg) st) from this _ (init_inv cfg)
  induction evs with
  | nil => intro st h; exact h
  | cons e es ih => intro st h; exact ih _ (step_inv cfg st e h)

end TornadoModel.C05
