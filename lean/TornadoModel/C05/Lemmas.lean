/-
C05 — helper lemmas: how the per-request summary of a trace (headers seen, number of finish+close
notifications, detached) changes when one notification is appended, and the invariant of the machine.
-/
import TornadoModel.C05.Spec
namespace TornadoModel.C05
open Spec

/-- number of finish-or-close notifications of request `i` -/
def cnt (i : Nat) (t : List Out) : Nat := countFinish i t + countClose i t

/-- does notification `o` concern the bookkeeping of request `i`? -/
def touches (i : Nat) (o : Out) : Bool :=
  o == .headers i || o == .finish i || o == .close i || o == .detach i

theorem gotHeaders_append (i : Nat) (t : List Out) (o : Out) :
    gotHeaders i (t ++ [o]) = (gotHeaders i t || o == .headers i) := by
  simp only [gotHeaders, List.contains_append, List.contains_cons, List.contains_nil, Bool.or_false]
  congr 1
  exact Bool.beq_comm

theorem detached_append (i : Nat) (t : List Out) (o : Out) :
    detached i (t ++ [o]) = (detached i t || o == .detach i) := by
  simp only [detached, List.contains_append, List.contains_cons, List.contains_nil, Bool.or_false]
  congr 1
  exact Bool.beq_comm

theorem cnt_append (i : Nat) (t : List Out) (o : Out) :
    cnt i (t ++ [o]) = cnt i t + ((if o == .finish i then 1 else 0) + (if o == .close i then 1 else 0)) := by
  simp only [cnt, countFinish, countClose, List.filter_append, List.length_append, List.filter_cons, List.filter_nil]
  split <;> split <;> simp <;> omega

/-- the bookkeeping state of request `i` in trace `t` -/
structure Summ where
  h : Bool
  n : Nat
  d : Bool
  deriving DecidableEq

def summ (i : Nat) (t : List Out) : Summ := ⟨gotHeaders i t, cnt i t, detached i t⟩

def Quiet (i : Nat) (t : List Out) : Prop := summ i t = ⟨false, 0, false⟩
def Open (i : Nat) (t : List Out) : Prop := summ i t = ⟨true, 0, false⟩
def Settled (i : Nat) (t : List Out) : Prop :=
  (summ i t).n ≤ 1 ∧ ((summ i t).h = true → (summ i t).d = false → (summ i t).n = 1)

theorem Quiet.settled {i t} (h : Quiet i t) : Settled i t := by
  unfold Quiet at h; unfold Settled; rw [h]; simp

theorem summ_append_neutral (i : Nat) (t : List Out) (o : Out) (h : touches i o = false) :
    summ i (t ++ [o]) = summ i t := by
  simp only [touches, Bool.or_eq_false_iff] at h
  obtain ⟨⟨⟨h1, h2⟩, h3⟩, h4⟩ := h
  simp [summ, gotHeaders_append, detached_append, cnt_append, h1, h2, h3, h4]

theorem summ_append_headers (i : Nat) (t : List Out) :
    summ i (t ++ [.headers i]) = { summ i t with h := true } := by
  simp [summ, gotHeaders_append, detached_append, cnt_append]

theorem summ_append_finish (i : Nat) (t : List Out) :
    summ i (t ++ [.finish i]) = { summ i t with n := (summ i t).n + 1 } := by
  simp [summ, gotHeaders_append, detached_append, cnt_append]

theorem summ_append_close (i : Nat) (t : List Out) :
    summ i (t ++ [.close i]) = { summ i t with n := (summ i t).n + 1 } := by
  simp [summ, gotHeaders_append, detached_append, cnt_append]

theorem summ_append_detach (i : Nat) (t : List Out) :
    summ i (t ++ [.detach i]) = { summ i t with d := true } := by
  simp [summ, gotHeaders_append, detached_append, cnt_append]

/-- notifications about request `j` do not touch the bookkeeping of request `i ≠ j` -/
theorem touches_other {i j : Nat} (h : i ≠ j) :
    touches i (.headers j) = false ∧ touches i (.finish j) = false ∧ touches i (.close j) = false ∧
    touches i (.detach j) = false := by
  have : j ≠ i := fun e => h e.symm
  simp [touches, this]

/-- the invariant, on the three components of the state it depends on -/
structure Mid (out : List Out) (cur : Nat) (needClose : Bool) : Prop where
  future : ∀ i, cur < i → Quiet i out
  past : ∀ i, i < cur → Settled i out
  now : if needClose then Open cur out else Settled cur out

structure Fresh (out : List Out) (cur : Nat) : Prop where
  future : ∀ i, cur ≤ i → Quiet i out
  past : ∀ i, i < cur → Settled i out

theorem Fresh.mid {out cur} (h : Fresh out cur) : Mid out cur false :=
  ⟨fun i hi => h.future i (Nat.le_of_lt hi), h.past, by simpa using (h.future cur (Nat.le_refl _)).settled⟩

/-- appending a notification that touches no request's bookkeeping -/
theorem Mid.neutral {out cur nc} (h : Mid out cur nc) (o : Out) (hn : ∀ i, touches i o = false) :
    Mid (out ++ [o]) cur nc := by
  refine ⟨fun i hi => ?_, fun i hi => ?_, ?_⟩
  · have := h.future i hi; unfold Quiet at *; rwa [summ_append_neutral _ _ _ (hn i)]
  · have := h.past i hi; unfold Settled at *; rwa [summ_append_neutral _ _ _ (hn i)]
  · have := h.now; unfold Open Settled at *; rwa [summ_append_neutral _ _ _ (hn cur)]

theorem Fresh.neutral {out cur} (h : Fresh out cur) (o : Out) (hn : ∀ i, touches i o = false) :
    Fresh (out ++ [o]) cur := by
  refine ⟨fun i hi => ?_, fun i hi => ?_⟩
  · have := h.future i hi; unfold Quiet at *; rwa [summ_append_neutral _ _ _ (hn i)]
  · have := h.past i hi; unfold Settled at *; rwa [summ_append_neutral _ _ _ (hn i)]

/-- `headers cur` on a fresh request opens it -/
theorem Fresh.headers {out cur} (h : Fresh out cur) : Mid (out ++ [.headers cur]) cur true := by
  refine ⟨fun i hi => ?_, fun i hi => ?_, ?_⟩
  · have := h.future i (Nat.le_of_lt hi); unfold Quiet at *
    rwa [summ_append_neutral _ _ _ (touches_other (Nat.ne_of_gt hi)).1]
  · have := h.past i hi; unfold Settled at *
    rwa [summ_append_neutral _ _ _ (touches_other (Nat.ne_of_lt hi)).1]
  · have := h.future cur (Nat.le_refl _); unfold Quiet at this
    simp only [if_true]; unfold Open; rw [summ_append_headers, this]

/-- `finish cur` / `close cur` on an open request settles it -/
theorem Mid.finish {out cur} (h : Mid out cur true) : Mid (out ++ [.finish cur]) cur false := by
  refine ⟨fun i hi => ?_, fun i hi => ?_, ?_⟩
  · have := h.future i hi; unfold Quiet at *
    rwa [summ_append_neutral _ _ _ (touches_other (Nat.ne_of_gt hi)).2.1]
  · have := h.past i hi; unfold Settled at *
    rwa [summ_append_neutral _ _ _ (touches_other (Nat.ne_of_lt hi)).2.1]
  · have := h.now; simp only [if_true] at this; unfold Open at this
    simp only [Bool.false_eq_true, if_false]; unfold Settled; rw [summ_append_finish, this]; simp

theorem Mid.close {out cur} (h : Mid out cur true) : Mid (out ++ [.close cur]) cur false := by
  refine ⟨fun i hi => ?_, fun i hi => ?_, ?_⟩
  · have := h.future i hi; unfold Quiet at *
    rwa [summ_append_neutral _ _ _ (touches_other (Nat.ne_of_gt hi)).2.2.1]
  · have := h.past i hi; unfold Settled at *
    rwa [summ_append_neutral _ _ _ (touches_other (Nat.ne_of_lt hi)).2.2.1]
  · have := h.now; simp only [if_true] at this; unfold Open at this
    simp only [Bool.false_eq_true, if_false]; unfold Settled; rw [summ_append_close, this]; simp

theorem Mid.detach {out cur} (h : Mid out cur true) : Mid (out ++ [.detach cur]) cur false := by
  refine ⟨fun i hi => ?_, fun i hi => ?_, ?_⟩
  · have := h.future i hi; unfold Quiet at *
    rwa [summ_append_neutral _ _ _ (touches_other (Nat.ne_of_gt hi)).2.2.2]
  · have := h.past i hi; unfold Settled at *
    rwa [summ_append_neutral _ _ _ (touches_other (Nat.ne_of_lt hi)).2.2.2]
  · have := h.now; simp only [if_true] at this; unfold Open at this
    simp only [Bool.false_eq_true, if_false]; unfold Settled; rw [summ_append_detach, this]; simp

/-- moving on to the next request -/
theorem Mid.next {out cur} (h : Mid out cur false) : Fresh out (cur + 1) := by
  refine ⟨fun i hi => h.future i hi, fun i hi => ?_⟩
  by_cases e : i = cur
  · subst e; simpa using h.now
  · exact h.past i (by omega)

end TornadoModel.C05
