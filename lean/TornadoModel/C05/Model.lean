/-
C05 — the server side of `tornado.http1connection` as an event machine (core Lean only).

Anchors: `HTTP1Connection._read_message` (incl. its `finally`), `_read_body`, `_read_fixed_body`,
`_read_chunked_body`, `finish`, `_finish_request`, `_on_connection_close`, `close`, `detach`,
`write_headers` (Connection rules), `HTTP1ServerConnection._server_request_loop`, and the part of
`BaseIOStream` that decides *when a close is noticed* (`_try_inline_read`, `_handle_read`,
`_handle_events` state recomputation, `_maybe_add_error_listener`, `close`, `_signal_closed`).

Level of abstraction: bytes are counted, not inspected.  A request is its header-block length, the
factors `_can_keep_alive` looks at, and the list of reads the body reader will perform
(`Seg.line n` = `read_until(CRLF, max_bytes=64)` of an `n`-byte chunk-size line, `Seg.atom n` = `read_bytes(n)`; `Seg.data n` = `n` payload bytes
read with `partial=True`; `Seg.err` = the reader raises `HTTPInputError` here).  The application is a
*script* per request (what `headers_received` / `data_received` / `finish` do) plus the events
`resH`, `resD`, `respond` through which pending application awaitables settle and deferred responses
are written.  One `Ev` = one harness action followed by running the event loop to quiescence.
-/
import TornadoModel.C03.Model
namespace TornadoModel.C05
open TornadoModel.C03 (Method Resp ConnOut Framing)

/-! ### static description of a case -/

inductive Seg | atom (n : Nat) | line (n : Nat) | data (n : Nat) | err
  deriving DecidableEq, Repr, Inhabited

inductive HMode | sync | async | detach | early | raise
  deriving DecidableEq, Repr, Inhabited
inductive DMode | sync | async | raise
  deriving DecidableEq, Repr, Inhabited
inductive FMode | now | later | raise
  deriving DecidableEq, Repr, Inhabited
inductive CcAt | headers | finish | never
  deriving DecidableEq, Repr, Inhabited

structure Script where
  h : HMode
  d : DMode
  f : FMode
  resp : Resp
  cc : CcAt
  actFin : Bool     -- the application object that can `respond` exists only from `finish()` on (plain callbacks,
                    -- non-streaming RequestHandlers); otherwise from `headers_received` on
  deriving DecidableEq, Repr, Inhabited

structure Request where
  req : C03.Req          -- version, Connection value, method, framing as `_can_keep_alive` sees it
  badTE : Bool           -- Transfer-Encoding present, not "chunked", no Content-Length
  hlen : Nat             -- length of the header block incl. the blank line
  segs : List Seg        -- reads of the body phase
  sc : Script
  deriving DecidableEq, Repr, Inhabited

structure Cfg where
  nka : Bool             -- HTTP1ConnectionParameters.no_keep_alive
  bt : Bool              -- body_timeout configured
  wireLen : Nat          -- total number of bytes the peer will ever send
  reqs : List Request
  deriving Repr, Inhabited

inductive Ev
  | feed (n : Nat) | eof | reset | timer | resH | resD | respond | closeall
  deriving DecidableEq, Repr, Inhabited

/-- observable notifications, in order -/
inductive Out
  | start (i : Nat) | headers (i : Nat) | data (i n : Nat) | finish (i : Nat) | close (i : Nat)
  | cc (i : Nat) | respond (i : Nat) | detach (i : Nat) | onclose
  | resp (status : Nat) (conn : ConnOut) (chunked hasCL : Bool)     -- a response head reached the wire
  | fuelOut
  deriving DecidableEq, Repr, Inhabited

/-! ### the IOStream layer, by counting -/

structure Stream where
  buf : Nat := 0          -- bytes in `_read_buffer`
  pend : Nat := 0         -- bytes that arrived at the transport and were not read yet
  eof : Bool := false     -- the peer closed; noticed by the next transport read that finds nothing
  listen : Bool := false  -- the handler is registered for READ
  closed : Bool := false
  hasCb : Bool := false   -- stream close callback = `HTTP1Connection._on_connection_close`
  cbQ : Bool := false     -- that callback was scheduled by `_signal_closed`
  maxb : Nat := 0         -- `_read_max_bytes` left behind by the last `read_until*` (never reset by IOStream)
  deriving DecidableEq, Repr, Inhabited

inductive Need | atom (n : Nat) | data (n : Nat) | never
  deriving DecidableEq, Repr, Inhabited

inductive RR | got (m : Nat) | block | closed
  deriving DecidableEq, Repr, Inhabited

/-- `_find_read_pos` -/
def sat : Need → Nat → Option Nat
  | .atom n, buf => if n ≤ buf then some n else none
  | .data n, buf => if 0 < buf then some (min n buf) else none
  | .never, _ => none

/-- `BaseIOStream.close` + `_signal_closed` (the pending read, if any, fails: see `tryRead`/`onReadable`) -/
def Stream.close (s : Stream) : Stream :=
  if s.closed then s
  else { s with closed := true, listen := false, cbQ := s.cbQ || s.hasCb, hasCb := false }

/-- `_maybe_add_error_listener` -/
def Stream.maybeListen (s : Stream) : Stream :=
  if !s.closed && s.buf == 0 && s.hasCb then { s with listen := true } else s

def Stream.pull (s : Stream) : Stream := { s with buf := s.buf + s.pend, pend := 0 }

/-- a read issued by the coroutine: `_try_inline_read` -/
def Stream.tryRead (s : Stream) (nd : Need) : Stream × RR :=
  match sat nd s.buf with
  | some m => (Stream.maybeListen { s with buf := s.buf - m }, .got m)
  | none =>
    if s.closed then (s, .closed)
    else
      let s1 := s.pull
      match sat nd s1.buf with
      | some m => (Stream.maybeListen { s1 with buf := s1.buf - m }, .got m)
      | none => if s1.eof then (s1.close, .closed) else ({ s1 with listen := true }, .block)

/-- the transport became readable while the handler listens: `_handle_events(READ)`;
`rd` = the pending read of the coroutine, if any -/
def Stream.onReadable (s : Stream) (rd : Option Need) : Stream × Option RR :=
  match rd with
  | none =>
    -- `_read_to_buffer_loop` with no read pending: target = `_read_max_bytes` (stale), so it keeps reading until
    -- that many bytes are buffered or the transport has nothing more — and then notices an EOF
    let s1 := s.pull
    let s2 := if (s.pend == 0 || s1.buf < s.maxb) && s1.eof then s1.close else s1
    (if s2.closed then s2 else { s2 with listen := s2.buf == 0 }, none)
  | some nd =>
    let s1 := s.pull
    match sat nd s1.buf with
    | some m =>
      let s2 := Stream.maybeListen { s1 with buf := s1.buf - m }
      ({ s2 with listen := s2.buf == 0 }, some (.got m))
    | none => if s1.eof then (s1.close, some .closed) else (s1, none)

/-! ### connection state -/

/-- flags of the current `HTTP1Connection` object -/
structure Conn where
  wf : Bool := false     -- `_write_finished`
  rf : Bool := false     -- `_read_finished`
  fd : Bool := false     -- `_finish_future.done()`
  disc : Bool := false   -- `_disconnect_on_finish`
  cc : Bool := false     -- `_close_callback is not None`
  det : Bool := false    -- detached (`self.stream is None`)
  deriving DecidableEq, Repr, Inhabited

inductive Pc | rdHeaders | awaitH | rdBody | awaitD | awaitFinish | done | stuck
  deriving DecidableEq, Repr, Inhabited

structure St where
  s : Stream := {}
  pc : Pc := .rdHeaders
  cur : Nat := 0               -- index of the request the loop is working on
  c : Conn := {}
  needClose : Bool := false    -- `need_delegate_close`
  segs : List Seg := []        -- remaining reads of the current body
  active : Option Nat := none  -- latest delegate that received headers (may still `respond`)
  responded : Bool := false
  fed : Nat := 0
  out : List Out := []
  deriving Repr, Inhabited

def St.emit (st : St) (o : Out) : St := { st with out := st.out ++ [o] }

def Cfg.req? (cfg : Cfg) (i : Nat) : Option Request := cfg.reqs[i]?

/-- what `data_received` of request `i` does -/
def Cfg.dmode (cfg : Cfg) (i : Nat) : DMode :=
  match cfg.req? i with | some r => r.sc.d | none => .sync

def statusOf : Resp → Nat | .cl => 200 | .stream => 200 | .s204 => 204 | .s304 => 304

/-- the application writes its whole response on the current connection object:
`set_close_callback(None)`, `write_headers`, [`write`], `finish` → `_finish_request` -/
def appRespond (r : Request) (st : St) : St :=
  let wh := C03.writeHeaders r.req r.sc.resp st.c.disc
  let wire : List Out :=
    if st.s.closed then []
    else [.resp (statusOf r.sc.resp) wh.2 (C03.chunking r.req r.sc.resp) (C03.respHasCL r.sc.resp)]
  let disc := C03.discAfterFinish wh.1 st.c.rf
  let s := { st.s with hasCb := false }
  { st with responded := true, out := (st.out ++ [.respond st.cur]) ++ wire,
            c := { st.c with wf := true, disc := disc, cc := false, fd := true },
            s := if disc then s.close else s }

/-- labels of the straight-line pieces of `_server_request_loop` / `_read_message` -/
inductive Lbl | loopTop | parsed | afterH | body | bodyDone | afterFinish | err400 | excClosed | excQuiet | exit
  deriving DecidableEq, Repr, Inhabited

/-- the `finally` of `_read_message` -/
def St.finallyRM (st : St) : St :=
  let st := if st.needClose then St.emit { st with needClose := false } (.close st.cur) else st
  { st with c := { st.c with cc := false }, s := if st.c.det then st.s else { st.s with hasCb := false } }

/-- run the serving coroutine from label `l` until it blocks or exits -/
def go (cfg : Cfg) : Nat → Lbl → St → St
  | 0, _, st => St.emit { st with pc := .stuck } .fuelOut
  | fuel + 1, l, st =>
    match l with
    | .exit => St.emit { st with pc := .done } .onclose
    | .loopTop =>
      -- conn = HTTP1Connection(...); delegate.start_request; read_until_regex
      let st := St.emit { st with c := {}, needClose := false, segs := [] } (.start st.cur)
      let nd := match cfg.req? st.cur with | some r => Need.atom r.hlen | none => Need.never
      match Stream.tryRead { st.s with maxb := 65536 } nd with
      | (s, .got _) => go cfg fuel .parsed { st with s := s }
      | (s, .block) => { st with s := s, pc := .rdHeaders }
      | (s, .closed) => go cfg fuel .exit { st with s := s }
    | .parsed =>
      match cfg.req? st.cur with
      | none => go cfg fuel .excClosed st      -- unreachable: headers are only parsed for existing requests
      | some r =>
        if r.badTE && !r.req.ver11 && !cfg.nka then go cfg fuel .err400 st   -- raised inside `_can_keep_alive`
        else
          let st := { st with c := { st.c with disc := !C03.canKeepAlive cfg.nka r.req, cc := r.sc.cc == .headers },
                              needClose := true,
                              active := if r.sc.actFin then st.active else some st.cur,
                              responded := if r.sc.actFin then st.responded else false,
                              out := st.out ++ [.headers st.cur] }
          match r.sc.h with
          | .sync => go cfg fuel .afterH st
          | .async => { st with pc := .awaitH }
          | .detach =>
            -- conn.detach(); `if self.stream is None: need_delegate_close = False; return False`
            let st := St.emit { st with c := { st.c with cc := false, det := true, fd := true }, responded := true,
                                        needClose := false } (.detach st.cur)
            go cfg fuel .exit st
          | .early => go cfg fuel .afterH (appRespond r st)
          | .raise => go cfg fuel .excQuiet st
    | .afterH =>
      match cfg.req? st.cur with
      | none => go cfg fuel .excClosed st       -- unreachable
      | some r => go cfg fuel .body { st with segs := r.segs }
    | .body =>
      match st.segs with
      | [] => go cfg fuel .bodyDone st
      | .err :: _ => go cfg fuel .err400 st
      | .atom n :: rest =>
        match st.s.tryRead (.atom n) with
        | (s, .got _) => go cfg fuel .body { st with s := s, segs := rest }
        | (s, .block) => { st with s := s, pc := .rdBody }
        | (s, .closed) => go cfg fuel .excClosed { st with s := s }
      | .line n :: rest =>
        match Stream.tryRead { st.s with maxb := 64 } (.atom n) with
        | (s, .got _) => go cfg fuel .body { st with s := s, segs := rest }
        | (s, .block) => { st with s := s, pc := .rdBody }
        | (s, .closed) => go cfg fuel .excClosed { st with s := s }
      | .data n :: rest =>
        if n = 0 then go cfg fuel .body { st with segs := rest }
        else
        match st.s.tryRead (.data n) with
        | (s, .got m) =>
          let st := { st with s := s, segs := if n ≤ m then rest else .data (n - m) :: rest }
          if st.c.wf then go cfg fuel .body st
          else
            let st := st.emit (.data st.cur m)
            match cfg.dmode st.cur with
            | .async => { st with pc := .awaitD }
            | .raise => go cfg fuel .excQuiet st
            | .sync => go cfg fuel .body st
        | (s, .block) => { st with s := s, pc := .rdBody }
        | (s, .closed) => go cfg fuel .excClosed { st with s := s }
    | .bodyDone =>
      match cfg.req? st.cur with
      | none => go cfg fuel .excClosed st       -- unreachable
      | some r =>
        let st := { st with c := { st.c with rf := true } }
        if !st.c.wf then
          let st := { st with needClose := false, out := st.out ++ [.finish st.cur],
                              active := if r.sc.actFin then some st.cur else st.active,
                              responded := if r.sc.actFin then false else st.responded,
                              c := { st.c with cc := st.c.cc || r.sc.cc == .finish } }
          match r.sc.f with
          | .raise => go cfg fuel .excQuiet st
          | .later => go cfg fuel .afterFinish st        -- (the wait is decided in `afterFinish`)
          | .now => go cfg fuel .afterFinish (appRespond r st)     -- (`responded` implies `wf`, excluded above)
        else go cfg fuel .afterFinish st
    | .afterFinish =>
      if !st.c.fd && !st.s.closed then
        -- stream.set_close_callback(self._on_connection_close); await self._finish_future
        { st with s := Stream.maybeListen { st.s with hasCb := true }, pc := .awaitFinish }
      else
        let st := st.finallyRM
        -- return True; `if self.stream.closed(): return`; await asyncio.sleep(0); next iteration
        if st.s.closed then go cfg fuel .exit st
        else go cfg fuel .loopTop { st with cur := st.cur + 1 }
    | .err400 =>
      -- except HTTPInputError: await stream.write(400); self.close(); return False  (+ finally)
      if st.s.closed then go cfg fuel .exit st.finallyRM       -- stream.write raises StreamClosedError
      else
        let st := st.emit (.resp 400 .absent false false)
        let st := { st with s := Stream.close { st.s with hasCb := false }, c := { st.c with cc := false, fd := true } }
        go cfg fuel .exit st.finallyRM
    | .excClosed => go cfg fuel .exit st.finallyRM
    | .excQuiet =>
      -- _QuietException: finally, then `conn.close()` in the serving loop
      let st := st.finallyRM
      go cfg fuel .exit { st with s := st.s.close, c := { st.c with fd := true } }

/-- what the coroutine is waiting to read, if it is blocked in a read -/
def pendingRead (cfg : Cfg) (st : St) : Option Need :=
  match st.pc with
  | .rdHeaders => some (match cfg.req? st.cur with | some r => .atom r.hlen | none => .never)
  | .rdBody =>
    match st.segs with
    | .atom n :: _ => some (.atom n)
    | .line n :: _ => some (.atom n)
    | .data n :: _ => some (.data n)
    | _ => none
  | _ => none

def fuelFor (cfg : Cfg) : Nat :=
  16 + 8 * cfg.reqs.length + 3 * (cfg.reqs.map (fun r => r.segs.length)).sum

/-- a pending read completed with `m` bytes: resume the coroutine -/
def resumeRead (cfg : Cfg) (st : St) (m : Nat) : St :=
  let F := fuelFor cfg
  match st.pc with
  | .rdHeaders => go cfg F .parsed st
  | .rdBody =>
    match st.segs with
    | .atom _ :: rest => go cfg F .body { st with segs := rest }
    | .line _ :: rest => go cfg F .body { st with segs := rest }
    | .data n :: rest =>
      let st := { st with segs := if n ≤ m then rest else .data (n - m) :: rest }
      if st.c.wf then go cfg F .body st
      else
        let st := st.emit (.data st.cur m)
        match cfg.dmode st.cur with
        | .async => { st with pc := .awaitD }
        | .raise => go cfg F .excQuiet st
        | .sync => go cfg F .body st
    | _ => st
  | _ => st

/-- a pending read failed with StreamClosedError -/
def failRead (cfg : Cfg) (st : St) : St :=
  let F := fuelFor cfg
  match st.pc with
  | .rdHeaders => go cfg F .exit st.finallyRM
  | .rdBody => go cfg F .excClosed st
  | _ => st

/-- the stream close callback `_on_connection_close` scheduled by `_signal_closed` runs -/
def runCloseCb (cfg : Cfg) (st : St) : St :=
  if st.s.cbQ then
    let st := { st with s := { st.s with cbQ := false } }
    if st.pc == .awaitFinish then
      let st := if st.c.cc then St.emit { st with c := { st.c with cc := false } } (.cc st.cur) else st
      let st := { st with c := { st.c with fd := true } }
      go cfg (fuelFor cfg) .afterFinish st
    else st
  else st

/-- READ readiness is dispatched to the stream -/
def dispatchRead (cfg : Cfg) (st : St) : St :=
  if st.s.listen && !st.s.closed then
    match st.s.onReadable (pendingRead cfg st) with
    | (s, some (.got m)) => resumeRead cfg { st with s := s } m
    | (s, some .closed) => failRead cfg { st with s := s }
    | (s, _) => runCloseCb cfg { st with s := s }
  else st

def step (cfg : Cfg) (st : St) (e : Ev) : St :=
  let F := fuelFor cfg
  match e with
  | .feed n =>
    let k := min n (cfg.wireLen - st.fed)
    if k = 0 || st.s.eof || st.s.closed then st
    else dispatchRead cfg { st with s := { st.s with pend := st.s.pend + k }, fed := st.fed + k }
  | .eof =>
    if st.s.closed then st
    else dispatchRead cfg { st with s := { st.s with eof := true } }
  | .reset =>
    if st.s.closed || st.s.eof then st
    else dispatchRead cfg { st with s := { st.s with eof := true } }
  | .closeall =>
    -- stream.close() on every live server connection: a pending read fails, the close callback (if set) is
    -- scheduled; a detached or finished connection is no longer in `HTTPServer._connections`
    if st.s.closed || st.pc == .done then st
    else
      let st := { st with s := st.s.close }
      match st.pc with
      | .rdHeaders | .rdBody => failRead cfg st
      | _ => runCloseCb cfg st
  | .timer =>
    match st.pc with
    | .rdHeaders =>
      -- header timeout: self.close(); return False
      let st := { st with s := st.s.close, c := { st.c with fd := true } }
      go cfg F .exit st.finallyRM
    | .rdBody =>
      if cfg.bt then
        -- body timeout: self.stream.close(); return False  (+ finally)
        go cfg F .exit (St.finallyRM { st with s := st.s.close })
      else st
    | .awaitD =>
      if cfg.bt then go cfg F .exit (St.finallyRM { st with s := st.s.close }) else st
    | _ => st
  | .resH => if st.pc == .awaitH then go cfg F .afterH st else st
  | .resD => if st.pc == .awaitD then go cfg F .body st else st
  | .respond =>
    match st.active with
    | none => st
    | some j =>
      if st.responded then st
      else if j == st.cur && st.pc != .rdHeaders && st.pc != .done then
        match cfg.req? j with
        | none => st
        | some r =>
          let waiting := st.pc == .awaitFinish
          let st := appRespond r st
          if waiting then go cfg F .afterFinish st
          else if st.pc == .rdBody && st.s.closed then failRead cfg st   -- the pending body read fails
          else st
      else
        -- a delegate whose exchange is over (its stream is closed): nothing reaches the wire
        St.emit { st with responded := true } (.respond j)

def init (cfg : Cfg) : St := go cfg (fuelFor cfg) .loopTop {}

/-- the state after a whole event list (`out` accumulates every notification) -/
def exec (cfg : Cfg) (evs : List Ev) : St := evs.foldl (step cfg) (init cfg)

/-- the whole trace of a run -/
def trace (cfg : Cfg) (evs : List Ev) : List Out := (exec cfg evs).out

/-- for the driver: per event, the notifications it produced and whether the stream is closed afterwards -/
def runFrom (cfg : Cfg) (st : St) : List Ev → St × List (List Out × Bool)
  | [] => (st, [])
  | e :: es =>
    let st1 := step cfg st e
    let (stf, rest) := runFrom cfg st1 es
    (stf, (st1.out.drop st.out.length, st1.s.closed) :: rest)

def run (cfg : Cfg) (evs : List Ev) : St × List (List Out × Bool) :=
  let st0 := init cfg
  let (stf, rest) := runFrom cfg st0 evs
  (stf, (st0.out, st0.s.closed) :: rest)

end TornadoModel.C05
