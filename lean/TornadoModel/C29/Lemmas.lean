/- C29 — helper lemmas: insertion-ordered dict, infix test, feeding the transform. -/
import TornadoModel.C29.Spec
namespace TornadoModel.C29
open TornadoModel.C02
open TornadoModel.C06 (Str dget dset ddel normalize)

theorem dget_dset_same {β} (k : Str) (v : β) (h : List (Str × β)) : dget k (dset k v h) = some v := by
  induction h with
  | nil => simp [dset, dget]
  | cons p r ih =>
    obtain ⟨k', v'⟩ := p
    by_cases hk : k' = k
    · simp [dset, dget, hk]
    · simp [dset, dget, hk, ih]

theorem dget_dset_ne {β} (k k' : Str) (v : β) (h : List (Str × β)) (hne : k' ≠ k) :
    dget k (dset k' v h) = dget k h := by
  induction h with
  | nil => simp [dset, dget, hne]
  | cons p r ih =>
    obtain ⟨k2, v2⟩ := p
    by_cases hk : k2 = k'
    · subst hk; simp [dset, dget, hne]
    · by_cases hk2 : k2 = k
      · subst hk2; simp [dset, dget, hk]
      · simp [dset, dget, hk, hk2, ih]

theorem dget_ddel_ne {β} (k k' : Str) (h : List (Str × β)) (hne : k' ≠ k) :
    dget k (ddel k' h) = dget k h := by
  induction h with
  | nil => simp [ddel, dget]
  | cons p r ih =>
    obtain ⟨k2, v2⟩ := p
    by_cases hk : k2 = k'
    · subst hk; simp [ddel, dget, hne, ih]
    · by_cases hk2 : k2 = k
      · subst hk2; simp [ddel, dget, hk]
      · simp [ddel, dget, hk, hk2, ih]

theorem hget_hset_same (h : HMap) (n v : Str) : hget (hset h n v) n = v := by
  simp [hget, hset, dget_dset_same, C06.joinWith]

theorem hget_hset_ne (h : HMap) (n m v : Str) (hne : normalize m ≠ normalize n) :
    hget (hset h m v) n = hget h n := by
  simp [hget, hset, dget_dset_ne _ _ _ _ hne]

theorem hget_hdel_ne (h : HMap) (n m : Str) (hne : normalize m ≠ normalize n) :
    hget (hdel h m) n = hget h n := by
  simp [hget, hdel, dget_ddel_ne _ _ _ hne]

theorem hhas_hset_same (h : HMap) (n v : Str) : hhas (hset h n v) n = true := by
  simp [hhas, hset, dget_dset_same]

theorem hhas_hset_ne (h : HMap) (n m v : Str) (hne : normalize m ≠ normalize n) :
    hhas (hset h m v) n = hhas h n := by
  simp [hhas, hset, dget_dset_ne _ _ _ _ hne]

theorem dget_ddel_same {β} (k : Str) (h : List (Str × β)) (hnd : (h.map (·.1)).Nodup) :
    dget k (ddel k h) = none := by
  induction h with
  | nil => simp [ddel, dget]
  | cons p r ih =>
    obtain ⟨k2, v2⟩ := p
    simp only [List.map_cons, List.nodup_cons] at hnd
    by_cases hk : k2 = k
    · subst hk
      simp only [ddel, if_true]
      -- k2 does not occur among the remaining keys
      have : ∀ (l : List (Str × β)), k2 ∉ l.map (·.1) → dget k2 l = none := by
        intro l hl
        induction l with
        | nil => simp [dget]
        | cons q qs ihq =>
          obtain ⟨k3, v3⟩ := q
          simp only [List.map_cons, List.mem_cons, not_or] at hl
          have : k3 ≠ k2 := fun e => hl.1 e.symm
          simp [dget, this, ihq hl.2]
      exact ih hnd.2
    · simp [ddel, dget, hk, ih hnd.2]

/-! ### infix -/

theorem isInfix_append_left (n pre : Str) (hn : isInfix n n = true) : isInfix n (pre ++ n) = true := by
  induction pre with
  | nil => simpa using hn
  | cons c cs ih => simp [isInfix, ih]

theorem isInfix_vAE_suffix (pre : Str) : isInfix vAE (pre ++ vCommaAE) = true := by
  have : pre ++ vCommaAE = (pre ++ [44, 32]) ++ vAE := by simp [vCommaAE, vAE]
  rw [this]
  exact isInfix_append_left vAE _ (by decide)

/-! ### feeding a sequence of chunks through `transform_chunk` -/

def feed (gz : Gz) : TSt → GzHist → Option (TSt × List Bytes)
  | t, [] => some (t, [])
  | t, (c, f) :: rest =>
    match transformChunk gz t c f with
    | none => none
    | some (t', o) =>
      match feed gz t' rest with
      | none => none
      | some (t'', os) => some (t'', o :: os)

theorem feed_gzipping (gz : Gz) (ini : GzHist) (c : Bytes) (hini : ∀ p ∈ ini, p.2 = false) :
    ∀ (t : TSt), t.gzipping = true → t.fileClosed = false →
      ∃ t', feed gz t (ini ++ [(c, true)]) = some (t', Spec.outputsFrom gz t.hist (ini ++ [(c, true)])) := by
  induction ini with
  | nil =>
    intro t hg hc
    simp [feed, transformChunk, hg, hc, Spec.outputsFrom]
  | cons p ps ih =>
    intro t hg hc
    obtain ⟨pc, pf⟩ := p
    have hpf : pf = false := hini (pc, pf) (by simp)
    subst hpf
    have hps : ∀ q ∈ ps, q.2 = false := fun q hq => hini q (by simp [hq])
    obtain ⟨t', ht'⟩ := ih hps { gzipping := true, hist := t.hist ++ [(pc, false)], fileClosed := false } rfl rfl
    refine ⟨t', ?_⟩
    simp only [] at ht'
    simp [feed, transformChunk, hg, hc, Spec.outputsFrom, ht']

theorem feed_identity (gz : Gz) (calls : GzHist) (t : TSt) (hg : t.gzipping = false) :
    feed gz t calls = some (t, calls.map (·.1)) := by
  induction calls with
  | nil => simp [feed]
  | cons p ps ih =>
    obtain ⟨c, f⟩ := p
    simp [feed, transformChunk, hg, ih]

end TornadoModel.C29
