/- C29 — run level, for EVERY program: the gzip writer is used only if the request's Accept-Encoding mentions gzip.
   Generic principle: a predicate on (transform state, headers-written flag) that every `flush` preserves holds at
   the end of every run. -/
import TornadoModel.C29.RunVary
namespace TornadoModel.C29
open TornadoModel.C02 TornadoModel.C02.Spec
open TornadoModel.C06 (Str normalize dget dset ddel isToken joinWith stripWs)

section generic
variable (gz : Gz) (rq : Req) (P : TSt → Bool → Prop)
variable (hfl : ∀ (s : St) (fin : Bool), P s.t s.base.headersWritten →
  P (hFlush gz rq s fin).1.t (hFlush gz rq s fin).1.base.headersWritten)
include hfl

theorem P_hFinish (s : St) (b : Option Bytes) (v : P s.t s.base.headersWritten) :
    P (hFinish gz rq s b).1.t (hFinish gz rq s b).1.base.headersWritten := by
  by_cases hf : s.base.finished = true
  · have : hFinish gz rq s b = (s, true) := by unfold hFinish; rw [if_pos hf]
    rw [this]; exact v
  · have hf' : s.base.finished = false := by simpa using hf
    obtain ⟨p, hp⟩ : ∃ p, p = (if (!(addBuf s.base b).headersWritten) = true then finishPrep rq (addBuf s.base b)
             else (addBuf s.base b, false)) := ⟨_, rfl⟩
    have hab : (addBuf s.base b).headersWritten = s.base.headersWritten := by cases b <;> rfl
    have hp1 : p.1.headersWritten = s.base.headersWritten := by
      rw [hp]
      split
      · exact (finishPrep_same rq (addBuf s.base b)).2.trans hab
      · exact hab
    have v1 : P ({ s with base := p.1 } : St).t ({ s with base := p.1 } : St).base.headersWritten := by
      show P s.t p.1.headersWritten
      rw [hp1]; exact v
    have v2 := hfl { s with base := p.1 } true v1
    rw [hFinish_stages29 gz rq s b hf' p hp]
    split
    · exact v1
    · split
      · exact v2
      · split <;> exact v2

theorem P_onException (s : St) (v : P s.t s.base.headersWritten) :
    P (onException gz rq s).t (onException gz rq s).base.headersWritten := by
  unfold onException
  split
  · exact v
  · split
    · exact P_hFinish gz rq P hfl s none v
    · have v2 := P_hFinish gz rq P hfl
        { s with base := { s.base with hdrs := defaultHdrs rq, buf := [], status := 500 } } (some (errorPage 500)) v
      simp only []
      split
      · exact P_hFinish gz rq P hfl _ none v2
      · exact v2

theorem P_step (s : St) (op : Op) (v : P s.t s.base.headersWritten) :
    P (step gz rq s op).1.t (step gz rq s op).1.base.headersWritten := by
  by_cases h1 : op = .flush
  · subst h1; exact hfl s false v
  · by_cases h2 : ∃ x, op = .finish x
    · obtain ⟨x, rfl⟩ := h2; exact P_hFinish gz rq P hfl s x v
    · have h2' : ∀ x, op ≠ .finish x := fun x e => h2 ⟨x, e⟩
      rw [step_eq_other gz rq s op h1 h2']
      show P s.t (C02.step rq s.base op).1.headersWritten
      rw [(step_other_conn rq s.base op h1 h2').2]; exact v

theorem P_runOps (prog : List Op) : ∀ (s : St), P s.t s.base.headersWritten →
    P (runOps gz rq s prog).t (runOps gz rq s prog).base.headersWritten := by
  induction prog with
  | nil =>
    intro s v
    unfold runOps
    split
    · exact v
    · have v1 := P_hFinish gz rq P hfl s none v
      simp only []
      split
      · exact P_onException gz rq P hfl _ v1
      · exact v1
  | cons op ops ih =>
    intro s v
    unfold runOps
    split
    · exact v
    · have v1 := P_step gz rq P hfl s op v
      simp only []
      split
      · exact P_onException gz rq P hfl _ v1
      · exact ih _ v1
end generic

/-! ### the gzip writer is used only when Accept-Encoding mentions gzip -/

def GzP (ae : Option Str) (t : TSt) (hw : Bool) : Prop :=
  (t.gzipping = true → mentionsGzip ae = true) ∧ (t.hist ≠ [] → t.gzipping = true) ∧ (hw = false → t.hist = [])

theorem transformChunk_gz (gz : Gz) (t t' : TSt) (c o : Bytes) (f : Bool)
    (h : transformChunk gz t c f = some (t', o)) :
    t'.gzipping = t.gzipping ∧ (t.gzipping = false → t' = t) := by
  unfold transformChunk at h
  split at h
  · split at h
    · cases h
    · simp only [Option.some.injEq, Prod.mk.injEq] at h
      rename_i hg _
      refine ⟨by rw [← h.1], fun hf => ?_⟩
      rw [hg] at hf; cases hf
  · simp only [Option.some.injEq, Prod.mk.injEq] at h
    exact ⟨by rw [← h.1], fun _ => h.1.symm⟩

theorem transformFirst_gz (gz : Gz) (t : TSt) (status : Nat) (h : HMap) (chunk : Bytes) (fin : Bool) :
    ((transformFirst gz t status h chunk fin).1.gzipping = true → t.gzipping = true) ∧
    ((transformFirst gz t status h chunk fin).1.gzipping = false →
      (transformFirst gz t status h chunk fin).1.hist = t.hist) := by
  unfold transformFirst
  simp only []
  by_cases hd : decide1 t status (addVary h) chunk fin = true
  · have hg : t.gzipping = true := by
      unfold decide1 at hd; simp only [Bool.and_eq_true] at hd; exact hd.1
    simp only [hd, if_true]
    cases htc : transformChunk gz { t with gzipping := true } chunk fin with
    | none => exact ⟨fun _ => hg, fun hf => by cases hf⟩
    | some p =>
      obtain ⟨t2, o⟩ := p
      have := (transformChunk_gz gz _ t2 chunk o fin htc).1
      simp only [] at this ⊢
      exact ⟨fun _ => hg, fun hf => by rw [this] at hf; cases hf⟩
  · have hd' : decide1 t status (addVary h) chunk fin = false := by simpa using hd
    simp [hd']

theorem GzP_hFlush (gz : Gz) (rq : Req) (ae : Option Str) (s : St) (fin : Bool)
    (v : GzP ae s.t s.base.headersWritten) :
    GzP ae (hFlush gz rq s fin).1.t (hFlush gz rq s fin).1.base.headersWritten := by
  obtain ⟨v1, v2, v3⟩ := v
  by_cases hw : s.base.headersWritten = true
  · have hwf : ∀ x : Bool, x = true → (x = false → (∀ t : TSt, t.hist = [])) := fun x hx h => by rw [hx] at h; cases h
    cases ht : transformChunk gz s.t s.base.buf.flatten fin with
    | none =>
      have e : hFlush gz rq s fin = ({ base := { s.base with buf := [] }, t := s.t }, true) := by
        rw [hFlush_eq gz rq s fin (Or.inl hw)]
        simp [hFlushT, hw, ht]
      rw [e]
      exact ⟨v1, v2, fun h => (by rw [show ({ s.base with buf := [] } : C02.St).headersWritten = true from hw] at h; cases h)⟩
    | some p =>
      obtain ⟨t', chunk'⟩ := p
      rw [hFlush_written gz rq s fin hw t' chunk' ht]
      obtain ⟨_, b⟩ := hFlushCore_head_written rq s.base [chunk'] hw
      obtain ⟨g1, g2⟩ := transformChunk_gz gz s.t t' _ chunk' fin ht
      refine ⟨fun h => v1 (g1 ▸ h), fun h => ?_, fun h => (by rw [b] at h; cases h)⟩
      show t'.gzipping = true
      cases hg : s.t.gzipping with
      | true => rw [g1, hg]
      | false =>
        have := g2 hg
        subst this
        exact v2 h
  · have hw' : s.base.headersWritten = false := by simpa using hw
    by_cases hv : clValid s.base.hdrs = true
    case neg =>
      rw [hFlush_reject gz rq s fin hw' (by simpa using hv)]
      exact ⟨v1, v2, v3⟩
    rw [hFlush_unwritten gz rq s fin hw' hv]
    obtain ⟨g1, g2⟩ := transformFirst_gz gz s.t s.base.status s.base.hdrs s.base.buf.flatten fin
    refine ⟨fun h => v1 (g1 h), fun h => ?_, fun h => (by rw [show _ = true from hFlushCore_hw rq _] at h; cases h)⟩
    cases hg : (transformFirst gz s.t s.base.status s.base.hdrs s.base.buf.flatten fin).1.gzipping with
    | true => rfl
    | false =>
      exfalso
      apply h
      show (transformFirst gz s.t s.base.status s.base.hdrs s.base.buf.flatten fin).1.hist = []
      rw [g2 hg]; exact v3 hw'

end TornadoModel.C29
