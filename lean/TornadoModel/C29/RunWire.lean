/- C29 — run level, for EVERY program: the header block recorded by `write_headers` (ghost `head`) is what the wire
   starts with.  Generic principle for state predicates + the wire-prefix invariant. -/
import TornadoModel.C29.RunGz
namespace TornadoModel.C29
open TornadoModel.C02 TornadoModel.C02.Spec
open TornadoModel.C06 (Str normalize dget dset ddel isToken joinWith stripWs)

theorem hFlush_ok_hw (gz : Gz) (rq : Req) (s : St) (fin : Bool) (h : (hFlush gz rq s fin).2 = false) :
    (hFlush gz rq s fin).1.base.headersWritten = true := by
  by_cases hw : s.base.headersWritten = true
  · cases ht : transformChunk gz s.t s.base.buf.flatten fin with
    | none =>
      have e : hFlush gz rq s fin = ({ base := { s.base with buf := [] }, t := s.t }, true) := by
        rw [hFlush_eq gz rq s fin (Or.inl hw)]
        simp [hFlushT, hw, ht]
      rw [e] at h; cases h
    | some p =>
      obtain ⟨t', chunk'⟩ := p
      rw [hFlush_written gz rq s fin hw t' chunk' ht]
      exact hFlushCore_hw rq _
  · have hw' : s.base.headersWritten = false := by simpa using hw
    by_cases hv : clValid s.base.hdrs = true
    · rw [hFlush_unwritten gz rq s fin hw' hv]; exact hFlushCore_hw rq _
    · rw [hFlush_reject gz rq s fin hw' (by simpa using hv)] at h; cases h

section generic
variable (gz : Gz) (rq : Req) (Q : St → Prop)
variable (hcongr : ∀ (s s' : St), s'.t = s.t → s'.base.conn = s.base.conn →
  s'.base.headersWritten = s.base.headersWritten → Q s → Q s')
variable (hfl : ∀ (s : St) (fin : Bool), Q s → Q (hFlush gz rq s fin).1)
variable (hcf : ∀ (s : St) (f : Bool), Q s → s.base.headersWritten = true →
  Q { s with base := { s.base with conn := (cFinish s.base.conn).1, finished := f } })
include hcongr hfl hcf

theorem Q_hFinish (s : St) (b : Option Bytes) (v : Q s) : Q (hFinish gz rq s b).1 := by
  by_cases hf : s.base.finished = true
  · have : hFinish gz rq s b = (s, true) := by unfold hFinish; rw [if_pos hf]
    rw [this]; exact v
  · have hf' : s.base.finished = false := by simpa using hf
    obtain ⟨p, hp⟩ : ∃ p, p = (if (!(addBuf s.base b).headersWritten) = true then finishPrep rq (addBuf s.base b)
             else (addBuf s.base b, false)) := ⟨_, rfl⟩
    have hab : (addBuf s.base b).conn = s.base.conn ∧ (addBuf s.base b).headersWritten = s.base.headersWritten := by
      cases b <;> exact ⟨rfl, rfl⟩
    have hp1 : p.1.conn = s.base.conn ∧ p.1.headersWritten = s.base.headersWritten := by
      rw [hp]
      split
      · obtain ⟨a1, a2⟩ := finishPrep_same rq (addBuf s.base b)
        exact ⟨a1.trans hab.1, a2.trans hab.2⟩
      · exact hab
    have v1 : Q { s with base := p.1 } := hcongr s _ rfl hp1.1 hp1.2 v
    have v2 := hfl { s with base := p.1 } true v1
    rw [hFinish_stages29 gz rq s b hf' p hp]
    split
    · exact v1
    · split
      · exact v2
      · rename_i hq2
        have hw3 := hFlush_ok_hw gz rq _ true (by simpa using hq2)
        split
        · have := hcf _ (hFlush gz rq { s with base := p.1 } true).1.base.finished v2 hw3
          exact this
        · exact hcf _ true v2 hw3

theorem Q_onException (s : St) (v : Q s) : Q (onException gz rq s) := by
  unfold onException
  split
  · exact v
  · split
    · exact Q_hFinish gz rq Q hcongr hfl hcf s none v
    · have v1 : Q { s with base := { s.base with hdrs := defaultHdrs rq, buf := [], status := 500 } } :=
        hcongr s _ rfl rfl rfl v
      have v2 := Q_hFinish gz rq Q hcongr hfl hcf _ (some (errorPage 500)) v1
      simp only []
      split
      · exact Q_hFinish gz rq Q hcongr hfl hcf _ none v2
      · exact v2

theorem Q_step (s : St) (op : Op) (v : Q s) : Q (step gz rq s op).1 := by
  by_cases h1 : op = .flush
  · subst h1; exact hfl s false v
  · by_cases h2 : ∃ x, op = .finish x
    · obtain ⟨x, rfl⟩ := h2; exact Q_hFinish gz rq Q hcongr hfl hcf s x v
    · have h2' : ∀ x, op ≠ .finish x := fun x e => h2 ⟨x, e⟩
      rw [step_eq_other gz rq s op h1 h2']
      obtain ⟨c1, c2⟩ := step_other_conn rq s.base op h1 h2'
      exact hcongr s _ rfl c1 c2 v

theorem Q_runOps (prog : List Op) : ∀ (s : St), Q s → Q (runOps gz rq s prog) := by
  induction prog with
  | nil =>
    intro s v
    unfold runOps
    split
    · exact v
    · have v1 := Q_hFinish gz rq Q hcongr hfl hcf s none v
      simp only []
      split
      · exact Q_onException gz rq Q hcongr hfl hcf _ v1
      · exact v1
  | cons op ops ih =>
    intro s v
    unfold runOps
    split
    · exact v
    · have v1 := Q_step gz rq Q hcongr hfl hcf s op v
      simp only []
      split
      · exact Q_onException gz rq Q hcongr hfl hcf _ v1
      · exact ih _ v1
end generic

/-! ### the serialised head is what the wire starts with -/

theorem fmtChunk_out' (c : CSt) (chunk : Bytes) : (fmtChunk c chunk).1.out = c.out := by
  unfold fmtChunk
  cases hexp : c.expected with
  | none => rfl
  | some r =>
    simp only []
    by_cases hneg : r - (chunk.length : Int) < 0 <;> simp [hneg]

theorem fmtChunk_out_eq' (c : CSt) (chunk : Bytes) (c1 : CSt) (x : Option Bytes) (h : fmtChunk c chunk = (c1, x)) :
    c1.out = c.out := by
  have hk := fmtChunk_out' c chunk
  rw [h] at hk
  exact hk

theorem cWrite_wire (c : CSt) (ch : Bytes) : ∃ x, wire (cWrite c ch).1 = wire c ++ x := by
  unfold cWrite
  split
  · exact ⟨[], by simp⟩
  · split
    · rename_i c1 heq
      exact ⟨[], by simp [wire, (fmtChunk_out_eq' _ _ _ _ heq)]⟩
    · rename_i c1 data heq
      refine ⟨data, ?_⟩
      simp [wire, (fmtChunk_out_eq' _ _ _ _ heq)]

theorem cFinish_wire (c : CSt) : ∃ x, wire (cFinish c).1 = wire c ++ x := by
  unfold cFinish
  cases c.expected with
  | none =>
    simp only []
    split
    · exact ⟨lastChunk, by simp [wire]⟩
    · exact ⟨[], by simp [wire]⟩
  | some r =>
    simp only []
    split
    · exact ⟨[], by simp [wire]⟩
    · split
      · exact ⟨lastChunk, by simp [wire]⟩
      · exact ⟨[], by simp [wire]⟩

theorem cwh_wire (rq : Req) (c0 : CSt) (code : Nat) (h : HMap) (chunk : Bytes) (h0 : c0.head = none)
    (ho : c0.out = []) (code' : Nat) (hs : List (Str × Str))
    (hh : (cWriteHeaders rq c0 code h chunk).1.head = some (code', hs)) :
    ∃ rest, wire (cWriteHeaders rq c0 code h chunk).1 = headBytes code' hs ++ rest := by
  unfold cWriteHeaders at hh ⊢
  simp only [] at hh ⊢
  split at hh
  · simp [h0] at hh
  · split at hh
    · simp [h0] at hh
    · split at hh
      · simp only [Option.some.injEq, Prod.mk.injEq] at hh
        obtain ⟨rfl, rfl⟩ := hh
        rename_i h1 h2 h3
        refine ⟨[], ?_⟩
        simp [h1, h2, h3, wire, ho]
      · split at hh
        · rename_i c1 heq
          have := congrArg (fun p => p.1.head) heq
          simp only [fmtChunk_head] at this
          simp only [] at hh
          rw [← this, h0] at hh
          cases hh
        · rename_i h1 h2 h3 _ c1 data heq
          simp only [Option.some.injEq, Prod.mk.injEq] at hh
          obtain ⟨rfl, rfl⟩ := hh
          refine ⟨data, ?_⟩
          have hout := (fmtChunk_out_eq' _ _ _ _ heq)
          simp only [] at hout
          simp [h1, h2, h3, heq, wire, hout, ho]

def WQ (s : St) : Prop :=
  VI s ∧ (s.base.headersWritten = false → s.base.conn.out = []) ∧
  (∀ code hs, s.base.conn.head = some (code, hs) → ∃ rest, wire s.base.conn = headBytes code hs ++ rest)

theorem hFlushCore_wire_written (rq : Req) (b : C02.St) (x : List Bytes) (hw : b.headersWritten = true) :
    ∃ y, wire (hFlushCore rq { b with buf := x }).1.conn = wire b.conn ++ y := by
  unfold hFlushCore
  simp only [hw, Bool.not_true, Bool.false_eq_true, if_false]
  split
  · exact cWrite_wire _ _
  · exact ⟨[], by simp⟩

theorem WQ_congr (s s' : St) (ht : s'.t = s.t) (hc : s'.base.conn = s.base.conn)
    (hw : s'.base.headersWritten = s.base.headersWritten) (v : WQ s) : WQ s' := by
  refine ⟨VI_congr s s' hw (by rw [ht]) (by rw [hc]) v.1, ?_, ?_⟩
  · rw [hw, hc]; exact v.2.1
  · rw [hc]; exact v.2.2

theorem WQ_ext (s s' : St) (hw : s'.base.headersWritten = true) (hh : s'.base.conn.head = s.base.conn.head)
    (hx : ∃ y, wire s'.base.conn = wire s.base.conn ++ y) (v : WQ s) : WQ s' := by
  refine ⟨VI_written s s' hw hh v.1, fun h => (by rw [hw] at h; cases h), ?_⟩
  intro code hs h
  rw [hh] at h
  obtain ⟨rest, hr⟩ := v.2.2 code hs h
  obtain ⟨y, hy⟩ := hx
  exact ⟨rest ++ y, by rw [hy, hr, List.append_assoc]⟩

theorem WQ_hFlush (gz : Gz) (rq : Req) (s : St) (fin : Bool) (v : WQ s) : WQ (hFlush gz rq s fin).1 := by
  by_cases hw : s.base.headersWritten = true
  · cases ht : transformChunk gz s.t s.base.buf.flatten fin with
    | none =>
      have e : hFlush gz rq s fin = ({ base := { s.base with buf := [] }, t := s.t }, true) := by
        rw [hFlush_eq gz rq s fin (Or.inl hw)]
        simp [hFlushT, hw, ht]
      rw [e]
      exact WQ_congr s _ rfl rfl rfl v
    | some p =>
      obtain ⟨t', chunk'⟩ := p
      rw [hFlush_written gz rq s fin hw t' chunk' ht]
      obtain ⟨a, b⟩ := hFlushCore_head_written rq s.base [chunk'] hw
      exact WQ_ext s _ b a (hFlushCore_wire_written rq s.base [chunk'] hw) v
  · have hw' : s.base.headersWritten = false := by simpa using hw
    by_cases hv : clValid s.base.hdrs = true
    · obtain ⟨_, h0⟩ := v.1.1 hw'
      have ho := v.2.1 hw'
      refine ⟨(VI_hFlush gz rq s fin v.1).1, ?_, ?_⟩
      · rw [hFlush_unwritten gz rq s fin hw' hv]
        intro h
        rw [show _ = true from hFlushCore_hw rq _] at h; cases h
      · rw [hFlush_unwritten gz rq s fin hw' hv]
        intro code hs hh
        simp only [] at hh ⊢
        rw [hFlushCore_conn_unwritten rq s.base _ _ hw'] at hh ⊢
        exact cwh_wire rq _ _ _ _ h0 ho code hs hh
    · rw [hFlush_reject gz rq s fin hw' (by simpa using hv)]
      exact v

theorem WQ_cFinish (s : St) (f : Bool) (v : WQ s) (hw : s.base.headersWritten = true) :
    WQ { s with base := { s.base with conn := (cFinish s.base.conn).1, finished := f } } :=
  WQ_ext s _ hw (cFinish_head _) (cFinish_wire _) v

theorem WQ_init (rq : Req) (ae : Option Str) : WQ (init rq ae) :=
  ⟨VI_init rq ae, fun _ => rfl, fun code hs h => (by cases h)⟩

theorem WQ_run (gz : Gz) (rq : Req) (ae : Option Str) (prog : List Op) : WQ (run gz rq ae prog) :=
  Q_runOps gz rq WQ WQ_congr (WQ_hFlush gz rq) WQ_cFinish prog (init rq ae) (WQ_init rq ae)

end TornadoModel.C29
