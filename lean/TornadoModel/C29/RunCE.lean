/- C29 — run level, second part: in a clean run the `Content-Encoding` header the client sees is `gzip` exactly
   when the transform compressed (no handler-set Content-Encoding), so that decoding *according to the header*
   (`Spec.decodeBody`) returns the handler's writes. -/
import TornadoModel.C29.RunLevel
namespace TornadoModel.C29
open TornadoModel.C02 TornadoModel.C02.Spec
open TornadoModel.C06 (Str normalize dget dset ddel isToken joinWith stripWs)

/-- clean ops that also leave `Content-Encoding` to the framework -/
def opClean29 : Op → Bool
  | .setHeader n v => opClean (.setHeader n v) && (normalize n != nCE)
  | .addHeader n v => opClean (.addHeader n v) && (normalize n != nCE)
  | op => opClean op

theorem opClean_of_29 (op : Op) (h : opClean29 op = true) : opClean op = true := by
  cases op <;> simp only [opClean29, Bool.and_eq_true] at h <;> first | exact h.1 | exact h

theorem norm_nCE : normalize nCE = nCE := by decide

/-! ### connection-level facts about the ghost `head` -/

theorem fmtChunk_head (c : CSt) (chunk : Bytes) : (fmtChunk c chunk).1.head = c.head := by
  unfold fmtChunk
  cases hexp : c.expected with
  | none => rfl
  | some r =>
    simp only []
    by_cases hneg : r - (chunk.length : Int) < 0 <;> simp [hneg]

theorem cWrite_head (c : CSt) (chunk : Bytes) : (cWrite c chunk).1.head = c.head := by
  have hk := fmtChunk_head c chunk
  unfold cWrite
  split
  · rfl
  · split
    · rename_i heq; rw [heq] at hk; exact hk
    · rename_i heq; rw [heq] at hk; exact hk

theorem cFinish_head (c : CSt) : (cFinish c).1.head = c.head := by
  unfold cFinish
  cases c.expected with
  | none => simp only []; split <;> rfl
  | some r => simp only []; split <;> (try split) <;> rfl

/-- whatever `write_headers` records as the head on a connection that had none is the serialisation of
    `finalHeaders` of the map it was given -/
theorem cwh_head (rq : Req) (c0 : CSt) (code : Nat) (h : HMap) (chunk : Bytes) (h0 : c0.head = none)
    (code' : Nat) (hs : List (Str × Str))
    (hh : (cWriteHeaders rq c0 code h chunk).1.head = some (code', hs)) :
    hs = getAll (finalH rq c0 code h) := by
  unfold cWriteHeaders at hh
  simp only [] at hh
  split at hh
  · simp [h0] at hh
  · split at hh
    · simp [h0] at hh
    · split at hh
      · simp only [Option.some.injEq, Prod.mk.injEq] at hh; exact hh.2.symm
      · split at hh
        · rename_i c1 heq
          have := congrArg (fun p => p.1.head) heq
          simp only [fmtChunk_head] at this
          simp only [] at hh
          rw [← this, h0] at hh
          cases hh
        · simp only [Option.some.injEq, Prod.mk.injEq] at hh; exact hh.2.symm

theorem dget_nCE_finalHeaders (rq : Req) (disc chunking : Bool) (code : Nat) (h : HMap) :
    dget nCE (finalHeaders rq disc chunking code h) = dget nCE h := by
  have hs : ∀ (b : Bool) (m : HMap) (n v : Str), normalize n ≠ nCE →
      dget nCE (if b = true then hset m n v else m) = dget nCE m := by
    intro b m n v hne
    cases b
    · rfl
    · simp only [if_true]; unfold hset; exact dget_dset_ne _ _ _ _ hne
  unfold finalHeaders
  simp only []
  rw [hs _ _ nTE vChunked (by decide), hs _ _ nConn vKeepAlive (by decide), hs _ _ nConn vClose (by decide)]

theorem lookup_ce (rq : Req) (c0 : CSt) (code : Nat) (h : HMap) (hok : HOK h) :
    lookup Spec.lcCE (stripHs (getAll (finalH rq c0 code h))) = match dget nCE h with
      | some vs => vs.map stripWs
      | none => [] := by
  obtain ⟨fk, _, _⟩ := finalHeaders_spec rq c0.disconnect (decideChunking rq code h) code h hok
  have := lookup_getAll (finalH rq c0 code h) fk nCE Spec.lcCE norm_nCE (by decide)
  unfold finalH at this ⊢
  rw [dget_nCE_finalHeaders] at this
  exact this

/-! ### the invariant -/

def ceOf (t : TSt) : List Bytes := if t.gzipping then [vGzip] else []

structure HI (s : St) : Prop where
  nce : s.base.headersWritten = false → dget nCE s.base.hdrs = none
  ce : s.base.headersWritten = true →
    ∃ code hs, s.base.conn.head = some (code, hs) ∧ lookup Spec.lcCE (stripHs hs) = ceOf s.t

theorem dget_nCE_addVary (h : HMap) : dget nCE (addVary h) = dget nCE h := by
  unfold addVary hset
  split <;> exact dget_dset_ne _ _ _ _ (by decide)

theorem dget_nCE_gzHdrs (h : HMap) (fin : Bool) (n : Nat) : dget nCE (gzHdrs h fin n) = some [vGzip] := by
  have h1 : dget nCE (hset (addVary h) nCE vGzip) = some [vGzip] := by
    unfold hset; rw [norm_nCE, dget_dset_same]
  unfold gzHdrs
  split
  · split
    · unfold hset; rw [dget_dset_ne _ _ _ _ (by decide)]; exact h1
    · unfold hdel; rw [C02.dget_ddel, if_neg (by decide)]; exact h1
  · exact h1

theorem hFlushCore_conn_unwritten (rq : Req) (b : C02.St) (h' : HMap) (x : List Bytes) (hw : b.headersWritten = false) :
    (hFlushCore rq { b with hdrs := h', buf := x }).1.conn =
      (cWriteHeaders rq b.conn b.status h' (if rq.method == .head then [] else x.flatten)).1 := by
  simp [hFlushCore, hw]

theorem hFlushCore_head_written (rq : Req) (b : C02.St) (x : List Bytes) (hw : b.headersWritten = true) :
    (hFlushCore rq { b with buf := x }).1.conn.head = b.conn.head ∧
    (hFlushCore rq { b with buf := x }).1.headersWritten = true := by
  unfold hFlushCore
  simp only [hw, Bool.not_true, Bool.false_eq_true, if_false]
  split
  · exact ⟨cWrite_head _ _, rfl⟩
  · exact ⟨rfl, rfl⟩

/-- the first flush (either kind) establishes the Content-Encoding link -/
theorem HI_first (gz : Gz) (rq : Req) (s : St) (fin : Bool) (hi : HI s) (hw : s.base.headersWritten = false)
    (hopen : s.t.fileClosed = false) (h0 : s.base.conn.head = none) (hok : HOK s.base.hdrs)
    (hv : clValid s.base.hdrs = true)
    (hw' : (hFlush gz rq s fin).1.base.headersWritten = true)
    (hhead : ∃ code hs, (hFlush gz rq s fin).1.base.conn.head = some (code, hs)) :
    HI (hFlush gz rq s fin).1 := by
  refine ⟨fun h => (by rw [hw'] at h; cases h), fun _ => ?_⟩
  obtain ⟨code, hs, hh⟩ := hhead
  refine ⟨code, hs, hh, ?_⟩
  rw [hFlush_unwritten gz rq s fin hw hv] at hh ⊢
  rcases transformFirst_cases gz s.t s.base.status s.base.hdrs s.base.buf.flatten fin hopen with e | e
  · rw [e] at hh ⊢
    simp only [] at hh ⊢
    rw [hFlushCore_conn_unwritten rq s.base _ _ hw] at hh
    have := cwh_head rq _ _ _ _ h0 code hs hh
    rw [this, lookup_ce rq _ _ _ (HOK_addVary _ hok), dget_nCE_addVary, hi.nce hw]
    rfl
  · rw [e] at hh ⊢
    simp only [] at hh ⊢
    rw [hFlushCore_conn_unwritten rq s.base _ _ hw] at hh
    have := cwh_head rq _ _ _ _ h0 code hs hh
    rw [this, lookup_ce rq _ _ _ (HOK_gzHdrs _ hok _ _), dget_nCE_gzHdrs]
    show [stripWs vGzip] = [vGzip]
    have : stripWs vGzip = vGzip := by decide
    rw [this]

/-- later flushes keep it -/
theorem HI_later (gz : Gz) (rq : Req) (s : St) (fin : Bool) (hi : HI s) (hw : s.base.headersWritten = true)
    (hopen : s.t.fileClosed = false) : HI (hFlush gz rq s fin).1 := by
  obtain ⟨code, hs, h1, h2⟩ := hi.ce hw
  cases hg : s.t.gzipping with
  | false =>
    have ht : transformChunk gz s.t s.base.buf.flatten fin = some (s.t, s.base.buf.flatten) := by
      rw [transformChunk_open gz s.t s.base.buf.flatten fin hopen]; simp [hg]
    rw [hFlush_written gz rq s fin hw _ _ ht]
    obtain ⟨a, b⟩ := hFlushCore_head_written rq s.base [s.base.buf.flatten] hw
    exact ⟨fun h => (by rw [b] at h; cases h), fun _ => ⟨code, hs, a.trans h1, h2⟩⟩
  | true =>
    have ht : transformChunk gz s.t s.base.buf.flatten fin =
        some ({ s.t with hist := s.t.hist ++ [(s.base.buf.flatten, fin)], fileClosed := fin },
          gz (s.t.hist ++ [(s.base.buf.flatten, fin)])) := by
      rw [transformChunk_open gz s.t s.base.buf.flatten fin hopen]; simp [hg]
    rw [hFlush_written gz rq s fin hw _ _ ht]
    obtain ⟨a, b⟩ := hFlushCore_head_written rq s.base [gz (s.t.hist ++ [(s.base.buf.flatten, fin)])] hw
    refine ⟨fun h => (by rw [b] at h; cases h), fun _ => ⟨code, hs, a.trans h1, ?_⟩⟩
    rw [h2]; simp [ceOf, hg]

/-- ops that do not reach the transform keep the invariant (they never touch Content-Encoding) -/
theorem HI_other (gz : Gz) (rq : Req) (s : St) (op : Op) (hi : HI s) (hop : opClean29 op = true)
    (h1 : op ≠ .flush) (h2 : ∀ x, op ≠ .finish x) : HI (step gz rq s op).1 := by
  rw [step_eq_other gz rq s op h1 h2]
  obtain ⟨c1, c2⟩ := step_other_conn rq s.base op h1 h2
  refine ⟨fun h => ?_, fun h => ?_⟩
  · have hw : s.base.headersWritten = false := c2 ▸ h
    have hn := hi.nce hw
    show dget nCE (C02.step rq s.base op).1.hdrs = none
    cases op with
    | setStatus c => exact hn
    | setHeader n v =>
      simp only [opClean29, Bool.and_eq_true, bne_iff_ne, ne_eq] at hop
      simp only [C02.step]
      split
      · exact hn
      · show dget nCE (hset s.base.hdrs n v) = none
        unfold hset; rw [dget_dset_ne _ _ _ _ hop.2]; exact hn
    | addHeader n v =>
      simp only [opClean29, Bool.and_eq_true, bne_iff_ne, ne_eq] at hop
      simp only [C02.step]
      split
      · exact hn
      · split
        · exact hn
        · show dget nCE (hadd s.base.hdrs n v) = none
          unfold hadd
          split <;> (rw [dget_dset_ne _ _ _ _ hop.2]; exact hn)
    | clearHeader n =>
      show dget nCE (if hhas s.base.hdrs n = true then hdel s.base.hdrs n else s.base.hdrs) = none
      split
      · unfold hdel; rw [C02.dget_ddel]; split
        · rfl
        · exact hn
      · exact hn
    | write x => simp only [C02.step]; split <;> exact hn
    | flush => exact absurd rfl h1
    | finish x => exact absurd rfl (h2 x)
  · have hw : s.base.headersWritten = true := c2 ▸ h
    obtain ⟨code, hs, a, b⟩ := hi.ce hw
    exact ⟨code, hs, (by show (C02.step rq s.base op).1.conn.head = _; rw [c1]; exact a), b⟩

/-- `finish()`'s preparation never adds a Content-Encoding -/
theorem finishPrep_nce (rq : Req) (b : C02.St) (hn : noBodyStatus b.status = false) (hinm : rq.inmMatch = false)
    (h : dget nCE b.hdrs = none) : dget nCE (finishPrep rq b).1.hdrs = none := by
  rw [finishPrep_eq]
  have he : dget nCE (fpEtag rq b).hdrs = none ∧ (fpEtag rq b).status = b.status := by
    unfold fpEtag
    split
    · rw [hinm]
      refine ⟨?_, rfl⟩
      show dget nCE (hset b.hdrs nEtag rq.etagV) = none
      unfold hset; rw [dget_dset_ne _ _ _ _ (by decide)]; exact h
    · exact ⟨h, rfl⟩
  unfold fpTail
  rw [he.2, hn]
  simp only [Bool.false_eq_true, if_false]
  split
  · show dget nCE (hset _ nCL _) = none
    unfold hset; rw [dget_dset_ne _ _ _ _ (by decide)]; exact he.1
  · exact he.1

theorem hFlushCore_hw (rq : Req) (b : C02.St) : (hFlushCore rq b).1.headersWritten = true := by
  cases hw : b.headersWritten with
  | false => simp [hFlushCore, hw]
  | true =>
    unfold hFlushCore
    simp only [hw, Bool.not_true, Bool.false_eq_true, if_false]
    split
    · rfl
    · rfl

theorem hFlush_hw29 (gz : Gz) (rq : Req) (s : St) (fin : Bool) (hopen : s.t.fileClosed = false)
    (hv : s.base.headersWritten = false → clValid s.base.hdrs = true) :
    (hFlush gz rq s fin).1.base.headersWritten = true := by
  by_cases hw : s.base.headersWritten = true
  · rw [hFlush_written gz rq s fin hw _ _ (transformChunk_open gz s.t _ fin hopen)]; exact hFlushCore_hw rq _
  · have hw' : s.base.headersWritten = false := by simpa using hw
    rw [hFlush_unwritten gz rq s fin hw' (hv hw')]; exact hFlushCore_hw rq _

theorem clValid_auto (h : HMap) (n : Nat) (hcl : dget nCL h = some [toDec n]) : clValid h = true := by
  unfold clValid hget
  rw [norm_nCL, hcl]
  simp only [C06.joinWith, parseDec_toDec]
  simp

/-- `finish(b)` in a clean run keeps / establishes the Content-Encoding link -/
theorem HI_finish (gz : Gz) (rq : Req) (hrq : reqOK rq = true) (hm : (rq.method == Method.head) = false)
    (hinm : rq.inmMatch = false) (s : St) (K : Nat) (b : Option Bytes) (ci : CI rq s.base K) (ti : TI gz s)
    (hi : HI s) : HI (hFinish gz rq s b).1 ∧ (hFinish gz rq s b).1.base.headersWritten = true := by
  obtain ⟨f1, _⟩ := hFinish_clean29 gz rq hrq hm hinm s K b ci ti
  have w0 := WF_addBuf rq s.base b ci.wf
  have hst : (addBuf s.base b).status = s.base.status := by cases b <;> rfl
  have hhw : (addBuf s.base b).headersWritten = s.base.headersWritten := by cases b <;> rfl
  have hcn : (addBuf s.base b).conn = s.base.conn := by cases b <;> rfl
  have hhd : (addBuf s.base b).hdrs = s.base.hdrs := by cases b <;> rfl
  obtain ⟨p, hp⟩ : ∃ p, p = (if (!(addBuf s.base b).headersWritten) = true then finishPrep rq (addBuf s.base b)
             else (addBuf s.base b, false)) := ⟨_, rfl⟩
  have hq : HI (hFlush gz rq { s with base := p.1 } true).1 := by
    by_cases hw : s.base.headersWritten = true
    · have hw0 : (addBuf s.base b).headersWritten = true := hhw.trans hw
      have : p = (addBuf s.base b, false) := by rw [hp]; simp [hw0]
      rw [this]
      have hi0 : HI { s with base := addBuf s.base b } :=
        ⟨fun h => absurd hw0 (bool_ne_of_eq_false h), fun _ => by
          obtain ⟨code, hs, a, c⟩ := hi.ce hw
          exact ⟨code, hs, (by show (addBuf s.base b).conn.head = _; rw [hcn]; exact a), c⟩⟩
      exact HI_later gz rq { s with base := addBuf s.base b } true hi0 hw0 ti.open_
    · have hw' : s.base.headersWritten = false := by simpa using hw
      have hw0 : (addBuf s.base b).headersWritten = false := hhw.trans hw'
      have : p = finishPrep rq (addBuf s.base b) := by rw [hp]; simp [hw0]
      rw [this]
      obtain ⟨q1, q2, q3, q4, q5, q6⟩ := finishPrep_clean rq hrq hinm (addBuf s.base b) (Pre_of_WF rq _ w0 hw0)
        (by rw [hst]; exact ci.nb) (by rw [hhd]; exact ci.ncl hw')
      have ti1 : TI gz { s with base := (finishPrep rq (addBuf s.base b)).1 } :=
        ⟨ti.open_, ti.fl, fun _ => ti.pre hw', fun h => by
          show (finishPrep rq (addBuf s.base b)).1.conn.sent.flatten = _
          rw [q5, hcn]; exact ti.out h⟩
      have r := finflush_first29 gz rq { s with base := (finishPrep rq (addBuf s.base b)).1 } ti1 q2 hm
        (by show noBodyStatus (finishPrep rq (addBuf s.base b)).1.status = false
            rw [q3, hst]; exact ci.nb)
        (by show dget nCL (finishPrep rq (addBuf s.base b)).1.hdrs = some [toDec (finishPrep rq (addBuf s.base b)).1.buf.flatten.length]
            rw [q6, q4])
      obtain ⟨_, _, _, _, _, _, hs, r7⟩ := r
      have hi1 : HI { s with base := (finishPrep rq (addBuf s.base b)).1 } :=
        ⟨fun _ => finishPrep_nce rq _ (by rw [hst]; exact ci.nb) hinm (by rw [hhd]; exact hi.nce hw'),
         fun h => absurd (show (finishPrep rq (addBuf s.base b)).1.headersWritten = true from h)
           (bool_ne_of_eq_false q2.2.2.2.1)⟩
      have hcv : clValid (finishPrep rq (addBuf s.base b)).1.hdrs = true := clValid_auto _ _ q6
      exact HI_first gz rq { s with base := (finishPrep rq (addBuf s.base b)).1 } true hi1 q2.2.2.2.1 ti.open_
        q2.2.2.2.2.1.2.2.2.2 q2.2.2.2.2.2 hcv (hFlush_hw29 gz rq _ true ti.open_ (fun _ => hcv)) ⟨_, hs, r7⟩
  have hqw : (hFlush gz rq { s with base := p.1 } true).1.base.headersWritten = true := by
    refine hFlush_hw29 gz rq { s with base := p.1 } true ti.open_ (fun hu => ?_)
    replace hu : p.1.headersWritten = false := hu
    show clValid p.1.hdrs = true
    have hw' : s.base.headersWritten = false := by
      by_cases hw : s.base.headersWritten = true
      · have hw0 : (addBuf s.base b).headersWritten = true := hhw.trans hw
        have : p = (addBuf s.base b, false) := by rw [hp]; simp [hw0]
        rw [this] at hu
        exact absurd (show (addBuf s.base b).headersWritten = true from hw0) (bool_ne_of_eq_false hu)
      · simpa using hw
    have hw0 : (addBuf s.base b).headersWritten = false := hhw.trans hw'
    have : p = finishPrep rq (addBuf s.base b) := by rw [hp]; simp [hw0]
    rw [this]
    obtain ⟨_, _, _, _, _, q6⟩ := finishPrep_clean rq hrq hinm (addBuf s.base b) (Pre_of_WF rq _ w0 hw0)
      (by rw [hst]; exact ci.nb) (by rw [hhd]; exact ci.ncl hw')
    exact clValid_auto _ _ q6
  rw [hFinish_stages29 gz rq s b ci.wf.fin p hp] at f1 ⊢
  by_cases c1 : p.2 = true
  · rw [if_pos c1] at f1; cases f1
  · rw [if_neg c1] at f1 ⊢
    by_cases c2 : (hFlush gz rq { s with base := p.1 } true).2 = true
    · rw [if_pos c2] at f1; cases f1
    · rw [if_neg c2] at f1 ⊢
      by_cases c3 : (cFinish (hFlush gz rq { s with base := p.1 } true).1.base.conn).2 = true
      · rw [if_pos c3] at f1; cases f1
      · rw [if_neg c3]
        refine ⟨⟨fun h => absurd hqw (bool_ne_of_eq_false h), fun _ => ?_⟩, hqw⟩
        obtain ⟨code, hs, a, c⟩ := hq.ce hqw
        exact ⟨code, hs, (by
          show (cFinish (hFlush gz rq { s with base := p.1 } true).1.base.conn).1.head = _
          rw [cFinish_head]; exact a), c⟩

theorem runOps_HI (gz : Gz) (rq : Req) (hrq : reqOK rq = true) (hm : (rq.method == Method.head) = false)
    (hinm : rq.inmMatch = false) (prog : List Op) :
    ∀ (s : St) (K : Nat), CI rq s.base K → TI gz s → HI s → (∀ op ∈ prog, opClean29 op = true) →
      HI (runOps gz rq s prog) ∧ (runOps gz rq s prog).base.headersWritten = true := by
  induction prog with
  | nil =>
    intro s K ci ti hi _
    obtain ⟨f1, _⟩ := hFinish_clean29 gz rq hrq hm hinm s K none ci ti
    have e : runOps gz rq s [] = (hFinish gz rq s none).1 := by
      unfold runOps
      rw [if_neg (bool_ne_of_eq_false ci.wf.fin)]
      simp [f1]
    rw [e]
    exact HI_finish gz rq hrq hm hinm s K none ci ti hi
  | cons op ops ih =>
    intro s K ci ti hi hops
    have hclean := hops op (by simp)
    by_cases hfin : ∃ b, op = .finish b
    · obtain ⟨b, rfl⟩ := hfin
      obtain ⟨f1, f2⟩ := hFinish_clean29 gz rq hrq hm hinm s K b ci ti
      have e : runOps gz rq s (.finish b :: ops) = (hFinish gz rq s b).1 := by
        unfold runOps
        rw [if_neg (bool_ne_of_eq_false ci.wf.fin)]
        simp only [step, f1, Bool.false_eq_true, if_false]
        exact runOps_finished29 gz rq _ ops f2.1
      rw [e]
      exact HI_finish gz rq hrq hm hinm s K b ci ti hi
    · have hnf : ∀ b, op ≠ .finish b := fun b e => hfin ⟨b, e⟩
      obtain ⟨K', g1, g2, g3, _, _⟩ := step_clean29 gz rq hm s K op ops ci ti (opClean_of_29 op hclean) hnf
      have e : runOps gz rq s (op :: ops) = runOps gz rq (step gz rq s op).1 ops := by
        rw [runOps, if_neg (bool_ne_of_eq_false ci.wf.fin)]
        rcases hst : step gz rq s op with ⟨s', r⟩
        rw [hst] at g1
        simp only at g1
        subst g1
        rfl
      rw [e]
      have hi' : HI (step gz rq s op).1 := by
        by_cases hfl : op = .flush
        · subst hfl
          show HI (hFlush gz rq s false).1
          by_cases hw : s.base.headersWritten = true
          · exact HI_later gz rq s false hi hw ti.open_
          · have hw' : s.base.headersWritten = false := by simpa using hw
            obtain ⟨fr, hok⟩ := ci.wf.pre hw'
            have hcv := clValid_absent _ (ci.ncl hw')
            have hww := hFlush_hw29 gz rq s false ti.open_ (fun _ => hcv)
            obtain ⟨_, _, hs, hh⟩ := g2.live hww
            exact HI_first gz rq s false hi hw' ti.open_ fr.2.2.2.2 hok hcv hww ⟨_, hs, hh⟩
        · exact HI_other gz rq s op hi hclean hfl hnf
      exact ih (step gz rq s op).1 K' g2 g3 hi' (fun o ho => hops o (by simp [ho]))

theorem HI_init (rq : Req) (ae : Option Str) : HI (init rq ae) :=
  ⟨fun _ => dget_default rq nCE (by decide) (by decide) (by decide), fun h => (by cases h)⟩

/-- clean runs without a handler-set Content-Encoding: what the client reads, its Content-Encoding header, and
    what decoding *according to that header* returns -/
theorem run_decode29 (gz : Gz) (gunzip : Bytes → Option Bytes) (hctr : Spec.GzContract gz gunzip)
    (rq : Req) (ae : Option Str) (hrq : reqOK rq = true) (hm : rq.method ≠ Method.head)
    (hinm : rq.inmMatch = false) (prog : List Op) (hops : ∀ op ∈ prog, opClean29 op = true) :
    ∃ r, clientParse (rq.method == .head) (wire (run gz rq ae prog).base.conn) (run gz rq ae prog).base.conn.closed
        = .ok (r, []) ∧ r.status = headStatus 200 prog ∧
      lookup Spec.lcCE r.headers = (if (run gz rq ae prog).t.gzipping then [vGzip] else []) ∧
      Spec.decodeBody gunzip r = some (bodyOf prog) := by
  have hm' : (rq.method == Method.head) = false := by
    cases h : rq.method with
    | head => exact absurd h hm
    | get => rfl
    | post => rfl
  have hops' : ∀ op ∈ prog, opClean op = true := fun op h => opClean_of_29 op (hops op h)
  obtain ⟨_, f2, f3, hs, f4, f5⟩ := runOps_clean29 gz rq hrq hm' hinm prog (init rq ae) 200 (CI_init rq hrq)
    (TI_init gz rq ae) hops'
  obtain ⟨hi, hw⟩ := runOps_HI gz rq hrq hm' hinm prog (init rq ae) 200 (CI_init rq hrq) (TI_init gz rq ae)
    (HI_init rq ae) hops
  obtain ⟨code', hs', a, c⟩ := hi.ce hw
  rw [f4] at a
  simp only [Option.some.injEq, Prod.mk.injEq] at a
  obtain ⟨_, rfl⟩ := a
  have ht : tgt (init rq ae).base 200 prog = headStatus 200 prog := by simp [tgt, init, C02.init]
  have hb : fed (init rq ae) ++ (init rq ae).base.buf.flatten ++ bodyOf prog = bodyOf prog := by
    simp [fed, fedOf, init, C02.init]
  rw [ht] at f5
  rw [hb] at f2
  have hnb : nbOf rq (headStatus 200 prog) = false :=
    nbOf_false rq _ hm' (headStatus_nb prog 200 (by decide) hops')
  have hrun : run gz rq ae prog = runOps gz rq (init rq ae) prog := rfl
  rw [hrun]
  refine ⟨_, f5, rfl, c, ?_⟩
  unfold Spec.decodeBody
  show (match lookup Spec.lcCE (stripHs hs) with
    | [] => some (expectedResp rq _ _ hs).body
    | [v] => if ciEq v vGzip = true then gunzip (expectedResp rq _ _ hs).body else none
    | _ => none) = _
  rw [c]
  have hbody : (expectedResp rq (runOps gz rq (init rq ae) prog).base.conn (headStatus 200 prog) hs).body
      = (runOps gz rq (init rq ae) prog).base.conn.sent.flatten := by
    simp only [expectedResp, hnb, Bool.false_eq_true, if_false]
  rw [hbody]
  unfold fed fedOf at f2
  cases hg : (runOps gz rq (init rq ae) prog).t.gzipping with
  | false =>
    rw [hg] at f2
    simp only [Bool.false_eq_true, if_false] at f2
    simp only [ceOf, hg, Bool.false_eq_true, if_false]
    rw [f2]
  | true =>
    rw [hg] at f2
    simp only [if_true] at f2
    obtain ⟨a1, a2⟩ := f3 hg
    simp only [ceOf, hg, if_true, ciEq_self]
    rw [a2, ← f2]
    exact hctr _ a1

end TornadoModel.C29
