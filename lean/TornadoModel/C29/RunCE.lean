/- C29 — run level, second part: in a clean run the `Content-Encoding` header the client sees is `gzip` exactly
   when the transform compressed (no handler-set Content-Encoding), so that decoding *according to the header*
   (`Spec.decodeBody`) returns the handler's writes. -/
import TornadoModel.C29.RunLevel
namespace TornadoModel.C29
open TornadoModel.C02 TornadoModel.C02.Spec
open TornadoModel.C06 (Str normalize dget dset ddel isToken joinWith stripWs)

/-- clean ops that also leave `Content-Encoding` to the framework -/
def opClean29 : Op → Bool
  | .setHeader n v => opClean (.setHeader n v) && (normalize n != nCE)
  | .addHeader n v => opClean (.addHeader n v) && (normalize n != nCE)
  | op => opClean op

theorem opClean_of_29 (op : Op) (h : opClean29 op = true) : opClean op = true := by
  cases op <;> simp only [opClean29, Bool.and_eq_true] at h <;> first | exact h.1 | exact h

theorem norm_nCE : normalize nCE = nCE := by decide

/-! ### connection-level facts about the ghost `head` -/

theorem fmtChunk_head (c : CSt) (chunk : Bytes) : (fmtChunk c chunk).1.head = c.head := by
  unfold fmtChunk
  cases hexp : c.expected with
  | none => rfl
  | some r =>
    simp only []
    by_cases hneg : r - (chunk.length : Int) < 0 <;> simp [hneg]

theorem cWrite_head (c : CSt) (chunk : Bytes) : (cWrite c chunk).1.head = c.head := by
  have hk := fmtChunk_head c chunk
  unfold cWrite
  split
  · rfl
  · split
    · rename_i heq; rw [heq] at hk; exact hk
    · rename_i heq; rw [heq] at hk; exact hk

theorem cFinish_head (c : CSt) : (cFinish c).1.head = c.head := by
  unfold cFinish
  cases c.expected with
  | none => simp only []; split <;> rfl
  | some r => simp only []; split <;> (try split) <;> rfl

/-- whatever `write_headers` records as the head on a connection that had none is the serialisation of
    `finalHeaders` of the map it was given -/
theorem cwh_head (rq : Req) (c0 : CSt) (code : Nat) (h : HMap) (chunk : Bytes) (h0 : c0.head = none)
    (code' : Nat) (hs : List (Str × Str))
    (hh : (cWriteHeaders rq c0 code h chunk).1.head = some (code', hs)) :
    hs = getAll (finalH rq c0 code h) := by
  unfold cWriteHeaders at hh
  simp only [] at hh
  split at hh
  · simp [h0] at hh
  · split at hh
    · simp [h0] at hh
    · split at hh
      · simp only [Option.some.injEq, Prod.mk.injEq] at hh; exact hh.2.symm
      · split at hh
        · rename_i c1 heq
          have := congrArg (fun p => p.1.head) heq
          simp only [fmtChunk_head] at this
          simp only [] at hh
          rw [← this, h0] at hh
          cases hh
        · simp only [Option.some.injEq, Prod.mk.injEq] at hh; exact hh.2.symm

theorem dget_nCE_finalHeaders (rq : Req) (disc chunking : Bool) (code : Nat) (h : HMap) :
    dget nCE (finalHeaders rq disc chunking code h) = dget nCE h := by
  have hs : ∀ (b : Bool) (m : HMap) (n v : Str), normalize n ≠ nCE →
      dget nCE (if b = true then hset m n v else m) = dget nCE m := by
    intro b m n v hne
    cases b
    · rfl
    · simp only [if_true]; unfold hset; exact dget_dset_ne _ _ _ _ hne
  unfold finalHeaders
  simp only []
  rw [hs _ _ nTE vChunked (by decide), hs _ _ nConn vKeepAlive (by decide), hs _ _ nConn vClose (by decide)]

theorem lookup_ce (rq : Req) (c0 : CSt) (code : Nat) (h : HMap) (hok : HOK h) :
    lookup Spec.lcCE (stripHs (getAll (finalH rq c0 code h))) = match dget nCE h with
      | some vs => vs.map stripWs
      | none => [] := by
  obtain ⟨fk, _, _⟩ := finalHeaders_spec rq c0.disconnect (decideChunking rq code h) code h hok
  have := lookup_getAll (finalH rq c0 code h) fk nCE Spec.lcCE norm_nCE (by decide)
  unfold finalH at this ⊢
  rw [dget_nCE_finalHeaders] at this
  exact this

/-! ### the invariant -/

def ceOf (t : TSt) : List Bytes := if t.gzipping then [vGzip] else []

structure HI (s : St) : Prop where
  nce : s.base.headersWritten = false → dget nCE s.base.hdrs = none
  ce : s.base.headersWritten = true →
    ∃ code hs, s.base.conn.head = some (code, hs) ∧ lookup Spec.lcCE (stripHs hs) = ceOf s.t

theorem dget_nCE_addVary (h : HMap) : dget nCE (addVary h) = dget nCE h := by
  unfold addVary hset
  split <;> exact dget_dset_ne _ _ _ _ (by decide)

theorem dget_nCE_gzHdrs (h : HMap) (fin : Bool) (n : Nat) : dget nCE (gzHdrs h fin n) = some [vGzip] := by
  have h1 : dget nCE (hset (addVary h) nCE vGzip) = some [vGzip] := by
    unfold hset; rw [norm_nCE, dget_dset_same]
  unfold gzHdrs
  split
  · split
    · unfold hset; rw [dget_dset_ne _ _ _ _ (by decide)]; exact h1
    · unfold hdel; rw [C02.dget_ddel, if_neg (by decide)]; exact h1
  · exact h1

theorem hFlushCore_conn_unwritten (rq : Req) (b : C02.St) (h' : HMap) (x : List Bytes) (hw : b.headersWritten = false) :
    (hFlushCore rq { b with hdrs := h', buf := x }).1.conn =
      (cWriteHeaders rq b.conn b.status h' (if rq.method == .head then [] else x.flatten)).1 := by
  simp [hFlushCore, hw]

theorem hFlushCore_head_written (rq : Req) (b : C02.St) (x : List Bytes) (hw : b.headersWritten = true) :
    (hFlushCore rq { b with buf := x }).1.conn.head = b.conn.head ∧
    (hFlushCore rq { b with buf := x }).1.headersWritten = true := by
  unfold hFlushCore
  simp only [hw, Bool.not_true, Bool.false_eq_true, if_false]
  split
  · exact ⟨cWrite_head _ _, rfl⟩
  · exact ⟨rfl, rfl⟩

/-- the first flush (either kind) establishes the Content-Encoding link -/
theorem HI_first (gz : Gz) (rq : Req) (s : St) (fin : Bool) (hi : HI s) (hw : s.base.headersWritten = false)
    (hopen : s.t.fileClosed = false) (h0 : s.base.conn.head = none) (hok : HOK s.base.hdrs)
    (hw' : (hFlush gz rq s fin).1.base.headersWritten = true)
    (hhead : ∃ code hs, (hFlush gz rq s fin).1.base.conn.head = some (code, hs)) :
    HI (hFlush gz rq s fin).1 := by
  refine ⟨fun h => (by rw [hw'] at h; cases h), fun _ => ?_⟩
  obtain ⟨code, hs, hh⟩ := hhead
  refine ⟨code, hs, hh, ?_⟩
  rw [hFlush_unwritten gz rq s fin hw] at hh ⊢
  rcases transformFirst_cases gz s.t s.base.status s.base.hdrs s.base.buf.flatten fin hopen with e | e
  · rw [e] at hh ⊢
    simp only [] at hh ⊢
    rw [hFlushCore_conn_unwritten rq s.base _ _ hw] at hh
    have := cwh_head rq _ _ _ _ h0 code hs hh
    rw [this, lookup_ce rq _ _ _ (HOK_addVary _ hok), dget_nCE_addVary, hi.nce hw]
    rfl
  · rw [e] at hh ⊢
    simp only [] at hh ⊢
    rw [hFlushCore_conn_unwritten rq s.base _ _ hw] at hh
    have := cwh_head rq _ _ _ _ h0 code hs hh
    rw [this, lookup_ce rq _ _ _ (HOK_gzHdrs _ hok _ _), dget_nCE_gzHdrs]
    show [stripWs vGzip] = [vGzip]
    have : stripWs vGzip = vGzip := by decide
    rw [this]

/-- later flushes keep it -/
theorem HI_later (gz : Gz) (rq : Req) (s : St) (fin : Bool) (hi : HI s) (hw : s.base.headersWritten = true)
    (hopen : s.t.fileClosed = false) : HI (hFlush gz rq s fin).1 := by
  obtain ⟨code, hs, h1, h2⟩ := hi.ce hw
  cases hg : s.t.gzipping with
  | false =>
    have ht : transformChunk gz s.t s.base.buf.flatten fin = some (s.t, s.base.buf.flatten) := by
      rw [transformChunk_open gz s.t s.base.buf.flatten fin hopen]; simp [hg]
    rw [hFlush_written gz rq s fin hw _ _ ht]
    obtain ⟨a, b⟩ := hFlushCore_head_written rq s.base [s.base.buf.flatten] hw
    exact ⟨fun h => (by rw [b] at h; cases h), fun _ => ⟨code, hs, a.trans h1, h2⟩⟩
  | true =>
    have ht : transformChunk gz s.t s.base.buf.flatten fin =
        some ({ s.t with hist := s.t.hist ++ [(s.base.buf.flatten, fin)], fileClosed := fin },
          gz (s.t.hist ++ [(s.base.buf.flatten, fin)])) := by
      rw [transformChunk_open gz s.t s.base.buf.flatten fin hopen]; simp [hg]
    rw [hFlush_written gz rq s fin hw _ _ ht]
    obtain ⟨a, b⟩ := hFlushCore_head_written rq s.base [gz (s.t.hist ++ [(s.base.buf.flatten, fin)])] hw
    refine ⟨fun h => (by rw [b] at h; cases h), fun _ => ⟨code, hs, a.trans h1, ?_⟩⟩
    rw [h2]; simp [ceOf, hg]

end TornadoModel.C29
