/- C29 driver: `C29 run <req> <acceptEncoding|~> <prog> [tape…]` → wire, closed, number of gzip calls, gzipping;
   `C29 decide <acceptEncoding|~> <contentType>` → Spec.mayCompress; `C29 varies <value>` → Spec.variesOnAE -/
import TornadoModel.Base.Wire
import TornadoModel.C02.Drv
import TornadoModel.C29.Spec
namespace TornadoModel.C29.Drv
open TornadoModel TornadoModel.Wire TornadoModel.C02 TornadoModel.C29

def optCps (v : V) : Option (Option (List Nat)) :=
  if v.isNone then some none else (v.cps?).map some

def handle (toks : List String) : String :=
  match toks.mapM V.parse with
  | none => err "bad-arg"
  | some args =>
    match args with
    | [.atom "run", rq, ae, prog, tape] =>
      match C02.Drv.decReq rq, optCps ae, prog.list? >>= (·.mapM C02.Drv.decOp), tape.list? >>= (·.mapM V.byteNats?) with
      | some rq, some ae, some ops, some tape =>
        let s := run (gzTape tape) rq ae ops
        ok [V.ofByteNats (wire s.base.conn), V.ofBool s.base.conn.closed, .int s.t.hist.length, V.ofBool s.t.gzipping]
      | _, _, _, _ => err "bad-op"
    | [.atom "decide", ae, ct] =>
      match optCps ae, ct.cps? with
      | some ae, some ct => ok [V.ofBool (Spec.mayCompress ae ct)]
      | _, _ => err "bad-arg"
    | [.atom "varies", v] =>
      match v.cps? with
      | some v => ok [V.ofBool (Spec.variesOnAE v)]
      | none => err "bad-arg"
    | _ => err "bad-cmd"

end TornadoModel.C29.Drv
