/- C29 — what the strict client's acceptance says about Content-Length. -/
import TornadoModel.C02.Spec
namespace TornadoModel.C29
open TornadoModel.C02 TornadoModel.C02.Spec

theorem allEq_mem (v : Bytes) (vs : List Bytes) (h : allEq (v :: vs) = true) : ∀ w ∈ v :: vs, w = v := by
  intro w hw
  simp only [allEq, List.all_eq_true, beq_iff_eq] at h
  rcases List.mem_cons.mp hw with rfl | hw
  · rfl
  · exact h w hw

/-- whenever the strict client accepts a body-carrying response, every `Content-Length` value in it is the
    decimal length of the body it delivered -/
theorem clientParse_cl (isHead : Bool) (bs : Bytes) (eof : Bool) (r : Resp) (rest : Bytes)
    (h : clientParse isHead bs eof = .ok (r, rest)) (hnb : (isHead || noBodyStatus r.status) = false) :
    ∀ v ∈ lookup lcCL r.headers, parseDec v = some r.body.length := by
  unfold clientParse at h
  split at h
  · cases h
  · cases h
  · split at h
    · cases h
    · split at h
      · cases h
      · cases h
      · simp only [] at h
        split at h
        · injection h with h; injection h with h1 h2; subst h1
          rename_i hc; simp only [] at hnb; rw [hnb] at hc; cases hc
        · split at h
          · split at h
            · cases h
            · split at h
              · cases h
              · rename_i hcls _
                split at h
                · injection h with h; injection h with h1 h2; subst h1
                  intro v hv
                  simp only [] at hv
                  have hc2 := hcls
                  simp at hc2
                  rw [hc2] at hv; cases hv
                · cases h
                · cases h
          · split at h
            · split at h
              · injection h with h; injection h with h1 h2; subst h1
                rename_i hq _
                intro v hv
                simp only [] at hv
                rw [hq] at hv; cases hv
              · cases h
            · split at h
              · cases h
              · split at h
                · cases h
                · split at h
                  · cases h
                  · injection h with h; injection h with h1 h2; subst h1
                    rename_i _ v0 vs0 hl hall _ n hp hlen
                    intro v hv
                    simp only [] at hv ⊢
                    rw [hl] at hv
                    have hall' : allEq (v0 :: vs0) = true := by simpa using hall
                    rw [allEq_mem v0 vs0 hall' v hv, hp]
                    congr 1
                    simp only [List.length_take]
                    omega

end TornadoModel.C29
