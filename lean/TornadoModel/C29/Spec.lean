/-
C29 — specification side.  A client reads the response with `C02.Spec.clientParse` and then undoes the
content coding named by `Content-Encoding`; `gunzip` is the (abstract) decoder.
-/
import TornadoModel.C29.Model
import TornadoModel.C02.Spec
namespace TornadoModel.C29.Spec
open TornadoModel.C02 TornadoModel.C29
open TornadoModel.C06 (Str)

def lcCE : List Nat := [99, 111, 110, 116, 101, 110, 116, 45, 101, 110, 99, 111, 100, 105, 110, 103]  -- 'content-encoding'
def lcVary : List Nat := [118, 97, 114, 121]  -- 'vary'

/-- what the client hands to the application -/
def decodeBody (gunzip : Bytes → Option Bytes) (r : C02.Spec.Resp) : Option Bytes :=
  match C02.Spec.lookup lcCE r.headers with
  | [] => some r.body
  | [v] => if C02.Spec.ciEq v vGzip then gunzip r.body else none
  | _ => none

/-- compression is permitted only for these requests / types -/
def mayCompress (acceptEncoding : Option Str) (contentType : Str) : Bool :=
  mentionsGzip acceptEncoding && compressible (beforeSemi contentType)

/-- `Accept-Encoding` is listed in a Vary value -/
def variesOnAE (v : Str) : Bool := isInfix vAE v

/-- the outputs of the successive calls recorded in a history (`pre` = the calls made before) -/
def outputsFrom (gz : Gz) (pre : GzHist) : GzHist → List Bytes
  | [] => []
  | c :: cs => gz (pre ++ [c]) :: outputsFrom gz (pre ++ [c]) cs
def outputs (gz : Gz) (h : GzHist) : List Bytes := outputsFrom gz [] h

/-- flushes … then exactly one close, at the end -/
def WellClosed (h : GzHist) : Prop := ∃ ini c, h = ini ++ [(c, true)] ∧ ∀ p ∈ ini, p.2 = false

/-- contract of the gzip writer / reader pair -/
def GzContract (gz : Gz) (gunzip : Bytes → Option Bytes) : Prop :=
  ∀ h, WellClosed h → gunzip (outputs gz h).flatten = some (h.map (·.1)).flatten

end TornadoModel.C29.Spec
