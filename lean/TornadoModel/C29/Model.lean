/-
C29 — model of `tornado.web.GZipContentEncoding` (`__init__`, `_compressible_type`, `transform_first_chunk`,
`transform_chunk`) and of `RequestHandler.flush/finish/send_error` *with* the transform applied, layered on the
C02 connection model (`C02.cWriteHeaders / cWrite / cFinish`) and the C02 handler pieces that do not touch
the transform (`C02.finishPrep`, `C02.step` for the header/status/write ops).  Core Lean only.

zlib is not modelled: the gzip writer is an abstract function `gz : GzHist → Bytes` giving the bytes produced
by the latest `write+flush` / `write+close` call as a function of the whole history of calls (any
deterministic stream compressor has this form).  Its contract (`GzContract`) is a hypothesis of the
theorems; for the correspondence check the driver instantiates `gz` with the tape of outputs recorded from
the real `gzip.GzipFile`, and the harness checks the contract with real `zlib`.
-/
import TornadoModel.C02.Model
namespace TornadoModel.C29
open TornadoModel.C02
open TornadoModel.C06 (Str)

def nVary : List Nat := [86, 97, 114, 121]  -- 'Vary'
def vAE : List Nat := [65, 99, 99, 101, 112, 116, 45, 69, 110, 99, 111, 100, 105, 110, 103]  -- 'Accept-Encoding'
def vCommaAE : List Nat := [44, 32, 65, 99, 99, 101, 112, 116, 45, 69, 110, 99, 111, 100, 105, 110, 103]  -- ', Accept-Encoding'
def vGzip : List Nat := [103, 122, 105, 112]  -- 'gzip'
def vTextSlash : List Nat := [116, 101, 120, 116, 47]  -- 'text/'
/-- `GZipContentEncoding.CONTENT_TYPES` -/
def contentTypes : List (List Nat) := [
  [97, 112, 112, 108, 105, 99, 97, 116, 105, 111, 110, 47, 106, 97, 118, 97, 115, 99, 114, 105, 112, 116],  -- application/javascript
  [97, 112, 112, 108, 105, 99, 97, 116, 105, 111, 110, 47, 120, 45, 106, 97, 118, 97, 115, 99, 114, 105, 112, 116],  -- application/x-javascript
  [97, 112, 112, 108, 105, 99, 97, 116, 105, 111, 110, 47, 120, 109, 108],  -- application/xml
  [97, 112, 112, 108, 105, 99, 97, 116, 105, 111, 110, 47, 97, 116, 111, 109, 43, 120, 109, 108],  -- application/atom+xml
  [97, 112, 112, 108, 105, 99, 97, 116, 105, 111, 110, 47, 106, 115, 111, 110],  -- application/json
  [97, 112, 112, 108, 105, 99, 97, 116, 105, 111, 110, 47, 120, 104, 116, 109, 108, 43, 120, 109, 108],  -- application/xhtml+xml
  [105, 109, 97, 103, 101, 47, 115, 118, 103, 43, 120, 109, 108]]  -- image/svg+xml
def minLength : Nat := 1024

/-- `needle in haystack` for `str` -/
def isInfix (needle : Str) : Str → Bool
  | [] => needle.isEmpty
  | c :: cs => needle.isPrefixOf (c :: cs) || isInfix needle cs

/-- `"gzip" in request.headers.get("Accept-Encoding", "")` (`none` = header absent) -/
def mentionsGzip (acceptEncoding : Option Str) : Bool :=
  match acceptEncoding with
  | some v => isInfix vGzip v
  | none => false

/-- `_compressible_type` -/
def compressible (ctype : Str) : Bool := vTextSlash.isPrefixOf ctype || contentTypes.contains ctype
/-- `s.split(";")[0]` -/
def beforeSemi (s : Str) : Str := s.takeWhile (· != 59)

/-! ### the abstract gzip writer -/
abbrev GzHist := List (Bytes × Bool)      -- (chunk written, then close? (else flush))
abbrev Gz := GzHist → Bytes

/-- one `GZipContentEncoding` instance -/
structure TSt where
  gzipping : Bool            -- `_gzipping`
  hist : GzHist := []        -- calls made on `_gzip_file` so far
  fileClosed : Bool := false -- `_gzip_file.close()` has run
  deriving Repr, BEq, DecidableEq

/-- `transform_chunk`; `none` = ValueError (write on a closed GzipFile) -/
def transformChunk (gz : Gz) (t : TSt) (chunk : Bytes) (fin : Bool) : Option (TSt × Bytes) :=
  if t.gzipping then
    if t.fileClosed then none
    else
      let h := t.hist ++ [(chunk, fin)]
      some ({ t with hist := h, fileClosed := fin }, gz h)
  else some (t, chunk)

/-- the `_gzipping` decision made in `transform_first_chunk` (on the headers *after* the Vary update;
    the status test is the `fix:` commit for D26) -/
def decide1 (t : TSt) (status : Nat) (h : HMap) (chunk : Bytes) (fin : Bool) : Bool :=
  t.gzipping && (compressible (beforeSemi (hget h nCT)) && (!fin || chunk.length ≥ minLength) && !hhas h nCE
    && !noBodyStatus status)

def addVary (h : HMap) : HMap :=
  if hhas h nVary then hset h nVary (hget h nVary ++ vCommaAE) else hset h nVary vAE

/-- `transform_first_chunk` (the status code passes through unchanged) -/
def transformFirst (gz : Gz) (t : TSt) (status : Nat) (h : HMap) (chunk : Bytes) (fin : Bool) : TSt × HMap × Bytes :=
  let h := addVary h
  let t := { t with gzipping := decide1 t status h chunk fin }
  if t.gzipping then
    let h := hset h nCE vGzip
    match transformChunk gz t chunk fin with
    | none => (t, h, chunk)     -- unreachable: the file has just been opened
    | some (t, chunk) =>
      let h := if hhas h nCL then (if fin then hset h nCL (toDec chunk.length) else hdel h nCL) else h
      (t, h, chunk)
  else (t, h, chunk)

/-! ### handler layer with the transform -/

structure St where
  base : C02.St
  t : TSt
  deriving Repr, BEq, DecidableEq

/-- `RequestHandler.flush(include_footers = fin)` with `_transforms = [GZipContentEncoding]`, after the
    Content-Length check -/
def hFlushT (gz : Gz) (rq : Req) (s : St) (fin : Bool) : St × Bool :=
  let chunk := s.base.buf.flatten
  let b := { s.base with buf := [] }
  if !b.headersWritten then
    let b := { b with headersWritten := true }
    let (t, h, chunk) := transformFirst gz s.t b.status b.hdrs chunk fin
    let b := { b with hdrs := h }
    let chunk := if rq.method == .head then [] else chunk
    let (c, r) := cWriteHeaders rq b.conn b.status b.hdrs chunk
    ({ base := { b with conn := c }, t := t }, r)
  else
    match transformChunk gz s.t chunk fin with
    | none => ({ base := b, t := s.t }, true)
    | some (t, chunk) =>
      if rq.method != .head then
        let (c, r) := cWrite b.conn chunk
        ({ base := { b with conn := c }, t := t }, r)
      else ({ base := b, t := t }, false)

/-- `RequestHandler.flush`: while the headers are unwritten, a Content-Length that `parse_int` rejects makes
    `flush` raise ValueError before any state is touched — before the transform runs (`C02.clValid`, fix 28dd4cc) -/
def hFlush (gz : Gz) (rq : Req) (s : St) (fin : Bool) : St × Bool :=
  if !s.base.headersWritten && !clValid s.base.hdrs then (s, true) else hFlushT gz rq s fin

/-- `RequestHandler.finish(chunk)` -/
def hFinish (gz : Gz) (rq : Req) (s : St) (chunk : Option Bytes) : St × Bool :=
  if s.base.finished then (s, true)
  else
    let b := match chunk with
      | some c => { s.base with buf := s.base.buf ++ [c] }
      | none => s.base
    let (b, r) := if !b.headersWritten then finishPrep rq b else (b, false)
    let s := { s with base := b }
    if r then (s, true) else
    let (s, r) := hFlush gz rq s true
    if r then (s, true) else
    let (c, r) := cFinish s.base.conn
    let s := { s with base := { s.base with conn := c } }
    if r then (s, true) else ({ s with base := { s.base with finished := true } }, false)

def onException (gz : Gz) (rq : Req) (s : St) : St :=
  if s.base.finished then s
  else if s.base.headersWritten then (hFinish gz rq s none).1
  else
    let s := { s with base := { s.base with hdrs := defaultHdrs rq, buf := [], status := 500 } }
    let (s, r) := hFinish gz rq s (some (errorPage 500))
    if r && !s.base.finished then (hFinish gz rq s none).1 else s

def step (gz : Gz) (rq : Req) (s : St) : Op → St × Bool
  | .flush => hFlush gz rq s false
  | .finish b => hFinish gz rq s b
  | op => let (b, r) := C02.step rq s.base op; ({ s with base := b }, r)   -- ops that do not reach the transform

def runOps (gz : Gz) (rq : Req) (s : St) : List Op → St
  | [] =>
    if s.base.finished then s
    else let (s', r) := hFinish gz rq s none; if r then onException gz rq s' else s'
  | op :: ops =>
    if s.base.finished then s
    else let (s', r) := step gz rq s op; if r then onException gz rq s' else runOps gz rq s' ops

def init (rq : Req) (acceptEncoding : Option Str) : St :=
  { base := C02.init rq, t := { gzipping := mentionsGzip acceptEncoding } }

def run (gz : Gz) (rq : Req) (acceptEncoding : Option Str) (prog : List Op) : St :=
  runOps gz rq (init rq acceptEncoding) prog

/-- the driver's instance: the k-th call returns the k-th recorded output -/
def gzTape (tape : List Bytes) : Gz := fun h => tape.getD (h.length - 1) []

end TornadoModel.C29
