/- C29 — property theorems (decision logic outright; transparency under the gzip contract). -/
import TornadoModel.C29.Lemmas
import TornadoModel.C29.RunLevel
import TornadoModel.C29.RunCE
import TornadoModel.C29.WireCL
import TornadoModel.C29.RunVary
import TornadoModel.C29.RunGz
import TornadoModel.C29.RunWire
namespace TornadoModel.C29
open TornadoModel.C02
open TornadoModel.C06 (Str normalize)

/-- the Vary update does not touch Content-Type -/
theorem addVary_ct (h : HMap) : hget (addVary h) nCT = hget h nCT := by
  unfold addVary
  split <;> exact hget_hset_ne _ _ _ _ (by decide)

/-- **compress_only_if** (decision logic, outright): whenever `transform_first_chunk` decides to compress —
    for every status, header map, first chunk, `finishing` flag and Accept-Encoding header — the request
    mentioned gzip and the response's media type (the part before `;`) is compressible; moreover no
    Content-Encoding was present, the response can have a body, and a one-shot response is ≥ MIN_LENGTH. -/
theorem compress_only_if (gz : Gz) (ae : Option Str) (status : Nat) (h : HMap) (chunk : Bytes) (fin : Bool) :
    (transformFirst gz { gzipping := mentionsGzip ae } status h chunk fin).1.gzipping = true →
      Spec.mayCompress ae (hget h nCT) = true ∧ hhas (addVary h) nCE = false ∧ noBodyStatus status = false
        ∧ (fin = true → minLength ≤ chunk.length) := by
  intro hg
  have hd : decide1 { gzipping := mentionsGzip ae } status (addVary h) chunk fin = true := by
    unfold transformFirst at hg
    simp only [] at hg
    split at hg
    · assumption
    · rename_i hn; simp only [] at hg; exact absurd hg hn
  simp only [decide1, Bool.and_eq_true, Bool.or_eq_true, Bool.not_eq_true', decide_eq_true_eq, addVary_ct] at hd
  obtain ⟨h1, ⟨⟨h2, h3⟩, h4⟩, h5⟩ := hd
  refine ⟨by simp [Spec.mayCompress, h1, h2], h4, h5, ?_⟩
  intro hf
  rcases h3 with h3 | h3
  · simp [hf] at h3
  · exact h3

/-- the shapes the header map can take after `transform_first_chunk` -/
theorem transformFirst_shape (gz : Gz) (t : TSt) (status : Nat) (h : HMap) (chunk : Bytes) (fin : Bool)
    (hc : t.fileClosed = false) :
    let r := transformFirst gz t status h chunk fin
    (r.1.gzipping = false ∧ r.2 = (addVary h, chunk)) ∨
    (r.1.gzipping = true ∧
      (r.2.1 = hset (addVary h) nCE vGzip ∧ hhas (hset (addVary h) nCE vGzip) nCL = false
       ∨ (fin = true ∧ r.2.1 = hset (hset (addVary h) nCE vGzip) nCL (toDec r.2.2.length))
       ∨ (fin = false ∧ r.2.1 = hdel (hset (addVary h) nCE vGzip) nCL))) := by
  unfold transformFirst
  simp only []
  by_cases hd : decide1 t status (addVary h) chunk fin = true
  · simp only [hd, if_true]
    simp only [transformChunk, if_true, hc, Bool.false_eq_true, if_false]
    by_cases hcl : hhas (hset (addVary h) nCE vGzip) nCL = true
    · cases fin <;> simp [hcl, hd]
    · simp [hcl, hd]
  · simp only [hd]
    left; simp

/-- when the transform does not compress, the chunk passes through unchanged and only Vary is touched -/
theorem not_compressed_passthrough (gz : Gz) (t : TSt) (status : Nat) (h : HMap) (chunk : Bytes) (fin : Bool)
    (hc : t.fileClosed = false) :
    (transformFirst gz t status h chunk fin).1.gzipping = false →
      (transformFirst gz t status h chunk fin).2 = (addVary h, chunk) := by
  intro hg
  rcases transformFirst_shape gz t status h chunk fin hc with ⟨_, h2⟩ | ⟨h1, _⟩
  · exact h2
  · rw [hg] at h1; cases h1

def VaryOK (h : HMap) : Prop := hhas h nVary = true ∧ Spec.variesOnAE (hget h nVary) = true

theorem varyOK_addVary (h : HMap) : VaryOK (addVary h) := by
  constructor
  · unfold addVary; split <;> exact hhas_hset_same _ _ _
  · unfold addVary Spec.variesOnAE
    split
    · rw [hget_hset_same]; exact isInfix_vAE_suffix _
    · rw [hget_hset_same]; decide

theorem varyOK_hset (h : HMap) (m v : Str) (hne : normalize m ≠ normalize nVary) (hv : VaryOK h) :
    VaryOK (hset h m v) :=
  ⟨by rw [hhas_hset_ne _ _ _ _ hne]; exact hv.1, by rw [hget_hset_ne _ _ _ _ hne]; exact hv.2⟩

theorem varyOK_hdel (h : HMap) (m : Str) (hne : normalize m ≠ normalize nVary) (hv : VaryOK h) :
    VaryOK (hdel h m) := by
  refine ⟨?_, by rw [hget_hdel_ne _ _ _ hne]; exact hv.2⟩
  have := hv.1
  simp only [hhas, hdel, dget_ddel_ne _ _ _ hne] at this ⊢
  exact this

/-- **vary_always**: after `transform_first_chunk`, whatever it decided and for every status / header map /
    chunk, the response has a Vary header and it lists Accept-Encoding. -/
theorem vary_always (gz : Gz) (t : TSt) (status : Nat) (h : HMap) (chunk : Bytes) (fin : Bool)
    (hc : t.fileClosed = false) :
    VaryOK (transformFirst gz t status h chunk fin).2.1 := by
  have hce : normalize nCE ≠ normalize nVary := by decide
  have hcl : normalize nCL ≠ normalize nVary := by decide
  rcases transformFirst_shape gz t status h chunk fin hc with ⟨_, h2⟩ | ⟨_, ⟨h2, _⟩ | ⟨_, h2⟩ | ⟨_, h2⟩⟩
  · rw [h2]; exact varyOK_addVary h
  · rw [h2]; exact varyOK_hset _ _ _ hce (varyOK_addVary h)
  · rw [h2]; exact varyOK_hset _ _ _ hcl (varyOK_hset _ _ _ hce (varyOK_addVary h))
  · rw [h2]; exact varyOK_hdel _ _ hcl (varyOK_hset _ _ _ hce (varyOK_addVary h))

/-- **cl_equals_encoded_length**: if the transform compresses a response that is finished in its first chunk
    and a Content-Length is (still) present afterwards, it is the decimal length of the *encoded* chunk that is
    handed to the connection. -/
theorem cl_equals_encoded_length (gz : Gz) (t : TSt) (status : Nat) (h : HMap) (chunk : Bytes)
    (hc : t.fileClosed = false) :
    let r := transformFirst gz t status h chunk true
    r.1.gzipping = true → hhas r.2.1 nCL = true → hget r.2.1 nCL = toDec r.2.2.length := by
  intro r hg hcl
  rcases transformFirst_shape gz t status h chunk true hc with ⟨h1, _⟩ | ⟨_, ⟨h2, h3⟩ | ⟨_, h2⟩ | ⟨h1, _⟩⟩
  · rw [hg] at h1; cases h1
  · rw [h2, h3] at hcl; cases hcl
  · rw [h2]; exact hget_hset_same _ _ _
  · cases h1

/-- a compressed response that is *not* finished in its first chunk loses a handler-supplied Content-Length
    (the connection then falls back to chunked coding or close-delimiting) -/
theorem cl_dropped_when_streaming (gz : Gz) (t : TSt) (status : Nat) (h : HMap) (chunk : Bytes)
    (hc : t.fileClosed = false) :
    let r := transformFirst gz t status h chunk false
    r.1.gzipping = true → r.2.1 = hset (addVary h) nCE vGzip ∧ hhas r.2.1 nCL = false
      ∨ r.2.1 = hdel (hset (addVary h) nCE vGzip) nCL := by
  intro r hg
  rcases transformFirst_shape gz t status h chunk false hc with ⟨h1, _⟩ | ⟨_, ⟨h2, h3⟩ | ⟨h1, _⟩ | ⟨_, h2⟩⟩
  · rw [hg] at h1; cases h1
  · left; exact ⟨h2, by rw [h2]; exact h3⟩
  · cases h1
  · right; exact h2

/-- **decoded_equals_written** (under the gzip contract): for every sequence of chunks pushed through a
    compressing transform — any number of `flush()`es followed by the finishing call — a client that
    concatenates what the transform emitted and gunzips it obtains exactly the concatenation of the chunks
    pushed in; and a non-compressing transform emits the chunks unchanged. -/
theorem decoded_equals_written (gz : Gz) (gunzip : Bytes → Option Bytes) (hctr : Spec.GzContract gz gunzip)
    (calls : GzHist) (hwc : Spec.WellClosed calls) :
    ∃ t' outs, feed gz { gzipping := true } calls = some (t', outs) ∧
      gunzip outs.flatten = some (calls.map (·.1)).flatten := by
  obtain ⟨ini, c, rfl, hini⟩ := hwc
  obtain ⟨t', ht'⟩ := feed_gzipping gz ini c hini { gzipping := true } rfl rfl
  exact ⟨t', _, ht', hctr _ ⟨ini, c, rfl, hini⟩⟩

theorem identity_when_not_compressing (gz : Gz) (calls : GzHist) :
    feed gz { gzipping := false } calls = some ({ gzipping := false }, calls.map (·.1)) :=
  feed_identity gz calls _ rfl

/-- **run_transparent** (run level, over whole handler programs, about the bytes on the wire): for every request
    shape (not HEAD, no `If-None-Match` hit), every Accept-Encoding header and every exception-free program
    (`C02.opClean`: any interleaving of write / flush / finish, any Content-Type or other header set / added /
    cleared except `Transfer-Encoding` / `Content-Length`, body-carrying statuses), with any gzip writer / reader
    pair satisfying the contract: the strict client (`C02.Spec.clientParse`) reads **exactly one response with
    nothing left over**, and undoing the coding the transform applied — `gunzip` iff it compressed — yields
    **exactly the bytes the handler wrote** (`C02.bodyOf prog`).  Covers all three framings (automatic
    Content-Length rewritten to the encoded length, chunked, close-delimited). -/
theorem run_transparent (gz : Gz) (gunzip : Bytes → Option Bytes) (hctr : Spec.GzContract gz gunzip)
    (rq : Req) (ae : Option Str) (hrq : reqOK rq = true) (hm : rq.method ≠ Method.head)
    (hinm : rq.inmMatch = false) (prog : List Op) (hops : ∀ op ∈ prog, opClean op = true) :
    ∃ hs d body,
      C02.Spec.clientParse (rq.method == .head) (wire (run gz rq ae prog).base.conn) (run gz rq ae prog).base.conn.closed
        = .ok (⟨headStatus 200 prog, reason (headStatus 200 prog), hs, body, d⟩, []) ∧
      (if (run gz rq ae prog).t.gzipping then gunzip body else some body) = some (bodyOf prog) := by
  obtain ⟨hs, d, body, h1, h2, h3⟩ := run_clean29 gz rq ae hrq hm hinm prog hops
  refine ⟨hs, d, body, h1, ?_⟩
  cases hg : (run gz rq ae prog).t.gzipping with
  | false => simp only [Bool.false_eq_true, if_false]; rw [h3 hg]
  | true =>
    obtain ⟨a1, a2, a3⟩ := h2 hg
    simp only [if_true]
    rw [a2, ← a3]
    exact hctr _ a1

/-- **decoded_per_content_encoding** (the headline clause, literally): for every request shape (not HEAD, no
    `If-None-Match` hit), every Accept-Encoding header and every exception-free program that leaves
    `Content-Encoding` to the framework (`opClean29` = `C02.opClean` + no handler-set Content-Encoding), with any
    gzip pair satisfying the contract: the strict client reads exactly one response `r`, nothing left over, with
    the status in force at the first flush/finish; its `Content-Encoding` header is `gzip` exactly when the
    transform compressed (absent otherwise); and **decoding the body according to that header**
    (`Spec.decodeBody`) returns exactly the bytes the handler wrote. -/
theorem decoded_per_content_encoding (gz : Gz) (gunzip : Bytes → Option Bytes) (hctr : Spec.GzContract gz gunzip)
    (rq : Req) (ae : Option Str) (hrq : reqOK rq = true) (hm : rq.method ≠ Method.head)
    (hinm : rq.inmMatch = false) (prog : List Op) (hops : ∀ op ∈ prog, opClean29 op = true) :
    ∃ r, C02.Spec.clientParse (rq.method == .head) (wire (run gz rq ae prog).base.conn)
          (run gz rq ae prog).base.conn.closed = .ok (r, []) ∧
      r.status = headStatus 200 prog ∧
      C02.Spec.lookup Spec.lcCE r.headers = (if (run gz rq ae prog).t.gzipping then [vGzip] else []) ∧
      Spec.decodeBody gunzip r = some (bodyOf prog) :=
  run_decode29 gz gunzip hctr rq ae hrq hm hinm prog hops

example : ∀ op ∈ [Op.setHeader nCT [116, 101, 120, 116, 47, 120], .addHeader nVary [88], .write [97], .flush,
    .clearHeader nCT, .write [98], .finish (some [99])], opClean29 op = true := by decide

/-- **wire_content_length_is_encoded_length** (run level, on the wire): in every clean run (as in
    `run_transparent`; no contract needed) the strict client reads exactly one response, nothing left over, and
    **every `Content-Length` header it carries is the decimal length of the body on the wire** — which, when the
    transform compressed, is the concatenation of the transform's outputs (the *encoded* body), not what the
    handler wrote. -/
theorem wire_content_length_is_encoded_length (gz : Gz) (rq : Req) (ae : Option Str) (hrq : reqOK rq = true)
    (hm : rq.method ≠ Method.head) (hinm : rq.inmMatch = false) (prog : List Op)
    (hops : ∀ op ∈ prog, opClean op = true) :
    ∃ hs d body,
      C02.Spec.clientParse (rq.method == .head) (wire (run gz rq ae prog).base.conn) (run gz rq ae prog).base.conn.closed
        = .ok (⟨headStatus 200 prog, reason (headStatus 200 prog), hs, body, d⟩, []) ∧
      (∀ v ∈ C02.Spec.lookup C02.Spec.lcCL hs, parseDec v = some body.length) ∧
      ((run gz rq ae prog).t.gzipping = true → body = (Spec.outputs gz (run gz rq ae prog).t.hist).flatten) := by
  obtain ⟨hs, d, body, h1, h2, _⟩ := run_clean29 gz rq ae hrq hm hinm prog hops
  have hm' : (rq.method == Method.head) = false := by
    cases h : rq.method with
    | head => exact absurd h hm
    | get => rfl
    | post => rfl
  refine ⟨hs, d, body, h1, ?_, fun hg => (h2 hg).2.1⟩
  exact clientParse_cl _ _ _ _ _ h1 (by
    show (_ || noBodyStatus (headStatus 200 prog)) = false
    rw [hm', headStatus_nb prog 200 (by decide) hops]; rfl)

/-- **vary_on_every_response** (run level, NO side condition: every request shape incl. HEAD, every
    Accept-Encoding, every program — rejected ops and the framework's error page, 304 / 204, handler-set Vary /
    Content-Encoding / Content-Length, any gzip writer): whenever `write_headers` serialises a header block
    (ghost `head`), it contains a `Vary` line whose value lists `Accept-Encoding`, **and the bytes on the wire
    begin with exactly that block** (`headBytes code hs` = status line, the header lines, empty line).  I.e. `transform_first_chunk` runs — on a fresh transform — before every head that is written. -/
theorem vary_on_every_response (gz : Gz) (rq : Req) (ae : Option Str) (prog : List Op) (code : Nat)
    (hs : List (Str × Str)) (hh : (run gz rq ae prog).base.conn.head = some (code, hs)) :
    (∃ v, (nVary, v) ∈ hs ∧ Spec.variesOnAE v = true) ∧
    ∃ rest, wire (run gz rq ae prog).base.conn = headBytes code hs ++ rest :=
  ⟨(WQ_run gz rq ae prog).1.2 code hs hh, (WQ_run gz rq ae prog).2.2 code hs hh⟩

/-! non-vacuity: an op that raises (invalid header value) leads to the framework's 500 page — a head is written -/
example : ((run (fun _ => []) { method := .head, v11 := true, conn := .absent } (some vGzip)
    [Op.setHeader [88] [10]]).base.conn.head.map (·.1)) = some 500 := by decide

/-- **gzip_only_if_accepted** (run level, NO side condition — every program, request shape, gzip writer): if at
    the end of the run the transform is compressing, or the gzip writer was called at all, then the request's
    Accept-Encoding mentions gzip.  (With `decoded_per_content_encoding`: in clean runs the response carries
    `Content-Encoding: gzip` only if the request mentions gzip.) -/
theorem gzip_only_if_accepted (gz : Gz) (rq : Req) (ae : Option Str) (prog : List Op) :
    ((run gz rq ae prog).t.gzipping = true ∨ (run gz rq ae prog).t.hist ≠ []) → mentionsGzip ae = true := by
  have v := P_runOps gz rq (GzP ae) (fun s fin h => GzP_hFlush gz rq ae s fin h) prog (init rq ae)
    ⟨fun h => h, fun h => absurd rfl h, fun _ => rfl⟩
  rintro (h | h)
  · exact v.1 h
  · exact v.1 (v.2.1 h)

/-- **run_feed_is_writes** (no contract needed): in the same runs the transform is fed exactly the program's
    writes, as flushes followed by exactly one close, and the response body is the concatenation of what it emitted;
    a non-compressing transform leaves the body equal to the writes. -/
theorem run_feed_is_writes (gz : Gz) (rq : Req) (ae : Option Str) (hrq : reqOK rq = true) (hm : rq.method ≠ Method.head)
    (hinm : rq.inmMatch = false) (prog : List Op) (hops : ∀ op ∈ prog, opClean op = true) :
    ∃ hs d body,
      C02.Spec.clientParse (rq.method == .head) (wire (run gz rq ae prog).base.conn) (run gz rq ae prog).base.conn.closed
        = .ok (⟨headStatus 200 prog, reason (headStatus 200 prog), hs, body, d⟩, []) ∧
      ((run gz rq ae prog).t.gzipping = true →
        Spec.WellClosed (run gz rq ae prog).t.hist ∧ body = (Spec.outputs gz (run gz rq ae prog).t.hist).flatten ∧
        ((run gz rq ae prog).t.hist.map (·.1)).flatten = bodyOf prog) ∧
      ((run gz rq ae prog).t.gzipping = false → body = bodyOf prog) :=
  run_clean29 gz rq ae hrq hm hinm prog hops

/-! non-vacuity of the run-level theorems: a clean program that is compressed and streamed, one that is compressed in
    one shot is covered by the tie; here the hypotheses and both outcomes of the decision -/
example : reqOK { method := .get, v11 := true, conn := .absent } = true ∧
    (∀ op ∈ [Op.setHeader nCT [116, 101, 120, 116, 47, 120], .write [97], .flush, .write [98], .finish (some [99])],
      opClean op = true) := by decide
example : (run (fun h => (h.getLast?.map (·.1)).getD []) { method := .get, v11 := true, conn := .absent } (some vGzip)
    [Op.setHeader nCT [116, 101, 120, 116, 47, 120], .write [97], .flush, .write [98], .finish (some [99])]).t
      = { gzipping := true, hist := [([97], false), ([98, 99], true)], fileClosed := true } := by decide
example : (run (fun h => (h.getLast?.map (·.1)).getD []) { method := .get, v11 := true, conn := .absent } none
    [Op.setHeader nCT [116, 101, 120, 116, 47, 120], .write [97], .flush, .write [98], .finish (some [99])]).t.gzipping
      = false := by decide

/-! non-vacuity: the hypotheses are satisfiable and the decision is reachable both ways -/

/-- a toy "gzip": tags each output with a marker byte; `gunzip` drops the markers -/
example : ∃ (gz : Gz) (gunzip : Bytes → Option Bytes), Spec.GzContract gz gunzip ∧
    Spec.WellClosed [([1, 2], false), ([3], true)] := by
  refine ⟨fun h => (h.getLast?.map (·.1)).getD [], fun b => some b, ?_, ⟨[([1, 2], false)], [3], rfl, by simp⟩⟩
  intro h _
  have : ∀ (pre h : GzHist), (Spec.outputsFrom (fun h => (h.getLast?.map (·.1)).getD []) pre h).flatten
      = (h.map (·.1)).flatten := by
    intro pre h
    induction h generalizing pre with
    | nil => simp [Spec.outputsFrom]
    | cons p ps ih => simp [Spec.outputsFrom, ih]
  simp [Spec.outputs, this]

example : (transformFirst (fun _ => [31, 139]) { gzipping := mentionsGzip (some vGzip) } 200
    (defaultHdrs { method := .get, v11 := true, conn := .absent }) [1, 2, 3] false).1.gzipping = true := by decide
example : (transformFirst (fun _ => [31, 139]) { gzipping := mentionsGzip (some vGzip) } 200
    (defaultHdrs { method := .get, v11 := true, conn := .absent }) [1, 2, 3] true).1.gzipping = false := by decide
example : (transformFirst (fun _ => [31, 139]) { gzipping := mentionsGzip none } 200
    (defaultHdrs { method := .get, v11 := true, conn := .absent }) [1, 2, 3] false).1.gzipping = false := by decide

end TornadoModel.C29
