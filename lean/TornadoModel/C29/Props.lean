import TornadoModel.C29.Spec
namespace TornadoModel.C29

theorem stub : minLength = 1024 := rfl

end TornadoModel.C29
