/- C29 — run level: for exception-free ("clean") handler programs the bytes the strict client reads are the
   transform's outputs, the transform's inputs are the program's writes, and the gzip stream is closed exactly
   once, at the end.  Built on the C02 clean-run machinery (`C02.Writes`): `C29.hFlush` is `C02.hFlushCore` on
   the state whose header map / buffer are the transform's outputs. -/
import TornadoModel.C29.Lemmas
import TornadoModel.C02.Writes
namespace TornadoModel.C29
open TornadoModel.C02 TornadoModel.C02.Spec
open TornadoModel.C06 (Str normalize dget dset ddel isToken joinWith)

/-! ### what `transform_first_chunk` / `transform_chunk` return -/

/-- the header map after `transform_first_chunk` when it compresses -/
def gzHdrs (h : HMap) (fin : Bool) (n : Nat) : HMap :=
  if hhas (hset (addVary h) nCE vGzip) nCL then
    (if fin then hset (hset (addVary h) nCE vGzip) nCL (toDec n) else hdel (hset (addVary h) nCE vGzip) nCL)
  else hset (addVary h) nCE vGzip

theorem transformFirst_cases (gz : Gz) (t : TSt) (status : Nat) (h : HMap) (chunk : Bytes) (fin : Bool)
    (hc : t.fileClosed = false) :
    (transformFirst gz t status h chunk fin = ({ t with gzipping := false }, addVary h, chunk))
    ∨ (transformFirst gz t status h chunk fin =
        ({ gzipping := true, hist := t.hist ++ [(chunk, fin)], fileClosed := fin },
          gzHdrs h fin (gz (t.hist ++ [(chunk, fin)])).length, gz (t.hist ++ [(chunk, fin)]))) := by
  unfold transformFirst
  simp only []
  by_cases hd : decide1 t status (addVary h) chunk fin = true
  · right
    simp only [hd, if_true, transformChunk, hc, Bool.false_eq_true, if_false, gzHdrs]
  · left
    have hd' : decide1 t status (addVary h) chunk fin = false := by simpa using hd
    simp [hd']

theorem transformChunk_open (gz : Gz) (t : TSt) (chunk : Bytes) (fin : Bool) (hc : t.fileClosed = false) :
    transformChunk gz t chunk fin =
      some (if t.gzipping then
              ({ t with hist := t.hist ++ [(chunk, fin)], fileClosed := fin }, gz (t.hist ++ [(chunk, fin)]))
            else (t, chunk)) := by
  unfold transformChunk
  cases t.gzipping <;> simp [hc]

/-! ### the transform keeps the header-map invariant of C02 -/

theorem validValue_append (a b : Str) (ha : validValue a = true) (hb : validValue b = true) :
    validValue (a ++ b) = true := by
  simp only [validValue, List.all_append, Bool.and_eq_true] at *
  exact ⟨ha, hb⟩

theorem validValue_joinWith : ∀ (vs : List Str), (∀ v ∈ vs, validValue v = true) →
    validValue (joinWith [44] vs) = true
  | [], _ => rfl
  | [w], h => h w (by simp)
  | w :: w2 :: ws, h => by
    have ih := validValue_joinWith (w2 :: ws) (fun v hv => h v (by simp [hv]))
    show validValue (w ++ [44] ++ joinWith [44] (w2 :: ws)) = true
    exact validValue_append _ _ (validValue_append _ _ (h w (by simp)) (by decide)) ih

theorem validValue_hget (h : HMap) (hk : KeysOK h) (n : Str) : validValue (hget h n) = true := by
  unfold hget
  cases hg : dget (normalize n) h with
  | none => rfl
  | some vs => exact validValue_joinWith vs (hk.2 _ (C06.mem_of_dget _ _ _ hg)).2.2

theorem HOK_addVary (h : HMap) (hok : HOK h) : HOK (addVary h) := by
  unfold addVary
  split
  · exact HOK_hset _ _ _ hok (by decide)
      (validValue_append _ _ (validValue_hget h hok.1 nVary) (by decide)) (by decide)
  · exact HOK_hset _ _ _ hok (by decide) (by decide) (by decide)

theorem validValue_toDec (n : Nat) : validValue (toDec n) = true := by
  unfold validValue
  rw [List.all_eq_true]
  intro c hc
  have := toDec_digits n c hc
  simp only [isDigit, Bool.and_eq_true, decide_eq_true_eq] at this
  simp only [validValueChar, Bool.or_eq_true, Bool.and_eq_true, decide_eq_true_eq]
  omega

theorem HOK_gzHdrs (h : HMap) (hok : HOK h) (fin : Bool) (n : Nat) : HOK (gzHdrs h fin n) := by
  have h1 : HOK (hset (addVary h) nCE vGzip) :=
    HOK_hset _ _ _ (HOK_addVary h hok) (by decide) (by decide) (by decide)
  unfold gzHdrs
  split
  · split
    · exact HOK_hset _ _ _ h1 (by decide) (validValue_toDec n) (by decide)
    · exact HOK_hdel _ _ h1
  · exact h1

theorem dget_nCL_addVary (h : HMap) : dget nCL (addVary h) = dget nCL h := by
  unfold addVary hset
  split <;> exact dget_dset_ne _ _ _ _ (by decide)

theorem dget_nCL_ce (h : HMap) : dget nCL (hset (addVary h) nCE vGzip) = dget nCL h := by
  unfold hset
  rw [dget_dset_ne _ _ _ _ (by decide)]
  exact dget_nCL_addVary h

/-- streaming (not finishing): no Content-Length survives the compressing transform -/
theorem gzHdrs_stream_ncl (h : HMap) (n : Nat) : dget nCL (gzHdrs h false n) = none := by
  unfold gzHdrs
  by_cases hh : hhas (hset (addVary h) nCE vGzip) nCL = true
  · simp only [hh, if_true, Bool.false_eq_true, if_false]
    unfold hdel
    rw [norm_nCL, C02.dget_ddel]
    simp
  · have hh' : hhas (hset (addVary h) nCE vGzip) nCL = false := by simpa using hh
    rw [if_neg hh]
    rw [hhas_nCL] at hh'
    cases hg : dget nCL (hset (addVary h) nCE vGzip) with
    | none => rfl
    | some v => rw [hg] at hh'; simp at hh'

/-- finishing in the first chunk with a Content-Length in the map: it is rewritten to the encoded length -/
theorem gzHdrs_fin_cl (h : HMap) (n : Nat) (vs : List Str) (hcl : dget nCL h = some vs) :
    dget nCL (gzHdrs h true n) = some [toDec n] := by
  have hh : hhas (hset (addVary h) nCE vGzip) nCL = true := by
    rw [hhas_nCL, dget_nCL_ce, hcl]; rfl
  unfold gzHdrs
  simp only [hh, if_true]
  unfold hset
  rw [norm_nCL, dget_dset_same]

/-! ### `C29.hFlush` is `C02.hFlushCore` on the transform's outputs -/

theorem hFlush_eq (gz : Gz) (rq : Req) (s : St) (fin : Bool)
    (h : s.base.headersWritten = true ∨ clValid s.base.hdrs = true) : hFlush gz rq s fin = hFlushT gz rq s fin := by
  unfold hFlush
  rcases h with h | h <;> simp [h]

theorem hFlush_reject (gz : Gz) (rq : Req) (s : St) (fin : Bool)
    (hw : s.base.headersWritten = false) (hv : clValid s.base.hdrs = false) : hFlush gz rq s fin = (s, true) := by
  unfold hFlush; simp [hw, hv]

theorem hFlush_unwritten (gz : Gz) (rq : Req) (s : St) (fin : Bool) (hw : s.base.headersWritten = false)
    (hv : clValid s.base.hdrs = true) :
    hFlush gz rq s fin =
      ({ base := (hFlushCore rq { s.base with
                    hdrs := (transformFirst gz s.t s.base.status s.base.hdrs s.base.buf.flatten fin).2.1,
                    buf := [(transformFirst gz s.t s.base.status s.base.hdrs s.base.buf.flatten fin).2.2] }).1,
         t := (transformFirst gz s.t s.base.status s.base.hdrs s.base.buf.flatten fin).1 },
       (hFlushCore rq { s.base with
                    hdrs := (transformFirst gz s.t s.base.status s.base.hdrs s.base.buf.flatten fin).2.1,
                    buf := [(transformFirst gz s.t s.base.status s.base.hdrs s.base.buf.flatten fin).2.2] }).2) := by
  rw [hFlush_eq gz rq s fin (Or.inr hv)]
  simp [hFlushT, hFlushCore, hw]

theorem hFlush_written (gz : Gz) (rq : Req) (s : St) (fin : Bool) (hw : s.base.headersWritten = true)
    (t' : TSt) (chunk' : Bytes) (ht : transformChunk gz s.t s.base.buf.flatten fin = some (t', chunk')) :
    hFlush gz rq s fin =
      ({ base := (hFlushCore rq { s.base with buf := [chunk'] }).1, t := t' },
       (hFlushCore rq { s.base with buf := [chunk'] }).2) := by
  rw [hFlush_eq gz rq s fin (Or.inl hw)]
  simp only [hFlushT, hFlushCore, hw, ht]
  by_cases hm : (rq.method != Method.head) = true <;> simp [hm]

/-! ### invariant of the transform state in a clean run -/

/-- what has been handed on so far, seen from the handler's side: the transform's inputs when it compresses,
    else the chunks the connection accepted -/
def fedOf (t : TSt) (sent : List Bytes) : Bytes :=
  if t.gzipping then (t.hist.map (·.1)).flatten else sent.flatten
def fed (s : St) : Bytes := fedOf s.t s.base.conn.sent

structure TI (gz : Gz) (s : St) : Prop where
  open_ : s.t.fileClosed = false
  fl : ∀ p ∈ s.t.hist, p.2 = false
  pre : s.base.headersWritten = false → s.t.hist = []
  out : s.t.gzipping = true → s.base.conn.sent.flatten = (Spec.outputs gz s.t.hist).flatten

theorem outputsFrom_append (gz : Gz) (a : GzHist) (c : Bytes × Bool) : ∀ (pre : GzHist),
    Spec.outputsFrom gz pre (a ++ [c]) = Spec.outputsFrom gz pre a ++ [gz (pre ++ a ++ [c])] := by
  induction a with
  | nil => intro pre; simp [Spec.outputsFrom]
  | cons x xs ih => intro pre; simp [Spec.outputsFrom, ih]

theorem outputs_append (gz : Gz) (a : GzHist) (c : Bytes × Bool) :
    Spec.outputs gz (a ++ [c]) = Spec.outputs gz a ++ [gz (a ++ [c])] := by
  unfold Spec.outputs
  rw [outputsFrom_append]; simp

theorem CI_buf (rq : Req) (b : C02.St) (K : Nat) (ci : CI rq b K) (x : List Bytes) : CI rq { b with buf := x } K :=
  ⟨⟨ci.wf.st1, ci.wf.st2, ci.wf.fin, ci.wf.pre, ci.wf.post⟩, ci.nb, ci.ncl, ci.live⟩

/-- `C02.hFlush_stream`, stated for `hFlushCore` -/
theorem hFlushCore_stream (rq : Req) (s : C02.St) (K : Nat) (ci : CI rq s K) (hm : (rq.method == Method.head) = false) :
    (hFlushCore rq s).2 = false ∧ CI rq (hFlushCore rq s).1 (if s.headersWritten then K else s.status) ∧
    (hFlushCore rq s).1.headersWritten = true ∧ (hFlushCore rq s).1.buf = [] ∧ (hFlushCore rq s).1.status = s.status ∧
    (hFlushCore rq s).1.conn.sent.flatten = s.conn.sent.flatten ++ s.buf.flatten := by
  have hcore : C02.hFlush rq s = hFlushCore rq s := by
    cases hw : s.headersWritten with
    | true => exact hFlush_core rq s (Or.inl hw)
    | false => exact hFlush_core rq s (Or.inr (clValid_absent _ (ci.ncl hw)))
  rw [← hcore]
  exact hFlush_stream rq s K ci hm

/-- `C02.hFlush_cl`, stated for `hFlushCore` -/
theorem hFlushCore_cl (rq : Req) (s : C02.St) (w : WF rq s) (hm : (rq.method == Method.head) = false)
    (hw : s.headersWritten = false) (hn : noBodyStatus s.status = false)
    (hcl : dget nCL s.hdrs = some [toDec s.buf.flatten.length]) :
    (hFlushCore rq s).2 = false ∧ Written rq (hFlushCore rq s).1.conn false ∧ (hFlushCore rq s).1.conn.closed = false ∧
    (hFlushCore rq s).1.conn.expected = some 0 ∧ (hFlushCore rq s).1.conn.sent.flatten = s.buf.flatten ∧
    ∃ hs, (hFlushCore rq s).1.conn.head = some (s.status, hs) := by
  have hcv : clValid s.hdrs = true := by
    unfold clValid hget
    rw [norm_nCL, hcl]
    simp only [C06.joinWith, parseDec_toDec]
    simp
  rw [← hFlush_core rq s (Or.inr hcv)]
  exact hFlush_cl rq s w hm hw hn hcl

/-- a flush after the head has been written, in a clean run (any `finishing` flag) -/
theorem flush_written29 (gz : Gz) (rq : Req) (s : St) (K : Nat) (fin : Bool) (ci : CI rq s.base K) (ti : TI gz s)
    (hm : (rq.method == Method.head) = false) (hw : s.base.headersWritten = true) :
    (hFlush gz rq s fin).2 = false ∧ CI rq (hFlush gz rq s fin).1.base K ∧
    (hFlush gz rq s fin).1.base.headersWritten = true ∧ (hFlush gz rq s fin).1.base.buf = [] ∧
    (hFlush gz rq s fin).1.base.status = s.base.status ∧
    (hFlush gz rq s fin).1.t = (if s.t.gzipping then
        { s.t with hist := s.t.hist ++ [(s.base.buf.flatten, fin)], fileClosed := fin } else s.t) ∧
    (hFlush gz rq s fin).1.base.conn.sent.flatten = s.base.conn.sent.flatten ++
      (if s.t.gzipping then gz (s.t.hist ++ [(s.base.buf.flatten, fin)]) else s.base.buf.flatten) := by
  have e : (if s.base.headersWritten = true then K else s.base.status) = K := if_pos hw
  cases hg : s.t.gzipping with
  | false =>
    have ht : transformChunk gz s.t s.base.buf.flatten fin = some (s.t, s.base.buf.flatten) := by
      rw [transformChunk_open gz s.t s.base.buf.flatten fin ti.open_]; simp [hg]
    rw [hFlush_written gz rq s fin hw _ _ ht]
    obtain ⟨f1, f2, f3, f4, f5, f6⟩ := hFlushCore_stream rq _ K (CI_buf rq s.base K ci [s.base.buf.flatten]) hm
    refine ⟨f1, e ▸ f2, f3, f4, f5, by simp, ?_⟩
    rw [f6]; simp
  | true =>
    have ht : transformChunk gz s.t s.base.buf.flatten fin =
        some ({ s.t with hist := s.t.hist ++ [(s.base.buf.flatten, fin)], fileClosed := fin },
          gz (s.t.hist ++ [(s.base.buf.flatten, fin)])) := by
      rw [transformChunk_open gz s.t s.base.buf.flatten fin ti.open_]; simp [hg]
    rw [hFlush_written gz rq s fin hw _ _ ht]
    obtain ⟨f1, f2, f3, f4, f5, f6⟩ := hFlushCore_stream rq _ K
      (CI_buf rq s.base K ci [gz (s.t.hist ++ [(s.base.buf.flatten, fin)])]) hm
    refine ⟨f1, e ▸ f2, f3, f4, f5, by simp, ?_⟩
    rw [f6]; simp

/-- consequences for the transform invariant of the update made by a non-finishing flush -/
theorem TI_after (gz : Gz) (s s' : St) (ti : TI gz s) (hw' : s'.base.headersWritten = true)
    (ht : s'.t = (if s.t.gzipping then
        { s.t with hist := s.t.hist ++ [(s.base.buf.flatten, false)], fileClosed := false } else s.t))
    (hs : s'.base.conn.sent.flatten = s.base.conn.sent.flatten ++
      (if s.t.gzipping then gz (s.t.hist ++ [(s.base.buf.flatten, false)]) else s.base.buf.flatten)) :
    TI gz s' ∧ fed s' = fed s ++ s.base.buf.flatten := by
  have hpre : s'.base.headersWritten = false → s'.t.hist = [] := fun h => by rw [hw'] at h; cases h
  cases hg : s.t.gzipping with
  | false =>
    rw [hg] at ht hs
    simp only [Bool.false_eq_true, if_false] at ht hs
    have hout : s'.t.gzipping = true → s'.base.conn.sent.flatten = (Spec.outputs gz s'.t.hist).flatten :=
      fun h => by rw [ht, hg] at h; cases h
    refine ⟨⟨(by rw [ht]; exact ti.open_), (by rw [ht]; exact ti.fl), hpre, hout⟩, ?_⟩
    simp [fed, fedOf, ht, hg, hs]
  | true =>
    rw [hg] at ht hs
    simp only [if_true] at ht hs
    have hfl : ∀ p ∈ s'.t.hist, p.2 = false := by
      rw [ht]; intro p hp
      simp only [List.mem_append, List.mem_singleton] at hp
      rcases hp with hp | rfl
      · exact ti.fl p hp
      · rfl
    have hout : s'.t.gzipping = true → s'.base.conn.sent.flatten = (Spec.outputs gz s'.t.hist).flatten := by
      intro _
      rw [hs, ht, ti.out hg]
      simp [outputs_append]
    refine ⟨⟨(by rw [ht]), hfl, hpre, hout⟩, ?_⟩
    simp [fed, fedOf, ht, hg]

theorem fed_pre (gz : Gz) (rq : Req) (s : St) (K : Nat) (ci : CI rq s.base K) (ti : TI gz s)
    (hw : s.base.headersWritten = false) : fed s = [] ∧ s.base.conn.sent = [] := by
  have hs : s.base.conn.sent = [] := (ci.wf.pre hw).1.2.2.2.1
  refine ⟨?_, hs⟩
  unfold fed fedOf
  rw [ti.pre hw, hs]
  cases s.t.gzipping <;> rfl

/-- `CI` for the state whose header map / buffer are replaced before the head is written -/
theorem CI_hdrs (rq : Req) (b : C02.St) (K : Nat) (ci : CI rq b K) (hw : b.headersWritten = false)
    (h' : HMap) (x : List Bytes) (hok : HOK h') (ncl : dget nCL h' = none) :
    CI rq { b with hdrs := h', buf := x } K :=
  ⟨⟨ci.wf.st1, ci.wf.st2, ci.wf.fin, fun _ => ⟨(ci.wf.pre hw).1, hok⟩,
    fun h => absurd (show b.headersWritten = true from h) (bool_ne_of_eq_false hw)⟩, ci.nb, fun _ => ncl,
    fun h => absurd (show b.headersWritten = true from h) (bool_ne_of_eq_false hw)⟩

/-- the first flush (not finishing) in a clean run -/
theorem flush_first29 (gz : Gz) (rq : Req) (s : St) (K : Nat) (ci : CI rq s.base K) (ti : TI gz s)
    (hm : (rq.method == Method.head) = false) (hw : s.base.headersWritten = false) :
    (hFlush gz rq s false).2 = false ∧ CI rq (hFlush gz rq s false).1.base s.base.status ∧
    TI gz (hFlush gz rq s false).1 ∧
    (hFlush gz rq s false).1.base.headersWritten = true ∧ (hFlush gz rq s false).1.base.buf = [] ∧
    (hFlush gz rq s false).1.base.status = s.base.status ∧
    fed (hFlush gz rq s false).1 = s.base.buf.flatten := by
  obtain ⟨fr, hok⟩ := ci.wf.pre hw
  have hsent : s.base.conn.sent = [] := fr.2.2.2.1
  have hh : s.t.hist = [] := ti.pre hw
  rw [hFlush_unwritten gz rq s false hw (clValid_absent _ (ci.ncl hw))]
  rcases transformFirst_cases gz s.t s.base.status s.base.hdrs s.base.buf.flatten false ti.open_ with e | e
  · rw [e]
    have ncl : dget nCL (addVary s.base.hdrs) = none := by rw [dget_nCL_addVary]; exact ci.ncl hw
    obtain ⟨f1, f2, f3, f4, f5, f6⟩ := hFlushCore_stream rq _ K
      (CI_hdrs rq s.base K ci hw (addVary s.base.hdrs) [s.base.buf.flatten] (HOK_addVary _ hok) ncl) hm
    have hk : (if s.base.headersWritten = true then K else s.base.status) = s.base.status := if_neg (bool_ne_of_eq_false hw)
    have hfed : fedOf { s.t with gzipping := false } (hFlushCore rq
        { s.base with hdrs := addVary s.base.hdrs, buf := [s.base.buf.flatten] }).1.conn.sent = s.base.buf.flatten := by
      unfold fedOf
      simp only [Bool.false_eq_true, if_false]
      rw [f6, hsent]; simp
    rw [hk] at f2
    exact ⟨f1, f2, ⟨ti.open_, ti.fl, fun h => (by rw [f3] at h; cases h), fun h => (by cases h)⟩, f3, f4, f5, hfed⟩
  · rw [e, hh]
    simp only [List.nil_append]
    obtain ⟨o, ho⟩ : ∃ o, o = gz [(s.base.buf.flatten, false)] := ⟨_, rfl⟩
    rw [← ho]
    have ncl := gzHdrs_stream_ncl s.base.hdrs o.length
    obtain ⟨f1, f2, f3, f4, f5, f6⟩ := hFlushCore_stream rq _ K
      (CI_hdrs rq s.base K ci hw (gzHdrs s.base.hdrs false o.length) [o] (HOK_gzHdrs _ hok _ _) ncl) hm
    have hk : (if s.base.headersWritten = true then K else s.base.status) = s.base.status := if_neg (bool_ne_of_eq_false hw)
    rw [hk] at f2
    have hfl : ∀ p ∈ [(s.base.buf.flatten, false)], p.2 = false := by
      intro p hp
      have : p = (s.base.buf.flatten, false) := by simpa using hp
      rw [this]
    have hout : (hFlushCore rq { s.base with hdrs := gzHdrs s.base.hdrs false o.length, buf := [o] }).1.conn.sent.flatten
        = (Spec.outputs gz [(s.base.buf.flatten, false)]).flatten := by
      rw [f6, hsent, ho]; simp [Spec.outputs, Spec.outputsFrom]
    refine ⟨f1, f2, ⟨rfl, hfl, fun h => (by rw [f3] at h; cases h), fun _ => hout⟩, f3, f4, f5, ?_⟩
    simp [fed, fedOf]

/-! ### finish -/

theorem hFinish_stages29 (gz : Gz) (rq : Req) (s : St) (chunk : Option Bytes) (hf : s.base.finished = false)
    (p : C02.St × Bool) (hp : p = (if (!(addBuf s.base chunk).headersWritten) = true then finishPrep rq (addBuf s.base chunk)
             else (addBuf s.base chunk, false))) :
    hFinish gz rq s chunk =
      (if p.2 = true then ({ s with base := p.1 }, true)
       else if (hFlush gz rq { s with base := p.1 } true).2 = true then ((hFlush gz rq { s with base := p.1 } true).1, true)
       else if (cFinish (hFlush gz rq { s with base := p.1 } true).1.base.conn).2 = true
         then ({ (hFlush gz rq { s with base := p.1 } true).1 with
                  base := { (hFlush gz rq { s with base := p.1 } true).1.base with
                    conn := (cFinish (hFlush gz rq { s with base := p.1 } true).1.base.conn).1 } }, true)
         else ({ (hFlush gz rq { s with base := p.1 } true).1 with
                  base := { (hFlush gz rq { s with base := p.1 } true).1.base with
                    conn := (cFinish (hFlush gz rq { s with base := p.1 } true).1.base.conn).1, finished := true } },
               false)) := by
  subst hp
  unfold hFinish
  rw [if_neg (bool_ne_of_eq_false hf)]
  cases chunk <;> rfl

/-- the outcome of the flush inside `finish()` that the rest of `finish()` needs -/
def FlushedOK (gz : Gz) (rq : Req) (q : St × Bool) (body : Bytes) (code : Nat) : Prop :=
  q.2 = false ∧ Written rq q.1.base.conn false ∧ q.1.base.conn.closed = false ∧
  (q.1.base.conn.expected = none ∨ q.1.base.conn.expected = some 0) ∧
  fed q.1 = body ∧
  (q.1.t.gzipping = true → Spec.WellClosed q.1.t.hist ∧
    q.1.base.conn.sent.flatten = (Spec.outputs gz q.1.t.hist).flatten) ∧
  ∃ hs, q.1.base.conn.head = some (code, hs)

/-- the finishing flush when the head is already on the wire -/
theorem finflush_written29 (gz : Gz) (rq : Req) (s : St) (K : Nat) (ci : CI rq s.base K) (ti : TI gz s)
    (hm : (rq.method == Method.head) = false) (hw : s.base.headersWritten = true) :
    FlushedOK gz rq (hFlush gz rq s true) (fed s ++ s.base.buf.flatten) K := by
  obtain ⟨f1, f2, f3, _, _, f6, f7⟩ := flush_written29 gz rq s K true ci ti hm hw
  obtain ⟨g1, g2, hs, g3⟩ := f2.live f3
  refine ⟨f1, Written_of_WF_open rq _ f2.wf f3 g1, g1, Or.inl g2, ?_, ?_, hs, g3⟩
  · unfold fed fedOf
    rw [f6, f7]
    cases hg : s.t.gzipping <;> simp [hg]
  · intro hgz
    rw [f6] at hgz ⊢
    rw [f7]
    cases hg : s.t.gzipping with
    | false => rw [hg] at hgz; simp only [Bool.false_eq_true, if_false] at hgz; rw [hg] at hgz; cases hgz
    | true =>
      simp only [if_true]
      refine ⟨⟨s.t.hist, s.base.buf.flatten, rfl, ti.fl⟩, ?_⟩
      rw [ti.out hg, outputs_append]; simp

/-- the finishing flush when nothing has been written yet: the map carries the automatic Content-Length -/
theorem finflush_first29 (gz : Gz) (rq : Req) (s : St) (ti : TI gz s) (p : Pre rq s.base)
    (hm : (rq.method == Method.head) = false) (hn : noBodyStatus s.base.status = false)
    (hcl : dget nCL s.base.hdrs = some [toDec s.base.buf.flatten.length]) :
    FlushedOK gz rq (hFlush gz rq s true) s.base.buf.flatten s.base.status := by
  have hw : s.base.headersWritten = false := p.2.2.2.1
  have hh : s.t.hist = [] := ti.pre hw
  have hcv : clValid s.base.hdrs = true := by
    unfold clValid hget
    rw [norm_nCL, hcl]
    simp only [C06.joinWith, parseDec_toDec]
    simp
  rw [hFlush_unwritten gz rq s true hw hcv]
  rcases transformFirst_cases gz s.t s.base.status s.base.hdrs s.base.buf.flatten true ti.open_ with e | e
  · rw [e]
    have w' : WF rq { s.base with hdrs := addVary s.base.hdrs, buf := [s.base.buf.flatten] } :=
      ⟨p.1, p.2.1, p.2.2.1, fun _ => ⟨p.2.2.2.2.1, HOK_addVary _ p.2.2.2.2.2⟩,
        fun h => absurd (show s.base.headersWritten = true from h) (bool_ne_of_eq_false hw)⟩
    have hcl' : dget nCL (addVary s.base.hdrs) = some [toDec [s.base.buf.flatten].flatten.length] := by
      rw [dget_nCL_addVary, hcl]; simp
    obtain ⟨f1, f2, f3, f4, f5, hs, f6⟩ := hFlushCore_cl rq _ w' hm hw hn hcl'
    refine ⟨f1, f2, f3, Or.inr f4, ?_, fun h => (by cases h), hs, f6⟩
    show fedOf { s.t with gzipping := false } _ = _
    unfold fedOf
    simp only [Bool.false_eq_true, if_false]
    rw [f5]; simp
  · rw [e, hh]
    simp only [List.nil_append]
    obtain ⟨o, ho⟩ : ∃ o, o = gz [(s.base.buf.flatten, true)] := ⟨_, rfl⟩
    rw [← ho]
    have w' : WF rq { s.base with hdrs := gzHdrs s.base.hdrs true o.length, buf := [o] } :=
      ⟨p.1, p.2.1, p.2.2.1, fun _ => ⟨p.2.2.2.2.1, HOK_gzHdrs _ p.2.2.2.2.2 _ _⟩,
        fun h => absurd (show s.base.headersWritten = true from h) (bool_ne_of_eq_false hw)⟩
    have hcl' : dget nCL (gzHdrs s.base.hdrs true o.length) = some [toDec [o].flatten.length] := by
      rw [gzHdrs_fin_cl _ _ _ hcl]; simp
    obtain ⟨f1, f2, f3, f4, f5, hs, f6⟩ := hFlushCore_cl rq _ w' hm hw hn hcl'
    refine ⟨f1, f2, f3, Or.inr f4, ?_, fun _ => ⟨⟨[], s.base.buf.flatten, rfl, by simp⟩, ?_⟩, hs, f6⟩
    · simp [fed, fedOf]
    · show _ = (Spec.outputs gz [(s.base.buf.flatten, true)]).flatten
      rw [f5, ho]; simp [Spec.outputs, Spec.outputsFrom]

/-- what a clean run ends in: the client reads exactly one response whose body is what the connection accepted;
    that is the transform's output; the transform's input is `body`; the gzip stream was closed once, at the end -/
def Finished (gz : Gz) (rq : Req) (f : St) (body : Bytes) (code : Nat) : Prop :=
  f.base.finished = true ∧ fed f = body ∧
  (f.t.gzipping = true → Spec.WellClosed f.t.hist ∧ f.base.conn.sent.flatten = (Spec.outputs gz f.t.hist).flatten) ∧
  ∃ hs, f.base.conn.head = some (code, hs) ∧
    clientParse (rq.method == .head) (wire f.base.conn) f.base.conn.closed
      = .ok (expectedResp rq f.base.conn code hs, [])

/-- `finish(b)` in a clean run -/
theorem hFinish_clean29 (gz : Gz) (rq : Req) (hrq : reqOK rq = true) (hm : (rq.method == Method.head) = false)
    (hinm : rq.inmMatch = false) (s : St) (K : Nat) (b : Option Bytes) (ci : CI rq s.base K) (ti : TI gz s) :
    (hFinish gz rq s b).2 = false ∧
    Finished gz rq (hFinish gz rq s b).1 (fed s ++ s.base.buf.flatten ++ b.getD [])
      (if s.base.headersWritten then K else s.base.status) := by
  have w0 := WF_addBuf rq s.base b ci.wf
  have hst : (addBuf s.base b).status = s.base.status := by cases b <;> rfl
  have hhw : (addBuf s.base b).headersWritten = s.base.headersWritten := by cases b <;> rfl
  have hcn : (addBuf s.base b).conn = s.base.conn := by cases b <;> rfl
  have hhd : (addBuf s.base b).hdrs = s.base.hdrs := by cases b <;> rfl
  have hbf : (addBuf s.base b).buf.flatten = s.base.buf.flatten ++ b.getD [] := by
    cases b <;> simp [addBuf]
  have key : ∀ p : C02.St × Bool, p = (if (!(addBuf s.base b).headersWritten) = true then finishPrep rq (addBuf s.base b)
             else (addBuf s.base b, false)) →
      p.2 = false ∧ FlushedOK gz rq (hFlush gz rq { s with base := p.1 } true)
        (fed s ++ s.base.buf.flatten ++ b.getD []) (if s.base.headersWritten then K else s.base.status) := by
    intro p hp
    by_cases hw : s.base.headersWritten = true
    · have hw0 : (addBuf s.base b).headersWritten = true := hhw.trans hw
      have : p = (addBuf s.base b, false) := by rw [hp]; simp [hw0]
      rw [this]
      have ci0 : CI rq (addBuf s.base b) K := ⟨w0, by rw [hst]; exact ci.nb,
        fun h => absurd hw0 (bool_ne_of_eq_false h), fun _ => by rw [hcn]; exact ci.live hw⟩
      have ti0 : TI gz { s with base := addBuf s.base b } :=
        ⟨ti.open_, ti.fl, fun h => absurd hw0 (bool_ne_of_eq_false h), fun h => by
          show (addBuf s.base b).conn.sent.flatten = _
          rw [hcn]; exact ti.out h⟩
      have r := finflush_written29 gz rq { s with base := addBuf s.base b } K ci0 ti0 hm hw0
      have hfed : fed { s with base := addBuf s.base b } = fed s := by
        show fedOf s.t (addBuf s.base b).conn.sent = fedOf s.t s.base.conn.sent
        rw [hcn]
      refine ⟨rfl, ?_⟩
      rw [if_pos hw]
      have hb : fed s ++ s.base.buf.flatten ++ b.getD [] =
          fed { s with base := addBuf s.base b } ++ ({ s with base := addBuf s.base b } : St).base.buf.flatten := by
        rw [hfed]
        show _ = fed s ++ (addBuf s.base b).buf.flatten
        rw [hbf, List.append_assoc]
      rw [hb]
      exact r
    · have hw' : s.base.headersWritten = false := by simpa using hw
      have hw0 : (addBuf s.base b).headersWritten = false := hhw.trans hw'
      have : p = finishPrep rq (addBuf s.base b) := by rw [hp]; simp [hw0]
      rw [this]
      obtain ⟨q1, q2, q3, q4, q5, q6⟩ := finishPrep_clean rq hrq hinm (addBuf s.base b) (Pre_of_WF rq _ w0 hw0)
        (by rw [hst]; exact ci.nb) (by rw [hhd]; exact ci.ncl hw')
      have ti1 : TI gz { s with base := (finishPrep rq (addBuf s.base b)).1 } :=
        ⟨ti.open_, ti.fl, fun _ => ti.pre hw', fun h => by
          show (finishPrep rq (addBuf s.base b)).1.conn.sent.flatten = _
          rw [q5, hcn]; exact ti.out h⟩
      have r := finflush_first29 gz rq { s with base := (finishPrep rq (addBuf s.base b)).1 } ti1 q2 hm
        (by show noBodyStatus (finishPrep rq (addBuf s.base b)).1.status = false
            rw [q3, hst]; exact ci.nb)
        (by show dget nCL (finishPrep rq (addBuf s.base b)).1.hdrs = some [toDec (finishPrep rq (addBuf s.base b)).1.buf.flatten.length]
            rw [q6, q4])
      refine ⟨q1, ?_⟩
      rw [if_neg hw]
      have hb : fed s ++ s.base.buf.flatten ++ b.getD [] = (finishPrep rq (addBuf s.base b)).1.buf.flatten := by
        rw [(fed_pre gz rq s K ci ti hw').1, q4, hbf]; rfl
      have hc : s.base.status = (finishPrep rq (addBuf s.base b)).1.status := by rw [q3, hst]
      rw [hb, hc]
      exact r
  obtain ⟨p, hp⟩ : ∃ p, p = (if (!(addBuf s.base b).headersWritten) = true then finishPrep rq (addBuf s.base b)
             else (addBuf s.base b, false)) := ⟨_, rfl⟩
  obtain ⟨k1, k2, k3, k4, k5, k6, k7, hs, k8⟩ := key p hp
  obtain ⟨m1, m2, m3, code, hs', m4, m5⟩ := parse_after_cFinish rq _ k3 k4 k5
  rw [k8] at m4; cases m4
  rw [hFinish_stages29 gz rq s b ci.wf.fin p hp]
  rw [if_neg (bool_ne_of_eq_false k1), if_neg (bool_ne_of_eq_false k2), if_neg (bool_ne_of_eq_false m1)]
  refine ⟨rfl, rfl, ?_, ?_, hs, ?_, m5⟩
  · show fedOf (hFlush gz rq { s with base := p.1 } true).1.t
      (cFinish (hFlush gz rq { s with base := p.1 } true).1.base.conn).1.sent = _
    rw [m2]; exact k6
  · intro hg
    obtain ⟨a1, a2⟩ := k7 hg
    refine ⟨a1, ?_⟩
    show (cFinish (hFlush gz rq { s with base := p.1 } true).1.base.conn).1.sent.flatten = _
    rw [m2]; exact a2
  · show (cFinish (hFlush gz rq { s with base := p.1 } true).1.base.conn).1.head = _
    rw [m3, k8]

/-! ### steps and runs -/

theorem step_other_conn (rq : Req) (b : C02.St) (op : Op) (h1 : op ≠ .flush) (h2 : ∀ x, op ≠ .finish x) :
    (C02.step rq b op).1.conn = b.conn ∧ (C02.step rq b op).1.headersWritten = b.headersWritten := by
  cases op with
  | setStatus c => exact ⟨rfl, rfl⟩
  | setHeader n v => simp only [C02.step]; split <;> exact ⟨rfl, rfl⟩
  | addHeader n v => simp only [C02.step]; split <;> (try split) <;> exact ⟨rfl, rfl⟩
  | clearHeader n => exact ⟨rfl, rfl⟩
  | write x => simp only [C02.step]; split <;> exact ⟨rfl, rfl⟩
  | flush => exact absurd rfl h1
  | finish x => exact absurd rfl (h2 x)

theorem step_eq_other (gz : Gz) (rq : Req) (s : St) (op : Op) (h1 : op ≠ .flush) (h2 : ∀ x, op ≠ .finish x) :
    step gz rq s op = ({ s with base := (C02.step rq s.base op).1 }, (C02.step rq s.base op).2) := by
  cases op with
  | flush => exact absurd rfl h1
  | finish x => exact absurd rfl (h2 x)
  | _ => rfl

/-- a non-finishing clean op: never raises, keeps both invariants, and accounts for exactly what it writes -/
theorem step_clean29 (gz : Gz) (rq : Req) (hm : (rq.method == Method.head) = false) (s : St) (K : Nat) (op : Op)
    (ops : List Op) (ci : CI rq s.base K) (ti : TI gz s) (hop : opClean op = true) (hnf : ∀ b, op ≠ .finish b) :
    ∃ K', (step gz rq s op).2 = false ∧ CI rq (step gz rq s op).1.base K' ∧ TI gz (step gz rq s op).1 ∧
      fed (step gz rq s op).1 ++ (step gz rq s op).1.base.buf.flatten ++ bodyOf ops
        = fed s ++ s.base.buf.flatten ++ bodyOf (op :: ops) ∧
      tgt (step gz rq s op).1.base K' ops = tgt s.base K (op :: ops) := by
  by_cases hfl : op = .flush
  · subst hfl
    show ∃ K', (hFlush gz rq s false).2 = false ∧ CI rq (hFlush gz rq s false).1.base K' ∧ TI gz (hFlush gz rq s false).1 ∧
      fed (hFlush gz rq s false).1 ++ (hFlush gz rq s false).1.base.buf.flatten ++ bodyOf ops
        = fed s ++ s.base.buf.flatten ++ bodyOf (Op.flush :: ops) ∧
      tgt (hFlush gz rq s false).1.base K' ops = tgt s.base K (Op.flush :: ops)
    by_cases hw : s.base.headersWritten = true
    · obtain ⟨f1, f2, f3, f4, f5, f6, f7⟩ := flush_written29 gz rq s K false ci ti hm hw
      obtain ⟨t1, t2⟩ := TI_after gz s _ ti f3 f6 f7
      refine ⟨K, f1, f2, t1, ?_, ?_⟩
      · rw [t2, f4]; simp [bodyOf]
      · unfold tgt; rw [f3, hw]; simp
    · have hw' : s.base.headersWritten = false := by simpa using hw
      obtain ⟨f1, f2, f3, f4, f5, f6, f7⟩ := flush_first29 gz rq s K ci ti hm hw'
      refine ⟨s.base.status, f1, f2, f3, ?_, ?_⟩
      · rw [f7, f5, (fed_pre gz rq s K ci ti hw').1]; simp [bodyOf]
      · unfold tgt; rw [f4, hw']; simp [headStatus]
  · rw [step_eq_other gz rq s op hfl hnf]
    obtain ⟨K', g1, g2, g3, g4⟩ := step_clean rq hm s.base K op ops ci hop hnf
    obtain ⟨c1, c2⟩ := step_other_conn rq s.base op hfl hnf
    have g3' : (C02.step rq s.base op).1.buf.flatten ++ bodyOf ops = s.base.buf.flatten ++ bodyOf (op :: ops) := by
      rw [c1, List.append_assoc, List.append_assoc] at g3
      exact List.append_cancel_left g3
    refine ⟨K', g1, g2, ⟨ti.open_, ti.fl, fun h => ti.pre (c2 ▸ h), fun h => ?_⟩, ?_, g4⟩
    · show (C02.step rq s.base op).1.conn.sent.flatten = _
      rw [c1]; exact ti.out h
    · show fedOf s.t (C02.step rq s.base op).1.conn.sent ++ (C02.step rq s.base op).1.buf.flatten ++ bodyOf ops = _
      rw [c1, List.append_assoc, g3', ← List.append_assoc]; rfl

theorem runOps_finished29 (gz : Gz) (rq : Req) (s : St) (ops : List Op) (h : s.base.finished = true) :
    runOps gz rq s ops = s := by
  cases ops <;> simp [runOps, h]

/-- a clean run from any clean state -/
theorem runOps_clean29 (gz : Gz) (rq : Req) (hrq : reqOK rq = true) (hm : (rq.method == Method.head) = false)
    (hinm : rq.inmMatch = false) (prog : List Op) :
    ∀ (s : St) (K : Nat), CI rq s.base K → TI gz s → (∀ op ∈ prog, opClean op = true) →
      Finished gz rq (runOps gz rq s prog) (fed s ++ s.base.buf.flatten ++ bodyOf prog) (tgt s.base K prog) := by
  induction prog with
  | nil =>
    intro s K ci ti _
    obtain ⟨f1, f2⟩ := hFinish_clean29 gz rq hrq hm hinm s K none ci ti
    have e : runOps gz rq s [] = (hFinish gz rq s none).1 := by
      unfold runOps
      rw [if_neg (bool_ne_of_eq_false ci.wf.fin)]
      simp [f1]
    rw [e]
    have ht : tgt s.base K [] = if s.base.headersWritten = true then K else s.base.status := by simp [tgt, headStatus]
    rw [ht]
    simpa [bodyOf] using f2
  | cons op ops ih =>
    intro s K ci ti hops
    have hclean := hops op (by simp)
    by_cases hfin : ∃ b, op = .finish b
    · obtain ⟨b, rfl⟩ := hfin
      obtain ⟨f1, f2⟩ := hFinish_clean29 gz rq hrq hm hinm s K b ci ti
      have e : runOps gz rq s (.finish b :: ops) = (hFinish gz rq s b).1 := by
        unfold runOps
        rw [if_neg (bool_ne_of_eq_false ci.wf.fin)]
        simp only [step, f1, Bool.false_eq_true, if_false]
        exact runOps_finished29 gz rq _ ops f2.1
      rw [e]
      have ht : tgt s.base K (.finish b :: ops) = if s.base.headersWritten = true then K else s.base.status := by
        simp [tgt, headStatus]
      rw [ht, bodyOf_finish]
      exact f2
    · have hnf : ∀ b, op ≠ .finish b := fun b e => hfin ⟨b, e⟩
      obtain ⟨K', g1, g2, g3, g4, g5⟩ := step_clean29 gz rq hm s K op ops ci ti hclean hnf
      have e : runOps gz rq s (op :: ops) = runOps gz rq (step gz rq s op).1 ops := by
        rw [runOps, if_neg (bool_ne_of_eq_false ci.wf.fin)]
        rcases hst : step gz rq s op with ⟨s', r⟩
        rw [hst] at g1
        simp only at g1
        subst g1
        rfl
      rw [e, ← g4, ← g5]
      exact ih (step gz rq s op).1 K' g2 g3 (fun o ho => hops o (by simp [ho]))

theorem TI_init (gz : Gz) (rq : Req) (ae : Option Str) : TI gz (init rq ae) :=
  ⟨rfl, fun p hp => (by cases hp), fun _ => rfl, fun _ => rfl⟩

/-- **clean runs, in terms of the program text**: the strict client reads exactly one response, nothing left
    over, with the status in force at the first flush/finish; its body is what the transform emitted
    (`outputs gz hist`), the transform was fed exactly the program's writes (`bodyOf prog`), through
    flushes followed by exactly one close — or, when the transform does not compress, the body *is* the writes. -/
theorem run_clean29 (gz : Gz) (rq : Req) (ae : Option Str) (hrq : reqOK rq = true) (hm : rq.method ≠ Method.head)
    (hinm : rq.inmMatch = false) (prog : List Op) (hops : ∀ op ∈ prog, opClean op = true) :
    ∃ hs d body, clientParse (rq.method == .head) (wire (run gz rq ae prog).base.conn) (run gz rq ae prog).base.conn.closed
        = .ok (⟨headStatus 200 prog, reason (headStatus 200 prog), hs, body, d⟩, []) ∧
      ((run gz rq ae prog).t.gzipping = true →
        Spec.WellClosed (run gz rq ae prog).t.hist ∧ body = (Spec.outputs gz (run gz rq ae prog).t.hist).flatten ∧
        ((run gz rq ae prog).t.hist.map (·.1)).flatten = bodyOf prog) ∧
      ((run gz rq ae prog).t.gzipping = false → body = bodyOf prog) := by
  have hm' : (rq.method == Method.head) = false := by
    cases h : rq.method with
    | head => exact absurd h hm
    | get => rfl
    | post => rfl
  obtain ⟨_, f2, f3, hs, _, f5⟩ := runOps_clean29 gz rq hrq hm' hinm prog (init rq ae) 200 (CI_init rq hrq)
    (TI_init gz rq ae) hops
  have ht : tgt (init rq ae).base 200 prog = headStatus 200 prog := by simp [tgt, init, C02.init]
  have hb : fed (init rq ae) ++ (init rq ae).base.buf.flatten ++ bodyOf prog = bodyOf prog := by
    simp [fed, fedOf, init, C02.init]
  rw [ht] at f5
  rw [hb] at f2
  have hnb : nbOf rq (headStatus 200 prog) = false :=
    nbOf_false rq _ hm' (headStatus_nb prog 200 (by decide) hops)
  refine ⟨stripHs hs, delimOf rq (run gz rq ae prog).base.conn (headStatus 200 prog) hs,
    (run gz rq ae prog).base.conn.sent.flatten, ?_, ?_, ?_⟩
  · have hrun : run gz rq ae prog = runOps gz rq (init rq ae) prog := rfl
    rw [hrun, f5]
    simp only [expectedResp, hnb, Bool.false_eq_true, if_false]
  · intro hg
    obtain ⟨a1, a2⟩ := f3 hg
    refine ⟨a1, a2, ?_⟩
    have : fed (runOps gz rq (init rq ae) prog) = ((run gz rq ae prog).t.hist.map (·.1)).flatten := by
      unfold fed fedOf; rw [show (runOps gz rq (init rq ae) prog).t.gzipping = true from hg]; rfl
    rw [← this]; exact f2
  · intro hg
    have : fed (runOps gz rq (init rq ae) prog) = (run gz rq ae prog).base.conn.sent.flatten := by
      unfold fed fedOf; rw [show (runOps gz rq (init rq ae) prog).t.gzipping = false from hg]; rfl
    rw [← this]; exact f2

end TornadoModel.C29
