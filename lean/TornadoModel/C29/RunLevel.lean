/- C29 — run level: for exception-free ("clean") handler programs the bytes the strict client reads are the
   transform's outputs, the transform's inputs are the program's writes, and the gzip stream is closed exactly
   once, at the end.  Built on the C02 clean-run machinery (`C02.Writes`): `C29.hFlush` is `C02.hFlushCore` on
   the state whose header map / buffer are the transform's outputs. -/
import TornadoModel.C29.Lemmas
import TornadoModel.C02.Writes
namespace TornadoModel.C29
open TornadoModel.C02 TornadoModel.C02.Spec
open TornadoModel.C06 (Str normalize dget dset ddel isToken joinWith)

/-! ### what `transform_first_chunk` / `transform_chunk` return -/

/-- the header map after `transform_first_chunk` when it compresses -/
def gzHdrs (h : HMap) (fin : Bool) (n : Nat) : HMap :=
  if hhas (hset (addVary h) nCE vGzip) nCL then
    (if fin then hset (hset (addVary h) nCE vGzip) nCL (toDec n) else hdel (hset (addVary h) nCE vGzip) nCL)
  else hset (addVary h) nCE vGzip

theorem transformFirst_cases (gz : Gz) (t : TSt) (status : Nat) (h : HMap) (chunk : Bytes) (fin : Bool)
    (hc : t.fileClosed = false) :
    (transformFirst gz t status h chunk fin = ({ t with gzipping := false }, addVary h, chunk))
    ∨ (transformFirst gz t status h chunk fin =
        ({ gzipping := true, hist := t.hist ++ [(chunk, fin)], fileClosed := fin },
          gzHdrs h fin (gz (t.hist ++ [(chunk, fin)])).length, gz (t.hist ++ [(chunk, fin)]))) := by
  unfold transformFirst
  simp only []
  by_cases hd : decide1 t status (addVary h) chunk fin = true
  · right
    simp only [hd, if_true, transformChunk, hc, Bool.false_eq_true, if_false, gzHdrs]
  · left
    have hd' : decide1 t status (addVary h) chunk fin = false := by simpa using hd
    simp [hd']

theorem transformChunk_open (gz : Gz) (t : TSt) (chunk : Bytes) (fin : Bool) (hc : t.fileClosed = false) :
    transformChunk gz t chunk fin =
      some (if t.gzipping then
              ({ t with hist := t.hist ++ [(chunk, fin)], fileClosed := fin }, gz (t.hist ++ [(chunk, fin)]))
            else (t, chunk)) := by
  unfold transformChunk
  cases t.gzipping <;> simp [hc]

/-! ### the transform keeps the header-map invariant of C02 -/

theorem validValue_append (a b : Str) (ha : validValue a = true) (hb : validValue b = true) :
    validValue (a ++ b) = true := by
  simp only [validValue, List.all_append, Bool.and_eq_true] at *
  exact ⟨ha, hb⟩

theorem validValue_joinWith : ∀ (vs : List Str), (∀ v ∈ vs, validValue v = true) →
    validValue (joinWith [44] vs) = true
  | [], _ => rfl
  | [w], h => h w (by simp)
  | w :: w2 :: ws, h => by
    have ih := validValue_joinWith (w2 :: ws) (fun v hv => h v (by simp [hv]))
    show validValue (w ++ [44] ++ joinWith [44] (w2 :: ws)) = true
    exact validValue_append _ _ (validValue_append _ _ (h w (by simp)) (by decide)) ih

theorem validValue_hget (h : HMap) (hk : KeysOK h) (n : Str) : validValue (hget h n) = true := by
  unfold hget
  cases hg : dget (normalize n) h with
  | none => rfl
  | some vs => exact validValue_joinWith vs (hk.2 _ (C06.mem_of_dget _ _ _ hg)).2.2

theorem HOK_addVary (h : HMap) (hok : HOK h) : HOK (addVary h) := by
  unfold addVary
  split
  · exact HOK_hset _ _ _ hok (by decide)
      (validValue_append _ _ (validValue_hget h hok.1 nVary) (by decide)) (by decide)
  · exact HOK_hset _ _ _ hok (by decide) (by decide) (by decide)

theorem validValue_toDec (n : Nat) : validValue (toDec n) = true := by
  unfold validValue
  rw [List.all_eq_true]
  intro c hc
  have := toDec_digits n c hc
  simp only [isDigit, Bool.and_eq_true, decide_eq_true_eq] at this
  simp only [validValueChar, Bool.or_eq_true, Bool.and_eq_true, decide_eq_true_eq]
  omega

theorem HOK_gzHdrs (h : HMap) (hok : HOK h) (fin : Bool) (n : Nat) : HOK (gzHdrs h fin n) := by
  have h1 : HOK (hset (addVary h) nCE vGzip) :=
    HOK_hset _ _ _ (HOK_addVary h hok) (by decide) (by decide) (by decide)
  unfold gzHdrs
  split
  · split
    · exact HOK_hset _ _ _ h1 (by decide) (validValue_toDec n) (by decide)
    · exact HOK_hdel _ _ h1
  · exact h1

theorem dget_nCL_addVary (h : HMap) : dget nCL (addVary h) = dget nCL h := by
  unfold addVary hset
  split <;> exact dget_dset_ne _ _ _ _ (by decide)

theorem dget_nCL_ce (h : HMap) : dget nCL (hset (addVary h) nCE vGzip) = dget nCL h := by
  unfold hset
  rw [dget_dset_ne _ _ _ _ (by decide)]
  exact dget_nCL_addVary h

/-- streaming (not finishing): no Content-Length survives the compressing transform -/
theorem gzHdrs_stream_ncl (h : HMap) (n : Nat) : dget nCL (gzHdrs h false n) = none := by
  unfold gzHdrs
  by_cases hh : hhas (hset (addVary h) nCE vGzip) nCL = true
  · simp only [hh, if_true, Bool.false_eq_true, if_false]
    unfold hdel
    rw [norm_nCL, C02.dget_ddel]
    simp
  · have hh' : hhas (hset (addVary h) nCE vGzip) nCL = false := by simpa using hh
    rw [if_neg hh]
    rw [hhas_nCL] at hh'
    cases hg : dget nCL (hset (addVary h) nCE vGzip) with
    | none => rfl
    | some v => rw [hg] at hh'; simp at hh'

/-- finishing in the first chunk with a Content-Length in the map: it is rewritten to the encoded length -/
theorem gzHdrs_fin_cl (h : HMap) (n : Nat) (vs : List Str) (hcl : dget nCL h = some vs) :
    dget nCL (gzHdrs h true n) = some [toDec n] := by
  have hh : hhas (hset (addVary h) nCE vGzip) nCL = true := by
    rw [hhas_nCL, dget_nCL_ce, hcl]; rfl
  unfold gzHdrs
  simp only [hh, if_true]
  unfold hset
  rw [norm_nCL, dget_dset_same]

/-! ### `C29.hFlush` is `C02.hFlushCore` on the transform's outputs -/

theorem hFlush_unwritten (gz : Gz) (rq : Req) (s : St) (fin : Bool) (hw : s.base.headersWritten = false) :
    hFlush gz rq s fin =
      ({ base := (hFlushCore rq { s.base with
                    hdrs := (transformFirst gz s.t s.base.status s.base.hdrs s.base.buf.flatten fin).2.1,
                    buf := [(transformFirst gz s.t s.base.status s.base.hdrs s.base.buf.flatten fin).2.2] }).1,
         t := (transformFirst gz s.t s.base.status s.base.hdrs s.base.buf.flatten fin).1 },
       (hFlushCore rq { s.base with
                    hdrs := (transformFirst gz s.t s.base.status s.base.hdrs s.base.buf.flatten fin).2.1,
                    buf := [(transformFirst gz s.t s.base.status s.base.hdrs s.base.buf.flatten fin).2.2] }).2) := by
  simp [hFlush, hFlushCore, hw]

theorem hFlush_written (gz : Gz) (rq : Req) (s : St) (fin : Bool) (hw : s.base.headersWritten = true)
    (t' : TSt) (chunk' : Bytes) (ht : transformChunk gz s.t s.base.buf.flatten fin = some (t', chunk')) :
    hFlush gz rq s fin =
      ({ base := (hFlushCore rq { s.base with buf := [chunk'] }).1, t := t' },
       (hFlushCore rq { s.base with buf := [chunk'] }).2) := by
  simp only [hFlush, hFlushCore, hw, ht]
  by_cases hm : (rq.method != Method.head) = true <;> simp [hm]

/-! ### invariant of the transform state in a clean run -/

/-- what has been handed on so far, seen from the handler's side: the transform's inputs when it compresses,
    else the chunks the connection accepted -/
def fedOf (t : TSt) (sent : List Bytes) : Bytes :=
  if t.gzipping then (t.hist.map (·.1)).flatten else sent.flatten
def fed (s : St) : Bytes := fedOf s.t s.base.conn.sent

structure TI (gz : Gz) (s : St) : Prop where
  open_ : s.t.fileClosed = false
  fl : ∀ p ∈ s.t.hist, p.2 = false
  pre : s.base.headersWritten = false → s.t.hist = []
  out : s.t.gzipping = true → s.base.conn.sent.flatten = (Spec.outputs gz s.t.hist).flatten

theorem outputsFrom_append (gz : Gz) (a : GzHist) (c : Bytes × Bool) : ∀ (pre : GzHist),
    Spec.outputsFrom gz pre (a ++ [c]) = Spec.outputsFrom gz pre a ++ [gz (pre ++ a ++ [c])] := by
  induction a with
  | nil => intro pre; simp [Spec.outputsFrom]
  | cons x xs ih => intro pre; simp [Spec.outputsFrom, ih]

theorem outputs_append (gz : Gz) (a : GzHist) (c : Bytes × Bool) :
    Spec.outputs gz (a ++ [c]) = Spec.outputs gz a ++ [gz (a ++ [c])] := by
  unfold Spec.outputs
  rw [outputsFrom_append]; simp

theorem CI_buf (rq : Req) (b : C02.St) (K : Nat) (ci : CI rq b K) (x : List Bytes) : CI rq { b with buf := x } K :=
  ⟨⟨ci.wf.st1, ci.wf.st2, ci.wf.fin, ci.wf.pre, ci.wf.post⟩, ci.nb, ci.ncl, ci.live⟩

/-- `C02.hFlush_stream`, stated for `hFlushCore` -/
theorem hFlushCore_stream (rq : Req) (s : C02.St) (K : Nat) (ci : CI rq s K) (hm : (rq.method == Method.head) = false) :
    (hFlushCore rq s).2 = false ∧ CI rq (hFlushCore rq s).1 (if s.headersWritten then K else s.status) ∧
    (hFlushCore rq s).1.headersWritten = true ∧ (hFlushCore rq s).1.buf = [] ∧ (hFlushCore rq s).1.status = s.status ∧
    (hFlushCore rq s).1.conn.sent.flatten = s.conn.sent.flatten ++ s.buf.flatten := by
  have hcore : C02.hFlush rq s = hFlushCore rq s := by
    cases hw : s.headersWritten with
    | true => exact hFlush_core rq s (Or.inl hw)
    | false => exact hFlush_core rq s (Or.inr (clValid_absent _ (ci.ncl hw)))
  rw [← hcore]
  exact hFlush_stream rq s K ci hm

/-- `C02.hFlush_cl`, stated for `hFlushCore` -/
theorem hFlushCore_cl (rq : Req) (s : C02.St) (w : WF rq s) (hm : (rq.method == Method.head) = false)
    (hw : s.headersWritten = false) (hn : noBodyStatus s.status = false)
    (hcl : dget nCL s.hdrs = some [toDec s.buf.flatten.length]) :
    (hFlushCore rq s).2 = false ∧ Written rq (hFlushCore rq s).1.conn false ∧ (hFlushCore rq s).1.conn.closed = false ∧
    (hFlushCore rq s).1.conn.expected = some 0 ∧ (hFlushCore rq s).1.conn.sent.flatten = s.buf.flatten ∧
    ∃ hs, (hFlushCore rq s).1.conn.head = some (s.status, hs) := by
  have hcv : clValid s.hdrs = true := by
    unfold clValid hget
    rw [norm_nCL, hcl]
    simp only [C06.joinWith, parseDec_toDec]
    simp
  rw [← hFlush_core rq s (Or.inr hcv)]
  exact hFlush_cl rq s w hm hw hn hcl

/-- a flush after the head has been written, in a clean run (any `finishing` flag) -/
theorem flush_written29 (gz : Gz) (rq : Req) (s : St) (K : Nat) (fin : Bool) (ci : CI rq s.base K) (ti : TI gz s)
    (hm : (rq.method == Method.head) = false) (hw : s.base.headersWritten = true) :
    (hFlush gz rq s fin).2 = false ∧ CI rq (hFlush gz rq s fin).1.base K ∧
    (hFlush gz rq s fin).1.base.headersWritten = true ∧ (hFlush gz rq s fin).1.base.buf = [] ∧
    (hFlush gz rq s fin).1.base.status = s.base.status ∧
    (hFlush gz rq s fin).1.t = (if s.t.gzipping then
        { s.t with hist := s.t.hist ++ [(s.base.buf.flatten, fin)], fileClosed := fin } else s.t) ∧
    (hFlush gz rq s fin).1.base.conn.sent.flatten = s.base.conn.sent.flatten ++
      (if s.t.gzipping then gz (s.t.hist ++ [(s.base.buf.flatten, fin)]) else s.base.buf.flatten) := by
  have e : (if s.base.headersWritten = true then K else s.base.status) = K := if_pos hw
  cases hg : s.t.gzipping with
  | false =>
    have ht : transformChunk gz s.t s.base.buf.flatten fin = some (s.t, s.base.buf.flatten) := by
      rw [transformChunk_open gz s.t s.base.buf.flatten fin ti.open_]; simp [hg]
    rw [hFlush_written gz rq s fin hw _ _ ht]
    obtain ⟨f1, f2, f3, f4, f5, f6⟩ := hFlushCore_stream rq _ K (CI_buf rq s.base K ci [s.base.buf.flatten]) hm
    refine ⟨f1, e ▸ f2, f3, f4, f5, by simp, ?_⟩
    rw [f6]; simp
  | true =>
    have ht : transformChunk gz s.t s.base.buf.flatten fin =
        some ({ s.t with hist := s.t.hist ++ [(s.base.buf.flatten, fin)], fileClosed := fin },
          gz (s.t.hist ++ [(s.base.buf.flatten, fin)])) := by
      rw [transformChunk_open gz s.t s.base.buf.flatten fin ti.open_]; simp [hg]
    rw [hFlush_written gz rq s fin hw _ _ ht]
    obtain ⟨f1, f2, f3, f4, f5, f6⟩ := hFlushCore_stream rq _ K
      (CI_buf rq s.base K ci [gz (s.t.hist ++ [(s.base.buf.flatten, fin)])]) hm
    refine ⟨f1, e ▸ f2, f3, f4, f5, by simp, ?_⟩
    rw [f6]; simp

/-- consequences for the transform invariant of the update made by a non-finishing flush -/
theorem TI_after (gz : Gz) (s s' : St) (ti : TI gz s) (hw' : s'.base.headersWritten = true)
    (ht : s'.t = (if s.t.gzipping then
        { s.t with hist := s.t.hist ++ [(s.base.buf.flatten, false)], fileClosed := false } else s.t))
    (hs : s'.base.conn.sent.flatten = s.base.conn.sent.flatten ++
      (if s.t.gzipping then gz (s.t.hist ++ [(s.base.buf.flatten, false)]) else s.base.buf.flatten)) :
    TI gz s' ∧ fed s' = fed s ++ s.base.buf.flatten := by
  have hpre : s'.base.headersWritten = false → s'.t.hist = [] := fun h => by rw [hw'] at h; cases h
  cases hg : s.t.gzipping with
  | false =>
    rw [hg] at ht hs
    simp only [Bool.false_eq_true, if_false] at ht hs
    have hout : s'.t.gzipping = true → s'.base.conn.sent.flatten = (Spec.outputs gz s'.t.hist).flatten :=
      fun h => by rw [ht, hg] at h; cases h
    refine ⟨⟨(by rw [ht]; exact ti.open_), (by rw [ht]; exact ti.fl), hpre, hout⟩, ?_⟩
    simp [fed, fedOf, ht, hg, hs]
  | true =>
    rw [hg] at ht hs
    simp only [if_true] at ht hs
    have hfl : ∀ p ∈ s'.t.hist, p.2 = false := by
      rw [ht]; intro p hp
      simp only [List.mem_append, List.mem_singleton] at hp
      rcases hp with hp | rfl
      · exact ti.fl p hp
      · rfl
    have hout : s'.t.gzipping = true → s'.base.conn.sent.flatten = (Spec.outputs gz s'.t.hist).flatten := by
      intro _
      rw [hs, ht, ti.out hg]
      simp [outputs_append]
    refine ⟨⟨(by rw [ht]), hfl, hpre, hout⟩, ?_⟩
    simp [fed, fedOf, ht, hg]

theorem fed_pre (gz : Gz) (rq : Req) (s : St) (K : Nat) (ci : CI rq s.base K) (ti : TI gz s)
    (hw : s.base.headersWritten = false) : fed s = [] ∧ s.base.conn.sent = [] := by
  have hs : s.base.conn.sent = [] := (ci.wf.pre hw).1.2.2.2.1
  refine ⟨?_, hs⟩
  unfold fed fedOf
  rw [ti.pre hw, hs]
  cases s.t.gzipping <;> rfl

/-- `CI` for the state whose header map / buffer are replaced before the head is written -/
theorem CI_hdrs (rq : Req) (b : C02.St) (K : Nat) (ci : CI rq b K) (hw : b.headersWritten = false)
    (h' : HMap) (x : List Bytes) (hok : HOK h') (ncl : dget nCL h' = none) :
    CI rq { b with hdrs := h', buf := x } K :=
  ⟨⟨ci.wf.st1, ci.wf.st2, ci.wf.fin, fun _ => ⟨(ci.wf.pre hw).1, hok⟩,
    fun h => absurd (show b.headersWritten = true from h) (bool_ne_of_eq_false hw)⟩, ci.nb, fun _ => ncl,
    fun h => absurd (show b.headersWritten = true from h) (bool_ne_of_eq_false hw)⟩

/-- the first flush (not finishing) in a clean run -/
theorem flush_first29 (gz : Gz) (rq : Req) (s : St) (K : Nat) (ci : CI rq s.base K) (ti : TI gz s)
    (hm : (rq.method == Method.head) = false) (hw : s.base.headersWritten = false) :
    (hFlush gz rq s false).2 = false ∧ CI rq (hFlush gz rq s false).1.base s.base.status ∧
    TI gz (hFlush gz rq s false).1 ∧
    (hFlush gz rq s false).1.base.headersWritten = true ∧ (hFlush gz rq s false).1.base.buf = [] ∧
    (hFlush gz rq s false).1.base.status = s.base.status ∧
    fed (hFlush gz rq s false).1 = s.base.buf.flatten := by
  obtain ⟨fr, hok⟩ := ci.wf.pre hw
  have hsent : s.base.conn.sent = [] := fr.2.2.2.1
  have hh : s.t.hist = [] := ti.pre hw
  rw [hFlush_unwritten gz rq s false hw]
  rcases transformFirst_cases gz s.t s.base.status s.base.hdrs s.base.buf.flatten false ti.open_ with e | e
  · rw [e]
    have ncl : dget nCL (addVary s.base.hdrs) = none := by rw [dget_nCL_addVary]; exact ci.ncl hw
    obtain ⟨f1, f2, f3, f4, f5, f6⟩ := hFlushCore_stream rq _ K
      (CI_hdrs rq s.base K ci hw (addVary s.base.hdrs) [s.base.buf.flatten] (HOK_addVary _ hok) ncl) hm
    have hk : (if s.base.headersWritten = true then K else s.base.status) = s.base.status := if_neg (bool_ne_of_eq_false hw)
    have hfed : fedOf { s.t with gzipping := false } (hFlushCore rq
        { s.base with hdrs := addVary s.base.hdrs, buf := [s.base.buf.flatten] }).1.conn.sent = s.base.buf.flatten := by
      unfold fedOf
      simp only [Bool.false_eq_true, if_false]
      rw [f6, hsent]; simp
    rw [hk] at f2
    exact ⟨f1, f2, ⟨ti.open_, ti.fl, fun h => (by rw [f3] at h; cases h), fun h => (by cases h)⟩, f3, f4, f5, hfed⟩
  · rw [e, hh]
    simp only [List.nil_append]
    obtain ⟨o, ho⟩ : ∃ o, o = gz [(s.base.buf.flatten, false)] := ⟨_, rfl⟩
    rw [← ho]
    have ncl := gzHdrs_stream_ncl s.base.hdrs o.length
    obtain ⟨f1, f2, f3, f4, f5, f6⟩ := hFlushCore_stream rq _ K
      (CI_hdrs rq s.base K ci hw (gzHdrs s.base.hdrs false o.length) [o] (HOK_gzHdrs _ hok _ _) ncl) hm
    have hk : (if s.base.headersWritten = true then K else s.base.status) = s.base.status := if_neg (bool_ne_of_eq_false hw)
    rw [hk] at f2
    have hfl : ∀ p ∈ [(s.base.buf.flatten, false)], p.2 = false := by
      intro p hp
      have : p = (s.base.buf.flatten, false) := by simpa using hp
      rw [this]
    have hout : (hFlushCore rq { s.base with hdrs := gzHdrs s.base.hdrs false o.length, buf := [o] }).1.conn.sent.flatten
        = (Spec.outputs gz [(s.base.buf.flatten, false)]).flatten := by
      rw [f6, hsent, ho]; simp [Spec.outputs, Spec.outputsFrom]
    refine ⟨f1, f2, ⟨rfl, hfl, fun h => (by rw [f3] at h; cases h), fun _ => hout⟩, f3, f4, f5, ?_⟩
    simp [fed, fedOf]

end TornadoModel.C29
