/- C29 — run level, for EVERY program (no side condition at all: error pages, HEAD, 304, handler-set anything):
   every header block `write_headers` serialises carries a `Vary` line that lists `Accept-Encoding`. -/
import TornadoModel.C29.RunCE
namespace TornadoModel.C29
open TornadoModel.C02 TornadoModel.C02.Spec
open TornadoModel.C06 (Str normalize dget dset ddel isToken joinWith stripWs)

/-- a `Vary: … Accept-Encoding …` line among the serialised header lines -/
def VaryLine (hs : List (Str × Str)) : Prop := ∃ v, (nVary, v) ∈ hs ∧ Spec.variesOnAE v = true

/-- the map holds exactly one Vary value and it lists Accept-Encoding -/
def VaryOK1 (h : HMap) : Prop := ∃ v, dget nVary h = some [v] ∧ Spec.variesOnAE v = true

theorem norm_nVary : normalize nVary = nVary := by decide

theorem varyOK1_addVary (h : HMap) : VaryOK1 (addVary h) := by
  unfold addVary
  split
  · exact ⟨_, by unfold hset; rw [norm_nVary, dget_dset_same], isInfix_vAE_suffix _⟩
  · exact ⟨_, by unfold hset; rw [norm_nVary, dget_dset_same], by decide⟩

theorem varyOK1_hset (h : HMap) (n v : Str) (hne : normalize n ≠ nVary) (hv : VaryOK1 h) : VaryOK1 (hset h n v) := by
  obtain ⟨x, a, b⟩ := hv
  exact ⟨x, by unfold hset; rw [dget_dset_ne _ _ _ _ hne]; exact a, b⟩

theorem varyOK1_hdel (h : HMap) (n : Str) (hne : normalize n ≠ nVary) (hv : VaryOK1 h) : VaryOK1 (hdel h n) := by
  obtain ⟨x, a, b⟩ := hv
  exact ⟨x, by unfold hdel; rw [C02.dget_ddel, if_neg hne]; exact a, b⟩

theorem varyOK1_gzHdrs (h : HMap) (fin : Bool) (n : Nat) : VaryOK1 (gzHdrs h fin n) := by
  have h1 : VaryOK1 (hset (addVary h) nCE vGzip) := varyOK1_hset _ _ _ (by decide) (varyOK1_addVary h)
  unfold gzHdrs
  split
  · split
    · exact varyOK1_hset _ _ _ (by decide) h1
    · exact varyOK1_hdel _ _ (by decide) h1
  · exact h1

theorem varyOK1_transformFirst (gz : Gz) (t : TSt) (status : Nat) (h : HMap) (chunk : Bytes) (fin : Bool)
    (hc : t.fileClosed = false) : VaryOK1 (transformFirst gz t status h chunk fin).2.1 := by
  rcases transformFirst_cases gz t status h chunk fin hc with e | e
  · rw [e]; exact varyOK1_addVary h
  · rw [e]; exact varyOK1_gzHdrs h fin _

theorem varyOK1_finalHeaders (rq : Req) (disc chunking : Bool) (code : Nat) (h : HMap) (hv : VaryOK1 h) :
    VaryOK1 (finalHeaders rq disc chunking code h) := by
  have hs : ∀ (b : Bool) (m : HMap) (n v : Str), normalize n ≠ nVary → VaryOK1 m →
      VaryOK1 (if b = true then hset m n v else m) := by
    intro b m n v hne hm
    cases b
    · exact hm
    · exact varyOK1_hset _ _ _ hne hm
  unfold finalHeaders
  simp only []
  exact hs _ _ nTE vChunked (by decide) (hs _ _ nConn vKeepAlive (by decide) (hs _ _ nConn vClose (by decide) hv))

theorem varyLine_getAll (h : HMap) (hv : VaryOK1 h) : VaryLine (getAll h) := by
  obtain ⟨v, a, b⟩ := hv
  refine ⟨v, ?_, b⟩
  have hm := C06.mem_of_dget _ _ _ a
  unfold getAll
  simp only [List.mem_flatMap, List.mem_map]
  exact ⟨(nVary, [v]), hm, v, by simp, rfl⟩

/-! ### the invariant, through every state transformer (no hypothesis on the program) -/

def VI (s : St) : Prop :=
  (s.base.headersWritten = false → s.t.fileClosed = false ∧ s.base.conn.head = none) ∧
  (∀ code hs, s.base.conn.head = some (code, hs) → VaryLine hs)

theorem VI_congr (s s' : St) (h1 : s'.base.headersWritten = s.base.headersWritten)
    (h2 : s'.t.fileClosed = s.t.fileClosed) (h3 : s'.base.conn.head = s.base.conn.head) (v : VI s) : VI s' := by
  unfold VI; rw [h1, h2, h3]; exact v

theorem VI_written (s s' : St) (hw : s'.base.headersWritten = true) (h3 : s'.base.conn.head = s.base.conn.head)
    (v : VI s) : VI s' := by
  refine ⟨fun h => (by rw [hw] at h; cases h), ?_⟩
  rw [h3]; exact v.2

theorem VI_hFlush (gz : Gz) (rq : Req) (s : St) (fin : Bool) (v : VI s) :
    VI (hFlush gz rq s fin).1 ∧ ((hFlush gz rq s fin).2 = false → (hFlush gz rq s fin).1.base.headersWritten = true) := by
  by_cases hw : s.base.headersWritten = true
  · cases ht : transformChunk gz s.t s.base.buf.flatten fin with
    | none =>
      have e : hFlush gz rq s fin = ({ base := { s.base with buf := [] }, t := s.t }, true) := by
        rw [hFlush_eq gz rq s fin (Or.inl hw)]
        simp [hFlushT, hw, ht]
      rw [e]
      exact ⟨VI_written s _ hw rfl v, fun _ => hw⟩
    | some p =>
      obtain ⟨t', chunk'⟩ := p
      rw [hFlush_written gz rq s fin hw t' chunk' ht]
      obtain ⟨a, b⟩ := hFlushCore_head_written rq s.base [chunk'] hw
      exact ⟨VI_written s _ b a v, fun _ => b⟩
  · have hw' : s.base.headersWritten = false := by simpa using hw
    by_cases hv : clValid s.base.hdrs = true
    · obtain ⟨hc, h0⟩ := v.1 hw'
      rw [hFlush_unwritten gz rq s fin hw' hv]
      refine ⟨⟨fun h => (by rw [show _ = true from hFlushCore_hw rq _] at h; cases h), ?_⟩, fun _ => hFlushCore_hw rq _⟩
      intro code hs hh
      simp only [] at hh
      rw [hFlushCore_conn_unwritten rq s.base _ _ hw'] at hh
      rw [cwh_head rq _ _ _ _ h0 code hs hh]
      exact varyLine_getAll _ (varyOK1_finalHeaders _ _ _ _ _
        (varyOK1_transformFirst gz s.t s.base.status s.base.hdrs s.base.buf.flatten fin hc))
    · rw [hFlush_reject gz rq s fin hw' (by simpa using hv)]
      exact ⟨v, fun h => (by cases h)⟩

theorem fpEtag_same (rq : Req) (b : C02.St) :
    (fpEtag rq b).conn = b.conn ∧ (fpEtag rq b).headersWritten = b.headersWritten := by
  unfold fpEtag
  split
  · simp only []; split <;> exact ⟨rfl, rfl⟩
  · exact ⟨rfl, rfl⟩

theorem fpTail_same (b : C02.St) :
    (fpTail b).1.conn = b.conn ∧ (fpTail b).1.headersWritten = b.headersWritten := by
  unfold fpTail
  split
  · split <;> exact ⟨rfl, rfl⟩
  · split <;> exact ⟨rfl, rfl⟩

theorem finishPrep_same (rq : Req) (b : C02.St) :
    (finishPrep rq b).1.conn = b.conn ∧ (finishPrep rq b).1.headersWritten = b.headersWritten := by
  rw [finishPrep_eq]
  obtain ⟨a1, a2⟩ := fpEtag_same rq b
  obtain ⟨b1, b2⟩ := fpTail_same (fpEtag rq b)
  exact ⟨b1.trans a1, b2.trans a2⟩

theorem VI_hFinish (gz : Gz) (rq : Req) (s : St) (b : Option Bytes) (v : VI s) : VI (hFinish gz rq s b).1 := by
  by_cases hf : s.base.finished = true
  · have : hFinish gz rq s b = (s, true) := by unfold hFinish; rw [if_pos hf]
    rw [this]; exact v
  · have hf' : s.base.finished = false := by simpa using hf
    obtain ⟨p, hp⟩ : ∃ p, p = (if (!(addBuf s.base b).headersWritten) = true then finishPrep rq (addBuf s.base b)
             else (addBuf s.base b, false)) := ⟨_, rfl⟩
    have hab : (addBuf s.base b).conn = s.base.conn ∧ (addBuf s.base b).headersWritten = s.base.headersWritten := by
      cases b <;> exact ⟨rfl, rfl⟩
    have hp1 : p.1.conn = s.base.conn ∧ p.1.headersWritten = s.base.headersWritten := by
      rw [hp]
      split
      · obtain ⟨a1, a2⟩ := finishPrep_same rq (addBuf s.base b)
        exact ⟨a1.trans hab.1, a2.trans hab.2⟩
      · exact hab
    have v1 : VI { s with base := p.1 } := VI_congr s _ hp1.2 rfl (by rw [show ({ s with base := p.1 } : St).base.conn = p.1.conn from rfl, hp1.1]) v
    obtain ⟨v2, hw2⟩ := VI_hFlush gz rq { s with base := p.1 } true v1
    rw [hFinish_stages29 gz rq s b hf' p hp]
    split
    · exact v1
    · split
      · exact v2
      · rename_i hq2
        have hw3 := hw2 (by simpa using hq2)
        split
        · exact VI_written _ _ hw3 (cFinish_head _) v2
        · exact VI_written _ _ hw3 (cFinish_head _) v2

theorem VI_onException (gz : Gz) (rq : Req) (s : St) (v : VI s) : VI (onException gz rq s) := by
  unfold onException
  split
  · exact v
  · split
    · exact VI_hFinish gz rq s none v
    · have v1 : VI { s with base := { s.base with hdrs := defaultHdrs rq, buf := [], status := 500 } } :=
        VI_congr s _ rfl rfl rfl v
      have v2 := VI_hFinish gz rq _ (some (errorPage 500)) v1
      simp only []
      split
      · exact VI_hFinish gz rq _ none v2
      · exact v2

theorem VI_step (gz : Gz) (rq : Req) (s : St) (op : Op) (v : VI s) : VI (step gz rq s op).1 := by
  by_cases h1 : op = .flush
  · subst h1; exact (VI_hFlush gz rq s false v).1
  · by_cases h2 : ∃ x, op = .finish x
    · obtain ⟨x, rfl⟩ := h2; exact VI_hFinish gz rq s x v
    · have h2' : ∀ x, op ≠ .finish x := fun x e => h2 ⟨x, e⟩
      rw [step_eq_other gz rq s op h1 h2']
      obtain ⟨c1, c2⟩ := step_other_conn rq s.base op h1 h2'
      exact VI_congr s _ c2 rfl (by show (C02.step rq s.base op).1.conn.head = _; rw [c1]) v

theorem VI_runOps (gz : Gz) (rq : Req) (prog : List Op) : ∀ (s : St), VI s → VI (runOps gz rq s prog) := by
  induction prog with
  | nil =>
    intro s v
    unfold runOps
    split
    · exact v
    · have v1 := VI_hFinish gz rq s none v
      simp only []
      split
      · exact VI_onException gz rq _ v1
      · exact v1
  | cons op ops ih =>
    intro s v
    unfold runOps
    split
    · exact v
    · have v1 := VI_step gz rq s op v
      simp only []
      split
      · exact VI_onException gz rq _ v1
      · exact ih _ v1

theorem VI_init (rq : Req) (ae : Option Str) : VI (init rq ae) :=
  ⟨fun _ => ⟨rfl, rfl⟩, fun code hs h => (by cases h)⟩

end TornadoModel.C29
