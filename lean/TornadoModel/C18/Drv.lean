/- C18 driver: `C18 model <mask> <data>` → [generated C model, Python model];  `C18 spec <mask> <data>` -/
import TornadoModel.Base.Wire
import TornadoModel.C18.Model
import TornadoModel.C18.Spec
import TornadoModel.C18.Gen.Speedups
namespace TornadoModel.C18.Drv
open TornadoModel TornadoModel.Wire TornadoModel.C18 TornadoModel.C18.CSem

def encRes : Except Stop (List Nat) → V
  | .ok b => V.ofByteNats b
  | .error (.raised e) => .atom e
  | .error .oob => .atom "UB:out-of-bounds"
  | .error .uninit => .atom "UB:uninitialised-result"
  | .error .fuel => .atom "UB:no-termination"

def encSpec : Spec.Res → V
  | .bytes b => V.ofByteNats b
  | .valueError => .atom "ValueError"

def handle (toks : List String) : String :=
  match toks with
  | [cmd, m, d] =>
    match V.parse m >>= V.byteNats?, V.parse d >>= V.byteNats? with
    | some mask, some data =>
      match cmd with
      | "model" => ok [encRes (Gen.websocketMask mask data), encRes (pyMask mask data)]
      | "gen" => ok [encRes (Gen.websocketMask mask data)]
      | "py" => ok [encRes (pyMask mask data)]
      | "spec" => ok [encSpec (Spec.websocketMask mask data)]
      | _ => err "bad-cmd"
    | _, _ => err "bad-arg"
  | _ => err "bad-line"

end TornadoModel.C18.Drv
