/-
C18 — the loop invariants of the generated model (`Gen.loop0` 8-byte words, `Gen.loop1` 4-byte words,
`Gen.loop2` trailing bytes) and the straight-line stages around them.
-/
import TornadoModel.C18.Lemmas
namespace TornadoModel.C18
open TornadoModel.C18.CSem

/-- state of the routine when `k` bytes (a multiple of 4) have been processed by the word loops -/
structure Inv (mask data : List Nat) (s : Gen.St) (k : Nat) : Prop where
  hk : k ≤ data.length
  hmod : k % 4 = 0
  hdata : s.data = (k : Int)
  hbuf : s.buf = (k : Int)
  hlen : s.data_len = (data.length : Int) - (k : Int)
  hmask : s.mask = 0
  hout : s.out = outAt mask data k
  h32 : s.uint32_mask = leVal mask

theorem chunk_length (data : List Nat) (k w : Nat) (h : k + w ≤ data.length) :
    ((data.drop k).take w).length = w := by
  simp [List.length_take, List.length_drop]; omega

/-- one iteration of the 8-byte loop -/
theorem loop0_step (mask data : List Nat) (hm : mask.length = 4) (bm : Bytes mask) (bd : Bytes data)
    (s : Gen.St) (k : Nat) (inv : Inv mask data s k) (h64 : s.uint64_mask = leVal (mask ++ mask))
    (hc : s.data_len ≥ 8) :
    ∃ s', (do
        let v2 ← loadLE data 8 (s.data + 8 * 0)
        let o ← storeLE s.out 8 (s.buf + 8 * 0) (v2 ^^^ s.uint64_mask)
        let s := { s with out := o }
        let s := { s with data := s.data + 8 }
        let s := { s with buf := s.buf + 8 }
        let s := { s with data_len := (s.data_len - 8) }
        pure s : Except Stop Gen.St) = .ok s' ∧ (Inv mask data s' (k + 8) ∧ s'.uint64_mask = leVal (mask ++ mask))
      ∧ s'.data_len.toNat < s.data_len.toNat := by
  have hlen := inv.hlen
  have hk8 : k + 8 ≤ data.length := by omega
  have hl := loadLE_nat data 8 (s.data + 8 * 0) k (by rw [inv.hdata]; omega) hk8
  have hs := storeLE_nat s.out 8 (s.buf + 8 * 0) k (leVal ((data.drop k).take 8) ^^^ s.uint64_mask)
    (by rw [inv.hbuf]; omega) (by rw [inv.hout, outAt_length _ _ _ inv.hk]; exact hk8)
  rw [hl]
  simp only [bind, Except.bind]
  rw [hs]
  refine ⟨_, rfl, ⟨⟨hk8, by have := inv.hmod; omega, ?_, ?_, ?_, inv.hmask, ?_, inv.h32⟩, h64⟩, ?_⟩
  · simp [inv.hdata]
  · simp [inv.hbuf]
  · simp only [hlen]; omega
  · simp only []
    rw [inv.hout, h64]
    apply outAt_advance mask data k 8 hk8
    rw [xorFrom_congr mask k 0 _ (by have := inv.hmod; omega)]
    exact xor_word8 mask _ hm (chunk_length data k 8 hk8) bm ((bd.drop k).take 8)
  · simp only [hlen]; omega

/-- one iteration of the 4-byte loop -/
theorem loop1_step (mask data : List Nat) (hm : mask.length = 4) (bm : Bytes mask) (bd : Bytes data)
    (s : Gen.St) (k : Nat) (inv : Inv mask data s k) (hc : s.data_len ≥ 4) :
    ∃ s', (do
        let v3 ← loadLE data 4 (s.data + 4 * 0)
        let o ← storeLE s.out 4 (s.buf + 4 * 0) (v3 ^^^ s.uint32_mask)
        let s := { s with out := o }
        let s := { s with data := s.data + 4 }
        let s := { s with buf := s.buf + 4 }
        let s := { s with data_len := (s.data_len - 4) }
        pure s : Except Stop Gen.St) = .ok s' ∧ Inv mask data s' (k + 4)
      ∧ s'.data_len.toNat < s.data_len.toNat := by
  have hlen := inv.hlen
  have hk4 : k + 4 ≤ data.length := by omega
  have hl := loadLE_nat data 4 (s.data + 4 * 0) k (by rw [inv.hdata]; omega) hk4
  have hs := storeLE_nat s.out 4 (s.buf + 4 * 0) k (leVal ((data.drop k).take 4) ^^^ s.uint32_mask)
    (by rw [inv.hbuf]; omega) (by rw [inv.hout, outAt_length _ _ _ inv.hk]; exact hk4)
  rw [hl]
  simp only [bind, Except.bind]
  rw [hs]
  refine ⟨_, rfl, ⟨hk4, by have := inv.hmod; omega, ?_, ?_, ?_, inv.hmask, ?_, inv.h32⟩, ?_⟩
  · simp [inv.hdata]
  · simp [inv.hbuf]
  · simp only [hlen]; omega
  · simp only []
    rw [inv.hout, inv.h32]
    apply outAt_advance mask data k 4 hk4
    rw [xorFrom_congr mask k 0 _ (by have := inv.hmod; omega)]
    exact xor_word4 mask _ hm (chunk_length data k 4 hk4) bm ((bd.drop k).take 4)
  · simp only [hlen]; omega

/-- state inside the trailing byte loop: the word loops stopped at `k`, `j` tail bytes are done -/
structure Inv2 (mask data : List Nat) (s : Gen.St) (k j : Nat) : Prop where
  hk : k + j ≤ data.length
  hmod : k % 4 = 0
  hrem : data.length - k < 4
  hdata : s.data = (k : Int)
  hbuf : s.buf = (k : Int)
  hlen : s.data_len = (data.length : Int) - (k : Int)
  hmask : s.mask = 0
  hi : s.i = (j : Int)
  hout : s.out = outAt mask data (k + j)

theorem take_one_drop (l : List Nat) (n : Nat) (h : n < l.length) : (l.drop n).take 1 = [l[n]] := by
  rw [List.drop_eq_getElem_cons h, List.take_succ_cons, List.take_zero]

/-- one iteration of the trailing `for` loop -/
theorem loop2_step (mask data : List Nat) (hm : mask.length = 4) (bm : Bytes mask) (bd : Bytes data)
    (s : Gen.St) (k j : Nat) (inv : Inv2 mask data s k j) (hc : s.i < s.data_len) :
    ∃ s', (do
        let v4 ← loadLE data 1 (s.data + 1 * s.i)
        let v5 ← loadLE mask 1 (s.mask + 1 * s.i)
        let o ← storeLE s.out 1 (s.buf + 1 * s.i) (v4 ^^^ v5)
        let s := { s with out := o }
        let s := { s with i := s.i + 1 }
        pure s : Except Stop Gen.St) = .ok s' ∧ Inv2 mask data s' k (j + 1)
      ∧ (s'.data_len - s'.i).toNat < (s.data_len - s.i).toNat := by
  have hlen := inv.hlen
  have hi := inv.hi
  have hrem := inv.hrem
  have hkj : k + j + 1 ≤ data.length := by omega
  have hj4 : j < 4 := by omega
  have hl := loadLE_nat data 1 (s.data + 1 * s.i) (k + j) (by rw [inv.hdata, hi]; omega) hkj
  have hl2 := loadLE_nat mask 1 (s.mask + 1 * s.i) j (by rw [inv.hmask, hi]; omega) (by omega)
  rw [take_one_drop data (k + j) (by omega)] at hl
  rw [take_one_drop mask j (by omega)] at hl2
  have hs := storeLE_nat s.out 1 (s.buf + 1 * s.i) (k + j) (leVal [data[k + j]] ^^^ leVal [mask[j]])
    (by rw [inv.hbuf, hi]; omega) (by rw [inv.hout, outAt_length _ _ _ inv.hk]; exact hkj)
  rw [hl]
  simp only [bind, Except.bind]
  rw [hl2]
  simp only []
  rw [hs]
  refine ⟨_, rfl, ⟨by omega, inv.hmod, hrem, inv.hdata, inv.hbuf, hlen, inv.hmask, ?_, ?_⟩, ?_⟩
  · simp [hi]
  · simp only []
    rw [inv.hout, ← Nat.add_assoc]
    apply outAt_advance mask data (k + j) 1 hkj
    have hb1 : data[k + j] < 256 := bd _ (List.getElem_mem _)
    have hb2 : mask[j] < 256 := bm _ (List.getElem_mem _)
    have h := store_load_xor [data[k + j]] [mask[j]] rfl
      (by intro b hb; simp at hb; omega) (by intro b hb; simp at hb; omega)
    simp only [List.length_cons, List.length_nil] at h
    rw [h, take_one_drop data (k + j) (by omega)]
    have hmod : (k + j) % 4 = j := by have := inv.hmod; omega
    simp [xorFrom, hmod, List.getD_eq_getElem?_getD, show j < mask.length by omega]
  · simp only [hlen, hi]; omega

end TornadoModel.C18
