/- C18 — the in-place Python loop (`pyLoop`) computes the recursion form of the specification. -/
import TornadoModel.C18.Lemmas
namespace TornadoModel.C18
open TornadoModel.C18.CSem

theorem pyLoop_spec (mask : List Nat) (hm : mask.length = 4) (rest done : List Nat) (k : Nat)
    (hk : done.length = k) :
    pyLoop mask (List.range' k rest.length) (done ++ rest) = .ok (done ++ xorFrom mask k rest) := by
  induction rest generalizing done k with
  | nil => simp [pyLoop, xorFrom]
  | cons b rest ih =>
    have hlt : k % 4 < mask.length := by omega
    have e1 : (done ++ b :: rest)[k]? = some b := by
      rw [List.getElem?_append_right (by omega)]
      simp [hk]
    have e2 : mask[k % 4]? = some (mask.getD (k % 4) 0) := by
      simp [List.getD_eq_getElem?_getD, hlt]
    have e3 : (done ++ b :: rest).set k (b ^^^ mask.getD (k % 4) 0)
        = (done ++ [b ^^^ mask.getD (k % 4) 0]) ++ rest := by
      rw [List.set_append_right _ _ (by omega)]
      simp [hk]
    simp only [List.length_cons, List.range'_succ, pyLoop, e1, e2, e3]
    rw [ih (done ++ [b ^^^ mask.getD (k % 4) 0]) (k + 1) (by simp [hk])]
    simp [xorFrom]

theorem pyMask_eq_xorFrom (mask data : List Nat) (hm : mask.length = 4) :
    pyMask mask data = .ok (xorFrom mask 0 data) := by
  have h := pyLoop_spec mask hm data [] 0 rfl
  simp only [List.nil_append] at h
  simp [pyMask, hm, List.range_eq_range', h]

/-- masking twice with the same key restores the payload (bytes need not even be < 256) -/
theorem xorFrom_involutive (mask : List Nat) (k : Nat) (l : List Nat) :
    xorFrom mask k (xorFrom mask k l) = l := by
  induction l generalizing k with
  | nil => rfl
  | cons b bs ih =>
    simp only [xorFrom, ih]
    rw [Nat.xor_assoc, Nat.xor_self, Nat.xor_zero]

end TornadoModel.C18
