/-
C18 — whole loops (via the Hoare rule) and the straight-line stages of the generated `Gen.websocketMask`,
composed into `gen_eq_xorFrom`.
-/
import TornadoModel.C18.Loops
set_option linter.unusedSimpArgs false
namespace TornadoModel.C18
open TornadoModel.C18.CSem

variable (mask data : List Nat)

theorem loop0_spec (hm : mask.length = 4) (bm : Bytes mask) (bd : Bytes data) (s : Gen.St) (k : Nat)
    (inv : Inv mask data s k) (h64 : s.uint64_mask = leVal (mask ++ mask)) :
    ∃ s' k', Gen.loop0 mask data (mask.length + data.length + 1) s = .ok s' ∧ Inv mask data s' k' := by
  have hlen := inv.hlen
  obtain ⟨s', h, ⟨k', inv', _⟩, _⟩ := whileFuel_inv
    (fun s : Gen.St => decide ((s.data_len : Int) ≥ 8)) _
    (fun s => ∃ k, Inv mask data s k ∧ s.uint64_mask = leVal (mask ++ mask)) (fun s => s.data_len.toNat)
    (fun s hI hc => by
      obtain ⟨k, inv, h64⟩ := hI
      obtain ⟨s', h1, h2, h3⟩ := loop0_step mask data hm bm bd s k inv h64 (by have := of_decide_eq_true hc; omega)
      exact ⟨s', h1, ⟨k + 8, h2⟩, h3⟩)
    (mask.length + data.length + 1) s ⟨k, inv, h64⟩ (by simp only [hlen]; omega)
  exact ⟨s', k', h, inv'⟩

theorem loop1_spec (hm : mask.length = 4) (bm : Bytes mask) (bd : Bytes data) (s : Gen.St) (k : Nat)
    (inv : Inv mask data s k) :
    ∃ s' k', Gen.loop1 mask data (mask.length + data.length + 1) s = .ok s' ∧ Inv mask data s' k'
      ∧ s'.data_len < 4 := by
  have hlen := inv.hlen
  obtain ⟨s', h, ⟨k', inv'⟩, hc⟩ := whileFuel_inv
    (fun s : Gen.St => decide ((s.data_len : Int) ≥ 4)) _
    (fun s => ∃ k, Inv mask data s k) (fun s => s.data_len.toNat)
    (fun s hI hc => by
      obtain ⟨k, inv⟩ := hI
      obtain ⟨s', h1, h2, h3⟩ := loop1_step mask data hm bm bd s k inv (by have := of_decide_eq_true hc; omega)
      exact ⟨s', h1, ⟨k + 4, h2⟩, h3⟩)
    (mask.length + data.length + 1) s ⟨k, inv⟩ (by simp only [hlen]; omega)
  exact ⟨s', k', h, inv', by have := of_decide_eq_false hc; omega⟩

theorem loop2_spec (hm : mask.length = 4) (bm : Bytes mask) (bd : Bytes data) (s : Gen.St) (k : Nat)
    (inv : Inv2 mask data s k 0) :
    ∃ s', Gen.loop2 mask data (mask.length + data.length + 1) s = .ok s'
      ∧ s'.out = outAt mask data data.length := by
  have hlen := inv.hlen
  have hi := inv.hi
  obtain ⟨s', h, ⟨j', inv'⟩, hc⟩ := whileFuel_inv
    (fun s : Gen.St => decide ((s.i : Int) < s.data_len)) _
    (fun s => ∃ j, Inv2 mask data s k j) (fun s => (s.data_len - s.i).toNat)
    (fun s hI hc => by
      obtain ⟨j, inv⟩ := hI
      obtain ⟨s', h1, h2, h3⟩ := loop2_step mask data hm bm bd s k j inv (by have := of_decide_eq_true hc; omega)
      exact ⟨s', h1, ⟨j + 1, h2⟩, h3⟩)
    (mask.length + data.length + 1) s ⟨0, inv⟩ (by simp only [hlen, hi]; omega)
  refine ⟨s', h, ?_⟩
  have h1 := inv'.hlen
  have h2 := inv'.hi
  have h3 := inv'.hk
  have hc' : ¬ (s'.i < s'.data_len) := by have := of_decide_eq_false hc; omega
  have : k + j' = data.length := by omega
  rw [inv'.hout, this]

/-! ### straight-line stages -/

theorem s1_ok (s : Gen.St) (h : s.mask_len = 4) : Gen.s1 mask data s = .ok s := by
  simp [Gen.s1, h, pure, Except.pure]

theorem s2_ok (hm : mask.length = 4) (bm : Bytes mask) (s : Gen.St) (h : s.mask = 0) :
    Gen.s2 mask data s = .ok { s with uint32_mask := leVal mask } := by
  have hl := loadLE_nat mask 4 (s.mask + 4 * 0) 0 (by rw [h]; omega) (by omega)
  have hlt := leVal_lt bm
  rw [hm] at hlt
  simp only [Gen.s2, hl, bind, Except.bind, pure, Except.pure, List.drop_zero,
    List.take_of_length_le (show mask.length ≤ 4 by omega)]
  congr 2
  exact Nat.mod_eq_of_lt (by simpa using hlt)

theorem s3_ok (s : Gen.St) (h : s.data_len = (data.length : Int)) :
    Gen.s3 mask data s = .ok { s with out := List.replicate data.length none } := by
  simp [Gen.s3, alloc, h, bind, Except.bind, pure, Except.pure]

theorem s4_ok (s : Gen.St) : Gen.s4 mask data s = .ok { s with buf := 0 } := rfl

theorem mask64 (hm : mask.length = 4) (bm : Bytes mask) :
    wrap 64 (wrap 64 (wrap 64 (leVal mask) <<< 32) ||| leVal mask) = leVal (mask ++ mask) := by
  have hlt := leVal_lt bm
  rw [hm] at hlt
  have e32 : (256 : Nat) ^ 4 = 2 ^ 32 := by decide
  rw [e32] at hlt
  have h1 : wrap 64 (leVal mask) = leVal mask := Nat.mod_eq_of_lt (by omega)
  have h2 : leVal mask <<< 32 = leVal mask * 2 ^ 32 := Nat.shiftLeft_eq _ _
  have h3 : wrap 64 (leVal mask <<< 32) = leVal mask <<< 32 := by
    apply Nat.mod_eq_of_lt
    rw [h2]
    omega
  rw [h1, h3, ← Nat.shiftLeft_add_eq_or_of_lt hlt, leVal_append, hm, e32, h2]
  have : leVal mask * 2 ^ 32 + leVal mask < 2 ^ 64 := by omega
  unfold wrap
  rw [Nat.mod_eq_of_lt this]
  omega

theorem s5_spec (hm : mask.length = 4) (bm : Bytes mask) (bd : Bytes data) (s : Gen.St) (k : Nat)
    (inv : Inv mask data s k) :
    ∃ s' k', Gen.s5 mask data s = .ok s' ∧ Inv mask data s' k' := by
  have h32 := inv.h32
  obtain ⟨s', k', h, inv'⟩ := loop0_spec mask data hm bm bd
    { s with uint64_mask := wrap 64 (wrap 64 (wrap 64 s.uint32_mask <<< 32) ||| s.uint32_mask) } k
    ⟨inv.hk, inv.hmod, inv.hdata, inv.hbuf, inv.hlen, inv.hmask, inv.hout, inv.h32⟩
    (by simp only [h32]; exact mask64 mask hm bm)
  refine ⟨s', k', ?_, inv'⟩
  simp only [Gen.s5, Gen.sizeofSizeT, bind, Except.bind, pure, Except.pure]
  simp only [ge_iff_le, Nat.le_refl, decide_true, if_true]
  rw [h]

theorem s6_spec (hm : mask.length = 4) (bm : Bytes mask) (bd : Bytes data) (s : Gen.St) (k : Nat)
    (inv : Inv mask data s k) :
    ∃ s' k', Gen.s6 mask data s = .ok s' ∧ Inv mask data s' k' ∧ s'.data_len < 4 := by
  obtain ⟨s', k', h, inv', hlt⟩ := loop1_spec mask data hm bm bd s k inv
  refine ⟨s', k', ?_, inv', hlt⟩
  simp only [Gen.s6, bind, Except.bind, pure, Except.pure]
  rw [h]

theorem s7_spec (hm : mask.length = 4) (bm : Bytes mask) (bd : Bytes data) (s : Gen.St) (k : Nat)
    (inv : Inv mask data s k) (hlt : s.data_len < 4) :
    ∃ s', Gen.s7 mask data s = .ok s' ∧ s'.out = outAt mask data data.length := by
  have hlen := inv.hlen
  obtain ⟨s', h, ho⟩ := loop2_spec mask data hm bm bd { s with i := 0 } k
    ⟨by have := inv.hk; omega, inv.hmod, by omega, inv.hdata, inv.hbuf, inv.hlen, inv.hmask, rfl,
     by simpa using inv.hout⟩
  refine ⟨s', ?_, ho⟩
  simp only [Gen.s7, bind, Except.bind, pure, Except.pure]
  rw [h]

/-- the generated routine computes the recursion form of the specification -/
theorem gen_eq_xorFrom (hm : mask.length = 4) (bm : Bytes mask) (bd : Bytes data) :
    Gen.websocketMask mask data = .ok (xorFrom mask 0 data) := by
  have e1 := s1_ok mask data (Gen.s0 mask data) (by simp [Gen.s0, hm])
  have e2 := s2_ok mask data hm bm (Gen.s0 mask data) rfl
  have e3 := s3_ok mask data { Gen.s0 mask data with uint32_mask := leVal mask } rfl
  have e4 := s4_ok mask data
    { Gen.s0 mask data with uint32_mask := leVal mask, out := List.replicate data.length none }
  obtain ⟨s5, k5, e5, inv5⟩ := s5_spec mask data hm bm bd _ 0
    (⟨Nat.zero_le _, rfl, rfl, rfl, by simp [Gen.s0], rfl, by simp [outAt, xorFrom], rfl⟩ :
      Inv mask data { Gen.s0 mask data with uint32_mask := leVal mask,
                                            out := List.replicate data.length none, buf := 0 } 0)
  obtain ⟨s6, k6, e6, inv6, hlt⟩ := s6_spec mask data hm bm bd s5 k5 inv5
  obtain ⟨s7, e7, hout⟩ := s7_spec mask data hm bm bd s6 k6 inv6 hlt
  unfold Gen.websocketMask
  simp only [bind, Except.bind]
  rw [e1]; simp only []
  rw [e2]; simp only []
  rw [e3]; simp only []
  rw [e4]; simp only []
  rw [e5]; simp only []
  rw [e6]; simp only []
  rw [e7]; simp only []
  rw [hout]
  simp [outAt, finish_map_some]

end TornadoModel.C18
