/-
C18 — lemmas: little-endian packing vs XOR, the Hoare rule for `whileFuel`, and the loop invariants of the
*generated* model `Gen.websocketMask` (regenerated from speedups.c on every run; if the C source changes shape
these proofs stop checking — that is the point).
-/
import TornadoModel.C18.Spec
import TornadoModel.C18.Model
import TornadoModel.C18.Gen.Speedups
namespace TornadoModel.C18
open TornadoModel.C18.CSem

/-- every element is a byte -/
def Bytes (l : List Nat) : Prop := ∀ b ∈ l, b < 256

theorem Bytes.cons {b : Nat} {l : List Nat} (hb : b < 256) (hl : Bytes l) : Bytes (b :: l) := by
  intro x hx
  cases hx with
  | head => exact hb
  | tail _ h => exact hl x h

theorem Bytes.tail {b : Nat} {l : List Nat} (h : Bytes (b :: l)) : Bytes l :=
  fun x hx => h x (List.mem_cons_of_mem _ hx)

theorem Bytes.head {b : Nat} {l : List Nat} (h : Bytes (b :: l)) : b < 256 :=
  h b (List.mem_cons_self ..)

theorem Bytes.append {a b : List Nat} (ha : Bytes a) (hb : Bytes b) : Bytes (a ++ b) := by
  intro x hx
  rcases List.mem_append.mp hx with h | h
  · exact ha x h
  · exact hb x h

theorem Bytes.take {l : List Nat} (h : Bytes l) (n : Nat) : Bytes (l.take n) :=
  fun x hx => h x (List.mem_of_mem_take hx)

theorem Bytes.drop {l : List Nat} (h : Bytes l) (n : Nat) : Bytes (l.drop n) :=
  fun x hx => h x (List.mem_of_mem_drop hx)

/-! ### recursion form of the specification -/

/-- XOR with mask byte `i mod 4`, the first element having index `i` -/
def xorFrom (mask : List Nat) : Nat → List Nat → List Nat
  | _, [] => []
  | i, b :: bs => (b ^^^ mask.getD (i % 4) 0) :: xorFrom mask (i + 1) bs

theorem xorFrom_length (mask : List Nat) (i : Nat) (l : List Nat) : (xorFrom mask i l).length = l.length := by
  induction l generalizing i with
  | nil => rfl
  | cons b bs ih => simp [xorFrom, ih]

theorem xorFrom_append (mask : List Nat) (i : Nat) (a b : List Nat) :
    xorFrom mask i (a ++ b) = xorFrom mask i a ++ xorFrom mask (i + a.length) b := by
  induction a generalizing i with
  | nil => simp [xorFrom]
  | cons x xs ih =>
    simp only [List.cons_append, xorFrom, ih, List.length_cons]
    congr 3
    omega

theorem xorFrom_congr (mask : List Nat) (i j : Nat) (l : List Nat) (h : i % 4 = j % 4) :
    xorFrom mask i l = xorFrom mask j l := by
  induction l generalizing i j with
  | nil => rfl
  | cons b bs ih =>
    simp only [xorFrom, h]
    congr 1
    exact ih (i + 1) (j + 1) (by omega)

theorem bytewise_eq_xorFrom_aux (mask : List Nat) (h : mask.length = 4) (data : List Nat) (k : Nat) :
    (data.zipIdx k).map (fun p => p.1 ^^^ mask[p.2 % 4]'(by omega)) = xorFrom mask k data := by
  induction data generalizing k with
  | nil => rfl
  | cons b bs ih =>
    simp only [List.zipIdx_cons, List.map_cons, xorFrom, ih]
    congr 2
    have : k % 4 < mask.length := by omega
    simp [List.getD_eq_getElem?_getD, this]

theorem bytewise_eq_xorFrom (mask : List Nat) (h : mask.length = 4) (data : List Nat) :
    Spec.bytewise mask h data = xorFrom mask 0 data :=
  bytewise_eq_xorFrom_aux mask h data 0

/-! ### little-endian packing -/

theorem leVal_lt {l : List Nat} (h : Bytes l) : leVal l < 256 ^ l.length := by
  induction l with
  | nil => simp [leVal]
  | cons b bs ih =>
    have hb := h.head
    have := ih h.tail
    simp only [leVal, List.length_cons, Nat.pow_succ]
    omega

theorem leVal_append (a b : List Nat) : leVal (a ++ b) = leVal a + 256 ^ a.length * leVal b := by
  induction a with
  | nil => simp [leVal]
  | cons x xs ih =>
    simp only [List.cons_append, leVal, ih, List.length_cons, Nat.pow_succ]
    rw [Nat.mul_add, Nat.add_assoc, ← Nat.mul_assoc, Nat.mul_comm 256 (256 ^ xs.length)]

theorem xor_low (a b x y : Nat) (ha : a < 256) (hb : b < 256) :
    ((a + 256 * x) ^^^ (b + 256 * y)) % 256 = a ^^^ b := by
  have h := @Nat.xor_mod_two_pow (a + 256 * x) (b + 256 * y) 8
  have e : (2 : Nat) ^ 8 = 256 := by decide
  rw [e] at h
  rw [h]
  congr 1 <;> omega

theorem xor_high (a b x y : Nat) (ha : a < 256) (hb : b < 256) :
    ((a + 256 * x) ^^^ (b + 256 * y)) / 256 = x ^^^ y := by
  have h := @Nat.xor_div_two_pow (a + 256 * x) (b + 256 * y) 8
  have e : (2 : Nat) ^ 8 = 256 := by decide
  rw [e] at h
  rw [h]
  congr 1 <;> omega

/-- storing the XOR of two loaded words = XOR of the bytes, for every word width -/
theorem store_load_xor (a b : List Nat) (hlen : a.length = b.length) (ha : Bytes a) (hb : Bytes b) :
    leBytes a.length (leVal a ^^^ leVal b) = List.zipWith (· ^^^ ·) a b := by
  induction a generalizing b with
  | nil => cases b <;> simp [leBytes] at *
  | cons x xs ih =>
    cases b with
    | nil => simp at hlen
    | cons y ys =>
      simp only [List.length_cons, leBytes, leVal, List.zipWith_cons_cons]
      rw [xor_low x y _ _ ha.head hb.head, xor_high x y _ _ ha.head hb.head]
      rw [ih ys (by simpa using hlen) ha.tail hb.tail]

theorem length_eq_four {l : List Nat} (h : l.length = 4) : ∃ a b c d, l = [a, b, c, d] := by
  match l, h with
  | [a, b, c, d], _ => exact ⟨a, b, c, d, rfl⟩

theorem length_eq_eight {l : List Nat} (h : l.length = 8) :
    ∃ a b c d e f g i, l = [a, b, c, d, e, f, g, i] := by
  match l, h with
  | [a, b, c, d, e, f, g, i], _ => exact ⟨a, b, c, d, e, f, g, i, rfl⟩

theorem xor_word4 (mask c : List Nat) (hm : mask.length = 4) (hc : c.length = 4) (bm : Bytes mask) (bc : Bytes c) :
    leBytes 4 (leVal c ^^^ leVal mask) = xorFrom mask 0 c := by
  have h := store_load_xor c mask (by omega) bc bm
  rw [hc] at h
  rw [h]
  obtain ⟨m0, m1, m2, m3, rfl⟩ := length_eq_four hm
  obtain ⟨c0, c1, c2, c3, rfl⟩ := length_eq_four hc
  simp [xorFrom]

theorem xor_word8 (mask c : List Nat) (hm : mask.length = 4) (hc : c.length = 8) (bm : Bytes mask) (bc : Bytes c) :
    leBytes 8 (leVal c ^^^ leVal (mask ++ mask)) = xorFrom mask 0 c := by
  have h := store_load_xor c (mask ++ mask) (by simp; omega) bc (bm.append bm)
  rw [hc] at h
  rw [h]
  obtain ⟨m0, m1, m2, m3, rfl⟩ := length_eq_four hm
  obtain ⟨c0, c1, c2, c3, c4, c5, c6, c7, rfl⟩ := length_eq_eight hc
  simp [xorFrom]

/-! ### memory primitives on natural offsets -/

theorem loadLE_nat (arr : List Nat) (n : Nat) (off : Int) (k : Nat) (hoff : off = (k : Int))
    (hb : k + n ≤ arr.length) : loadLE arr n off = .ok (leVal ((arr.drop k).take n)) := by
  subst hoff
  simp [loadLE, hb]

theorem storeLE_nat (out : List (Option Nat)) (n : Nat) (off : Int) (k : Nat) (w : Nat) (hoff : off = (k : Int))
    (hb : k + n ≤ out.length) :
    storeLE out n off w = .ok (out.take k ++ ((leBytes n w).map some ++ out.drop (k + n))) := by
  subst hoff
  simp [storeLE, hb]

theorem leBytes_length (n w : Nat) : (leBytes n w).length = n := by
  induction n generalizing w with
  | zero => rfl
  | succ n ih => simp [leBytes, ih]

theorem finish_map_some (l : List Nat) : finish (l.map some) = .ok l := by
  induction l with
  | nil => rfl
  | cons b bs ih => simp [finish, ih]

/-- the result buffer after `k` bytes have been written -/
def outAt (mask data : List Nat) (k : Nat) : List (Option Nat) :=
  (xorFrom mask 0 (data.take k)).map some ++ List.replicate (data.length - k) none

theorem outAt_length (mask data : List Nat) (k : Nat) (hk : k ≤ data.length) :
    (outAt mask data k).length = data.length := by
  simp [outAt, xorFrom_length, List.length_take]
  omega

/-- writing the next `j` correct bytes at offset `k` advances the buffer from `k` to `k + j` -/
theorem outAt_advance (mask data : List Nat) (k j : Nat) (hkj : k + j ≤ data.length) (bs : List Nat)
    (hbs : bs = xorFrom mask k ((data.drop k).take j)) :
    (outAt mask data k).take k ++ (bs.map some ++ (outAt mask data k).drop (k + j)) = outAt mask data (k + j) := by
  have hlen : ((xorFrom mask 0 (data.take k)).map some).length = k := by
    simp [xorFrom_length, List.length_take]; omega
  have htake : (outAt mask data k).take k = (xorFrom mask 0 (data.take k)).map some := by
    unfold outAt
    rw [List.take_append_of_le_length (by omega), List.take_of_length_le (by omega)]
  have hdrop : (outAt mask data k).drop (k + j) = List.replicate (data.length - (k + j)) none := by
    unfold outAt
    rw [List.drop_append, List.drop_of_length_le (by omega), hlen]
    simp
    omega
  rw [htake, hdrop, hbs]
  unfold outAt
  rw [List.take_add, xorFrom_append, List.map_append, List.append_assoc]
  simp [List.length_take, Nat.min_eq_left (show k ≤ data.length by omega)]

/-! ### Hoare rule for `whileFuel` -/

theorem whileFuel_inv {σ : Type} (cond : σ → Bool) (body : σ → Except Stop σ) (I : σ → Prop) (μ : σ → Nat)
    (hstep : ∀ s, I s → cond s = true → ∃ s', body s = .ok s' ∧ I s' ∧ μ s' < μ s) :
    ∀ fuel s, I s → μ s < fuel → ∃ s', whileFuel cond body fuel s = .ok s' ∧ I s' ∧ cond s' = false := by
  intro fuel
  induction fuel with
  | zero => intro s _ h; omega
  | succ f ih =>
    intro s hI hμ
    cases hc : cond s with
    | false => exact ⟨s, by simp [whileFuel, hc], hI, hc⟩
    | true =>
      obtain ⟨s', hb, hI', hlt⟩ := hstep s hI hc
      obtain ⟨s'', h1, h2, h3⟩ := ih s' hI' (by omega)
      exact ⟨s'', by simp [whileFuel, hc, hb, h1], h2, h3⟩

end TornadoModel.C18
