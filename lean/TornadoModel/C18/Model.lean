/-
C18 — hand model of the pure-Python reference `tornado.util._websocket_mask_python`:

    if len(mask) != 4: raise ValueError("mask must be 4 bytes")
    mask_arr = array.array("B", mask); unmasked_arr = array.array("B", data)
    for i in range(len(data)): unmasked_arr[i] = unmasked_arr[i] ^ mask_arr[i % 4]
    return unmasked_arr.tobytes()

The in-place loop over `range(len(data))` is kept as it is written (indexing can fail with IndexError in the
model; the theorem `py_mask_eq_bytewise` shows it never does).  The model of the C routine is not written by
hand: it is `Gen/Speedups.lean`, regenerated from `speedups.c` on every run.
-/
import TornadoModel.C18.CSem
namespace TornadoModel.C18
open TornadoModel.C18.CSem

/-- the `for i in range(len(data))` loop over the index list, updating the array in place -/
def pyLoop (mask : List Nat) : List Nat → List Nat → Except Stop (List Nat)
  | [], arr => .ok arr
  | i :: is, arr =>
    match arr[i]?, mask[i % 4]? with
    | some a, some m => pyLoop mask is (arr.set i (a ^^^ m))
    | _, _ => .error (.raised "IndexError")

def pyMask (mask data : List Nat) : Except Stop (List Nat) :=
  if mask.length ≠ 4 then .error (.raised "ValueError")
  else pyLoop mask (List.range data.length) data

end TornadoModel.C18
