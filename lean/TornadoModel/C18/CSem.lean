/-
C18 — the semantic primitives the *generated* model of `speedups.c:websocket_mask` is written in
(core Lean only).  `harness/translate/c2lean.py` turns every C statement of the function body into a call of
one of these; nothing here knows what the routine is supposed to compute.

Memory: the two argument buffers are immutable byte lists (`List Nat`, every element < 256 when it comes from
Python); the result buffer is a `List (Option Nat)` whose cells start out as `none` (uninitialised memory of
`PyBytes_FromStringAndSize(NULL, n)`).  A pointer variable is the byte offset (an `Int`) into *its* array.
Everything C leaves undefined is an explicit `Stop`: an access outside the array (`oob`), returning
uninitialised bytes (`uninit`), a loop that outlives its fuel (`fuel`).  A raised Python exception is
`raised "<Name>"`.  Word accesses are little-endian (x86-64 / aarch64 hosts; the harness checks
`sys.byteorder`) and, like the hardware, alignment-agnostic.
-/
namespace TornadoModel.C18.CSem

inductive Stop where
  | raised (exc : String)
  | oob
  | uninit
  | fuel
  deriving Repr, DecidableEq, BEq

/-- little-endian value of a byte list -/
def leVal : List Nat → Nat
  | [] => 0
  | b :: bs => b + 256 * leVal bs

/-- the `n` low-order bytes of `w`, least significant first (stores truncate, as in C) -/
def leBytes : Nat → Nat → List Nat
  | 0, _ => []
  | n + 1, w => w % 256 :: leBytes n (w / 256)

/-- `((uintN_t *)p)[k]` / `p[k]` as an rvalue: `n` bytes at byte offset `off` of a read-only array -/
def loadLE (arr : List Nat) (n : Nat) (off : Int) : Except Stop Nat :=
  if 0 ≤ off ∧ off.toNat + n ≤ arr.length then .ok (leVal ((arr.drop off.toNat).take n)) else .error .oob

/-- the same as an lvalue of the result buffer -/
def storeLE (out : List (Option Nat)) (n : Nat) (off : Int) (w : Nat) : Except Stop (List (Option Nat)) :=
  if 0 ≤ off ∧ off.toNat + n ≤ out.length then
    .ok (out.take off.toNat ++ ((leBytes n w).map some ++ out.drop (off.toNat + n)))
  else .error .oob

/-- `PyBytes_FromStringAndSize(NULL, n)` -/
def alloc (n : Int) : Except Stop (List (Option Nat)) :=
  if 0 ≤ n then .ok (List.replicate n.toNat none) else .error (.raised "SystemError")

/-- `return result;` — every byte must have been written -/
def finish : List (Option Nat) → Except Stop (List Nat)
  | [] => .ok []
  | none :: _ => .error .uninit
  | some b :: r => match finish r with
    | .ok l => .ok (b :: l)
    | .error e => .error e

/-- unsigned wrap-around of a `bits`-wide C integer -/
def wrap (bits : Nat) (x : Nat) : Nat := x % 2 ^ bits

/-- `while (cond) body` with explicit fuel; running out of fuel is an error, never a result -/
def whileFuel {σ : Type} (cond : σ → Bool) (body : σ → Except Stop σ) : Nat → σ → Except Stop σ
  | 0, _ => .error .fuel
  | fuel + 1, s => if cond s then (match body s with
      | .ok s' => whileFuel cond body fuel s'
      | .error e => .error e) else .ok s

end TornadoModel.C18.CSem
