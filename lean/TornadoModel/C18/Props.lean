/-
C18 — property theorems.  `Gen.websocketMask` is the model REGENERATED from tornado/speedups.c on every run
(harness/translate/c2lean.py); `pyMask` is the hand model of `tornado.util._websocket_mask_python`;
`Spec.bytewise` is RFC 6455 §5.3 (octet i XOR key octet i mod 4).  All statements quantify over every 4-byte
key and every payload of every length; `Bytes l` says the list elements are octets (< 256).
-/
import TornadoModel.C18.Stages
import TornadoModel.C18.PyLemmas
namespace TornadoModel.C18
open TornadoModel.C18.CSem

/-- The word-at-a-time C routine returns exactly the byte-wise XOR, for every payload length:
    no out-of-bounds access, no unwritten output byte, no non-termination on the way. -/
theorem c_mask_eq_bytewise (mask data : List Nat) (hm : mask.length = 4) (bm : Bytes mask) (bd : Bytes data) :
    Gen.websocketMask mask data = .ok (Spec.bytewise mask hm data) := by
  rw [bytewise_eq_xorFrom]
  exact gen_eq_xorFrom mask data hm bm bd

/-- The same, pointwise with checked indices (no default values anywhere in the statement). -/
theorem c_mask_pointwise (mask data : List Nat) (hm : mask.length = 4) (bm : Bytes mask) (bd : Bytes data) :
    ∃ out, Gen.websocketMask mask data = .ok out ∧ ∃ hl : out.length = data.length,
      ∀ (i : Nat) (hi : i < data.length), out[i]'(by omega) = data[i] ^^^ mask[i % 4]'(by omega) := by
  refine ⟨Spec.bytewise mask hm data, c_mask_eq_bytewise mask data hm bm bd, by simp [Spec.bytewise], ?_⟩
  intro i hi
  simp [Spec.bytewise]

/-- The pure-Python reference computes the same function (and never raises IndexError). -/
theorem py_mask_eq_bytewise (mask data : List Nat) (hm : mask.length = 4) :
    pyMask mask data = .ok (Spec.bytewise mask hm data) := by
  rw [bytewise_eq_xorFrom]
  exact pyMask_eq_xorFrom mask data hm

/-- Native routine and Python fallback are interchangeable on octet strings. -/
theorem c_mask_eq_py_mask (mask data : List Nat) (hm : mask.length = 4) (bm : Bytes mask) (bd : Bytes data) :
    Gen.websocketMask mask data = pyMask mask data := by
  rw [c_mask_eq_bytewise mask data hm bm bd, py_mask_eq_bytewise mask data hm]

/-- Masks that are not exactly 4 bytes are rejected with ValueError by both implementations,
    whatever the payload (no byte of it is read). -/
theorem mask_len_guard (mask data : List Nat) (h : mask.length ≠ 4) :
    Gen.websocketMask mask data = .error (.raised "ValueError")
      ∧ pyMask mask data = .error (.raised "ValueError") := by
  constructor
  · have h' : ((mask.length : Int) != 4) = true := by
      simp only [bne_iff_ne, ne_eq]; omega
    simp [Gen.websocketMask, Gen.s1, Gen.s0, h', bind, Except.bind, throw, throwThe, MonadExceptOf.throw]
  · simp [pyMask, h]

/-- outcome of the generated routine in the vocabulary of the specification -/
def toRes : Except Stop (List Nat) → Option Spec.Res
  | .ok b => some (.bytes b)
  | .error (.raised "ValueError") => some .valueError
  | .error _ => none

/-- Total contract: on octet strings the generated routine IS the specification (both branches). -/
theorem c_mask_refines_spec (mask data : List Nat) (bm : Bytes mask) (bd : Bytes data) :
    toRes (Gen.websocketMask mask data) = some (Spec.websocketMask mask data) := by
  by_cases hm : mask.length = 4
  · simp [c_mask_eq_bytewise mask data hm bm bd, Spec.websocketMask, hm, toRes]
  · simp [(mask_len_guard mask data hm).1, Spec.websocketMask, hm, toRes]

/-- Masking is an involution: applying the same key twice restores the payload. -/
theorem bytewise_involutive (mask data : List Nat) (hm : mask.length = 4) :
    Spec.bytewise mask hm (Spec.bytewise mask hm data) = data := by
  rw [bytewise_eq_xorFrom, bytewise_eq_xorFrom, xorFrom_involutive]

/-! ### non-vacuity: the hypotheses are satisfiable and the functions really run -/

instance : DecidableEq (Except Stop (List Nat)) := fun a b =>
  match a, b with
  | .ok x, .ok y => if h : x = y then isTrue (by rw [h]) else isFalse (by intro e; cases e; exact h rfl)
  | .error x, .error y => if h : x = y then isTrue (by rw [h]) else isFalse (by intro e; cases e; exact h rfl)
  | .ok _, .error _ => isFalse (by intro e; cases e)
  | .error _, .ok _ => isFalse (by intro e; cases e)

example : Bytes [0x37, 0xfa, 0x21, 0x3d] := by unfold Bytes; decide
example : Bytes (List.range 256) := by intro b hb; simpa using hb
/-- RFC 6455 §5.7 example: "Hello" masked with 37 fa 21 3d -/
example : Gen.websocketMask [0x37, 0xfa, 0x21, 0x3d] [0x48, 0x65, 0x6c, 0x6c, 0x6f]
    = .ok [0x7f, 0x9f, 0x4d, 0x51, 0x58] := by decide
/-- 13 bytes: one 8-byte word, one 4-byte word, one trailing byte -/
example : Gen.websocketMask [1, 2, 3, 4] (List.range 13)
    = .ok [1, 3, 1, 7, 5, 7, 5, 3, 9, 11, 9, 15, 13] := by decide
example : pyMask [1, 2, 3, 4] (List.range 13) = .ok [1, 3, 1, 7, 5, 7, 5, 3, 9, 11, 9, 15, 13] := by decide
example : Gen.websocketMask [1, 2, 3] [5] = .error (.raised "ValueError") := by decide
/-- the octet hypothesis matters: a "byte" ≥ 256 is truncated by the store, not by the specification -/
example : Gen.websocketMask [0, 0, 0, 0] [256] ≠ .ok (Spec.bytewise [0, 0, 0, 0] rfl [256]) := by decide

end TornadoModel.C18
