/-
C18 — the specification: RFC 6455 §5.3 masking.  Octet `i` of the output is octet `i` of the input XOR
octet `i mod 4` of the 4-byte masking key.  Nothing else.  (`mask[i % 4]` is a checked index: the length
hypothesis is an argument, there is no default value that could make a statement true by accident.)
-/
namespace TornadoModel.C18.Spec

/-- byte-wise XOR with the key repeated every 4 bytes -/
def bytewise (mask : List Nat) (h : mask.length = 4) (data : List Nat) : List Nat :=
  data.zipIdx.map (fun p => p.1 ^^^ mask[p.2 % 4]'(by omega))

inductive Res where
  | bytes (b : List Nat)
  | valueError
  deriving Repr, DecidableEq

/-- the contract of `websocket_mask(mask, data)`: masks that are not exactly 4 bytes are rejected -/
def websocketMask (mask data : List Nat) : Res :=
  if h : mask.length = 4 then .bytes (bytewise mask h data) else .valueError

end TornadoModel.C18.Spec
