/-
C04 — size limits.  The connection machine is the one of C01 (`TornadoModel.C01.Model`): `Cfg.maxHeader` is the
`max_bytes` of the header search, `Cfg.maxBody` / `Cfg.overrides` the body limit checked against Content-Length and
against the running chunk total.  This file adds `_GzipMessageDelegate.data_received` (decompress_request=True).

zlib is *not* modelled: one call `decompress(data, chunk_size)` is an oracle answer `(out, tail)` — the bytes it
returned and how many input bytes it left in `unconsumed_tail` (always a suffix of its input).  The harness
records the answers of the real `GzipDecompressor`; the theorems quantify over *all* answer scripts.
-/
import TornadoModel.C01.Model
namespace TornadoModel.C04
open TornadoModel.C01

/-- one `decompress` call: output bytes, length of the unconsumed tail -/
abbrev Ans := Str × Nat

structure GSt where
  size : Nat := 0            -- _decompressed_body_size
  delivered : List Str := [] -- chunks handed to the wrapped delegate (oldest first)
  rejected : Bool := false   -- HTTPInputError raised
  deriving Repr, BEq, DecidableEq

/-- the `while compressed_data:` loop of `_GzipMessageDelegate.data_received`; one script entry per iteration -/
def gzLoop (limit : Nat) : List Ans → GSt → Str → GSt × List Ans
  | [], g, _ => (g, [])
  | (out, tl) :: rest, g, comp =>
    if comp.isEmpty then (g, (out, tl) :: rest)
    else
      let size' := g.size + out.length
      if !out.isEmpty && size' > limit then ({ g with size := size', rejected := true }, rest)
      else
        let g' := if out.isEmpty then g else { g with size := size', delivered := g.delivered ++ [out] }
        let tail := comp.drop (comp.length - tl)
        if !tail.isEmpty && out.isEmpty then ({ g' with rejected := true }, rest)
        else gzLoop limit rest g' tail

/-- a sequence of `data_received(chunk)` calls, each with the oracle answers it consumed -/
def gzRun (limit : Nat) : List (Str × List Ans) → GSt → GSt
  | [], g => g
  | (chunk, script) :: more, g =>
    if g.rejected then g
    else gzRun limit more (gzLoop limit script g chunk).1

def total (l : List Str) : Nat := (l.map List.length).sum

/-- composition with the connection machine: an `HTTPInputError` raised by the wrapper inside `data_received` leaves
    `_read_fixed_body` / `_read_chunked_body` and is caught by the same `except HTTPInputError` arm of `_read_message` as
    the connection's own framing errors — `reject400 · true` (400, close, `on_connection_close`) -/
def gzRefusal (s : St) (g : GSt) : St := if g.rejected then reject400 s true else s

/-! ## the size options as the application gives them

`HTTPServer(max_header_size=…, max_body_size=…)` / `IOStream(max_buffer_size=…)`: every option may be absent (`None`), and
`0` is a legal value.  The code treats the three differently:

* `HTTP1ConnectionParameters.__init__`: `self.max_header_size = max_header_size or 65536` (0 and `None` → 65536);
* `BaseIOStream.__init__`: `self.max_buffer_size = max_buffer_size or 104857600` (0 and `None` → 100 MB);
* `HTTP1Connection.__init__`: `self._max_body_size = params.max_body_size if params.max_body_size is not None else
  stream.max_buffer_size` — only `None` falls back; a configured `0` stays `0` ("no request bodies accepted").
-/

/-- the options as passed by the application (`none` = argument not given / `None`) -/
structure Raw where
  maxHeaderSize : Option Nat := none
  maxBodySize : Option Nat := none
  maxBufferSize : Option Nat := none            -- of the stream the connection is served on
  overrides : List (Option Nat) := []
  noKeepAlive : Bool := false
  deriving Repr, BEq, DecidableEq

/-- Python `x or d` on an optional int: `None` and `0` are falsy -/
def orDefault (x : Option Nat) (d : Nat) : Nat :=
  match x with
  | some (n + 1) => n + 1
  | _ => d

/-- Python `x if x is not None else d` -/
def ifNotNone (x : Option Nat) (d : Nat) : Nat :=
  match x with
  | some n => n
  | none => d

/-- the limits the connection machine works with -/
def Raw.cfg (r : Raw) : Cfg :=
  { maxHeader := orDefault r.maxHeaderSize 65536
    maxBody := ifNotNone r.maxBodySize (orDefault r.maxBufferSize 104857600)
    overrides := r.overrides
    noKeepAlive := r.noKeepAlive }

end TornadoModel.C04
