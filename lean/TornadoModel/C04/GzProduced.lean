/-
C04 — what the decompressor *produced* over a whole sequence of `data_received` calls, as a function of the answer
scripts alone (not of the delegate's counter), and the proof that the counter `_decompressed_body_size` is exactly that.
-/
import TornadoModel.C04.RunLevel
namespace TornadoModel.C04
open TornadoModel.C01

/-- output bytes of a list of decompressor answers -/
def outSum (l : List Ans) : Nat := (l.map (fun a => a.1.length)).sum

/-- the answers one `data_received` call consumed: its script minus what `gzLoop` hands back unused -/
def usedBy (limit : Nat) (script : List Ans) (g : GSt) (comp : Str) : List Ans :=
  script.take (script.length - (gzLoop limit script g comp).2.length)

theorem gzLoop_used (limit : Nat) (script : List Ans) (g : GSt) (comp : Str) :
    ∃ used, script = used ++ (gzLoop limit script g comp).2 ∧
      (gzLoop limit script g comp).1.size = g.size + outSum used := by
  induction script generalizing g comp with
  | nil => exact ⟨[], by simp [gzLoop], by simp [gzLoop, outSum]⟩
  | cons a rest ih =>
    obtain ⟨out, tl⟩ := a
    unfold gzLoop
    by_cases hc : comp.isEmpty = true
    · exact ⟨[], by simp [hc], by simp [hc, outSum]⟩
    · simp only [hc, Bool.false_eq_true, if_false]
      by_cases hover : (!out.isEmpty && decide (g.size + out.length > limit)) = true
      · simp only [hover, if_true]
        exact ⟨[(out, tl)], by simp, by simp [outSum]⟩
      · simp only [hover, Bool.false_eq_true, if_false]
        have hsz : (if out.isEmpty then g else { g with size := g.size + out.length, delivered := g.delivered ++ [out] }).size
            = g.size + out.length := by
          by_cases ho : out.isEmpty = true
          · have : out = [] := by simpa using ho
            simp [this]
          · simp [ho]
        split
        · exact ⟨[(out, tl)], by simp, by simp only [outSum, List.map_cons, List.map_nil, List.sum_cons, List.sum_nil]; rw [hsz]; omega⟩
        · obtain ⟨used, h1, h2⟩ := ih
            (if out.isEmpty then g else { g with size := g.size + out.length, delivered := g.delivered ++ [out] })
            (comp.drop (comp.length - tl))
          refine ⟨(out, tl) :: used, ?_, ?_⟩
          · simp only [List.cons_append]; rw [← h1]
          · rw [h2, hsz]; simp only [outSum, List.map_cons, List.sum_cons]; omega

theorem gzLoop_size (limit : Nat) (script : List Ans) (g : GSt) (comp : Str) :
    (gzLoop limit script g comp).1.size = g.size + outSum (usedBy limit script g comp) := by
  obtain ⟨used, h1, h2⟩ := gzLoop_used limit script g comp
  have hu : usedBy limit script g comp = used := by
    unfold usedBy
    have hl : script.length - (gzLoop limit script g comp).2.length = used.length := by
      have := congrArg List.length h1
      simp only [List.length_append] at this
      omega
    rw [hl]
    conv => lhs; rw [h1]
    exact List.take_left' rfl
  rw [hu]; exact h2

/-- total output of all the decompressor answers the delegate consumed, over a sequence of `data_received` calls
    (nothing is consumed any more once HTTPInputError was raised) -/
def gzProduced (limit : Nat) : List (Str × List Ans) → GSt → Nat
  | [], _ => 0
  | (chunk, script) :: more, g =>
    if g.rejected then 0
    else outSum (usedBy limit script g chunk) + gzProduced limit more (gzLoop limit script g chunk).1

theorem gzRun_size (limit : Nat) (calls : List (Str × List Ans)) (g : GSt) :
    (gzRun limit calls g).size = g.size + gzProduced limit calls g := by
  induction calls generalizing g with
  | nil => simp [gzRun, gzProduced]
  | cons c more ih =>
    obtain ⟨chunk, script⟩ := c
    unfold gzRun gzProduced
    by_cases hr : g.rejected = true
    · simp [hr]
    · simp only [hr, Bool.false_eq_true, if_false]
      rw [ih, gzLoop_size]; omega

end TornadoModel.C04
