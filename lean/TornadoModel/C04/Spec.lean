/-
C04 — what the property demands, as predicates on what the application was handed:
the body bytes of every request stay within its limit, and a decompressed body beyond the limit is refused.
-/
import TornadoModel.C04.Model
import TornadoModel.C01.Spec
namespace TornadoModel.C04.Spec
open TornadoModel.C01 TornadoModel.C04

/-- bytes of `data_received` for request `i` in a trace -/
def dataLen (i : Nat) : List Ev → Nat
  | [] => 0
  | .data j b :: r => (if i = j then b.length else 0) + dataLen i r
  | _ :: r => dataLen i r

/-- the oracle on a trace: every request within its limit -/
def withinLimits (cfg : Cfg) (evs : List Ev) (nreq : Nat) : Bool :=
  (List.range nreq).all fun i => dataLen i evs ≤ effLimit cfg i

/-- the oracle on a gzip delegate: handed at most `limit` bytes -/
def gzWithin (limit : Nat) (g : GSt) : Bool := total g.delivered ≤ limit

end TornadoModel.C04.Spec
