/-
C04 — run-level refusal lemmas.  `run_eq_feed` (C01/Lemmas.lean) says that a run over any segmentation equals one
`feed` of the concatenated bytes, so a statement about "the stream that follows a reachable state" reduces to one
`drain` of the joined buffer; a closed state absorbs everything after it.
-/
import TornadoModel.C04.Lemmas
namespace TornadoModel.C04
open TornadoModel.C01 TornadoModel.C04.Spec

theorem run_append (cfg : Cfg) (s : St) (a b : List Str) : run cfg s (a ++ b) = run cfg (run cfg s a) b := by
  induction a generalizing s with
  | nil => rfl
  | cons x xs ih => simp only [List.cons_append, run]; exact ih _

/-- every state a run reaches is blocked (the coroutine waits for input or the connection is closed) -/
theorem step_run_init (cfg : Cfg) (pre : List Str) : step cfg (run cfg init pre) = none := by
  rw [run_eq_feed cfg init pre (step_nil rfl)]
  exact step_feed cfg init _

theorem step_of_closed {cfg : Cfg} {s : St} (h : s.phase = .closed) : step cfg s = none := by
  simp [step, h]

theorem drain_of_closed {cfg : Cfg} {s : St} (h : s.phase = .closed) : drain cfg s = s :=
  drain_of_none (step_of_closed h)

/-- from a blocked open state, the run over `segs` is one drain of the joined buffer -/
theorem run_open_eq (cfg : Cfg) (s : St) (segs : List Str) (hb : step cfg s = none) (ho : s.phase ≠ .closed) :
    run cfg s segs = drain cfg { s with buf := s.buf ++ segs.flatten } := by
  rw [run_eq_feed cfg s segs hb]
  unfold feed
  rw [app_of_open _ ho]

/-- a step that closes the connection is the end of the run -/
theorem run_open_closing (cfg : Cfg) (s t : St) (segs : List Str) (hb : step cfg s = none) (ho : s.phase ≠ .closed)
    (hs : step cfg { s with buf := s.buf ++ segs.flatten } = some t) (hc : t.phase = .closed) :
    run cfg s segs = t := by
  rw [run_open_eq cfg s segs hb ho, drain_of_some hs, drain_of_closed hc]

@[simp] theorem closeSilent_phase (s : St) (r : Bool) : (closeSilent s r).phase = .closed := rfl
@[simp] theorem reject400_phase (s : St) (r : Bool) : (reject400 s r).phase = .closed := rfl

theorem closeSilent_out_false (s : St) : (closeSilent s false).out = .closed :: s.out := by
  simp [closeSilent, St.emit, pushEv]

theorem reject400_out_true (s : St) : (reject400 s true).out = .connClose :: .closed :: .w400 :: s.out := by
  simp [reject400, St.emit, pushEv]

/-! ### header block -/

theorem run_header_oversize_gen (cfg : Cfg) (s : St) (segs : List Str) (hb : step cfg s = none)
    (hp : s.phase = .headers)
    (hbig : (∃ k, findHeadEnd (s.buf ++ segs.flatten) = some k ∧ k > cfg.maxHeader) ∨
      (findHeadEnd (s.buf ++ segs.flatten) = none ∧ (s.buf ++ segs.flatten).length > cfg.maxHeader)) :
    (run cfg s segs).phase = .closed ∧ (run cfg s segs).out = .closed :: s.out := by
  have ho : s.phase ≠ .closed := by rw [hp]; simp
  have hs : step cfg { s with buf := s.buf ++ segs.flatten }
      = some (closeSilent { s with buf := s.buf ++ segs.flatten } false) := by
    rcases hbig with ⟨k, hk, hgt⟩ | ⟨hk, hgt⟩
    · simp [step, hp, stepHeaders, hk, hgt]
    · simp only [step, hp, stepHeaders, hk]
      exact if_pos hgt
  rw [run_open_closing cfg s _ segs hb ho hs rfl]
  exact ⟨rfl, closeSilent_out_false _⟩

/-! ### declared body -/

theorem run_body_refused_gen (cfg : Cfg) (s : St) (segs : List Str) (hb : step cfg s = none)
    (hp : s.phase = .headers) (k : Nat) (m t v : Str) (h : Hdrs) (ka : Bool) (hostv : Str)
    (hk : findHeadEnd (s.buf ++ segs.flatten) = some k) (hfit : k ≤ cfg.maxHeader)
    (hparse : parseHead ((s.buf ++ segs.flatten).take k) = some ((m, t, v), h))
    (hka : canKeepAlive cfg.noKeepAlive m v h = some ka) (hhost : hostCheck v h = some hostv)
    (hbody : bodyKind (effLimit cfg s.idx) h = none) :
    (run cfg s segs).phase = .closed ∧
      (run cfg s segs).out = [.connClose, .closed, .w400] ++
        (if hGet h kExpect = some k100Continue then [Ev.w100] else []) ++ .req m t v (hAll h) :: s.out := by
  have ho : s.phase ≠ .closed := by rw [hp]; simp
  have hnot : ¬ k > cfg.maxHeader := by omega
  have hs : step cfg { s with buf := s.buf ++ segs.flatten }
      = some (onHead cfg { s with buf := (s.buf ++ segs.flatten).drop k } ((s.buf ++ segs.flatten).take k)) := by
    simp [step, hp, stepHeaders, hk, hnot]
  have hc : (onHead cfg { s with buf := (s.buf ++ segs.flatten).drop k } ((s.buf ++ segs.flatten).take k)).phase
      = .closed := by
    simp [onHead, hparse, hka, hhost, startReq, hbody, startBody]
  rw [run_open_closing cfg s _ segs hb ho hs hc]
  refine ⟨hc, ?_⟩
  simp only [onHead, hparse, hka, hhost, startReq, hbody, startBody]
  rw [reject400_out_true]
  split <;> simp [St.emit, pushEv]

/-! ### chunked body -/

theorem run_chunk_refused_gen (cfg : Cfg) (s : St) (segs : List Str) (hb : step cfg s = none)
    (total loc n : Nat) (hp : s.phase = .chunkSize total)
    (hloc : findCrlf (s.buf ++ segs.flatten) = some loc) (hshort : loc + 2 ≤ chunkLineMax)
    (hsz : parseHexInt ((s.buf ++ segs.flatten).take loc) = some (n + 1)) (hbig : total + (n + 1) > s.limit) :
    (run cfg s segs).phase = .closed ∧ (run cfg s segs).out = .connClose :: .closed :: .w400 :: s.out := by
  have ho : s.phase ≠ .closed := by rw [hp]; simp
  have h1 : ¬ loc + 2 > chunkLineMax := by omega
  have hs : step cfg { s with buf := s.buf ++ segs.flatten }
      = some (reject400 { s with buf := s.buf ++ segs.flatten } true) := by
    simp [step, hp, stepChunkSize, hloc, h1, hsz, hbig]
  rw [run_open_closing cfg s _ segs hb ho hs rfl]
  exact ⟨rfl, reject400_out_true _⟩

/-- what the invariant says in a chunk-size state of a reachable run: the running total *is* the number of bytes
    already handed over for the current request, and the stored limit *is* that request's effective limit -/
theorem inv_chunkSize {cfg : Cfg} {s : St} {total : Nat} (hi : Inv cfg s) (hp : s.phase = .chunkSize total) :
    total = dataLen (s.idx - 1) s.out ∧ s.limit = effLimit cfg (s.idx - 1) := by
  have h2 := hi.2
  unfold PhaseOk at h2
  rw [hp] at h2
  exact ⟨by rw [hi.1.cur]; exact h2.1.symm, hi.1.lim h2.2.2⟩

/-! ### gzip delegate -/

theorem gzRun_rejected (limit : Nat) (calls : List (Str × List Ans)) (g : GSt) (h : g.rejected = true) :
    gzRun limit calls g = g := by
  cases calls with
  | nil => rfl
  | cons c more => obtain ⟨chunk, script⟩ := c; simp [gzRun, h]

theorem gzRun_append (limit : Nat) (a b : List (Str × List Ans)) (g : GSt) :
    gzRun limit (a ++ b) g = gzRun limit b (gzRun limit a g) := by
  induction a generalizing g with
  | nil => rfl
  | cons c more ih =>
    obtain ⟨chunk, script⟩ := c
    by_cases hr : g.rejected = true
    · rw [gzRun_rejected limit _ g hr, gzRun_rejected limit _ g hr, gzRun_rejected limit _ g hr]
    · simp only [List.cons_append, gzRun, hr, Bool.false_eq_true, if_false]
      exact ih _

end TornadoModel.C04
