/- C04 — helper lemmas: the delivered-bytes invariant of the connection machine, the gzip loop invariant -/
import TornadoModel.C04.Spec
import TornadoModel.C01.Lemmas
namespace TornadoModel.C04
open TornadoModel.C01 TornadoModel.C04.Spec

/-! ### counting delivered bytes in the (merged) trace -/

def isData : Ev → Bool
  | .data _ _ => true
  | _ => false

theorem dataLen_pushEv_data (i j : Nat) (b : Str) (r : List Ev) :
    dataLen i (pushEv r (.data j b)) = dataLen i r + (if i = j then b.length else 0) := by
  cases r with
  | nil => simp [pushEv, dataLen]
  | cons e r' =>
    cases e with
    | data k a =>
      by_cases hjk : j = k
      · subst hjk
        by_cases hij : i = j
        · simp only [pushEv, hij, if_true, dataLen, List.length_append]; omega
        · simp only [pushEv, if_true, dataLen, hij, if_false]; omega
      · by_cases hij : i = j
        · simp only [pushEv, hjk, if_false, dataLen, hij, if_true]; omega
        · simp only [pushEv, hjk, if_false, dataLen, hij]; omega
    | _ => simp only [pushEv, dataLen]; omega

theorem dataLen_pushEv_ctl (i : Nat) (e : Ev) (r : List Ev) (h : isData e = false) :
    dataLen i (pushEv r e) = dataLen i r := by
  cases e <;> simp_all [pushEv, dataLen, isData]

theorem dataLen_emit (i : Nat) (s : St) (es : List Ev) (h : ∀ e ∈ es, isData e = false) :
    dataLen i (s.emit es).out = dataLen i s.out := by
  unfold St.emit
  simp only
  induction es generalizing s with
  | nil => rfl
  | cons e es ih =>
    simp only [List.foldl_cons]
    have h1 := h e (by simp)
    have h2 : ∀ x ∈ es, isData x = false := fun x hx => h x (by simp [hx])
    have := ih { s with out := pushEv s.out e } h2
    simp only at this
    rw [this, dataLen_pushEv_ctl i e s.out h1]

/-! ### the invariant -/

def PhaseOk (s : St) : Prop :=
  match s.phase with
  | .fixed rem => s.got + rem ≤ s.limit ∧ 1 ≤ s.idx
  | .chunkSize total => s.got = total ∧ total ≤ s.limit ∧ 1 ≤ s.idx
  | .chunkData rem total => s.got + rem = total ∧ total ≤ s.limit ∧ 1 ≤ s.idx
  | .chunkCrlf total => s.got = total ∧ total ≤ s.limit ∧ 1 ≤ s.idx
  | .lastCrlf => s.got ≤ s.limit ∧ 1 ≤ s.idx
  | .headers => s.got ≤ s.limit
  | .closed => s.got ≤ s.limit

structure Core (cfg : Cfg) (s : St) : Prop where
  future : ∀ i, s.idx ≤ i → dataLen i s.out = 0
  past : ∀ i, i + 1 < s.idx → dataLen i s.out ≤ effLimit cfg i
  cur : dataLen (s.idx - 1) s.out = s.got
  lim : 1 ≤ s.idx → s.limit = effLimit cfg (s.idx - 1)

def Inv (cfg : Cfg) (s : St) : Prop := Core cfg s ∧ PhaseOk s

theorem phaseOk_got_le {s : St} (h : PhaseOk s) : s.got ≤ s.limit := by
  unfold PhaseOk at h
  split at h <;> omega

theorem core_congr {cfg : Cfg} {s t : St} (h : Core cfg s) (ho : t.out = s.out) (hi : t.idx = s.idx)
    (hg : t.got = s.got) (hl : t.limit = s.limit) : Core cfg t := by
  constructor
  · intro i hi'; rw [ho]; exact h.future i (by omega)
  · intro i hi'; rw [ho]; exact h.past i (by omega)
  · rw [ho, hi, hg]; exact h.cur
  · intro h1; rw [hl, hi]; exact h.lim (by omega)

theorem core_emit {cfg : Cfg} {s : St} (es : List Ev) (h : Core cfg s) (hes : ∀ e ∈ es, isData e = false) :
    Core cfg (s.emit es) := by
  constructor
  · intro i hi; rw [dataLen_emit i s es hes]; exact h.future i hi
  · intro i hi; rw [dataLen_emit i s es hes]; exact h.past i hi
  · rw [dataLen_emit _ s es hes]; exact h.cur
  · exact h.lim

theorem core_deliver {cfg : Cfg} {s : St} (b : Str) (h : Core cfg s) (h1 : 1 ≤ s.idx) : Core cfg (s.deliver b) := by
  constructor
  · intro i hi
    show dataLen i (pushEv s.out (.data (s.idx - 1) b)) = 0
    rw [dataLen_pushEv_data, h.future i hi]
    have : i ≠ s.idx - 1 := by
      have : s.idx ≤ i := hi
      omega
    simp [this]
  · intro i hi
    show dataLen i (pushEv s.out (.data (s.idx - 1) b)) ≤ _
    rw [dataLen_pushEv_data]
    have hne : i ≠ s.idx - 1 := by
      have : i + 1 < s.idx := hi
      omega
    simp only [hne, if_false, Nat.add_zero]
    exact h.past i hi
  · show dataLen (s.idx - 1) (pushEv s.out (.data (s.idx - 1) b)) = s.got + b.length
    rw [dataLen_pushEv_data, h.cur]; simp
  · exact h.lim

theorem inv_reject400 {cfg : Cfg} {s : St} (r : Bool) (hc : Core cfg s) (hg : s.got ≤ s.limit) :
    Inv cfg (reject400 s r) := by
  refine ⟨?_, ?_⟩
  · have hc : Core cfg (s.emit (if r then [.w400, .closed, .connClose] else [.w400, .closed])) :=
      core_emit _ hc (by cases r <;> simp [isData])
    exact core_congr hc rfl rfl rfl rfl
  · show PhaseOk _
    unfold PhaseOk
    simp only [reject400_phase]
    exact hg

theorem inv_closeSilent {cfg : Cfg} {s : St} (r : Bool) (hc : Core cfg s) (hg : s.got ≤ s.limit) :
    Inv cfg (closeSilent s r) := by
  refine ⟨?_, ?_⟩
  · have hc : Core cfg (s.emit (if r then [.closed, .connClose] else [.closed])) :=
      core_emit _ hc (by cases r <;> simp [isData])
    exact core_congr hc rfl rfl rfl rfl
  · show PhaseOk _
    unfold PhaseOk
    simp only [closeSilent_phase]
    exact hg

/-- `finishReq` only needs the counters to be consistent, whatever the phase was -/
theorem inv_finishReq {cfg : Cfg} {s : St} (hc : Core cfg s) (hg : s.got ≤ s.limit) : Inv cfg (finishReq s) := by
  unfold finishReq
  by_cases hk : s.ka = true
  · simp only [hk, if_true]
    refine ⟨?_, ?_⟩
    · have : Core cfg (s.emit [.fin, .w200]) := core_emit _ hc (by simp [isData])
      exact core_congr this rfl rfl rfl rfl
    · show PhaseOk _
      unfold PhaseOk
      exact hg
  · simp only [hk, if_false]
    refine ⟨?_, ?_⟩
    · have : Core cfg (s.emit [.fin, .w200, .closed]) := core_emit _ hc (by simp [isData])
      exact core_congr this rfl rfl rfl rfl
    · show PhaseOk _
      unfold PhaseOk
      exact hg

theorem contentLength_le {limit : Nat} {h : Hdrs} {n : Nat} (hc : contentLength limit h = some (some n)) :
    n ≤ limit := by
  unfold contentLength at hc
  cases hg : hGet h kContentLength with
  | none => simp [hg] at hc
  | some v =>
    simp only [hg] at hc
    cases hp : clPick v with
    | none => simp [hp] at hc
    | some p =>
      simp only [hp] at hc
      cases hi : parseInt p with
      | none => simp [hi] at hc
      | some k =>
        simp only [hi] at hc
        by_cases hk : k > limit
        · simp [hk] at hc
        · simp only [hk, if_false, Option.some.injEq] at hc
          subst hc; omega

theorem bodyKind_fixed_le {limit : Nat} {h : Hdrs} {n : Nat} (hb : bodyKind limit h = some (.fixed n)) :
    n ≤ limit := by
  unfold bodyKind at hb
  cases hc : contentLength limit h with
  | none => simp [hc] at hb
  | some cl =>
    simp only [hc] at hb
    cases ht : teChunked h with
    | none => simp [ht] at hb
    | some b =>
      cases b with
      | true => simp [ht] at hb
      | false =>
        cases cl with
        | none => simp [ht] at hb
        | some m =>
          simp [ht] at hb
          subst hb
          exact contentLength_le hc

theorem inv_startReq {cfg : Cfg} {s : St} (m t v : Str) (h : Hdrs) (ka : Bool) (hi : Inv cfg s) :
    Inv cfg (startReq cfg s m t v h ka) := by
  have hgl := phaseOk_got_le hi.2
  -- the state right after `headers_received`
  have hcore : Core cfg (({ s with idx := s.idx + 1, ka := ka, limit := effLimit cfg s.idx, got := 0 } : St).emit
      (if hGet h kExpect = some k100Continue then [.req m t v (hAll h), .w100] else [.req m t v (hAll h)])) := by
    apply core_emit
    · constructor
      · intro i hi'; exact hi.1.future i (by simp only at hi'; omega)
      · intro i hi'
        simp only at hi'
        by_cases hlast : i + 1 = s.idx
        · have : i = s.idx - 1 := by omega
          rw [this, hi.1.cur, ← hi.1.lim (by omega)]
          exact hgl
        · exact hi.1.past i (by omega)
      · show dataLen (s.idx + 1 - 1) s.out = 0
        exact hi.1.future _ (by omega)
      · intro _; show effLimit cfg s.idx = effLimit cfg (s.idx + 1 - 1); simp
    · split <;> simp [isData]
  unfold startReq
  generalize hs1 : (({ s with idx := s.idx + 1, ka := ka, limit := effLimit cfg s.idx, got := 0 } : St).emit
      (if hGet h kExpect = some k100Continue then [.req m t v (hAll h), .w100] else [.req m t v (hAll h)])) = s1 at hcore ⊢
  have hg0 : s1.got = 0 := by rw [← hs1]; rfl
  have hl1 : s1.limit = effLimit cfg s.idx := by rw [← hs1]; rfl
  have hidx : 1 ≤ s1.idx := by rw [← hs1]; show 1 ≤ s.idx + 1; omega
  unfold startBody
  split
  · exact inv_reject400 true hcore (by omega)
  · exact inv_finishReq hcore (by omega)
  · exact inv_finishReq hcore (by omega)
  · next n hb =>
    refine ⟨core_congr hcore rfl rfl rfl rfl, ?_⟩
    have := bodyKind_fixed_le hb
    simp only [PhaseOk]
    omega
  · refine ⟨core_congr hcore rfl rfl rfl rfl, ?_⟩
    simp only [PhaseOk]
    omega


theorem inv_onHead {cfg : Cfg} {s : St} (blk : Str) (hi : Inv cfg s) : Inv cfg (onHead cfg s blk) := by
  have hgl := phaseOk_got_le hi.2
  unfold onHead
  split
  · exact inv_reject400 false hi.1 hgl
  · split
    · exact inv_reject400 false hi.1 hgl
    · split
      · exact inv_reject400 true hi.1 hgl
      · exact inv_startReq _ _ _ _ _ hi

theorem inv_setbuf {cfg : Cfg} {s : St} (b : Str) (hi : Inv cfg s) : Inv cfg { s with buf := b } :=
  ⟨core_congr hi.1 rfl rfl rfl rfl, by
    have := hi.2
    unfold PhaseOk at this ⊢
    exact this⟩

theorem inv_stepHeaders {cfg : Cfg} {s s' : St} (hi : Inv cfg s) (h : stepHeaders cfg s = some s') : Inv cfg s' := by
  have hgl := phaseOk_got_le hi.2
  unfold stepHeaders at h
  split at h
  · split at h
    · cases h; exact inv_closeSilent false hi.1 hgl
    · cases h; exact inv_onHead _ (inv_setbuf _ hi)
  · split at h
    · cases h; exact inv_closeSilent false hi.1 hgl
    · cases h

theorem core_takeBody {cfg : Cfg} {s : St} (k : Nat) (h : Core cfg s) (h1 : 1 ≤ s.idx) : Core cfg (takeBody s k) :=
  core_congr (core_deliver (s.buf.take k) h h1) rfl rfl rfl rfl

theorem inv_stepFixed {cfg : Cfg} {s s' : St} {rem : Nat} (hi : Inv cfg s) (hp : s.phase = .fixed rem)
    (h : stepFixed s rem = some s') : Inv cfg s' := by
  have hph := hi.2
  simp only [PhaseOk, hp] at hph
  unfold stepFixed at h
  split at h
  · cases h
  · split at h
    · next hr =>
      cases h
      apply inv_finishReq (core_takeBody _ hi.1 hph.2)
      show s.got + (s.buf.take rem).length ≤ s.limit
      rw [List.length_take]; omega
    · next hr =>
      cases h
      refine ⟨core_congr (core_takeBody _ hi.1 hph.2) rfl rfl rfl rfl, ?_⟩
      show PhaseOk _
      simp only [PhaseOk]
      show s.got + (s.buf.take s.buf.length).length + (rem - s.buf.length) ≤ s.limit ∧ 1 ≤ s.idx
      rw [List.length_take]; omega

theorem inv_stepChunkData {cfg : Cfg} {s s' : St} {rem total : Nat} (hi : Inv cfg s)
    (hp : s.phase = .chunkData rem total) (h : stepChunkData s rem total = some s') : Inv cfg s' := by
  have hph := hi.2
  simp only [PhaseOk, hp] at hph
  unfold stepChunkData at h
  split at h
  · cases h
  · split at h
    · next hr =>
      cases h
      refine ⟨core_congr (core_takeBody _ hi.1 hph.2.2) rfl rfl rfl rfl, ?_⟩
      show PhaseOk _
      simp only [PhaseOk]
      show s.got + (s.buf.take rem).length = total ∧ total ≤ s.limit ∧ 1 ≤ s.idx
      rw [List.length_take]; omega
    · next hr =>
      cases h
      refine ⟨core_congr (core_takeBody _ hi.1 hph.2.2) rfl rfl rfl rfl, ?_⟩
      show PhaseOk _
      simp only [PhaseOk]
      show s.got + (s.buf.take s.buf.length).length + (rem - s.buf.length) = total ∧ total ≤ s.limit ∧ 1 ≤ s.idx
      rw [List.length_take]; omega

theorem inv_stepChunkSize {cfg : Cfg} {s s' : St} {total : Nat} (hi : Inv cfg s)
    (hp : s.phase = .chunkSize total) (h : stepChunkSize s total = some s') : Inv cfg s' := by
  have hgl := phaseOk_got_le hi.2
  have hph := hi.2
  simp only [PhaseOk, hp] at hph
  unfold stepChunkSize at h
  split at h
  · split at h
    · cases h; exact inv_closeSilent true hi.1 hgl
    · split at h
      · cases h; exact inv_reject400 true hi.1 hgl
      · cases h
        refine ⟨core_congr hi.1 rfl rfl rfl rfl, ?_⟩
        show PhaseOk _
        simp only [PhaseOk]
        exact ⟨hgl, hph.2.2⟩
      · split at h
        · cases h; exact inv_reject400 true hi.1 hgl
        · next n _ hl =>
          cases h
          refine ⟨core_congr hi.1 rfl rfl rfl rfl, ?_⟩
          show PhaseOk _
          simp only [PhaseOk]
          refine ⟨?_, ?_, hph.2.2⟩
          · show s.got + (n + 1) = total + (n + 1); omega
          · omega
  · split at h
    · cases h; exact inv_closeSilent true hi.1 hgl
    · cases h

theorem inv_stepChunkCrlf {cfg : Cfg} {s s' : St} {total : Nat} (hi : Inv cfg s)
    (hp : s.phase = .chunkCrlf total) (h : stepChunkCrlf s total = some s') : Inv cfg s' := by
  have hgl := phaseOk_got_le hi.2
  have hph := hi.2
  simp only [PhaseOk, hp] at hph
  unfold stepChunkCrlf at h
  split at h
  · split at h
    · cases h
      refine ⟨core_congr hi.1 rfl rfl rfl rfl, ?_⟩
      show PhaseOk _
      simp only [PhaseOk]
      exact hph
    · cases h; exact inv_reject400 true hi.1 hgl
  · cases h

theorem inv_stepLastCrlf {cfg : Cfg} {s s' : St} (hi : Inv cfg s)
    (h : stepLastCrlf s = some s') : Inv cfg s' := by
  have hgl := phaseOk_got_le hi.2
  unfold stepLastCrlf at h
  split at h
  · split at h
    · cases h; exact inv_finishReq (core_congr hi.1 rfl rfl rfl rfl) hgl
    · cases h; exact inv_reject400 true hi.1 hgl
  · cases h

theorem inv_step {cfg : Cfg} {s s' : St} (hi : Inv cfg s) (h : step cfg s = some s') : Inv cfg s' := by
  unfold step at h
  cases hp : s.phase with
  | headers => simp only [hp] at h; exact inv_stepHeaders hi h
  | fixed rem => simp only [hp] at h; exact inv_stepFixed hi hp h
  | chunkSize total => simp only [hp] at h; exact inv_stepChunkSize hi hp h
  | chunkData rem total => simp only [hp] at h; exact inv_stepChunkData hi hp h
  | chunkCrlf total => simp only [hp] at h; exact inv_stepChunkCrlf hi hp h
  | lastCrlf => simp only [hp] at h; exact inv_stepLastCrlf hi h
  | closed => simp [hp] at h

theorem inv_drain {cfg : Cfg} (s : St) (hi : Inv cfg s) : Inv cfg (drain cfg s) := by
  generalize hn : s.buf.length = n
  induction n using Nat.strongRecOn generalizing s with
  | _ n ih =>
    cases hs : step cfg s with
    | none => rw [drain_of_none hs]; exact hi
    | some s' =>
      rw [drain_of_some hs]
      exact ih _ (by have := step_lt hs; omega) s' (inv_step hi hs) rfl

theorem inv_app {cfg : Cfg} (s : St) (c : Str) (hi : Inv cfg s) : Inv cfg (s.app c) := by
  by_cases hp : s.phase = .closed
  · rw [app_of_closed c hp]; exact hi
  · rw [app_of_open c hp]; exact inv_setbuf _ hi

theorem inv_feed {cfg : Cfg} (s : St) (c : Str) (hi : Inv cfg s) : Inv cfg (feed cfg s c) :=
  inv_drain _ (inv_app s c hi)

theorem inv_init (cfg : Cfg) : Inv cfg init :=
  ⟨⟨fun _ _ => rfl, fun i hi => by simp [init] at hi, rfl, fun h => by simp [init] at h⟩, by simp [PhaseOk, init]⟩

theorem inv_run {cfg : Cfg} (s : St) (segs : List Str) (hi : Inv cfg s) : Inv cfg (run cfg s segs) := by
  induction segs generalizing s with
  | nil => exact hi
  | cons a rest ih => exact ih _ (inv_feed s a hi)

theorem inv_bound {cfg : Cfg} {s : St} (hi : Inv cfg s) (i : Nat) : dataLen i s.out ≤ effLimit cfg i := by
  have hgl := phaseOk_got_le hi.2
  by_cases h1 : s.idx ≤ i
  · rw [hi.1.future i h1]; exact Nat.zero_le _
  · by_cases h2 : i + 1 < s.idx
    · exact hi.1.past i h2
    · have : i = s.idx - 1 := by omega
      rw [this, hi.1.cur, ← hi.1.lim (by omega)]
      exact hgl

/-! ### the gzip loop -/

theorem total_append (l : List Str) (x : Str) : total (l ++ [x]) = total l + x.length := by
  simp [total]

def GInv (limit : Nat) (g : GSt) : Prop :=
  total g.delivered ≤ limit ∧ (g.rejected = false → g.size = total g.delivered)

theorem ginv_loop (limit : Nat) (script : List Ans) (g : GSt) (comp : Str) (h : GInv limit g)
    (hr : g.rejected = false) : GInv limit (gzLoop limit script g comp).1 := by
  induction script generalizing g comp with
  | nil => simpa [gzLoop] using h
  | cons a rest ih =>
    obtain ⟨out, tl⟩ := a
    unfold gzLoop
    by_cases hc : comp.isEmpty = true
    · simpa [hc] using h
    · simp only [hc, Bool.false_eq_true, if_false]
      by_cases hover : (!out.isEmpty && decide (g.size + out.length > limit)) = true
      · simp only [hover, if_true]
        exact ⟨h.1, by simp⟩
      · simp only [hover, Bool.false_eq_true, if_false]
        have hsz := h.2 hr
        -- the state after a possible delivery
        have hg' : GInv limit (if out.isEmpty then g else { g with size := g.size + out.length, delivered := g.delivered ++ [out] }) ∧
            (if out.isEmpty then g else { g with size := g.size + out.length, delivered := g.delivered ++ [out] }).rejected = false := by
          by_cases ho : out.isEmpty = true
          · simp only [ho, if_true]; exact ⟨h, hr⟩
          · simp only [ho, Bool.false_eq_true, if_false]
            simp only [ho, Bool.not_false, Bool.true_and, decide_eq_true_eq] at hover
            refine ⟨⟨?_, fun _ => ?_⟩, hr⟩
            · rw [total_append]; omega
            · rw [total_append]; show g.size + out.length = _; omega
        split
        · exact ⟨hg'.1.1, by simp⟩
        · exact ih _ _ hg'.1 hg'.2

theorem ginv_run (limit : Nat) (calls : List (Str × List Ans)) (g : GSt) (h : GInv limit g) :
    GInv limit (gzRun limit calls g) := by
  induction calls generalizing g with
  | nil => exact h
  | cons c more ih =>
    obtain ⟨chunk, script⟩ := c
    unfold gzRun
    by_cases hr : g.rejected = true
    · simpa [hr] using h
    · simp only [hr, Bool.false_eq_true, if_false]
      exact ih _ (ginv_loop limit script g chunk h (by simpa using hr))

end TornadoModel.C04
