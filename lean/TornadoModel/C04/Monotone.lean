/-
C04 — raising the limits does not change a run that never hit them: a forward simulation between the machine under
`cfg` and under `cfg'` (same `noKeepAlive`, larger header and body limits).  The two states agree on everything except
the stored body limit (`St.limit`), as long as the run under `cfg` has not closed the connection.
-/
import TornadoModel.C01.Ext
namespace TornadoModel.C04
open TornadoModel.C01

/-- the same state with another stored body limit -/
def setL (s : St) (l : Nat) : St := { s with limit := l }

@[simp] theorem setL_out (s : St) (l : Nat) : (setL s l).out = s.out := rfl
@[simp] theorem setL_phase (s : St) (l : Nat) : (setL s l).phase = s.phase := rfl
@[simp] theorem setL_buf (s : St) (l : Nat) : (setL s l).buf = s.buf := rfl
@[simp] theorem setL_limit (s : St) (l : Nat) : (setL s l).limit = l := rfl
@[simp] theorem setL_setL (s : St) (l l' : Nat) : setL (setL s l) l' = setL s l' := rfl

theorem setL_emit (s : St) (l : Nat) (es : List Ev) : (setL s l).emit es = setL (s.emit es) l := rfl
theorem setL_reject400 (s : St) (l : Nat) (r : Bool) : reject400 (setL s l) r = setL (reject400 s r) l := rfl
theorem setL_closeSilent (s : St) (l : Nat) (r : Bool) : closeSilent (setL s l) r = setL (closeSilent s r) l := rfl
theorem setL_takeBody (s : St) (l : Nat) (k : Nat) : takeBody (setL s l) k = setL (takeBody s k) l := rfl

theorem setL_finishReq (s : St) (l : Nat) : finishReq (setL s l) = setL (finishReq s) l := by
  unfold finishReq
  by_cases hk : s.ka = true
  · have : (setL s l).ka = true := hk
    simp only [hk, this, if_true]; rfl
  · have : ¬ (setL s l).ka = true := hk
    simp only [hk, this, if_false]; rfl

theorem setL_startBody (s : St) (l : Nat) (k : Option BodyKind) : startBody (setL s l) k = setL (startBody s k) l := by
  unfold startBody
  split
  · rfl
  · exact setL_finishReq s l
  · exact setL_finishReq s l
  · rfl
  · rfl

theorem finishReq_limit (s : St) : (finishReq s).limit = s.limit := by
  unfold finishReq
  split <;> rfl

theorem startBody_limit (s : St) (k : Option BodyKind) : (startBody s k).limit = s.limit := by
  unfold startBody
  split <;> first | rfl | exact finishReq_limit _

theorem closed_mem_reject400 (s : St) (r : Bool) : Ev.closed ∈ (reject400 s r).out := by
  cases r <;> simp [reject400, St.emit, pushEv]

theorem closed_mem_closeSilent (s : St) (r : Bool) : Ev.closed ∈ (closeSilent s r).out := by
  cases r <;> simp [closeSilent, St.emit, pushEv]

theorem closed_nd : ∀ (i : Nat) (x : Str), Ev.closed ≠ Ev.data i x := by intro i x h; cases h

/-! ### the body-framing decision is monotone in the limit -/

theorem contentLength_mono {l l' : Nat} {h : Hdrs} {r : Option Nat} (hc : contentLength l h = some r) (hl : l ≤ l') :
    contentLength l' h = some r := by
  unfold contentLength at hc ⊢
  split at hc
  · exact hc
  · split at hc
    · cases hc
    · split at hc
      · cases hc
      · next n _ =>
        split at hc
        · cases hc
        · next hn =>
          have : ¬ n > l' := by omega
          simp only [this, if_false]
          exact hc

theorem bodyKind_mono {l l' : Nat} {h : Hdrs} {k : BodyKind} (hb : bodyKind l h = some k) (hl : l ≤ l') :
    bodyKind l' h = some k := by
  unfold bodyKind at hb ⊢
  cases hc : contentLength l h with
  | none => simp [hc] at hb
  | some r =>
    rw [contentLength_mono hc hl]
    simpa [hc] using hb

/-! ### one resumption -/

section
variable {cfg cfg' : Cfg} (hnk : cfg.noKeepAlive = cfg'.noKeepAlive) (hmh : cfg.maxHeader ≤ cfg'.maxHeader)
  (hlim : ∀ i, effLimit cfg i ≤ effLimit cfg' i)
include hnk hmh hlim

theorem sim_onHead (s : St) (l : Nat) (blk : Str) (hnc : Ev.closed ∉ (onHead cfg s blk).out) :
    ∃ l', (onHead cfg s blk).limit ≤ l' ∧ onHead cfg' (setL s l) blk = setL (onHead cfg s blk) l' := by
  unfold onHead at hnc ⊢
  cases hph : parseHead blk with
  | none => simp only [hph] at hnc; exact absurd (closed_mem_reject400 _ _) hnc
  | some p =>
    obtain ⟨⟨m, t, v⟩, h⟩ := p
    simp only [hph] at hnc ⊢
    rw [← hnk]
    cases hka : canKeepAlive cfg.noKeepAlive m v h with
    | none => simp only [hka] at hnc; exact absurd (closed_mem_reject400 _ _) hnc
    | some ka =>
      simp only [hka] at hnc ⊢
      cases hho : hostCheck v h with
      | none => simp only [hho] at hnc; exact absurd (closed_mem_reject400 _ _) hnc
      | some host =>
        simp only [hho] at hnc ⊢
        unfold startReq at hnc ⊢
        cases hbk : bodyKind (effLimit cfg s.idx) h with
        | none => simp only [hbk] at hnc; exact absurd (closed_mem_reject400 _ _) hnc
        | some k =>
          have hbk' : bodyKind (effLimit cfg' (setL s l).idx) h = some k := bodyKind_mono hbk (hlim s.idx)
          rw [hbk']
          refine ⟨effLimit cfg' s.idx, ?_, ?_⟩
          · rw [startBody_limit]; exact hlim s.idx
          · exact setL_startBody
              (({ s with idx := s.idx + 1, ka := ka, limit := effLimit cfg s.idx, got := 0 } : St).emit
                (if hGet h kExpect = some k100Continue then [.req m t v (hAll h), .w100] else [.req m t v (hAll h)]))
              (effLimit cfg' s.idx) (some k)

omit hnk hmh hlim in
/-- the phases that look neither at `cfg` nor at the stored limit -/
theorem step_setL_body (c1 c2 : Cfg) (s : St) (l : Nat) (hh : s.phase ≠ .headers) (hc : ∀ total, s.phase ≠ .chunkSize total) :
    step c2 (setL s l) = (step c1 s).map (fun t => setL t l) ∧ ∀ t, step c1 s = some t → t.limit = s.limit := by
  obtain ⟨ph, bf, ix, lm, ka, gt, out⟩ := s
  cases ph with
  | headers => exact absurd rfl hh
  | chunkSize total => exact absurd rfl (hc total)
  | closed => simp [step, setL]
  | fixed rem =>
    simp only [step, stepFixed, setL]
    by_cases h0 : (bf.isEmpty || rem == 0) = true
    · simp [h0]
    · by_cases h1 : rem ≤ bf.length
      · simp only [h0, h1, if_true, if_false, Option.map_some]
        refine ⟨?_, ?_⟩
        · exact congrArg some (setL_finishReq (takeBody ⟨.fixed rem, bf, ix, lm, ka, gt, out⟩ rem) l)
        · intro t ht; cases ht; exact finishReq_limit _
      · simp only [h0, h1, if_false, Option.map_some]
        refine ⟨by first | rfl | trivial, ?_⟩
        intro t ht; cases ht; rfl
  | chunkData rem total =>
    simp only [step, stepChunkData, setL]
    by_cases h0 : (bf.isEmpty || rem == 0) = true
    · simp [h0]
    · by_cases h1 : rem ≤ bf.length
      · simp only [h0, h1, if_true, if_false, Option.map_some]
        refine ⟨by first | rfl | trivial, ?_⟩
        intro t ht; cases ht; rfl
      · simp only [h0, h1, if_false, Option.map_some]
        refine ⟨by first | rfl | trivial, ?_⟩
        intro t ht; cases ht; rfl
  | chunkCrlf total =>
    simp only [step, stepChunkCrlf, setL]
    match bf with
    | [] => simp
    | [_] => simp
    | a :: b :: rest =>
      by_cases h1 : a = 13 ∧ b = 10
      · simp only [h1, and_self, if_true, Option.map_some]
        refine ⟨by first | rfl | trivial, ?_⟩
        intro t ht; cases ht; rfl
      · simp only [h1, if_false, Option.map_some]
        refine ⟨by first | rfl | trivial, ?_⟩
        intro t ht; cases ht; rfl
  | lastCrlf =>
    simp only [step, stepLastCrlf, setL]
    match bf with
    | [] => simp
    | [_] => simp
    | a :: b :: rest =>
      by_cases h1 : a = 13 ∧ b = 10
      · simp only [h1, and_self, if_true, Option.map_some]
        refine ⟨?_, ?_⟩
        · exact congrArg some (setL_finishReq ⟨.lastCrlf, rest, ix, lm, ka, gt, out⟩ l)
        · intro t ht; cases ht; exact finishReq_limit _
      · simp only [h1, if_false, Option.map_some]
        refine ⟨by first | rfl | trivial, ?_⟩
        intro t ht; cases ht; rfl

theorem sim_step {s t : St} {l : Nat} (hl : s.limit ≤ l) (hs : step cfg s = some t) (hnc : Ev.closed ∉ t.out) :
    ∃ l', t.limit ≤ l' ∧ step cfg' (setL s l) = some (setL t l') := by
  by_cases hh : s.phase = .headers
  · unfold step at hs ⊢
    simp only [hh, setL_phase, stepHeaders] at hs ⊢
    show ∃ l', t.limit ≤ l' ∧ (match findHeadEnd s.buf with
      | some k => if k > cfg'.maxHeader then some (closeSilent (setL s l) false)
          else some (onHead cfg' { (setL s l) with buf := s.buf.drop k } (s.buf.take k))
      | none => if s.buf.length > cfg'.maxHeader then some (closeSilent (setL s l) false) else none) = some (setL t l')
    cases hfe : findHeadEnd s.buf with
    | none =>
      simp only [hfe] at hs
      split at hs
      · cases hs; exact absurd (closed_mem_closeSilent _ _) hnc
      · cases hs
    | some k =>
      simp only [hfe] at hs ⊢
      by_cases hk : k > cfg.maxHeader
      · simp only [if_pos hk] at hs; cases hs; exact absurd (closed_mem_closeSilent _ _) hnc
      · simp only [if_neg hk] at hs
        cases hs
        have hk' : ¬ k > cfg'.maxHeader := by omega
        simp only [if_neg hk']
        obtain ⟨l', h1, h2⟩ := sim_onHead hnk hmh hlim { s with buf := s.buf.drop k } l (s.buf.take k) hnc
        exact ⟨l', h1, congrArg some h2⟩
  · by_cases hc : ∃ total, s.phase = .chunkSize total
    · obtain ⟨total, hp⟩ := hc
      obtain ⟨ph, bf, ix, lm, ka, gt, out⟩ := s
      simp only at hp hl
      subst hp
      simp only [step, stepChunkSize, setL] at hs ⊢
      cases hloc : findCrlf bf with
      | none =>
        simp only [hloc] at hs
        split at hs
        · cases hs; exact absurd (closed_mem_closeSilent _ _) hnc
        · cases hs
      | some loc =>
        simp only [hloc] at hs ⊢
        by_cases hlong : loc + 2 > chunkLineMax
        · simp only [if_pos hlong] at hs; cases hs; exact absurd (closed_mem_closeSilent _ _) hnc
        · simp only [if_neg hlong] at hs ⊢
          cases hsz : parseHexInt (bf.take loc) with
          | none => simp only [hsz] at hs; cases hs; exact absurd (closed_mem_reject400 _ _) hnc
          | some sz =>
            cases sz with
            | zero =>
              simp only [hsz] at hs ⊢
              cases hs
              exact ⟨l, hl, rfl⟩
            | succ n =>
              simp only [hsz] at hs ⊢
              by_cases hbig : total + (n + 1) > lm
              · simp only [if_pos hbig] at hs; cases hs; exact absurd (closed_mem_reject400 _ _) hnc
              · simp only [if_neg hbig] at hs
                cases hs
                have : ¬ total + (n + 1) > l := by omega
                exact ⟨l, hl, if_neg this⟩
    · have hc' : ∀ total, s.phase ≠ .chunkSize total := fun total hp => hc ⟨total, hp⟩
      obtain ⟨h1, h2⟩ := step_setL_body cfg cfg' s l hh hc'
      refine ⟨l, ?_, ?_⟩
      · rw [h2 t hs]; exact hl
      · rw [h1, hs]; rfl

omit hnk hlim in
theorem sim_step_none {s : St} (l : Nat) (hs : step cfg s = none) : step cfg' (setL s l) = none := by
  by_cases hh : s.phase = .headers
  · obtain ⟨ph, bf, ix, lm, ka, gt, out⟩ := s
    simp only at hh
    subst hh
    simp only [step, stepHeaders, setL] at hs ⊢
    cases hfe : findHeadEnd bf with
    | none =>
      simp only [hfe] at hs ⊢
      split at hs
      · cases hs
      · next h1 =>
        have h2 : ¬ bf.length > cfg'.maxHeader := by omega
        exact if_neg h2
    | some k =>
      simp only [hfe] at hs
      split at hs <;> cases hs
  · by_cases hc : ∃ total, s.phase = .chunkSize total
    · obtain ⟨total, hp⟩ := hc
      obtain ⟨ph, bf, ix, lm, ka, gt, out⟩ := s
      simp only at hp
      subst hp
      simp only [step, stepChunkSize, setL] at hs ⊢
      cases hloc : findCrlf bf with
      | none =>
        simp only [hloc] at hs ⊢
        split at hs
        · cases hs
        · next h1 => exact if_neg h1
      | some loc =>
        simp only [hloc] at hs
        split at hs
        · cases hs
        · split at hs
          · cases hs
          · cases hs
          · split at hs <;> cases hs
    · have hc' : ∀ total, s.phase ≠ .chunkSize total := fun total hp => hc ⟨total, hp⟩
      rw [(step_setL_body cfg cfg' s l hh hc').1, hs]; rfl

/-! ### drain, feed, run -/

theorem sim_drain : ∀ (s : St) (l : Nat), s.limit ≤ l → Ev.closed ∉ (drain cfg s).out →
    ∃ l', (drain cfg s).limit ≤ l' ∧ drain cfg' (setL s l) = setL (drain cfg s) l' := by
  intro s
  generalize hn : s.buf.length = n
  induction n using Nat.strongRecOn generalizing s with
  | _ n ih =>
    intro l hl hnc
    cases hs : step cfg s with
    | none =>
      rw [drain_of_none hs]
      rw [drain_of_none (sim_step_none hmh l hs)]
      exact ⟨l, hl, rfl⟩
    | some t =>
      rw [drain_of_some hs] at hnc ⊢
      have hnt : Ev.closed ∉ t.out := fun hc => hnc (ext_mem (ext_drain cfg t) hc closed_nd)
      obtain ⟨l1, h1, h2⟩ := sim_step hnk hmh hlim hl hs hnt
      rw [drain_of_some h2]
      exact ih _ (by have := step_lt hs; omega) t rfl l1 h1 hnc

omit hnk hmh hlim in
theorem setL_app (s : St) (l : Nat) (c : Str) : (setL s l).app c = setL (s.app c) l := by
  cases hp : s.phase <;> simp [St.app, setL, hp]

theorem sim_run : ∀ (segs : List Str) (s : St) (l : Nat), s.limit ≤ l → Ev.closed ∉ (run cfg s segs).out →
    ∃ l', run cfg' (setL s l) segs = setL (run cfg s segs) l' := by
  intro segs
  induction segs with
  | nil => intro s l _ _; exact ⟨l, rfl⟩
  | cons a rest ih =>
    intro s l hl hnc
    simp only [run] at hnc ⊢
    have hnf : Ev.closed ∉ (feed cfg s a).out := fun hc => hnc (ext_mem (ext_run cfg _ rest) hc closed_nd)
    have hl' : (s.app a).limit ≤ l := by
      cases hp : s.phase <;> simpa [St.app, hp] using hl
    obtain ⟨l1, h1, h2⟩ := sim_drain hnk hmh hlim (s.app a) l hl' hnf
    have : feed cfg' (setL s l) a = setL (feed cfg s a) l1 := by
      unfold feed
      rw [setL_app]; exact h2
    rw [this]
    exact ih _ l1 h1 hnc

end

/-! ### concrete inputs for the non-vacuity examples in Props.lean -/

def smallCfg : Cfg := { maxBody := 3, overrides := [some 5] }
def fiveByteReq : Str :=
  [80, 32, 47, 32, 72, 84, 84, 80, 47, 49, 46, 49, 10, 72, 111, 115, 116, 58, 120, 10, 67, 111, 110, 116, 101, 110, 116, 45,
   76, 101, 110, 103, 116, 104, 58, 53, 10, 10, 1, 2, 3, 4, 5]

end TornadoModel.C04
