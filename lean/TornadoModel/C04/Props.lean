/-
C04 — property theorems: server size limits bound what a peer can make the application buffer.
The connection machine (`run`, `step`, `Cfg`) is the one of C01; `dataLen i trace` (C04/Spec.lean) is the number of
body bytes handed to the application for request number `i`.
-/
import TornadoModel.C04.Lemmas
import TornadoModel.C04.Monotone
import TornadoModel.C04.RunLevel
import TornadoModel.C04.GzProduced
import TornadoModel.C04.Within
namespace TornadoModel.C04
open TornadoModel.C01 TornadoModel.C04.Spec

/-! ## the application is handed at most `max_body_size` (or the per-request override) body bytes -/

/-- for every configuration, byte stream and segmentation, every request `i` receives at most its effective limit
    (Content-Length and chunked bodies; the check precedes delivery on every path) -/
theorem delivered_le_limit (cfg : Cfg) (segs : List Str) (i : Nat) :
    dataLen i (run cfg init segs).out ≤ effLimit cfg i :=
  inv_bound (inv_run init segs (inv_init cfg)) i

/-- the same after the peer's EOF -/
theorem delivered_le_limit_eof (cfg : Cfg) (segs : List Str) (i : Nat) :
    dataLen i (eof (run cfg init segs)).out ≤ effLimit cfg i := by
  have h := delivered_le_limit cfg segs i
  have e : dataLen i (eof (run cfg init segs)).out = dataLen i (run cfg init segs).out := by
    unfold eof
    split
    · rfl
    · exact dataLen_emit i _ _ (by simp [isData])
    · exact dataLen_emit i _ _ (by simp [isData])
  rw [e]; exact h

/-- the executable oracle used on the implementation's traces agrees -/
theorem withinLimits_run (cfg : Cfg) (segs : List Str) (n : Nat) :
    withinLimits cfg (run cfg init segs).out n = true := by
  simp only [withinLimits, List.all_eq_true, decide_eq_true_eq]
  intro i _
  exact delivered_le_limit cfg segs i

-- non-vacuity: limit 3, override 5 for the first request; a 5-byte body passes, a chunked 4-byte body is refused
example : (run { maxBody := 3, overrides := [some 5] } init
    [[80, 32, 47, 32, 72, 84, 84, 80, 47, 49, 46, 49, 10, 72, 111, 115, 116, 58, 120, 10, 67, 111, 110, 116, 101, 110, 116, 45,
      76, 101, 110, 103, 116, 104, 58, 53, 10, 10, 1, 2, 3, 4, 5]]).out.head? = some Ev.w200 := by decide

/-- gzip: whatever the decompressor answers (any outputs, any unconsumed tails, any number of calls), the
    wrapped delegate is handed at most `limit` bytes -/
theorem gz_delivered_le_limit (limit : Nat) (calls : List (Str × List Ans)) :
    total (gzRun limit calls {}).delivered ≤ limit :=
  (ginv_run limit calls {} ⟨by simp [total], fun _ => by simp [total]⟩).1

/-! ## oversize is refused and the connection closed -/

/-- a header block whose terminator ends beyond `max_header_size` closes the connection -/
theorem header_oversize_closed (cfg : Cfg) (s : St) (k : Nat) (hp : s.phase = .headers)
    (hk : findHeadEnd s.buf = some k) (hbig : k > cfg.maxHeader) :
    step cfg s = some (closeSilent s false) := by
  simp [step, hp, stepHeaders, hk, hbig]

/-- so does a buffer that holds more than `max_header_size` bytes without a terminator -/
theorem header_unterminated_closed (cfg : Cfg) (s : St) (hp : s.phase = .headers)
    (hk : findHeadEnd s.buf = none) (hbig : s.buf.length > cfg.maxHeader) :
    step cfg s = some (closeSilent s false) := by
  simp [step, hp, stepHeaders, hk, hbig]

/-- exactness: a header block of exactly `max_header_size` bytes is processed -/
theorem header_at_limit_ok (cfg : Cfg) (s : St) (k : Nat) (hp : s.phase = .headers)
    (hk : findHeadEnd s.buf = some k) (hfit : k ≤ cfg.maxHeader) :
    step cfg s = some (onHead cfg { s with buf := s.buf.drop k } (s.buf.take k)) := by
  have : ¬ k > cfg.maxHeader := by omega
  simp [step, hp, stepHeaders, hk, this]

/-- a declared length above the limit is an HTTPInputError (400, closed) … -/
theorem cl_oversize_rejected (limit n : Nat) (h : Hdrs) (v : Str)
    (hcl : hGet h kContentLength = some v) (hv : clPick v = some v) (hn : parseInt v = some n) (hbig : n > limit) :
    bodyKind limit h = none := by
  simp [bodyKind, contentLength, hcl, hv, hn, hbig]

/-- … and exactly the limit is accepted (off-by-one exact) -/
theorem cl_at_limit_ok (limit n : Nat) (h : Hdrs) (v : Str)
    (hcl : hGet h kContentLength = some v) (hv : clPick v = some v) (hn : parseInt v = some n) (hfit : n ≤ limit)
    (hte : hGet h kTransferEncoding = none) :
    bodyKind limit h = some (.fixed n) := by
  have : ¬ n > limit := by omega
  simp [bodyKind, contentLength, teChunked, hcl, hv, hn, this, hte]

/-- `startBody` turns the HTTPInputError into 400 + close -/
theorem oversize_body_closed (s : St) : (startBody s none).phase = .closed ∧ Ev.w400 ∈ (startBody s none).out := by
  simp [startBody, reject400, St.emit, pushEv]

/-- a chunk that would push the running total over the limit is refused before any of its bytes is delivered -/
theorem chunk_oversize_rejected (cfg : Cfg) (s : St) (total loc n : Nat) (hp : s.phase = .chunkSize total)
    (hloc : findCrlf s.buf = some loc) (hshort : loc + 2 ≤ chunkLineMax)
    (hsz : parseHexInt (s.buf.take loc) = some (n + 1)) (hbig : total + (n + 1) > s.limit) :
    step cfg s = some (reject400 s true) := by
  have : ¬ loc + 2 > chunkLineMax := by omega
  simp [step, hp, stepChunkSize, hloc, this, hsz, hbig]

/-- … and a chunk that reaches the limit exactly is accepted -/
theorem chunk_at_limit_ok (cfg : Cfg) (s : St) (total loc n : Nat) (hp : s.phase = .chunkSize total)
    (hloc : findCrlf s.buf = some loc) (hshort : loc + 2 ≤ chunkLineMax)
    (hsz : parseHexInt (s.buf.take loc) = some (n + 1)) (hfit : total + (n + 1) ≤ s.limit) :
    step cfg s = some { s with buf := s.buf.drop (loc + 2), phase := .chunkData (n + 1) (total + (n + 1)) } := by
  have h1 : ¬ loc + 2 > chunkLineMax := by omega
  have h2 : ¬ total + (n + 1) > s.limit := by omega
  simp [step, hp, stepChunkSize, hloc, h1, hsz, h2]

/-- gzip: an answer that would take the decompressed size over the limit raises HTTPInputError and nothing of it is
    delivered -/
theorem gz_oversize_rejected (limit : Nat) (g : GSt) (comp out : Str) (tl : Nat) (rest : List Ans)
    (hc : comp ≠ []) (ho : out ≠ []) (hbig : g.size + out.length > limit) :
    (gzLoop limit ((out, tl) :: rest) g comp).1.rejected = true ∧
      (gzLoop limit ((out, tl) :: rest) g comp).1.delivered = g.delivered := by
  have h1 : comp.isEmpty = false := by simpa using hc
  have h2 : out.isEmpty = false := by simpa using ho
  simp [gzLoop, h1, h2, hbig]

example : (gzRun 5 [([1, 2, 3], [([9, 9, 9], 1), ([9, 9, 9], 0)])] {}).rejected = true ∧
    (gzRun 5 [([1, 2, 3], [([9, 9, 9], 1), ([9, 9, 9], 0)])] {}).delivered = [[9, 9, 9]] := by decide

/-! ## run level: the oversize message of a stream is refused, whatever precedes it and however it is segmented

The lemmas above look at one resumption of the machine.  The theorems below are about whole runs: `pre` is any input that
brings the connection to a message boundary (`phase = headers` — before the first request or after any number of served
ones) or to a chunk-size line, `segs` is *any* segmentation of whatever the peer sends next (the offending message and
anything behind it).  The conclusion is the exact trace: nothing but the refusal is appended to what the application and
the peer had seen before, i.e. no `data` and no `fin` for the refused message, `closed` is in the trace, and the
connection stays closed.  (`run_eq_feed`: a run over any segmentation is one drain of the joined buffer.) -/

/-- header block: if the first `\n\r?\n` of what follows ends beyond `max_header_size`, or there is none within more than
    `max_header_size` bytes, the connection is closed, no request is started and nothing is written -/
theorem run_header_oversize_closed (cfg : Cfg) (pre segs : List Str)
    (hp : (run cfg init pre).phase = .headers)
    (hbig : (∃ k, findHeadEnd ((run cfg init pre).buf ++ segs.flatten) = some k ∧ k > cfg.maxHeader) ∨
      (findHeadEnd ((run cfg init pre).buf ++ segs.flatten) = none ∧
        ((run cfg init pre).buf ++ segs.flatten).length > cfg.maxHeader)) :
    (run cfg init (pre ++ segs)).phase = .closed ∧
      (run cfg init (pre ++ segs)).out = .closed :: (run cfg init pre).out := by
  rw [run_append]
  exact run_header_oversize_gen cfg _ segs (step_run_init cfg pre) hp hbig

/-- in particular the first message of a connection -/
theorem run_header_oversize_first (cfg : Cfg) (segs : List Str)
    (hbig : (∃ k, findHeadEnd segs.flatten = some k ∧ k > cfg.maxHeader) ∨
      (findHeadEnd segs.flatten = none ∧ segs.flatten.length > cfg.maxHeader)) :
    (run cfg init segs).phase = .closed ∧ (run cfg init segs).out = [.closed] :=
  run_header_oversize_closed cfg [] segs rfl (by simpa [run, init] using hbig)

/-- any request whose framing `_read_body` refuses (`bodyKind … = none`) under the effective limit of *its* position in
    the stream: the head is announced (`req`, `100 Continue` if asked for), then 400, close, `on_connection_close`;
    no body byte is delivered and the request is never finished -/
theorem run_body_refused (cfg : Cfg) (pre segs : List Str) (k : Nat) (m t v : Str) (h : Hdrs) (ka : Bool) (hostv : Str)
    (hp : (run cfg init pre).phase = .headers)
    (hk : findHeadEnd ((run cfg init pre).buf ++ segs.flatten) = some k) (hfit : k ≤ cfg.maxHeader)
    (hparse : parseHead (((run cfg init pre).buf ++ segs.flatten).take k) = some ((m, t, v), h))
    (hka : canKeepAlive cfg.noKeepAlive m v h = some ka) (hhost : hostCheck v h = some hostv)
    (hbody : bodyKind (effLimit cfg (run cfg init pre).idx) h = none) :
    (run cfg init (pre ++ segs)).phase = .closed ∧
      (run cfg init (pre ++ segs)).out = [.connClose, .closed, .w400] ++
        (if hGet h kExpect = some k100Continue then [Ev.w100] else []) ++
          .req m t v (hAll h) :: (run cfg init pre).out := by
  rw [run_append]
  exact run_body_refused_gen cfg _ segs (step_run_init cfg pre) hp k m t v h ka hostv hk hfit hparse hka hhost hbody

/-- Content-Length above `max_body_size` (or the override the delegate set for this request) -/
theorem run_cl_oversize_refused (cfg : Cfg) (pre segs : List Str) (k : Nat) (m t v : Str) (h : Hdrs) (ka : Bool)
    (hostv cv : Str) (n : Nat)
    (hp : (run cfg init pre).phase = .headers)
    (hk : findHeadEnd ((run cfg init pre).buf ++ segs.flatten) = some k) (hfit : k ≤ cfg.maxHeader)
    (hparse : parseHead (((run cfg init pre).buf ++ segs.flatten).take k) = some ((m, t, v), h))
    (hka : canKeepAlive cfg.noKeepAlive m v h = some ka) (hhost : hostCheck v h = some hostv)
    (hcl : hGet h kContentLength = some cv) (hv : clPick cv = some cv) (hn : parseInt cv = some n)
    (hbig : n > effLimit cfg (run cfg init pre).idx) :
    (run cfg init (pre ++ segs)).phase = .closed ∧
      (run cfg init (pre ++ segs)).out = [.connClose, .closed, .w400] ++
        (if hGet h kExpect = some k100Continue then [Ev.w100] else []) ++
          .req m t v (hAll h) :: (run cfg init pre).out :=
  run_body_refused cfg pre segs k m t v h ka hostv hp hk hfit hparse hka hhost
    (cl_oversize_rejected _ n h cv hcl hv hn hbig)

/-- … so the refused request is handed no body byte, and the trace contains `closed` -/
theorem run_cl_oversize_no_data (cfg : Cfg) (pre segs : List Str) (k : Nat) (m t v : Str) (h : Hdrs) (ka : Bool)
    (hostv cv : Str) (n : Nat)
    (hp : (run cfg init pre).phase = .headers)
    (hk : findHeadEnd ((run cfg init pre).buf ++ segs.flatten) = some k) (hfit : k ≤ cfg.maxHeader)
    (hparse : parseHead (((run cfg init pre).buf ++ segs.flatten).take k) = some ((m, t, v), h))
    (hka : canKeepAlive cfg.noKeepAlive m v h = some ka) (hhost : hostCheck v h = some hostv)
    (hcl : hGet h kContentLength = some cv) (hv : clPick cv = some cv) (hn : parseInt cv = some n)
    (hbig : n > effLimit cfg (run cfg init pre).idx) :
    dataLen (run cfg init pre).idx (run cfg init (pre ++ segs)).out = 0 ∧ Ev.closed ∈ (run cfg init (pre ++ segs)).out := by
  have hr := (run_cl_oversize_refused cfg pre segs k m t v h ka hostv cv n hp hk hfit hparse hka hhost hcl hv hn hbig).2
  have hf := (inv_run init pre (inv_init cfg)).1.future (run cfg init pre).idx (Nat.le_refl _)
  rw [hr]
  constructor
  · split <;> simpa [dataLen] using hf
  · simp

/-- chunked: at a chunk-size line of any reachable run, a chunk whose declared size, added to the bytes already handed
    over for this request, exceeds the request's effective limit is answered 400 and the connection closed — none of its
    bytes (nor anything after it) is delivered, the request is never finished.  The hypothesis is in terms of the
    *trace* (`dataLen`), not of the machine's counters: the invariant identifies them. -/
theorem run_chunk_oversize_refused (cfg : Cfg) (pre segs : List Str) (total loc n : Nat)
    (hp : (run cfg init pre).phase = .chunkSize total)
    (hloc : findCrlf ((run cfg init pre).buf ++ segs.flatten) = some loc) (hshort : loc + 2 ≤ chunkLineMax)
    (hsz : parseHexInt (((run cfg init pre).buf ++ segs.flatten).take loc) = some (n + 1))
    (hbig : dataLen ((run cfg init pre).idx - 1) (run cfg init pre).out + (n + 1)
      > effLimit cfg ((run cfg init pre).idx - 1)) :
    (run cfg init (pre ++ segs)).phase = .closed ∧
      (run cfg init (pre ++ segs)).out = .connClose :: .closed :: .w400 :: (run cfg init pre).out := by
  obtain ⟨ht, hl⟩ := inv_chunkSize (inv_run init pre (inv_init cfg)) hp
  rw [run_append]
  exact run_chunk_refused_gen cfg _ segs (step_run_init cfg pre) total loc n hp hloc hshort hsz (by omega)

/-- once closed, the connection hands nothing more to anyone: every later byte is ignored -/
theorem run_closed_absorbs (cfg : Cfg) (pre segs : List Str) (hc : (run cfg init pre).phase = .closed) :
    run cfg init (pre ++ segs) = run cfg init pre := by
  rw [run_append, run_eq_feed cfg _ segs (step_run_init cfg pre)]
  unfold feed
  rw [app_of_closed _ hc, drain_of_closed hc]

-- non-vacuity.  (1) max_header_size 21: a served 21-byte GET, then 22 bytes without a terminator in two segments
example : (run { maxHeader := 21 } init [[71, 32, 47, 32, 72, 84, 84, 80, 47, 49, 46, 49, 10, 72, 111, 115, 116, 58, 120, 10, 10]]).phase
    = .headers := by decide
example : findHeadEnd ((run { maxHeader := 21 } init [[71, 32, 47, 32, 72, 84, 84, 80, 47, 49, 46, 49, 10, 72, 111, 115, 116, 58, 120, 10, 10]]).buf
    ++ ([[65, 65, 65, 65, 65, 65, 65, 65, 65, 65, 65], [66, 66, 66, 66, 66, 66, 66, 66, 66, 66, 66]] : List Str).flatten) = none := by
  decide
-- (2) limit 3, second request of the connection declares Content-Length 4
example : (run { maxBody := 3, overrides := [some 5] } init [fiveByteReq]).idx = 1 ∧
    (run { maxBody := 3, overrides := [some 5] } init [fiveByteReq]).phase = .headers ∧
    effLimit { maxBody := 3, overrides := [some 5] } 1 = 3 := by decide
example : (run { maxBody := 3, overrides := [some 5] } init [fiveByteReq,
    [80, 32, 47, 32, 72, 84, 84, 80, 47, 49, 46, 49, 10, 72, 111, 115, 116, 58, 120, 10, 67, 111, 110, 116, 101, 110, 116, 45,
      76, 101, 110, 103, 116, 104, 58, 52, 10, 10, 97, 98, 99, 100]]).out.take 3 = [.connClose, .closed, .w400] := by decide
-- (3) limit 3, chunked: "2\r\nab\r\n" is delivered, the next "2\r\ncd\r\n" would make 4
example : (run { maxBody := 3 } init [[80, 32, 47, 32, 72, 84, 84, 80, 47, 49, 46, 49, 10, 72, 111, 115, 116, 58, 120, 10, 84, 114,
    97, 110, 115, 102, 101, 114, 45, 69, 110, 99, 111, 100, 105, 110, 103, 58, 99, 104, 117, 110, 107, 101, 100, 10, 10],
    [50, 13, 10, 97, 98, 13, 10]]).phase = .chunkSize 2 := by decide
example : (run { maxBody := 3 } init [[80, 32, 47, 32, 72, 84, 84, 80, 47, 49, 46, 49, 10, 72, 111, 115, 116, 58, 120, 10, 84, 114,
    97, 110, 115, 102, 101, 114, 45, 69, 110, 99, 111, 100, 105, 110, 103, 58, 99, 104, 117, 110, 107, 101, 100, 10, 10],
    [50, 13, 10, 97, 98, 13, 10], [50, 13], [10, 99, 100, 13, 10]]).out.take 4
      = [.connClose, .closed, .w400, .data 0 [97, 98]] := by decide

/-! ### gzip, run level -/

/-- after any sequence of `data_received` calls that did not raise, the first decompressor answer of the next call that
    takes the decompressed size over the limit raises HTTPInputError; nothing of it — and nothing of any later call — is
    handed to the wrapped delegate.  The hypothesis is in terms of what *was delivered* (`total … delivered`). -/
theorem gz_run_oversize_refused (limit : Nat) (pre more : List (Str × List Ans)) (chunk out : Str) (tl : Nat)
    (rest : List Ans) (hr : (gzRun limit pre {}).rejected = false) (hc : chunk ≠ []) (ho : out ≠ [])
    (hbig : total (gzRun limit pre {}).delivered + out.length > limit) :
    (gzRun limit (pre ++ (chunk, (out, tl) :: rest) :: more) {}).rejected = true ∧
      (gzRun limit (pre ++ (chunk, (out, tl) :: rest) :: more) {}).delivered = (gzRun limit pre {}).delivered := by
  have hsz := (ginv_run limit pre {} ⟨by simp [total], fun _ => by simp [total]⟩).2 hr
  have h1 := gz_oversize_rejected limit (gzRun limit pre {}) chunk out tl rest hc ho (by omega)
  rw [gzRun_append]
  simp only [gzRun, hr, Bool.false_eq_true, if_false]
  rw [gzRun_rejected limit more _ h1.1]
  exact h1

/-- for every decompressor behaviour: the size counter `_decompressed_body_size` going over the limit implies that the
    body was refused (contrapositive: a body that was not refused decompressed to exactly what was delivered, ≤ limit) -/
theorem gz_run_size_gt_rejected (limit : Nat) (calls : List (Str × List Ans))
    (h : (gzRun limit calls {}).size > limit) : (gzRun limit calls {}).rejected = true := by
  have hi := ginv_run limit calls {} ⟨by simp [total], fun _ => by simp [total]⟩
  cases hr : (gzRun limit calls {}).rejected with
  | true => rfl
  | false => have := hi.2 hr; have := hi.1; omega

example : (gzRun 5 [([1], [([9, 9, 9], 0)])] {}).rejected = false ∧
    (gzRun 5 [([1], [([9, 9, 9], 0)]), ([2], [([8, 8, 8], 0)]), ([3], [([7], 0)])] {}).delivered = [[9, 9, 9]] := by decide

/-- gzip, all positions: `gzProduced` (C04/GzProduced.lean) is the total output of the decompressor answers the delegate
    consumed over the whole sequence of `data_received` calls — a function of the scripts, not of the delegate's counter
    (`gzRun_size`: the counter equals it).  Whenever the body decompressed beyond the limit — at whichever call and
    whichever iteration of the `while compressed_data` loop — HTTPInputError was raised, and what was handed over
    stays within the limit. -/
theorem gz_run_beyond_refused (limit : Nat) (calls : List (Str × List Ans))
    (h : gzProduced limit calls {} > limit) :
    (gzRun limit calls {}).rejected = true ∧ total (gzRun limit calls {}).delivered ≤ limit := by
  refine ⟨gz_run_size_gt_rejected limit calls ?_, gz_delivered_le_limit limit calls⟩
  rw [gzRun_size]; simpa using h

/-- conversely a body that was not refused was handed over completely: delivered = produced -/
theorem gz_run_accepted_whole (limit : Nat) (calls : List (Str × List Ans))
    (h : (gzRun limit calls {}).rejected = false) :
    total (gzRun limit calls {}).delivered = gzProduced limit calls {} := by
  have hi := (ginv_run limit calls {} ⟨by simp [total], fun _ => by simp [total]⟩).2 h
  rw [← hi, gzRun_size]; simp

/-- … and the connection is closed: the wrapper's HTTPInputError reaches the `except HTTPInputError` arm of the connection
    (`gzRefusal`, C04/Model.lean — compared with the implementation's events on every refusing gzip case): 400, close,
    `on_connection_close`, whatever state `s` the connection machine was in -/
theorem gz_beyond_conn_closed (limit : Nat) (calls : List (Str × List Ans)) (s : St)
    (h : gzProduced limit calls {} > limit) :
    (gzRefusal s (gzRun limit calls {})).phase = .closed ∧
      (gzRefusal s (gzRun limit calls {})).out = .connClose :: .closed :: .w400 :: s.out := by
  have hr := (gz_run_beyond_refused limit calls h).1
  simp only [gzRefusal, hr, if_true]
  exact ⟨rfl, reject400_out_true s⟩

-- non-vacuity: limit 5; the second answer of the second call takes the output to 7
example : gzProduced 5 [([1], [([9, 9, 9], 0)]), ([2, 3], [([8], 1), ([7, 7, 7], 0)]), ([4], [([6], 0)])] {} = 7 ∧
    (gzRun 5 [([1], [([9, 9, 9], 0)]), ([2, 3], [([8], 1), ([7, 7, 7], 0)]), ([4], [([6], 0)])] {}).delivered
      = [[9, 9, 9], [8]] := by decide

/-! ### run level, within the limits: delivered whole, boundary included

A request at any reachable message boundary whose header block ends within `max_header_size` (`k ≤ maxHeader`: equality
included) and whose framing is accepted under the effective limit of its position with a non-empty fixed body
(`cl_at_limit_ok`: Content-Length `n ≤ limit`, equality included), and which is completely contained in what follows, is
announced, handed over whole in one piece, finished and answered; the run continues at the next boundary with exactly the
remaining bytes.  (Persistent connection; a non-persistent one differs only by the final `closed`.) -/
theorem run_cl_within_delivered (cfg : Cfg) (pre segs : List Str) (k n : Nat) (m t v : Str) (h : Hdrs) (hostv cv : Str)
    (hp : (run cfg init pre).phase = .headers)
    (hk : findHeadEnd ((run cfg init pre).buf ++ segs.flatten) = some k) (hfit : k ≤ cfg.maxHeader)
    (hparse : parseHead (((run cfg init pre).buf ++ segs.flatten).take k) = some ((m, t, v), h))
    (hka : canKeepAlive cfg.noKeepAlive m v h = some true) (hhost : hostCheck v h = some hostv)
    (hcl : hGet h kContentLength = some cv) (hv : clPick cv = some cv) (hn : parseInt cv = some (n + 1))
    (hte : hGet h kTransferEncoding = none)
    (hle : n + 1 ≤ effLimit cfg (run cfg init pre).idx)
    (hall : k + (n + 1) ≤ ((run cfg init pre).buf ++ segs.flatten).length) :
    ∃ s2, run cfg init (pre ++ segs) = drain cfg s2 ∧ s2.phase = .headers ∧ s2.idx = (run cfg init pre).idx + 1 ∧
      s2.buf = ((run cfg init pre).buf ++ segs.flatten).drop (k + (n + 1)) ∧
      s2.out = [.w200, .fin, .data (run cfg init pre).idx
          ((((run cfg init pre).buf ++ segs.flatten).drop k).take (n + 1))] ++
        (if hGet h kExpect = some k100Continue then [Ev.w100] else []) ++
          .req m t v (hAll h) :: (run cfg init pre).out := by
  rw [run_append]
  exact run_cl_within_gen cfg _ segs (step_run_init cfg pre) hp k n m t v h hostv hk hfit hparse hka hhost
    (cl_at_limit_ok _ (n + 1) h cv hcl hv hn hle hte) hall

/-- the same for a non-persistent request (`Connection: close`, HTTP/1.0, `no_keep_alive`): delivered whole, finished and
    answered; then the server closes the connection, and that is the whole run -/
theorem run_cl_within_delivered_close (cfg : Cfg) (pre segs : List Str) (k n : Nat) (m t v : Str) (h : Hdrs)
    (hostv cv : Str)
    (hp : (run cfg init pre).phase = .headers)
    (hk : findHeadEnd ((run cfg init pre).buf ++ segs.flatten) = some k) (hfit : k ≤ cfg.maxHeader)
    (hparse : parseHead (((run cfg init pre).buf ++ segs.flatten).take k) = some ((m, t, v), h))
    (hka : canKeepAlive cfg.noKeepAlive m v h = some false) (hhost : hostCheck v h = some hostv)
    (hcl : hGet h kContentLength = some cv) (hv : clPick cv = some cv) (hn : parseInt cv = some (n + 1))
    (hte : hGet h kTransferEncoding = none)
    (hle : n + 1 ≤ effLimit cfg (run cfg init pre).idx)
    (hall : k + (n + 1) ≤ ((run cfg init pre).buf ++ segs.flatten).length) :
    (run cfg init (pre ++ segs)).phase = .closed ∧
      (run cfg init (pre ++ segs)).out = [.closed, .w200, .fin, .data (run cfg init pre).idx
          ((((run cfg init pre).buf ++ segs.flatten).drop k).take (n + 1))] ++
        (if hGet h kExpect = some k100Continue then [Ev.w100] else []) ++
          .req m t v (hAll h) :: (run cfg init pre).out := by
  rw [run_append]
  exact run_cl_within_close_gen cfg _ segs (step_run_init cfg pre) hp k n m t v h hostv hk hfit hparse hka hhost
    (cl_at_limit_ok _ (n + 1) h cv hcl hv hn hle hte) hall

-- non-vacuity: `no_keep_alive`, limit 5, exactly 5 bytes
example : (run { maxBody := 5, noKeepAlive := true } init [fiveByteReq]).out.take 4
    = [.closed, .w200, .fin, .data 0 [1, 2, 3, 4, 5]] := by decide

/-- chunked, within the limit (equality included): at a chunk-size line of any reachable run, a chunk whose declared
    size, added to the bytes already handed over for this request (`dataLen` of the trace), stays within the request's
    effective limit and which is completely buffered with its CRLF is handed over; the machine is at the next chunk-size
    line with the rest of the bytes -/
theorem run_chunk_within_delivered (cfg : Cfg) (pre segs : List Str) (total loc n : Nat) (rest : Str)
    (hp : (run cfg init pre).phase = .chunkSize total)
    (hloc : findCrlf ((run cfg init pre).buf ++ segs.flatten) = some loc) (hshort : loc + 2 ≤ chunkLineMax)
    (hsz : parseHexInt (((run cfg init pre).buf ++ segs.flatten).take loc) = some (n + 1))
    (hfit : dataLen ((run cfg init pre).idx - 1) (run cfg init pre).out + (n + 1)
      ≤ effLimit cfg ((run cfg init pre).idx - 1))
    (hcr : ((run cfg init pre).buf ++ segs.flatten).drop (loc + 2 + (n + 1)) = 13 :: 10 :: rest) :
    ∃ s2, run cfg init (pre ++ segs) = drain cfg s2 ∧ s2.phase = .chunkSize (total + (n + 1)) ∧
      s2.idx = (run cfg init pre).idx ∧ s2.buf = rest ∧
      s2.out = pushEv (run cfg init pre).out (.data ((run cfg init pre).idx - 1)
        ((((run cfg init pre).buf ++ segs.flatten).drop (loc + 2)).take (n + 1))) := by
  obtain ⟨ht, hl⟩ := inv_chunkSize (inv_run init pre (inv_init cfg)) hp
  rw [run_append]
  obtain ⟨s2, h1, h2, h3, _, h5, h6⟩ :=
    run_chunk_within_gen cfg _ segs (step_run_init cfg pre) total loc n rest hp hloc hshort hsz (by omega) hcr
  exact ⟨s2, h1, h2, h3, h5, h6⟩

-- non-vacuity: limit 4, chunks "ab" and "cd": the second one reaches the limit exactly and is delivered
example : (run { maxBody := 4 } init [[80, 32, 47, 32, 72, 84, 84, 80, 47, 49, 46, 49, 10, 72, 111, 115, 116, 58, 120, 10, 84, 114,
    97, 110, 115, 102, 101, 114, 45, 69, 110, 99, 111, 100, 105, 110, 103, 58, 99, 104, 117, 110, 107, 101, 100, 10, 10],
    [50, 13, 10, 97, 98, 13, 10], [50, 13], [10, 99, 100, 13, 10]]).phase = .chunkSize 4 ∧
  (run { maxBody := 4 } init [[80, 32, 47, 32, 72, 84, 84, 80, 47, 49, 46, 49, 10, 72, 111, 115, 116, 58, 120, 10, 84, 114,
    97, 110, 115, 102, 101, 114, 45, 69, 110, 99, 111, 100, 105, 110, 103, 58, 99, 104, 117, 110, 107, 101, 100, 10, 10],
    [50, 13, 10, 97, 98, 13, 10], [50, 13], [10, 99, 100, 13, 10]]).out.head? = some (.data 0 [97, 98, 99, 100]) := by decide

-- non-vacuity: limit 3 with override 5 for the first request; exactly 5 bytes are delivered whole
example : (run smallCfg init [fiveByteReq]).out
    = [.w200, .fin, .data 0 [1, 2, 3, 4, 5], .req [80] [47] [72, 84, 84, 80, 47, 49, 46, 49]
        [([72, 111, 115, 116], [120]), ([67, 111, 110, 116, 101, 110, 116, 45, 76, 101, 110, 103, 116, 104], [53])]] := by decide

/-! ## the configured options are the limits — for every value, `0` included

`Raw` (C04/Model.lean) is what the application passes; `Raw.cfg` is how the code turns it into the limits of the machine.
A configured `max_body_size` is taken literally (only an absent one falls back to the stream's `max_buffer_size`), so
`max_body_size = 0` means "no request body is accepted". -/

/-- a configured `max_body_size = n` is the default body limit, whatever `n` is -/
theorem raw_body_limit_exact (r : Raw) (n : Nat) (h : r.maxBodySize = some n) : r.cfg.maxBody = n := by
  simp [Raw.cfg, ifNotNone, h]

/-- an absent `max_body_size` falls back to the stream's buffer size (itself `or 104857600`) -/
theorem raw_body_limit_absent (r : Raw) (h : r.maxBodySize = none) :
    r.cfg.maxBody = orDefault r.maxBufferSize 104857600 := by
  simp [Raw.cfg, ifNotNone, h]

/-- every request without a per-request override is handed at most the configured `max_body_size` -/
theorem raw_delivered_le_configured (r : Raw) (n : Nat) (h : r.maxBodySize = some n) (segs : List Str) (i : Nat)
    (hov : ∀ m, r.overrides[i]? ≠ some (some m)) :
    dataLen i (run r.cfg init segs).out ≤ n := by
  have hb := delivered_le_limit r.cfg segs i
  have he : effLimit r.cfg i = n := by
    unfold effLimit
    have hc : r.cfg.overrides = r.overrides := rfl
    rw [hc]
    split
    · next m hm => exact absurd hm (hov m)
    · exact raw_body_limit_exact r n h
  omega

/-- `max_body_size = 0`: the application is handed no body byte at all -/
theorem raw_zero_delivers_nothing (r : Raw) (h : r.maxBodySize = some 0) (segs : List Str) (i : Nat)
    (hov : ∀ m, r.overrides[i]? ≠ some (some m)) :
    dataLen i (run r.cfg init segs).out = 0 := by
  have := raw_delivered_le_configured r 0 h segs i hov
  omega

/-- … and every declared non-empty body is refused under it -/
theorem raw_zero_cl_rejected (h : Hdrs) (v : Str) (n : Nat)
    (hcl : hGet h kContentLength = some v) (hv : clPick v = some v) (hn : parseInt v = some (n + 1)) :
    bodyKind 0 h = none :=
  cl_oversize_rejected 0 (n + 1) h v hcl hv hn (by omega)

-- non-vacuity: `max_body_size = 0`, a 1-byte body ("POST / HTTP/1.1\nHost:x\nContent-Length:1\n\na") is answered 400 and closed;
-- the same stream under an absent limit is served
example : (run ({ maxBodySize := some 0 } : Raw).cfg init
    [[80, 32, 47, 32, 72, 84, 84, 80, 47, 49, 46, 49, 10, 72, 111, 115, 116, 58, 120, 10, 67, 111, 110, 116, 101, 110, 116, 45,
      76, 101, 110, 103, 116, 104, 58, 49, 10, 10, 97]]).out = [Ev.connClose, Ev.closed, Ev.w400,
        Ev.req [80] [47] [72, 84, 84, 80, 47, 49, 46, 49] [([72, 111, 115, 116], [120]),
          ([67, 111, 110, 116, 101, 110, 116, 45, 76, 101, 110, 103, 116, 104], [49])]] := by decide
example : (run ({ } : Raw).cfg init
    [[80, 32, 47, 32, 72, 84, 84, 80, 47, 49, 46, 49, 10, 72, 111, 115, 116, 58, 120, 10, 67, 111, 110, 116, 101, 110, 116, 45,
      76, 101, 110, 103, 116, 104, 58, 49, 10, 10, 97]]).out.head? = some Ev.w200 := by decide
example : ({ maxHeaderSize := some 0, maxBodySize := some 0, maxBufferSize := some 0 } : Raw).cfg
    = { maxHeader := 65536, maxBody := 0 } := by decide

/-! ## requests within the limits are unaffected

Raising the limits (header block, default body limit, per-request overrides) does not change the run of a stream that
never hit them: by a forward simulation (`C04/Monotone.lean`) the two runs agree step by step on everything except the
stored limit, as long as the run under the smaller limits has not closed the connection. -/
theorem limits_monotone :
  ∀ (cfg cfg' : Cfg) (segs : List Str),
    cfg.noKeepAlive = cfg'.noKeepAlive → cfg.maxHeader ≤ cfg'.maxHeader →
    (∀ i, effLimit cfg i ≤ effLimit cfg' i) →
    Ev.closed ∉ (run cfg init segs).out →
    (run cfg' init segs).out = (run cfg init segs).out := by
  intro cfg cfg' segs hnk hmh hlim hnc
  obtain ⟨l', h⟩ := sim_run hnk hmh hlim segs init 0 (Nat.le_refl _) hnc
  have e : setL init 0 = init := rfl
  rw [e] at h
  rw [h]; rfl

/-- the whole final state agrees, except for the stored limit of the current request -/
theorem limits_monotone_state (cfg cfg' : Cfg) (segs : List Str)
    (hnk : cfg.noKeepAlive = cfg'.noKeepAlive) (hmh : cfg.maxHeader ≤ cfg'.maxHeader)
    (hlim : ∀ i, effLimit cfg i ≤ effLimit cfg' i) (hnc : Ev.closed ∉ (run cfg init segs).out) :
    ∃ l', run cfg' init segs = { (run cfg init segs) with limit := l' } :=
  sim_run hnk hmh hlim segs init 0 (Nat.le_refl _) hnc

-- non-vacuity: limits 3 / override 5 against the defaults; a 5-byte body served without closing
example : ∀ i, effLimit { maxBody := 3, overrides := [some 5] } i ≤ effLimit {} i := by
  intro i
  match i with
  | 0 => decide
  | i + 1 => simp [effLimit]
example : Ev.closed ∉ (run smallCfg init [fiveByteReq]).out := by
  have h : (run smallCfg init [fiveByteReq]).out.filter (fun e => decide (e = Ev.closed)) = [] := by decide
  intro hm
  have h2 : Ev.closed ∈ (run smallCfg init [fiveByteReq]).out.filter (fun e => decide (e = Ev.closed)) :=
    List.mem_filter.mpr ⟨hm, decide_eq_true rfl⟩
  rw [h] at h2
  exact absurd h2 List.not_mem_nil

end TornadoModel.C04
