import TornadoModel.C04.Spec
namespace TornadoModel.C04
theorem stub : total [] = 0 := rfl
end TornadoModel.C04
