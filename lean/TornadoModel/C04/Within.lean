/-
C04 — run level, the other direction: a request within the limits (header block ≤ max_header_size, Content-Length ≤ the
effective body limit — equality included) that is completely contained in what follows a reachable message boundary is
announced, delivered whole and finished, and the run continues from the next boundary with the rest of the bytes.
-/
import TornadoModel.C04.RunLevel
namespace TornadoModel.C04
open TornadoModel.C01 TornadoModel.C04.Spec

theorem run_cl_within_gen (cfg : Cfg) (s : St) (segs : List Str) (hb : step cfg s = none)
    (hp : s.phase = .headers) (k n : Nat) (m t v : Str) (h : Hdrs) (hostv : Str)
    (hk : findHeadEnd (s.buf ++ segs.flatten) = some k) (hfit : k ≤ cfg.maxHeader)
    (hparse : parseHead ((s.buf ++ segs.flatten).take k) = some ((m, t, v), h))
    (hka : canKeepAlive cfg.noKeepAlive m v h = some true) (hhost : hostCheck v h = some hostv)
    (hbody : bodyKind (effLimit cfg s.idx) h = some (.fixed (n + 1)))
    (hall : k + (n + 1) ≤ (s.buf ++ segs.flatten).length) :
    ∃ s2, run cfg s segs = drain cfg s2 ∧ s2.phase = .headers ∧ s2.idx = s.idx + 1 ∧
      s2.buf = (s.buf ++ segs.flatten).drop (k + (n + 1)) ∧
      s2.out = [.w200, .fin, .data s.idx (((s.buf ++ segs.flatten).drop k).take (n + 1))] ++
        (if hGet h kExpect = some k100Continue then [Ev.w100] else []) ++ .req m t v (hAll h) :: s.out := by
  have ho : s.phase ≠ .closed := by rw [hp]; simp
  have hnot : ¬ k > cfg.maxHeader := by omega
  -- first resumption: the head
  have hs1 : step cfg { s with buf := s.buf ++ segs.flatten }
      = some (onHead cfg { s with buf := (s.buf ++ segs.flatten).drop k } ((s.buf ++ segs.flatten).take k)) := by
    simp [step, hp, stepHeaders, hk, hnot]
  generalize hB : s.buf ++ segs.flatten = B at *
  have e1 : onHead cfg { s with buf := B.drop k } (B.take k)
      = { (({ s with buf := B.drop k, idx := s.idx + 1, ka := true, limit := effLimit cfg s.idx, got := 0 } : St).emit
          (if hGet h kExpect = some k100Continue then [.req m t v (hAll h), .w100] else [.req m t v (hAll h)]))
          with phase := .fixed (n + 1) } := by
    simp [onHead, hparse, hka, hhost, startReq, hbody, startBody]
  -- second resumption: the whole body is buffered
  have hlen : n + 1 ≤ (B.drop k).length := by simp only [List.length_drop]; omega
  have hne : (B.drop k).isEmpty = false := by
    cases hd : B.drop k with
    | nil => rw [hd] at hlen; simp at hlen
    | cons _ _ => rfl
  let s1 : St :=
    { (({ s with buf := B.drop k, idx := s.idx + 1, ka := true, limit := effLimit cfg s.idx, got := 0 } : St).emit
        (if hGet h kExpect = some k100Continue then [.req m t v (hAll h), .w100] else [.req m t v (hAll h)]))
        with phase := .fixed (n + 1) }
  have hbuf : s1.buf = B.drop k := rfl
  have hs2 : step cfg s1 = some (finishReq (takeBody s1 (n + 1))) := by
    show stepFixed s1 (n + 1) = _
    simp only [List.length_drop] at hlen
    simp [stepFixed, hbuf, hne]
    intro hc; omega
  have hka2 : (takeBody s1 (n + 1)).ka = true := rfl
  refine ⟨finishReq (takeBody s1 (n + 1)), ?_, ?_, ?_, ?_, ?_⟩
  · rw [run_open_eq cfg s segs hb ho, hB, drain_of_some hs1, e1, drain_of_some hs2]
  · simp [finishReq, hka2]
  · simp [finishReq, hka2, takeBody, St.deliver, s1, St.emit]
  · simp [finishReq, hka2, takeBody, St.deliver, s1, St.emit, List.drop_drop, Nat.add_comm]
  · simp only [finishReq, hka2, if_true, takeBody, St.deliver, s1, St.emit]
    split <;> simp [pushEv]

end TornadoModel.C04
