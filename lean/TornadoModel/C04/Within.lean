/-
C04 — run level, the other direction: a request within the limits (header block ≤ max_header_size, Content-Length ≤ the
effective body limit — equality included) that is completely contained in what follows a reachable message boundary is
announced, delivered whole and finished, and the run continues from the next boundary with the rest of the bytes.
-/
import TornadoModel.C04.RunLevel
namespace TornadoModel.C04
open TornadoModel.C01 TornadoModel.C04.Spec

theorem run_cl_within_gen (cfg : Cfg) (s : St) (segs : List Str) (hb : step cfg s = none)
    (hp : s.phase = .headers) (k n : Nat) (m t v : Str) (h : Hdrs) (hostv : Str)
    (hk : findHeadEnd (s.buf ++ segs.flatten) = some k) (hfit : k ≤ cfg.maxHeader)
    (hparse : parseHead ((s.buf ++ segs.flatten).take k) = some ((m, t, v), h))
    (hka : canKeepAlive cfg.noKeepAlive m v h = some true) (hhost : hostCheck v h = some hostv)
    (hbody : bodyKind (effLimit cfg s.idx) h = some (.fixed (n + 1)))
    (hall : k + (n + 1) ≤ (s.buf ++ segs.flatten).length) :
    ∃ s2, run cfg s segs = drain cfg s2 ∧ s2.phase = .headers ∧ s2.idx = s.idx + 1 ∧
      s2.buf = (s.buf ++ segs.flatten).drop (k + (n + 1)) ∧
      s2.out = [.w200, .fin, .data s.idx (((s.buf ++ segs.flatten).drop k).take (n + 1))] ++
        (if hGet h kExpect = some k100Continue then [Ev.w100] else []) ++ .req m t v (hAll h) :: s.out := by
  have ho : s.phase ≠ .closed := by rw [hp]; simp
  have hnot : ¬ k > cfg.maxHeader := by omega
  -- first resumption: the head
  have hs1 : step cfg { s with buf := s.buf ++ segs.flatten }
      = some (onHead cfg { s with buf := (s.buf ++ segs.flatten).drop k } ((s.buf ++ segs.flatten).take k)) := by
    simp [step, hp, stepHeaders, hk, hnot]
  generalize hB : s.buf ++ segs.flatten = B at *
  have e1 : onHead cfg { s with buf := B.drop k } (B.take k)
      = { (({ s with buf := B.drop k, idx := s.idx + 1, ka := true, limit := effLimit cfg s.idx, got := 0 } : St).emit
          (if hGet h kExpect = some k100Continue then [.req m t v (hAll h), .w100] else [.req m t v (hAll h)]))
          with phase := .fixed (n + 1) } := by
    simp [onHead, hparse, hka, hhost, startReq, hbody, startBody]
  -- second resumption: the whole body is buffered
  have hlen : n + 1 ≤ (B.drop k).length := by simp only [List.length_drop]; omega
  have hne : (B.drop k).isEmpty = false := by
    cases hd : B.drop k with
    | nil => rw [hd] at hlen; simp at hlen
    | cons _ _ => rfl
  let s1 : St :=
    { (({ s with buf := B.drop k, idx := s.idx + 1, ka := true, limit := effLimit cfg s.idx, got := 0 } : St).emit
        (if hGet h kExpect = some k100Continue then [.req m t v (hAll h), .w100] else [.req m t v (hAll h)]))
        with phase := .fixed (n + 1) }
  have hbuf : s1.buf = B.drop k := rfl
  have hs2 : step cfg s1 = some (finishReq (takeBody s1 (n + 1))) := by
    show stepFixed s1 (n + 1) = _
    simp only [List.length_drop] at hlen
    simp [stepFixed, hbuf, hne]
    intro hc; omega
  have hka2 : (takeBody s1 (n + 1)).ka = true := rfl
  refine ⟨finishReq (takeBody s1 (n + 1)), ?_, ?_, ?_, ?_, ?_⟩
  · rw [run_open_eq cfg s segs hb ho, hB, drain_of_some hs1, e1, drain_of_some hs2]
  · simp [finishReq, hka2]
  · simp [finishReq, hka2, takeBody, St.deliver, s1, St.emit]
  · simp [finishReq, hka2, takeBody, St.deliver, s1, St.emit, List.drop_drop, Nat.add_comm]
  · simp only [finishReq, hka2, if_true, takeBody, St.deliver, s1, St.emit]
    split <;> simp [pushEv]

/-- the same on a non-persistent request (`Connection: close`, HTTP/1.0, `no_keep_alive`): delivered whole, finished,
    answered, and then the connection is closed by the server — this is the end of the run -/
theorem run_cl_within_close_gen (cfg : Cfg) (s : St) (segs : List Str) (hb : step cfg s = none)
    (hp : s.phase = .headers) (k n : Nat) (m t v : Str) (h : Hdrs) (hostv : Str)
    (hk : findHeadEnd (s.buf ++ segs.flatten) = some k) (hfit : k ≤ cfg.maxHeader)
    (hparse : parseHead ((s.buf ++ segs.flatten).take k) = some ((m, t, v), h))
    (hka : canKeepAlive cfg.noKeepAlive m v h = some false) (hhost : hostCheck v h = some hostv)
    (hbody : bodyKind (effLimit cfg s.idx) h = some (.fixed (n + 1)))
    (hall : k + (n + 1) ≤ (s.buf ++ segs.flatten).length) :
    (run cfg s segs).phase = .closed ∧
      (run cfg s segs).out = [.closed, .w200, .fin, .data s.idx (((s.buf ++ segs.flatten).drop k).take (n + 1))] ++
        (if hGet h kExpect = some k100Continue then [Ev.w100] else []) ++ .req m t v (hAll h) :: s.out := by
  have ho : s.phase ≠ .closed := by rw [hp]; simp
  have hnot : ¬ k > cfg.maxHeader := by omega
  have hs1 : step cfg { s with buf := s.buf ++ segs.flatten }
      = some (onHead cfg { s with buf := (s.buf ++ segs.flatten).drop k } ((s.buf ++ segs.flatten).take k)) := by
    simp [step, hp, stepHeaders, hk, hnot]
  generalize hB : s.buf ++ segs.flatten = B at *
  have e1 : onHead cfg { s with buf := B.drop k } (B.take k)
      = { (({ s with buf := B.drop k, idx := s.idx + 1, ka := false, limit := effLimit cfg s.idx, got := 0 } : St).emit
          (if hGet h kExpect = some k100Continue then [.req m t v (hAll h), .w100] else [.req m t v (hAll h)]))
          with phase := .fixed (n + 1) } := by
    simp [onHead, hparse, hka, hhost, startReq, hbody, startBody]
  have hlen : n + 1 ≤ (B.drop k).length := by simp only [List.length_drop]; omega
  have hne : (B.drop k).isEmpty = false := by
    cases hd : B.drop k with
    | nil => rw [hd] at hlen; simp at hlen
    | cons _ _ => rfl
  let s1 : St :=
    { (({ s with buf := B.drop k, idx := s.idx + 1, ka := false, limit := effLimit cfg s.idx, got := 0 } : St).emit
        (if hGet h kExpect = some k100Continue then [.req m t v (hAll h), .w100] else [.req m t v (hAll h)]))
        with phase := .fixed (n + 1) }
  have hbuf : s1.buf = B.drop k := rfl
  have hs2 : step cfg s1 = some (finishReq (takeBody s1 (n + 1))) := by
    show stepFixed s1 (n + 1) = _
    simp only [List.length_drop] at hlen
    simp [stepFixed, hbuf, hne]
    intro hc; omega
  have hka2 : (takeBody s1 (n + 1)).ka = false := rfl
  have hc : (finishReq (takeBody s1 (n + 1))).phase = .closed := by simp [finishReq, hka2]
  have hrun : run cfg s segs = finishReq (takeBody s1 (n + 1)) := by
    rw [run_open_eq cfg s segs hb ho, hB, drain_of_some hs1, e1, drain_of_some hs2, drain_of_closed hc]
  rw [hrun]
  refine ⟨hc, ?_⟩
  simp only [finishReq, hka2, Bool.false_eq_true, if_false, takeBody, St.deliver, s1, St.emit]
  split <;> simp [pushEv]

/-- a chunk within the limit (running total + size ≤ limit, equality included) that is completely buffered: its bytes are
    handed over, and the machine is back at the next chunk-size line with the new running total -/
theorem run_chunk_within_gen (cfg : Cfg) (s : St) (segs : List Str) (hb : step cfg s = none)
    (total loc n : Nat) (rest : Str) (hp : s.phase = .chunkSize total)
    (hloc : findCrlf (s.buf ++ segs.flatten) = some loc) (hshort : loc + 2 ≤ chunkLineMax)
    (hsz : parseHexInt ((s.buf ++ segs.flatten).take loc) = some (n + 1)) (hfit : total + (n + 1) ≤ s.limit)
    (hcr : (s.buf ++ segs.flatten).drop (loc + 2 + (n + 1)) = 13 :: 10 :: rest) :
    ∃ s2, run cfg s segs = drain cfg s2 ∧ s2.phase = .chunkSize (total + (n + 1)) ∧ s2.idx = s.idx ∧
      s2.limit = s.limit ∧ s2.buf = rest ∧
      s2.out = pushEv s.out (.data (s.idx - 1) (((s.buf ++ segs.flatten).drop (loc + 2)).take (n + 1))) := by
  have ho : s.phase ≠ .closed := by rw [hp]; simp
  have h1 : ¬ loc + 2 > chunkLineMax := by omega
  have h2 : ¬ total + (n + 1) > s.limit := by omega
  generalize hB : s.buf ++ segs.flatten = B at *
  have hs1 : step cfg { s with buf := B }
      = some { s with buf := B.drop (loc + 2), phase := .chunkData (n + 1) (total + (n + 1)) } := by
    simp [step, hp, stepChunkSize, hloc, h1, hsz, h2]
  -- the chunk data is completely buffered
  have hlenB : loc + 2 + (n + 1) + 2 ≤ B.length := by
    have := congrArg List.length hcr
    simp only [List.length_drop, List.length_cons] at this
    omega
  let s1 : St := { s with buf := B.drop (loc + 2), phase := .chunkData (n + 1) (total + (n + 1)) }
  have hbuf1 : s1.buf = B.drop (loc + 2) := rfl
  have hne : (B.drop (loc + 2)).isEmpty = false := by
    cases hd : B.drop (loc + 2) with
    | nil => have := congrArg List.length hd; simp only [List.length_drop, List.length_nil] at this; omega
    | cons _ _ => rfl
  have hs2 : step cfg s1 = some { (takeBody s1 (n + 1)) with phase := .chunkCrlf (total + (n + 1)) } := by
    show stepChunkData s1 (n + 1) (total + (n + 1)) = _
    simp [stepChunkData, hbuf1, hne]
    omega
  let s1' : St := { (takeBody s1 (n + 1)) with phase := .chunkCrlf (total + (n + 1)) }
  have hbuf2 : s1'.buf = 13 :: 10 :: rest := by
    show (B.drop (loc + 2)).drop (n + 1) = _
    rw [List.drop_drop, ← hcr]
  have hs3 : step cfg s1' = some { s1' with buf := rest, phase := .chunkSize (total + (n + 1)) } := by
    show stepChunkCrlf s1' (total + (n + 1)) = _
    unfold stepChunkCrlf
    rw [hbuf2]
    simp
  refine ⟨{ s1' with buf := rest, phase := .chunkSize (total + (n + 1)) }, ?_, rfl, rfl, rfl, rfl, rfl⟩
  rw [run_open_eq cfg s segs hb ho, hB, drain_of_some hs1, drain_of_some hs2, drain_of_some hs3]

end TornadoModel.C04
