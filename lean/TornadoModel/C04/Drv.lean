/- C04 driver: `C04 run …` / `C04 spec …` (the C01 machine and batch reader, limits in the cfg),
   `C04 gzip <limit> [[chunk,[[out,tail],…]],…]` → `ok [delivered,…] <rejected> <size> <within> [events the connection adds on refusal]`,
   `C04 within <cfg> <nreq> [[i,len],…]` → `ok T|F`,
   `C04 eff <cfg> <i>` → `ok <maxHeader> <effective body limit of request i>`.
   `<cfg>` is either C01's `[maxHeader,maxBody,[override|~,…],noKeepAlive]` (effective limits) or the raw options
   `[max_header_size|~,max_body_size|~,max_buffer_size|~,[override|~,…],noKeepAlive]` (`Raw`, mapped by `Raw.cfg`);
   `<limit>` of `gzip` is a number or `[<cfg>,<i>]` (= `effLimit cfg i`). -/
import TornadoModel.Base.Wire
import TornadoModel.C01.Drv
import TornadoModel.C04.Spec
namespace TornadoModel.C04.Drv
open TornadoModel TornadoModel.Wire TornadoModel.C01 TornadoModel.C04

def decAns (v : V) : Option Ans := do
  match ← v.list? with
  | [o, t] => pure (← o.byteNats?, ← t.nat?)
  | _ => none

def decCall (v : V) : Option (Str × List Ans) := do
  match ← v.list? with
  | [c, s] => pure (← c.byteNats?, ← (← s.list?).mapM decAns)
  | _ => none

def decOpt (v : V) : Option (Option Nat) := if v.isNone then some none else v.nat?.map some

def decRaw (v : V) : Option Raw := do
  match ← v.list? with
  | [mh, mb, buf, ov, nk] =>
    pure { maxHeaderSize := ← decOpt mh, maxBodySize := ← decOpt mb, maxBufferSize := ← decOpt buf,
           overrides := ← (← ov.list?).mapM decOpt, noKeepAlive := ← nk.bool? }
  | _ => none

/-- effective or raw form -/
def decAnyCfg (v : V) : Option Cfg :=
  match v with
  | .list [_, _, _, _, _] => (decRaw v).map Raw.cfg
  | _ => C01.Drv.decCfg v

def encCfg (c : Cfg) : V :=
  .list [.int c.maxHeader, .int c.maxBody, .list (c.overrides.map (V.ofOpt V.ofNat)), V.ofBool c.noKeepAlive]

/-- `run` / `spec` are C01's; the configuration is normalised to its effective form first -/
def viaC01 (op c : String) (rest : List String) : String :=
  match V.parse c >>= decAnyCfg with
  | some cfg => C01.Drv.handle (op :: (encCfg cfg).render :: rest)
  | none => err "bad-cfg"

def decLimit (v : V) : Option Nat :=
  match v with
  | .list [c, i] => do pure (effLimit (← decAnyCfg c) (← i.nat?))
  | _ => v.nat?

def handle (toks : List String) : String :=
  match toks with
  | "run" :: c :: rest => viaC01 "run" c rest
  | "spec" :: c :: rest => viaC01 "spec" c rest
  | _ =>
    match toks.mapM V.parse with
    | none => err "bad-arg"
    | some args =>
      match args with
      | [.atom "gzip", lim, calls] =>
        match decLimit lim, calls.list? >>= (·.mapM decCall) with
        | some limit, some cs =>
          let g := gzRun limit cs {}
          ok [.list (g.delivered.map V.ofByteNats), V.ofBool g.rejected, .int g.size, V.ofBool (Spec.gzWithin limit g),
              .list ((gzRefusal {} g).out.reverse.map C01.Drv.encEv)]
        | _, _ => err "bad-gzip"
      | [.atom "within", c, n, ds] =>
        match decAnyCfg c, n.nat?, ds.list? >>= (·.mapM (fun d => do
            match ← d.list? with
            | [i, l] => pure (Ev.data (← i.nat?) (List.replicate (← l.nat?) 0))
            | _ => none)) with
        | some cfg, some nreq, some evs => ok [V.ofBool (Spec.withinLimits cfg evs nreq)]
        | _, _, _ => err "bad-within"
      | [.atom "eff", c, i] =>
        match decAnyCfg c, i.nat? with
        | some cfg, some i => ok [.int cfg.maxHeader, .int (effLimit cfg i)]
        | _, _ => err "bad-eff"
      | _ => err "bad-cmd"

end TornadoModel.C04.Drv
