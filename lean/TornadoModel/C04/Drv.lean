/- C04 driver: `C04 run …` / `C04 spec …` (the C01 machine and batch reader, limits in the cfg),
   `C04 gzip <limit> [[chunk,[[out,tail],…]],…]` → `ok [delivered,…] <rejected> <size>`,
   `C04 within <cfg> <nreq> [[i,len],…]` → `ok T|F` -/
import TornadoModel.Base.Wire
import TornadoModel.C01.Drv
import TornadoModel.C04.Spec
namespace TornadoModel.C04.Drv
open TornadoModel TornadoModel.Wire TornadoModel.C01 TornadoModel.C04

def decAns (v : V) : Option Ans := do
  match ← v.list? with
  | [o, t] => pure (← o.byteNats?, ← t.nat?)
  | _ => none

def decCall (v : V) : Option (Str × List Ans) := do
  match ← v.list? with
  | [c, s] => pure (← c.byteNats?, ← (← s.list?).mapM decAns)
  | _ => none

def handle (toks : List String) : String :=
  match toks with
  | "run" :: _ => C01.Drv.handle toks
  | "spec" :: _ => C01.Drv.handle toks
  | _ =>
    match toks.mapM V.parse with
    | none => err "bad-arg"
    | some args =>
      match args with
      | [.atom "gzip", lim, calls] =>
        match lim.nat?, calls.list? >>= (·.mapM decCall) with
        | some limit, some cs =>
          let g := gzRun limit cs {}
          ok [.list (g.delivered.map V.ofByteNats), V.ofBool g.rejected, .int g.size, V.ofBool (Spec.gzWithin limit g)]
        | _, _ => err "bad-gzip"
      | [.atom "within", c, n, ds] =>
        match C01.Drv.decCfg c, n.nat?, ds.list? >>= (·.mapM (fun d => do
            match ← d.list? with
            | [i, l] => pure (Ev.data (← i.nat?) (List.replicate (← l.nat?) 0))
            | _ => none)) with
        | some cfg, some nreq, some evs => ok [V.ofBool (Spec.withinLimits cfg evs nreq)]
        | _, _, _ => err "bad-within"
      | _ => err "bad-cmd"

end TornadoModel.C04.Drv
