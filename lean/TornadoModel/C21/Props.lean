/-
C21 — property theorems.  Statement: `/verif/properties.jsonl` C21.  All quantify over every string
(`Str = List Nat`, code points) / every byte string; hypotheses are the ones the property itself makes
(no lone surrogates: `s.all isScalar`; byte strings: every element `< 256`).
-/
import TornadoModel.C21.Lemmas
namespace TornadoModel.C21
set_option linter.unusedSimpArgs false

/-! ## HTML -/

/-- Escaped text contains no `<`, `>`, `"`, `'`, and every `&` in it starts one of the five entities that
`html.escape` introduces — for every input string (no hypothesis at all, lone surrogates included). -/
theorem escape_safe (s : Str) : Spec.escapeSafe (xhtmlEscape s) = true := by
  unfold xhtmlEscape
  induction s with
  | nil => rfl
  | cons c s ih => rw [htmlEscape_cons]; exact escapeSafe_escC c _ ih

/-- a readable corollary: none of the four dangerous characters occurs in escaped text -/
theorem escape_no_special (s : Str) : ∀ c ∈ xhtmlEscape s, c ≠ 60 ∧ c ≠ 62 ∧ c ≠ 34 ∧ c ≠ 39 := by
  unfold xhtmlEscape
  rw [htmlEscape_eq_flatMap]
  intro c hc
  simp only [List.mem_flatMap] at hc
  obtain ⟨x, _, hx⟩ := hc
  unfold escC at hx
  (repeat' split at hx) <;> simp [ampE, ltE, gtE, quotE, aposE] at hx <;> omega

/-- `xhtml_unescape (xhtml_escape s) = s` for every string and every entity table that contains
`amp; lt; gt; quot;` (the apostrophe goes through the numeric branch, which needs no table). -/
theorem unescape_escape (T : Table) (hT : HasBasicEntities T) (s : Str) :
    xhtmlUnescape T (xhtmlEscape s) = s := by
  unfold xhtmlUnescape xhtmlEscape
  induction s with
  | nil => rfl
  | cons c s ih => rw [htmlEscape_cons, unescGo_escC T hT, ih]

/-- non-vacuity: a concrete table (the relevant fragment of `html.entities.html5`) satisfies the hypothesis,
and the round trip on a string with all five specials computes. -/
def basicTable : Table :=
  tableOf [([97, 109, 112, 59], [38]), ([108, 116, 59], [60]), ([103, 116, 59], [62]), ([113, 117, 111, 116, 59], [34]),
           ([97, 109, 112], [38])]
example : HasBasicEntities basicTable := ⟨rfl, rfl, rfl, rfl⟩
example : xhtmlUnescape basicTable (xhtmlEscape [38, 97, 109, 112, 59, 60, 62, 34, 39, 233]) = [38, 97, 109, 112, 59, 60, 62, 34, 39, 233] := by
  decide

/-- bytes input: `xhtml_escape(b)` for valid UTF-8 `b` is the escape of the decoded text -/
theorem escape_bytes (s : Str) (hs : s.all isScalar = true) :
    xhtmlEscapeSB (.b (s.flatMap encC)) = .ok (xhtmlEscape s) := by
  simp [xhtmlEscapeSB, toStr, utf8Decode_flatMap_encC s hs, Except.map, xhtmlEscape]

/-- escaping keeps a surrogate-free text surrogate-free (so the escaped text always has a UTF-8 form) -/
theorem escape_scalar (s : Str) (hs : s.all isScalar = true) : (xhtmlEscape s).all isScalar = true := by
  unfold xhtmlEscape
  rw [htmlEscape_eq_flatMap]
  simp only [List.all_eq_true, List.mem_flatMap] at hs ⊢
  rintro c ⟨x, hx, hc⟩
  have hxs := hs x hx
  unfold escC at hc
  (repeat' split at hc) <;> simp [ampE, ltE, gtE, quotE, aposE] at hc <;>
    first
      | (subst hc; exact hxs)
      | (rcases hc with h | h | h | h | h | h <;> subst h <;> decide)
      | (rcases hc with h | h | h | h | h <;> subst h <;> decide)
      | (rcases hc with h | h | h | h <;> subst h <;> decide)

/-- the whole round trip through BYTES: `xhtml_escape(utf8(s))` succeeds with the escape `e` of `s`, and
`xhtml_unescape(utf8(e)) = s` — for every surrogate-free `s`, in particular when `s` starts with U+FEFF
(whose UTF-8 form `EF BB BF` a BOM-stripping decoder would drop). -/
theorem unescape_escape_bytes (T : Table) (hT : HasBasicEntities T) (s : Str) (hs : s.all isScalar = true) :
    xhtmlEscapeSB (.b (s.flatMap encC)) = .ok (xhtmlEscape s)
      ∧ xhtmlUnescapeSB T (.b ((xhtmlEscape s).flatMap encC)) = .ok s := by
  refine ⟨escape_bytes s hs, ?_⟩
  simp [xhtmlUnescapeSB, toStr, utf8Decode_flatMap_encC _ (escape_scalar s hs), Except.map, unescape_escape T hT s]

example : xhtmlUnescapeSB basicTable (.b ((xhtmlEscape [0xFEFF, 60]).flatMap encC)) = .ok [0xFEFF, 60] :=
  (unescape_escape_bytes basicTable ⟨rfl, rfl, rfl, rfl⟩ [0xFEFF, 60] (by decide)).2
example : toUnicode (.bytes [0xEF, 0xBB, 0xBF]) = .ok (.str [0xFEFF]) := by rfl
example : toUnicode (.bytes [0xEF, 0xBB, 0xBF, 0xEF, 0xBB, 0xBF, 0x61]) = .ok (.str [0xFEFF, 0xFEFF, 0x61]) := by rfl

/-! ## URL -/

/-- `url_unescape(url_escape(s, plus), plus=plus) == s` and the bytes-returning form gives `utf8(s)`,
for every surrogate-free string and both plus modes. -/
theorem unquote_quote (plus : Bool) (s : Str) (hs : s.all isScalar = true) :
    ∃ q, urlEscape plus (.s s) = .ok q ∧ urlUnescape plus (.s q) = .ok s
      ∧ urlUnescapeBytes plus (.s q) = utf8Encode s := by
  obtain ⟨q, hq, hascii, hunq⟩ := unq_urlEscape_bytes plus (s.flatMap encC) (flatMap_encC_lt s hs)
  refine ⟨q, by rw [urlEscape_str plus s hs, hq], ?_, ?_⟩
  · have ha : ∀ x ∈ (if plus then replaceC 43 [32] q else q), x < 128 := by
      cases plus
      · simpa using hascii
      · simpa using replaceC_chars 43 32 q (· < 128) (by omega) hascii
    simp only [urlUnescape, toStr, Except.map]
    rw [unquoteStr_ascii _ ha, hunq, utf8DecodeReplace_flatMap_encC s hs]
  · cases plus
    · simp only [urlUnescapeBytes, toBytes, Bool.false_eq_true, if_false] at hunq ⊢
      rw [utf8Encode_ascii q hascii]
      simp [Except.map, hunq, utf8Encode, hs]
    · have ha := replaceC_chars 43 32 q (· < 128) (by omega) hascii
      simp only [urlUnescapeBytes, toStr, if_true] at hunq ⊢
      rw [utf8Encode_ascii _ ha]
      simp [Except.map, hunq, utf8Encode, hs]

/-- bytes in, bytes out: `url_unescape(url_escape(b, plus), encoding=None, plus=plus) == b` for every byte string -/
theorem unquote_quote_bytes (plus : Bool) (b : Bytes) (hb : b.all (· < 256) = true) :
    ∃ q, urlEscape plus (.b b) = .ok q ∧ urlUnescapeBytes plus (.s q) = .ok b := by
  obtain ⟨q, hq, hascii, hunq⟩ := unq_urlEscape_bytes plus b hb
  refine ⟨q, hq, ?_⟩
  cases plus
  · simp only [urlUnescapeBytes, toBytes, Bool.false_eq_true, if_false] at hunq ⊢
    rw [utf8Encode_ascii q hascii]; simp [Except.map, hunq]
  · have ha := replaceC_chars 43 32 q (· < 128) (by omega) hascii
    simp only [urlUnescapeBytes, toStr, if_true] at hunq ⊢
    rw [utf8Encode_ascii _ ha]; simp [Except.map, hunq]

/-- the quoted form is pure ASCII (so it survives any transport) -/
theorem quote_ascii (plus : Bool) (b : Bytes) (hb : b.all (· < 256) = true) :
    ∃ q, urlEscape plus (.b b) = .ok q ∧ ∀ x ∈ q, x < 128 := by
  obtain ⟨q, hq, hascii, _⟩ := unq_urlEscape_bytes plus b hb
  exact ⟨q, hq, hascii⟩

example : urlEscape true (.s [97, 32, 43, 233, 47]) = .ok [97, 43, 37, 50, 66, 37, 67, 51, 37, 65, 57, 37, 50, 70] := by rfl
example : urlUnescape true (.s [97, 43, 37, 50, 66, 37, 67, 51, 37, 65, 57, 37, 50, 70]) = .ok [97, 32, 43, 233, 47] := by rfl

/-! ## JSON -/

/-- for every string `s` (in particular every output of `json.dumps`) the replaced string contains no `</` -/
theorem json_no_close_tag (s : Str) : Spec.noCloseTag (jsonEscapeSlash s) = true := by
  simp [Spec.noCloseTag, hasSub2_jsonEscapeSlash]

example : jsonEscapeSlash [34, 60, 47, 60, 60, 47, 47, 34] = [34, 60, 92, 47, 60, 60, 92, 47, 47, 34] := by decide

/-! ## UTF-8 helpers -/

/-- `to_unicode(utf8(s)) == s` for every surrogate-free string -/
theorem utf8_roundtrip (s : Str) (hs : s.all isScalar = true) :
    ∃ b, utf8 (.str s) = .ok (.bytes b) ∧ toUnicode (.bytes b) = .ok (.str s) := by
  refine ⟨s.flatMap encC, by simp [utf8, utf8Encode, hs, Except.map], ?_⟩
  simp [toUnicode, utf8Decode_flatMap_encC s hs, Except.map]

/-- `utf8(to_unicode(b)) == b` whenever `to_unicode` accepts `b` (i.e. on valid UTF-8), and then the text has
no surrogates: the two helpers are mutually inverse on valid data. -/
theorem utf8_roundtrip_bytes (b : Bytes) (s : Str) (h : toUnicode (.bytes b) = .ok (.str s)) :
    utf8 (.str s) = .ok (.bytes b) ∧ s.all isScalar = true := by
  simp only [toUnicode, utf8Decode] at h
  cases hd : allSome (decodeG b) with
  | none => simp [hd, Except.map] at h
  | some s' =>
    simp [hd, Except.map] at h
    subst h
    obtain ⟨h1, h2⟩ := encode_of_decodeG b s' hd
    simp [utf8, utf8Encode, h1, h2, Except.map]

/-- `None` and values of the right type pass through unchanged; every other type is rejected -/
theorem utf8_rejects_other : utf8 .other = .error .typeError ∧ toUnicode .other = .error .typeError
    ∧ utf8 .none = .ok .none ∧ toUnicode .none = .ok .none
    ∧ (∀ b, utf8 (.bytes b) = .ok (.bytes b)) ∧ (∀ s, toUnicode (.str s) = .ok (.str s)) := by
  simp [utf8, toUnicode]

example : toUnicode (.bytes [0xE2, 0x82, 0xAC, 0xF0, 0x9F, 0x98, 0x80]) = .ok (.str [0x20AC, 0x1F600]) := by rfl
example : toUnicode (.bytes [0xED, 0xA0, 0x80]) = .error .decodeError := by rfl

/-! ## query strings -/

/-- **qs_bytes_preserved**: for every list of (name, value) byte-string pairs, parsing its form-encoding with
`keep_blank_values=True` returns exactly those pairs, byte for byte and in order (`parse_qsl` level), and
`parse_qs_bytes` returns them grouped by name in first-occurrence order without error. -/
theorem qs_bytes_preserved (pairs : List (Bytes × Bytes)) (h : BytePairs pairs) :
    parseQsl true false (Spec.encodeQs pairs) = .ok pairs
    ∧ parseQsBytes true false (Spec.encodeQs pairs) = .ok (groupPairs pairs) := by
  have h1 : parseQsl true false (Spec.encodeQs pairs) = .ok pairs := by
    rw [parseQsl_encodeQs true pairs h]; simp
  refine ⟨h1, ?_⟩
  unfold parseQsBytes
  rw [h1]
  simp only [groupPairs_latin1 pairs (fun p hp => (h p hp).2), if_true]

/-- default `keep_blank_values=False`: exactly the pairs with a non-empty value survive, unchanged -/
theorem qs_bytes_preserved_default (pairs : List (Bytes × Bytes)) (h : BytePairs pairs) :
    parseQsl false false (Spec.encodeQs pairs) = .ok (pairs.filter (fun p => !p.2.isEmpty)) := by
  rw [parseQsl_encodeQs false pairs h]; simp

example : BytePairs [([97, 38], [61, 255, 32]), ([], [43])] := by
  intro p hp; simp at hp; rcases hp with rfl | rfl <;> decide
example : Spec.encodeQs [([97, 38], [61, 255, 32]), ([], [43])]
    = [97, 37, 50, 54, 61, 37, 51, 68, 37, 70, 70, 43, 38, 61, 37, 50, 66] := by decide   -- a%26=%3D%FF+&=%2B
example : parseQsBytes true false [97, 37, 50, 54, 61, 37, 51, 68, 37, 70, 70, 43, 38, 61, 37, 50, 66]
    = .ok [([97, 38], [[61, 255, 32]]), ([], [[43]])] := by rfl

/-! ## shortcuts in the Python that the model leaves out are subsumed -/

/-- the `if '&' not in s: return s` shortcut of `html.unescape` is subsumed by the scan -/
theorem unescape_no_amp (T : Table) (s : Str) (h : ∀ c ∈ s, c ≠ 38) : xhtmlUnescape T s = s := by
  unfold xhtmlUnescape
  induction s with
  | nil => rfl
  | cons c s ih =>
    simp only [unescGo, if_neg (h c (by simp))]
    rw [ih (fun y hy => h y (by simp [hy]))]

/-- the `if not bs.rstrip(_ALWAYS_SAFE_BYTES + safe): return bs.decode()` shortcut of `quote_from_bytes` is subsumed -/
theorem quote_all_safe (safe : List Nat) (bs : Bytes) (h : ∀ b ∈ bs, (alwaysSafe b || safe.contains b) = true) :
    quoteFromBytes safe bs = bs := by
  induction bs with
  | nil => rfl
  | cons b bs ih =>
    simp only [quoteFromBytes, List.flatMap_cons] at ih ⊢
    rw [ih (fun y hy => h y (by simp [hy]))]
    simp only [quoteByte, h b (by simp), if_true]; rfl

/-- the five sequential `replace` passes of `html.escape` equal one pass over the characters -/
theorem escape_single_pass (s : Str) : xhtmlEscape s = s.flatMap escC := htmlEscape_eq_flatMap s

end TornadoModel.C21
