import TornadoModel.C21.Lemmas
namespace TornadoModel.C21
end TornadoModel.C21
