/-
C21 — model of the escaping / encoding helpers of `tornado/escape.py` (core Lean only).

Anchors: `xhtml_escape` (= `html.escape`), `xhtml_unescape` (= `html.unescape`, algorithm parametrised by
the entity table), `url_escape` (`urllib.parse.quote` / `quote_plus`), `url_unescape`
(`unquote` / `unquote_plus` / `unquote_to_bytes`), `json_encode` (the `.replace("</", "<\\/")` step),
`utf8`, `to_unicode`, `parse_qs_bytes` (`urllib.parse.parse_qs` with latin-1).

Python `str` = list of code points, `bytes` = list of byte values; both `List Nat`.
-/
namespace TornadoModel.C21

abbrev Str := List Nat
abbrev Bytes := List Nat

inductive Err where
  | encodeError    -- UnicodeEncodeError
  | decodeError    -- UnicodeDecodeError
  | valueError     -- ValueError
  | typeError      -- TypeError
  deriving Repr, DecidableEq

/-- a `str | bytes` argument -/
inductive SB where
  | s (v : Str)
  | b (v : Bytes)
  deriving Repr, DecidableEq

/-! ## UTF-8 (CPython `str.encode("utf-8")`, `bytes.decode("utf-8", "strict" | "replace")`) -/

def isScalar (c : Nat) : Bool := c < 0xD800 || (0xDFFF < c && c ≤ 0x10FFFF)

def encC (c : Nat) : Bytes :=
  if c < 0x80 then [c]
  else if c < 0x800 then [0xC0 + c / 64, 0x80 + c % 64]
  else if c < 0x10000 then [0xE0 + c / 4096, 0x80 + c / 64 % 64, 0x80 + c % 64]
  else [0xF0 + c / 262144, 0x80 + c / 4096 % 64, 0x80 + c / 64 % 64, 0x80 + c % 64]

/-- `s.encode("utf-8")`: `UnicodeEncodeError` on lone surrogates -/
def utf8Encode (s : Str) : Except Err Bytes :=
  if s.all isScalar then .ok (s.flatMap encC) else .error .encodeError

def isCont (b : Nat) : Bool := 0x80 ≤ b && b ≤ 0xBF
/-- admissible range of the second byte after lead byte `b0` (Unicode table 3-7) -/
def lo2 (b0 : Nat) : Nat := if b0 = 0xE0 then 0xA0 else if b0 = 0xF0 then 0x90 else 0x80
def hi2 (b0 : Nat) : Nat := if b0 = 0xED then 0x9F else if b0 = 0xF4 then 0x8F else 0xBF
def okSecond (b0 b1 : Nat) : Bool := lo2 b0 ≤ b1 && b1 ≤ hi2 b0

/-- the CPython UTF-8 decoder as a generic scan: `some c` = decoded code point, `none` = one decoding error
(one maximal ill-formed subsequence; `errors="replace"` turns it into U+FFFD, `"strict"` raises). -/
def decodeG : Bytes → List (Option Nat)
  | [] => []
  | b0 :: r0 =>
    if b0 < 0x80 then some b0 :: decodeG r0
    else if b0 < 0xC2 then none :: decodeG r0
    else if b0 < 0xE0 then
      match r0 with
      | [] => [none]
      | b1 :: r1 =>
        if isCont b1 then some ((b0 - 0xC0) * 64 + (b1 - 0x80)) :: decodeG r1
        else none :: decodeG (b1 :: r1)
    else if b0 < 0xF0 then
      match r0 with
      | [] => [none]
      | b1 :: r1 =>
        if okSecond b0 b1 then
          match r1 with
          | [] => [none]
          | b2 :: r2 =>
            if isCont b2 then some ((b0 - 0xE0) * 4096 + (b1 - 0x80) * 64 + (b2 - 0x80)) :: decodeG r2
            else none :: decodeG (b2 :: r2)
        else none :: decodeG (b1 :: r1)
    else if b0 < 0xF5 then
      match r0 with
      | [] => [none]
      | b1 :: r1 =>
        if okSecond b0 b1 then
          match r1 with
          | [] => [none]
          | b2 :: r2 =>
            if isCont b2 then
              match r2 with
              | [] => [none]
              | b3 :: r3 =>
                if isCont b3 then
                  some ((b0 - 0xF0) * 262144 + (b1 - 0x80) * 4096 + (b2 - 0x80) * 64 + (b3 - 0x80)) :: decodeG r3
                else none :: decodeG (b3 :: r3)
            else none :: decodeG (b2 :: r2)
        else none :: decodeG (b1 :: r1)
    else none :: decodeG r0

def allSome : List (Option Nat) → Option (List Nat)
  | [] => some []
  | none :: _ => none
  | some c :: r => match allSome r with
    | some l => some (c :: l)
    | none => none

/-- `b.decode("utf-8")` (strict) -/
def utf8Decode (b : Bytes) : Except Err Str :=
  match allSome (decodeG b) with
  | some s => .ok s
  | none => .error .decodeError

def replC (o : Option Nat) : Nat := match o with | some c => c | none => 0xFFFD
/-- `b.decode("utf-8", "replace")` -/
def utf8DecodeReplace (b : Bytes) : Str := (decodeG b).map replC

/-! ## `utf8` / `to_unicode` -/

inductive PyVal where
  | none
  | str (s : Str)
  | bytes (b : Bytes)
  | other            -- any other type (int, list, …)
  deriving Repr, DecidableEq

def utf8 : PyVal → Except Err PyVal
  | .none => .ok .none
  | .bytes b => .ok (.bytes b)
  | .str s => (utf8Encode s).map PyVal.bytes
  | .other => .error .typeError

def toUnicode : PyVal → Except Err PyVal
  | .none => .ok .none
  | .str s => .ok (.str s)
  | .bytes b => (utf8Decode b).map PyVal.str
  | .other => .error .typeError

/-- `to_unicode` on a `str | bytes` argument (`to_basestring`) -/
def toStr : SB → Except Err Str
  | .s v => .ok v
  | .b v => utf8Decode v

/-! ## `html.escape` -/

/-- `s.replace(chr c, rep)` for a one-character pattern -/
def replaceC (c : Nat) (rep : Str) (s : Str) : Str := s.flatMap (fun x => if x = c then rep else [x])

def ampE : Str := [38, 97, 109, 112, 59]          -- &amp;
def ltE : Str := [38, 108, 116, 59]               -- &lt;
def gtE : Str := [38, 103, 116, 59]               -- &gt;
def quotE : Str := [38, 113, 117, 111, 116, 59]   -- &quot;
def aposE : Str := [38, 35, 120, 50, 55, 59]      -- &#x27;

/-- `html.escape(s)`: the five `replace` passes in source order, `&` first -/
def htmlEscape (s : Str) : Str :=
  replaceC 39 aposE (replaceC 34 quotE (replaceC 62 gtE (replaceC 60 ltE (replaceC 38 ampE s))))

/-- `xhtml_escape(value)` for text -/
def xhtmlEscape (s : Str) : Str := htmlEscape s

/-- `xhtml_escape(value)` for `str | bytes` -/
def xhtmlEscapeSB (v : SB) : Except Err Str := (toStr v).map htmlEscape

/-! ## `html.unescape` parametrised by the entity table -/

abbrev Table := Str → Option Str

def isDigit (c : Nat) : Bool := 48 ≤ c && c ≤ 57
def isHex (c : Nat) : Bool := (48 ≤ c && c ≤ 57) || (65 ≤ c && c ≤ 70) || (97 ≤ c && c ≤ 102)
def hexVal (c : Nat) : Nat := if c ≤ 57 then c - 48 else if c ≤ 70 then c - 55 else c - 87
/-- ``[^\t\n\f <&#;]`` -/
def isNameChar (c : Nat) : Bool :=
  !(c = 9 || c = 10 || c = 12 || c = 32 || c = 60 || c = 38 || c = 35 || c = 59)

def decVal (ds : Str) : Nat := ds.foldl (fun a d => a * 10 + (d - 48)) 0
def hexValS (ds : Str) : Nat := ds.foldl (fun a d => a * 16 + hexVal d) 0

/-- `html._invalid_charrefs` -/
def invalidCharref (n : Nat) : Option Nat :=
  if n = 0x00 then some 0xFFFD else if n = 0x0D then some 0x0D
  else if n = 0x80 then some 0x20AC else if n = 0x81 then some 0x81
  else if n = 0x82 then some 0x201A else if n = 0x83 then some 0x0192
  else if n = 0x84 then some 0x201E else if n = 0x85 then some 0x2026
  else if n = 0x86 then some 0x2020 else if n = 0x87 then some 0x2021
  else if n = 0x88 then some 0x02C6 else if n = 0x89 then some 0x2030
  else if n = 0x8A then some 0x0160 else if n = 0x8B then some 0x2039
  else if n = 0x8C then some 0x0152 else if n = 0x8D then some 0x8D
  else if n = 0x8E then some 0x017D else if n = 0x8F then some 0x8F
  else if n = 0x90 then some 0x90 else if n = 0x91 then some 0x2018
  else if n = 0x92 then some 0x2019 else if n = 0x93 then some 0x201C
  else if n = 0x94 then some 0x201D else if n = 0x95 then some 0x2022
  else if n = 0x96 then some 0x2013 else if n = 0x97 then some 0x2014
  else if n = 0x98 then some 0x02DC else if n = 0x99 then some 0x2122
  else if n = 0x9A then some 0x0161 else if n = 0x9B then some 0x203A
  else if n = 0x9C then some 0x0153 else if n = 0x9D then some 0x9D
  else if n = 0x9E then some 0x017E else if n = 0x9F then some 0x0178
  else none

/-- `html._invalid_codepoints` -/
def invalidCodepoint (n : Nat) : Bool :=
  (1 ≤ n && n ≤ 8) || (0xE ≤ n && n ≤ 0x1F) || (0x7F ≤ n && n ≤ 0x9F) || (0xFDD0 ≤ n && n ≤ 0xFDEF)
    || n = 0xB || (n ≤ 0x10FFFF && 0xFFFE ≤ n % 0x10000)

/-- numeric branch of `_replace_charref` -/
def numericRepl (n : Nat) : Str :=
  match invalidCharref n with
  | some c => [c]
  | none =>
    if (0xD800 ≤ n && n ≤ 0xDFFF) || 0x10FFFF < n then [0xFFFD]
    else if invalidCodepoint n then []
    else [n]

/-- `for x in range(len(s)-1, 1, -1): if s[:x] in _html5: return _html5[s[:x]] + s[x:]` (called with `x = len(s)-1`) -/
def longestPrefix (T : Table) (s : Str) : Nat → Option Str
  | 0 => none
  | x + 1 =>
    if x + 1 < 2 then none
    else match T (s.take (x + 1)) with
      | some r => some (r ++ s.drop (x + 1))
      | none => longestPrefix T s x

/-- named branch of `_replace_charref` -/
def namedRepl (T : Table) (s : Str) : Str :=
  match T s with
  | some r => r
  | none =>
    match longestPrefix T s (s.length - 1) with
    | some r => r
    | none => 38 :: s

def optSemi (rest : Str) : Nat := match rest with
  | c :: _ => if c = 59 then 1 else 0
  | [] => 0

/-- `_charref.match` just after an `&`: `(#[0-9]+;?|#[xX][0-9a-fA-F]+;?|[^\t\n\f <&#;]{1,32};?)`.
Returns the length of group 1 and the replacement text. -/
def matchRef (T : Table) (cs : Str) : Option (Nat × Str) :=
  match cs with
  | [] => none
  | c :: r =>
    if c = 35 then
      let ds := r.takeWhile isDigit
      if !ds.isEmpty then some (1 + ds.length + optSemi (r.drop ds.length), numericRepl (decVal ds))
      else match r with
        | [] => none
        | x :: r' =>
          if x = 120 || x = 88 then
            let hs := r'.takeWhile isHex
            if !hs.isEmpty then some (2 + hs.length + optSemi (r'.drop hs.length), numericRepl (hexValS hs))
            else none
          else none
    else
      let nm := ((c :: r).takeWhile isNameChar).take 32
      if nm.isEmpty then none
      else
        let semi := optSemi ((c :: r).drop nm.length)
        some (nm.length + semi, namedRepl T (if semi = 1 then nm ++ [59] else nm))

/-- `_charref.sub(_replace_charref, s)`; the first argument counts characters still to be skipped
(they belong to the match just replaced). -/
def unescGo (T : Table) : Nat → Str → Str
  | _, [] => []
  | k + 1, _ :: cs => unescGo T k cs
  | 0, c :: cs =>
    if c = 38 then
      match matchRef T cs with
      | some (n, r) => r ++ unescGo T n cs
      | none => c :: unescGo T 0 cs
    else c :: unescGo T 0 cs

/-- `html.unescape(s)` with entity table `T` (`if '&' not in s: return s` is subsumed) -/
def xhtmlUnescape (T : Table) (s : Str) : Str := unescGo T 0 s

def xhtmlUnescapeSB (T : Table) (v : SB) : Except Err Str := (toStr v).map (xhtmlUnescape T)

/-- association-list table (how the harness hands over the needed part of `html.entities.html5`) -/
def tableOf (l : List (Str × Str)) : Table := fun k => (l.find? (fun p => p.1 = k)).map (·.2)

/-! ## `urllib.parse.quote` / `quote_plus` -/

def isAlnum (c : Nat) : Bool := (48 ≤ c && c ≤ 57) || (65 ≤ c && c ≤ 90) || (97 ≤ c && c ≤ 122)
/-- `_ALWAYS_SAFE` -/
def alwaysSafe (b : Nat) : Bool := isAlnum b || b = 95 || b = 46 || b = 45 || b = 126
def hexDigitU (n : Nat) : Nat := if n < 10 then 48 + n else 55 + n
/-- `_Quoter.__missing__` -/
def quoteByte (safe : List Nat) (b : Nat) : Str :=
  if alwaysSafe b || safe.contains b then [b] else [37, hexDigitU (b / 16), hexDigitU (b % 16)]
/-- `quote_from_bytes(bs, safe)` -/
def quoteFromBytes (safe : List Nat) (bs : Bytes) : Str := bs.flatMap (quoteByte safe)

def toBytes : SB → Except Err Bytes
  | .s v => utf8Encode v
  | .b v => .ok v
def sbContains (c : Nat) : SB → Bool
  | .s v => v.contains c
  | .b v => v.contains c

/-- `quote(string, safe)` -/
def quote (safe : List Nat) (v : SB) : Except Err Str := (toBytes v).map (quoteFromBytes safe)
/-- `quote_plus(string)` -/
def quotePlus (v : SB) : Except Err Str :=
  if !sbContains 32 v then quote [] v
  else (quote [32] v).map (replaceC 32 [43])

/-- `url_escape(value, plus)` -/
def urlEscape (plus : Bool) (v : SB) : Except Err Str := if plus then quotePlus v else quote [47] v

/-! ## `unquote` family -/

/-- `_unquote_impl` on bytes: split on `%`, decode the items that start with two hex digits -/
def unq : Bytes → Bytes
  | [] => []
  | c :: rest =>
    if c = 37 then
      match rest with
      | a :: b :: rest' =>
        if isHex a && isHex b then (16 * hexVal a + hexVal b) :: unq rest' else 37 :: unq (a :: b :: rest')
      | [a] => [37, a]
      | [] => [37]
    else c :: unq rest

/-- `_generate_unquoted_parts` joined: maximal ASCII runs are percent-decoded and decoded with `dec`,
everything else is copied; `acc` is the current ASCII run -/
def unqRuns (dec : Bytes → Str) (acc : Str) : Str → Str
  | [] => dec (unq acc)
  | c :: cs =>
    if c < 128 then unqRuns dec (acc ++ [c]) cs
    else dec (unq acc) ++ c :: unqRuns dec [] cs

/-- `unquote(string: str, encoding, errors)` with the decoder as parameter -/
def unquoteStr (dec : Bytes → Str) (s : Str) : Str := if !s.contains 37 then s else unqRuns dec [] s

/-- `url_unescape(value, encoding="utf-8", plus)` -/
def urlUnescape (plus : Bool) (v : SB) : Except Err Str :=
  (toStr v).map (fun s => unquoteStr utf8DecodeReplace (if plus then replaceC 43 [32] s else s))

/-- `url_unescape(value, encoding=None, plus)` -/
def urlUnescapeBytes (plus : Bool) (v : SB) : Except Err Bytes :=
  if plus then
    match toStr v with
    | .ok s => (utf8Encode (replaceC 43 [32] s)).map unq
    | .error e => .error e
  else (toBytes v).map unq

/-! ## `json_encode`: the post-processing of `json.dumps` -/

/-- `s.replace("</", "<\\/")` -/
def jsonEscapeSlash : Str → Str
  | [] => []
  | c :: rest =>
    match rest with
    | d :: rest' => if c = 60 ∧ d = 47 then 60 :: 92 :: 47 :: jsonEscapeSlash rest' else c :: jsonEscapeSlash (d :: rest')
    | [] => [c]

/-! ## `parse_qs_bytes` -/

/-- `s.split(chr sep)`: always at least one piece -/
def splitOnC (sep : Nat) : Str → List Str
  | [] => [[]]
  | c :: cs =>
    if c = sep then [] :: splitOnC sep cs
    else match splitOnC sep cs with
      | [] => [[c]]          -- unreachable
      | w :: ws => (c :: w) :: ws

/-- `s.split("=", 1)`: `none` when there is no `=` -/
def split1 (sep : Nat) : Str → Option (Str × Str)
  | [] => none
  | c :: cs =>
    if c = sep then some ([], cs)
    else match split1 sep cs with
      | some (a, b) => some (c :: a, b)
      | none => none

/-- `unquote(x.replace("+", " "), encoding="latin-1", errors="strict")` -/
def unquoteLatin1Plus (s : Str) : Str := unquoteStr (fun b => b) (replaceC 43 [32] s)

/-- one `name_value` item of `parse_qsl`: `.ok none` = skipped -/
def parseItem (keepBlank strict : Bool) (nv : Str) : Except Err (Option (Str × Str)) :=
  if nv.isEmpty && !strict then .ok none
  else match split1 61 nv with
    | none =>
      if strict then .error .valueError
      else if keepBlank then .ok (some (unquoteLatin1Plus nv, []))
      else .ok none
    | some (n, v) =>
      if !v.isEmpty || keepBlank then .ok (some (unquoteLatin1Plus n, unquoteLatin1Plus v)) else .ok none

def parseItems (keepBlank strict : Bool) : List Str → Except Err (List (Str × Str))
  | [] => .ok []
  | nv :: rest =>
    match parseItem keepBlank strict nv with
    | .error e => .error e
    | .ok o =>
      match parseItems keepBlank strict rest with
      | .error e => .error e
      | .ok l => .ok (match o with | some p => p :: l | none => l)

/-- `urllib.parse.parse_qsl(qs, keep_blank_values, strict_parsing, encoding="latin-1", errors="strict")` -/
def parseQsl (keepBlank strict : Bool) (qs : Str) : Except Err (List (Str × Str)) :=
  if qs.isEmpty then .ok [] else parseItems keepBlank strict (splitOnC 38 qs)

/-- append `v` to the list stored under `k`, new keys at the end (dict insertion order) -/
def dictAppend (k v : Str) : List (Str × List Str) → List (Str × List Str)
  | [] => [(k, [v])]
  | (k', vs) :: rest => if k' = k then (k', vs ++ [v]) :: rest else (k', vs) :: dictAppend k v rest

/-- the grouping loop of `parse_qs` -/
def groupPairs (ps : List (Str × Str)) : List (Str × List Str) :=
  ps.foldl (fun d p => dictAppend p.1 p.2 d) []

def isLatin1 (s : Str) : Bool := s.all (· < 256)

/-- `parse_qs_bytes(qs, keep_blank_values, strict_parsing)`; for `bytes` input `qs` is its latin-1 decoding -/
def parseQsBytes (keepBlank strict : Bool) (qs : Str) : Except Err (List (Str × List Bytes)) :=
  match parseQsl keepBlank strict qs with
  | .error e => .error e
  | .ok ps =>
    let d := groupPairs ps
    if d.all (fun kv => kv.2.all isLatin1) then .ok d else .error .encodeError

end TornadoModel.C21
